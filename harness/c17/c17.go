// Package c17: spreadsheet cells land at their addressed grid position.
//
// Oracle: the address -> displayed-value map used by the independent XLSX
// writer (gen/ooxml). Observed at: xlsx.Open(f).Sheet(i).Cell(r,c) (whole grid
// scanned), per-sheet and whole-workbook tab-separated text (line r, field c),
// the Markdown table of tabula.Open(f).ToMarkdown(), the model table of
// tabula.Open(f).Document(), xlsx.Reader.Tables(); and the reference codec
// (IndexToColumn / ColumnToIndex / CellRef / ParseCellRef / ParseRangeRef)
// exhaustively on a bounded range against an independent A1 speller.
//
// Readings chosen where the statement leaves room (always the weaker one):
//   - Markdown and model tables are trimmed to the used range by tabula, so
//     "the row and column its reference names" is asserted relative to the
//     other cells: one common (row,col) offset must place every value.
//   - values are compared with all white space removed.
//   - a covered cell of a merged region counts as blank in the grid API when
//     its Value is empty or the cell is flagged IsMerged && !IsMergeRoot (the
//     grid exposes the flags, so a consumer can tell); in the rendered outputs
//     (text, Markdown, model, Tables) it must be blank.
package c17

import (
	"bytes"
	"fmt"
	"os"
	"path/filepath"
	"sort"
	"strings"

	"github.com/tsawler/tabula"
	"github.com/tsawler/tabula/model"
	"github.com/tsawler/tabula/xlsx"

	"verifharness/fw"
	"verifharness/gen/ooxml"
)

const findingStale = "C17-covered-cell-value-shown"

type failure struct {
	class string
	what  string
}

// checkTable compares a rendered grid with the oracle. abs: table index =
// sheet index (offset 0,0); otherwise one common offset is derived from an
// anchor (a uniquely valued cell). strictBlank: every non-blank table cell
// must be a wanted cell.
func checkTable(view string, tab [][]string, sm *sheetModel, abs bool, cmp *int64) []failure {
	var out []failure
	get := func(i, j int) string {
		if i < 0 || i >= len(tab) || j < 0 || j >= len(tab[i]) {
			return ""
		}
		return stripWS(tab[i][j])
	}
	dr, dc := 0, 0
	if len(sm.Want) == 0 {
		for i := range tab {
			for j := range tab[i] {
				if get(i, j) != "" {
					out = append(out, failure{view + "/unaddressed-value", fmt.Sprintf("%s: sheet %q has no displayed cell, but %q is shown at table position (%d,%d)", view, sm.Name, tab[i][j], i, j)})
					return out
				}
			}
		}
		return nil
	}
	if !abs {
		// anchor = first uniquely valued wanted cell
		var anchor [2]int
		found := false
		for _, a := range sortedWant(sm) {
			if sm.Unique[a] {
				anchor, found = a, true
				break
			}
		}
		if !found {
			return nil // generator guarantees an anchor; nothing decidable otherwise
		}
		av := stripWS(sm.Want[anchor])
		hits := 0
		for i := range tab {
			for j := range tab[i] {
				if get(i, j) == av {
					if hits == 0 {
						dr, dc = anchor[0]-i, anchor[1]-j
					}
					hits++
				}
			}
		}
		if hits == 0 {
			return []failure{{view + "/value-missing", fmt.Sprintf("%s: value %q of cell %s (sheet %q) does not occur in the table (%d rows)", view, sm.Want[anchor], ooxml.XRef(anchor[1], anchor[0]), sm.Name, len(tab))}}
		}
		if hits > 1 {
			return []failure{{view + "/value-duplicated", fmt.Sprintf("%s: value %q of cell %s (sheet %q) occurs %d times", view, sm.Want[anchor], ooxml.XRef(anchor[1], anchor[0]), sm.Name, hits)}}
		}
	}
	for _, a := range sortedWant(sm) {
		*cmp++
		got := get(a[0]-dr, a[1]-dc)
		if got != stripWS(sm.Want[a]) {
			where := locate(tab, stripWS(sm.Want[a]))
			out = append(out, failure{view + "/misplaced-" + sm.Kinds[a].String(), fmt.Sprintf("%s: cell %s of sheet %q (%s) should show %q at table position (%d,%d) [offset %d,%d], found %q%s",
				view, ooxml.XRef(a[1], a[0]), sm.Name, sm.Kinds[a], sm.Want[a], a[0]-dr, a[1]-dc, dr, dc, get(a[0]-dr, a[1]-dc), where)})
			if len(out) >= 3 {
				return out
			}
		}
	}
	for i := range tab {
		for j := range tab[i] {
			g := get(i, j)
			if g == "" {
				continue
			}
			a := [2]int{i + dr, j + dc}
			if _, ok := sm.Want[a]; ok {
				continue
			}
			*cmp++
			cls := "/unaddressed-value"
			why := "no cell with that reference has a displayed value"
			if sm.Covered[a] {
				cls = "/covered-cell-not-blank"
				why = "that cell is a covered (non top-left) cell of a merged region and must be blank"
			}
			out = append(out, failure{view + cls, fmt.Sprintf("%s: %q is shown at table position (%d,%d) = cell %s of sheet %q; %s", view, tab[i][j], i, j, ooxml.XRef(a[1], a[0]), sm.Name, why)})
			if len(out) >= 3 {
				return out
			}
		}
	}
	return out
}

func locate(tab [][]string, v string) string {
	if v == "" {
		return ""
	}
	for i := range tab {
		for j := range tab[i] {
			if stripWS(tab[i][j]) == v {
				return fmt.Sprintf("; the value is at table position (%d,%d) instead", i, j)
			}
		}
	}
	return "; the value occurs nowhere in the table"
}

func sortedWant(sm *sheetModel) [][2]int {
	out := make([][2]int, 0, len(sm.Want))
	for k := range sm.Want {
		out = append(out, k)
	}
	sort.Slice(out, func(i, j int) bool {
		if out[i][0] != out[j][0] {
			return out[i][0] < out[j][0]
		}
		return out[i][1] < out[j][1]
	})
	return out
}

// splitMDRow splits "| a | b |" into cells (a backslash escapes the bar).
func splitMDRow(line string) []string {
	line = strings.TrimSpace(line)
	line = strings.TrimPrefix(line, "|")
	var cells []string
	var cur strings.Builder
	for i := 0; i < len(line); i++ {
		switch {
		case line[i] == '\\' && i+1 < len(line):
			cur.WriteByte(line[i+1])
			i++
		case line[i] == '|':
			cells = append(cells, strings.TrimSpace(cur.String()))
			cur.Reset()
		default:
			cur.WriteByte(line[i])
		}
	}
	if strings.TrimSpace(cur.String()) != "" {
		cells = append(cells, strings.TrimSpace(cur.String()))
	}
	return cells
}

func isSeparatorRow(cells []string) bool {
	if len(cells) == 0 {
		return false
	}
	for _, c := range cells {
		if strings.Trim(c, "-: ") != "" || !strings.Contains(c, "-") {
			return false
		}
	}
	return true
}

// mdTables cuts the Markdown at "## <sheet name>" headings and returns the
// pipe table below each heading (header row + data rows, separator dropped).
func mdTables(md string, names []string) map[string][][]string {
	out := map[string][][]string{}
	isName := map[string]bool{}
	for _, n := range names {
		isName[n] = true
	}
	cur := ""
	for _, ln := range strings.Split(md, "\n") {
		t := strings.TrimSpace(ln)
		if strings.HasPrefix(t, "#") {
			h := strings.TrimSpace(strings.TrimLeft(t, "#"))
			if isName[h] {
				cur = h
				out[cur] = nil
				continue
			}
		}
		if cur == "" || !strings.HasPrefix(t, "|") {
			continue
		}
		cells := splitMDRow(t)
		if len(out[cur]) == 1 && isSeparatorRow(cells) {
			continue
		}
		out[cur] = append(out[cur], cells)
	}
	return out
}

func tsvGrid(s string) [][]string {
	if s == "" {
		return nil
	}
	var tab [][]string
	for _, ln := range strings.Split(s, "\n") {
		tab = append(tab, strings.Split(strings.TrimSuffix(ln, "\r"), "\t"))
	}
	return tab
}

// runWorkbook generates, writes and checks one workbook; it returns the
// failures instead of reporting them (the caller attributes them).
func runWorkbook(c *fw.Ctx, idx int, o genOpts, record bool) ([]failure, *wbModel, map[string]any) {
	wb, m := genWorkbook(c, idx, o)
	members := wb.Members(c.Rand("wb", idx, "render"))
	ooxml.PartShuffle(members, c.Rand("wb", idx, "ziporder"))
	data := ooxml.PartZip(members)
	path := filepath.Join(c.Work, fmt.Sprintf("c17-%d-%v%v%v%v.xlsx", idx, o.StaleCovered, o.RowRefOmitted, o.DamagedMerge, o.CellRefOmitted))
	if err := os.WriteFile(path, data, 0o644); err != nil {
		c.Inconclusive("cannot write scratch file: " + err.Error())
		return nil, m, nil
	}
	defer os.Remove(path)

	detail := map[string]any{"features": m.Features, "zip_members": ooxml.PartNames(members), "sheets": len(m.Sheets)}
	for _, mem := range members {
		if strings.HasPrefix(mem.Name, "xl/worksheets/") {
			detail[mem.Name] = fw.OneLine(string(mem.Data), 3000)
		}
	}
	var fails []failure
	var cmp int64
	names := make([]string, len(m.Sheets))
	for i := range m.Sheets {
		names[i] = m.Sheets[i].Name
	}
	hidden := func(view, s string) {
		for _, h := range m.Hidden {
			if strings.Contains(s, h) {
				// where it sits is reported by the per-position checks for stale
				// values; phonetic runs and unused shared strings have no position
				isStale := false
				for si := range m.Sheets {
					for _, v := range m.Sheets[si].Stale {
						if v == h {
							isStale = true
						}
					}
				}
				if !isStale {
					fails = append(fails, failure{view + "/hidden-text-shown", fmt.Sprintf("%s shows %q, which is a phonetic run or an unreferenced shared string and belongs to no cell's displayed value", view, h)})
				}
			}
		}
	}

	// (A) grid API + per-sheet text + Tables()
	c.Guard("xlsx-open", fmt.Sprintf("wb:%d", idx), detail, func() {
		xr, err := xlsx.Open(path)
		if err != nil {
			fails = append(fails, failure{"open-error", fmt.Sprintf("xlsx.Open failed on a conforming workbook: %v", err)})
			return
		}
		defer xr.Close()
		if xr.SheetCount() != len(m.Sheets) {
			fails = append(fails, failure{"sheet-count", fmt.Sprintf("workbook declares %d sheets, reader has %d", len(m.Sheets), xr.SheetCount())})
			return
		}
		if idx%2 == 1 {
			// the Reader has already served other views (a selection of sheets, Markdown,
			// the document model): the grid it hands out afterwards is still the workbook
			xr.TextWithOptions(xlsx.ExtractOptions{Sheets: []int{len(m.Sheets) - 1}})
			xr.MarkdownWithOptions(xlsx.ExtractOptions{Sheets: []int{len(m.Sheets) - 1}, IncludeHeaders: true})
			xr.Markdown()
			xr.Document()
			xr.Tables()
		}
		tables := xr.Tables()
		for k := range m.Sheets {
			sm := &m.Sheets[k]
			sh, err := xr.Sheet(k)
			if err != nil || sh == nil {
				fails = append(fails, failure{"sheet-missing", fmt.Sprintf("Sheet(%d): %v", k, err)})
				continue
			}
			// grid
			for _, a := range sortedWant(sm) {
				cmp++
				cell := sh.Cell(a[0], a[1])
				got := "<nil>"
				if cell != nil {
					got = cell.Value
				}
				if cell == nil || stripWS(got) != stripWS(sm.Want[a]) {
					fails = append(fails, failure{"grid/misplaced-" + sm.Kinds[a].String(), fmt.Sprintf("Sheet(%d).Cell(%d,%d) [%s, %s] = %q, want %q", k, a[0], a[1], ooxml.XRef(a[1], a[0]), sm.Kinds[a], got, sm.Want[a])})
					break
				}
			}
			for ri, row := range sh.Rows {
				for ci := range row {
					cell := sh.Cell(ri, ci)
					if cell == nil || stripWS(cell.Value) == "" {
						continue
					}
					a := [2]int{ri, ci}
					if _, ok := sm.Want[a]; ok {
						continue
					}
					cmp++
					if sm.Covered[a] && cell.IsMerged && !cell.IsMergeRoot {
						continue // flagged as covered: a consumer can tell it is not displayed (weaker reading)
					}
					fails = append(fails, failure{"grid/unaddressed-value", fmt.Sprintf("Sheet(%d).Cell(%d,%d) [%s] holds %q but no cell with that reference has a displayed value", k, ri, ci, ooxml.XRef(ci, ri), cell.Value)})
				}
			}
			// per-sheet TSV: line r, field c
			txt, err := xr.TextWithOptions(xlsx.ExtractOptions{Sheets: []int{k}})
			if err != nil {
				fails = append(fails, failure{"text-error", fmt.Sprintf("TextWithOptions(sheet %d): %v", k, err)})
			} else {
				fails = append(fails, checkTable("sheet-text", tsvGrid(txt), sm, true, &cmp)...)
				hidden("sheet-text", txt)
			}
			// Tables(): header row + data rows, trimmed to the used range
			if k < len(tables) {
				var tab [][]string
				if len(tables[k].Headers) > 0 || len(tables[k].Rows) > 0 {
					tab = append(tab, tables[k].Headers)
					tab = append(tab, tables[k].Rows...)
				}
				fails = append(fails, checkTable("Tables()", tab, sm, false, &cmp)...)
			}
		}
	})

	// (B) whole-workbook text through the public facade
	c.Guard("facade-text", fmt.Sprintf("wb:%d", idx), detail, func() {
		ext := tabula.Open(path)
		defer ext.Close()
		txt, _, err := ext.Text()
		if err != nil {
			fails = append(fails, failure{"facade-text-error", fmt.Sprintf("tabula.Open(f).Text(): %v", err)})
			return
		}
		hidden("Text()", txt)
		tab := tsvGrid(txt)
		if len(m.Sheets) == 1 {
			fails = append(fails, checkTable("Text()", tab, &m.Sheets[0], true, &cmp)...)
			return
		}
		// several sheets: each sheet's lines form one block; the block offset is
		// derived from the sheet's anchor, all its cells must agree with it,
		// fields are absolute, blocks follow each other in sheet order
		prevOff := -1
		for k := range m.Sheets {
			sm := &m.Sheets[k]
			var anchor [2]int
			found := false
			for _, a := range sortedWant(sm) {
				if sm.Unique[a] {
					anchor, found = a, true
					break
				}
			}
			if !found {
				continue
			}
			av := stripWS(sm.Want[anchor])
			off, hits := 0, 0
			for i := range tab {
				for j := range tab[i] {
					if stripWS(tab[i][j]) == av {
						off = i - anchor[0]
						hits++
					}
				}
			}
			if hits != 1 {
				fails = append(fails, failure{"Text()/value-count", fmt.Sprintf("Text(): value %q of cell %s (sheet %d) occurs %d times", sm.Want[anchor], ooxml.XRef(anchor[1], anchor[0]), k, hits)})
				continue
			}
			if k == 0 && off != 0 {
				fails = append(fails, failure{"Text()/line", fmt.Sprintf("Text(): cell %s of the first sheet is on line %d, want line %d", ooxml.XRef(anchor[1], anchor[0]), off+anchor[0]+1, anchor[0]+1)})
			}
			if off <= prevOff {
				fails = append(fails, failure{"Text()/sheet-order", fmt.Sprintf("Text(): block of sheet %d starts at line %d, not after the previous sheet's block (line %d)", k, off, prevOff)})
			}
			prevOff = off
			for _, a := range sortedWant(sm) {
				cmp++
				i, j := a[0]+off, a[1]
				got := ""
				if i >= 0 && i < len(tab) && j < len(tab[i]) {
					got = tab[i][j]
				}
				if stripWS(got) != stripWS(sm.Want[a]) {
					fails = append(fails, failure{"Text()/misplaced-" + sm.Kinds[a].String(), fmt.Sprintf("Text(): cell %s of sheet %d (%s) should show %q on line %d field %d (sheet block starts at line %d), found %q", ooxml.XRef(a[1], a[0]), k, sm.Kinds[a], sm.Want[a], i+1, j+1, off+1, got)})
					break
				}
			}
			for a, v := range sm.Stale {
				_ = a
				if strings.Contains(txt, v) {
					fails = append(fails, failure{"Text()/covered-cell-not-blank", fmt.Sprintf("Text() shows %q, the hidden value of covered cell %s of sheet %d", v, ooxml.XRef(a[1], a[0]), k)})
				}
			}
		}
	})

	// (C) Markdown through the facade
	c.Guard("facade-markdown", fmt.Sprintf("wb:%d", idx), detail, func() {
		ext := tabula.Open(path)
		defer ext.Close()
		md, _, err := ext.ToMarkdown()
		if err != nil {
			fails = append(fails, failure{"facade-markdown-error", fmt.Sprintf("tabula.Open(f).ToMarkdown(): %v", err)})
			return
		}
		tabs := mdTables(md, names)
		for k := range m.Sheets {
			sm := &m.Sheets[k]
			tab, ok := tabs[sm.Name]
			if !ok {
				fails = append(fails, failure{"Markdown/sheet-missing", fmt.Sprintf("Markdown has no section for sheet %q", sm.Name)})
				continue
			}
			fails = append(fails, checkTable("Markdown", tab, sm, false, &cmp)...)
		}
	})

	// (D) document model through the facade
	c.Guard("facade-document", fmt.Sprintf("wb:%d", idx), detail, func() {
		ext := tabula.Open(path)
		defer ext.Close()
		doc, _, err := ext.Document()
		if err != nil || doc == nil {
			fails = append(fails, failure{"facade-document-error", fmt.Sprintf("tabula.Open(f).Document(): %v", err)})
			return
		}
		if len(doc.Pages) != len(m.Sheets) {
			fails = append(fails, failure{"Document/pages", fmt.Sprintf("Document() has %d pages for %d sheets", len(doc.Pages), len(m.Sheets))})
			return
		}
		for k := range m.Sheets {
			sm := &m.Sheets[k]
			var tab [][]string
			nt := 0
			for _, el := range doc.Pages[k].Elements {
				if t, ok := el.(*model.Table); ok {
					nt++
					for _, row := range t.Rows {
						cells := make([]string, len(row))
						for j := range row {
							cells[j] = row[j].Text
						}
						tab = append(tab, cells)
					}
				}
			}
			if nt > 1 {
				continue // not a single grid; relative placement undefined
			}
			fails = append(fails, checkTable("Document", tab, sm, false, &cmp)...)
		}
	})

	if record {
		c.Count("cell_comparisons", cmp)
	}
	return fails, m, detail
}

func hasStale(m *wbModel) bool {
	for i := range m.Sheets {
		if len(m.Sheets[i].Stale) > 0 {
			return true
		}
	}
	return false
}

func codec(c *fw.Ctx) {
	id := "codec"
	if !c.Want(id) {
		return
	}
	const nCols, gridC, gridR = 20000, 800, 300
	c.Guard("codec", id, nil, func() {
		bad := 0
		seen := make(map[string]int, nCols)
		for col := 0; col < nCols; col++ {
			c.Case(fmt.Sprintf("codec-col:%d", col), col >= 26)
			s := xlsx.IndexToColumn(col)
			ref := ooxml.XColName(col)
			back := xlsx.ColumnToIndex(s)
			if prev, dup := seen[s]; dup && bad < 3 {
				bad++
				c.Fail("", "codec/not-injective", id, fmt.Sprintf("IndexToColumn(%d) = IndexToColumn(%d) = %q", prev, col, s), nil)
			}
			seen[s] = col
			if (s != ref || back != col || xlsx.ColumnToIndex(ref) != col) && bad < 3 {
				bad++
				c.Fail("", "codec/column", id, fmt.Sprintf("column %d: IndexToColumn = %q (A1 notation: %q), ColumnToIndex(%q) = %d, ColumnToIndex(%q) = %d", col, s, ref, s, back, ref, xlsx.ColumnToIndex(ref)), nil)
			}
		}
		c.Count("codec_columns_checked", nCols)
		n := int64(0)
		for col := 0; col < gridC; col++ {
			for row := 0; row < gridR; row++ {
				n++
				ref := xlsx.CellRef(col, row)
				want := ooxml.XRef(col, row)
				gc, gr, err := xlsx.ParseCellRef(ref)
				wc, wr, err2 := xlsx.ParseCellRef(want)
				if (ref != want || err != nil || gc != col || gr != row || err2 != nil || wc != col || wr != row) && bad < 6 {
					bad++
					c.Fail("", "codec/cellref", id, fmt.Sprintf("(col %d,row %d): CellRef = %q (A1 notation %q); ParseCellRef(%q) = (%d,%d,%v); ParseCellRef(%q) = (%d,%d,%v)", col, row, ref, want, ref, gc, gr, err, want, wc, wr, err2), nil)
				}
			}
		}
		c.Case("codec-grid", true)
		c.Count("codec_cellrefs_checked", n)
		// ranges: both corners must come back (sampled deterministically)
		r := c.Rand("codec", "ranges")
		for i := 0; i < 20000; i++ {
			c0, r0 := r.Intn(gridC), r.Intn(gridR)
			c1, r1 := c0+r.Intn(40), r0+r.Intn(40)
			s := ooxml.XRef(c0, r0) + ":" + ooxml.XRef(c1, r1)
			a, b, cc, d, err := xlsx.ParseRangeRef(s)
			if (err != nil || a != c0 || b != r0 || cc != c1 || d != r1) && bad < 9 {
				bad++
				c.Fail("", "codec/range", id, fmt.Sprintf("ParseRangeRef(%q) = (%d,%d,%d,%d,%v), want (%d,%d,%d,%d)", s, a, b, cc, d, err, c0, r0, c1, r1), nil)
			}
		}
		c.Count("codec_ranges_checked", 20000)
		// strings that are not A1 notation have no preimage: the inverse maps
		// must refuse them instead of inventing coordinates (case and $ are
		// spellings of A1 notation and are not in this list)
		badCells := []string{"", "1A", "A", "1", "A0", "#REF!", " B2", "B2 ", "A-1", "A1B", "A1:B2", "Å1", "A+1"}
		for _, s := range badCells {
			if gc, gr, err := xlsx.ParseCellRef(s); err == nil && bad < 12 {
				bad++
				c.Fail("", "codec/accepts-non-a1", id, fmt.Sprintf("ParseCellRef(%q) = (%d,%d,nil): not A1 notation, no (col,row) maps to it", s, gc, gr), nil)
			}
		}
		nb := int64(len(badCells))
		for i := 0; i < 4000; i++ {
			good := ooxml.XRef(r.Intn(gridC), r.Intn(gridR))
			badc := badCells[r.Intn(len(badCells))]
			if badc == "A1:B2" {
				badc = "A1;B2"
			}
			var s string
			switch i % 4 {
			case 0:
				s = badc + ":" + good
			case 1:
				s = good + ":" + badc
			case 2:
				s = badc + ":" + badc
			default:
				s = good + ":" + good + ":" + good
			}
			nb++
			if a, b, cc, d, err := xlsx.ParseRangeRef(s); err == nil && bad < 15 {
				bad++
				c.Fail("", "codec/accepts-non-a1", id, fmt.Sprintf("ParseRangeRef(%q) = (%d,%d,%d,%d,nil): a corner is not A1 notation", s, a, b, cc, d), nil)
			}
		}
		c.Count("codec_non_a1_strings_checked", nb)
	})
	c.Extra("exhaustive_subspace", fmt.Sprintf("reference codec: every column index in [0,%d) and every (col,row) in [0,%d)x[0,%d)", nCols, gridC, gridR))
}

// runDamagedSheet: a conforming workbook in which one worksheet part (not the
// last sheet) is cut off in the middle of a row. Whether the reader refuses the
// workbook, drops that sheet or shows the rows in front of the cut is not
// judged; the sheets whose parts are intact still show exactly their own cells.
func runDamagedSheet(c *fw.Ctx, idx int) {
	id := fmt.Sprintf("dmg:%d", idx)
	if !c.Want(id) {
		return
	}
	wb, m := genWorkbook(c, 100000+idx, genOpts{})
	if len(m.Sheets) < 2 {
		return
	}
	r := c.Rand("dmg", idx)
	victim := r.Intn(len(m.Sheets) - 1)
	if wb.Sheets[victim].Missing {
		return
	}
	members := wb.Members(c.Rand("dmg", idx, "render"))
	cutOK := false
	for i := range members {
		if members[i].Name != wb.Sheets[victim].Part {
			continue
		}
		d := members[i].Data
		var rows []int
		for at := 0; ; {
			k := bytes.Index(d[at:], []byte("</row>"))
			if k < 0 {
				break
			}
			rows = append(rows, at+k)
			at += k + 6
		}
		if len(rows) < 2 {
			return
		}
		end := rows[1+r.Intn(len(rows)-1)]
		cut := end - 1 - r.Intn(min(12, end-rows[0]-6))
		members[i].Data = append([]byte{}, d[:cut]...)
		cutOK = true
	}
	if !cutOK {
		return
	}
	data := ooxml.PartZip(members)
	path := filepath.Join(c.Work, fmt.Sprintf("c17-dmg-%d.xlsx", idx))
	if os.WriteFile(path, data, 0o644) != nil {
		return
	}
	defer os.Remove(path)
	detail := map[string]any{"features": m.Features, "sheets": len(m.Sheets), "damaged_sheet": victim, "damaged_part": wb.Sheets[victim].Part}
	c.Case(fmt.Sprintf("dmg|%d|%d|%v", idx, victim, m.Features), true)
	var fails []failure
	var cmp int64
	names := make([]string, len(m.Sheets))
	for i := range m.Sheets {
		names[i] = m.Sheets[i].Name
	}
	c.Guard("xlsx-damaged-sheet", id, detail, func() {
		xr, err := xlsx.Open(path)
		if err != nil {
			c.Count("damaged_sheet_workbooks_refused", 1)
			return
		}
		defer xr.Close()
		got := xr.SheetNames()
		for k := range m.Sheets {
			if k == victim {
				continue
			}
			sm := &m.Sheets[k]
			at := -1
			for j, nm := range got {
				if nm == sm.Name {
					at = j
				}
			}
			if at < 0 {
				continue // which sheets survive is C18's subject
			}
			sh, err := xr.Sheet(at)
			if err != nil || sh == nil {
				continue
			}
			c.Count("intact_sheets_beside_a_damaged_one_checked", 1)
			for _, a := range sortedWant(sm) {
				cmp++
				cell := sh.Cell(a[0], a[1])
				if cell == nil || stripWS(cell.Value) != stripWS(sm.Want[a]) {
					g := "<nil>"
					if cell != nil {
						g = cell.Value
					}
					fails = append(fails, failure{"damaged-neighbour/grid", fmt.Sprintf("sheet %q (part intact; sheet %d of the workbook is cut off mid-row): Cell(%d,%d) [%s] = %q, want %q", sm.Name, victim, a[0], a[1], ooxml.XRef(a[1], a[0]), g, sm.Want[a])})
					break
				}
			}
			for ri, row := range sh.Rows {
				for ci := range row {
					cell := sh.Cell(ri, ci)
					a := [2]int{ri, ci}
					if cell == nil || stripWS(cell.Value) == "" || sm.Covered[a] {
						continue
					}
					if _, ok := sm.Want[a]; !ok {
						cmp++
						fails = append(fails, failure{"damaged-neighbour/foreign-value", fmt.Sprintf("sheet %q (part intact; sheet %d of the workbook is cut off mid-row): Cell(%d,%d) [%s] holds %q, the sheet has no such cell", sm.Name, victim, ri, ci, ooxml.XRef(ci, ri), cell.Value)})
						return
					}
				}
			}
		}
		md, err := xr.Markdown()
		if err != nil {
			return
		}
		tabs := mdTables(md, names)
		for k := range m.Sheets {
			if tab, ok := tabs[m.Sheets[k].Name]; ok && k != victim {
				for _, f := range checkTable("Markdown", tab, &m.Sheets[k], false, &cmp) {
					f.class = "damaged-neighbour/" + f.class
					f.what = fmt.Sprintf("(sheet %d of the workbook is cut off mid-row) ", victim) + f.what
					fails = append(fails, f)
				}
			}
		}
	})
	c.Count("cell_comparisons", cmp)
	seen := map[string]bool{}
	for _, f := range fails {
		if !seen[f.class] {
			seen[f.class] = true
			c.Fail("", f.class, id, f.what, detail)
		}
	}
}

// Run is the C17 check.
func Run(c *fw.Ctx) {
	c.Rule("case = one generated workbook (1..5 sheets; address set, cell kinds, merges, writing order, ZIP order) or one codec point; " +
		"a workbook is non-trivial iff it has >= 1 multi-letter column, merged region or out-of-order row; a codec column is non-trivial iff it has >= 2 letters; distinct by hash of the feature vector + addresses")
	c.Assume("the XLSX writer in harness/gen/ooxml follows ECMA-376 Part 1 §18.3 (sheetData/row/c, ST_CellType, mergeCell) and §18.4 (sst/si/r/t/rPh)",
		"displayed value under the General format: strings as stored (rich text = concatenated runs, phonetic runs not shown), booleans TRUE/FALSE, error literal, number literal as written (integers and short decimals only)",
		"covered cells of a merged region display nothing even if the file stores a value for them (spreadsheet applications keep but hide such values)",
		"addresses are bounded to columns A..ZZ and rows 1..200 (the statement's quantifier); absurd r= attributes are C02's subject")
	c.Exhaustive(false)

	codec(c)

	n := c.N(1500, 25000)
	c.Parallel(n, func(i int) {
		id := fmt.Sprintf("wb:%d", i)
		if !c.Want(id) {
			return
		}
		// clean half: even indices never carry the stale-covered-value feature
		o := genOpts{StaleCovered: i%2 == 1, RowRefOmitted: i%2 == 1, DamagedMerge: i%4 == 3, CellRefOmitted: i%4 >= 2}
		fails, m, detail := runWorkbook(c, i, o, true)
		desc := fmt.Sprintf("%v|%d", m.Features, i)
		var addrDesc strings.Builder
		for k := range m.Sheets {
			for _, a := range sortedWant(&m.Sheets[k]) {
				fmt.Fprintf(&addrDesc, "%d:%d,%d;", k, a[0], a[1])
			}
		}
		c.Case(desc+addrDesc.String(), m.Nontriv)
		for _, f := range m.Features {
			c.Seen("feature", f)
		}
		for k := range m.Sheets {
			c.Count("cells_generated", int64(len(m.Sheets[k].Want)))
			for a := range m.Sheets[k].Want {
				if a[1] >= 26 {
					c.Count("cells_in_multi_letter_columns", 1)
				}
			}
			c.Count("covered_cells", int64(len(m.Sheets[k].Covered)))
			c.Count("covered_cells_with_hidden_value", int64(len(m.Sheets[k].Stale)))
		}
		if i < 4 {
			c.Sample(map[string]any{"id": id, "features": m.Features, "sheets": len(m.Sheets)})
		}
		if len(fails) == 0 {
			return
		}
		finding := ""
		if hasStale(m) && c.FindingOpen(findingStale) {
			// counterfactual: the same workbook without hidden values in covered cells
			f2, _, d2 := runWorkbook(c, i, genOpts{StaleCovered: false, RowRefOmitted: o.RowRefOmitted, DamagedMerge: o.DamagedMerge, CellRefOmitted: o.CellRefOmitted}, false)
			if len(f2) == 0 {
				finding = findingStale
			} else {
				fails, detail = f2, d2
				detail["note"] = "failure persists with the stale-covered-value feature neutralised"
			}
		}
		seen := map[string]bool{}
		for _, f := range fails {
			if seen[f.class] {
				continue
			}
			seen[f.class] = true
			c.Fail(finding, f.class, id, f.what, detail)
		}
	})
	c.Parallel(c.N(150, 2500), func(i int) { runDamagedSheet(c, i) })
	if c.Only == "" && c.Evaluations() < int64(n) {
		c.Inconclusive("fewer cases executed than planned")
	}
}
