package c17

import (
	"fmt"
	"math/rand"
	"sort"
	"strings"

	"verifharness/fw"
	"verifharness/gen/ooxml"
)

// sheetModel is the oracle of one sheet: the address -> displayed value map
// the writer used.
type sheetModel struct {
	Name    string
	Want    map[[2]int]string // (row,col) 0-based -> displayed value (non-blank only)
	Unique  map[[2]int]bool   // value is unique in the workbook (token or unique number)
	Covered map[[2]int]bool   // covered (non-root) cells of merged regions: displayed blank
	Stale   map[[2]int]string // covered cells that carry a (hidden) value in the file
	Kinds   map[[2]int]ooxml.XKind
	Rows    int // number of the last <row> written (1-based) = number of grid rows
}

type wbModel struct {
	Sheets   []sheetModel
	Features []string
	Hidden   []string // tokens that must never be displayed (phonetic runs, unused shared strings, stale covered values)
	Nontriv  bool
}

type feat struct {
	set map[string]bool
}

func (f *feat) add(s string) { f.set[s] = true }
func (f *feat) list() []string {
	out := make([]string, 0, len(f.set))
	for k := range f.set {
		out = append(out, k)
	}
	sort.Strings(out)
	return out
}

var errLiterals = []string{"#DIV/0!", "#N/A", "#NAME?", "#NULL!", "#NUM!", "#REF!", "#VALUE!"}

var filler = []string{"alpha", "beta", "gamma", "delta", "total", "north", "south", "units", "rate", "sum"}

// genOpts switches generator features (used for attribution by counterfactual
// and to keep a clean half of the case list).
type genOpts struct {
	StaleCovered   bool // covered cells of a merged region may carry a hidden value
	RowRefOmitted  bool // <row> elements may omit the optional r attribute
	CellRefOmitted bool // <c> elements may omit the optional r attribute where the position follows from the previous cell
	DamagedMerge   bool // <mergeCell> refs that name no A1 range (one corner unparseable) may be present; they merge nothing
}

// genWorkbook builds one workbook and its oracle. Every aspect draws from its
// own PRNG stream so that switching one feature off leaves the rest unchanged.
func genWorkbook(c *fw.Ctx, idx int, o genOpts) (*ooxml.XWorkbook, *wbModel) {
	r := c.Rand("wb", idx)
	toks := fw.NewTokens(c.Rand("wb", idx, "tokens"))
	// tokens for hidden values are reserved up front (whether used or not) so
	// that switching the feature off does not shift any other token
	var stalePool []string
	for i := 0; i < 64; i++ {
		stalePool = append(stalePool, toks.Next())
	}
	f := &feat{set: map[string]bool{}}
	wb := &ooxml.XWorkbook{Styles: r.Intn(3) > 0, DocProps: r.Intn(2) == 0, Title: "c17"}
	m := &wbModel{}

	nSheets := 1
	switch x := r.Intn(10); {
	case x < 4:
		nSheets = 1
	case x < 8:
		nSheets = 2 + r.Intn(2)
	default:
		nSheets = 4 + r.Intn(2)
	}
	f.add(fmt.Sprintf("sheets=%d", nSheets))
	uniqueNum := 100000 + r.Intn(1000)

	for si := 0; si < nSheets; si++ {
		rs := c.Rand("wb", idx, "sheet", si)
		sm := sheetModel{
			Name: toks.Next(), Want: map[[2]int]string{}, Unique: map[[2]int]bool{}, Covered: map[[2]int]bool{},
			Stale: map[[2]int]string{}, Kinds: map[[2]int]ooxml.XKind{},
		}
		sh := ooxml.XSheet{
			Name: sm.Name, Part: fmt.Sprintf("xl/worksheets/sheet%d.xml", si+1), RID: fmt.Sprintf("rId%d", si+1), SheetID: si + 1,
			AbsTarget: rs.Intn(5) == 0, Dimension: rs.Intn(2) == 0, Spans: rs.Intn(3) == 0,
		}

		// address set
		addrs := map[[2]int]bool{}
		profile := "dense"
		switch x := rs.Intn(20); {
		case x < 6:
			profile = "dense"
		case x < 10:
			profile = "offset"
		case x < 14:
			profile = "multiletter"
		case x < 18:
			profile = "sparse"
		case x < 19:
			profile = "sparse-wide"
		default:
			profile = "empty"
		}
		if profile == "empty" && nSheets == 1 {
			profile = "dense"
		}
		f.add("profile=" + profile)
		switch profile {
		case "dense", "offset", "multiletter":
			r0, c0 := 0, 0
			if profile == "offset" {
				r0, c0 = 1+rs.Intn(12), 1+rs.Intn(12)
			}
			if profile == "multiletter" {
				r0 = rs.Intn(6)
				c0 = []int{20, 24, 25, 26, 27, 50, 51, 52, 77, 100}[rs.Intn(10)] + rs.Intn(3)
			}
			h, w := 1+rs.Intn(7), 1+rs.Intn(7)
			fill := 0.5 + rs.Float64()*0.5
			for i := 0; i < h; i++ {
				for j := 0; j < w; j++ {
					if rs.Float64() < fill {
						addrs[[2]int{r0 + i, c0 + j}] = true
					}
				}
			}
			if len(addrs) == 0 {
				addrs[[2]int{r0, c0}] = true
			}
		case "sparse":
			n := 3 + rs.Intn(20)
			maxC := []int{8, 30, 60, 120}[rs.Intn(4)]
			maxR := []int{10, 40, 200}[rs.Intn(3)]
			for i := 0; i < n; i++ {
				addrs[[2]int{rs.Intn(maxR), rs.Intn(maxC)}] = true
			}
		case "sparse-wide":
			n := 3 + rs.Intn(12)
			for i := 0; i < n; i++ {
				addrs[[2]int{rs.Intn(200), rs.Intn(702)}] = true
			}
			// the last column ZZ and row 200 now and then
			if rs.Intn(3) == 0 {
				addrs[[2]int{199, 701}] = true
			}
		}

		// merged regions: non-overlapping rectangles anchored at existing or new addresses
		type rect struct{ c0, r0, c1, r1 int }
		var rects []rect
		if profile != "empty" && rs.Intn(5) < 2 {
			nm := 1 + rs.Intn(3)
			keys := sortedKeys(addrs)
			for k := 0; k < nm; k++ {
				a := keys[rs.Intn(len(keys))]
				h, w := 1+rs.Intn(3), 1+rs.Intn(4)
				if h == 1 && w == 1 {
					w = 2
				}
				q := rect{a[1], a[0], a[1] + w - 1, a[0] + h - 1}
				if q.c1 > 701 || q.r1 > 199 {
					continue
				}
				ok := true
				for _, p := range rects {
					if q.c0 <= p.c1 && p.c0 <= q.c1 && q.r0 <= p.r1 && p.r0 <= q.r1 {
						ok = false
					}
				}
				if ok {
					rects = append(rects, q)
				}
			}
		}
		// damaged merge references: one corner is not an A1 reference (what a
		// deleted row/column or a careless writer leaves behind). They name no
		// region, so every cell keeps its own place; the intact corner is
		// chosen so that a reader that "repairs" the ref swallows real cells.
		if o.DamagedMerge && profile != "empty" {
			rd := c.Rand("wb-damaged-merge", idx, si)
			if rd.Intn(3) == 0 {
				keys := sortedKeys(addrs)
				a := keys[rd.Intn(len(keys))]
				good := ooxml.XRef(a[1]+rd.Intn(3), a[0]+rd.Intn(3))
				badCorner := []string{"#REF!", "", " " + ooxml.XRef(a[1], a[0]), "2B", "B", "A0", "$", "A-1"}[rd.Intn(8)]
				var ref string
				switch rd.Intn(4) {
				case 0:
					ref = good + ":" + badCorner
				case 1:
					ref = "#REF!"
				default:
					ref = badCorner + ":" + good
				}
				sh.RawMerges = append(sh.RawMerges, ref)
				f.add("merge-ref-damaged")
			}
		}
		coveredMode := map[[2]int]int{} // 0 absent, 1 blank styled cell, 2 stale value
		for _, q := range rects {
			sh.Merges = append(sh.Merges, ooxml.XMerge{C0: q.c0, R0: q.r0, C1: q.c1, R1: q.r1})
			f.add("merge")
			mode := rs.Intn(10) // per region: 0-5 covered cells absent, 6-7 blank styled cells, 8-9 stale values
			for rr := q.r0; rr <= q.r1; rr++ {
				for cc := q.c0; cc <= q.c1; cc++ {
					a := [2]int{rr, cc}
					if rr == q.r0 && cc == q.c0 {
						continue
					}
					sm.Covered[a] = true
					delete(addrs, a)
					switch {
					case mode >= 8:
						// the draw is made whether or not the feature is on, so that
						// the neutralised case differs in nothing else
						if rs.Intn(2) == 0 && o.StaleCovered {
							coveredMode[a] = 2
						}
					case mode >= 6:
						coveredMode[a] = 1
					}
				}
			}
			if rs.Intn(8) == 0 {
				delete(addrs, [2]int{q.r0, q.c0}) // region without any value
				f.add("merge-empty-root")
			}
		}

		// cells
		keys := sortedKeys(addrs)
		hasUnique := false
		maxRow, maxCol := -1, -1
		for _, a := range keys {
			if a[0] > maxRow {
				maxRow = a[0]
			}
			if a[1] > maxCol {
				maxCol = a[1]
			}
		}
		for ki, a := range keys {
			// a shared-string-typed cell without a value (t="s" and no <v>, or an empty <v>): it shows
			// nothing, whatever the shared strings table holds. Never on the last row or column, so the
			// used range of the sheet is decided by valued cells only.
			if tb := c.Rand("wb", idx, "sheet", si, "typedblank", a[0], a[1]); a[0] < maxRow && a[1] < maxCol && ki != len(keys)-1 && tb.Intn(10) == 0 {
				cell := ooxml.XCell{Row: a[0], Col: a[1], Kind: ooxml.XBlank, TypedBlank: 1 + tb.Intn(2)}
				f.add("kind=shared-typed-without-value")
				sm.Want[a] = ""
				sm.Kinds[a] = ooxml.XBlank
				sh.Cells = append(sh.Cells, cell)
				m.Nontriv = true
				continue
			}
			cell := ooxml.XCell{Row: a[0], Col: a[1], Style: 0}
			if wb.Styles && rs.Intn(4) == 0 {
				cell.Style = 1
			}
			kind := ooxml.XKind(rs.Intn(8))
			if ki == len(keys)-1 && !hasUnique {
				kind = ooxml.XShared // every non-empty sheet has at least one uniquely valued cell (anchor)
			}
			if kind == ooxml.XInline && rs.Intn(4) == 0 {
				kind = ooxml.XInlineRich
			}
			cell.Kind = kind
			unique := false
			switch kind {
			case ooxml.XShared, ooxml.XInline, ooxml.XFormulaStr:
				cell.V = textValue(rs, toks)
				unique = true
				if kind == ooxml.XFormulaStr {
					cell.Formula = fmt.Sprintf(`CONCATENATE("x",%s)`, ooxml.XRef(rs.Intn(5), rs.Intn(5)))
				}
				if kind == ooxml.XShared && rs.Intn(12) == 0 {
					cell.Phonetic = toks.Next()
					m.Hidden = append(m.Hidden, cell.Phonetic)
					f.add("phonetic-run")
				}
			case ooxml.XSharedRich, ooxml.XInlineRich:
				txt := textValue(rs, toks)
				cell.Runs = splitRuns(rs, txt)
				unique = true
			case ooxml.XBool:
				cell.V = []string{"0", "1"}[rs.Intn(2)]
				if rs.Intn(3) == 0 {
					cell.Formula = "A1>B1"
				}
			case ooxml.XError:
				cell.V = errLiterals[rs.Intn(len(errLiterals))]
				if rs.Intn(3) == 0 {
					cell.Formula = "1/0"
				}
			case ooxml.XNumber, ooxml.XFormulaNum:
				uniqueNum += 1 + rs.Intn(9)
				switch rs.Intn(4) {
				case 0:
					cell.V = fmt.Sprintf("%d.5", uniqueNum)
				case 1:
					cell.V = fmt.Sprintf("-%d", uniqueNum)
				default:
					cell.V = fmt.Sprintf("%d", uniqueNum)
				}
				unique = true
				cell.ExplicitN = rs.Intn(3) == 0
				if kind == ooxml.XFormulaNum {
					cell.Formula = fmt.Sprintf("SUM(%s:%s)", ooxml.XRef(0, 0), ooxml.XRef(1, 3))
				}
			}
			f.add("kind=" + kind.String())
			sm.Want[a] = cell.Display()
			sm.Kinds[a] = kind
			if unique {
				sm.Unique[a] = true
				hasUnique = true
			}
			sh.Cells = append(sh.Cells, cell)
			if a[1] >= 26 {
				f.add("multi-letter-col")
				m.Nontriv = true
			}
		}
		// covered cells written into the file
		for _, a := range sortedKeysInt(coveredMode) {
			switch coveredMode[a] {
			case 1:
				sh.Cells = append(sh.Cells, ooxml.XCell{Row: a[0], Col: a[1], Kind: ooxml.XBlank})
				f.add("covered=blank-styled-cell")
			case 2:
				if len(stalePool) == 0 {
					continue
				}
				v := stalePool[0]
				stalePool = stalePool[1:]
				k := []ooxml.XKind{ooxml.XShared, ooxml.XInline, ooxml.XFormulaStr}[c.Rand("wb", idx, "sheet", si, "stale", a[0], a[1]).Intn(3)]
				cell := ooxml.XCell{Row: a[0], Col: a[1], Kind: k, V: v}
				if k == ooxml.XFormulaStr {
					cell.Formula = "A1"
				}
				sh.Cells = append(sh.Cells, cell)
				sm.Stale[a] = v
				m.Hidden = append(m.Hidden, v)
				f.add("covered=stale-value")
			}
		}
		if len(rects) > 0 {
			m.Nontriv = true
		}

		// writing order of rows and cells
		ro := c.Rand("wb", idx, "sheet", si, "order")
		cellOrder := ro.Intn(3) // 0 sorted, 1 reversed within row, 2 shuffled
		sort.SliceStable(sh.Cells, func(i, j int) bool {
			if sh.Cells[i].Row != sh.Cells[j].Row {
				return sh.Cells[i].Row < sh.Cells[j].Row
			}
			return sh.Cells[i].Col < sh.Cells[j].Col
		})
		switch cellOrder {
		case 1:
			sort.SliceStable(sh.Cells, func(i, j int) bool {
				if sh.Cells[i].Row != sh.Cells[j].Row {
					return sh.Cells[i].Row < sh.Cells[j].Row
				}
				return sh.Cells[i].Col > sh.Cells[j].Col
			})
			f.add("cells=reversed")
		case 2:
			ro.Shuffle(len(sh.Cells), func(i, j int) { sh.Cells[i], sh.Cells[j] = sh.Cells[j], sh.Cells[i] })
			f.add("cells=shuffled")
		default:
			f.add("cells=sorted")
		}
		rowSet := map[int]bool{}
		for _, cl := range sh.Cells {
			rowSet[cl.Row] = true
		}
		// empty <row/> elements, possibly beyond the last data row
		if ro.Intn(4) == 0 && profile != "empty" {
			n := 1 + ro.Intn(3)
			for i := 0; i < n; i++ {
				rowSet[ro.Intn(maxRowOf(rowSet)+4)] = true
			}
			f.add("empty-row-elements")
		}
		var rows []int
		for rr := range rowSet {
			rows = append(rows, rr)
		}
		sort.Ints(rows)
		switch ro.Intn(3) {
		case 1:
			for i, j := 0, len(rows)-1; i < j; i, j = i+1, j-1 {
				rows[i], rows[j] = rows[j], rows[i]
			}
			if len(rows) > 1 {
				f.add("rows=reversed")
				m.Nontriv = true
			}
		case 2:
			ro.Shuffle(len(rows), func(i, j int) { rows[i], rows[j] = rows[j], rows[i] })
			if !sort.IntsAreSorted(rows) {
				f.add("rows=shuffled")
				m.Nontriv = true
			}
		default:
			f.add("rows=sorted")
		}
		// optional r attribute of <row> omitted: rows must then be written
		// 1,2,3,… without gaps (empty <row/> elements fill the holes)
		if o.RowRefOmitted && ro.Intn(8) == 0 && len(rows) > 0 {
			mx := 0
			for _, rr := range rows {
				if rr > mx {
					mx = rr
				}
			}
			rows = rows[:0]
			for rr := 0; rr <= mx; rr++ {
				rows = append(rows, rr)
			}
			sh.OmitRowR = true
			f.add("row-r-attribute-omitted")
		}
		sh.RowOrder = rows
		if o.CellRefOmitted && ro.Intn(3) == 0 {
			sh.OmitCellR = true
			f.add("cell-r-attribute-omitted")
		}
		sm.Rows = 0
		for _, rr := range rows {
			if rr+1 > sm.Rows {
				sm.Rows = rr + 1
			}
		}
		wb.Sheets = append(wb.Sheets, sh)
		m.Sheets = append(m.Sheets, sm)
	}
	// unused shared strings
	if r.Intn(3) == 0 {
		n := 1 + r.Intn(3)
		for i := 0; i < n; i++ {
			t := toks.Next()
			wb.SSTExtras = append(wb.SSTExtras, t)
			m.Hidden = append(m.Hidden, t)
		}
		f.add("unused-shared-strings")
	}
	m.Features = f.list()
	return wb, m
}

func maxRowOf(s map[int]bool) int {
	mx := 0
	for r := range s {
		if r > mx {
			mx = r
		}
	}
	return mx
}

func sortedKeys(m map[[2]int]bool) [][2]int {
	out := make([][2]int, 0, len(m))
	for k := range m {
		out = append(out, k)
	}
	sort.Slice(out, func(i, j int) bool {
		if out[i][0] != out[j][0] {
			return out[i][0] < out[j][0]
		}
		return out[i][1] < out[j][1]
	})
	return out
}

func sortedKeysInt(m map[[2]int]int) [][2]int {
	b := map[[2]int]bool{}
	for k := range m {
		b[k] = true
	}
	return sortedKeys(b)
}

// textValue is a string cell value: always contains exactly one fresh token.
func textValue(r *rand.Rand, toks *fw.Tokens) string {
	t := toks.Next()
	switch r.Intn(8) {
	case 0:
		return t + " " + filler[r.Intn(len(filler))]
	case 1:
		return filler[r.Intn(len(filler))] + " " + t
	case 2:
		return " " + t // outer white space: xml:space="preserve"
	case 3:
		return t + " & <" + filler[r.Intn(len(filler))] + ">" // characters that need XML escaping
	}
	return t
}

// splitRuns cuts a text into 2..4 rich-text runs at arbitrary byte positions
// (also inside the token: the displayed value is the concatenation, §18.4.4).
func splitRuns(r *rand.Rand, s string) []string {
	n := 2 + r.Intn(3)
	if n > len(s) {
		n = len(s)
	}
	cuts := map[int]bool{}
	for len(cuts) < n-1 {
		cuts[1+r.Intn(len(s)-1)] = true
	}
	var pos []int
	for p := range cuts {
		pos = append(pos, p)
	}
	sort.Ints(pos)
	var runs []string
	last := 0
	for _, p := range pos {
		runs = append(runs, s[last:p])
		last = p
	}
	runs = append(runs, s[last:])
	return runs
}

func stripWS(s string) string {
	return strings.Map(func(r rune) rune {
		if r == ' ' || r == '\t' || r == '\n' || r == '\r' || r == 0xA0 {
			return -1
		}
		return r
	}, s)
}
