package c03

// Reader reuse: one format Reader value serves a sequence of calls (with and
// without header/footer exclusion, text / markdown / document); every result
// must equal what the same call returns on a freshly opened Reader.

import (
	"encoding/json"
	"fmt"
	"math/rand"
	"os"
	"path/filepath"
	"strings"

	"github.com/tsawler/tabula/docx"
	"github.com/tsawler/tabula/epubdoc"
	"github.com/tsawler/tabula/htmldoc"
	"github.com/tsawler/tabula/odt"
	"github.com/tsawler/tabula/pptx"
	"github.com/tsawler/tabula/xlsx"

	"verifharness/fw"
	"verifharness/gen/logical"
	"verifharness/gen/odf"
	"verifharness/gen/ooxml"
)

var reuseCalls = []string{"Text", "Markdown", "TextX", "MarkdownX", "Document", "TextH", "MarkdownF"}

type rdr interface {
	Close() error
}

// callOn runs one named call on an open reader of the given kind.
func callOn(kind string, r any, call string) (out string) {
	defer func() {
		if p := recover(); p != nil {
			out = fmt.Sprintf("PANIC: %v", p)
		}
	}()
	res := func(s string, err error) string {
		if err != nil {
			return "ERR: " + err.Error()
		}
		return s
	}
	doc := func(d any, err error) string {
		if err != nil {
			return "ERR: " + err.Error()
		}
		b, _ := json.Marshal(d)
		return string(b)
	}
	h, f := strings.HasSuffix(call, "X") || strings.HasSuffix(call, "H"), strings.HasSuffix(call, "X") || strings.HasSuffix(call, "F")
	text := strings.HasPrefix(call, "Text")
	switch x := r.(type) {
	case *docx.Reader:
		o := docx.ExtractOptions{ExcludeHeaders: h, ExcludeFooters: f}
		switch {
		case call == "Document":
			return doc(x.Document())
		case call == "Text":
			return res(x.Text())
		case call == "Markdown":
			return res(x.Markdown())
		case text:
			return res(x.TextWithOptions(o))
		default:
			return res(x.MarkdownWithOptions(o))
		}
	case *odt.Reader:
		o := odt.ExtractOptions{ExcludeHeaders: h, ExcludeFooters: f}
		switch {
		case call == "Document":
			return doc(x.Document())
		case call == "Text":
			return res(x.Text())
		case call == "Markdown":
			return res(x.Markdown())
		case text:
			return res(x.TextWithOptions(o))
		default:
			return res(x.MarkdownWithOptions(o))
		}
	case *xlsx.Reader:
		o := xlsx.ExtractOptions{ExcludeHeaders: h, ExcludeFooters: f}
		switch {
		case call == "Document":
			return doc(x.Document())
		case call == "Text":
			return res(x.Text())
		case call == "Markdown":
			return res(x.Markdown())
		case text:
			return res(x.TextWithOptions(o))
		default:
			return res(x.MarkdownWithOptions(o))
		}
	case *pptx.Reader:
		o := pptx.ExtractOptions{ExcludeHeaders: h, ExcludeFooters: f, IncludeNotes: true, IncludeTitles: true}
		switch {
		case call == "Document":
			return doc(x.Document())
		case call == "Text":
			return res(x.Text())
		case call == "Markdown":
			return res(x.Markdown())
		case text:
			return res(x.TextWithOptions(o))
		default:
			return res(x.MarkdownWithOptions(o))
		}
	case *epubdoc.Reader:
		switch {
		case call == "Document":
			return doc(x.Document())
		case text:
			return res(x.Text())
		default:
			return res(x.Markdown())
		}
	case *htmldoc.Reader:
		o := htmldoc.ExtractOptions{ExcludeHeaders: h, ExcludeFooters: f}
		switch {
		case call == "Document":
			return doc(x.Document())
		case call == "Text":
			return res(x.Text())
		case call == "Markdown":
			return res(x.Markdown())
		case text:
			return res(x.TextWithOptions(o))
		default:
			return res(x.MarkdownWithOptions(o))
		}
	}
	_ = kind
	return "?"
}

func openReader(kind, path string) (any, func(), error) {
	switch kind {
	case "docx":
		r, err := docx.Open(path)
		if err != nil {
			return nil, nil, err
		}
		return r, func() { r.Close() }, nil
	case "odt":
		r, err := odt.Open(path)
		if err != nil {
			return nil, nil, err
		}
		return r, func() { r.Close() }, nil
	case "xlsx":
		r, err := xlsx.Open(path)
		if err != nil {
			return nil, nil, err
		}
		return r, func() { r.Close() }, nil
	case "pptx":
		r, err := pptx.Open(path)
		if err != nil {
			return nil, nil, err
		}
		return r, func() { r.Close() }, nil
	case "epub":
		r, err := epubdoc.Open(path)
		if err != nil {
			return nil, nil, err
		}
		return r, func() { r.Close() }, nil
	case "html":
		r, err := htmldoc.Open(path)
		if err != nil {
			return nil, nil, err
		}
		return r, func() { r.Close() }, nil
	}
	return nil, nil, fmt.Errorf("no reader for %s", kind)
}

// officeWithMarginCopies writes a DOCX or ODT whose header/footer lines also
// occur as body paragraphs (so that exclusion really filters body elements).
func officeWithMarginCopies(r *rand.Rand, format string) []byte {
	tk := fw.NewTokens(r)
	p := logical.Profile{MinBlocks: 5, MaxBlocks: 9, HeadingHows: []string{"builtin"}, MaxHeadingLevel: 3, Lists: true, ListMaxDepth: 1, Tables: true, MaxRows: 3, MaxCols: 3, Styles: 1, HeaderFooter: true}
	var d *logical.Doc
	for try := 0; try < 30; try++ {
		d = logical.Gen(r, tk, p)
		if len(d.Header) > 0 && len(d.Footer) > 0 {
			break
		}
	}
	if len(d.Header) > 0 {
		cp := d.Header[0]
		pos := 1 + r.Intn(len(d.Blocks))
		d.Blocks = append(d.Blocks[:pos:pos], append([]logical.Block{{Kind: logical.BPara, Para: &cp}}, d.Blocks[pos:]...)...)
	}
	if len(d.Footer) > 0 {
		cp := d.Footer[len(d.Footer)-1]
		pos := r.Intn(len(d.Blocks))
		d.Blocks = append(d.Blocks[:pos:pos], append([]logical.Block{{Kind: logical.BPara, Para: &cp}}, d.Blocks[pos:]...)...)
	}
	if format == "docx" {
		return ooxml.WriteDocx(d, ooxml.DocxOptions{})
	}
	return odf.WriteODT(d, odf.Options{})
}

// readerReuse is run inside the dynamic child.
func readerReuse(c *dctx, docs []docFile, dir string) {
	// extra documents with header/footer parts and body copies of their lines
	var pool []docFile
	for _, d := range docs {
		if d.Kind != "pdf" && d.Kind != "bad" {
			pool = append(pool, d)
		}
	}
	for i := 0; i < c.N(6, 40); i++ {
		r := c.Rand("reuse-doc", i)
		f := []string{"docx", "odt"}[i%2]
		p := filepath.Join(dir, fmt.Sprintf("reuse%03d.%s", i, f))
		os.WriteFile(p, officeWithMarginCopies(r, f), 0o644)
		pool = append(pool, docFile{p, f, "office document whose header/footer lines also occur in the body"})
	}
	if len(pool) == 0 {
		return
	}
	for h := 0; h < c.N(150, 2500); h++ {
		id := fmt.Sprintf("reuse:%d", h)
		if !c.Want(id) {
			continue
		}
		r := c.Rand("reuse", h)
		d := pool[r.Intn(len(pool))]
		rd, closeFn, err := openReader(d.Kind, d.Path)
		if err != nil {
			continue
		}
		var seq []string
		for k := 2 + r.Intn(5); k > 0; k-- {
			seq = append(seq, reuseCalls[r.Intn(len(reuseCalls))])
		}
		for i, call := range seq {
			got := callOn(d.Kind, rd, call)
			fr, fclose, err := openReader(d.Kind, d.Path)
			if err != nil {
				break
			}
			want := callOn(d.Kind, fr, call)
			fclose()
			c.Case(fmt.Sprintf("reuse|%s|%v|%d", filepath.Base(d.Path), seq, i), i > 0 && got != "" && !strings.HasPrefix(got, "ERR"))
			c.Count("reader_reuse_calls_compared", 1)
			c.Seen("reader_reuse_kind", d.Kind)
			if got != want {
				c.Fail("", "reader-reuse/"+d.Kind+"/"+call, id, fmt.Sprintf("%s.Reader of %s (%s): call #%d %s after %v differs from the same call on a freshly opened reader (%s vs %s)",
					d.Kind, filepath.Base(d.Path), d.Desc, i, call, seq[:i], digest(got), digest(want)), nil)
				break
			}
		}
		closeFn()
	}
}
