package c03

// Reader reuse: one format Reader value serves a sequence of calls (with and
// without header/footer exclusion, text / markdown / document); every result
// must equal what the same call returns on a freshly opened Reader.

import (
	"encoding/json"
	"fmt"
	"math/rand"
	"os"
	"path/filepath"
	"reflect"
	"strconv"
	"strings"

	"github.com/tsawler/tabula"
	"github.com/tsawler/tabula/rag"
	"github.com/tsawler/tabula/reader"

	"github.com/tsawler/tabula/docx"
	"github.com/tsawler/tabula/epubdoc"
	"github.com/tsawler/tabula/htmldoc"
	"github.com/tsawler/tabula/odt"
	"github.com/tsawler/tabula/pptx"
	"github.com/tsawler/tabula/xlsx"

	"verifharness/fw"
	"verifharness/gen/logical"
	"verifharness/gen/odf"
	"verifharness/gen/ooxml"
	"verifharness/gen/pdfw"
)

var reuseCalls = []string{"Text", "Markdown", "TextX", "MarkdownX", "Document", "TextH", "MarkdownF", "TextSel",
	// side views of the same parsed state (only where the reader has them): called by reflection, compared as JSON
	"@Tables", "@ModelTables", "@Lists", "@ModelLists", "@Metadata", "@HeaderTexts", "@FooterTexts", "@Chapters", "@SheetNames", "@MarkdownWithRAGOptions", "@MarkdownWithRAGOptions#shifted"}

// pdfReuseCalls: one reader.Reader handed to tabula.FromReader again and again
// (the caller owns it), plus direct page extraction in any page order.
var pdfReuseCalls = []string{"Text", "Markdown", "TextX", "MarkdownX", "Document", "TextH", "MarkdownF", "Fragments", "FragmentsX", "Chunks", "ChunksX", "Page:first", "Page:last", "PageX:last", "Raw:last", "Raw:first", "Lines", "Analyze"}

func callPDF(rd *reader.Reader, call string) string {
	res := func(s string, err error) string {
		if err != nil {
			return "ERR: " + err.Error()
		}
		return s
	}
	js := func(d any, err error) string {
		if err != nil {
			return "ERR: " + err.Error()
		}
		b, _ := json.Marshal(d)
		return string(b)
	}
	n, _ := rd.PageCount()
	ex := tabula.FromReader(rd)
	name, arg, _ := strings.Cut(call, ":")
	pageNo := 1
	if arg == "last" && n > 0 {
		pageNo = n
	} else if k, err := strconv.Atoi(arg); err == nil && n > 0 {
		pageNo = 1 + k%n
	}
	switch name {
	case "Text":
		s, _, err := ex.Text()
		return res(s, err)
	case "TextX":
		s, _, err := ex.ExcludeHeadersAndFooters().Text()
		return res(s, err)
	case "TextH":
		s, _, err := ex.ExcludeHeaders().Text()
		return res(s, err)
	case "Markdown":
		s, _, err := ex.ToMarkdown()
		return res(s, err)
	case "MarkdownX":
		s, _, err := ex.ExcludeHeadersAndFooters().ToMarkdown()
		return res(s, err)
	case "MarkdownF":
		s, _, err := ex.ExcludeFooters().ToMarkdown()
		return res(s, err)
	case "Document":
		d, _, err := ex.Document()
		return js(d, err)
	case "Fragments":
		d, _, err := ex.Fragments()
		return js(d, err)
	case "FragmentsX":
		d, _, err := ex.ExcludeHeadersAndFooters().Fragments()
		return js(d, err)
	case "Chunks", "ChunksX":
		if name == "ChunksX" {
			ex = ex.ExcludeHeadersAndFooters()
		}
		cc, _, err := ex.Chunks()
		if err != nil {
			return "ERR: " + err.Error()
		}
		var sb strings.Builder
		for _, ch := range cc.Chunks {
			fmt.Fprintf(&sb, "%d-%d|%v|%s\n", ch.Metadata.PageStart, ch.Metadata.PageEnd, ch.Metadata.SectionPath, ch.Text)
		}
		return sb.String()
	case "Page":
		s, _, err := ex.Pages(pageNo).Text()
		return res(s, err)
	case "PageX":
		s, _, err := ex.Pages(pageNo).ExcludeHeadersAndFooters().Text()
		return res(s, err)
	case "Raw":
		pg, err := rd.GetPage(pageNo - 1)
		if err != nil {
			return "ERR: " + err.Error()
		}
		return js(rd.ExtractTextFragments(pg))
	case "Lines":
		return js(ex.Lines())
	case "Analyze":
		return js(ex.Analyze())
	}
	return "?"
}

// callReflect calls a zero-argument exported method if the reader has it.
func callReflect(r any, method string) string {
	variant := ""
	if i := strings.IndexByte(method, '#'); i >= 0 {
		method, variant = method[:i], method[i+1:]
	}
	m := reflect.ValueOf(r).MethodByName(method)
	if !m.IsValid() {
		return "n/a"
	}
	// methods with parameters (MarkdownWithRAGOptions(ExtractOptions, rag.MarkdownOptions) …)
	// are called with the zero value of each parameter: the default options
	var args []reflect.Value
	for i := 0; i < m.Type().NumIn(); i++ {
		if variant == "shifted" && m.Type().In(i) == reflect.TypeOf(rag.MarkdownOptions{}) {
			// other heading options than the call before: the rendering follows the options of this call
			args = append(args, reflect.ValueOf(rag.MarkdownOptions{HeadingLevelOffset: 2, MaxHeadingLevel: 4, IncludeMetadata: true}))
			continue
		}
		args = append(args, reflect.Zero(m.Type().In(i)))
	}
	var parts []string
	for _, v := range m.Call(args) {
		if e, ok := v.Interface().(error); ok && e != nil {
			return "ERR: " + e.Error()
		}
		b, err := json.Marshal(v.Interface())
		if err != nil {
			b = []byte(fmt.Sprintf("%+v", v.Interface()))
		}
		parts = append(parts, string(b))
	}
	return strings.Join(parts, "|")
}

type rdr interface {
	Close() error
}

// callOn runs one named call on an open reader of the given kind.
func callOn(kind string, r any, call string) (out string) {
	defer func() {
		if p := recover(); p != nil {
			out = fmt.Sprintf("PANIC: %v", p)
		}
	}()
	res := func(s string, err error) string {
		if err != nil {
			return "ERR: " + err.Error()
		}
		return s
	}
	doc := func(d any, err error) string {
		if err != nil {
			return "ERR: " + err.Error()
		}
		b, _ := json.Marshal(d)
		return string(b)
	}
	if strings.HasPrefix(call, "@") {
		return callReflect(r, call[1:])
	}
	if rd, ok := r.(*reader.Reader); ok {
		return callPDF(rd, call)
	}
	h, f := strings.HasSuffix(call, "X") || strings.HasSuffix(call, "H"), strings.HasSuffix(call, "X") || strings.HasSuffix(call, "F")
	text := strings.HasPrefix(call, "Text")
	switch x := r.(type) {
	case *docx.Reader:
		o := docx.ExtractOptions{ExcludeHeaders: h, ExcludeFooters: f}
		switch {
		case call == "Document":
			return doc(x.Document())
		case call == "Text":
			return res(x.Text())
		case call == "Markdown":
			return res(x.Markdown())
		case text:
			return res(x.TextWithOptions(o))
		default:
			return res(x.MarkdownWithOptions(o))
		}
	case *odt.Reader:
		o := odt.ExtractOptions{ExcludeHeaders: h, ExcludeFooters: f}
		switch {
		case call == "Document":
			return doc(x.Document())
		case call == "Text":
			return res(x.Text())
		case call == "Markdown":
			return res(x.Markdown())
		case text:
			return res(x.TextWithOptions(o))
		default:
			return res(x.MarkdownWithOptions(o))
		}
	case *xlsx.Reader:
		o := xlsx.ExtractOptions{ExcludeHeaders: h, ExcludeFooters: f}
		if call == "TextSel" { // the last sheet only
			return res(x.TextWithOptions(xlsx.ExtractOptions{Sheets: []int{x.SheetCount() - 1}}))
		}
		switch {
		case call == "Document":
			return doc(x.Document())
		case call == "Text":
			return res(x.Text())
		case call == "Markdown":
			return res(x.Markdown())
		case text:
			return res(x.TextWithOptions(o))
		default:
			return res(x.MarkdownWithOptions(o))
		}
	case *pptx.Reader:
		o := pptx.ExtractOptions{ExcludeHeaders: h, ExcludeFooters: f, IncludeNotes: true, IncludeTitles: true}
		if call == "TextSel" { // the last slide only
			return res(x.TextWithOptions(pptx.ExtractOptions{IncludeTitles: true, SlideNumbers: []int{x.SlideCount() - 1}}))
		}
		switch {
		case call == "Document":
			return doc(x.Document())
		case call == "Text":
			return res(x.Text())
		case call == "Markdown":
			return res(x.Markdown())
		case text:
			return res(x.TextWithOptions(o))
		default:
			return res(x.MarkdownWithOptions(o))
		}
	case *epubdoc.Reader:
		switch {
		case call == "Document":
			return doc(x.Document())
		case text:
			return res(x.Text())
		default:
			return res(x.Markdown())
		}
	case *htmldoc.Reader:
		o := htmldoc.ExtractOptions{ExcludeHeaders: h, ExcludeFooters: f}
		switch {
		case call == "Document":
			return doc(x.Document())
		case call == "Text":
			return res(x.Text())
		case call == "Markdown":
			return res(x.Markdown())
		case text:
			return res(x.TextWithOptions(o))
		default:
			return res(x.MarkdownWithOptions(o))
		}
	}
	_ = kind
	return "?"
}

func openReader(kind, path string) (any, func(), error) {
	switch kind {
	case "docx":
		r, err := docx.Open(path)
		if err != nil {
			return nil, nil, err
		}
		return r, func() { r.Close() }, nil
	case "odt":
		r, err := odt.Open(path)
		if err != nil {
			return nil, nil, err
		}
		return r, func() { r.Close() }, nil
	case "xlsx":
		r, err := xlsx.Open(path)
		if err != nil {
			return nil, nil, err
		}
		return r, func() { r.Close() }, nil
	case "pptx":
		r, err := pptx.Open(path)
		if err != nil {
			return nil, nil, err
		}
		return r, func() { r.Close() }, nil
	case "epub":
		r, err := epubdoc.Open(path)
		if err != nil {
			return nil, nil, err
		}
		return r, func() { r.Close() }, nil
	case "html":
		r, err := htmldoc.Open(path)
		if err != nil {
			return nil, nil, err
		}
		return r, func() { r.Close() }, nil
	case "pdf":
		r, err := reader.Open(path)
		if err != nil {
			return nil, nil, err
		}
		return r, func() { r.Close() }, nil
	}
	return nil, nil, fmt.Errorf("no reader for %s", kind)
}

// officeWithMarginCopies writes a DOCX or ODT whose header/footer lines also
// occur as body paragraphs (so that exclusion really filters body elements).
func officeWithMarginCopies(r *rand.Rand, format string) []byte {
	tk := fw.NewTokens(r)
	p := logical.Profile{MinBlocks: 5, MaxBlocks: 9, HeadingHows: []string{"builtin"}, MaxHeadingLevel: 9, BlockBias: "headings", Lists: true, ListMaxDepth: 1, Tables: true, MaxRows: 3, MaxCols: 3, Styles: 1, HeaderFooter: true}
	var d *logical.Doc
	for try := 0; try < 30; try++ {
		d = logical.Gen(r, tk, p)
		if len(d.Header) > 0 && len(d.Footer) > 0 {
			break
		}
	}
	if len(d.Header) > 0 {
		cp := d.Header[0]
		pos := 1 + r.Intn(len(d.Blocks))
		d.Blocks = append(d.Blocks[:pos:pos], append([]logical.Block{{Kind: logical.BPara, Para: &cp}}, d.Blocks[pos:]...)...)
	}
	if len(d.Footer) > 0 {
		cp := d.Footer[len(d.Footer)-1]
		pos := r.Intn(len(d.Blocks))
		d.Blocks = append(d.Blocks[:pos:pos], append([]logical.Block{{Kind: logical.BPara, Para: &cp}}, d.Blocks[pos:]...)...)
	}
	if format == "docx" {
		return ooxml.WriteDocx(d, ooxml.DocxOptions{})
	}
	return odf.WriteODT(d, odf.Options{})
}

// readerReuse is run inside the dynamic child.
func readerReuse(c *dctx, docs []docFile, dir string) {
	// extra documents with header/footer parts and body copies of their lines
	var pool []docFile
	for _, d := range docs {
		if d.Kind != "bad" {
			pool = append(pool, d)
		}
	}
	for i := 0; i < c.N(6, 40); i++ {
		r := c.Rand("reuse-doc", i)
		f := []string{"docx", "odt"}[i%2]
		p := filepath.Join(dir, fmt.Sprintf("reuse%03d.%s", i, f))
		os.WriteFile(p, officeWithMarginCopies(r, f), 0o644)
		pool = append(pool, docFile{p, f, "office document whose header/footer lines also occur in the body"})
	}
	// office documents with several tables carrying merged regions (views such as
	// Tables() / ModelTables() and Markdown() share the parsed tables)
	for i := 0; i < c.N(10, 40); i++ {
		r := c.Rand("reuse-tables", i)
		f := []string{"odt", "docx"}[i%2]
		var d *logical.Doc
		for try := 0; try < 40; try++ { // several tables, vertical merges among them
			d = logical.Gen(r, fw.NewTokens(r), logical.Profile{MinBlocks: 6, MaxBlocks: 10, Tables: true, MaxRows: 5, MaxCols: 4, Spans: true, MultiPara: true, EmptyCells: true, BlockBias: "tables", Styles: 1, Lists: true, ListMaxDepth: 2})
			nt := 0
			for _, bl := range d.Blocks {
				if bl.Kind == logical.BTable {
					nt++
				}
			}
			if nt >= 3 && d.Features["table.rowspan"] {
				break
			}
		}
		var data []byte
		if f == "docx" {
			data = ooxml.WriteDocx(d, ooxml.DocxOptions{})
		} else {
			data = odf.WriteODT(d, odf.Options{})
		}
		p := filepath.Join(dir, fmt.Sprintf("reusetab%03d.%s", i, f))
		os.WriteFile(p, data, 0o644)
		pool = append(pool, docFile{p, f, "office document with several tables with merged regions"})
	}
	// PDFs with running header / footer lines and page numbers (exclusion really filters)
	for i := 0; i < c.N(4, 30); i++ {
		r := c.Rand("reuse-hf", i)
		tk := fw.NewTokens(r)
		np := 3 + r.Intn(4)
		head, foot := "Report "+tk.Next(), "Confidential "+tk.Next()
		var pages []pdfw.SimplePage
		for pn := 0; pn < np; pn++ {
			pg := pdfw.SimplePage{W: 612, H: 792}
			pg.Items = append(pg.Items, pdfw.SimpleItem{X: 72, Y: 760, Size: 10, Text: head})
			y := 700.0
			for l := 0; l < 4+r.Intn(5); l++ {
				pg.Items = append(pg.Items, pdfw.SimpleItem{X: 72, Y: y, Size: 11, Text: tk.Next() + " " + tk.Next() + " " + tk.Next()})
				y -= 16
			}
			pg.Items = append(pg.Items, pdfw.SimpleItem{X: 72, Y: 40, Size: 10, Text: foot}, pdfw.SimpleItem{X: 500, Y: 40, Size: 10, Text: fmt.Sprintf("Page %d", pn+1)})
			pages = append(pages, pg)
		}
		p := filepath.Join(dir, fmt.Sprintf("reusehf%03d.pdf", i))
		os.WriteFile(p, pdfw.SimplePDF(pages), 0o644)
		pool = append(pool, docFile{p, "pdf", "PDF with a running header, footer and page numbers"})
	}
	// PDFs with one page that cannot be extracted: an operation that fails on a
	// reader fails the same way the next time (and one that succeeds does not start to fail)
	for i := 0; i < c.N(4, 20); i++ {
		r := c.Rand("reuse-unreadable", i)
		tk := fw.NewTokens(r)
		np := 3 + r.Intn(3)
		bad := r.Intn(np)
		var pages []pdfw.SimplePage
		for pn := 0; pn < np; pn++ {
			pg := pdfw.SimplePage{W: 612, H: 792, Unreadable: pn == bad}
			for l := 0; l < 3; l++ {
				pg.Items = append(pg.Items, pdfw.SimpleItem{X: 72, Y: 700 - 16*float64(l), Size: 11, Text: tk.Next() + " " + tk.Next()})
			}
			pages = append(pages, pg)
		}
		p := filepath.Join(dir, fmt.Sprintf("reusebad%03d.pdf", i))
		os.WriteFile(p, pdfw.SimplePDF(pages), 0o644)
		pool = append(pool, docFile{p, "pdf", "PDF with one page whose content stream cannot be decoded"})
	}
	// PDFs whose page tree names a page object the file does not have (a dangling
	// /Kids entry between readable pages): what a reader answers about such a file
	// is its business, but it answers the same on every call
	for i := 0; i < c.N(4, 16); i++ {
		r := c.Rand("reuse-ghostkid", i)
		g := pdfw.GenDoc(r, pdfw.DocOpts{MinPages: 3, MaxPages: 5, MaxLines: 5, MaxFonts: 2, TreeDepth: 1 + i%2, Inherit: "leaf", NoEmptyPages: true})
		leaves := g.Doc.Leaves()
		lay := pdfw.BaselineLayout()
		lay.Omit = []string{fmt.Sprintf("page:%d", leaves[1+r.Intn(len(leaves)-1)].Node.ID)}
		b := pdfw.Build(r.Int63(), lay, []*pdfw.Doc{g.Doc})
		p := filepath.Join(dir, fmt.Sprintf("reuseghostkid%03d.pdf", i))
		os.WriteFile(p, b.Bytes, 0o644)
		pool = append(pool, docFile{p, "pdf", "PDF whose page tree has a dangling /Kids entry"})
	}
	// PDFs with a page whose /Contents array names an object the file does not have
	// between two streams that continue one text object: whatever the reader makes of
	// that page, it makes the same of it every time
	for i := 0; i < c.N(4, 20); i++ {
		r := c.Rand("reuse-ghostcontent", i)
		tk := fw.NewTokens(r)
		np := 2 + r.Intn(3)
		bad := r.Intn(np)
		var pages []pdfw.SimplePage
		for pn := 0; pn < np; pn++ {
			pg := pdfw.SimplePage{W: 612, H: 792, GhostContent: pn == bad}
			for l := 0; l < 4+r.Intn(3); l++ {
				pg.Items = append(pg.Items, pdfw.SimpleItem{X: 72, Y: 700 - 16*float64(l), Size: 11, Text: tk.Next() + " " + tk.Next()})
			}
			pages = append(pages, pg)
		}
		p := filepath.Join(dir, fmt.Sprintf("reuseghost%03d.pdf", i))
		os.WriteFile(p, pdfw.SimplePDF(pages), 0o644)
		pool = append(pool, docFile{p, "pdf", "PDF with a dangling reference inside a page's /Contents array"})
	}
	// PDFs with a page whose content stream is damaged in the middle of a string operand
	// (it ends inside a literal string, or a hex string holds a stray character): what the
	// reader was collecting when it gave up is nobody else's text
	for i := 0; i < c.N(6, 24); i++ {
		r := c.Rand("reuse-cutoff", i)
		tk := fw.NewTokens(r)
		np := 1 + r.Intn(3)
		bad := r.Intn(np)
		var pages []pdfw.SimplePage
		for pn := 0; pn < np; pn++ {
			pg := pdfw.SimplePage{W: 612, H: 792}
			if pn == bad {
				pg.CutOff = []string{"string", "hex"}[i%2]
			}
			for l := 0; l < 3+r.Intn(3); l++ {
				pg.Items = append(pg.Items, pdfw.SimpleItem{X: 72, Y: 700 - 16*float64(l), Size: 11, Text: tk.Next() + " " + tk.Next()})
			}
			pages = append(pages, pg)
		}
		p := filepath.Join(dir, fmt.Sprintf("reusecut%03d.pdf", i))
		os.WriteFile(p, pdfw.SimplePDF(pages), 0o644)
		pool = append(pool, docFile{p, "pdf", "PDF with a content stream damaged inside a string operand"})
	}
	// PDFs whose pages share one inherited Resources dictionary (direct /Font
	// sub-dictionary) while forms bring their own resources naming other fonts
	// /F1…: anything one page's extraction leaves behind in the shared, cached
	// dictionaries shows on the other pages
	for i := 0; i < c.N(8, 40); i++ {
		for try := 0; try < 20; try++ {
			r := c.Rand("reuse-formrot", i, try)
			g := pdfw.GenDoc(r, pdfw.DocOpts{MinPages: 3, MaxPages: 5, MaxLines: 8, MaxFonts: 3, TreeDepth: 2, Inherit: []string{"root", "parent"}[i%2], NoEmptyPages: true, FontWidths: true})
			if len(g.Doc.Fonts) < 2 {
				continue
			}
			lay := pdfw.RandomLayout(r, 1)
			lay.Forms, lay.FontNameRot, lay.FontsDirect, lay.ResIndirect = true, true, i%4 == 3, false
			if i%2 == 0 {
				// forms and page contents stored as they are: what the reader hands to the
				// parser is then the stream's own data, read again by the next call
				lay.Filter = "none"
			}
			b := pdfw.Build(r.Int63(), lay, []*pdfw.Doc{g.Doc})
			has := map[string]bool{}
			for _, f := range b.Features {
				has[f] = true
			}
			if !has["content.form"] || !has["res.font-names-rotated"] {
				continue
			}
			p := filepath.Join(dir, fmt.Sprintf("reuseform%03d.pdf", i))
			os.WriteFile(p, b.Bytes, 0o644)
			pool = append(pool, docFile{p, "pdf", "PDF with shared page resources and forms that rename the fonts"})
			break
		}
	}
	if len(pool) == 0 {
		return
	}
	// the same extraction with header/footer exclusion repeated on fresh extractors: when a
	// running line and a page number share a marginal zone, nothing but the bytes and the
	// options may decide what is removed (not the iteration order of a map)
	for di, d := range pool {
		if d.Desc != "PDF with a running header, footer and page numbers" {
			continue
		}
		id := fmt.Sprintf("repeat-exclusion:%d", di)
		if !c.Want(id) {
			continue
		}
		for _, op := range []string{"exclhf", "chunks-json"} {
			first := ""
			for k := 0; k < 12; k++ {
				var got string
				if op == "exclhf" {
					got = doOp(d.Path, op)
				} else {
					cc, _, err := tabula.Open(d.Path).ExcludeHeadersAndFooters().Chunks()
					if err != nil {
						got = "ERR: " + err.Error()
					} else {
						got, _ = cc.ToJSON()
					}
				}
				c.Count("exclusion_repeats_compared", 1)
				if k == 0 {
					first = got
				} else if got != first {
					c.Fail("", "repeat-exclusion/"+op, id, fmt.Sprintf("%s of %s (%s) with header/footer exclusion: repetition %d on a fresh extractor differs from the first (%d vs %d bytes)", op, filepath.Base(d.Path), d.Desc, k, len(got), len(first)), nil)
					break
				}
			}
		}
		c.Case("repeat-exclusion|"+filepath.Base(d.Path), true)
	}
	// every non-PDF document once with a fixed alternation: the model, a rendering,
	// the model again … (a rendering must not leave its adaptations in the parsed state)
	nFixed := 0
	for _, d := range pool {
		if d.Kind != "pdf" {
			nFixed++
		}
	}
	for h := 0; h < c.N(400, 5000)+nFixed; h++ {
		id := fmt.Sprintf("reuse:%d", h)
		if !c.Want(id) {
			continue
		}
		r := c.Rand("reuse", h)
		d := pool[r.Intn(len(pool))]
		var fixed []string
		if h < nFixed {
			k := 0
			for _, pd := range pool {
				if pd.Kind == "pdf" {
					continue
				}
				if k == h {
					d = pd
				}
				k++
			}
			fixed = []string{"Document", "Markdown", "Document", "MarkdownX", "@MarkdownWithRAGOptions", "Document", "Text", "@MarkdownWithRAGOptions#shifted", "TextX", "@MarkdownWithRAGOptions", "Document", "Markdown"}
		}
		rd, closeFn, err := openReader(d.Kind, d.Path)
		if err != nil {
			continue
		}
		var seq []string
		calls := reuseCalls
		if d.Kind == "pdf" {
			calls = pdfReuseCalls
		}
		if fixed != nil {
			seq = fixed
			calls = nil
		}
		for k := 2 + r.Intn(5); k > 0 && calls != nil; k-- {
			if d.Kind == "pdf" && r.Intn(2) == 0 {
				// single pages in any order: a page's result must not depend on what the reader served before
				seq = append(seq, fmt.Sprintf("%s:%d", []string{"Page", "Raw", "PageX"}[r.Intn(3)], r.Intn(8)))
				continue
			}
			if d.Kind != "pdf" && r.Intn(4) == 0 {
				// side views between the renderings
				seq = append(seq, []string{"@Tables", "@ModelTables", "@Lists", "@ModelLists"}[r.Intn(4)])
				continue
			}
			seq = append(seq, calls[r.Intn(len(calls))])
		}
		for i, call := range seq {
			got := callOn(d.Kind, rd, call)
			fr, fclose, err := openReader(d.Kind, d.Path)
			if err != nil {
				break
			}
			want := callOn(d.Kind, fr, call)
			fclose()
			c.Case(fmt.Sprintf("reuse|%s|%v|%d", filepath.Base(d.Path), seq, i), i > 0 && got != "" && !strings.HasPrefix(got, "ERR"))
			c.Count("reader_reuse_calls_compared", 1)
			c.Seen("reader_reuse_kind", d.Kind)
			if got != want {
				c.Fail("", "reader-reuse/"+d.Kind+"/"+call, id, fmt.Sprintf("%s.Reader of %s (%s): call #%d %s after %v differs from the same call on a freshly opened reader (%s vs %s)",
					d.Kind, filepath.Base(d.Path), d.Desc, i, call, seq[:i], digest(got), digest(want)), nil)
				break
			}
		}
		closeFn()
	}
}
