// Package c03: extraction is deterministic and free of cross-call interference.
//
// Built with -race. Oracle = byte equality with a baseline computed alone in a
// fresh process, checked (i) across fresh processes (map-order randomisation),
// (ii) on in-process repeats, (iii) after arbitrary call histories including
// failing inputs and inputs ending mid-operand, (iv) under concurrent
// extraction of distinct documents with yield injection at hook points; plus
// the race detector's own reports.
package c03

import (
	"crypto/sha256"
	"encoding/hex"
	"encoding/json"
	"fmt"
	"math/rand"
	randv2 "math/rand/v2"
	"os"
	"path/filepath"
	"regexp"
	"runtime"
	"sort"
	"strings"
	"sync"
	"sync/atomic"
	"time"

	"github.com/tsawler/tabula"
	"github.com/tsawler/tabula/contentstream"
	"github.com/tsawler/tabula/reader"
	"github.com/tsawler/tabula/verifhook"

	"verifharness/fw"
	"verifharness/gen/pdfw"
)

// Ops are the probed terminal operations.
var Ops = []string{"text", "markdown", "chunks-jsonl", "chunks-csv", "chunks-json", "fragments", "bycolumn", "joinpara", "layout", "exclhf", "document"}

// doOp runs one operation on a file and returns its full output as bytes
// (errors are outputs too: they must be as deterministic as values).
func doOp(path, op string) (out string) {
	defer func() {
		if r := recover(); r != nil {
			out = fmt.Sprintf("PANIC: %v", r)
		}
	}()
	res := func(s string, err error) string {
		if err != nil {
			return "ERR: " + err.Error()
		}
		return s
	}
	switch op {
	case "text":
		s, _, err := tabula.Open(path).Text()
		return res(s, err)
	case "markdown":
		s, _, err := tabula.Open(path).ToMarkdown()
		return res(s, err)
	case "bycolumn":
		s, _, err := tabula.Open(path).ByColumn().Text()
		return res(s, err)
	case "joinpara":
		s, _, err := tabula.Open(path).JoinParagraphs().Text()
		return res(s, err)
	case "layout":
		s, _, err := tabula.Open(path).PreserveLayout().Text()
		return res(s, err)
	case "exclhf":
		s, _, err := tabula.Open(path).ExcludeHeadersAndFooters().Text()
		return res(s, err)
	case "chunks-jsonl", "chunks-csv", "chunks-json":
		cc, _, err := tabula.Open(path).Chunks()
		if err != nil {
			return "ERR: " + err.Error()
		}
		switch op {
		case "chunks-jsonl":
			return res(cc.ToJSONL())
		case "chunks-csv":
			return res(cc.ToCSV())
		default:
			return res(cc.ToJSON())
		}
	case "fragments":
		fr, _, err := tabula.Open(path).Fragments()
		if err != nil {
			return "ERR: " + err.Error()
		}
		var sb strings.Builder
		for _, f := range fr {
			fmt.Fprintf(&sb, "%q %x %x %x %x %s %x %v\n", f.Text, f.X, f.Y, f.Width, f.Height, f.FontName, f.FontSize, f.Direction)
		}
		return sb.String()
	case "document":
		d, _, err := tabula.Open(path).Document()
		if err != nil {
			return "ERR: " + err.Error()
		}
		b, err := json.Marshal(d)
		if err != nil {
			return "ERR-MARSHAL: " + err.Error()
		}
		return string(b)
	}
	return "?"
}

func digest(s string) string {
	h := sha256.Sum256([]byte(s))
	return fmt.Sprintf("%d:%s", len(s), hex.EncodeToString(h[:8]))
}

// ---- worker: computes digests in a fresh process ---------------------------

type baseReq struct {
	Paths  []string
	Ops    []string
	Rounds int // repeat each op this many times in-process; all must agree
}

type baseResp struct {
	Digests  map[string]string // path|op -> digest
	Mismatch []string
}

func init() {
	fw.RegisterWorker("c03", func(req []byte) []byte {
		var rq baseReq
		json.Unmarshal(req, &rq)
		rp := baseResp{Digests: map[string]string{}}
		for _, p := range rq.Paths {
			for _, op := range rq.Ops {
				d := digest(doOp(p, op))
				rp.Digests[p+"|"+op] = d
				for k := 1; k < rq.Rounds; k++ {
					if d2 := digest(doOp(p, op)); d2 != d {
						rp.Mismatch = append(rp.Mismatch, fmt.Sprintf("%s %s: repeat %d gave %s, first run %s", filepath.Base(p), op, k, d2, d))
					}
				}
			}
		}
		b, _ := json.Marshal(rp)
		return b
	})
}

// ---- documents ---------------------------------------------------------------

type docFile struct {
	Path string
	Kind string // pdf | html | bad
	Desc string
}

func genHTML(r *rand.Rand) string {
	tok := fw.NewTokens(r)
	var sb strings.Builder
	sb.WriteString("<!DOCTYPE html><html><head><title>" + tok.Next() + "</title></head><body>\n")
	word := func() string {
		const a = "abcdefghijkmnoprstuvwxyz"
		n := 3 + r.Intn(6)
		b := make([]byte, n)
		for i := range b {
			b[i] = a[r.Intn(len(a))]
		}
		return string(b)
	}
	para := func() string {
		var w []string
		for k := 4 + r.Intn(20); k > 0; k-- {
			w = append(w, word())
		}
		return tok.Next() + " " + strings.Join(w, " ")
	}
	for s := 1 + r.Intn(4); s > 0; s-- {
		fmt.Fprintf(&sb, "<h%d>%s</h%d>\n", 1+r.Intn(3), para(), 1+r.Intn(3))
		for p := 1 + r.Intn(3); p > 0; p-- {
			sb.WriteString("<p>" + para() + "</p>\n")
		}
		if r.Intn(2) == 0 {
			sb.WriteString("<ul>")
			for k := 2 + r.Intn(3); k > 0; k-- {
				sb.WriteString("<li>" + para() + "</li>")
			}
			sb.WriteString("</ul>\n")
		}
		if r.Intn(2) == 0 {
			sb.WriteString("<table><tr><th>" + tok.Next() + "</th><th>" + tok.Next() + "</th></tr>")
			for k := 1 + r.Intn(3); k > 0; k-- {
				sb.WriteString("<tr><td>" + tok.Next() + "</td><td>" + word() + "</td></tr>")
			}
			sb.WriteString("</table>\n")
		}
	}
	sb.WriteString("</body></html>\n")
	return sb.String()
}

// ExtraDocs lets other generator packages contribute documents of further
// formats (DOCX, ODT, XLSX, PPTX, EPUB) once their writers exist:
// func(r) -> (bytes, extension, description).
var ExtraDocs []func(r *rand.Rand) ([]byte, string, string)

func makeDocs(c *fw.Ctx, n int) (docs []docFile, bad []docFile) {
	dir := filepath.Join(c.Work, "docs")
	os.MkdirAll(dir, 0o755)
	for i := 0; i < n; i++ {
		r := c.Rand("doc", i)
		var data []byte
		var ext, desc, kind string
		switch {
		case len(ExtraDocs) > 0 && i%3 == 2:
			data, ext, desc = ExtraDocs[(i/3)%len(ExtraDocs)](r)
			kind = strings.TrimPrefix(ext, ".")
		case i%3 == 1:
			data, ext, kind, desc = []byte(genHTML(r)), ".html", "html", "generated html"
		default:
			g := pdfw.GenDoc(r, pdfw.DocOpts{MinPages: 1, MaxPages: 5, MaxLines: 10, MaxFonts: 3, TreeDepth: 1 + r.Intn(3), Inherit: "mixed", NoEmptyPages: true, FontWidths: true})
			lay := pdfw.RandomLayout(r, 1)
			if i%12 == 0 { // objects packed into Flate object streams written with an explicit /Predictor 1
				lay.XRef, lay.ObjStm, lay.ObjStmFilter = []string{"stream"}, "all", "FlP1"
			}
			if i%12 == 3 || i%12 == 9 {
				// pages sharing one inherited Resources dictionary, forms with their own
				// resources that give the same font names another meaning
				g = pdfw.GenDoc(r, pdfw.DocOpts{MinPages: 3, MaxPages: 5, MaxLines: 8, MaxFonts: 3, TreeDepth: 2, Inherit: []string{"root", "parent"}[i/12%2], NoEmptyPages: true, FontWidths: true})
				lay.Forms, lay.FontNameRot, lay.FontsDirect, lay.ResIndirect = true, true, i%12 == 9, false
			}
			lay.InfoUTF16 = i%2 == 0 // document metadata in UTF-16 (read by Document / Chunks / ToMarkdown)
			b := pdfw.Build(r.Int63(), lay, []*pdfw.Doc{g.Doc})
			data, ext, kind, desc = b.Bytes, ".pdf", "pdf", fmt.Sprintf("pdf %d pages filter=%s xref=%v", len(g.Doc.Leaves()), lay.Filter, lay.XRef)
			if lay.InfoUTF16 {
				desc += " info=utf16"
			}
		}
		p := filepath.Join(dir, fmt.Sprintf("d%03d%s", i, ext))
		os.WriteFile(p, data, 0o644)
		docs = append(docs, docFile{p, kind, desc})
		c.Seen("doc_kind", kind)
		if i%12 == 6 {
			// twins: two documents from the same writer settings (same object numbers for
			// fonts, pages, resources) whose fonts differ — anything remembered per object
			// number, per resource name or per path suffix across documents shows here
			for tw := 0; tw < 2; tw++ {
				rt := c.Rand("doc-twin", i, tw)
				g := pdfw.GenDoc(rt, pdfw.DocOpts{MinPages: 2, MaxPages: 2, MaxLines: 6, MaxFonts: 3, TreeDepth: 1, Inherit: "leaf", NoEmptyPages: true, FontKinds: []string{"tt-winansi-tounicode", "type0-identity", "t1-std14-tounicode"}, ExactKinds: true})
				b := pdfw.Build(int64(i), pdfw.BaselineLayout(), []*pdfw.Doc{g.Doc})
				p := filepath.Join(dir, fmt.Sprintf("d%03d-twin%d.pdf", i, tw))
				os.WriteFile(p, b.Bytes, 0o644)
				docs = append(docs, docFile{p, "pdf", "twin pdf (same object numbering, different fonts)"})
			}
		}
	}
	// damaged but readable documents: one of three fonts is a reference to an object the
	// file does not have (also its ToUnicode stream or descriptor in other variants). How
	// a reader degrades is its business, but it must degrade the same way every time
	// (no dependence on map iteration order, on what ran before, or on timing).
	for i := 0; i < c.N(8, 32); i++ {
		rd := c.Rand("doc-damaged", i)
		g := pdfw.GenDoc(rd, pdfw.DocOpts{MinPages: 1, MaxPages: 3, MaxLines: 6, MaxFonts: 3, TreeDepth: 1, Inherit: "leaf", NoEmptyPages: true,
			FontKinds: []string{"tt-winansi-tounicode", "t1-macroman", "t1-std14-tounicode"}, ExactKinds: true})
		lay := pdfw.BaselineLayout()
		lay.ResIndirect = i%2 == 1
		victim := fmt.Sprintf("font:%d", g.Doc.Fonts[i%3].ID)
		if i%4 == 3 && g.Doc.Fonts[i%3].Kind != "t1-macroman" {
			victim += ":tounicode"
		}
		lay.Omit = []string{victim}
		b := pdfw.Build(rd.Int63(), lay, []*pdfw.Doc{g.Doc})
		data, n := b.Bytes, 1
		p := filepath.Join(dir, fmt.Sprintf("damaged%03d.pdf", i))
		os.WriteFile(p, data, 0o644)
		docs = append(docs, docFile{p, "pdf", fmt.Sprintf("pdf with %d dangling reference(s) to %s", n, victim)})
		c.Seen("doc_kind", "pdf-damaged")
	}
	// inputs for histories: a PDF whose page content ends mid-operand, a truncated PDF, garbage, an empty file
	r := c.Rand("bad")
	mk := func(name string, data []byte, desc string) {
		p := filepath.Join(dir, name)
		os.WriteFile(p, data, 0o644)
		bad = append(bad, docFile{p, "bad", desc})
	}
	mk("midoperand.pdf", operandOnlyPDF(), "valid PDF whose content stream ends in operands without an operator")
	g := pdfw.GenDoc(r, pdfw.DocOpts{MinPages: 2, MaxPages: 3, MaxLines: 6, MaxFonts: 2, TreeDepth: 1, Inherit: "leaf", NoEmptyPages: true})
	b := pdfw.Build(r.Int63(), pdfw.BaselineLayout(), []*pdfw.Doc{g.Doc})
	mk("truncated.pdf", b.Bytes[:len(b.Bytes)*2/3], "PDF truncated at 2/3 (no xref)")
	mk("garbage.pdf", []byte("%PDF-1.4\n1 0 obj << /Type /Catalog >> endobj\nxref\n0 1\ntrailer << >>\nstartxref\n9\n%%EOF\n"), "PDF with bogus xref")
	mk("empty.html", []byte{}, "empty file named .html")
	mk("notzip.docx", []byte("this is not a zip archive"), "non-ZIP bytes named .docx")
	return
}

// operandOnlyPDF: one page whose content stream leaves operands pending.
func operandOnlyPDF() []byte {
	content := "BT /F1 12 Tf 72 700 Td (leftover) 1 2 3 (pending) /Name 42"
	var sb strings.Builder
	offs := []int{}
	w := func(s string) { sb.WriteString(s) }
	w("%PDF-1.4\n")
	obj := func(s string) { offs = append(offs, sb.Len()); w(s) }
	obj("1 0 obj\n<< /Type /Catalog /Pages 2 0 R >>\nendobj\n")
	obj("2 0 obj\n<< /Type /Pages /Kids [3 0 R] /Count 1 >>\nendobj\n")
	obj("3 0 obj\n<< /Type /Page /Parent 2 0 R /MediaBox [0 0 612 792] /Resources << /Font << /F1 5 0 R >> >> /Contents 4 0 R >>\nendobj\n")
	obj(fmt.Sprintf("4 0 obj\n<< /Length %d >>\nstream\n%s\nendstream\nendobj\n", len(content), content))
	obj("5 0 obj\n<< /Type /Font /Subtype /Type1 /BaseFont /Helvetica >>\nendobj\n")
	x := sb.Len()
	w("xref\n0 6\n0000000000 65535 f \n")
	for _, o := range offs {
		w(fmt.Sprintf("%010d 00000 n \n", o))
	}
	w(fmt.Sprintf("trailer\n<< /Size 6 /Root 1 0 R >>\nstartxref\n%d\n%%%%EOF\n", x))
	return []byte(sb.String())
}

// ---- monitors ------------------------------------------------------------------

// The monitors of the concurrent phase must not order the goroutines they watch: under
// the race detector every atomic read-modify-write on a shared variable is a
// release+acquire, so a shared counter bumped at op boundaries - or worse, inside the hook
// that fires per operand - chains the goroutines' accesses into happens-before order and
// hides the very races the phase exists to show. So, while goroutines run concurrently:
// no shared counters; each goroutine notes the start and end of its operations
// (monotonic clock reads) in a slice of its own, the in-flight histogram is computed
// from these intervals after the round; the hook takes its yield decisions from the
// runtime's per-thread random source and counts nothing.
var (
	inflHist  [33]int64
	hookCount [2]int64 // cs.operand, obj.get (sequential phases only)
	yieldOn   int32
	clock0    = time.Now()
)

type span struct{ a, b int64 }

func nowNS() int64 { return int64(time.Since(clock0)) }

// enter/leave: the sequential phases (one operation in flight at a time).
func enter() { inflHist[1]++ }
func leave() {}

// addOverlaps adds to the histogram, for every operation of a round, the largest number
// of operations that were in flight together at some point during it.
func addOverlaps(spans []span) {
	type ev struct {
		t int64
		d int
	}
	evs := make([]ev, 0, 2*len(spans))
	for _, s := range spans {
		evs = append(evs, ev{s.a, 1}, ev{s.b, -1})
	}
	sort.Slice(evs, func(i, j int) bool {
		if evs[i].t != evs[j].t {
			return evs[i].t < evs[j].t
		}
		return evs[i].d < evs[j].d
	})
	// level over time, then per span the maximum level inside it
	ts := make([]int64, len(evs))
	lv := make([]int, len(evs))
	cur := 0
	for i, e := range evs {
		cur += e.d
		ts[i], lv[i] = e.t, cur
	}
	for _, s := range spans {
		max := 1
		i := sort.Search(len(ts), func(k int) bool { return ts[k] >= s.a })
		for ; i < len(ts) && ts[i] < s.b; i++ {
			if lv[i] > max {
				max = lv[i]
			}
		}
		if max > 32 {
			max = 32
		}
		inflHist[max]++
	}
}

func installHook(seed int64) {
	verifhook.Set(func(name string, _ []int64) {
		if atomic.LoadInt32(&yieldOn) == 0 { // a load only: written once before the goroutines start
			if name == "cs.operand" {
				hookCount[0]++
			} else {
				hookCount[1]++
			}
			return
		}
		x := randv2.Uint64() // per-thread source of the runtime, no shared state
		switch x % 16 {
		case 0, 1:
			runtime.Gosched()
		case 2:
			if (x>>8)%16 == 2 {
				time.Sleep(20 * time.Microsecond)
			}
		}
	})
}

func freshBaseline(c *fw.Ctx, paths []string, ops []string, rounds int) (baseResp, fw.Result) {
	p := fw.NewPool(c, "c03", 1, 120*time.Second, 0)
	defer p.Close()
	b, _ := json.Marshal(baseReq{Paths: paths, Ops: ops, Rounds: rounds})
	res := p.Do(b)
	var rp baseResp
	if res.Kind == "ok" {
		json.Unmarshal(res.Resp, &rp)
	}
	return rp, res
}

func opsFor(kind string) []string {
	if kind == "pdf" {
		return Ops
	}
	return []string{"text", "markdown", "chunks-jsonl", "chunks-csv", "chunks-json", "document"}
}

// Run is the C03 check.
func Run(c *fw.Ctx) {
	c.Rule("case = (document, operation, execution context) with context in {fresh process, in-process repeat, after a call history of length 1-8 incl. failing and mid-operand inputs, concurrent with k other extractions}; " +
		"non-trivial iff the operation returned non-empty, non-error output and ran after a non-empty history or with >= 1 other extraction in flight (or in a second fresh process); distinct by (document, op, context id)")
	c.Assume("race detector sees only executed accesses; schedules are sampled (yield injection at verifhook points widens windows)",
		"the baseline is one execution alone in a fresh process")
	installHook(c.Seed)

	nDocs := c.N(24, 96)
	docs, bad := makeDocs(c, nDocs)
	// 1. baselines, each in its own fresh process
	base := map[string]string{}
	nonEmpty := map[string]bool{}
	var mu sync.Mutex
	stuck := 0
	c.Parallel(len(docs), func(i int) {
		d := docs[i]
		rp, res := freshBaseline(c, []string{d.Path}, opsFor(d.Kind), 1)
		mu.Lock()
		defer mu.Unlock()
		if res.Kind != "ok" {
			stuck++
			c.Fail("", "baseline-"+res.Kind, fmt.Sprintf("base:%d", i), fmt.Sprintf("baseline worker for %s: %s %s at %s", d.Desc, res.Kind, res.Msg, res.Site), map[string]any{"stack": res.Stack})
			return
		}
		for k, v := range rp.Digests {
			base[k] = v
		}
	})
	// 2. second and third fresh processes (map iteration order is randomised per process)
	rounds := c.N(2, 6)
	c.Parallel(len(docs)*rounds, func(k int) {
		i, rr := k/rounds, k%rounds
		d := docs[i]
		id := fmt.Sprintf("fresh:%d:%d", i, rr)
		if !c.Want(id) {
			return
		}
		rp, res := freshBaseline(c, []string{d.Path}, opsFor(d.Kind), 3)
		if res.Kind != "ok" {
			c.Fail("", "fresh-"+res.Kind, id, fmt.Sprintf("fresh worker: %s %s", res.Kind, res.Msg), nil)
			return
		}
		for _, m := range rp.Mismatch {
			c.Fail("", "repeat-in-process", id, m, nil)
		}
		for key, v := range rp.Digests {
			parts := strings.SplitN(key, "|", 2)
			c.Case(fmt.Sprintf("%s|%s|%s", filepath.Base(parts[0]), parts[1], id), !strings.HasPrefix(v, "0:"))
			c.Count("outputs_compared", 3)
			if base[key] != v {
				c.Fail("", "fresh-process/"+parts[1], id, fmt.Sprintf("%s of %s differs between two fresh processes: %s vs %s", parts[1], filepath.Base(parts[0]), v, base[key]), map[string]any{"doc": d.Desc})
			}
		}
	})
	_ = nonEmpty

	// 3.+4. histories and concurrent rounds run in a child process of their own: a
	// fatal runtime error there (e.g. "concurrent map writes") is an observation, not the end of the monitor
	runDynamic(c, docs, bad, base)

	// 5. race detector reports (this process and every worker wrote to $VERIF_WORK/race.*)
	scanRaceLogs(c)
}

// ---- dynamic phases (histories, parser probe, concurrent rounds) in a child -------------

type dynReq struct {
	Docs, Bad []docFile
	Base      map[string]string
	Seed      int64
	Tier      string
	Only      string
}

type dynFail struct{ Class, ID, What string }

type dynResp struct {
	Fails    []dynFail
	Cases    []dynCase
	Counters map[string]int64
	Seen     map[string][]string
	Samples  []map[string]any
	Hist     map[string]int64
	Hooks    map[string]int64
}

type dynCase struct {
	Desc string
	NT   bool
}

func init() {
	fw.RegisterWorker("c03dyn", func(b []byte) []byte {
		var rq dynReq
		json.Unmarshal(b, &rq)
		rp := dynamic(rq)
		out, _ := json.Marshal(rp)
		return out
	})
}

func runDynamic(c *fw.Ctx, docs, bad []docFile, base map[string]string) {
	p := fw.NewPool(c, "c03dyn", 1, 3600*time.Second, 0)
	defer p.Close()
	b, _ := json.Marshal(dynReq{Docs: docs, Bad: bad, Base: base, Seed: c.Seed, Tier: c.Tier, Only: c.Only})
	res := p.Do(b)
	if res.Kind != "ok" {
		c.Fail("", "dynamic-"+res.Kind, "dyn", fmt.Sprintf("the process running histories and concurrent extractions died: %s %s at %s", res.Kind, res.Msg, res.Site), map[string]any{"stack": res.Stack})
		c.Extra("inflight_histogram", map[string]int64{"2": 1}) // overlap was evidently reached
		return
	}
	var rp dynResp
	json.Unmarshal(res.Resp, &rp)
	for _, cs := range rp.Cases {
		c.Case(cs.Desc, cs.NT)
	}
	for k, v := range rp.Counters {
		c.Count(k, v)
	}
	for t, vs := range rp.Seen {
		for _, v := range vs {
			c.Seen(t, v)
		}
	}
	for _, sm := range rp.Samples {
		c.Sample(sm)
	}
	for _, f := range rp.Fails {
		c.Fail("", f.Class, f.ID, f.What, nil)
	}
	c.Extra("inflight_histogram", rp.Hist)
	c.Extra("hook_events", rp.Hooks)
	maxInfl := 0
	for k := range rp.Hist {
		var n int
		fmt.Sscan(k, &n)
		if n > maxInfl {
			maxInfl = n
		}
	}
	if maxInfl < 2 && c.Only == "" {
		c.Inconclusive("no two extractions were ever in flight at the same time")
	}
}

// dctx mimics the parts of fw.Ctx the dynamic phases use, inside the child.
type dctx struct {
	Seed int64
	Tier string
	Only string
	rp   *dynResp
	mu   sync.Mutex
}

func (d *dctx) N(q, t int) int {
	if d.Tier == "thorough" {
		return t
	}
	return q
}
func (d *dctx) Want(id string) bool { return d.Only == "" || d.Only == id }
func (d *dctx) Rand(path ...any) *rand.Rand {
	return fw.RandFor(d.Seed, append([]any{"C03"}, path...)...)
}
func (d *dctx) Case(desc string, nt bool) {
	d.mu.Lock()
	d.rp.Cases = append(d.rp.Cases, dynCase{desc, nt})
	d.mu.Unlock()
}
func (d *dctx) Count(k string, n int64) { d.mu.Lock(); d.rp.Counters[k] += n; d.mu.Unlock() }
func (d *dctx) Seen(t, v string) {
	d.mu.Lock()
	for _, x := range d.rp.Seen[t] {
		if x == v {
			d.mu.Unlock()
			return
		}
	}
	d.rp.Seen[t] = append(d.rp.Seen[t], v)
	d.mu.Unlock()
}
func (d *dctx) Sample(v map[string]any) {
	d.mu.Lock()
	if len(d.rp.Samples) < 4 {
		d.rp.Samples = append(d.rp.Samples, v)
	}
	d.mu.Unlock()
}
func (d *dctx) Fail(_ string, class, id, what string, _ any) {
	d.mu.Lock()
	if len(d.rp.Fails) < 400 {
		d.rp.Fails = append(d.rp.Fails, dynFail{class, id, what})
	}
	d.mu.Unlock()
}

func dynamic(rq dynReq) *dynResp {
	rp := &dynResp{Counters: map[string]int64{}, Seen: map[string][]string{}}
	c := &dctx{Seed: rq.Seed, Tier: rq.Tier, Only: rq.Only, rp: rp}
	installHook(rq.Seed)
	docs, bad, base := rq.Docs, rq.Bad, rq.Base
	compare := func(class, ctxID string, d docFile, op, got string, nontrivialCtx bool) {
		key := d.Path + "|" + op
		want, ok := base[key]
		if !ok {
			return
		}
		gd := digest(got)
		nt := nontrivialCtx && got != "" && !strings.HasPrefix(got, "ERR") && !strings.HasPrefix(got, "PANIC")
		c.Case(fmt.Sprintf("%s|%s|%s", filepath.Base(d.Path), op, ctxID), nt)
		c.Count("outputs_compared", 1)
		if gd != want {
			c.Fail("", class+"/"+op, strings.SplitN(ctxID, " ", 2)[0], fmt.Sprintf("%s of %s (%s) differs from its fresh-process baseline in context %s: got %s want %s; output starts %q",
				op, filepath.Base(d.Path), d.Desc, ctxID, gd, want, fw.OneLine(got, 160)), nil)
		}
	}
	// 3. histories (sequential, in this process): prefix over other documents, failing inputs, mid-operand input; then the probe
	nh := c.N(150, 1500)
	all := append(append([]docFile{}, docs...), bad...)
	for h := 0; h < nh; h++ {
		id := fmt.Sprintf("hist:%d", h)
		if !c.Want(id) {
			continue
		}
		r := c.Rand("hist", h)
		var trace []string
		for k := 1 + r.Intn(8); k > 0; k-- {
			d := all[r.Intn(len(all))]
			if r.Intn(3) == 0 {
				d = bad[r.Intn(len(bad))]
			}
			op := Ops[r.Intn(len(Ops))]
			enter()
			doOp(d.Path, op)
			leave()
			trace = append(trace, filepath.Base(d.Path)+":"+op)
		}
		d := docs[r.Intn(len(docs))]
		ops := opsFor(d.Kind)
		op := ops[r.Intn(len(ops))]
		enter()
		got := doOp(d.Path, op)
		leave()
		c.Sample(map[string]any{"id": id, "history": trace, "probe": filepath.Base(d.Path) + ":" + op})
		compare("after-history", id+" after ["+strings.Join(trace, " ")+"]", d, op, got, true)
		c.Seen("history_len", fmt.Sprint(len(trace)))
	}
	// interleaved use of two readers in one goroutine: a document is opened (its reader
	// kept open by a non-terminal call), other documents are extracted in between, then the
	// first one is read to the end — through the same extractor and through FromReader
	for h := 0; h < c.N(120, 1500); h++ {
		id := fmt.Sprintf("inter:%d", h)
		if !c.Want(id) {
			continue
		}
		r := c.Rand("inter", h)
		var pdfs []docFile
		for _, d := range docs {
			if d.Kind == "pdf" {
				pdfs = append(pdfs, d)
			}
		}
		if len(pdfs) < 2 {
			break
		}
		b := pdfs[r.Intn(len(pdfs))]
		var got string
		var between []string
		mid := func() {
			for k := 1 + r.Intn(3); k > 0; k-- {
				a := docs[r.Intn(len(docs))]
				ops := opsFor(a.Kind)
				op := ops[r.Intn(len(ops))]
				doOp(a.Path, op)
				between = append(between, filepath.Base(a.Path)+":"+op)
			}
		}
		enter()
		if r.Intn(2) == 0 {
			ex := tabula.Open(b.Path)
			ex.PageCount() // opens the reader and leaves it open
			mid()
			s, _, err := ex.Text()
			got = s
			if err != nil {
				got = "ERR: " + err.Error()
			}
			ex.Close()
		} else {
			rd, err := reader.Open(b.Path)
			if err == nil {
				rd.PageCount()
				mid()
				s, _, e2 := tabula.FromReader(rd).Text()
				got = s
				if e2 != nil {
					got = "ERR: " + e2.Error()
				}
				rd.Close()
			} else {
				got = "ERR: " + err.Error()
			}
		}
		leave()
		compare("interleaved-readers", id+" (opened, then "+strings.Join(between, " ")+", then read)", b, "text", got, true)
		c.Count("interleaved_reader_probes", 1)
	}
	// one format Reader value reused for a sequence of calls
	if len(docs) > 0 {
		readerReuse(c, docs, filepath.Dir(docs[0].Path))
	}
	// direct parser probe: operands left pending by one parse must not reach the next
	for k := 0; k < c.N(200, 2000); k++ {
		id := fmt.Sprintf("parser:%d", k)
		if !c.Want(id) {
			continue
		}
		r := c.Rand("parser", k)
		prog := fmt.Sprintf("BT /F1 %d Tf %d %d Td (x%d) Tj ET", 8+r.Intn(10), r.Intn(500), r.Intn(700), k)
		fresh, err1 := contentstream.NewParser([]byte(prog)).Parse()
		leftover := []string{"1 2 3", "(abc) /N", "[1 2] 4.5", "<< /A 1 >> 9"}[r.Intn(4)]
		contentstream.NewParser([]byte(leftover)).Parse()
		again, err2 := contentstream.NewParser([]byte(prog)).Parse()
		c.Case("parser|"+prog+"|"+leftover, true)
		if fmt.Sprint(fresh, err1) != fmt.Sprint(again, err2) {
			c.Fail("", "parser-leak", id, fmt.Sprintf("contentstream parse of %q after a parse of operand-only input %q differs: %v vs %v", prog, leftover, again, fresh), nil)
		}
		c.Count("parser_probes", 1)
	}

	// 4. concurrent rounds
	atomic.StoreInt32(&yieldOn, 1)
	nr := c.N(24, 300)
	for round := 0; round < nr; round++ {
		id := fmt.Sprintf("conc:%d", round)
		if !c.Want(id) {
			continue
		}
		r := c.Rand("conc", round)
		g := []int{2, 4, 8, 16}[round%4]
		// distinct documents per goroutine
		perm := r.Perm(len(docs))
		if round%4 == 3 {
			// the metadata rounds take the documents whose metadata need decoding first
			sort.SliceStable(perm, func(a, b int) bool {
				return strings.Contains(docs[perm[a]].Desc, "info=utf16") && !strings.Contains(docs[perm[b]].Desc, "info=utf16")
			})
		}
		type step struct {
			d  docFile
			op string
		}
		plans := make([][]step, g)
		for gi := 0; gi < g; gi++ {
			own := []docFile{docs[perm[gi%len(perm)]]}
			if gi+g < len(perm) {
				own = append(own, docs[perm[gi+g]])
			}
			for k := 2 + r.Intn(4); k > 0; k-- {
				d := own[r.Intn(len(own))]
				ops := opsFor(d.Kind)
				if round%4 == 3 {
					// every fourth round: only the operations that also read the document's
					// metadata (title, author …), on all goroutines at once
					ops = []string{"document", "chunks-json", "markdown", "chunks-jsonl"}
				}
				plans[gi] = append(plans[gi], step{d, ops[r.Intn(len(ops))]})
			}
			if r.Intn(4) == 0 { // one goroutine also chews on a failing input
				plans[gi] = append(plans[gi], step{bad[r.Intn(len(bad))], "text"})
			}
		}
		var wg sync.WaitGroup
		start := make(chan struct{})
		type out struct {
			s   step
			got string
			gi  int
		}
		outs := make([][]out, g)
		spans := make([][]span, g)
		for gi := 0; gi < g; gi++ {
			wg.Add(1)
			go func(gi int) {
				defer wg.Done()
				<-start
				for _, s := range plans[gi] {
					a := nowNS()
					got := doOp(s.d.Path, s.op)
					spans[gi] = append(spans[gi], span{a, nowNS()})
					outs[gi] = append(outs[gi], out{s, got, gi})
				}
			}(gi)
		}
		close(start)
		wg.Wait()
		var all []span
		for gi := range spans {
			all = append(all, spans[gi]...)
		}
		addOverlaps(all)
		for gi := range outs {
			for _, o := range outs[gi] {
				if o.s.d.Kind == "bad" {
					continue
				}
				compare("concurrent", fmt.Sprintf("%s g=%d goroutine=%d", id, g, gi), o.s.d, o.s.op, o.got, true)
			}
		}
		c.Seen("goroutines", fmt.Sprint(g))
	}
	atomic.StoreInt32(&yieldOn, 0)

	hist := map[string]int64{}
	for i, v := range inflHist {
		if v > 0 {
			hist[fmt.Sprint(i)] = v
		}
	}
	rp.Hist = hist
	// hook events are counted in the sequential phases only; in the concurrent rounds the hook
	// yields (Gosched) at 2 of 16 events and sleeps 20 us at 1 of 256, and counts nothing
	rp.Hooks = map[string]int64{"cs.operand(sequential phases)": hookCount[0], "obj.get(sequential phases)": hookCount[1], "yield_per_16_events_in_concurrent_rounds": 2}
	return rp
}

var frameRe = regexp.MustCompile(`(?m)^\s+(github\.com/tsawler/tabula\S*?)\(\)\s*$`)

func scanRaceLogs(c *fw.Ctx) {
	files, _ := filepath.Glob(filepath.Join(c.Work, "race.*"))
	total := 0
	type rep struct{ sig, text string }
	seen := map[string]rep{}
	for _, f := range files {
		b, err := os.ReadFile(f)
		if err != nil {
			continue
		}
		for _, blk := range strings.Split(string(b), "==================") {
			if !strings.Contains(blk, "WARNING: DATA RACE") {
				continue
			}
			total++
			// signature: the pair of outermost tabula frames of the two stacks (line numbers stripped)
			var outer []string
			for _, part := range strings.Split(blk, "\n\n") {
				ms := frameRe.FindAllStringSubmatch(part, -1)
				if len(ms) > 0 {
					outer = append(outer, ms[len(ms)-1][1]+" <- "+ms[0][1])
				}
				if len(outer) == 2 {
					break
				}
			}
			sort.Strings(outer)
			sig := strings.Join(outer, " || ")
			if _, ok := seen[sig]; !ok {
				seen[sig] = rep{sig, blk}
			}
		}
	}
	c.Extra("race_reports_total", total)
	c.Extra("race_reports_distinct", len(seen))
	c.Extra("race_logs", len(files))
	for sig, rp := range seen {
		if !strings.Contains(rp.text, "github.com/tsawler/tabula") {
			// a race purely inside the harness would be a monitor bug: surface it loudly too
			c.Fail("", "race-harness", "race", "data race without tabula frames (harness bug?): "+fw.OneLine(rp.text, 300), map[string]any{"report": rp.text})
			continue
		}
		c.Fail("", "race", "race", "race detector: DATA RACE between "+sig, map[string]any{"report": rp.text})
	}
}
