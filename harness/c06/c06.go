// Package c06: PDF object syntax has one meaning for both parsers.
//
// Oracle: the generated tree / operation list itself. An independent writer
// (ref/pdfsyn) spells it under every spelling policy; tabula parses it back:
//
//	core.NewParser(r).ParseObject()           single trees and top-level sequences
//	core.NewParser(r).ParseIndirectObject()   "n g obj ... endobj", incl. streams
//	contentstream.NewParser(b).Parse()        operator programs
//
// and the result must be structurally equal. For every operation the operand
// bytes are additionally handed to core.Parser (wrapped in "[ ]") and the two
// parsers' values are compared with each other (differential, no reference).
package c06

import (
	"bytes"
	"errors"
	"fmt"
	"io"
	"math"
	"math/rand"
	"strings"

	"github.com/tsawler/tabula/contentstream"
	"github.com/tsawler/tabula/core"

	"verifharness/fw"
	"verifharness/ref/pdfsyn"
)

// ---------------------------------------------------------------------------
// comparison reference tree <-> core.Object

func kindOf(o core.Object) string {
	if o == nil {
		return "<nil>"
	}
	return fmt.Sprintf("%T", o)
}

// diff returns "" when got equals the reference, else the first difference.
func diff(want Obj, got core.Object, path string) string {
	bad := func(f string, a ...any) string { return path + ": " + fmt.Sprintf(f, a...) }
	switch want.K {
	case pdfsyn.KNull:
		if _, ok := got.(core.Null); !ok {
			return bad("want null, got %s %v", kindOf(got), got)
		}
	case pdfsyn.KBool:
		g, ok := got.(core.Bool)
		if !ok || bool(g) != want.B {
			return bad("want bool %v, got %s %v", want.B, kindOf(got), got)
		}
	case pdfsyn.KInt:
		g, ok := got.(core.Int)
		if !ok || int64(g) != want.I {
			return bad("want integer %d, got %s %v", want.I, kindOf(got), got)
		}
	case pdfsyn.KReal:
		g, ok := got.(core.Real)
		if !ok || float64(g) != want.Float() {
			return bad("want real %s (=%v), got %s %v", want.Text, want.Float(), kindOf(got), got)
		}
	case pdfsyn.KString:
		g, ok := got.(core.String)
		if !ok || string(g) != string(want.S) {
			return bad("want string %q, got %s %q", want.S, kindOf(got), fmt.Sprint(got))
		}
	case pdfsyn.KName:
		g, ok := got.(core.Name)
		if !ok || string(g) != string(want.S) {
			return bad("want name %q, got %s %q", want.S, kindOf(got), fmt.Sprint(got))
		}
	case pdfsyn.KRef:
		g, ok := got.(core.IndirectRef)
		if !ok || g.Number != want.Num || g.Generation != want.Gen {
			return bad("want reference %d %d R, got %s %v", want.Num, want.Gen, kindOf(got), got)
		}
	case pdfsyn.KArray:
		g, ok := got.(core.Array)
		if !ok {
			return bad("want array, got %s %v", kindOf(got), got)
		}
		if len(g) != len(want.A) {
			return bad("want array of %d elements, got %d: %v", len(want.A), len(g), got)
		}
		for i := range want.A {
			if d := diff(want.A[i], g[i], fmt.Sprintf("%s[%d]", path, i)); d != "" {
				return d
			}
		}
	case pdfsyn.KDict:
		g, ok := got.(core.Dict)
		if !ok {
			return bad("want dictionary, got %s %v", kindOf(got), got)
		}
		return diffDict(want.D, g, path)
	case pdfsyn.KStream:
		g, ok := got.(*core.Stream)
		if !ok || g == nil {
			return bad("want stream, got %s %v", kindOf(got), got)
		}
		if d := diffDict(want.D, g.Dict, path+".dict"); d != "" {
			return d
		}
		if !bytes.Equal(g.Data, want.S) {
			return bad("stream data: want %d bytes %q, got %d bytes %q", len(want.S), short(want.S), len(g.Data), short(g.Data))
		}
	}
	return ""
}

// diffDict: same key set and values. ISO 32000-1 §7.3.7 makes an entry whose
// value is null equivalent to an absent entry, so a parser may drop it: the
// weaker reading is asserted (a null-valued entry may be missing).
func diffDict(want []pdfsyn.Entry, g core.Dict, path string) string {
	n := 0
	for _, e := range want {
		v, ok := g[string(e.Key)]
		if !ok {
			if e.Val.K == pdfsyn.KNull {
				continue
			}
			return fmt.Sprintf("%s: key %q missing (dictionary has keys %q)", path, e.Key, g.Keys())
		}
		n++
		if d := diff(e.Val, v, fmt.Sprintf("%s/%q", path, e.Key)); d != "" {
			return d
		}
	}
	if len(g) != n {
		return fmt.Sprintf("%s: %d unexpected extra keys (dictionary has keys %q)", path, len(g)-n, g.Keys())
	}
	return ""
}

// coreDiff compares two values produced by tabula's two parsers.
func coreDiff(a, b core.Object, path string) string {
	if a == nil || b == nil {
		if a == nil && b == nil {
			return ""
		}
		return fmt.Sprintf("%s: %s vs %s", path, kindOf(a), kindOf(b))
	}
	if a.Type() != b.Type() {
		return fmt.Sprintf("%s: core %s %v vs contentstream %s %v", path, kindOf(a), a, kindOf(b), b)
	}
	switch x := a.(type) {
	case core.Array:
		y := b.(core.Array)
		if len(x) != len(y) {
			return fmt.Sprintf("%s: array length core %d vs contentstream %d", path, len(x), len(y))
		}
		for i := range x {
			if d := coreDiff(x[i], y[i], fmt.Sprintf("%s[%d]", path, i)); d != "" {
				return d
			}
		}
	case core.Dict:
		y := b.(core.Dict)
		if len(x) != len(y) {
			return fmt.Sprintf("%s: dictionary size core %d vs contentstream %d", path, len(x), len(y))
		}
		for k, v := range x {
			w, ok := y[k]
			if !ok {
				return fmt.Sprintf("%s: key %q only in core", path, k)
			}
			if d := coreDiff(v, w, path+"/"+k); d != "" {
				return d
			}
		}
	default:
		if a != b {
			return fmt.Sprintf("%s: core %s %q vs contentstream %s %q", path, kindOf(a), fmt.Sprint(a), kindOf(b), fmt.Sprint(b))
		}
	}
	return ""
}

func short(b []byte) []byte {
	if len(b) > 120 {
		return b[:120]
	}
	return b
}

// ---------------------------------------------------------------------------
// policies

// policyFor enumerates the spellings of one case: k = 0..11 covers every
// white-space policy x every string mode (k mod 4, k mod 3 are independent),
// every EOL convention and both name modes; the case index rotates EOL and
// name mode against the rest so that all combinations occur across cases.
func policyFor(k, caseIdx int) pdfsyn.Policy {
	p := pdfsyn.Policy{
		WS:   pdfsyn.WS(k % 4),
		Str:  pdfsyn.StrMode(k % 3),
		EOL:  pdfsyn.EOL((k/4 + caseIdx) % 3),
		Name: pdfsyn.NameMode((k + caseIdx/3) % 2),
	}
	if (k+caseIdx)%7 == 0 {
		p.Str = pdfsyn.StrMixed
	}
	// the raw CR / CR LF spelling of LF inside literal strings (trigger of a
	// listed finding while it is open) is confined to a quarter of the cases
	p.RawEOL = caseIdx%4 == 2
	return p
}

const nPolicies = 12

func recordFeatures(c *acc, w *pdfsyn.Writer, p pdfsyn.Policy) {
	c.Seen("policy_ws", pdfsyn.WSNames[p.WS])
	c.Seen("policy_eol", pdfsyn.EOLNames[p.EOL])
	c.Seen("policy_string", pdfsyn.StrNames[p.Str])
	c.Seen("policy_name", pdfsyn.NameNames[p.Name])
	c.Seen("policy_combination", p.String())
	for f, n := range w.Features {
		c.Seen("spelling_feature", f)
		c.Count("spelled:"+f, int64(n))
	}
}

func seenKinds(c *acc, o Obj) {
	c.Seen("object_kind", o.K.String())
	for _, e := range o.A {
		seenKinds(c, e)
	}
	for _, e := range o.D {
		seenKinds(c, e.Val)
	}
}

func countNodes(o Obj) int64 {
	n := int64(1)
	for _, e := range o.A {
		n += countNodes(e)
	}
	for _, e := range o.D {
		n += countNodes(e.Val)
	}
	return n
}

// acc collects evidence of one case locally and hands it to the context once
// (the context's tables are behind one mutex; per-token updates would
// serialise the workers).
type acc struct {
	n map[string]int64
	s map[[2]string]struct{}
}

func newAcc() *acc { return &acc{n: map[string]int64{}, s: map[[2]string]struct{}{}} }

func (a *acc) Count(k string, n int64) {
	if a != nil {
		a.n[k] += n
	}
}
func (a *acc) Seen(t, v string) {
	if a != nil {
		a.s[[2]string{t, v}] = struct{}{}
	}
}
func (a *acc) flush(c *fw.Ctx) {
	for k, n := range a.n {
		c.Count(k, n)
	}
	for k := range a.s {
		c.Seen(k[0], k[1])
	}
}

// failure is one failed oracle (not yet reported).
type failure struct {
	class, what string
}

// findingRawEOL: see /verif/known_findings.d/C06.json. Trigger feature: a data
// LF inside a literal string spelled as an unescaped CR or CR LF.
const findingRawEOL = "C06-raw-eol-in-literal-string"

// report applies the attribution protocol: a failure of a spelling that
// carries the trigger feature of the listed finding is re-evaluated with
// exactly that feature neutralised (same PRNG stream, so every other choice is
// unchanged). Only if the neutralised spelling passes is the failure
// attributed to the finding; otherwise the neutralised case is reported.
func report(c *fw.Ctx, id string, f *failure, detail map[string]any, hadTrigger bool, neutral func() (*failure, map[string]any)) {
	if f == nil {
		return
	}
	if hadTrigger && c.FindingOpen(findingRawEOL) {
		nf, nd := neutral()
		if nf == nil {
			c.Fail(findingRawEOL, f.class, id, f.what, detail)
			return
		}
		nd["neutralised"] = findingRawEOL
		c.Fail("", nf.class, id, nf.what, nd)
		return
	}
	c.Fail("", f.class, id, f.what, detail)
}

// ---------------------------------------------------------------------------
// core.Parser cases

type coreCase struct {
	form  string // single | sequence | indirect | stream
	trees []Obj
	num   int
	gen   int
}

func genCoreCase(r *rand.Rand, i int) coreCase {
	depth := 1 + i%4
	switch (i / 4) % 8 {
	case 0, 1, 2, 3:
		return coreCase{form: "single", trees: []Obj{genTreeDepth(r, depth, true)}}
	case 4, 5:
		n := 2 + r.Intn(6)
		cc := coreCase{form: "sequence"}
		for k := 0; k < n; k++ {
			if r.Intn(4) == 0 { // integers followed by a reference at top level
				cc.trees = append(cc.trees, plainInt(r), genRef(r))
				continue
			}
			cc.trees = append(cc.trees, genTree(r, 1+r.Intn(depth), true))
		}
		return cc
	case 6:
		return coreCase{form: "indirect", trees: []Obj{genTreeDepth(r, depth, true)}, num: 1 + r.Intn(5000), gen: []int{0, 0, 0, 1, 65535}[r.Intn(5)]}
	default:
		d := genTree(r, 3, true)
		for d.K != pdfsyn.KDict || hasKey(d, "Length") {
			d = genTree(r, 3, true)
		}
		s := Obj{K: pdfsyn.KStream, D: d.D, S: genStreamData(r)}
		s = pdfsyn.WithLength(s, r)
		return coreCase{form: "stream", trees: []Obj{s}, num: 1 + r.Intn(5000)}
	}
}

func hasKey(d Obj, k string) bool {
	for _, e := range d.D {
		if string(e.Key) == k {
			return true
		}
	}
	return false
}

func genStreamData(r *rand.Rand) []byte {
	switch r.Intn(6) {
	case 0:
		return []byte{}
	case 1:
		return []byte("BT /F1 12 Tf (x) Tj ET")
	case 2:
		return []byte("endstream\nendobj\n1 0 obj\n<< >>\nstream\r\n")
	case 3:
		return []byte("\r\n\r\n")
	default:
		n := r.Intn(400)
		if r.Intn(6) == 0 {
			n = 4000 + r.Intn(9000) // beyond bufio's 4096-byte read-ahead
		}
		b := make([]byte, n)
		r.Read(b)
		return b
	}
}

func (cc coreCase) describe() string {
	var sb strings.Builder
	sb.WriteString(cc.form)
	for _, t := range cc.trees {
		sb.WriteByte('|')
		sb.WriteString(t.Describe())
	}
	return sb.String()
}

func spellCore(cc coreCase, p pdfsyn.Policy, r *rand.Rand) (*pdfsyn.Writer, []byte) {
	w := pdfsyn.NewWriter(p, r)
	switch cc.form {
	case "single", "sequence":
		for _, t := range cc.trees {
			w.Obj(t)
		}
	default:
		w.IndirectObject(cc.num, cc.gen, cc.trees[0])
	}
	if p.WS == pdfsyn.WSMaximal {
		w.Raw([]byte(" \r\n"), false)
	}
	return w, append([]byte{}, w.Bytes()...)
}

// evalCore parses one spelling with core.Parser and compares.
func evalCore(c *fw.Ctx, id string, cc coreCase, p pdfsyn.Policy, data []byte, detail map[string]any, a *acc) (f *failure) {
	class := "core-" + cc.form + "/" + pdfsyn.WSNames[p.WS]
	parseRejected(c, id+"|"+p.String(), a)
	c.Guard(class, id, detail, func() {
		ps := core.NewParser(bytes.NewReader(data))
		switch cc.form {
		case "single", "sequence":
			for n, t := range cc.trees {
				got, err := ps.ParseObject()
				if err != nil {
					f = &failure{class + "/error", fmt.Sprintf("core.ParseObject: error %q on object %d of a legal spelling (%s): %s", err, n, p, fw.OneLine(string(data), 160))}
					return
				}
				if d := diff(t, got, fmt.Sprintf("obj%d", n)); d != "" {
					f = &failure{class + "/mismatch", fmt.Sprintf("core.ParseObject: %s (%s): %s", d, p, fw.OneLine(string(data), 160))}
					return
				}
				{
					a.Count("core_nodes_compared", countNodes(t))
				}
			}
			// everything must have been consumed: the next object is EOF
			got, err := ps.ParseObject()
			if err != io.EOF {
				f = &failure{class + "/trailing", fmt.Sprintf("core.ParseObject: after the %d written objects the parser returns (%v, %v) instead of EOF (%s): %s", len(cc.trees), got, err, p, fw.OneLine(string(data), 160))}
			}
		default:
			ind, err := ps.ParseIndirectObject()
			if err != nil {
				f = &failure{class + "/error", fmt.Sprintf("core.ParseIndirectObject: error %q on a legal spelling (%s): %s", err, p, fw.OneLine(string(data), 160))}
				return
			}
			if ind.Ref.Number != cc.num || ind.Ref.Generation != cc.gen {
				f = &failure{class + "/mismatch", fmt.Sprintf("core.ParseIndirectObject: object id %d %d, want %d %d", ind.Ref.Number, ind.Ref.Generation, cc.num, cc.gen)}
				return
			}
			if d := diff(cc.trees[0], ind.Object, "obj"); d != "" {
				f = &failure{class + "/mismatch", fmt.Sprintf("core.ParseIndirectObject: %s (%s): %s", d, p, fw.OneLine(string(data), 160))}
				return
			}
			{
				a.Count("core_nodes_compared", countNodes(cc.trees[0]))
			}
		}
	})
	return f
}

// faultyReader delivers data in small reads and fails at one offset: once
// (transient: the next Read continues) or from there on (permanent).
type faultyReader struct {
	data      []byte
	pos, at   int
	permanent bool
	fired     bool
}

var errInjected = errors.New("injected read error")

func (f *faultyReader) Read(p []byte) (int, error) {
	if f.pos >= f.at && (!f.fired || f.permanent) {
		f.fired = true
		return 0, errInjected
	}
	if f.pos >= len(f.data) {
		return 0, io.EOF
	}
	n := len(p)
	if n > 7 {
		n = 7
	}
	if f.pos < f.at && f.pos+n > f.at && !f.fired {
		n = f.at - f.pos
	}
	n = copy(p[:n], f.data[f.pos:])
	f.pos += n
	return n, nil
}

// evalCoreReadFaults parses the spelling through a reader that fails at a
// chosen offset and counts what happens (error reported / tree still equal /
// tree silently different). Nothing is asserted here, see below.
func evalCoreReadFaults(c *fw.Ctx, id string, cc coreCase, p pdfsyn.Policy, data []byte, detail map[string]any, r *rand.Rand, a *acc) (f *failure) {
	if cc.form != "single" && cc.form != "sequence" || len(data) < 2 {
		return nil
	}
	class := "core-read-fault/" + pdfsyn.WSNames[p.WS]
	c.Guard(class, id, detail, func() {
		for k := 0; k < 6 && f == nil; k++ {
			fr := &faultyReader{data: data, at: 1 + r.Intn(len(data)-1), permanent: k%2 == 1}
			ps := core.NewParser(fr)
			for n, t := range cc.trees {
				got, err := ps.ParseObject()
				a.Count("core_parses_under_read_fault", 1)
				if err != nil {
					a.Count("core_read_fault_reported_as_error", 1)
					break
				}
				if d := diff(t, got, fmt.Sprintf("obj%d", n)); d != "" {
					// observed, not judged: C06 speaks about the bytes written, not about
					// readers that fail. On the pinned tree the lexer already takes a read
					// error for the end of input inside strings, escapes and the "n g R"
					// look-ahead, so "56 0 R" cut by a failing reader reads as the integer 56.
					a.Count("core_read_fault_silent_mismatch_observed", 1)
					break
				}
			}
		}
	})
	return f
}

func coreDetail(cc coreCase, p pdfsyn.Policy, desc string, data []byte) map[string]any {
	return map[string]any{"form": cc.form, "policy": p.String(), "tree": desc, "input": string(data), "input_hex": fmt.Sprintf("%x", short(data))}
}

func runCoreCase(c *fw.Ctx, id string, i int) {
	cc := genCoreCase(c.Rand("core", i, "tree"), i)
	desc := cc.describe()
	ev := newAcc()
	defer ev.flush(c)
	maxDepth, esc := 0, false
	for _, t := range cc.trees {
		if d := t.Depth(); d > maxDepth {
			maxDepth = d
		}
		esc = esc || t.NeedsEscape()
		seenKinds(ev, t)
	}
	nontriv := maxDepth >= 2 || esc
	ev.Seen("core_form", cc.form)
	ev.Seen("tree_depth", fmt.Sprint(maxDepth))
	for k := 0; k < nPolicies; k++ {
		p := policyFor(k, i)
		w, data := spellCore(cc, p, c.Rand("core", i, "spell", k))
		c.Case(desc+"|"+p.String(), nontriv)
		recordFeatures(ev, w, p)
		if k == 0 {
			c.Sample(map[string]any{"id": id, "form": cc.form, "policy": p.String(), "bytes": string(short(data))})
		}
		detail := coreDetail(cc, p, desc, data)
		f := evalCore(c, id, cc, p, data, detail, ev)
		if f == nil && k == i%nPolicies {
			f = evalCoreReadFaults(c, id, cc, p, data, detail, c.Rand("core", i, "readfault"), ev)
		}
		report(c, id, f, detail, w.Features["raw-eol-cr-in-string"] > 0, func() (*failure, map[string]any) {
			np := p
			np.NoRawEOL = true
			_, nd := spellCore(cc, np, c.Rand("core", i, "spell", k))
			ndet := coreDetail(cc, np, desc, nd)
			return evalCore(c, id, cc, np, nd, ndet, nil), ndet
		})
	}
}

// ---------------------------------------------------------------------------
// content-stream programs

func spellProgram(prog []pdfsyn.Op, p pdfsyn.Policy, r *rand.Rand) (*pdfsyn.Writer, [][2]int, []byte) {
	w := pdfsyn.NewWriter(p, r)
	spans := w.Program(prog)
	return w, spans, append([]byte{}, w.Bytes()...)
}

// rejected are inputs both parsers refuse part-way through a token. They are
// parsed (result ignored) right before legal inputs on the same goroutine: what
// a parser makes of a legal spelling does not depend on what was refused before.
var rejected = []string{
	"BT /F1 12 Tf (never closed \\( Tj ET",
	"q <48656C6C6G> Tj Q",
	"[1 2 (x) <41",
	"/N#4 << /K (v",
	"<< /A [ /B (c) ] /D <4",
	"(a(b(c) d",
	"<",
}

func parseRejected(c *fw.Ctx, id string, ev *acc) {
	r := c.Rand("rejected", id)
	if r.Intn(3) != 0 {
		return
	}
	for n := 1 + r.Intn(3); n > 0; n-- {
		in := []byte(rejected[r.Intn(len(rejected))])
		func() {
			defer func() { recover() }() // crashes on damaged input are C02's subject
			if _, err := contentstream.NewParser(in).Parse(); err != nil && ev != nil {
				ev.Count("rejected_inputs_parsed_before_a_legal_one", 1)
			}
			core.NewParser(bytes.NewReader(in)).ParseObject()
		}()
	}
}

func evalProgram(c *fw.Ctx, id string, prog []pdfsyn.Op, p pdfsyn.Policy, spans [][2]int, data []byte, detail map[string]any, ev *acc) (f *failure) {
	class := "cs-program/" + pdfsyn.WSNames[p.WS]
	parseRejected(c, id+"|"+p.String(), ev)
	c.Guard(class, id, detail, func() {
		ops, err := contentstream.NewParser(data).Parse()
		if err != nil {
			f = &failure{class + "/error", fmt.Sprintf("contentstream.Parse: error %q on a legal program (%s): %s", err, p, fw.OneLine(string(data), 160))}
			return
		}
		// grouping: same operators in order, each with exactly its operands
		for n := 0; n < len(prog) && n < len(ops); n++ {
			if ops[n].Operator != prog[n].Operator {
				f = &failure{class + "/grouping", fmt.Sprintf("contentstream.Parse: operation %d is %q with %d operands, want %q with %d operands (%s): %s",
					n, ops[n].Operator, len(ops[n].Operands), prog[n].Operator, len(prog[n].Operands), p, fw.OneLine(string(data), 160))}
				return
			}
			if prog[n].Operator == "EI" {
				continue // what a parser attaches to EI (e.g. the image data) is not specified
			}
			if len(ops[n].Operands) != len(prog[n].Operands) {
				f = &failure{class + "/grouping", fmt.Sprintf("contentstream.Parse: operation %d (%s) has %d operands %v, want %d (%s): %s",
					n, prog[n].Operator, len(ops[n].Operands), ops[n].Operands, len(prog[n].Operands), p, fw.OneLine(string(data), 160))}
				return
			}
			for a := range prog[n].Operands {
				if d := diff(prog[n].Operands[a], ops[n].Operands[a], fmt.Sprintf("op%d(%s).operand%d", n, prog[n].Operator, a)); d != "" {
					f = &failure{class + "/operand", fmt.Sprintf("contentstream.Parse: %s (%s): %s", d, p, fw.OneLine(string(data), 160))}
					return
				}
				{
					ev.Count("cs_operand_nodes_compared", countNodes(prog[n].Operands[a]))
				}
			}
		}
		if len(ops) != len(prog) {
			f = &failure{class + "/grouping", fmt.Sprintf("contentstream.Parse: %d operations, want %d (%s): %s", len(ops), len(prog), p, fw.OneLine(string(data), 160))}
			return
		}
		{
			ev.Count("cs_operations_compared", int64(len(prog)))
		}
		// differential: the operand bytes of each operation, read by core.Parser
		for n, sp := range spans {
			if sp[0] == sp[1] {
				continue
			}
			wrapped := append(append([]byte("["), data[sp[0]:sp[1]]...), ']')
			cobj, cerr := core.NewParser(bytes.NewReader(wrapped)).ParseObject()
			if cerr != nil {
				continue // "every operand both accept": core's own failures are reported by the core cases
			}
			arr, ok := cobj.(core.Array)
			if !ok {
				continue
			}
			if d := coreDiff(arr, core.Array(ops[n].Operands), fmt.Sprintf("op%d(%s)", n, prog[n].Operator)); d != "" {
				detail["operand_bytes"] = string(data[sp[0]:sp[1]])
				f = &failure{"differential/" + pdfsyn.WSNames[p.WS], fmt.Sprintf("parsers disagree on operand bytes %q: %s", fw.OneLine(string(data[sp[0]:sp[1]]), 120), d)}
				return
			}
			{
				ev.Count("differential_operand_lists_compared", 1)
			}
		}
	})
	return f
}

func runProgramCase(c *fw.Ctx, id string, i int) {
	r := c.Rand("prog", i, "ops")
	maxOps := 60
	if i%3 == 0 {
		maxOps = 6
	}
	prog := genProgram(r, maxOps)
	desc := describeProgram(prog)
	nontriv := len(prog) >= 3
	ev := newAcc()
	defer ev.flush(c)
	for _, op := range prog {
		ev.Seen("operator", op.Operator)
		for _, a := range op.Operands {
			seenKinds(ev, a)
		}
	}
	mkDetail := func(p pdfsyn.Policy, data []byte) map[string]any {
		return map[string]any{"policy": p.String(), "program": desc, "input": string(data), "input_hex": fmt.Sprintf("%x", short(data))}
	}
	for k := 0; k < nPolicies; k++ {
		p := policyFor(k, i)
		w, spans, data := spellProgram(prog, p, c.Rand("prog", i, "spell", k))
		c.Case(desc+"|"+p.String(), nontriv)
		recordFeatures(ev, w, p)
		if k == 3 {
			c.Sample(map[string]any{"id": id, "operations": len(prog), "policy": p.String(), "bytes": string(short(data))})
		}
		detail := mkDetail(p, data)
		f := evalProgram(c, id, prog, p, spans, data, detail, ev)
		report(c, id, f, detail, w.Features["raw-eol-cr-in-string"] > 0, func() (*failure, map[string]any) {
			np := p
			np.NoRawEOL = true
			_, nsp, nd := spellProgram(prog, np, c.Rand("prog", i, "spell", k))
			ndet := mkDetail(np, nd)
			return evalProgram(c, id, prog, np, nsp, nd, ndet, nil), ndet
		})
	}
}

// ---------------------------------------------------------------------------

// fixed witnesses of the defects found on the pinned tree (all proposed as
// fixes); they run on every invocation so a regression of any of them is
// reported with a short, readable input.
var csWitnesses = []struct {
	name, in string
	want     []pdfsyn.Op
}{
	{"quote", "(a)'", []pdfsyn.Op{{Operator: "'", Operands: []Obj{str("a")}}}},
	{"dquote", "1 2(a)\"", []pdfsyn.Op{{Operator: "\"", Operands: []Obj{num(1), num(2), str("a")}}}},
	{"comment", "q % save\rQ", []pdfsyn.Op{{Operator: "q"}, {Operator: "Q"}}},
	{"bool-bracket", "[true false]x", []pdfsyn.Op{{Operator: "x", Operands: []Obj{{K: pdfsyn.KArray, A: []Obj{{K: pdfsyn.KBool, B: true}, {K: pdfsyn.KBool}}}}}}},
	{"null-dictend", "/P<</K null/L false>>DP", []pdfsyn.Op{{Operator: "DP", Operands: []Obj{name("P"), {K: pdfsyn.KDict, D: []pdfsyn.Entry{{Key: []byte("K"), Val: Obj{K: pdfsyn.KNull}}, {Key: []byte("L"), Val: Obj{K: pdfsyn.KBool}}}}}}}},
	{"bare-bool", "/N true x", []pdfsyn.Op{{Operator: "x", Operands: []Obj{name("N"), {K: pdfsyn.KBool, B: true}}}}},
	{"odd-hex", "<901fa>Tj ET", []pdfsyn.Op{{Operator: "Tj", Operands: []Obj{str("\x90\x1f\xa0")}}, {Operator: "ET"}}},
	{"inline-image", "q BI/W 2/H 1/BPC 8/CS/G ID \x00\xff\nEI Q", []pdfsyn.Op{{Operator: "q"}, {Operator: "BI"}, {Operator: "ID", Operands: []Obj{name("W"), num(2), name("H"), num(1), name("BPC"), num(8), name("CS"), name("G")}}, {Operator: "EI"}, {Operator: "Q"}}},
	{"d0-d1", "1 0 d0 1 0 0 0 1 1 d1", []pdfsyn.Op{{Operator: "d0", Operands: []Obj{num(1), num(0)}}, {Operator: "d1", Operands: []Obj{num(1), num(0), num(0), num(0), num(1), num(1)}}}},
}

func str(s string) Obj  { return Obj{K: pdfsyn.KString, S: []byte(s)} }
func name(s string) Obj { return Obj{K: pdfsyn.KName, S: []byte(s)} }
func num(i int64) Obj   { return Obj{K: pdfsyn.KInt, I: i} }

var coreWitnesses = []struct {
	name, in string
	indirect bool
	want     Obj
}{
	{"comment-in-ref", "[1 %c\n 0 R 2 %c\r0 %c\r\nR]", false, Obj{K: pdfsyn.KArray, A: []Obj{{K: pdfsyn.KRef, Num: 1}, {K: pdfsyn.KRef, Num: 2}}}},
	{"comment-in-header", "3 %c\n0 %c\nobj%c\n5%c\nendobj", true, num(5)},
	{"comment-before-stream", "3 0 obj<</Length 2>>%c\nstream\nab\nendstream%c\nendobj", true, Obj{K: pdfsyn.KStream, D: []pdfsyn.Entry{{Key: []byte("Length"), Val: num(2)}}, S: []byte("ab")}},
}

// runNumberAgreement: numeric operands outside what either parser stores as an
// integer (beyond 64 bits) or far outside the real range. Neither parser has to
// accept them; where both do, they assign the same value.
func runNumberAgreement(c *fw.Ctx) {
	r := c.Rand("number-agreement")
	spell := []string{"9223372036854775808", "-9223372036854775809", "10000000000000000000", "18446744073709551616", "-18446744073709551616",
		"340282346638528859811704183484516925440", "99999999999999999999", "-99999999999999999999", "+12345678901234567890123", "000018446744073709551616"}
	for k := 0; k < c.N(200, 4000); k++ {
		n := 19 + r.Intn(25)
		d := digits(r, n)
		if d[0] == '0' {
			d = "1" + d[1:]
		}
		spell = append(spell, []string{"", "-", "+"}[r.Intn(3)]+d)
	}
	num := func(o core.Object) (float64, bool) {
		switch v := o.(type) {
		case core.Int:
			return float64(v), true
		case core.Real:
			return float64(v), true
		}
		return 0, false
	}
	for i, sp := range spell {
		id := fmt.Sprintf("numagree:%d", i)
		if !c.Want(id) {
			continue
		}
		c.Case("numagree|"+sp, true)
		detail := map[string]any{"input": sp}
		c.Guard("number-agreement", id, detail, func() {
			co, cerr := core.NewParser(strings.NewReader(sp + " ")).ParseObject()
			ops, perr := contentstream.NewParser([]byte(sp + " w")).Parse()
			if cerr != nil || perr != nil || len(ops) != 1 || len(ops[0].Operands) != 1 {
				c.Count("out_of_range_numbers_refused_by_one_parser", 1)
				return
			}
			a, ok1 := num(co)
			b, ok2 := num(ops[0].Operands[0])
			c.Count("out_of_range_numbers_compared", 1)
			if !ok1 || !ok2 || !(a == b || math.Abs(a-b) <= 1e-9*math.Max(math.Abs(a), math.Abs(b))) {
				c.Fail("", "number-agreement/out-of-range-integer", id, fmt.Sprintf("operand %s: the document parser reads %v (%T), the content-stream parser %v (%T)", sp, co, co, ops[0].Operands[0], ops[0].Operands[0]), detail)
			}
		})
	}
}

func runWitnesses(c *fw.Ctx) {
	for _, wt := range csWitnesses {
		id := "w:cs:" + wt.name
		if !c.Want(id) {
			continue
		}
		c.Case("witness|"+wt.in, true)
		detail := map[string]any{"input": wt.in}
		c.Guard("witness/"+wt.name, id, detail, func() {
			ops, err := contentstream.NewParser([]byte(wt.in)).Parse()
			if err != nil {
				c.Fail("", "witness/"+wt.name, id, fmt.Sprintf("contentstream.Parse(%q): error %q on a legal content stream", wt.in, err), detail)
				return
			}
			ok := len(ops) == len(wt.want)
			var why string
			for n := 0; ok && n < len(ops); n++ {
				if ops[n].Operator != wt.want[n].Operator || (len(ops[n].Operands) != len(wt.want[n].Operands) && wt.want[n].Operator != "EI") {
					ok = false
					break
				}
				if wt.want[n].Operator == "EI" {
					continue
				}
				for a := range ops[n].Operands {
					if why = diff(wt.want[n].Operands[a], ops[n].Operands[a], fmt.Sprintf("op%d.operand%d", n, a)); why != "" {
						ok = false
					}
				}
			}
			if !ok {
				c.Fail("", "witness/"+wt.name, id, fmt.Sprintf("contentstream.Parse(%q) = %v, want %s %s", wt.in, ops, fw.OneLine(describeProgram(wt.want), 200), why), detail)
			}
		})
	}
	for _, wt := range coreWitnesses {
		id := "w:core:" + wt.name
		if !c.Want(id) {
			continue
		}
		c.Case("witness|"+wt.in, true)
		detail := map[string]any{"input": wt.in}
		c.Guard("witness/"+wt.name, id, detail, func() {
			ps := core.NewParser(strings.NewReader(wt.in))
			var got core.Object
			var err error
			if wt.indirect {
				var ind *core.IndirectObject
				ind, err = ps.ParseIndirectObject()
				if ind != nil {
					got = ind.Object
				}
			} else {
				got, err = ps.ParseObject()
			}
			if err != nil {
				c.Fail("", "witness/"+wt.name, id, fmt.Sprintf("core parser on %q: error %q on legal syntax (comments are white space)", wt.in, err), detail)
				return
			}
			if d := diff(wt.want, got, "obj"); d != "" {
				c.Fail("", "witness/"+wt.name, id, fmt.Sprintf("core parser on %q: %s", wt.in, d), detail)
			}
		})
	}
}

// runFindingWitnesses: one fixed case per listed finding, run on every
// invocation; reported under the finding id while it is open, as a plain
// violation otherwise.
func runFindingWitnesses(c *fw.Ctx) {
	if c.Want("w:finding:raw-eol-core") {
		in := "(a\r\nb\rc\nd)"
		c.Case("witness|"+in, true)
		detail := map[string]any{"input": in}
		c.Guard("witness/raw-eol", "w:finding:raw-eol-core", detail, func() {
			got, err := core.NewParser(strings.NewReader(in)).ParseObject()
			if d := diff(str("a\nb\nc\nd"), got, "obj"); err != nil || d != "" {
				c.Fail(findingRawEOL, "witness/raw-eol", "w:finding:raw-eol-core", fmt.Sprintf("core.ParseObject(%q): %s (err %v): an unescaped CR / CR LF in a literal string reads as LF (ISO 32000-1 7.3.4.2)", in, d, err), detail)
			}
		})
	}
	if c.Want("w:finding:raw-eol-cs") {
		in := "(a\r\nb\rc\nd)Tj"
		c.Case("witness|"+in, true)
		detail := map[string]any{"input": in}
		c.Guard("witness/raw-eol", "w:finding:raw-eol-cs", detail, func() {
			ops, err := contentstream.NewParser([]byte(in)).Parse()
			d := "no operation"
			if err == nil && len(ops) == 1 && len(ops[0].Operands) == 1 {
				d = diff(str("a\nb\nc\nd"), ops[0].Operands[0], "operand")
			}
			if err != nil || d != "" {
				c.Fail(findingRawEOL, "witness/raw-eol", "w:finding:raw-eol-cs", fmt.Sprintf("contentstream.Parse(%q): %s (err %v): an unescaped CR / CR LF in a literal string reads as LF (ISO 32000-1 7.3.4.2)", in, d, err), detail)
			}
		})
	}
}

// Run is the C06 check.
func Run(c *fw.Ctx) {
	c.Rule("case = (object tree | top-level object sequence | indirect object | stream | operator program) x spelling policy; " +
		"non-trivial iff the tree has depth >= 2 or needs at least one escape (string byte that cannot stay raw, name byte needing #xx), " +
		"or the program has >= 3 operations; distinct by hash of the canonical tree/program description + policy")
	c.Assume("the writer ref/pdfsyn emits only spellings that ISO 32000-1 §7.2/§7.3/§7.8.2 make unambiguous (see its package comment)",
		"expected value of a real = the Go standard library's correctly rounded reading of its decimal numeral",
		"a dictionary entry with value null may be reported as absent (§7.3.7), every other difference is a mismatch",
		"integers stay within int64; reals are plain decimals (no exponent); names never contain NUL",
		"inline images: the data after ID never contain white space followed by EI, and white space precedes EI; the operands a parser attaches to EI are not compared",
		"a data LF inside a literal string is written as an unescaped CR / CR LF (which §7.3.4.2 reads as LF) only in a quarter of the cases (trigger of finding "+findingRawEOL+" while it is open)")

	runWitnesses(c)
	runNumberAgreement(c)
	runFindingWitnesses(c)

	n := c.N(15000, 300000) // x 12 policies
	c.Parallel(n, func(i int) {
		id := fmt.Sprintf("core:%d", i)
		if !c.Want(id) {
			return
		}
		runCoreCase(c, id, i)
	})
	m := c.N(4000, 80000) // x 12 policies
	c.Parallel(m, func(i int) {
		id := fmt.Sprintf("prog:%d", i)
		if !c.Want(id) {
			return
		}
		runProgramCase(c, id, i)
	})
	c.Exhaustive(false)
	c.Extra("spellings_per_case", nPolicies)
	if c.Only == "" && c.SeenCount("operator") < len(opTable) {
		c.Inconclusive(fmt.Sprintf("only %d of %d operators were generated", c.SeenCount("operator"), len(opTable)))
	}
}
