package c06

import (
	"fmt"
	"math/rand"
	"strconv"
	"strings"

	"verifharness/ref/pdfsyn"
)

type Obj = pdfsyn.Obj

// ---------------------------------------------------------------------------
// scalars

var intSpecials = []int64{
	0, 1, -1, 7, 10, 255, 65535, 100000,
	1<<31 - 1, 1 << 31, -(1 << 31), -(1 << 31) - 1, 1<<32 - 1, 1 << 32,
	1<<63 - 1, -(1<<63 - 1), -1 << 63, 1<<53 + 1,
}

func genInt(r *rand.Rand) Obj {
	var v int64
	switch r.Intn(4) {
	case 0:
		v = intSpecials[r.Intn(len(intSpecials))]
	case 1:
		v = int64(r.Intn(2001) - 1000)
	case 2:
		v = int64(r.Uint64())
	default:
		v = int64(r.Intn(1000000))
	}
	o := Obj{K: pdfsyn.KInt, I: v}
	// decorations: explicit plus sign, leading zeros (both legal, §7.3.3)
	switch r.Intn(10) {
	case 0:
		if v >= 0 {
			o.Text = "+" + strconv.FormatInt(v, 10)
		}
	case 1:
		if v >= 0 {
			o.Text = strings.Repeat("0", 1+r.Intn(3)) + strconv.FormatInt(v, 10)
		} else if v != -1<<63 {
			o.Text = "-" + strings.Repeat("0", 1+r.Intn(3)) + strconv.FormatInt(-v, 10)
		}
	case 2:
		if v == 0 {
			o.Text = "-0"
		}
	}
	return o
}

var realSpecials = []string{
	"34.5", "-3.62", "+123.6", "4.", "-.002", "0.0", ".5", "-.5", "+.5", "-4.", "+4.", "0.", ".0", "-0.0",
	"1.50", "00.5", "000123.4500", "0.00000000001", "123456789012345.678", "-2147483648.5", "4294967296.25",
	"3.14159265358979323846264338327950288", "0.1", "0.3", "16777217.0", "9007199254740993.0", "32767.99999",
	"9223372036854775807.0", "0.000000000000000000000000000001", "99999999999999999999.9",
	// whole numbers beyond the 64-bit integers, written without a decimal point
	"10000000000000000000", "-9223372036854775809", "18446744073709551616", "+9223372036854775808",
	"340282350000000000000000000000000000000",
}

func digits(r *rand.Rand, n int) string {
	b := make([]byte, n)
	for i := range b {
		b[i] = byte('0' + r.Intn(10))
	}
	return string(b)
}

func genReal(r *rand.Rand) Obj {
	if r.Intn(3) == 0 {
		return Obj{K: pdfsyn.KReal, Text: realSpecials[r.Intn(len(realSpecials))]}
	}
	sign := []string{"", "", "-", "+"}[r.Intn(4)]
	ip, fp := "", ""
	switch r.Intn(6) {
	case 0: // ".ddd"
		fp = digits(r, 1+r.Intn(8))
	case 1: // "ddd."
		ip = digits(r, 1+r.Intn(8))
	default:
		ip = digits(r, 1+r.Intn(7))
		fp = digits(r, 1+r.Intn(7))
	}
	return Obj{K: pdfsyn.KReal, Text: sign + ip + "." + fp}
}

var asciiWords = []string{"Hello", "World", "abc", "Type", "Font", "stream", "endobj", "true", "null", "R", "obj", "Tj", "12", "0", "7", "-3.5"}

func genStringBytes(r *rand.Rand) []byte {
	switch r.Intn(12) {
	case 0:
		return []byte{}
	case 1: // plain text
		return []byte(asciiWords[r.Intn(len(asciiWords))] + " " + asciiWords[r.Intn(len(asciiWords))])
	case 2: // balanced parentheses
		return []byte("a(b(c)d)e()" + asciiWords[r.Intn(len(asciiWords))])
	case 3: // unbalanced parentheses
		return []byte([]string{")", "(", ")(", "a)b(c", "((", "))", "(()", "())("}[r.Intn(8)])
	case 4: // backslashes and things that look like escapes
		return []byte([]string{"\\", "\\\\", "a\\nb", "\\(", "\\053", "c:\\dir\\file", "\\\r", "x\\"}[r.Intn(8)])
	case 5: // end-of-line bytes
		return []byte([]string{"a\nb", "a\rb", "a\r\nb", "\n", "\r", "\r\n", "\n\r", "l1\nl2\rl3\r\nl4", "\\\n"}[r.Intn(9)])
	case 6: // bytes followed by digits (octal-length trap)
		return []byte{byte(r.Intn(8)), byte('0' + r.Intn(10)), byte(r.Intn(256)), byte('0' + r.Intn(8)), byte('0' + r.Intn(8))}
	case 7: // UTF-16BE with BOM
		return []byte{0xfe, 0xff, 0x00, 'A', 0x20, 0x28, 0x00, ')', 0x00, '\\', 0x00, 0x0d}
	case 8: // all control / white-space bytes
		return []byte{0, 9, 10, 12, 13, 32, 8, 27, 127}
	case 9: // low nibble zero at the end (odd hex-digit spelling)
		n := 1 + r.Intn(6)
		b := make([]byte, n)
		r.Read(b)
		b[n-1] &= 0xf0
		return b
	default:
		n := r.Intn(24)
		if r.Intn(8) == 0 {
			n = r.Intn(300)
		}
		b := make([]byte, n)
		switch r.Intn(3) {
		case 0:
			r.Read(b)
		case 1:
			const special = "()\\\r\n\t\b\f%<>[]/ #01789"
			for i := range b {
				b[i] = special[r.Intn(len(special))]
			}
		default:
			for i := range b {
				b[i] = byte(32 + r.Intn(95))
			}
		}
		return b
	}
}

func genNameBytes(r *rand.Rand) []byte {
	switch r.Intn(10) {
	case 0: // names of ISO 32000-1 §7.3.5 Table 4 and relatives
		return []byte([]string{"Name1", "ASomewhatLongerName", "A;Name_With-Various***Characters?", "1.2", "$$", "@pattern",
			".notdef", "Lime Green", "paired()parentheses", "The_Key_of_F#_Minor", "AB", "F1", "Type", "true", "null", "R", "obj", "12", "-1", "+", "."}[r.Intn(21)])
	case 1:
		if r.Intn(3) == 0 {
			return []byte{} // "/" alone is the empty name
		}
		return []byte{byte(1 + r.Intn(255))}
	case 2: // delimiters and white space
		const sp = " \t\r\n\x0c()<>[]{}/%#"
		n := 1 + r.Intn(5)
		b := make([]byte, n)
		for i := range b {
			if r.Intn(2) == 0 {
				b[i] = sp[r.Intn(len(sp))]
			} else {
				b[i] = byte('A' + r.Intn(26))
			}
		}
		return b
	case 3: // high bytes (UTF-8 and arbitrary)
		return []byte([]string{"caf\xc3\xa9", "\xe6\x97\xa5\xe6\x9c\xac", "\xff\xfe", "A\x80B", "\x7f\x01"}[r.Intn(5)])
	case 5: // a short name and the names that differ from it only by trailing NUL bytes (written #00)
		b := []byte([]string{"", "A", "Ab", "F1", "Type"}[r.Intn(5)])
		for k := r.Intn(3); k > 0; k-- {
			b = append(b, 0)
		}
		if r.Intn(4) == 0 {
			b = append([]byte{0}, b...)
		}
		return b
	case 4: // '#' followed by hex-looking text
		return []byte([]string{"#", "##", "#41", "A#4", "#zz", "x#20y"}[r.Intn(6)])
	default:
		n := 1 + r.Intn(10)
		b := make([]byte, n)
		const reg = "ABCDEFGHIJKLMNOPQRSTUVWXYZabcdefghijklmnopqrstuvwxyz0123456789_-+.*:;!?$&'\"@^`|~,="
		for i := range b {
			b[i] = reg[r.Intn(len(reg))]
		}
		return b
	}
}

func genScalar(r *rand.Rand, refs bool) Obj {
	n := 7
	if refs {
		n = 8
	}
	switch r.Intn(n) {
	case 0:
		return Obj{K: pdfsyn.KNull}
	case 1:
		return Obj{K: pdfsyn.KBool, B: r.Intn(2) == 0}
	case 2:
		return genInt(r)
	case 3:
		return genReal(r)
	case 4, 5:
		return Obj{K: pdfsyn.KString, S: genStringBytes(r)}
	case 6:
		return Obj{K: pdfsyn.KName, S: genNameBytes(r)}
	default:
		return genRef(r)
	}
}

func genRef(r *rand.Rand) Obj {
	num := 1 + r.Intn(200)
	if r.Intn(6) == 0 {
		num = []int{1, 8388607, 65535, 99999}[r.Intn(4)]
	}
	gen := 0
	if r.Intn(4) == 0 {
		gen = []int{1, 7, 65535}[r.Intn(3)]
	}
	return Obj{K: pdfsyn.KRef, Num: num, Gen: gen}
}

// genTree builds a tree of depth <= maxDepth (a scalar has depth 1).
func genTree(r *rand.Rand, maxDepth int, refs bool) Obj {
	if maxDepth <= 1 || r.Intn(3) == 0 {
		return genScalar(r, refs)
	}
	if r.Intn(2) == 0 {
		n := r.Intn(7)
		if r.Intn(5) == 0 {
			n = 0
		}
		o := Obj{K: pdfsyn.KArray}
		for i := 0; i < n; i++ {
			if refs && r.Intn(6) == 0 {
				// integers next to references: "7 1 0 R 3" must not lose or merge integers
				o.A = append(o.A, plainInt(r), genRef(r))
				if r.Intn(2) == 0 {
					o.A = append(o.A, plainInt(r), plainInt(r))
				}
				continue
			}
			o.A = append(o.A, genTree(r, maxDepth-1, refs))
		}
		return o
	}
	n := r.Intn(6)
	o := Obj{K: pdfsyn.KDict}
	seen := map[string]bool{}
	for i := 0; i < n; i++ {
		k := genNameBytes(r)
		if seen[string(k)] {
			continue
		}
		seen[string(k)] = true
		o.D = append(o.D, pdfsyn.Entry{Key: k, Val: genTree(r, maxDepth-1, refs)})
	}
	return o
}

func plainInt(r *rand.Rand) Obj { return Obj{K: pdfsyn.KInt, I: int64(r.Intn(100))} }

// genTreeDepth tries to reach exactly the requested depth (so that all depths
// 1..4 are exercised evenly).
func genTreeDepth(r *rand.Rand, depth int, refs bool) Obj {
	var best Obj
	for try := 0; try < 8; try++ {
		t := genTree(r, depth, refs)
		if try == 0 || t.Depth() > best.Depth() {
			best = t
		}
		if best.Depth() == depth {
			break
		}
	}
	return best
}

// ---------------------------------------------------------------------------
// content-stream programs (ISO 32000-1 Annex A operator table; inline images
// BI/ID/EI are generated by genInlineImage)

type opSig struct {
	name string
	sig  string // n number, i integer, s string, N name, a number array, t TJ array, d dash array+phase, p properties (name or dict), * any operands
}

var opTable = []opSig{
	{"w", "n"}, {"J", "i"}, {"j", "i"}, {"M", "n"}, {"d", "an"}, {"ri", "N"}, {"i", "n"}, {"gs", "N"},
	{"q", ""}, {"Q", ""}, {"cm", "nnnnnn"},
	{"m", "nn"}, {"l", "nn"}, {"c", "nnnnnn"}, {"v", "nnnn"}, {"y", "nnnn"}, {"h", ""}, {"re", "nnnn"},
	{"S", ""}, {"s", ""}, {"f", ""}, {"F", ""}, {"f*", ""}, {"B", ""}, {"B*", ""}, {"b", ""}, {"b*", ""}, {"n", ""},
	{"W", ""}, {"W*", ""},
	{"BT", ""}, {"ET", ""},
	{"Tc", "n"}, {"Tw", "n"}, {"Tz", "n"}, {"TL", "n"}, {"Tf", "Nn"}, {"Tr", "i"}, {"Ts", "n"},
	{"Td", "nn"}, {"TD", "nn"}, {"Tm", "nnnnnn"}, {"T*", ""},
	{"Tj", "s"}, {"TJ", "t"}, {"'", "s"}, {"\"", "nns"},
	{"d0", "nn"}, {"d1", "nnnnnn"},
	{"CS", "N"}, {"cs", "N"}, {"SC", "nnn"}, {"SCN", "nnnN"}, {"sc", "n"}, {"scn", "N"},
	{"G", "n"}, {"g", "n"}, {"RG", "nnn"}, {"rg", "nnn"}, {"K", "nnnn"}, {"k", "nnnn"},
	{"sh", "N"}, {"Do", "N"},
	{"MP", "N"}, {"DP", "Np"}, {"BMC", "N"}, {"BDC", "Np"}, {"EMC", ""},
	{"BX", ""}, {"EX", ""},
}

func genNumber(r *rand.Rand) Obj {
	if r.Intn(2) == 0 {
		return genInt(r)
	}
	return genReal(r)
}

func genOperands(r *rand.Rand, sig string) []Obj {
	var out []Obj
	for _, ch := range sig {
		switch ch {
		case 'n':
			out = append(out, genNumber(r))
		case 'i':
			out = append(out, Obj{K: pdfsyn.KInt, I: int64(r.Intn(8))})
		case 's':
			out = append(out, Obj{K: pdfsyn.KString, S: genStringBytes(r)})
		case 'N':
			out = append(out, Obj{K: pdfsyn.KName, S: genNameBytes(r)})
		case 'a':
			a := Obj{K: pdfsyn.KArray}
			for i, n := 0, r.Intn(5); i < n; i++ {
				a.A = append(a.A, genNumber(r))
			}
			out = append(out, a)
		case 't':
			a := Obj{K: pdfsyn.KArray}
			for i, n := 0, r.Intn(8); i < n; i++ {
				if r.Intn(2) == 0 {
					a.A = append(a.A, Obj{K: pdfsyn.KString, S: genStringBytes(r)})
				} else {
					a.A = append(a.A, genNumber(r))
				}
			}
			out = append(out, a)
		case 'p':
			if r.Intn(3) == 0 {
				out = append(out, Obj{K: pdfsyn.KName, S: genNameBytes(r)})
			} else {
				d := genTree(r, 3, false)
				for d.K != pdfsyn.KDict {
					d = genTree(r, 3, false)
				}
				out = append(out, d)
			}
		}
	}
	return out
}

// genProgram builds 1..maxOps operations. With probability 1/4 an operation
// gets arbitrary operands (any direct objects, §7.8.2: "an operand is a direct
// object belonging to any of the basic PDF data types except a stream").
func genProgram(r *rand.Rand, maxOps int) []pdfsyn.Op {
	n := 1 + r.Intn(maxOps)
	ops := make([]pdfsyn.Op, 0, n)
	for i := 0; i < n; i++ {
		if r.Intn(40) == 0 {
			ops = append(ops, genInlineImage(r)...)
			continue
		}
		s := opTable[r.Intn(len(opTable))]
		// the quote operators and starred operators are rarer in a uniform draw; boost them
		if r.Intn(8) == 0 {
			s = opTable[[]int{indexOf("'"), indexOf("\""), indexOf("T*"), indexOf("B*"), indexOf("b*"), indexOf("f*"), indexOf("W*"), indexOf("d0"), indexOf("d1")}[r.Intn(9)]]
		}
		op := pdfsyn.Op{Operator: s.name}
		if r.Intn(4) == 0 {
			for k, m := 0, r.Intn(5); k < m; k++ {
				op.Operands = append(op.Operands, genTree(r, 1+r.Intn(3), false))
			}
		} else {
			op.Operands = genOperands(r, s.sig)
		}
		ops = append(ops, op)
	}
	return ops
}

// genInlineImage returns the three operations BI, ID (with the image
// dictionary's key/value pairs as operands, §8.9.7) + raw data, EI. The data
// never contain a white-space byte followed by "EI", so the end of the image
// is unambiguous.
func genInlineImage(r *rand.Rand) []pdfsyn.Op {
	w, h := 1+r.Intn(6), 1+r.Intn(6)
	id := pdfsyn.Op{Operator: "ID", Operands: []Obj{
		{K: pdfsyn.KName, S: []byte("W")}, {K: pdfsyn.KInt, I: int64(w)},
		{K: pdfsyn.KName, S: []byte("H")}, {K: pdfsyn.KInt, I: int64(h)},
		{K: pdfsyn.KName, S: []byte("BPC")}, {K: pdfsyn.KInt, I: 8},
		{K: pdfsyn.KName, S: []byte("CS")}, {K: pdfsyn.KName, S: []byte("G")},
	}}
	var data []byte
	if r.Intn(3) == 0 {
		id.Operands = append(id.Operands, Obj{K: pdfsyn.KName, S: []byte("F")}, Obj{K: pdfsyn.KName, S: []byte("AHx")})
		const hx = "0123456789abcdef"
		for i := 0; i < 2*w*h; i++ {
			data = append(data, hx[r.Intn(16)])
		}
		data = append(data, '>')
	} else {
		data = make([]byte, w*h)
		for {
			r.Read(data)
			probe := append(append([]byte{' '}, data...), " EI"...)
			ok := true
			for i := 0; i+2 < len(probe)-2; i++ { // any "<ws>EI" before the final one?
				if (probe[i] == 0 || probe[i] == 9 || probe[i] == 10 || probe[i] == 12 || probe[i] == 13 || probe[i] == 32) && probe[i+1] == 'E' && probe[i+2] == 'I' {
					ok = false
				}
			}
			if ok {
				break
			}
		}
	}
	id.RawAfter = data
	return []pdfsyn.Op{{Operator: "BI"}, id, {Operator: "EI"}}
}

func indexOf(name string) int {
	for i, s := range opTable {
		if s.name == name {
			return i
		}
	}
	panic(name)
}

func describeProgram(ops []pdfsyn.Op) string {
	var sb strings.Builder
	for _, op := range ops {
		for _, a := range op.Operands {
			sb.WriteString(a.Describe())
			sb.WriteByte(' ')
		}
		sb.WriteString(op.Operator)
		if op.RawAfter != nil {
			fmt.Fprintf(&sb, " %x", op.RawAfter)
		}
		sb.WriteByte('\n')
	}
	return sb.String()
}
