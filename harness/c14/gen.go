package c14

import (
	"fmt"
	"math/rand"
	"strings"

	"github.com/tsawler/tabula/rag"
)

// adversarial fragments: everything a CSV / TSV / JSON writer has to quote or
// escape, plus text that merely looks like markup of the target format. All
// valid UTF-8 (JSON cannot carry anything else).
var nasty = []string{
	",", ",,", "\t", "\"", "\"\"", "'", "\r", "\n", "\r\n", "\n\r", "\x00", "\x01", "\x07", "\x08", "\x0b", "\x0c", "\x1b", "\x1f", "\x7f",
	"\u0085", "\u00a0", "\u2028", "\u2029", "\ufeff", "\ufffd", "\U0001F600", "👨‍👩‍👧‍👦", "🇯🇵", "日本語", "é", "é", "\U0010FFFF",
	"\\", "\\n", "\\\"", "\\.", "\\u0041", " ", "  ", ";", "|", "=1+1", "@cmd", "#", "//", "/*", "*/", "<b>", "&amp;", "</script>",
	"{", "}", "[", "]", "{\"a\":1}", "[1,2,3]", "null", "true", "false", "NaN", "1e999", "0", "-0", "\"id\":\"x\"", "\"}\n{\"", "],[",
	"meta_level", "chunk_id", "text", "id",
}

var plainWords = strings.Fields("alpha beta gamma delta epsilon zeta eta theta iota kappa lambda sigma omega Section Chapter Overview results Methods the of and")

// unitWords carry letters whose other case has another UTF-8 length.
var unitWords = []string{"273 \u212a", "5 k\u2126", "0.1 \u212b", "STRA\u1e9eE", "straße", "10 kω", "3 å"}

type sg struct{ r *rand.Rand }

func (g sg) pick(xs []string) string { return xs[g.r.Intn(len(xs))] }

// str builds a string; hostile in [0,1] is the share of adversarial fragments.
func (g sg) str(maxParts int, hostile float64) string {
	n := g.r.Intn(maxParts + 1)
	var sb strings.Builder
	for i := 0; i < n; i++ {
		if g.r.Float64() < hostile {
			sb.WriteString(g.pick(nasty))
		} else {
			if i > 0 && g.r.Intn(3) > 0 {
				sb.WriteByte(' ')
			}
			w := g.pick(plainWords)
			if g.r.Intn(4) == 0 {
				w = strings.ToUpper(w)
			}
			if g.r.Intn(12) == 0 {
				w = g.pick(unitWords)
			}
			sb.WriteString(w)
		}
	}
	return sb.String()
}

var elementTypeNames = []string{"paragraph", "heading", "list", "table", "image", "figure", "caption"}

type collSpec struct {
	N       int
	Hostile float64
}

func (g sg) chunk(i, n int, hostile float64, titles []string) *rag.Chunk {
	ch := &rag.Chunk{}
	switch g.r.Intn(6) {
	case 0:
		ch.ID = g.str(3, hostile)
	case 1:
		ch.ID = fmt.Sprintf("doc-%d", g.r.Intn(5)) // duplicates are allowed in a collection
	default:
		ch.ID = fmt.Sprintf("chunk-%d", i)
	}
	ch.Text = g.str(1+g.r.Intn(12), hostile)
	if g.r.Intn(10) == 0 {
		ch.Text = ""
	}
	ch.TextWithContext = ch.Text
	md := &ch.Metadata
	if g.r.Intn(5) > 0 {
		md.DocumentTitle = titles[0]
	}
	depth := g.r.Intn(4)
	for d := 0; d < depth; d++ {
		md.SectionPath = append(md.SectionPath, titles[1+g.r.Intn(len(titles)-1)])
	}
	if depth > 0 && g.r.Intn(5) > 0 {
		md.SectionTitle = md.SectionPath[depth-1]
	} else if g.r.Intn(4) == 0 {
		md.SectionTitle = titles[1+g.r.Intn(len(titles)-1)]
	}
	md.HeadingLevel = g.r.Intn(7)
	md.PageStart = g.r.Intn(9)
	md.PageEnd = md.PageStart + g.r.Intn(3)
	md.ChunkIndex = i
	if g.r.Intn(8) == 0 {
		md.ChunkIndex = g.r.Intn(100)
	}
	md.TotalChunks = []int{n, n, 0}[g.r.Intn(3)]
	md.Level = rag.ChunkLevel(g.r.Intn(4))
	if g.r.Intn(4) == 0 {
		md.ParentID = g.str(2, hostile)
	}
	for k := g.r.Intn(3); k > 0; k-- {
		md.ChildIDs = append(md.ChildIDs, g.str(2, hostile/2))
	}
	for k := g.r.Intn(4); k > 0; k-- {
		md.ElementTypes = append(md.ElementTypes, g.pick(elementTypeNames))
	}
	md.HasTable = g.r.Intn(4) == 0
	md.HasList = g.r.Intn(4) == 0
	md.HasImage = g.r.Intn(4) == 0
	md.CharCount = len(ch.Text)
	md.WordCount = len(strings.Fields(ch.Text))
	md.EstimatedTokens = []int{len(ch.Text) / 4, g.r.Intn(50), 0}[g.r.Intn(3)]
	return ch
}

func (g sg) collection(spec collSpec) []*rag.Chunk {
	titles := make([]string, 6)
	for i := range titles {
		titles[i] = g.str(3, spec.Hostile)
		if titles[i] == "" {
			titles[i] = g.pick(plainWords)
		}
	}
	chunks := make([]*rag.Chunk, spec.N)
	for i := range chunks {
		chunks[i] = g.chunk(i, spec.N, spec.Hostile, titles)
	}
	return chunks
}

var metaKeys = []string{"document_title", "section_path", "section_title", "heading_level", "page_start", "page_end", "chunk_index", "total_chunks",
	"level", "parent_id", "child_ids", "element_types", "has_table", "has_list", "has_image", "char_count", "word_count", "estimated_tokens"}

var delims = []rune{',', '\t', ';', '|', ',', '\t'}

func (g sg) exportConfig() rag.ExportConfig {
	cfg := rag.DefaultExportConfig()
	cfg.Format = rag.ExportFormat(g.r.Intn(4))
	cfg.IncludeMetadata = g.r.Intn(5) > 0
	if g.r.Intn(3) == 0 {
		k := g.r.Intn(len(metaKeys) + 1)
		perm := g.r.Perm(len(metaKeys))
		cfg.MetadataFields = []string{}
		for _, p := range perm[:k] {
			cfg.MetadataFields = append(cfg.MetadataFields, metaKeys[p])
		}
		if g.r.Intn(4) == 0 {
			cfg.MetadataFields = append(cfg.MetadataFields, "no_such_field")
		}
	}
	cfg.IncludeText = g.r.Intn(6) > 0
	cfg.IncludeEmbeddings = g.r.Intn(4) == 0
	cfg.FlattenMetadata = g.r.Intn(2) == 0
	cfg.IncludeHeader = g.r.Intn(4) > 0
	cfg.PrettyPrint = g.r.Intn(3) == 0
	switch cfg.Format {
	case rag.ExportFormatCSV:
		cfg.CSVDelimiter = []rune{',', ',', ';', '|'}[g.r.Intn(4)]
	case rag.ExportFormatTSV:
		cfg.CSVDelimiter = '\t'
	}
	if g.r.Intn(3) == 0 { // column names; kept distinct from each other and from the fixed column set
		cfg.TextColumnName = []string{"content", "body", "Text", "chunk text", "t,x"}[g.r.Intn(5)]
		cfg.ChunkIDColumnName = []string{"id", "ID", "uuid", "chunk \"id\"", "key"}[g.r.Intn(5)]
	}
	return cfg
}
