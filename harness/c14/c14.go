// Package c14: chunk exports parse back to the same chunks; filters are pure
// selections.
//
// Oracle: the collection that was exported. JSON / JSON Lines are read back
// with encoding/json (JSON Lines line by line, as the format demands: one
// JSON value per line), CSV / TSV with both encoding/csv (compared modulo its
// own CRLF→LF normalisation inside quoted fields) and the strict RFC 4180
// reader in ref/rfc4180 (compared exactly).
package c14

import (
	"bytes"
	"encoding/csv"
	"encoding/json"
	"errors"
	"fmt"
	"math"
	"math/rand"
	"os"
	"path/filepath"
	"strconv"
	"strings"

	"github.com/tsawler/tabula/rag"

	"verifharness/fw"
	"verifharness/ref/rfc4180"
)

type fail struct{ class, what string }

// quotaWriter accepts left bytes and fails from then on.
type quotaWriter struct {
	left int
	buf  bytes.Buffer
}

func (q *quotaWriter) Write(p []byte) (int, error) {
	if len(p) <= q.left {
		q.left -= len(p)
		q.buf.Write(p)
		return len(p), nil
	}
	n := q.left
	q.buf.Write(p[:n])
	q.left = 0
	return n, errors.New("no space left on device")
}

func failf(class, format string, a ...any) *fail { return &fail{class, fmt.Sprintf(format, a...)} }

// ------------------------------------------------------------ expectations

var levelNames = map[rag.ChunkLevel]string{rag.ChunkLevelDocument: "document", rag.ChunkLevelSection: "section", rag.ChunkLevelParagraph: "paragraph", rag.ChunkLevelSentence: "sentence"}

// metaValue returns the value of a metadata field of the chunk by its JSON
// name, and whether it is the zero value.
func metaValue(ch *rag.Chunk, key string) (any, bool, bool) {
	m := ch.Metadata
	switch key {
	case "document_title":
		return m.DocumentTitle, m.DocumentTitle == "", true
	case "section_path":
		return m.SectionPath, len(m.SectionPath) == 0, true
	case "section_title":
		return m.SectionTitle, m.SectionTitle == "", true
	case "heading_level":
		return m.HeadingLevel, m.HeadingLevel == 0, true
	case "page_start":
		return m.PageStart, m.PageStart == 0, true
	case "page_end":
		return m.PageEnd, m.PageEnd == 0, true
	case "chunk_index":
		return m.ChunkIndex, m.ChunkIndex == 0, true
	case "total_chunks":
		return m.TotalChunks, m.TotalChunks == 0, true
	case "level":
		return m.Level, false, true
	case "parent_id":
		return m.ParentID, m.ParentID == "", true
	case "child_ids":
		return m.ChildIDs, len(m.ChildIDs) == 0, true
	case "element_types":
		return m.ElementTypes, len(m.ElementTypes) == 0, true
	case "has_table":
		return m.HasTable, !m.HasTable, true
	case "has_list":
		return m.HasList, !m.HasList, true
	case "has_image":
		return m.HasImage, !m.HasImage, true
	case "char_count":
		return m.CharCount, m.CharCount == 0, true
	case "word_count":
		return m.WordCount, m.WordCount == 0, true
	case "estimated_tokens":
		return m.EstimatedTokens, m.EstimatedTokens == 0, true
	}
	return nil, true, false
}

// sameJSON compares a value parsed by encoding/json (UseNumber) with the
// expected Go value. An absent value (present == false) equals the zero value.
func sameJSON(got any, present bool, want any) bool {
	switch w := want.(type) {
	case string:
		if !present {
			return w == ""
		}
		s, ok := got.(string)
		return ok && s == w
	case int:
		if !present {
			return w == 0
		}
		n, ok := got.(json.Number)
		if !ok {
			return false
		}
		v, err := n.Int64()
		return err == nil && int(v) == w
	case bool:
		if !present {
			return !w
		}
		b, ok := got.(bool)
		return ok && b == w
	case []string:
		if !present || got == nil {
			return len(w) == 0
		}
		arr, ok := got.([]any)
		if !ok || len(arr) != len(w) {
			return false
		}
		for i := range arr {
			if s, ok := arr[i].(string); !ok || s != w[i] {
				return false
			}
		}
		return true
	case rag.ChunkLevel: // by name or by number
		if !present {
			return true
		}
		if s, ok := got.(string); ok {
			return s == levelNames[w]
		}
		if n, ok := got.(json.Number); ok {
			v, err := n.Int64()
			return err == nil && int(v) == int(w)
		}
		return false
	}
	return false
}

func wanted(cfg rag.ExportConfig, key string) bool {
	if !cfg.IncludeMetadata {
		return false
	}
	if cfg.MetadataFields == nil {
		return true
	}
	for _, f := range cfg.MetadataFields {
		if f == key {
			return true
		}
	}
	return false
}

// checkJSONRecord compares one parsed export record with its chunk.
func checkJSONRecord(rec map[string]any, ch *rag.Chunk, cfg rag.ExportConfig, i int) *fail {
	get := func(k string) (any, bool) { v, ok := rec[k]; return v, ok }
	if v, ok := get("id"); !sameJSON(v, ok, ch.ID) {
		return failf("json-id", "record %d: id %v, chunk ID %q", i, v, ch.ID)
	}
	if cfg.IncludeText {
		if v, ok := get("text"); !sameJSON(v, ok, ch.Text) {
			return failf("json-text", "record %d: text %q, chunk text %q", i, fmt.Sprint(v), ch.Text)
		}
	}
	for _, k := range []string{"document_title", "page_start", "page_end", "chunk_index", "section_title", "section_path", "has_table", "has_list", "has_image"} {
		want, _, _ := metaValue(ch, k)
		if v, ok := get(k); !sameJSON(v, ok, want) {
			return failf("json-field/"+k, "record %d: %s = %v (present %v), chunk has %v", i, k, v, ok, want)
		}
	}
	var md map[string]any
	if v, ok := get("metadata"); ok && v != nil {
		m, isMap := v.(map[string]any)
		if !isMap {
			return failf("json-metadata", "record %d: metadata is %T", i, v)
		}
		md = m
	}
	for k, v := range md {
		want, _, known := metaValue(ch, k)
		if !known {
			continue
		}
		if !sameJSON(v, true, want) {
			return failf("json-metadata/"+k, "record %d: metadata.%s = %v, chunk has %v", i, k, v, want)
		}
	}
	for _, k := range metaKeys {
		want, zero, _ := metaValue(ch, k)
		if zero || !wanted(cfg, k) {
			continue
		}
		if _, ok := md[k]; !ok {
			return failf("json-metadata-missing/"+k, "record %d: metadata.%s is absent, chunk has %v", i, k, want)
		}
	}
	return nil
}

func decodeObjects(data string) ([]map[string]any, error) {
	dec := json.NewDecoder(strings.NewReader(data))
	dec.UseNumber()
	var out []map[string]any
	for dec.More() {
		var m map[string]any
		if err := dec.Decode(&m); err != nil {
			return out, err
		}
		out = append(out, m)
	}
	return out, nil
}

// parseJSONL is the standard JSON Lines reader: one JSON value per line.
func parseJSONL(data string) ([]map[string]any, *fail) {
	var out []map[string]any
	for ln, line := range strings.Split(data, "\n") {
		if strings.TrimSpace(line) == "" {
			continue
		}
		dec := json.NewDecoder(strings.NewReader(line))
		dec.UseNumber()
		var m map[string]any
		if err := dec.Decode(&m); err != nil {
			return nil, failf("jsonl-line", "line %d of the JSON Lines export is not a JSON value on its own (%v): %q", ln+1, err, fw.OneLine(line, 80))
		}
		if dec.More() {
			return nil, failf("jsonl-line", "line %d of the JSON Lines export holds more than one value", ln+1)
		}
		out = append(out, m)
	}
	return out, nil
}

func checkJSONExport(data string, chunks []*rag.Chunk, cfg rag.ExportConfig, jsonl bool) *fail {
	var recs []map[string]any
	if jsonl {
		var f *fail
		if recs, f = parseJSONL(data); f != nil {
			return f
		}
	} else {
		dec := json.NewDecoder(strings.NewReader(data))
		dec.UseNumber()
		if err := dec.Decode(&recs); err != nil {
			return failf("json-syntax", "JSON export rejected by encoding/json: %v", err)
		}
		if dec.More() {
			return failf("json-syntax", "JSON export has data after the array")
		}
	}
	if len(recs) != len(chunks) {
		return failf("json-count", "%d records for %d chunks", len(recs), len(chunks))
	}
	for i := range recs {
		if f := checkJSONRecord(recs[i], chunks[i], cfg, i); f != nil {
			return f
		}
	}
	return nil
}

// ------------------------------------------------------------ CSV

func parseBothCSV(data string, delim rune) (strict, std [][]string, f *fail) {
	strict, err := rfc4180.Parse(data, delim)
	if err != nil {
		return nil, nil, failf("csv-rfc4180", "export is not well-formed RFC 4180: %v", err)
	}
	r := csv.NewReader(strings.NewReader(data))
	r.Comma = delim
	r.FieldsPerRecord = -1
	std, err = r.ReadAll()
	if err != nil {
		return nil, nil, failf("csv-encoding/csv", "export rejected by encoding/csv: %v", err)
	}
	return strict, std, nil
}

func crlfNorm(s string) string { return strings.ReplaceAll(s, "\r\n", "\n") }

func unambiguousList(xs []string) bool {
	for _, x := range xs {
		if x == "" || strings.ContainsAny(x, ",[]") {
			return false
		}
	}
	return true
}

// cellMatches compares a CSV cell with the expected value.
func cellMatches(cell string, want any, norm bool) (ok, compared bool) {
	eq := func(a, b string) bool {
		if norm {
			return a == crlfNorm(b)
		}
		return a == b
	}
	switch w := want.(type) {
	case string:
		return eq(cell, w), true
	case int:
		if cell == "" {
			return w == 0, true
		}
		v, err := strconv.Atoi(cell)
		return err == nil && v == w, true
	case bool:
		if cell == "" {
			return !w, true
		}
		v, err := strconv.ParseBool(cell)
		return err == nil && v == w, true
	case rag.ChunkLevel:
		if cell == "" {
			return true, false
		}
		return cell == levelNames[w] || cell == strconv.Itoa(int(w)), true
	case []string:
		if cell == "" {
			return len(w) == 0, true
		}
		if !unambiguousList(w) {
			return true, false // rendering of a list in one cell is only comparable when unambiguous
		}
		inner := strings.TrimSuffix(strings.TrimPrefix(cell, "["), "]")
		parts := strings.Split(inner, ",")
		if len(parts) != len(w) {
			return false, true
		}
		for i := range parts {
			if !eq(strings.TrimSpace(parts[i]), strings.TrimSpace(w[i])) {
				return false, true
			}
		}
		return true, true
	}
	return false, true
}

var fixedColumns = []string{"chunk_index", "document_title", "page_start", "page_end", "section_title", "has_table", "has_list", "has_image"}

// checkCSVRecords compares parsed records (header first) with the chunks.
func checkCSVRecords(recs [][]string, chunks []*rag.Chunk, cfg rag.ExportConfig, norm bool, who string, c *fw.Ctx) *fail {
	if len(recs) != len(chunks)+1 {
		return failf("csv-count", "%s: %d records (incl. header) for %d chunks", who, len(recs), len(chunks))
	}
	header := recs[0]
	col := map[string]int{}
	for i, h := range header {
		if _, dup := col[h]; dup {
			return failf("csv-header", "%s: column %q occurs twice in the header %q", who, h, header)
		}
		col[h] = i
	}
	need := append([]string{cfg.ChunkIDColumnName}, fixedColumns...)
	if cfg.IncludeText {
		need = append(need, cfg.TextColumnName)
	}
	for _, h := range need {
		if _, ok := col[h]; !ok {
			return failf("csv-header", "%s: column %q missing from the header %q", who, h, header)
		}
	}
	for i, ch := range chunks {
		row := recs[i+1]
		cmp := func(name string, want any) *fail {
			j, ok := col[name]
			if !ok {
				return nil
			}
			good, compared := cellMatches(row[j], want, norm)
			if compared {
				c.Count("csv_cells_compared", 1)
			}
			if !good {
				return failf("csv-cell/"+strings.TrimPrefix(name, "meta_"), "%s: record %d column %q = %q, chunk has %q", who, i, name, row[j], fmt.Sprint(want))
			}
			return nil
		}
		if f := cmp(cfg.ChunkIDColumnName, ch.ID); f != nil {
			return f
		}
		if cfg.IncludeText {
			if f := cmp(cfg.TextColumnName, ch.Text); f != nil {
				return f
			}
		}
		for _, k := range fixedColumns {
			want, _, _ := metaValue(ch, k)
			if f := cmp(k, want); f != nil {
				return f
			}
		}
		for _, k := range metaKeys {
			want, zero, _ := metaValue(ch, k)
			j, has := col["meta_"+k]
			if !has {
				isFixed := false
				for _, fc := range fixedColumns {
					isFixed = isFixed || fc == k
				}
				if !zero && wanted(cfg, k) && !isFixed {
					return failf("csv-metadata-missing/"+k, "%s: no column meta_%s although chunk %d has %s = %v", who, k, i, k, want)
				}
				continue
			}
			if row[j] == "" && (!wanted(cfg, k) || zero) {
				continue
			}
			if f := cmp("meta_"+k, want); f != nil {
				return f
			}
		}
	}
	return nil
}

func checkCSVExport(ex func(rag.ExportConfig) (string, error), chunks []*rag.Chunk, cfg rag.ExportConfig, c *fw.Ctx) *fail {
	withHeader := cfg
	withHeader.IncludeHeader = true
	data, err := ex(withHeader)
	if err != nil {
		return failf("csv-error", "export failed: %v", err)
	}
	strict, std, f := parseBothCSV(data, cfg.CSVDelimiter)
	if f != nil {
		return f
	}
	if f := checkCSVRecords(strict, chunks, cfg, false, "RFC 4180 reader", c); f != nil {
		return f
	}
	if f := checkCSVRecords(std, chunks, cfg, true, "encoding/csv", c); f != nil {
		return f
	}
	if !cfg.IncludeHeader {
		// no header: the same records minus the first one
		bare, err := ex(cfg)
		if err != nil {
			return failf("csv-error", "export without header failed: %v", err)
		}
		if len(chunks) == 0 {
			if strings.TrimSpace(bare) != "" {
				return failf("csv-noheader", "export of 0 chunks without header is %q", fw.OneLine(bare, 80))
			}
			return nil
		}
		s2, _, f := parseBothCSV(bare, cfg.CSVDelimiter)
		if f != nil {
			return f
		}
		if len(s2) != len(strict)-1 {
			return failf("csv-noheader", "export without header has %d records for %d chunks", len(s2), len(chunks))
		}
		for i := range s2 {
			if strings.Join(s2[i], "\x00\x01") != strings.Join(strict[i+1], "\x00\x01") {
				return failf("csv-noheader", "record %d differs between the exports with and without header: %q vs %q", i, s2[i], strict[i+1])
			}
		}
	}
	return nil
}

// ------------------------------------------------------------ entry points

func checkExport(ex func(rag.ExportConfig) (string, error), chunks []*rag.Chunk, cfg rag.ExportConfig, c *fw.Ctx) *fail {
	switch cfg.Format {
	case rag.ExportFormatCSV, rag.ExportFormatTSV:
		return checkCSVExport(ex, chunks, cfg, c)
	}
	data, err := ex(cfg)
	if err != nil {
		return failf("export-error", "export failed: %v", err)
	}
	c.Count("export_bytes_parsed", int64(len(data)))
	return checkJSONExport(data, chunks, cfg, cfg.Format == rag.ExportFormatJSONL)
}

func floats(r *rand.Rand, n int) []float64 {
	out := make([]float64, n)
	for i := range out {
		switch r.Intn(8) {
		case 0:
			out[i] = 0
		case 1:
			out[i] = math.Copysign(0, -1)
		case 2:
			out[i] = math.SmallestNonzeroFloat64
		case 3:
			out[i] = math.MaxFloat64
		case 4:
			out[i] = float64(r.Intn(1000)) / 1000
		default:
			out[i] = r.NormFloat64()
		}
	}
	return out
}

func numFloat(v any) (float64, bool) {
	n, ok := v.(json.Number)
	if !ok {
		return 0, false
	}
	f, err := strconv.ParseFloat(string(n), 64)
	return f, err == nil
}

func sameVector(v any, want []float64) bool {
	arr, _ := v.([]any)
	if len(arr) != len(want) {
		return false
	}
	for i := range arr {
		f, ok := numFloat(arr[i])
		if !ok || f != want[i] {
			return false
		}
	}
	return true
}

func checkVectorDB(r *rand.Rand, chunks []*rag.Chunk, c *fw.Ctx) *fail {
	ee := rag.NewEmbeddingExporter()
	emb := make([][]float64, len(chunks))
	dim := 1 + r.Intn(5)
	for i := range emb {
		emb[i] = floats(r, dim)
	}
	if r.Intn(4) == 0 && len(emb) > 1 { // some chunks without an embedding
		emb = emb[:r.Intn(len(emb))]
	}
	embAll := emb
	if r.Intn(3) == 0 && len(emb) > 1 { // Pinecone only: a partially embedded collection, holes (nil or empty vectors) before embedded chunks
		emb = append([][]float64{}, emb...)
		for h := 1 + r.Intn(3); h > 0; h-- {
			at := r.Intn(len(emb) - 1)
			if r.Intn(2) == 0 {
				emb[at] = nil
			} else {
				emb[at] = []float64{}
			}
		}
	}
	// PrepareForVectorDB
	recs := ee.PrepareForVectorDB(chunks)
	if len(recs) != len(chunks) {
		return failf("vectordb-count", "PrepareForVectorDB: %d records for %d chunks", len(recs), len(chunks))
	}
	for i, rec := range recs {
		ch := chunks[i]
		if rec.ID != ch.ID || rec.Text != ch.Text {
			return failf("vectordb-record", "PrepareForVectorDB: record %d id/text differ from the chunk", i)
		}
		b, err := json.Marshal(rec)
		if err != nil {
			return failf("vectordb-record", "PrepareForVectorDB: record %d does not marshal: %v", i, err)
		}
		objs, err := decodeObjects(string(b))
		if err != nil || len(objs) != 1 {
			return failf("vectordb-record", "PrepareForVectorDB: record %d does not parse back", i)
		}
		md, _ := objs[0]["metadata"].(map[string]any)
		for k, v := range md {
			want, _, known := metaValue(ch, k)
			if known && !sameJSON(v, true, want) {
				return failf("vectordb-record/"+k, "PrepareForVectorDB: record %d metadata.%s = %v, chunk has %v", i, k, v, want)
			}
		}
	}
	// Pinecone: chunks without an embedding are skipped (documented)
	var buf bytes.Buffer
	if err := ee.ExportForPinecone(chunks, emb, &buf); err != nil {
		return failf("pinecone-error", "ExportForPinecone: %v", err)
	}
	objs, err := decodeObjects(buf.String())
	if err != nil || len(objs) != 1 {
		return failf("pinecone-syntax", "ExportForPinecone output rejected by encoding/json: %v", err)
	}
	vecs, _ := objs[0]["vectors"].([]any)
	k := 0
	for i, ch := range chunks {
		if i >= len(emb) || len(emb[i]) == 0 {
			continue
		}
		if k >= len(vecs) {
			return failf("pinecone-count", "ExportForPinecone: %d vectors, chunk %d has none", len(vecs), i)
		}
		v, _ := vecs[k].(map[string]any)
		k++
		md, _ := v["metadata"].(map[string]any)
		if !sameJSON(v["id"], true, ch.ID) || !sameVector(v["values"], emb[i]) || !sameJSON(md["text"], true, ch.Text) ||
			!sameJSON(md["document_title"], true, ch.Metadata.DocumentTitle) || !sameJSON(md["page_start"], true, ch.Metadata.PageStart) || !sameJSON(md["section_title"], true, ch.Metadata.SectionTitle) {
			return failf("pinecone-record", "ExportForPinecone: vector %d differs from chunk %d (%v)", k-1, i, v)
		}
	}
	if k != len(vecs) {
		return failf("pinecone-count", "ExportForPinecone: %d vectors for %d chunks with embeddings", len(vecs), k)
	}
	emb = embAll
	// Chroma
	buf.Reset()
	if err := ee.ExportForChroma(chunks, emb, &buf); err != nil {
		return failf("chroma-error", "ExportForChroma: %v", err)
	}
	objs, err = decodeObjects(buf.String())
	if err != nil || len(objs) != 1 {
		return failf("chroma-syntax", "ExportForChroma output rejected by encoding/json: %v", err)
	}
	ids, _ := objs[0]["ids"].([]any)
	docs, _ := objs[0]["documents"].([]any)
	mds, _ := objs[0]["metadatas"].([]any)
	if len(ids) != len(chunks) || len(docs) != len(chunks) || len(mds) != len(chunks) {
		return failf("chroma-count", "ExportForChroma: %d ids, %d documents, %d metadatas for %d chunks", len(ids), len(docs), len(mds), len(chunks))
	}
	for i, ch := range chunks {
		md, _ := mds[i].(map[string]any)
		if !sameJSON(ids[i], true, ch.ID) || !sameJSON(docs[i], true, ch.Text) || !sameJSON(md["document_title"], true, ch.Metadata.DocumentTitle) ||
			!sameJSON(md["page_start"], true, ch.Metadata.PageStart) || !sameJSON(md["section_title"], true, ch.Metadata.SectionTitle) || !sameJSON(md["chunk_index"], true, ch.Metadata.ChunkIndex) {
			return failf("chroma-record", "ExportForChroma: entry %d differs from the chunk", i)
		}
	}
	if es, ok := objs[0]["embeddings"].([]any); ok {
		for i := range es {
			if i < len(emb) && !sameVector(es[i], emb[i]) {
				return failf("chroma-embedding", "ExportForChroma: embedding %d differs", i)
			}
		}
		if len(es) != len(emb) {
			return failf("chroma-embedding", "ExportForChroma: %d embeddings given, %d exported", len(emb), len(es))
		}
	}
	// Weaviate: JSON Lines
	buf.Reset()
	class := "Doc" + strconv.Itoa(r.Intn(100))
	if err := ee.ExportForWeaviate(chunks, emb, class, &buf); err != nil {
		return failf("weaviate-error", "ExportForWeaviate: %v", err)
	}
	lines, f := parseJSONL(buf.String())
	if f != nil {
		return f
	}
	if len(lines) != len(chunks) {
		return failf("weaviate-count", "ExportForWeaviate: %d objects for %d chunks", len(lines), len(chunks))
	}
	for i, ch := range chunks {
		o := lines[i]
		p, _ := o["properties"].(map[string]any)
		idv, idok := o["id"]
		if !sameJSON(o["class"], true, class) || !sameJSON(idv, idok, ch.ID) || !sameJSON(p["content"], true, ch.Text) || !sameJSON(p["documentTitle"], true, ch.Metadata.DocumentTitle) ||
			!sameJSON(p["pageStart"], true, ch.Metadata.PageStart) || !sameJSON(p["sectionTitle"], true, ch.Metadata.SectionTitle) || !sameJSON(p["chunkIndex"], true, ch.Metadata.ChunkIndex) {
			return failf("weaviate-record", "ExportForWeaviate: object %d differs from the chunk", i)
		}
		if i < len(emb) && len(emb[i]) > 0 && !sameVector(o["vector"], emb[i]) {
			return failf("weaviate-vector", "ExportForWeaviate: vector %d differs", i)
		}
	}
	// an embedding with a component JSON cannot express (NaN, +Inf, -Inf — a failed
	// embedding call) on one chunk: the export reports an error, or it still
	// delivers one well-formed record per chunk
	if len(emb) > 0 && len(chunks) > 0 {
		bad := make([][]float64, len(emb))
		for i := range emb {
			bad[i] = append([]float64{}, emb[i]...)
		}
		at := r.Intn(len(bad))
		if len(bad) > 1 && r.Intn(3) > 0 {
			at = r.Intn(len(bad) - 1) // not the last one
		}
		if len(bad[at]) == 0 {
			bad[at] = []float64{0}
		}
		bad[at][r.Intn(len(bad[at]))] = []float64{math.NaN(), math.Inf(1), math.Inf(-1)}[r.Intn(3)]
		c.Count("non_finite_embedding_exports", 3)
		buf.Reset()
		if err := ee.ExportForWeaviate(chunks, bad, class, &buf); err == nil {
			lines, f := parseJSONL(buf.String())
			if f != nil {
				return f
			}
			if len(lines) != len(chunks) {
				return failf("weaviate-count/non-finite", "ExportForWeaviate returned nil with a non-finite component in embedding %d of %d: %d objects for %d chunks", at, len(bad), len(lines), len(chunks))
			}
		}
		buf.Reset()
		if err := ee.ExportForPinecone(chunks, bad, &buf); err == nil {
			objs, err := decodeObjects(buf.String())
			if err != nil || len(objs) != 1 {
				return failf("pinecone-syntax/non-finite", "ExportForPinecone returned nil with a non-finite embedding component, output rejected by encoding/json: %v", err)
			}
			want := 0
			for i := range chunks {
				if i < len(bad) && len(bad[i]) > 0 {
					want++
				}
			}
			if vecs, _ := objs[0]["vectors"].([]any); len(vecs) != want {
				return failf("pinecone-count/non-finite", "ExportForPinecone returned nil with a non-finite component in embedding %d of %d: %d vectors for %d chunks with embeddings", at, len(bad), len(vecs), want)
			}
		}
		buf.Reset()
		if err := ee.ExportForChroma(chunks, bad, &buf); err == nil {
			objs, err := decodeObjects(buf.String())
			if err != nil || len(objs) != 1 {
				return failf("chroma-syntax/non-finite", "ExportForChroma returned nil with a non-finite embedding component, output rejected by encoding/json: %v", err)
			}
			if ids, _ := objs[0]["ids"].([]any); len(ids) != len(chunks) {
				return failf("chroma-count/non-finite", "ExportForChroma returned nil with a non-finite embedding component: %d ids for %d chunks", len(ids), len(chunks))
			}
		}
	}
	c.Count("vectordb_records_compared", int64(4*len(chunks)))
	return nil
}

func checkBatches(r *rand.Rand, chunks []*rag.Chunk, cfg rag.ExportConfig, c *fw.Ctx) *fail {
	size := 1 + r.Intn(len(chunks)+2)
	c.Seen("batch_size_vs_n", map[bool]string{true: "size>=n", false: "size<n"}[size >= len(chunks)])
	var batches []rag.ExportBatch
	err := rag.NewBatchExporterWithConfig(size, cfg).Export(chunks, func(b rag.ExportBatch) error {
		batches = append(batches, b)
		return nil
	})
	if err != nil {
		return failf("batch-error", "BatchExporter(size %d).Export: %v", size, err)
	}
	next := 0
	for k, b := range batches {
		if b.BatchNumber != k || b.StartIndex != next || b.EndIndex <= b.StartIndex || b.EndIndex > len(chunks) || b.ChunkCount != b.EndIndex-b.StartIndex || b.ChunkCount > size {
			return failf("batch-bounds", "batch %d of size-%d batching over %d chunks reports number %d, range %d..%d, count %d (expected to start at %d)", k, size, len(chunks), b.BatchNumber, b.StartIndex, b.EndIndex, b.ChunkCount, next)
		}
		part := chunks[b.StartIndex:b.EndIndex]
		data := b.Data
		hc := cfg
		if cfg.Format == rag.ExportFormatCSV || cfg.Format == rag.ExportFormatTSV {
			if !cfg.IncludeHeader { // records of a header-less batch are checked through a re-export with header of the same slice
				next = b.EndIndex
				strict, _, f := parseBothCSV(data, cfg.CSVDelimiter)
				if f != nil {
					return f
				}
				if len(strict) != len(part) {
					return failf("batch-count", "batch %d has %d records for %d chunks", k, len(strict), len(part))
				}
				continue
			}
		}
		if f := checkExport(func(rag.ExportConfig) (string, error) { return data, nil }, part, hc, c); f != nil {
			f.what = fmt.Sprintf("batch %d (chunks %d..%d, batch size %d): %s", k, b.StartIndex, b.EndIndex, size, f.what)
			f.class = "batch/" + f.class
			return f
		}
		next = b.EndIndex
	}
	if next != len(chunks) {
		return failf("batch-coverage", "batches of size %d cover chunks 0..%d of %d", size, next, len(chunks))
	}
	return nil
}

func checkStream(chunks []*rag.Chunk, cfg rag.ExportConfig, c *fw.Ctx) *fail {
	var buf bytes.Buffer
	se := rag.NewStreamExporterWithConfig(&buf, cfg)
	for i, ch := range chunks {
		if err := se.WriteChunk(ch, i); err != nil {
			return failf("stream-error", "StreamExporter.WriteChunk(%d): %v", i, err)
		}
	}
	if err := se.Close(); err != nil {
		return failf("stream-error", "StreamExporter.Close: %v", err)
	}
	// streaming writes one object per line for both JSON formats (documented)
	return checkJSONExport(buf.String(), chunks, cfg, true)
}

// ------------------------------------------------------------ filters

type pred struct {
	name  string
	apply func(cc *rag.ChunkCollection) *rag.ChunkCollection
	holds func(ch *rag.Chunk) bool
}

func asciiLower(s string) string {
	b := []byte(s)
	for i, x := range b {
		if x >= 'A' && x <= 'Z' {
			b[i] = x + 32
		}
	}
	return string(b)
}

func randPred(r *rand.Rand, chunks []*rag.Chunk) pred {
	any1 := func() *rag.Chunk { return chunks[r.Intn(len(chunks))] }
	switch r.Intn(11) {
	case 0:
		title := any1().Metadata.SectionTitle
		if p := any1().Metadata.SectionPath; len(p) > 0 && r.Intn(2) == 0 {
			title = p[r.Intn(len(p))]
		}
		if title == "" {
			title = "no such section"
		}
		return pred{"FilterBySection(" + strconv.Quote(title) + ")", func(cc *rag.ChunkCollection) *rag.ChunkCollection { return cc.FilterBySection(title) },
			func(ch *rag.Chunk) bool {
				if ch.Metadata.SectionTitle == title {
					return true
				}
				for _, s := range ch.Metadata.SectionPath {
					if s == title {
						return true
					}
				}
				return false
			}}
	case 1:
		p := r.Intn(12)
		return pred{fmt.Sprintf("FilterByPage(%d)", p), func(cc *rag.ChunkCollection) *rag.ChunkCollection { return cc.FilterByPage(p) },
			func(ch *rag.Chunk) bool { return ch.Metadata.PageStart <= p && p <= ch.Metadata.PageEnd }}
	case 2:
		a := r.Intn(10)
		b := a + r.Intn(4)
		return pred{fmt.Sprintf("FilterByPageRange(%d,%d)", a, b), func(cc *rag.ChunkCollection) *rag.ChunkCollection { return cc.FilterByPageRange(a, b) },
			func(ch *rag.Chunk) bool { return ch.Metadata.PageEnd >= a && ch.Metadata.PageStart <= b }}
	case 3:
		t := append(append([]string{}, elementTypeNames...), "formula")[r.Intn(len(elementTypeNames)+1)]
		return pred{"FilterByElementType(" + t + ")", func(cc *rag.ChunkCollection) *rag.ChunkCollection { return cc.FilterByElementType(t) },
			func(ch *rag.Chunk) bool {
				for _, e := range ch.Metadata.ElementTypes {
					if e == t {
						return true
					}
				}
				return false
			}}
	case 4:
		return pred{"FilterWithTables", func(cc *rag.ChunkCollection) *rag.ChunkCollection { return cc.FilterWithTables() }, func(ch *rag.Chunk) bool { return ch.Metadata.HasTable }}
	case 5:
		return pred{"FilterWithLists", func(cc *rag.ChunkCollection) *rag.ChunkCollection { return cc.FilterWithLists() }, func(ch *rag.Chunk) bool { return ch.Metadata.HasList }}
	case 6:
		return pred{"FilterWithImages", func(cc *rag.ChunkCollection) *rag.ChunkCollection { return cc.FilterWithImages() }, func(ch *rag.Chunk) bool { return ch.Metadata.HasImage }}
	case 7:
		n := r.Intn(30)
		return pred{fmt.Sprintf("FilterByMinTokens(%d)", n), func(cc *rag.ChunkCollection) *rag.ChunkCollection { return cc.FilterByMinTokens(n) }, func(ch *rag.Chunk) bool { return ch.Metadata.EstimatedTokens >= n }}
	case 8:
		n := r.Intn(30)
		return pred{fmt.Sprintf("FilterByMaxTokens(%d)", n), func(cc *rag.ChunkCollection) *rag.ChunkCollection { return cc.FilterByMaxTokens(n) }, func(ch *rag.Chunk) bool { return ch.Metadata.EstimatedTokens <= n }}
	case 9:
		if r.Intn(4) == 0 {
			// letters whose other case has another UTF-8 length (Kelvin sign / k, Ohm
			// sign / ω, Angstrom sign / å, capital sharp s / ß): lower-casing and simple
			// case folding agree on them, so "case-insensitive" has one meaning
			kw := []string{"k", "K", "ω", "Ω", "å", "Å", "ß", "ẞ", "273 k", "5 kω"}[r.Intn(10)]
			low := strings.ToLower(kw)
			return pred{"Search(" + kw + ")", func(cc *rag.ChunkCollection) *rag.ChunkCollection { return cc.Search(kw) },
				func(ch *rag.Chunk) bool { return strings.Contains(strings.ToLower(ch.Text), low) }}
		}
		kw := plainWords[r.Intn(len(plainWords))]
		switch r.Intn(3) {
		case 0:
			kw = strings.ToUpper(kw)
		case 1:
			kw = kw[:1+r.Intn(len(kw))]
		}
		low := strings.ToLower(kw)
		return pred{"Search(" + kw + ")", func(cc *rag.ChunkCollection) *rag.ChunkCollection { return cc.Search(kw) },
			func(ch *rag.Chunk) bool { return strings.Contains(strings.ToLower(ch.Text), low) }}
	default:
		m := 2 + r.Intn(3)
		k := r.Intn(m)
		return pred{fmt.Sprintf("Filter(len(text)%%%d==%d)", m, k), func(cc *rag.ChunkCollection) *rag.ChunkCollection {
			return cc.Filter(func(ch *rag.Chunk) bool { return len(ch.Text)%m == k })
		}, func(ch *rag.Chunk) bool { return len(ch.Text)%m == k }}
	}
}

func checkFilters(r *rand.Rand, chunks []*rag.Chunk, c *fw.Ctx) *fail {
	if len(chunks) == 0 {
		cc := rag.NewChunkCollection(nil)
		if got := cc.FilterByPage(1).Search("x").Count(); got != 0 {
			return failf("filter-empty", "filters over an empty collection return %d chunks", got)
		}
		return nil
	}
	orig := append([]*rag.Chunk{}, chunks...)
	cc := rag.NewChunkCollection(chunks)
	depth := 1 + r.Intn(4)
	want := orig
	cur := cc
	var names []string
	for d := 0; d < depth; d++ {
		p := randPred(r, chunks)
		names = append(names, p.name)
		c.Seen("filter", strings.SplitN(p.name, "(", 2)[0])
		cur = p.apply(cur)
		var w []*rag.Chunk
		for _, ch := range want {
			if p.holds(ch) {
				w = append(w, ch)
			}
		}
		want = w
		if cur == nil {
			return failf("filter-nil", "%s returned nil", strings.Join(names, "."))
		}
		if len(cur.Chunks) != len(want) {
			return failf("filter-selection", "%s returned %d chunks, %d satisfy the predicate(s)", strings.Join(names, "."), len(cur.Chunks), len(want))
		}
		for i := range want {
			if cur.Chunks[i] != want[i] {
				return failf("filter-order", "%s: position %d holds chunk %q, expected %q", strings.Join(names, "."), i, cur.Chunks[i].ID, want[i].ID)
			}
		}
		c.Count("filter_results_compared", 1)
	}
	if len(cc.Chunks) != len(orig) {
		return failf("filter-mutates", "%s changed the source collection from %d to %d chunks", strings.Join(names, "."), len(orig), len(cc.Chunks))
	}
	for i := range orig {
		if cc.Chunks[i] != orig[i] {
			return failf("filter-mutates", "%s reordered the source collection", strings.Join(names, "."))
		}
	}
	return nil
}

// ------------------------------------------------------------ driver

func needsEscaping(s string) bool {
	for _, r := range s {
		if r < 0x20 || r == '"' || r == ',' || r == '\\' || r == 0x7f || r == 0x2028 || r == 0x2029 || r == '<' || r == '>' || r == '&' {
			return true
		}
	}
	return false
}

func dump(chunks []*rag.Chunk) []map[string]any {
	var out []map[string]any
	for i, ch := range chunks {
		if i >= 12 {
			out = append(out, map[string]any{"more": len(chunks) - i})
			break
		}
		out = append(out, map[string]any{"id": ch.ID, "text": ch.Text, "metadata": ch.Metadata})
	}
	return out
}

func runCase(c *fw.Ctx, i int) {
	id := fmt.Sprintf("coll:%d", i)
	if !c.Want(id) {
		return
	}
	r := c.Rand("coll", i)
	g := sg{c.Rand("coll", i, "content")}
	spec := collSpec{N: r.Intn(61), Hostile: []float64{0, 0.15, 0.4, 0.8}[r.Intn(4)]}
	switch r.Intn(10) {
	case 0:
		spec.N = 0
	case 1:
		spec.N = 1
	}
	chunks := g.collection(spec)
	cfg := sg{c.Rand("coll", i, "config")}.exportConfig()
	esc := 0
	for _, ch := range chunks {
		if needsEscaping(ch.Text) || needsEscaping(ch.Metadata.SectionTitle) {
			esc++
		}
	}
	desc := fmt.Sprintf("%d|%+v|%v", i, cfg, dumpKey(chunks))
	c.Case(desc, len(chunks) >= 2 && esc >= 1)
	c.Seen("format", cfg.Format.String())
	c.Seen("delimiter", strconv.QuoteRune(cfg.CSVDelimiter))
	c.Seen("config", fmt.Sprintf("flatten=%v,header=%v,pretty=%v,text=%v,meta=%v,fields=%v", cfg.FlattenMetadata, cfg.IncludeHeader, cfg.PrettyPrint, cfg.IncludeText, cfg.IncludeMetadata, cfg.MetadataFields != nil))
	c.Count("chunks_exported", int64(len(chunks)))
	if i < 3 {
		c.Sample(map[string]any{"id": id, "chunks": len(chunks), "hostile": spec.Hostile, "config": fmt.Sprintf("%+v", cfg)})
	}
	detail := map[string]any{"config": fmt.Sprintf("%+v", cfg), "chunks": dump(chunks)}
	report := func(entry string, f *fail) {
		if f != nil {
			c.Fail("", entry+"/"+f.class, id, entry+": "+f.what, detail)
		}
	}
	cc := rag.NewChunkCollection(chunks)

	c.Guard("Exporter", id, detail, func() {
		ex := func(k rag.ExportConfig) (string, error) { return rag.NewExporterWithConfig(k).ExportToString(chunks) }
		report("Exporter.ExportToString", checkExport(ex, chunks, cfg, c))
	})
	c.Guard("Exporter.Export(limited writer)", id, detail, func() {
		// a destination that takes only the first q bytes (disk full, closed pipe): an
		// export that reports success has delivered the whole, parseable output, so
		// here it has to report the failure
		ref, err := rag.NewExporterWithConfig(cfg).ExportToString(chunks)
		if err != nil || len(ref) == 0 {
			return
		}
		rq := c.Rand("coll", i, "quota")
		for k := 0; k < 3; k++ {
			q := rq.Intn(len(ref))
			if k == 0 {
				q = len(ref) - 1 - rq.Intn(min(len(ref), 64)) // in the tail of the output
				if q < 0 {
					q = 0
				}
			}
			w := &quotaWriter{left: q}
			err := rag.NewExporterWithConfig(cfg).Export(chunks, w)
			c.Count("limited_writer_exports", 1)
			if err == nil {
				report("Exporter.Export", failf("write-error-swallowed", "the destination accepted %d of %d bytes and then failed, Export returned nil (sink holds %d bytes, format %v)", q, len(ref), w.buf.Len(), cfg.Format))
				return
			}
		}
	})
	c.Guard("ChunkCollection.To*", id, detail, func() {
		d := rag.DefaultExportConfig()
		js, err := cc.ToJSON()
		if err != nil {
			report("ToJSON", failf("export-error", "%v", err))
		} else {
			report("ToJSON", checkJSONExport(js, chunks, d, false))
		}
		jl, err := cc.ToJSONL()
		if err != nil {
			report("ToJSONL", failf("export-error", "%v", err))
		} else {
			report("ToJSONL", checkJSONExport(jl, chunks, d, true))
		}
		report("ToCSV", checkCSVExport(func(rag.ExportConfig) (string, error) { return cc.ToCSV() }, chunks, rag.CSVExportConfig(), c))
		report("ToTSV", checkCSVExport(func(rag.ExportConfig) (string, error) { return cc.ToTSV() }, chunks, rag.TSVExportConfig(), c))
	})
	c.Guard("ExportToFile", id, detail, func() {
		// file destinations, the same path written several times (a full export, then
		// a subset, then the full one again): what the file holds after a successful
		// call is that call's export and nothing else
		dir := filepath.Join(c.Work, fmt.Sprintf("c14files-%d", i))
		if os.MkdirAll(dir, 0o755) != nil {
			return
		}
		defer os.RemoveAll(dir)
		path := filepath.Join(dir, "export.out")
		rf := c.Rand("coll", i, "files")
		sub := chunks[:rf.Intn(len(chunks)+1)]
		viaColl := rf.Intn(2) == 0
		for k, part := range [][]*rag.Chunk{chunks, sub, chunks, nil} {
			part := part
			ex := func(kc rag.ExportConfig) (string, error) {
				var err error
				if viaColl {
					err = rag.NewChunkCollection(part).ExportToFile(path, kc)
				} else {
					err = rag.NewExporterWithConfig(kc).ExportToFile(part, path)
				}
				if err != nil {
					return "", err
				}
				c.Count("file_exports_read_back", 1)
				data, rerr := os.ReadFile(path)
				return string(data), rerr
			}
			if f := checkExport(ex, part, cfg, c); f != nil {
				f.what = fmt.Sprintf("write %d to the same path (%d chunks): %s", k, len(part), f.what)
				report("ExportToFile", f)
				return
			}
		}
		// numbered batch files
		size := 1 + rf.Intn(len(chunks)+2)
		pat := filepath.Join(dir, "batch-%03d.out")
		if err := rag.NewBatchExporterWithConfig(size, cfg).ExportToFiles(chunks, pat); err != nil {
			report("ExportToFiles", failf("export-error", "%v", err))
			return
		}
		var mem []rag.ExportBatch
		rag.NewBatchExporterWithConfig(size, cfg).Export(chunks, func(b rag.ExportBatch) error { mem = append(mem, b); return nil })
		for _, b := range mem {
			data, rerr := os.ReadFile(fmt.Sprintf(pat, b.BatchNumber))
			if rerr != nil || string(data) != b.Data {
				report("ExportToFiles", failf("batch-file", "file of batch %d (size %d) differs from the batch handed to the callback (read error: %v)", b.BatchNumber, size, rerr))
				return
			}
			c.Count("batch_files_read_back", 1)
		}
		if _, err := os.Stat(fmt.Sprintf(pat, len(mem))); err == nil {
			report("ExportToFiles", failf("batch-file", "a file beyond the last batch (%d) exists", len(mem)))
		}
	})
	c.Guard("one config, several exporters", id, detail, func() {
		// one configuration value handed to exporters of every format in turn (and to a
		// batch exporter and a collection): each export is the one a fresh equal
		// configuration gives, and the caller's include list is left as it was
		rs := c.Rand("coll", i, "shared-config")
		shared := cfg
		if shared.MetadataFields == nil && rs.Intn(2) == 0 {
			for _, p := range rs.Perm(len(metaKeys))[:1+rs.Intn(len(metaKeys))] {
				shared.MetadataFields = append(shared.MetadataFields, metaKeys[p])
			}
		}
		pristine := append([]string(nil), shared.MetadataFields...)
		for k, p := range append(rs.Perm(4), rs.Perm(4)...) {
			use := shared
			use.Format = rag.ExportFormat(p)
			switch use.Format {
			case rag.ExportFormatCSV:
				if use.CSVDelimiter == 0 || use.CSVDelimiter == '\t' {
					use.CSVDelimiter = ','
				}
			case rag.ExportFormatTSV:
				use.CSVDelimiter = '\t'
			}
			want := use
			if shared.MetadataFields != nil {
				want.MetadataFields = append([]string{}, pristine...)
			}
			via := rs.Intn(3)
			ex := func(kc rag.ExportConfig) (string, error) {
				kc.MetadataFields = use.MetadataFields // the caller's own slice
				switch via {
				case 1:
					var sb strings.Builder
					err := rag.NewBatchExporterWithConfig(len(chunks)+1, kc).Export(chunks, func(b rag.ExportBatch) error { sb.WriteString(b.Data); return nil })
					if len(chunks) > 0 {
						return sb.String(), err
					}
				case 2:
					path := filepath.Join(c.Work, fmt.Sprintf("c14shared-%d.out", i))
					defer os.Remove(path)
					if err := cc.ExportToFile(path, kc); err != nil {
						return "", err
					}
					data, err := os.ReadFile(path)
					return string(data), err
				}
				return rag.NewExporterWithConfig(kc).ExportToString(chunks)
			}
			c.Count("shared_config_exports", 1)
			if f := checkExport(ex, chunks, want, c); f != nil {
				f.what = fmt.Sprintf("export %d with one configuration value (format %v): %s", k, use.Format, f.what)
				report("shared config", f)
				return
			}
			if strings.Join(shared.MetadataFields, "\x00") != strings.Join(pristine, "\x00") {
				// observed, not judged: what the property speaks about is the next export
				c.Count("caller_include_list_rewritten", 1)
			}
		}
	})
	c.Guard("BatchExporter", id, detail, func() {
		report("BatchExporter", checkBatches(c.Rand("coll", i, "batch"), chunks, cfg, c))
	})
	if cfg.Format == rag.ExportFormatJSON || cfg.Format == rag.ExportFormatJSONL {
		c.Guard("StreamExporter", id, detail, func() { report("StreamExporter", checkStream(chunks, cfg, c)) })
	}
	c.Guard("EmbeddingExporter", id, detail, func() {
		report("EmbeddingExporter", checkVectorDB(c.Rand("coll", i, "vec"), chunks, c))
	})
	c.Guard("Filter", id, detail, func() {
		for k := 0; k < 4; k++ {
			report("Filter", checkFilters(c.Rand("coll", i, "filter", k), chunks, c))
		}
	})
}

func dumpKey(chunks []*rag.Chunk) string {
	var sb strings.Builder
	for _, ch := range chunks {
		sb.WriteString(ch.ID)
		sb.WriteByte(0)
		sb.WriteString(ch.Text)
		sb.WriteByte(1)
	}
	return sb.String()
}

// Run is the C14 check.
func Run(c *fw.Ctx) {
	c.Rule("case = (chunk collection, export configuration, batch size, embeddings, filter chains); non-trivial iff >= 2 chunks and >= 1 text or section title with a character that needs quoting or escaping; distinct by hash of configuration + ids + texts")
	c.Assume("all generated strings are valid UTF-8 and all integers non-negative",
		"JSON Lines is read line by line (one JSON value per line, jsonlines.org); JSON with encoding/json; CSV/TSV with ref/rfc4180 (exact) and encoding/csv (modulo its CRLF→LF normalisation inside quoted fields)",
		"an absent JSON member / empty CSV cell equals the zero value; list-valued metadata in one CSV cell is compared only when no element contains ',', '[' or ']'; Level is accepted by name or number; BBox is not part of any export and not compared",
		"column names are distinct from each other and from the fixed column set; the delimiter is the configured CSVDelimiter",
		"a header-less CSV export is compared with the export of the same configuration with header (same records minus the first)",
		"Search is compared on ASCII keywords with ASCII case folding, and on the letters K (Kelvin sign), Ω (Ohm sign), Å (Angstrom sign), ẞ and their lower-case forms, for which lower-casing and simple case folding agree; other characters whose case mapping is ambiguous (dotted / dotless i) are not generated")
	n := c.N(1200, 120000)
	c.Parallel(n, func(i int) { runCase(c, i) })
}
