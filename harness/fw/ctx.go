// Package fw is the shared runtime-monitoring framework: seeded PRNG streams,
// case accounting, evidence writer, violation / known-finding reporting and
// the isolated worker pool.
package fw

import (
	"crypto/sha256"
	"encoding/hex"
	"encoding/json"
	"fmt"
	"os"
	"path/filepath"
	"runtime"
	"runtime/debug"
	"sort"
	"strconv"
	"strings"
	"sync"
	"sync/atomic"
	"time"
)

// Ctx is one run of one property's check.
type Ctx struct {
	Prop  string
	Tier  string // quick | thorough
	Seed  int64
	Level string // exploration | fault_enumeration
	Only  string // replay: run only the case with this id ("" = all)
	Dir   string // /verif
	Work  string // private scratch dir (removed by the driver)

	start time.Time

	mu         sync.Mutex
	evals      int64
	distinct   map[[8]byte]struct{}
	nontrivial int64
	counters   map[string]int64
	sets       map[string]map[string]struct{}
	samples    []any
	maxSamples int
	rule       string
	assume     []string
	exhaustive *bool
	extra      map[string]any

	violations     []violation
	replaysWritten int
	artifacts      int
	vioSeen        map[string]int
	knownHits      map[string]int
	knownWhat      map[string]string
	findings       []Finding
	inconcl        []string
}

type violation struct {
	What   string
	Replay string
}

func envInt(k string, d int64) int64 {
	if v := os.Getenv(k); v != "" {
		if n, err := strconv.ParseInt(v, 10, 64); err == nil {
			return n
		}
	}
	return d
}

// NewCtx builds a context from the environment set by ./check.
func NewCtx(prop, tier, level string) *Ctx {
	dir := os.Getenv("VERIF_DIR")
	if dir == "" {
		dir = "/verif"
	}
	work := os.Getenv("VERIF_WORK")
	if work == "" {
		work, _ = os.MkdirTemp("", "vcheck")
	}
	c := &Ctx{
		Prop: prop, Tier: tier, Level: level, Dir: dir, Work: work,
		Seed:       envInt("VERIF_SEED", 1),
		start:      time.Now(),
		distinct:   map[[8]byte]struct{}{},
		counters:   map[string]int64{},
		sets:       map[string]map[string]struct{}{},
		maxSamples: 6,
		extra:      map[string]any{},
		vioSeen:    map[string]int{},
		knownHits:  map[string]int{},
		knownWhat:  map[string]string{},
	}
	c.findings = loadFindings(filepath.Join(dir, "known_findings.json"), prop)
	return c
}

func (c *Ctx) Quick() bool { return c.Tier != "thorough" }

// N picks a workload size by tier.
func (c *Ctx) N(quick, thorough int) int {
	if c.Quick() {
		return quick
	}
	return thorough
}

// Want reports whether the case with this id is to be run (always true
// outside replay).
func (c *Ctx) Want(id string) bool { return c.Only == "" || c.Only == id }

// Case accounts for one executed case. desc identifies the case for the
// distinctness count (hash of the descriptor).
func (c *Ctx) Case(desc string, nontrivial bool) {
	h := sha256.Sum256([]byte(desc))
	var k [8]byte
	copy(k[:], h[:8])
	c.mu.Lock()
	c.evals++
	if nontrivial {
		if _, ok := c.distinct[k]; !ok {
			c.distinct[k] = struct{}{}
			c.nontrivial++
		}
	}
	c.mu.Unlock()
}

// Count adds n to a named observation counter (reported in evidence).
func (c *Ctx) Count(key string, n int64) {
	c.mu.Lock()
	c.counters[key] += n
	c.mu.Unlock()
}

// Seen records that a named feature value was exercised (coverage table).
func (c *Ctx) Seen(table, value string) {
	c.mu.Lock()
	m := c.sets[table]
	if m == nil {
		m = map[string]struct{}{}
		c.sets[table] = m
	}
	m[value] = struct{}{}
	c.mu.Unlock()
}

// Sample keeps a few actual cases for the evidence file.
func (c *Ctx) Sample(v any) {
	c.mu.Lock()
	if len(c.samples) < c.maxSamples {
		c.samples = append(c.samples, v)
	}
	c.mu.Unlock()
}

func (c *Ctx) Rule(s string)         { c.rule = s }
func (c *Ctx) Assume(s ...string)    { c.assume = append(c.assume, s...) }
func (c *Ctx) Exhaustive(b bool)     { c.exhaustive = &b }
func (c *Ctx) Extra(k string, v any) { c.mu.Lock(); c.extra[k] = v; c.mu.Unlock() }
func (c *Ctx) Inconclusive(why string) {
	c.mu.Lock()
	c.inconcl = append(c.inconcl, why)
	c.mu.Unlock()
}
func (c *Ctx) Counter(key string) int64 { c.mu.Lock(); defer c.mu.Unlock(); return c.counters[key] }
func (c *Ctx) Evaluations() int64       { c.mu.Lock(); defer c.mu.Unlock(); return c.evals }
func (c *Ctx) ViolationCount() int      { c.mu.Lock(); defer c.mu.Unlock(); return len(c.violations) }
func (c *Ctx) SeenCount(table string) int {
	c.mu.Lock()
	defer c.mu.Unlock()
	return len(c.sets[table])
}

// Replay is what is written to a replay file.
type Replay struct {
	Property string `json:"property"`
	Seed     int64  `json:"seed"`
	Tier     string `json:"tier"`
	CaseID   string `json:"case_id"`
	What     string `json:"what"`
	Detail   any    `json:"detail,omitempty"`
}

// Violation records a violation of the property. class groups equivalent
// failures (only the first few of a class get a replay file and a line, so a
// broken tree does not produce thousands of lines). caseID must be accepted
// by the property's runner under Only.
func (c *Ctx) Violation(class, caseID, what string, detail any) {
	c.mu.Lock()
	defer c.mu.Unlock()
	c.vioSeen[class]++
	if c.vioSeen[class] > 2 || c.replaysWritten >= 150 {
		c.violations = append(c.violations, violation{What: what})
		return
	}
	rp := Replay{Property: c.Prop, Seed: c.Seed, Tier: c.Tier, CaseID: caseID, What: what, Detail: detail}
	b, _ := json.MarshalIndent(rp, "", " ")
	h := sha256.Sum256(b)
	dir := filepath.Join(c.Dir, "replays")
	if o := os.Getenv("VERIF_OUT"); o != "" {
		dir = filepath.Join(o, "replays")
	}
	os.MkdirAll(dir, 0o755)
	path := filepath.Join(dir, fmt.Sprintf("%s-%s.json", c.Prop, hex.EncodeToString(h[:6])))
	os.WriteFile(path, b, 0o644)
	c.replaysWritten++
	c.violations = append(c.violations, violation{What: what, Replay: path})
}

// Artifact stores a failing input next to the replay files and returns its path.
func (c *Ctx) Artifact(name string, data []byte) string {
	dir := filepath.Join(c.Dir, "replays")
	if o := os.Getenv("VERIF_OUT"); o != "" {
		dir = filepath.Join(o, "replays")
	}
	os.MkdirAll(dir, 0o755)
	c.mu.Lock()
	n := c.artifacts
	c.artifacts++
	c.mu.Unlock()
	if n >= 40 {
		return ""
	}
	path := filepath.Join(dir, c.Prop+"-input-"+name)
	os.WriteFile(path, data, 0o644)
	return path
}

// Fail is the single reporting entry point for a failed oracle: if the failure
// is attributed (by the caller's counterfactual) to a listed open finding,
// it is counted as a known-finding hit; otherwise it is a violation.
func (c *Ctx) Fail(findingID, class, caseID, what string, detail any) {
	if findingID != "" && c.FindingOpen(findingID) {
		c.mu.Lock()
		c.knownHits[findingID]++
		if _, ok := c.knownWhat[findingID]; !ok {
			c.knownWhat[findingID] = what
		}
		c.mu.Unlock()
		return
	}
	c.Violation(class, caseID, what, detail)
}

// Guard runs f, converting a panic into a violation (a panic on a well-formed
// input violates every behavioural property: "returns the specified value").
func (c *Ctx) Guard(class, caseID string, detail any, f func()) (ok bool) {
	defer func() {
		if r := recover(); r != nil {
			ok = false
			st := string(debug.Stack())
			c.Violation(class+"/panic", caseID, fmt.Sprintf("panic: %v at %s", r, innermostTabulaFrame(st)), map[string]any{"detail": detail, "stack": trimStack(st)})
		}
	}()
	f()
	return true
}

func trimStack(s string) string {
	if len(s) > 3000 {
		return s[:3000]
	}
	return s
}

// innermostTabulaFrame extracts the first tabula function on a stack dump.
func innermostTabulaFrame(stack string) string {
	for _, ln := range strings.Split(stack, "\n") {
		if strings.HasPrefix(ln, "github.com/tsawler/tabula") {
			if i := strings.LastIndex(ln, "("); i > 0 {
				ln = ln[:i]
			}
			return strings.TrimPrefix(ln, "github.com/tsawler/tabula/")
		}
	}
	return "?"
}

// InnermostTabulaFrame is exported for C02 signatures.
func InnermostTabulaFrame(stack string) string { return innermostTabulaFrame(stack) }

// Parallel runs f(i) for i in [0,n) on GOMAXPROCS goroutines.
func (c *Ctx) Parallel(n int, f func(i int)) {
	w := runtime.GOMAXPROCS(0)
	if w > n {
		w = n
	}
	if w < 1 {
		w = 1
	}
	var next int64 = -1
	var wg sync.WaitGroup
	for k := 0; k < w; k++ {
		wg.Add(1)
		go func() {
			defer wg.Done()
			for {
				i := int(atomic.AddInt64(&next, 1))
				if i >= n {
					return
				}
				f(i)
			}
		}()
	}
	wg.Wait()
}

// Finish writes evidence, prints verdict lines and returns the exit code.
func (c *Ctx) Finish() int {
	c.mu.Lock()
	defer c.mu.Unlock()
	wall := time.Since(c.start).Seconds()

	cov := map[string]any{
		"evaluations":         c.evals,
		"distinct_nontrivial": c.nontrivial,
		"rule":                c.rule,
		"samples":             c.samples,
	}
	if c.exhaustive != nil {
		cov["exhaustive"] = *c.exhaustive
	}
	if len(c.counters) > 0 {
		cov["observed"] = c.counters
	}
	if len(c.sets) > 0 {
		feat := map[string]any{}
		for t, m := range c.sets {
			vals := make([]string, 0, len(m))
			for v := range m {
				vals = append(vals, v)
			}
			sort.Strings(vals)
			if len(vals) > 60 {
				feat[t] = map[string]any{"distinct": len(vals), "first": vals[:60]}
			} else {
				feat[t] = vals
			}
		}
		cov["features_seen"] = feat
	}
	for k, v := range c.extra {
		cov[k] = v
	}
	known := map[string]int{}
	for k, v := range c.knownHits {
		known[k] = v
	}
	cov["known_findings_hit"] = known
	if len(c.samples) == 0 {
		cov["samples"] = []any{}
	}
	verdict := "held"
	if len(c.violations) > 0 {
		verdict = "violated"
	} else if len(c.inconcl) > 0 {
		verdict = "inconclusive"
	}
	cov["verdict"] = verdict
	if len(c.inconcl) > 0 {
		cov["inconclusive_reasons"] = c.inconcl
	}
	ev := map[string]any{
		"property_id": c.Prop,
		"tier":        c.Tier,
		"seed":        c.Seed,
		"level":       c.Level,
		"coverage":    cov,
		"assumptions": c.assume,
		"wall_s":      wall,
		"violations":  len(c.violations),
	}
	if c.Only == "" {
		b, _ := json.MarshalIndent(ev, "", " ")
		evdir := filepath.Join(c.Dir, "evidence")
		if o := os.Getenv("VERIF_OUT"); o != "" { // scratch runs (mutants) must not touch the real evidence
			evdir = filepath.Join(o, "evidence")
		}
		os.MkdirAll(evdir, 0o755)
		os.WriteFile(filepath.Join(evdir, c.Prop+".json"), append(b, '\n'), 0o644)
	}

	// known findings: one line per listed open finding that was observed
	ids := make([]string, 0, len(c.knownHits))
	for id := range c.knownHits {
		ids = append(ids, id)
	}
	sort.Strings(ids)
	for _, id := range ids {
		desc := c.knownWhat[id]
		for _, f := range c.findings {
			if f.ID == id {
				desc = f.What
			}
		}
		fmt.Printf("KNOWN-FINDING: property=%s %s: %s (observed %d times this run)\n", c.Prop, id, desc, c.knownHits[id])
	}

	fmt.Printf("%s %s seed=%d: evaluations=%d distinct_nontrivial=%d violations=%d wall=%.1fs\n",
		c.Prop, c.Tier, c.Seed, c.evals, c.nontrivial, len(c.violations), wall)
	if len(c.violations) > 0 {
		cls := make([]string, 0, len(c.vioSeen))
		for k := range c.vioSeen {
			cls = append(cls, k)
		}
		sort.Strings(cls)
		for _, k := range cls {
			fmt.Printf("  class %-60s %d\n", k, c.vioSeen[k])
		}
		printed := 0
		for _, v := range c.violations {
			if v.Replay == "" {
				continue
			}
			fmt.Printf("  what: %s\n", oneLine(v.What, 400))
			fmt.Printf("VIOLATION property=%s replay=%s\n", c.Prop, v.Replay)
			printed++
		}
		if printed == 0 {
			fmt.Printf("VIOLATION property=%s replay=%s\n", c.Prop, "none")
		}
		return 1
	}
	if len(c.inconcl) > 0 {
		for _, w := range c.inconcl {
			fmt.Printf("INCONCLUSIVE property=%s %s\n", c.Prop, w)
		}
		return 2
	}
	return 0
}

func oneLine(s string, n int) string {
	s = strings.ReplaceAll(s, "\n", "\\n")
	if len(s) > n {
		s = s[:n] + "…"
	}
	return s
}

// OneLine is exported for check packages.
func OneLine(s string, n int) string { return oneLine(s, n) }
