package fw

import (
	"encoding/json"
	"os"
)

// Finding is one entry of /verif/known_findings.json. The file is committed
// and never written at run time. status "open" entries downgrade a matching,
// counterfactually attributed failure to a KNOWN-FINDING line; status "fixed"
// entries are a record only and suppress nothing.
type Finding struct {
	Property string `json:"property"`
	ID       string `json:"id"`
	Status   string `json:"status"` // open | fixed
	Trigger  string `json:"trigger,omitempty"`
	What     string `json:"what"`
	Witness  string `json:"witness,omitempty"`
	Commit   string `json:"commit,omitempty"`
}

type findingsFile struct {
	Findings []Finding `json:"findings"`
}

func loadFindings(path, prop string) []Finding {
	b, err := os.ReadFile(path)
	if err != nil {
		return nil
	}
	var ff findingsFile
	if json.Unmarshal(b, &ff) != nil {
		return nil
	}
	var out []Finding
	for _, f := range ff.Findings {
		if f.Property == prop {
			out = append(out, f)
		}
	}
	return out
}

// FindingOpen reports whether id is a listed, still-open finding of this property.
func (c *Ctx) FindingOpen(id string) bool {
	for _, f := range c.findings {
		if f.ID == id && f.Status == "open" {
			return true
		}
	}
	return false
}

// OpenFindings lists the ids of the open findings of this property.
func (c *Ctx) OpenFindings() []string {
	var ids []string
	for _, f := range c.findings {
		if f.Status == "open" {
			ids = append(ids, f.ID)
		}
	}
	return ids
}
