package fw

import (
	"encoding/json"
	"fmt"
	"os"
	"path/filepath"
)

// Finding is one entry of /verif/known_findings.json. The file is committed
// and never written at run time. status "open" entries downgrade a matching,
// counterfactually attributed failure to a KNOWN-FINDING line; status "fixed"
// entries are a record only and suppress nothing.
type Finding struct {
	Property string `json:"property"`
	ID       string `json:"id"`
	Status   string `json:"status"` // open | fixed
	Trigger  string `json:"trigger,omitempty"`
	What     string `json:"what"`
	Witness  string `json:"witness,omitempty"`
	Commit   string `json:"commit,omitempty"`
}

type findingsFile struct {
	Findings []Finding `json:"findings"`
}

func loadFindings(path, prop string) []Finding {
	var out []Finding
	paths := []string{path}
	// per-property files /verif/known_findings.d/*.json have the same format
	more, _ := filepath.Glob(filepath.Join(filepath.Dir(path), "known_findings.d", "*.json"))
	paths = append(paths, more...)
	for _, p := range paths {
		b, err := os.ReadFile(p)
		if err != nil {
			continue
		}
		var ff findingsFile
		if json.Unmarshal(b, &ff) != nil {
			fmt.Fprintf(os.Stderr, "warning: cannot parse %s\n", p)
			continue
		}
		for _, f := range ff.Findings {
			if f.Property == prop {
				out = append(out, f)
			}
		}
	}
	return out
}

// FindingOpen reports whether id is a listed, still-open finding of this property.
func (c *Ctx) FindingOpen(id string) bool {
	for _, f := range c.findings {
		if f.ID == id && f.Status == "open" {
			return true
		}
	}
	return false
}

// OpenFindings lists the ids of the open findings of this property.
func (c *Ctx) OpenFindings() []string {
	var ids []string
	for _, f := range c.findings {
		if f.Status == "open" {
			ids = append(ids, f.ID)
		}
	}
	return ids
}
