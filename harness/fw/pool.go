package fw

import (
	"bufio"
	"encoding/binary"
	"encoding/json"
	"fmt"
	"io"
	"os"
	"os/exec"
	"path/filepath"
	"runtime"
	"runtime/debug"
	"runtime/metrics"
	"strconv"
	"strings"
	"sync"
	"syscall"
	"time"
)

// ---------------------------------------------------------------- child side

// Handler processes one request inside an isolated worker process.
type Handler func(req []byte) []byte

var handlers = map[string]Handler{}

// RegisterWorker registers a handler that `vcheck worker <name>` serves.
func RegisterWorker(name string, h Handler) { handlers[name] = h }

type reply struct {
	OK    bool   `json:"ok"`
	Panic string `json:"panic,omitempty"`
	Stack string `json:"stack,omitempty"`
	Resp  []byte `json:"resp,omitempty"`
}

func readFrame(r io.Reader) ([]byte, error) {
	var n [4]byte
	if _, err := io.ReadFull(r, n[:]); err != nil {
		return nil, err
	}
	b := make([]byte, binary.BigEndian.Uint32(n[:]))
	_, err := io.ReadFull(r, b)
	return b, err
}

func writeFrame(w io.Writer, b []byte) error {
	var n [4]byte
	binary.BigEndian.PutUint32(n[:], uint32(len(b)))
	if _, err := w.Write(n[:]); err != nil {
		return err
	}
	_, err := w.Write(b)
	return err
}

// WorkerMain is the body of `vcheck worker <name> <heapBudgetMiB>`.
func WorkerMain(name string, heapMiB int) int {
	h := handlers[name]
	if h == nil {
		fmt.Fprintf(os.Stderr, "no worker handler %q\n", name)
		return 3
	}
	debug.SetMaxStack(256 << 20) // stack exhaustion => fatal "goroutine stack exceeds" quickly
	if heapMiB > 0 {
		go heapWatch(uint64(heapMiB) << 20)
	}
	in := bufio.NewReaderSize(os.Stdin, 1<<20)
	out := bufio.NewWriterSize(os.Stdout, 1<<20)
	for {
		req, err := readFrame(in)
		if err != nil {
			return 0
		}
		rp := runOne(h, req)
		b, _ := json.Marshal(rp)
		if writeFrame(out, b) != nil || out.Flush() != nil {
			return 0
		}
	}
}

// OneShotMain is the body of `vcheck oneshot <name> <reqfile> <outfile>`: one
// request from a file, the reply (same JSON as the worker protocol) to a file.
// Used when the process must not depend on pipe reads (syscall fault injection).
func OneShotMain(name, reqFile, outFile string) int {
	h := handlers[name]
	if h == nil {
		return 3
	}
	req, err := os.ReadFile(reqFile)
	if err != nil {
		return 4
	}
	os.WriteFile(outFile+".started", []byte("1"), 0o644)
	rp := runOne(h, req)
	b, _ := json.Marshal(rp)
	if os.WriteFile(outFile, b, 0o644) != nil {
		return 5
	}
	return 0
}

// OneShotReply decodes a reply file written by OneShotMain.
func OneShotReply(b []byte) (ok bool, resp []byte, panicMsg, stack string, err error) {
	var rp reply
	if err = json.Unmarshal(b, &rp); err != nil {
		return
	}
	return rp.OK, rp.Resp, rp.Panic, rp.Stack, nil
}

func runOne(h Handler, req []byte) (rp reply) {
	defer func() {
		if r := recover(); r != nil {
			rp = reply{OK: false, Panic: fmt.Sprint(r), Stack: string(debug.Stack())}
		}
	}()
	return reply{OK: true, Resp: h(req)}
}

func heapWatch(limit uint64) {
	s := []metrics.Sample{{Name: "/memory/classes/heap/objects:bytes"}}
	for {
		time.Sleep(10 * time.Millisecond)
		metrics.Read(s)
		if s[0].Value.Kind() == metrics.KindUint64 && s[0].Value.Uint64() > limit {
			buf := make([]byte, 1<<16)
			n := runtime.Stack(buf, true)
			fmt.Fprintf(os.Stderr, "VERIF-MEM-EXCEEDED live heap %d > %d\n%s\n", s[0].Value.Uint64(), limit, buf[:n])
			os.Exit(97)
		}
	}
}

// --------------------------------------------------------------- parent side

// Result of one isolated execution.
type Result struct {
	Kind  string // ok | panic | fatal | hang | mem | stuck
	Resp  []byte
	Msg   string
	Stack string // stack dump (panic stack, fatal error dump, SIGQUIT dump)
	Site  string // innermost tabula frame of the failing goroutine
	CPU   time.Duration
}

// Sig is the call-site signature kind@site.
func (r Result) Sig() string { return r.Kind + "@" + r.Site }

type child struct {
	cmd  *exec.Cmd
	in   io.WriteCloser
	out  *bufio.Reader
	errf string
	tick float64
}

// Pool runs requests in isolated child processes, one case at a time per
// child. A case is a hang when the child consumed more than cpuBudget of CPU
// time on it (read from /proc/<pid>/stat, so machine load does not matter);
// the generous wall-clock limit only yields "stuck" (inconclusive).
type Pool struct {
	name      string
	heapMiB   int
	cpuBudget time.Duration
	wallLimit time.Duration
	work      string
	free      chan *child
	n         int
	mu        sync.Mutex
	seq       int
	race      bool
}

func NewPool(c *Ctx, name string, workers int, cpuBudget time.Duration, heapMiB int) *Pool {
	p := &Pool{name: name, heapMiB: heapMiB, cpuBudget: cpuBudget, wallLimit: 10 * time.Minute, work: c.Work, n: workers}
	p.free = make(chan *child, workers)
	for i := 0; i < workers; i++ {
		p.free <- nil // lazily started
	}
	return p
}

func (p *Pool) start() (*child, error) {
	exe, err := os.Executable()
	if err != nil {
		return nil, err
	}
	p.mu.Lock()
	p.seq++
	id := p.seq
	p.mu.Unlock()
	errf := filepath.Join(p.work, fmt.Sprintf("worker-%s-%d.stderr", p.name, id))
	f, err := os.Create(errf)
	if err != nil {
		return nil, err
	}
	cmd := exec.Command(exe, "worker", p.name, strconv.Itoa(p.heapMiB))
	cmd.Stderr = f
	cmd.Env = append(os.Environ(), "GOTRACEBACK=all", "GOMAXPROCS=2")
	in, _ := cmd.StdinPipe()
	outp, _ := cmd.StdoutPipe()
	if err := cmd.Start(); err != nil {
		f.Close()
		return nil, err
	}
	f.Close()
	return &child{cmd: cmd, in: in, out: bufio.NewReaderSize(outp, 1<<20), errf: errf}, nil
}

func cpuSeconds(pid int) float64 {
	b, err := os.ReadFile(fmt.Sprintf("/proc/%d/stat", pid))
	if err != nil {
		return -1
	}
	s := string(b)
	i := strings.LastIndex(s, ")")
	if i < 0 {
		return -1
	}
	f := strings.Fields(s[i+1:])
	if len(f) < 13 {
		return -1
	}
	ut, _ := strconv.ParseFloat(f[11], 64)
	st, _ := strconv.ParseFloat(f[12], 64)
	return (ut + st) / 100.0
}

func (ch *child) kill() {
	if ch == nil || ch.cmd == nil || ch.cmd.Process == nil {
		return
	}
	ch.in.Close()
	ch.cmd.Process.Kill()
	ch.cmd.Wait()
	os.Remove(ch.errf)
}

// Do runs one request. Safe for concurrent use by up to `workers` callers.
func (p *Pool) Do(req []byte) Result {
	ch := <-p.free
	var res Result
	defer func() { p.free <- ch }()
	if ch == nil {
		var err error
		ch, err = p.start()
		if err != nil {
			return Result{Kind: "stuck", Msg: "cannot start worker: " + err.Error()}
		}
	}
	cpu0 := cpuSeconds(ch.cmd.Process.Pid)
	t0 := time.Now()
	type rd struct {
		b   []byte
		err error
	}
	done := make(chan rd, 1)
	if err := writeFrame(ch.in, req); err != nil {
		// child already dead (from before): restart once
		ch.kill()
		ch = nil
		return Result{Kind: "stuck", Msg: "worker pipe closed before request: " + err.Error()}
	}
	go func() {
		b, err := readFrame(ch.out)
		done <- rd{b, err}
	}()
	tk := time.NewTicker(50 * time.Millisecond)
	defer tk.Stop()
	for {
		select {
		case r := <-done:
			res.CPU = time.Duration((cpuSeconds(ch.cmd.Process.Pid) - cpu0) * float64(time.Second))
			if r.err != nil {
				// child died: fatal error, memory watchdog, or killed
				ch.cmd.Wait()
				eb, _ := os.ReadFile(ch.errf)
				es := string(eb)
				os.Remove(ch.errf)
				ch = nil
				res.Stack = tailString(es, 12000)
				switch {
				case strings.Contains(es, "VERIF-MEM-EXCEEDED"):
					res.Kind = "mem"
					res.Msg = firstLineWith(es, "VERIF-MEM-EXCEEDED")
					res.Site = siteOfRunning(es)
				case strings.Contains(es, "stack exceeds") || strings.Contains(es, "stack overflow"):
					res.Kind = "fatal"
					res.Msg = "stack exhaustion: " + firstLineWith(es, "stack")
					res.Site = innermostTabulaFrame(es)
					res.Stack = headString(es, 6000)
				case strings.Contains(es, "out of memory") || strings.Contains(es, "cannot allocate"):
					res.Kind = "mem"
					res.Msg = firstLineWith(es, "memory")
					res.Site = innermostTabulaFrame(es)
				default:
					res.Kind = "fatal"
					res.Msg = firstLineWith(es, "fatal error")
					if res.Msg == "" {
						res.Msg = "worker exited: " + headString(es, 300)
					}
					res.Site = innermostTabulaFrame(es)
				}
				return res
			}
			var rp reply
			if err := json.Unmarshal(r.b, &rp); err != nil {
				return Result{Kind: "stuck", Msg: "bad reply frame"}
			}
			if rp.OK {
				res.Kind = "ok"
				res.Resp = rp.Resp
				return res
			}
			res.Kind = "panic"
			res.Msg = rp.Panic
			res.Stack = trimStack(rp.Stack)
			res.Site = panicSite(rp.Stack)
			return res
		case <-tk.C:
			used := cpuSeconds(ch.cmd.Process.Pid) - cpu0
			wall := time.Since(t0)
			if used > p.cpuBudget.Seconds() || wall > p.wallLimit {
				kind := "hang"
				if used <= p.cpuBudget.Seconds() {
					kind = "stuck"
				}
				ch.cmd.Process.Signal(syscall.SIGQUIT)
				waited := make(chan struct{})
				go func() { ch.cmd.Wait(); close(waited) }()
				select {
				case <-waited:
				case <-time.After(20 * time.Second):
					ch.cmd.Process.Kill()
					<-waited
				}
				eb, _ := os.ReadFile(ch.errf)
				es := string(eb)
				os.Remove(ch.errf)
				ch = nil
				res.Kind = kind
				res.CPU = time.Duration(used * float64(time.Second))
				res.Msg = fmt.Sprintf("consumed %.1fs CPU (budget %.0fs), wall %.1fs", used, p.cpuBudget.Seconds(), wall.Seconds())
				res.Stack = headString(es, 8000)
				res.Site = siteOfRunning(es)
				return res
			}
		}
	}
}

// Close terminates all workers.
func (p *Pool) Close() {
	for i := 0; i < p.n; i++ {
		ch := <-p.free
		if ch != nil {
			ch.kill()
		}
	}
}

func tailString(s string, n int) string {
	if len(s) > n {
		return s[len(s)-n:]
	}
	return s
}
func headString(s string, n int) string {
	if len(s) > n {
		return s[:n]
	}
	return s
}
func firstLineWith(s, sub string) string {
	for _, ln := range strings.Split(s, "\n") {
		if strings.Contains(ln, sub) {
			return ln
		}
	}
	return ""
}

// panicSite: innermost tabula frame below the panic machinery in a
// debug.Stack() dump taken in the recover handler.
func panicSite(stack string) string {
	i := strings.Index(stack, "panic(")
	if i >= 0 {
		stack = stack[i:]
	}
	return innermostTabulaFrame(stack)
}

// siteOfRunning: innermost tabula frame of the busiest goroutine in an
// all-goroutine dump (the one in state running/runnable that has tabula frames).
func siteOfRunning(dump string) string {
	blocks := strings.Split(dump, "\n\n")
	for _, want := range []string{"[running", "[runnable", ""} {
		for _, b := range blocks {
			if !strings.HasPrefix(strings.TrimSpace(b), "goroutine ") {
				continue
			}
			first := b
			if j := strings.Index(b, "\n"); j > 0 {
				first = b[:j]
			}
			if want != "" && !strings.Contains(first, want) {
				continue
			}
			if s := innermostTabulaFrame(b); s != "?" {
				return s
			}
		}
	}
	return "?"
}
