package fw

import (
	"fmt"
	"hash/fnv"
	"math/rand"
)

// Rand returns an independent PRNG stream determined by the run seed, the
// property and the given path (case index, aspect name …). Neutralising one
// aspect of a case therefore leaves every other aspect's choices unchanged.
func (c *Ctx) Rand(path ...any) *rand.Rand {
	return RandFor(c.Seed, append([]any{c.Prop}, path...)...)
}

// RandFor is the context-free form of Rand.
func RandFor(seed int64, path ...any) *rand.Rand {
	h := fnv.New64a()
	fmt.Fprintf(h, "%d", seed)
	for _, p := range path {
		fmt.Fprintf(h, "/%v", p)
	}
	x := h.Sum64()
	// splitmix64 finaliser
	x += 0x9e3779b97f4a7c15
	x = (x ^ (x >> 30)) * 0xbf58476d1ce4e5b9
	x = (x ^ (x >> 27)) * 0x94d049bb133111eb
	x ^= x >> 31
	return rand.New(rand.NewSource(int64(x)))
}

// Pick returns a random element.
func Pick[T any](r *rand.Rand, xs []T) T { return xs[r.Intn(len(xs))] }

// Chance is true with probability p.
func Chance(r *rand.Rand, p float64) bool { return r.Float64() < p }

// IntIn returns an int in [lo,hi].
func IntIn(r *rand.Rand, lo, hi int) int {
	if hi <= lo {
		return lo
	}
	return lo + r.Intn(hi-lo+1)
}

const tokAlphabet = "abcdefghijkmnoprstuvwxyz" // no 'q' (token start marker), no 'l'

// Tokens hands out unique tokens: lower-case letters only, fixed length, so no
// layout heuristic, escaping rule, number pattern or case folding can split or
// rewrite one. A token seen in an output identifies the unit it came from.
type Tokens struct {
	prefix string
	n      int
}

// NewTokens creates a token source; tokens of different sources with different
// tags never collide.
func NewTokens(r *rand.Rand) *Tokens {
	b := make([]byte, 3)
	for i := range b {
		b[i] = tokAlphabet[r.Intn(len(tokAlphabet))]
	}
	return &Tokens{prefix: "q" + string(b)}
}

// Next returns the next unique token, e.g. "qxkdbaac".
func (t *Tokens) Next() string {
	n := t.n
	t.n++
	var b [4]byte
	for i := 3; i >= 0; i-- {
		b[i] = tokAlphabet[n%len(tokAlphabet)]
		n /= len(tokAlphabet)
	}
	return t.prefix + "z" + string(b[:])
}

// Count is how many tokens were issued.
func (t *Tokens) Count() int { return t.n }

// TokenLen is the fixed token length.
const TokenLen = 9

// FindTokens returns every token occurring in s, in order. 'q' occurs only as
// the first letter of a token in generated text, so the scan is unambiguous
// even when tokens are glued together.
func FindTokens(s string) []string {
	var out []string
	for i := 0; i+TokenLen <= len(s); i++ {
		if s[i] != 'q' || s[i+4] != 'z' {
			continue
		}
		ok := true
		for j := 1; j < TokenLen; j++ {
			ch := s[i+j]
			if ch < 'a' || ch > 'z' || ch == 'q' {
				ok = false
				break
			}
		}
		if ok {
			out = append(out, s[i:i+TokenLen])
			i += TokenLen - 1
		}
	}
	return out
}
