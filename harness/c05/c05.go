// Package c05: stream decoding exactly inverts every supported encoding.
//
// Oracle: independent encoders (ref/filt) -> (&core.Stream{Dict,Data}).Decode()
// must return the original bytes; data that no conforming decoder may accept
// must yield an error.
package c05

import (
	"bytes"
	"encoding/hex"
	"fmt"
	"math/rand"
	"strings"

	"github.com/tsawler/tabula/core"

	"verifharness/fw"
	"verifharness/ref/filt"
)

type stage struct {
	Kind   string // Fl | AHx | A85
	Name   string
	Pred   int // 0 = no Predictor key
	Cols   int
	Colors int
	Parms  string // dict | null | absent
}

func (s stage) String() string {
	if s.Kind == "Fl" && s.Pred > 1 {
		return fmt.Sprintf("%s(P%d,c%d,n%d,%s)", s.Name, s.Pred, s.Cols, s.Colors, s.Parms)
	}
	return fmt.Sprintf("%s(%s)", s.Name, s.Parms)
}

var names = map[string][2]string{
	"Fl":  {"FlateDecode", "Fl"},
	"AHx": {"ASCIIHexDecode", "AHx"},
	"A85": {"ASCII85Decode", "A85"},
}

// encodeStage applies the encoder of one stage.
func encodeStage(s stage, data []byte, r *rand.Rand) []byte {
	switch s.Kind {
	case "Fl":
		d := data
		switch {
		case s.Pred == 2:
			d = filt.TIFFPredict(data, s.Cols, s.Colors)
		case s.Pred >= 10:
			rows := 0
			if s.Cols*s.Colors > 0 {
				rows = len(data) / (s.Cols * s.Colors)
			}
			rt := make([]int, rows)
			for i := range rt {
				rt[i] = r.Intn(5)
			}
			d = filt.PNGPredict(data, s.Cols, s.Colors, rt)
		}
		return filt.Flate(d, []int{-1, 0, 1, 6, 9}[r.Intn(5)])
	case "AHx":
		return filt.Hex(data, filt.HexPolicy{Upper: r.Intn(2) == 0, WSProb: []float64{0, 0, 0.1, 0.4}[r.Intn(4)], DropLast0: r.Intn(3) == 0}, r)
	case "A85":
		return filt.A85(data, filt.A85Policy{UseZ: r.Intn(3) > 0, WSProb: []float64{0, 0, 0.1, 0.4}[r.Intn(4)]}, r)
	}
	panic("bad stage")
}

func parmsDict(s stage, r *rand.Rand) core.Object {
	if s.Parms == "null" {
		return core.Null{}
	}
	d := core.Dict{}
	if s.Kind == "Fl" && s.Pred > 0 {
		d["Predictor"] = core.Int(s.Pred)
		if s.Pred > 1 {
			if s.Cols != 1 || r.Intn(2) == 0 {
				d["Columns"] = core.Int(s.Cols)
			}
			if s.Colors != 1 || r.Intn(2) == 0 {
				d["Colors"] = core.Int(s.Colors)
			}
			if r.Intn(2) == 0 {
				d["BitsPerComponent"] = core.Int(8)
			}
		}
	}
	return d
}

// buildStream encodes x through the pipeline (decode order = array order) and
// builds the stream dictionary in a seed-chosen legal spelling.
func buildStream(x []byte, pipe []stage, r *rand.Rand) *core.Stream {
	data := x
	for i := len(pipe) - 1; i >= 0; i-- {
		if pipe[i].Pred > 1 && i != len(pipe)-1 {
			// a predicting stage that is not the innermost one sees the bytes the
			// later stages produced: pick a geometry that tiles them
			gs := geometries(len(data))
			if len(data) == 0 || len(gs) == 0 {
				pipe[i].Cols, pipe[i].Colors = 1+r.Intn(8), 1+r.Intn(3)
			} else {
				g := gs[r.Intn(len(gs))]
				pipe[i].Cols, pipe[i].Colors = g[0], g[1]
			}
		}
		data = encodeStage(pipe[i], data, r)
	}
	d := core.Dict{"Length": core.Int(len(data))}
	if len(pipe) == 0 {
		return &core.Stream{Dict: d, Data: data}
	}
	asArray := len(pipe) > 1 || r.Intn(4) == 0
	if !asArray {
		d["Filter"] = core.Name(pipe[0].Name)
		if pipe[0].Parms != "absent" {
			d["DecodeParms"] = parmsDict(pipe[0], r)
		}
		return &core.Stream{Dict: d, Data: data}
	}
	fa := core.Array{}
	pa := core.Array{}
	allAbsent := true
	for _, s := range pipe {
		fa = append(fa, core.Name(s.Name))
		if s.Parms != "absent" {
			allAbsent = false
		}
	}
	d["Filter"] = fa
	if !allAbsent {
		for _, s := range pipe {
			if s.Parms == "absent" {
				pa = append(pa, core.Null{})
			} else {
				pa = append(pa, parmsDict(s, r))
			}
		}
		d["DecodeParms"] = pa
	}
	return &core.Stream{Dict: d, Data: data}
}

func randStage(r *rand.Rand, kind string, dataLen int) stage {
	s := stage{Kind: kind, Name: names[kind][r.Intn(2)], Cols: 1, Colors: 1}
	switch kind {
	case "Fl":
		s.Parms = []string{"absent", "null", "dict"}[r.Intn(3)]
		if s.Parms == "dict" {
			s.Pred = []int{0, 1, 2, 10, 11, 12, 13, 14, 15}[r.Intn(9)]
		}
	default:
		s.Parms = []string{"absent", "absent", "null", "dict"}[r.Intn(4)]
	}
	return s
}

// geometry chooses columns/colors that tile n bytes (n may be 0).
func geometries(n int) [][2]int {
	var out [][2]int
	for colors := 1; colors <= 4; colors++ {
		for cols := 1; cols <= 64; cols++ {
			if n%(cols*colors) == 0 {
				out = append(out, [2]int{cols, colors})
			}
		}
	}
	return out
}

func pipeString(p []stage) string {
	ss := make([]string, len(p))
	for i, s := range p {
		ss[i] = s.String()
	}
	return strings.Join(ss, ">")
}

func hexShort(b []byte) string {
	if len(b) > 96 {
		return hex.EncodeToString(b[:96]) + fmt.Sprintf("…(%d bytes)", len(b))
	}
	return hex.EncodeToString(b)
}

func dictString(d core.Dict) string {
	var sb strings.Builder
	for _, k := range []string{"Filter", "DecodeParms"} {
		if v, ok := d[k]; ok {
			fmt.Fprintf(&sb, "/%s %v ", k, v)
		}
	}
	return sb.String()
}

// checkRoundTrip runs one positive case.
func checkRoundTrip(c *fw.Ctx, id string, x []byte, pipe []stage, r *rand.Rand) {
	st := buildStream(x, pipe, r)
	desc := fmt.Sprintf("%s|%x", pipeString(pipe), x)
	nontriv := len(x) > 0 && len(pipe) > 0
	c.Case(desc, nontriv)
	for _, s := range pipe {
		c.Seen("filter", s.Name)
		if s.Kind == "Fl" {
			c.Seen("predictor", fmt.Sprint(s.Pred))
			if s.Pred > 1 {
				c.Seen("colors", fmt.Sprint(s.Colors))
			}
		}
		c.Seen("parms_form", s.Parms)
	}
	c.Seen("chain_len", fmt.Sprint(len(pipe)))
	detail := map[string]any{"pipeline": pipeString(pipe), "dict": dictString(st.Dict), "input_hex": hexShort(x), "encoded_hex": hexShort(st.Data)}
	c.Sample(map[string]any{"id": id, "pipeline": pipeString(pipe), "input_len": len(x), "encoded_len": len(st.Data)})
	c.Guard("roundtrip", id, detail, func() {
		got, err := st.Decode()
		if err != nil {
			c.Fail("", "roundtrip-error/"+kindsOf(pipe), id, fmt.Sprintf("Decode() error %v for a conforming encoding, pipeline %s", err, pipeString(pipe)), detail)
			return
		}
		c.Count("bytes_compared", int64(len(x)))
		if !bytes.Equal(got, x) {
			detail["got_hex"] = hexShort(got)
			c.Fail("", "roundtrip-mismatch/"+kindsOf(pipe), id, fmt.Sprintf("Decode() returned %d bytes != original %d bytes, pipeline %s", len(got), len(x), pipeString(pipe)), detail)
		}
	})
}

func kindsOf(p []stage) string {
	ss := make([]string, len(p))
	for i, s := range p {
		ss[i] = s.Kind
		if s.Pred > 1 {
			ss[i] += fmt.Sprint(s.Pred)
		}
	}
	return strings.Join(ss, ">")
}

// negative cases: damage that every conforming decoder must reject.
func checkUndecodable(c *fw.Ctx, id string, r *rand.Rand) {
	n := 1 + r.Intn(200)
	x := make([]byte, n)
	r.Read(x)
	kind := []string{"adler", "zlib-trunc", "hex-bad", "a85-bad-char", "a85-overflow", "a85-z-inside", "png-tag"}[r.Intn(7)]
	var st *core.Stream
	switch kind {
	case "adler":
		e := filt.Flate(x, 6)
		e[len(e)-1-r.Intn(4)] ^= byte(1 + r.Intn(255))
		st = &core.Stream{Dict: core.Dict{"Filter": core.Name("FlateDecode")}, Data: e}
	case "zlib-trunc":
		// incompressible data, stored deflate blocks: cutting anywhere after the header loses data
		e := filt.Flate(x, 0)
		cut := 2 + r.Intn(len(e)-2-4) // keep header, lose at least the trailer
		st = &core.Stream{Dict: core.Dict{"Filter": core.Name("Fl")}, Data: e[:cut]}
	case "hex-bad":
		e := filt.Hex(x, filt.HexPolicy{}, nil)
		bad := []byte("gGxXzZ!@#$%&*_=+|~?;:,")
		pos := r.Intn(len(e) - 1)
		e[pos] = bad[r.Intn(len(bad))]
		st = &core.Stream{Dict: core.Dict{"Filter": core.Name("ASCIIHexDecode")}, Data: e}
	case "a85-bad-char":
		for len(x)%4 != 0 {
			x = append(x, byte(1+r.Intn(255)))
		}
		for i := 0; i+4 <= len(x); i += 4 { // no zero group (so no 'z')
			x[i] |= 1
		}
		e := filt.A85(x, filt.A85Policy{}, nil)
		bad := []byte{'v', 'w', 'x', 'y', '{', '|', '}', 0x7f, 0x80, 0xff}
		pos := r.Intn(len(e) - 2)
		e[pos] = bad[r.Intn(len(bad))]
		st = &core.Stream{Dict: core.Dict{"Filter": core.Name("A85")}, Data: e}
	case "a85-overflow":
		// a 5-group above 2^32-1: "s8W-!" is exactly 2^32-1, anything above is invalid
		groups := []string{"s8W-\"", "s8W.!", "s8X-!", "s9W-!", "t8W-!", "uuuuu", "s8W-u"}
		pre := filt.A85(x[:len(x)/4*4], filt.A85Policy{}, nil)
		pre = pre[:len(pre)-2]
		e := append(append(pre, groups[r.Intn(len(groups))]...), '~', '>')
		st = &core.Stream{Dict: core.Dict{"Filter": core.Name("ASCII85Decode")}, Data: e}
	case "a85-z-inside":
		e := []byte("!!z!!~>")
		k := 1 + r.Intn(4)
		e = []byte(strings.Repeat("!", k) + "z" + strings.Repeat("!", 5-k) + "~>")
		st = &core.Stream{Dict: core.Dict{"Filter": core.Name("A85")}, Data: e}
	case "png-tag":
		cols, colors := 1+r.Intn(8), 1+r.Intn(3)
		rows := 1 + r.Intn(5)
		raw := make([]byte, rows*cols*colors)
		r.Read(raw)
		rt := make([]int, rows)
		p := filt.PNGPredict(raw, cols, colors, rt)
		p[r.Intn(rows)*(cols*colors+1)] = byte(5 + r.Intn(251))
		st = &core.Stream{Dict: core.Dict{"Filter": core.Name("FlateDecode"),
			"DecodeParms": core.Dict{"Predictor": core.Int(10 + r.Intn(6)), "Columns": core.Int(cols), "Colors": core.Int(colors)}}, Data: filt.Flate(p, 6)}
	}
	// Half of the cases put the faulty stage behind a healthy outer stage of a filter chain
	// (array-form /Filter): the damage is then met in the middle of the chain, not at its start.
	chained := r.Intn(2) == 0
	if chained {
		inner := st.Dict["Filter"]
		fa := core.Array{core.Name([]string{"ASCIIHexDecode", "AHx"}[r.Intn(2)]), inner}
		d := core.Dict{"Filter": fa}
		if dp, ok := st.Dict["DecodeParms"]; ok {
			d["DecodeParms"] = core.Array{core.Null{}, dp}
		}
		st = &core.Stream{Dict: d, Data: filt.Hex(st.Data, filt.HexPolicy{}, nil)}
		kind += "+chained"
	}
	c.Case("neg|"+kind+"|"+hex.EncodeToString(st.Data), true)
	c.Seen("undecodable_kind", kind)
	detail := map[string]any{"kind": kind, "dict": dictString(st.Dict), "encoded_hex": hexShort(st.Data)}
	c.Guard("undecodable", id, detail, func() {
		// The same stream object is asked several times (Decode three times; Decoded() is a raw-data stub in this tree and is not the decoder): an
		// undecodable stream stays undecodable, whatever was asked of it before.
		for call, f := range []func() ([]byte, error){st.Decode, st.Decode, st.Decode} {
			got, err := f()
			c.Count("undecodable_checked", 1)
			if err == nil {
				detail["got_hex"] = hexShort(got)
				detail["call_no"] = call + 1
				c.Fail("", "undecodable-accepted/"+kind, id, fmt.Sprintf("undecodable data (%s) decoded to %d bytes without error on call %d of the same stream", kind, len(got), call+1), detail)
				return
			}
		}
	})
}

var smallAlphabet = []byte{0x00, 0x01, 0x7F, 0x80, 0xFF}

func smallStrings() [][]byte {
	out := [][]byte{{}}
	var rec func(prefix []byte, n int)
	rec = func(prefix []byte, n int) {
		if n == 0 {
			out = append(out, append([]byte{}, prefix...))
			return
		}
		for _, b := range smallAlphabet {
			rec(append(prefix, b), n-1)
		}
	}
	for n := 1; n <= 3; n++ {
		rec(nil, n)
	}
	return out
}

func randomData(r *rand.Rand, max int) []byte {
	n := 0
	switch r.Intn(6) {
	case 0:
		n = r.Intn(16)
	case 1, 2:
		n = r.Intn(600)
	case 3:
		n = r.Intn(9000)
	default:
		n = r.Intn(max + 1)
	}
	x := make([]byte, n)
	switch r.Intn(6) {
	case 0: // all zero
	case 1:
		for i := range x {
			x[i] = 0xff
		}
	case 2: // periodic
		p := 1 + r.Intn(12)
		pat := make([]byte, p)
		r.Read(pat)
		for i := range x {
			x[i] = pat[i%p]
		}
	case 3: // text-like
		for i := range x {
			x[i] = byte(32 + r.Intn(95))
		}
	case 4: // runs of zeros in random (exercises 'z')
		r.Read(x)
		for i := 0; i+8 <= len(x); i += 8 {
			if r.Intn(3) == 0 {
				copy(x[i:i+8], []byte{0, 0, 0, 0, 0, 0, 0, 0})
			}
		}
	default:
		r.Read(x)
	}
	return x
}

// Run is the C05 check.
func Run(c *fw.Ctx) {
	c.Rule("case = (byte string, filter pipeline incl. predictor geometry and per-row PNG filter types, dictionary spelling); " +
		"non-trivial iff the input is non-empty and passes through >= 1 filter (all undecodable-data cases are non-trivial); distinct by hash of pipeline+input")
	c.Assume("reference encoders in harness/ref/filt follow ISO 32000-1 §7.4 and the PNG/TIFF predictor definitions; stdlib compress/zlib is the Flate encoder",
		"undecodable = zlib Adler-32/truncation damage, non-hex byte before EOD, ASCII85 byte outside the alphabet, 5-group above 2^32-1, 'z' inside a group, PNG row tag >= 5")

	// (1) exhaustive small strings x every tiling geometry x predictor kinds, plus ASCII filters and 2-chains
	small := smallStrings()
	type job struct {
		id   string
		x    []byte
		pipe []stage
	}
	var jobs []job
	for si, x := range small {
		if len(x) > 0 {
			for _, g := range geometries(len(x)) {
				for _, pred := range []int{2, 10, 12, 15} {
					jobs = append(jobs, job{fmt.Sprintf("ex:%d:%d:%d:%d", si, g[0], g[1], pred), x,
						[]stage{{Kind: "Fl", Name: "FlateDecode", Pred: pred, Cols: g[0], Colors: g[1], Parms: "dict"}}})
				}
			}
		}
		jobs = append(jobs,
			job{fmt.Sprintf("ex:%d:hex", si), x, []stage{{Kind: "AHx", Name: "ASCIIHexDecode", Parms: "absent"}}},
			job{fmt.Sprintf("ex:%d:a85", si), x, []stage{{Kind: "A85", Name: "ASCII85Decode", Parms: "absent"}}},
			job{fmt.Sprintf("ex:%d:fl", si), x, []stage{{Kind: "Fl", Name: "Fl", Parms: "absent"}}},
			job{fmt.Sprintf("ex:%d:a85fl", si), x, []stage{{Kind: "A85", Name: "A85", Parms: "absent"}, {Kind: "Fl", Name: "FlateDecode", Parms: "null"}}},
			job{fmt.Sprintf("ex:%d:hexa85", si), x, []stage{{Kind: "AHx", Name: "AHx", Parms: "absent"}, {Kind: "A85", Name: "ASCII85Decode", Parms: "absent"}}},
		)
	}
	c.Extra("exhaustive_small_cases", len(jobs))
	c.Parallel(len(jobs), func(i int) {
		j := jobs[i]
		if !c.Want(j.id) {
			return
		}
		checkRoundTrip(c, j.id, j.x, j.pipe, c.Rand(j.id))
	})

	// (2) random strings x random pipelines up to length 3
	n := c.N(6000, 250000)
	maxLen := 65536
	c.Parallel(n, func(i int) {
		id := fmt.Sprintf("rnd:%d", i)
		if !c.Want(id) {
			return
		}
		r := c.Rand("rnd", i)
		ml := maxLen
		if i%8 != 0 {
			ml = 3000
		}
		x := randomData(r, ml)
		np := 1 + r.Intn(3)
		if r.Intn(12) == 0 {
			np = 0
		}
		pipe := make([]stage, np)
		for k := range pipe {
			pipe[k] = randStage(r, []string{"Fl", "Fl", "AHx", "A85"}[r.Intn(4)], len(x))
		}
		// predictor geometry: the innermost (last) stage sees x itself (x is trimmed
		// to tile a random geometry); outer predicting stages get a geometry that
		// tiles the bytes produced by the later stages (chosen in buildStream).
		if np > 0 && pipe[np-1].Pred > 1 {
			cols, colors := 1+r.Intn(64), 1+r.Intn(4)
			pipe[np-1].Cols, pipe[np-1].Colors = cols, colors
			rl := cols * colors
			x = x[:len(x)/rl*rl]
			if len(x) == 0 && r.Intn(4) > 0 {
				x = make([]byte, rl*(1+r.Intn(4)))
				r.Read(x)
			}
		}
		checkRoundTrip(c, id, x, pipe, r)
	})

	// (3) undecodable data
	m := c.N(3000, 60000)
	c.Parallel(m, func(i int) {
		id := fmt.Sprintf("neg:%d", i)
		if !c.Want(id) {
			return
		}
		checkUndecodable(c, id, c.Rand("neg", i))
	})
	// (4) accepted and rejected streams alternating on one goroutine: what a
	// rejected stream leaves behind (scratch rows, pooled buffers, half-applied
	// parameters) must not reach the next, valid one. The valid stream uses a PNG
	// predictor whose first row refers to the (all-zero) row above it.
	mix := c.N(1500, 30000)
	c.Parallel(8, func(w int) {
		for k := w; k < mix; k += 8 {
			id := fmt.Sprintf("mix:%d", k)
			if !c.Want(id) {
				continue
			}
			r := c.Rand("mix", k)
			cols, colors := 1+r.Intn(16), 1+r.Intn(3)
			// rejected: a good first rows, then a row tag >= 5
			rows := 2 + r.Intn(4)
			raw := make([]byte, rows*cols*colors)
			r.Read(raw)
			rt := make([]int, rows)
			for i := range rt {
				rt[i] = r.Intn(5)
			}
			p := filt.PNGPredict(raw, cols, colors, rt)
			p[(1+r.Intn(rows-1))*(cols*colors+1)] = byte(5 + r.Intn(251))
			bad := &core.Stream{Dict: core.Dict{"Filter": core.Name("FlateDecode"),
				"DecodeParms": core.Dict{"Predictor": core.Int(15), "Columns": core.Int(cols), "Colors": core.Int(colors)}}, Data: filt.Flate(p, 6)}
			c.Count("mix_rejected_then_accepted", 1)
			if got, err := bad.Decode(); err == nil {
				c.Fail("", "undecodable-accepted/png-tag", id, fmt.Sprintf("undecodable data (png row tag >= 5) decoded to %d bytes without error", len(got)), nil)
			}
			// accepted: same geometry, every row Up / Average / Paeth
			x := make([]byte, (1+r.Intn(4))*cols*colors)
			r.Read(x)
			pred := []int{12, 13, 14}[r.Intn(3)]
			checkRoundTrip(c, id, x, []stage{{Kind: "Fl", Name: "FlateDecode", Pred: pred, Cols: cols, Colors: colors, Parms: "dict"}}, r)
		}
	})
	ex := false
	c.Exhaustive(ex)
	c.Extra("exhaustive_subspace", "all strings of length <= 3 over {00,01,7F,80,FF} x every (Columns 1..64, Colors 1..4) tiling them x Predictor {2,10,12,15} + ASCIIHex, ASCII85, Flate, A85>Fl, AHx>A85")
}
