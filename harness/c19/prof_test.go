package c19

import (
	"os"
	"testing"

	"verifharness/fw"
)

func TestProf(t *testing.T) {
	os.Setenv("VERIF_DIR", t.TempDir())
	os.Setenv("VERIF_WORK", t.TempDir())
	c := fw.NewCtx("C19", "quick", "exploration")
	Run(c)
	c.Finish()
}
