// Package c19: HTML extraction keeps content; navigation filtering only narrows.
//
// Oracle (token trace, nothing of tabula's exclusion logic is re-implemented):
//
//   - mode None: every token of a content element (heading, paragraph, list
//     item at any depth, table cell, pre/code, blockquote) occurs exactly once
//     and in document order, in Text, Markdown and Document output;
//   - no script/style/comment/attribute token and no raw markup in any output
//     of any mode; the entity-decoded text of a unit equals the generator's
//     decoded text (white-space-free comparison, Text and Document output);
//   - tokens(Aggressive) ⊆seq tokens(Standard) ⊆seq tokens(Explicit) ⊆seq
//     tokens(None) (subsequence relation, all tokens);
//   - protected tokens (far from every exclusion trigger by construction, see
//     gen/htmlw) are present, once, in unchanged order, with unchanged text in
//     every mode;
//   - file, reader and string entry points and the fluent facade return the
//     same token sequence for the same mode; results do not depend on the
//     order in which modes were asked of one Reader (per-mode cache).
//
// Which excludable subtrees a mode actually removes is not asserted.
package c19

import (
	"bytes"
	"fmt"
	"os"
	"path/filepath"
	"runtime/debug"
	"strings"
	"unicode"

	"github.com/tsawler/tabula"
	"github.com/tsawler/tabula/epubdoc"
	"github.com/tsawler/tabula/htmldoc"
	"github.com/tsawler/tabula/model"

	"verifharness/fw"
	"verifharness/gen/epubw"
	"verifharness/gen/htmlw"
)

var modeNames = [4]string{"None", "Explicit", "Standard", "Aggressive"}

var modes = [4]htmldoc.NavigationExclusionMode{
	htmldoc.NavigationExclusionNone, htmldoc.NavigationExclusionExplicit,
	htmldoc.NavigationExclusionStandard, htmldoc.NavigationExclusionAggressive,
}

// output of one (reader, mode): the three views.
type views struct {
	text, md string
	doc      []string // element texts of the model.Document in order (one entry per paragraph / heading / list item / table cell)
}

func (v views) kind(k int) string {
	switch k {
	case 0:
		return v.text
	case 1:
		return v.md
	}
	return strings.Join(v.doc, "\n")
}

var kindNames = [3]string{"Text", "Markdown", "Document"}

func docTexts(d *model.Document) []string {
	var out []string
	if d == nil {
		return out
	}
	for _, p := range d.Pages {
		for _, e := range p.Elements {
			switch x := e.(type) {
			case *model.Paragraph:
				out = append(out, x.Text)
			case *model.Heading:
				out = append(out, x.Text)
			case *model.List:
				for _, it := range x.Items {
					out = append(out, it.Text)
				}
			case *model.Table:
				for _, row := range x.Rows {
					for _, c := range row {
						out = append(out, c.Text)
					}
				}
			default:
				if t, ok := e.(interface{ GetText() string }); ok {
					out = append(out, t.GetText())
				}
			}
		}
	}
	return out
}

func squeeze(s string) string {
	var sb strings.Builder
	for _, r := range s {
		if !unicode.IsSpace(r) {
			sb.WriteRune(r)
		}
	}
	return sb.String()
}

// isSubseq reports whether a is a subsequence of b; if not, the first element of a that cannot be matched.
func isSubseq(a, b []string) (bool, string) {
	j := 0
	for _, x := range a {
		for j < len(b) && b[j] != x {
			j++
		}
		if j == len(b) {
			return false, x
		}
		j++
	}
	return true, ""
}

func equalSeq(a, b []string) bool {
	if len(a) != len(b) {
		return false
	}
	for i := range a {
		if a[i] != b[i] {
			return false
		}
	}
	return true
}

// compareExact compares got (already filtered to the wanted set) with want and
// describes the first discrepancy: missing, duplicated or out of order.
func compareExact(got, want []string) string {
	if equalSeq(got, want) {
		return ""
	}
	cnt := map[string]int{}
	for _, t := range got {
		cnt[t]++
	}
	for _, t := range want {
		if cnt[t] == 0 {
			return "missing " + t
		}
	}
	for _, t := range want {
		if cnt[t] > 1 {
			return fmt.Sprintf("%s returned %d times", t, cnt[t])
		}
	}
	for i := range want {
		if i < len(got) && got[i] != want[i] {
			return fmt.Sprintf("out of order: position %d has %s, document order has %s", i, got[i], want[i])
		}
	}
	return "sequence differs"
}

func filter(seq []string, keep map[string]bool) []string {
	out := make([]string, 0, len(seq))
	for _, t := range seq {
		if keep[t] {
			out = append(out, t)
		}
	}
	return out
}

var markupProbes = []string{"<p", "</", "<div", "<li", "<ul", "<ol", "<td", "<th", "<tr", "<table", "<span", "<a ", "<b>", "<i>", "<em", "<strong",
	"<h1", "<h2", "<h3", "<h4", "<h5", "<h6", "<script", "<style", "<!--", "-->", "<nav", "<pre", "<code", "<blockquote", "<br", "<img", "href=", "class=", "colspan=", "rowspan="}

func rawMarkup(s string) string {
	l := strings.ToLower(s)
	for _, p := range markupProbes {
		if i := strings.Index(l, p); i >= 0 {
			lo, hi := i-20, i+30
			if lo < 0 {
				lo = 0
			}
			if hi > len(s) {
				hi = len(s)
			}
			return s[lo:hi]
		}
	}
	return ""
}

type caseRun struct {
	c      *fw.Ctx
	id     string
	d      *htmlw.Doc
	unit   map[string]*htmlw.Unit
	detail map[string]any
	failed bool
	counts map[string]int64
	seen   map[[2]string]bool
}

// count / see buffer evidence per case (the shared context is mutex-guarded).
func (cr *caseRun) count(k string, n int64) { cr.counts[k] += n }
func (cr *caseRun) see(table, v string)     { cr.seen[[2]string{table, v}] = true }
func (cr *caseRun) flush() {
	for k, n := range cr.counts {
		cr.c.Count(k, n)
	}
	for k := range cr.seen {
		cr.c.Seen(k[0], k[1])
	}
}

func (cr *caseRun) fail(class, what string, extra map[string]any) {
	cr.failed = true
	det := map[string]any{}
	for k, v := range cr.detail {
		det[k] = v
	}
	for k, v := range extra {
		det[k] = v
	}
	cr.c.Fail("", class, cr.id, what, det)
}

func (cr *caseRun) describe(tok string) string {
	u := cr.unit[tok]
	if u == nil {
		return tok + " (unknown token)"
	}
	return fmt.Sprintf("%s (%s unit <%s> at %s, text %q)", tok, u.Role, u.Kind, u.Path, fw.OneLine(u.Decoded, 80))
}

// describeIn replaces the first token mentioned in msg by its description.
func (cr *caseRun) describeIn(msg string) string {
	ts := fw.FindTokens(msg)
	if len(ts) == 0 {
		return msg
	}
	return strings.Replace(msg, ts[0], cr.describe(ts[0]), 1)
}

func kindClass(u *htmlw.Unit) string {
	if u == nil {
		return "?"
	}
	return u.Kind
}

// readAll extracts the three views in all four modes from one Reader, asking
// the modes in the given order (twice for the first one, to hit the cache).
func (cr *caseRun) readAll(r *htmldoc.Reader, order []int, entry string) (res [4]views, ok bool) {
	ok = true
	seq := append(append([]int{}, order...), order[0], order[len(order)-1])
	asked := [4]bool{}
	for _, m := range seq {
		opts := htmldoc.ExtractOptions{NavigationExclusion: modes[m]}
		var v views
		var err error
		if v.text, err = r.TextWithOptions(opts); err != nil {
			cr.fail("error/"+entry, fmt.Sprintf("%s TextWithOptions(%s): %v", entry, modeNames[m], err), nil)
			return res, false
		}
		if v.md, err = r.MarkdownWithOptions(opts); err != nil {
			cr.fail("error/"+entry, fmt.Sprintf("%s MarkdownWithOptions(%s): %v", entry, modeNames[m], err), nil)
			return res, false
		}
		doc, err := r.DocumentWithOptions(opts)
		if err != nil {
			cr.fail("error/"+entry, fmt.Sprintf("%s DocumentWithOptions(%s): %v", entry, modeNames[m], err), nil)
			return res, false
		}
		v.doc = docTexts(doc)
		if asked[m] {
			// second request of the same mode on the same Reader
			for k := 0; k < 3; k++ {
				cr.count("repeat_comparisons", 1)
				if res[m].kind(k) != v.kind(k) {
					cr.fail("repeat/"+kindNames[k], fmt.Sprintf("%s: %s in mode %s differs between the first and a later request on the same Reader (modes asked in order %v)",
						entry, kindNames[k], modeNames[m], seq), map[string]any{"first": fw.OneLine(res[m].kind(k), 600), "later": fw.OneLine(v.kind(k), 600)})
					ok = false
				}
			}
			continue
		}
		asked[m] = true
		res[m] = v
	}
	return res, ok
}

// check runs all oracles on the outputs of one entry point.
func (cr *caseRun) check(entry string, res [4]views, kinds int, content, protected []string, isContent, isProtected map[string]bool) {
	var tokSeq [4][3][]string
	for m := 0; m < 4; m++ {
		for k := 0; k < kinds; k++ {
			out := res[m].kind(k)
			seq := fw.FindTokens(out)
			tokSeq[m][k] = seq
			cr.count("tokens_traced", int64(len(seq)))
			// noise and raw markup
			for _, t := range seq {
				u := cr.unit[t]
				if u == nil {
					cr.fail("unknown-token", fmt.Sprintf("%s %s(%s) contains token %s that the document does not contain", entry, kindNames[k], modeNames[m], t), nil)
				} else if u.Role == htmlw.Noise {
					cr.fail("noise/"+u.Kind, fmt.Sprintf("%s %s(%s) returns %s text: %s", entry, kindNames[k], modeNames[m], u.Kind, cr.describe(t)), nil)
				}
			}
			if frag := rawMarkup(out); frag != "" {
				cr.fail("raw-markup/"+kindNames[k], fmt.Sprintf("%s %s(%s) contains raw markup: %q", entry, kindNames[k], modeNames[m], frag), nil)
			}
			cr.count("outputs_scanned_for_markup", 1)
		}
	}
	// mode None: content exactly once, in document order
	for k := 0; k < kinds; k++ {
		got := filter(tokSeq[0][k], isContent)
		cr.count("exactly_once_checks", int64(len(content)))
		if msg := compareExact(got, content); msg != "" {
			ts := fw.FindTokens(msg)
			kc := "?"
			if len(ts) > 0 {
				kc = kindClass(cr.unit[ts[0]])
			}
			cr.fail("none/"+strings.Fields(msg)[0]+"/"+kc+"/"+kindNames[k],
				fmt.Sprintf("%s %s(None): content token %s", entry, kindNames[k], cr.describeIn(msg)),
				map[string]any{"output": fw.OneLine(res[0].kind(k), 1500)})
		}
	}
	// monotone: each stricter mode is a subsequence of the next weaker one
	for k := 0; k < kinds; k++ {
		for m := 3; m >= 1; m-- {
			cr.count("subsequence_checks", 1)
			if ok, t := isSubseq(tokSeq[m][k], tokSeq[m-1][k]); !ok {
				cr.fail("monotone/"+modeNames[m]+"/"+kindNames[k],
					fmt.Sprintf("%s %s: mode %s returns %s which mode %s does not return at that place (not a subsequence)", entry, kindNames[k], modeNames[m], cr.describe(t), modeNames[m-1]),
					map[string]any{"stricter": strings.Join(tokSeq[m][k], " "), "weaker": strings.Join(tokSeq[m-1][k], " ")})
			}
			if len(tokSeq[m][k]) < len(tokSeq[m-1][k]) {
				cr.count("mode_narrowed/"+modeNames[m], 1)
			}
		}
	}
	// protected content: present once, same order, in every mode
	for m := 0; m < 4; m++ {
		for k := 0; k < kinds; k++ {
			got := filter(tokSeq[m][k], isProtected)
			cr.count("protected_checks", int64(len(protected)))
			if msg := compareExact(got, protected); msg != "" {
				if m == 0 {
					continue // already reported by the mode-None check
				}
				cr.fail("protected/"+modeNames[m]+"/"+strings.Fields(msg)[0]+"/"+kindNames[k],
					fmt.Sprintf("%s %s(%s): protected token %s", entry, kindNames[k], modeNames[m], cr.describeIn(msg)),
					map[string]any{"output": fw.OneLine(res[m].kind(k), 1500)})
			}
		}
	}
	// decoded text: Text and Document views (Markdown adds escapes and quote
	// markers, which the statement does not pin)
	for m := 0; m < 4; m++ {
		sqText := squeeze(res[m].text)
		var sqDoc []string
		for _, e := range res[m].doc {
			sqDoc = append(sqDoc, squeeze(e))
		}
		present := map[string]bool{}
		for _, t := range tokSeq[m][0] {
			present[t] = true
		}
		presentDoc := map[string]bool{}
		for _, t := range tokSeq[m][2] {
			presentDoc[t] = true
		}
		for _, u := range cr.d.Units {
			if !u.Role.IsContent() || (m > 0 && u.Role != htmlw.Protected) {
				continue
			}
			want := squeeze(u.Decoded)
			if present[u.Token] {
				cr.count("decoded_text_comparisons", 1)
				if !strings.Contains(sqText, want) {
					cr.fail("decoded/Text/"+u.Kind, fmt.Sprintf("%s Text(%s): text of %s is not returned as decoded by a conforming parser (white-space-free comparison)", entry, modeNames[m], cr.describe(u.Token)),
						map[string]any{"want": want, "output": fw.OneLine(res[m].text, 1500)})
					break
				}
			}
			if kinds > 2 && presentDoc[u.Token] {
				cr.count("decoded_text_comparisons", 1)
				found := false
				for _, e := range sqDoc {
					if strings.Contains(e, want) {
						found = true
						break
					}
				}
				if !found {
					cr.fail("decoded/Document/"+u.Kind, fmt.Sprintf("%s Document(%s): text of %s is not returned as decoded by a conforming parser inside one element", entry, modeNames[m], cr.describe(u.Token)),
						map[string]any{"want": want})
					break
				}
			}
		}
	}
}

func (cr *caseRun) sameAs(what string, got string, ref [4]views, kind int, allowed []int) {
	seq := fw.FindTokens(got)
	cr.count("entry_point_comparisons", 1)
	var match []string
	for _, m := range allowed {
		if equalSeq(seq, fw.FindTokens(ref[m].kind(kind))) {
			match = append(match, modeNames[m])
		}
	}
	if len(match) == 1 {
		// only an unambiguous match tells which mode the entry point uses
		cr.see("entry_point_mode/"+what, match[0])
	}
	if len(match) > 0 {
		return
	}
	names := []string{}
	for _, m := range allowed {
		names = append(names, modeNames[m])
	}
	ok, t := isSubseq(fw.FindTokens(ref[allowed[0]].kind(kind)), seq)
	hint := ""
	if !ok {
		hint = "; e.g. " + cr.describe(t) + " is not returned"
	}
	cr.fail("entry/"+what, fmt.Sprintf("%s returns a token sequence that differs from htmldoc.OpenReader's for mode(s) %v of the same bytes%s", what, names, hint),
		map[string]any{"got": fw.OneLine(got, 1200)})
}

type prepared struct {
	cr                     *caseRun
	content, protected     []string
	isContent, isProtected map[string]bool
	nExcl                  int
}

// prepare indexes the units of one document (or of the chapters of one book).
func prepare(c *fw.Ctx, id string, docs ...*htmlw.Doc) *prepared {
	all := &htmlw.Doc{}
	for _, d := range docs {
		all.Units = append(all.Units, d.Units...)
	}
	if len(docs) == 1 {
		all = docs[0]
	}
	cr := &caseRun{c: c, id: id, d: all, unit: map[string]*htmlw.Unit{}, counts: map[string]int64{}, seen: map[[2]string]bool{}}
	pr := &prepared{cr: cr, isContent: map[string]bool{}, isProtected: map[string]bool{}}
	for _, u := range all.Units {
		cr.unit[u.Token] = u
		if u.Role.IsContent() {
			pr.isContent[u.Token] = true
			pr.content = append(pr.content, u.Token)
		}
		if u.Role == htmlw.Protected {
			pr.isProtected[u.Token] = true
			pr.protected = append(pr.protected, u.Token)
		}
		if u.Role == htmlw.Excludable {
			pr.nExcl++
		}
		cr.count("units/"+u.Role.String(), 1)
		cr.see("unit_kind/"+u.Role.String(), u.Kind)
	}
	for _, d := range docs {
		for f := range d.Features {
			cr.see("feature", f)
		}
	}
	return pr
}

const opfTemplate = `<?xml version="1.0" encoding="UTF-8"?>
<package xmlns="http://www.idpf.org/2007/opf" version="3.0" unique-identifier="bookid">
<metadata xmlns:dc="http://purl.org/dc/elements/1.1/"><dc:identifier id="bookid">urn:uuid:3c1a1d2e-0000-4000-8000-00000000c019</dc:identifier><dc:title>Generated book</dc:title><dc:language>en</dc:language><meta property="dcterms:modified">2024-01-01T00:00:00Z</meta></metadata>
<manifest>
<item id="nav" href="nav.xhtml" media-type="application/xhtml+xml" properties="nav"/>
%s</manifest>
<spine>
%s</spine>
</package>
`

const navDoc = `<?xml version="1.0" encoding="UTF-8"?>
<!DOCTYPE html>
<html xmlns="http://www.w3.org/1999/xhtml" xmlns:epub="http://www.idpf.org/2007/ops"><head><title>Contents</title></head>
<body><nav epub:type="toc"><ol>%s</ol></nav></body></html>
`

// runEpub: the same property through EPUB chapters. Each chapter is an XHTML
// serialisation (well-formed XML) of a generated tree; the book must return,
// for every mode, the chapters' token sequences one after the other.
func runEpub(c *fw.Ctx, j int) {
	id := fmt.Sprintf("epub:%d", j)
	if !c.Want(id) {
		return
	}
	r := c.Rand("epub", j)
	tk := fw.NewTokens(c.Rand("epub", j, "tok"))
	nch := 2 + r.Intn(2)
	var docs []*htmlw.Doc
	for k := 0; k < nch; k++ {
		d := htmlw.Generate(c.Rand("epub", j, "chapter", k), tk, htmlw.Options{XHTML: true, Blocks: 3 + r.Intn(5)})
		if err := d.Verify(); err != nil {
			c.Count("generator_self_check_failed", 1)
			c.Extra("generator_self_check_first_error", fmt.Sprintf("%s: %v", id, err))
			return
		}
		docs = append(docs, d)
	}
	pr := prepare(c, id, docs...)
	cr := pr.cr
	defer cr.flush()
	excl := 0
	var man, spine, nav strings.Builder
	members := []epubw.Member{{Name: "mimetype", Data: []byte("application/epub+zip"), Store: true},
		{Name: "META-INF/container.xml", Data: epubw.ContainerXML("OEBPS/content.opf")}}
	var chapterMembers []epubw.Member
	htmls := map[string]any{}
	// ghosts: spine entries that yield no chapter (the file is not in the archive, or
	// the idref names no manifest item). They may stand anywhere in the spine; the
	// chapters that do exist are still returned once each, in spine order.
	ghosts := r.Intn(3) == 0
	ghost := func(pos int) {
		if !ghosts || r.Intn(2) == 0 {
			return
		}
		if r.Intn(2) == 0 {
			fmt.Fprintf(&man, "<item id=\"gone%d\" href=\"text/gone%d.xhtml\" media-type=\"application/xhtml+xml\"/>\n", pos, pos)
			fmt.Fprintf(&spine, "<itemref idref=\"gone%d\"/>\n", pos)
			cr.see("feature", "epub-spine-item-file-missing")
		} else {
			fmt.Fprintf(&spine, "<itemref idref=\"nosuchitem%d\"/>\n", pos)
			cr.see("feature", "epub-spine-idref-dangling")
		}
	}
	for k, d := range docs {
		excl += d.Excludable
		name := fmt.Sprintf("text/ch%d.xhtml", k+1)
		ghost(k)
		mt := "application/xhtml+xml"
		if mr := c.Rand("epub", j, "mediatype", k); mr.Intn(5) == 0 { // media type names are case-insensitive (RFC 2045 5.1)
			mt = []string{"Application/XHTML+XML", "application/XHTML+xml", "APPLICATION/xhtml+xml"}[mr.Intn(3)]
			cr.see("feature", "epub-media-type-other-case")
		}
		fmt.Fprintf(&man, "<item id=\"ch%d\" href=\"%s\" media-type=\"%s\"/>\n", k+1, name, mt)
		fmt.Fprintf(&spine, "<itemref idref=\"ch%d\"/>\n", k+1)
		fmt.Fprintf(&nav, "<li><a href=\"%s\">Chapter %d</a></li>", name, k+1)
		chapterMembers = append(chapterMembers, epubw.Member{Name: "OEBPS/" + name, Data: d.HTML})
		htmls[name] = string(d.HTML)
	}
	// the ZIP order of the content documents is not the reading order
	r.Shuffle(len(chapterMembers), func(a, b int) { chapterMembers[a], chapterMembers[b] = chapterMembers[b], chapterMembers[a] })
	members = append(members, epubw.Member{Name: "OEBPS/content.opf", Data: []byte(fmt.Sprintf(opfTemplate, man.String(), spine.String()))},
		epubw.Member{Name: "OEBPS/nav.xhtml", Data: []byte(fmt.Sprintf(navDoc, nav.String()))})
	members = append(members, chapterMembers...)
	book := epubw.Zip(members)
	c.Case("epub|"+string(book), excl >= 1 && len(pr.protected) >= 3)
	cr.detail = map[string]any{"chapters": htmls}
	cr.see("feature", "epub-chapters")

	c.Guard("c19-epub", id, cr.detail, func() {
		// per chapter: what htmldoc returns for the same bytes
		var per [][4]views
		for k, d := range docs {
			rd, err := htmldoc.OpenReader(bytes.NewReader(d.HTML))
			if err != nil {
				cr.fail("error/OpenReader", fmt.Sprintf("htmldoc.OpenReader(chapter %d): %v", k+1, err), nil)
				return
			}
			res, ok := cr.readAll(rd, r.Perm(4), fmt.Sprintf("htmldoc.OpenReader(chapter %d)", k+1))
			if !ok {
				return
			}
			per = append(per, res)
		}
		er, err := epubdoc.OpenReader(bytes.NewReader(book), int64(len(book)))
		if err != nil {
			cr.fail("error/epub", fmt.Sprintf("epubdoc.OpenReader: %v", err), nil)
			return
		}
		defer er.Close()
		var res [4]views
		for _, m := range r.Perm(4) {
			o := epubdoc.ExtractOptions{NavigationExclusion: int(modes[m])}
			if res[m].text, err = er.TextWithOptions(o); err != nil {
				cr.fail("error/epub", fmt.Sprintf("epubdoc TextWithOptions(%s): %v", modeNames[m], err), nil)
				return
			}
			if res[m].md, err = er.MarkdownWithOptions(o); err != nil {
				cr.fail("error/epub", fmt.Sprintf("epubdoc MarkdownWithOptions(%s): %v", modeNames[m], err), nil)
				return
			}
		}
		cr.check("epubdoc.OpenReader", res, 2, pr.content, pr.protected, pr.isContent, pr.isProtected)
		// chapter by chapter, in spine order, same sequences as htmldoc on the chapter bytes
		var concat [4]views
		for m := 0; m < 4; m++ {
			for k := 0; k < 2; k++ {
				var want []string
				for _, p := range per {
					want = append(want, fw.FindTokens(p[m].kind(k))...)
				}
				cr.count("entry_point_comparisons", 1)
				if !equalSeq(fw.FindTokens(res[m].kind(k)), want) {
					cr.fail("entry/epub-vs-html/"+kindNames[k], fmt.Sprintf("epubdoc %s(%s) does not return the chapters' htmldoc token sequences in spine order", kindNames[k], modeNames[m]),
						map[string]any{"epub": strings.Join(fw.FindTokens(res[m].kind(k)), " "), "chapters": strings.Join(want, " ")})
				}
			}
			for _, p := range per {
				concat[m].text += p[m].text + "\n"
				concat[m].md += p[m].md + "\n"
				concat[m].doc = append(concat[m].doc, p[m].doc...)
			}
		}
		if cr.failed {
			return
		}
		any4 := []int{0, 1, 2, 3}
		if dd, err := er.Document(); err != nil {
			cr.fail("error/epub", fmt.Sprintf("epubdoc Document: %v", err), nil)
		} else {
			cr.sameAs("epubdoc.Reader.Document", strings.Join(docTexts(dd), "\n"), concat, 2, any4)
		}
		if t, err := er.Text(); err == nil {
			cr.sameAs("epubdoc.Reader.Text", t, concat, 0, any4)
		}
		path := filepath.Join(c.Work, fmt.Sprintf("c19-%d.epub", j))
		if err := os.WriteFile(path, book, 0o644); err != nil {
			c.Inconclusive("cannot write scratch file: " + err.Error())
			return
		}
		defer os.Remove(path)
		if t, _, err := tabula.Open(path).Text(); err != nil {
			cr.fail("error/facade", fmt.Sprintf("tabula.Open(.epub).Text: %v", err), nil)
		} else {
			cr.sameAs("tabula.Open(epub).Text", t, concat, 0, any4)
		}
		if t, _, err := tabula.Open(path).ToMarkdown(); err != nil {
			cr.fail("error/facade", fmt.Sprintf("tabula.Open(.epub).ToMarkdown: %v", err), nil)
		} else {
			cr.sameAs("tabula.Open(epub).ToMarkdown", t, concat, 1, any4)
		}
	})
}

func runCase(c *fw.Ctx, i int, opt htmlw.Options) {
	id := fmt.Sprintf("doc:%d", i)
	if !c.Want(id) {
		return
	}
	r := c.Rand("doc", i)
	d := htmlw.Generate(r, fw.NewTokens(c.Rand("doc", i, "tok")), opt)
	if err := d.Verify(); err != nil {
		// generator self-check: the independent parser does not build the tree the generator assumed
		c.Count("generator_self_check_failed", 1)
		c.Extra("generator_self_check_first_error", fmt.Sprintf("%s: %v", id, err))
		return
	}
	pr := prepare(c, id, d)
	cr := pr.cr
	defer cr.flush()
	content, protected := pr.content, pr.protected
	nontrivial := d.Excludable >= 1 && len(protected) >= 3
	c.Case(string(d.HTML), nontrivial)
	cr.detail = map[string]any{"html": string(d.HTML), "features": d.FeatureList(), "malformed_allowed": opt.Malformed}
	c.Sample(map[string]any{"id": id, "bytes": len(d.HTML), "content_units": len(content), "protected": len(protected),
		"excludable_units": pr.nExcl, "excludable_subtrees": d.Excludable, "features": d.FeatureList()})

	c.Guard("c19", id, cr.detail, func() {
		// entry point 1: htmldoc.OpenReader
		rd, err := htmldoc.OpenReader(bytes.NewReader(d.HTML))
		if err != nil {
			cr.fail("error/OpenReader", fmt.Sprintf("htmldoc.OpenReader: %v", err), nil)
			return
		}
		order := r.Perm(4)
		res, ok := cr.readAll(rd, order, "htmldoc.OpenReader")
		rd.Close()
		if !ok {
			return
		}
		cr.check("htmldoc.OpenReader", res, 3, pr.content, pr.protected, pr.isContent, pr.isProtected)
		if len(res[3].text) < len(res[0].text) {
			cr.count("docs_where_filtering_removed_text", 1)
		}

		// default-option methods = some mode of the same reader (documented: Standard; the property does not pin which)
		rd2, err := htmldoc.OpenReader(bytes.NewReader(d.HTML))
		if err == nil {
			if t, err := rd2.Text(); err == nil {
				cr.sameAs("htmldoc.Reader.Text()", t, res, 0, []int{0, 1, 2, 3})
			}
			if t, err := rd2.Markdown(); err == nil {
				cr.sameAs("htmldoc.Reader.Markdown()", t, res, 1, []int{0, 1, 2, 3})
			}
			if dd, err := rd2.Document(); err == nil {
				cr.sameAs("htmldoc.Reader.Document()", strings.Join(docTexts(dd), "\n"), res, 2, []int{0, 1, 2, 3})
			}
			rd2.Close()
		}

		// entry point 2: file
		path := filepath.Join(c.Work, fmt.Sprintf("c19-%d.html", i))
		if i%3 == 1 {
			path = filepath.Join(c.Work, fmt.Sprintf("c19-%d.htm", i))
		}
		if err := os.WriteFile(path, d.HTML, 0o644); err != nil {
			c.Inconclusive("cannot write scratch file: " + err.Error())
			return
		}
		defer os.Remove(path)
		rf, err := htmldoc.Open(path)
		if err != nil {
			cr.fail("error/Open", fmt.Sprintf("htmldoc.Open: %v", err), nil)
			return
		}
		order2 := []int{order[3], order[1], order[0], order[2]}
		resF, ok := cr.readAll(rf, order2, "htmldoc.Open")
		rf.Close()
		if !ok {
			return
		}
		for m := 0; m < 4; m++ {
			for k := 0; k < 3; k++ {
				cr.count("entry_point_comparisons", 1)
				if !equalSeq(fw.FindTokens(res[m].kind(k)), fw.FindTokens(resF[m].kind(k))) {
					cr.fail("entry/file-vs-reader/"+kindNames[k], fmt.Sprintf("htmldoc.Open(file) and htmldoc.OpenReader(bytes) return different token sequences for %s in mode %s (modes asked in order %v resp. %v)",
						kindNames[k], modeNames[m], order2, order), map[string]any{"file": fw.OneLine(resF[m].kind(k), 800), "reader": fw.OneLine(res[m].kind(k), 800)})
				}
			}
		}
		if cr.failed {
			// the same defects would be reported again through every facade
			return
		}

		// facade: string, reader, file. The facade does not expose the mode; it
		// must return what one of the modes returns (which one is recorded).
		any4 := []int{0, 1, 2, 3}
		if t, _, err := tabula.FromHTMLString(string(d.HTML)).Text(); err != nil {
			cr.fail("error/facade", fmt.Sprintf("tabula.FromHTMLString.Text: %v", err), nil)
		} else {
			cr.sameAs("tabula.FromHTMLString.Text", t, res, 0, any4)
		}
		if t, _, err := tabula.FromHTMLString(string(d.HTML)).ToMarkdown(); err != nil {
			cr.fail("error/facade", fmt.Sprintf("tabula.FromHTMLString.ToMarkdown: %v", err), nil)
		} else {
			cr.sameAs("tabula.FromHTMLString.ToMarkdown", t, res, 1, any4)
		}
		if dd, _, err := tabula.FromHTMLReader(bytes.NewReader(d.HTML)).Document(); err != nil {
			cr.fail("error/facade", fmt.Sprintf("tabula.FromHTMLReader.Document: %v", err), nil)
		} else {
			cr.sameAs("tabula.FromHTMLReader.Document", strings.Join(docTexts(dd), "\n"), res, 2, any4)
		}
		if t, _, err := tabula.Open(path).Text(); err != nil {
			cr.fail("error/facade", fmt.Sprintf("tabula.Open(%s).Text: %v", filepath.Ext(path), err), nil)
		} else {
			cr.sameAs("tabula.Open(file).Text", t, res, 0, any4)
		}
		if i%2 == 0 {
			if t, _, err := tabula.Open(path).ToMarkdown(); err != nil {
				cr.fail("error/facade", fmt.Sprintf("tabula.Open(%s).ToMarkdown: %v", filepath.Ext(path), err), nil)
			} else {
				cr.sameAs("tabula.Open(file).ToMarkdown", t, res, 1, any4)
			}
		} else {
			if dd, _, err := tabula.Open(path).Document(); err != nil {
				cr.fail("error/facade", fmt.Sprintf("tabula.Open(%s).Document: %v", filepath.Ext(path), err), nil)
			} else {
				cr.sameAs("tabula.Open(file).Document", strings.Join(docTexts(dd), "\n"), res, 2, any4)
			}
		}
	})
}

// fixed small documents: one feature each, so that a defect shows up with a
// short witness on every run.
var fixedDocs = []struct{ name, html string }{
	{"li-p", `<!DOCTYPE html><body><ul><li><p>TOK1 alpha</p></li><li>TOK2 bravo<p>TOK3 charlie</p></li><li><div>TOK4 delta</div></li><li><blockquote>TOK5 echo</blockquote></li></ul><p>TOK6 after</p>`},
	{"table-headerless", `<!DOCTYPE html><body><table><tr><td>TOK1</td><td>TOK2</td></tr><tr><td>TOK3</td><td>TOK4</td></tr></table>`},
	{"table-tfoot", `<!DOCTYPE html><body><table><thead><tr><th>TOK1</th><th>TOK2</th></tr></thead><tbody><tr><td>TOK3</td><td>TOK4</td></tr></tbody><tfoot><tr><td>TOK5</td><td>TOK6</td></tr></tfoot></table>`},
	{"table-spans", `<!DOCTYPE html><body><table><tr><td colspan="2">TOK1</td></tr><tr><td>TOK2</td><td>TOK3</td></tr><tr><td rowspan="2">TOK4</td><td>TOK5</td><td>TOK6</td></tr><tr><td>TOK7</td></tr></table>`},
	{"nested-list", `<!DOCTYPE html><body><ul><li>TOK1<ul><li>TOK2<ol><li>TOK3<ul><li>TOK4</li></ul></li></ol></li><li>TOK5</li></ul></li><li>TOK6</li></ul>`},
	{"entities", `<!DOCTYPE html><body><p>TOK1 &amp;amp; caf&#233; caf&#xE9; &lt; 3 &#x1F600;</p><pre><code>TOK2 a &lt;= b &amp;&amp; c</code></pre><blockquote>TOK3 &ldquo;x&rdquo;</blockquote><h2>TOK4 &copy; &#169;</h2>`},
}

func runFixed(c *fw.Ctx, k int) {
	f := fixedDocs[k]
	id := "fixed:" + f.name
	if !c.Want(id) {
		return
	}
	tk := fw.NewTokens(c.Rand("fixed", k))
	src := f.html
	var want []string
	for n := 1; strings.Contains(src, fmt.Sprintf("TOK%d", n)); n++ {
		t := tk.Next()
		src = strings.Replace(src, fmt.Sprintf("TOK%d", n), t, 1)
		want = append(want, t)
	}
	c.Case(src, false)
	detail := map[string]any{"html": src}
	c.Guard("c19-fixed", id, detail, func() {
		rd, err := htmldoc.OpenReader(strings.NewReader(src))
		if err != nil {
			c.Fail("", "fixed/error", id, err.Error(), detail)
			return
		}
		for m := 0; m < 4; m++ {
			opts := htmldoc.ExtractOptions{NavigationExclusion: modes[m]}
			t, _ := rd.TextWithOptions(opts)
			md, _ := rd.MarkdownWithOptions(opts)
			dd, _ := rd.DocumentWithOptions(opts)
			for kk, out := range []string{t, md, strings.Join(docTexts(dd), "\n")} {
				c.Count("exactly_once_checks", int64(len(want)))
				if msg := compareExact(fw.FindTokens(out), want); msg != "" {
					c.Fail("", "fixed/"+f.name+"/"+kindNames[kk], id, fmt.Sprintf("%s(%s) of the fixed document %q (no excludable markup at all): %s", kindNames[kk], modeNames[m], f.name, msg),
						map[string]any{"html": src, "output": out})
					return // one report per fixed document
				}
			}
		}
	})
}

// Run is the C19 check.
func Run(c *fw.Ctx) {
	c.Rule("case = one generated DOM tree (its HTML bytes) observed in 4 modes x 3 views x file/reader/string/facade entry points; " +
		"non-trivial iff it has >= 1 subtree with an explicit exclusion trigger and >= 3 protected content elements; distinct by hash of the bytes")
	c.Assume("golang.org/x/net/html builds the tree the HTML5 tree-construction algorithm prescribes (the generator's tree is verified against it for every case; mismatching cases are dropped and make the run inconclusive)",
		"content elements = h1-h6, p, li, td/th, pre, blockquote and anything nested inside li/td/blockquote; text of caption, figcaption, dt/dd, summary, address, bare links and div-with-text is 'loose': only monotonicity and noise rules apply to it",
		"protected = no nav/aside/header/footer ancestor, no role attribute and only unrelated class/id names on any ancestor or the element itself (body included), no link inside, and every ancestor either link-free or with at most 30% of its text inside links",
		"the fluent facade does not expose the exclusion mode: its result must equal the htmldoc result of one of the four modes")
	c.Exhaustive(false)
	// allocation-heavy, tiny live heap: collect less often (no effect on any verdict)
	defer debug.SetGCPercent(debug.SetGCPercent(800))

	for k := range fixedDocs {
		runFixed(c, k)
	}
	n := c.N(3000, 80000)
	c.Parallel(n, func(i int) {
		runCase(c, i, htmlw.Options{Malformed: i%2 == 1, XHTML: i%10 == 0})
	})
	ne := c.N(300, 8000)
	c.Parallel(ne, func(j int) { runEpub(c, j) })
	if bad := c.Counter("generator_self_check_failed"); bad > 0 {
		c.Inconclusive(fmt.Sprintf("%d generated documents were not parsed by the independent HTML5 parser into the tree the generator assumed", bad))
	}
	if c.Only == "" && c.Evaluations() > 0 {
		if c.Counter("docs_where_filtering_removed_text") == 0 {
			c.Inconclusive("no document was narrowed by any exclusion mode: the monotonicity oracle observed nothing")
		}
	}
}
