// Package c16: word-processor documents keep their order and structure.
//
// Generator: gen/logical (random interleavings of paragraphs with mixed
// inline items, headings authored in several ways, multi-level lists, tables
// with spans and multi-paragraph cells, header / footer parts) written by the
// independent writers gen/ooxml (DOCX) and gen/odf (ODT).
//
// Oracle (the logical document): in Text(), ToMarkdown(), Document() and the
// format reader's Markdown() every body token occurs exactly once and in
// source order; between two tokens of one paragraph the same non-blank
// characters (symbols, filler), white space where the source has a tab /
// line break / spaces and no tab / line break where it has none; heading
// levels, list depths and the table grid as authored (Markdown read back with
// ref/gfm, model elements inspected directly); header / footer tokens never
// occur.
package c16

import (
	"archive/zip"
	"bytes"
	"fmt"
	"io"
	"os"
	"path/filepath"
	"sort"
	"strings"

	"github.com/tsawler/tabula"
	"github.com/tsawler/tabula/docx"
	"github.com/tsawler/tabula/model"
	"github.com/tsawler/tabula/odt"

	"verifharness/c15"
	"verifharness/fw"
	"verifharness/gen/logical"
	"verifharness/gen/odf"
	"verifharness/gen/ooxml"
)

// finding describes how an open finding is triggered and neutralised.
type finding struct {
	ID      string
	Format  string
	Feature string // format-level trigger feature
	Key     string // writer Neutral key
}

// candidates: every finding this check knows how to attribute. Only those
// listed as open in known_findings.d/C16.json are ever used.
var candidates = []finding{
	{"docx-hyperlink-text-dropped", "docx", "docx.inline=link", "link"},
	{"docx-tracked-insertion-dropped", "docx", "docx.inline=ins", "ins"},
	{"docx-content-control-dropped", "docx", "docx.inline=sdt", "sdt"},
	{"docx-smarttag-dropped", "docx", "docx.inline=smart", "smart"},
	{"docx-block-content-control-dropped", "docx", "docx.block=sdt", "blocksdt"},
	{"odt-mixed-content-reordered", "odt", "odt.inline=mixed", "mixed"},
	{"odt-tab-dropped", "odt", "odt.inline=tab", "tab"},
	{"odt-line-break-dropped", "odt", "odt.inline=break", "break"},
	{"odt-space-element-dropped", "odt", "odt.inline=spaces", "spaces"},
	{"odt-link-text-dropped", "odt", "odt.inline=link", "link"},
	{"odt-nested-span-dropped", "odt", "odt.inline=nest", "nest"},
}

func openFindings(c *fw.Ctx, format string) []finding {
	var out []finding
	for _, f := range candidates {
		if f.Format == format && c.FindingOpen(f.ID) {
			out = append(out, f)
		}
	}
	return out
}

// Profiles -----------------------------------------------------------------

func profile(format string, bias string, big bool) logical.Profile {
	p := logical.Profile{
		MinBlocks: 2, MaxBlocks: 9,
		Tab: true, Break: true, Sym: true, Spaces: true,
		MaxHeadingLevel: 9,
		Lists:           true, ListMaxDepth: 3, ListJumps: true,
		Tables: true, MaxRows: 4, MaxCols: 4, Spans: true, MultiPara: true, EmptyCells: true, CellSpecials: true, HeaderRows: true,
		Pipes: true, XMLChars: true, EmptyParas: true, HeaderFooter: true, Title: true,
		BlockBias: bias, BlockContainers: true,
	}
	if big {
		p.MaxBlocks = 30
		p.MaxRows, p.MaxCols = 6, 6
	}
	switch format {
	case "docx":
		p.Wraps = []string{"link", "ins", "sdt", "smart"}
		p.HeadingHows = []string{"builtin", "builtin", "custom", "basedon", "localized", "outline-style", "outline-direct"}
	case "odt":
		p.Wraps = []string{"link", "nest"}
		p.HeadingHows = []string{"h", "h", "h-custom", "h-nolevelstyle", "h-mismatch", "h-nostyle"}
	}
	return p
}

// writing ------------------------------------------------------------------

type wopts struct {
	pretty, store, colsRepeated bool
	bodyStyle                   int
}

func writeDoc(d *logical.Doc, format string, neutral map[string]bool, w wopts) []byte {
	switch format {
	case "docx":
		return ooxml.WriteDocx(d, ooxml.DocxOptions{Neutral: neutral, Store: w.store, Pretty: w.pretty,
			BodyStyle: []string{"", "Normal", "BodyText"}[w.bodyStyle%3], OutlineKeepsBodyStyle: (w.bodyStyle/3)%2 == 1,
			NSPrefix: []string{"", "", "", "ns0", "wml"}[(w.bodyStyle/6)%5], NumIDZero: w.bodyStyle%4 == 1})
	default:
		return odf.WriteODT(d, odf.Options{Neutral: neutral, Pretty: w.pretty, ColumnsRepeated: w.colsRepeated,
			BodyStyle: []string{"", "Standard", "Text_20_body"}[w.bodyStyle%3]})
	}
}

func triggerFeatures(d *logical.Doc, format string) map[string]bool {
	if format == "docx" {
		return ooxml.DocxFeatures(d)
	}
	return odf.Features(d)
}

// evaluation ---------------------------------------------------------------

type result struct {
	probs  []c15.Problem
	detail map[string]any
}

// evaluate writes the document, runs every entry point and returns the
// failed comparisons.
func evaluate(c *fw.Ctx, id string, d *logical.Doc, format string, neutral map[string]bool, w wopts, count bool) result {
	data := writeDoc(d, format, neutral, w)
	path := filepath.Join(c.Work, strings.NewReplacer(":", "_", "#", "_").Replace(id)+"."+format)
	res := result{detail: map[string]any{"format": format, "document": d.Describe(), "neutral": keys(neutral), "file_bytes": len(data)}}
	if err := os.WriteFile(path, data, 0o644); err != nil {
		res.probs = append(res.probs, c15.Problem{Class: "harness-io", What: err.Error()})
		return res
	}
	defer os.Remove(path)

	units := d.Units()
	sk := logical.SkeletonOf(units)
	foreign := map[string]string{}
	for _, t := range logical.PartTokens(d.Header) {
		foreign[t] = "header"
	}
	for _, t := range logical.PartTokens(d.Footer) {
		foreign[t] = "footer"
	}
	add := func(where string, ps []c15.Problem) {
		for _, p := range ps {
			res.probs = append(res.probs, c15.Problem{Class: where + "/" + p.Class, What: where + ": " + p.What})
		}
	}
	cnt := func(k string, n int) {
		if count {
			c.Count(k, int64(n))
		}
	}

	ok := c.Guard("c16", id, res.detail, func() {
		// 1. plain text
		text, _, err := tabula.Open(path).Text()
		if err != nil {
			add("Text()", []c15.Problem{{Class: "error", What: err.Error()}})
		} else {
			res.detail["text"] = clip(text)
			add("Text()", c15.TraceTokens(text, sk, c15.TraceOpts{Foreign: foreign}))
			cnt("tokens_traced_text", len(sk.Tokens))
			// a plain body paragraph is plain in the text too: the line that holds its first
			// token starts with a word of the paragraph itself, not with a list marker
			lines := strings.Split(text, "\n")
			for bi := range d.Blocks {
				b := &d.Blocks[bi]
				if b.Kind != logical.BPara || b.Para == nil {
					continue
				}
				toks := b.Para.Tokens()
				own := strings.Fields(b.Para.PlainText())
				if len(toks) == 0 || len(own) == 0 {
					continue
				}
				for _, ln := range lines {
					if !strings.Contains(ln, toks[0]) {
						continue
					}
					fs := strings.Fields(ln)
					if len(fs) == 0 {
						break
					}
					okStart := false
					for _, w := range own {
						if strings.HasPrefix(fs[0], w) || strings.HasPrefix(w, fs[0]) {
							okStart = true
							break
						}
					}
					cnt("plain_paragraph_line_starts_checked", 1)
					if !okStart {
						add("Text()", []c15.Problem{{Class: "plain-paragraph-as-list-item", What: fmt.Sprintf("the plain paragraph with token %s is shown as %q: the line starts with %q, which is no word of the paragraph", toks[0], clip(ln), fs[0])}})
					}
					break
				}
			}
		}
		// 1b. with header/footer exclusion requested: the body stays the same
		textX, _, err := tabula.Open(path).ExcludeHeadersAndFooters().Text()
		if err != nil {
			add("ExcludeHeadersAndFooters().Text()", []c15.Problem{{Class: "error", What: err.Error()}})
		} else {
			add("ExcludeHeadersAndFooters().Text()", c15.TraceTokens(textX, sk, c15.TraceOpts{Foreign: foreign, OrderOnly: true}))
		}
		// 2. Markdown through the facade
		md, _, err := tabula.Open(path).ToMarkdown()
		if err != nil {
			add("ToMarkdown()", []c15.Problem{{Class: "error", What: err.Error()}})
		} else {
			res.detail["markdown"] = clip(md)
			add("ToMarkdown()", c15.TraceTokens(md, sk, c15.TraceOpts{Markdown: true, Foreign: foreign}))
			ps, st := c15.CompareMarkdown(d, md, c15.MDOpts{Max: 6, AssertPlain: true})
			add("ToMarkdown()", ps)
			for k, v := range st {
				cnt("md_"+k, v)
			}
			cnt("tokens_traced_markdown", len(sk.Tokens))
		}
		// 3. the format reader's own Markdown()
		var md2 string
		var err2 error
		var doc2 *model.Document
		if format == "docx" {
			r, e := docx.Open(path)
			if e != nil {
				err2 = e
			} else {
				// the same reader first serves filtered views: they must not disturb the plain one
				r.MarkdownWithOptions(docx.ExtractOptions{ExcludeHeaders: true, ExcludeFooters: true})
				r.TextWithOptions(docx.ExtractOptions{ExcludeHeaders: true})
				r.Tables()
				r.ModelTables()
				r.Lists()
				md2, err2 = r.Markdown()
				doc2, _ = r.Document() // the model from a reader that has already rendered Markdown
				r.Close()
			}
		} else {
			r, e := odt.Open(path)
			if e != nil {
				err2 = e
			} else {
				r.MarkdownWithOptions(odt.ExtractOptions{ExcludeHeaders: true, ExcludeFooters: true})
				r.TextWithOptions(odt.ExtractOptions{ExcludeFooters: true})
				r.Tables()
				r.ModelTables()
				r.Lists()
				md2, err2 = r.Markdown()
				doc2, _ = r.Document()
				r.Close()
			}
		}
		if doc2 != nil {
			lin, ps := compareModel(d, units, doc2)
			add("Reader.Document() after Markdown()", c15.TraceTokens(lin, sk, c15.TraceOpts{Foreign: foreign}))
			add("Reader.Document() after Markdown()", ps)
		}
		if err2 != nil {
			add("Reader.Markdown()", []c15.Problem{{Class: "error", What: err2.Error()}})
		} else {
			add("Reader.Markdown()", c15.TraceTokens(md2, sk, c15.TraceOpts{Markdown: true, Foreign: foreign}))
			ps, _ := c15.CompareMarkdown(d, md2, c15.MDOpts{Max: 6, AssertPlain: true})
			add("Reader.Markdown()", ps)
		}
		// 4. document model
		doc, _, err := tabula.Open(path).Document()
		if err != nil {
			add("Document()", []c15.Problem{{Class: "error", What: err.Error()}})
		} else {
			lin, ps := compareModel(d, units, doc)
			res.detail["model"] = clip(lin)
			add("Document()", c15.TraceTokens(lin, sk, c15.TraceOpts{Foreign: foreign}))
			add("Document()", ps)
			cnt("tokens_traced_model", len(sk.Tokens))
		}
	})
	if !ok {
		res.probs = append(res.probs, c15.Problem{Class: "panic", What: "panic (reported separately)"})
	}
	return res
}

func clip(s string) string {
	if len(s) > 1500 {
		return s[:1500] + "…"
	}
	return s
}

func keys(m map[string]bool) []string {
	var out []string
	for k, v := range m {
		if v {
			out = append(out, k)
		}
	}
	sort.Strings(out)
	return out
}

// compareModel linearises the model (element texts in order, table cells in
// row-major order) for the token trace and checks heading levels, list item
// depths and table grids.
func compareModel(d *logical.Doc, units []logical.Unit, doc *model.Document) (string, []c15.Problem) {
	var probs []c15.Problem
	var lin strings.Builder
	type loc struct {
		elem model.Element
		item int
	}
	where := map[string]loc{}
	note := func(text string, l loc) {
		for _, t := range fw.FindTokens(text) {
			if _, dup := where[t]; !dup {
				where[t] = l
			}
		}
	}
	if doc == nil {
		return "", []c15.Problem{{Class: "error", What: "nil document"}}
	}
	for _, pg := range doc.Pages {
		if pg == nil {
			continue
		}
		for _, el := range pg.Elements {
			switch e := el.(type) {
			case *model.Paragraph:
				lin.WriteString(e.Text + "\n")
				note(e.Text, loc{el, -1})
			case *model.Heading:
				lin.WriteString(e.Text + "\n")
				note(e.Text, loc{el, -1})
			case *model.List:
				for i, it := range e.Items {
					lin.WriteString(it.Text + "\n")
					note(it.Text, loc{el, i})
				}
			case *model.Table:
				for _, row := range e.Rows {
					for _, cell := range row {
						lin.WriteString(cell.Text + "\n")
						note(cell.Text, loc{el, -1})
					}
				}
			default:
				if te, ok := el.(interface{ GetText() string }); ok {
					lin.WriteString(te.GetText() + "\n")
				}
			}
		}
	}
	for _, u := range units {
		toks := u.Para.Tokens()
		if len(toks) == 0 {
			continue
		}
		l, ok := where[toks[0]]
		if !ok {
			continue
		}
		switch u.Kind {
		case "heading":
			h, ok := l.elem.(*model.Heading)
			if !ok {
				probs = append(probs, c15.Problem{Class: "heading-not-heading", What: fmt.Sprintf("heading %s (level %d, %s) is a %T in the document model", toks[0], u.Level, u.How, l.elem)})
				continue
			}
			// model.Heading documents "Level 1-6": accept the authored level or its cap at 6
			if h.Level != u.Level && !(u.Level > 6 && h.Level == 6) {
				probs = append(probs, c15.Problem{Class: "heading-level", What: fmt.Sprintf("heading %s authored at level %d (%s) has level %d in the document model", toks[0], u.Level, u.How, h.Level)})
			}
		case "para":
			if h, ok := l.elem.(*model.Heading); ok {
				probs = append(probs, c15.Problem{Class: "para-as-heading", What: fmt.Sprintf("plain paragraph %s is a level-%d heading in the document model", toks[0], h.Level)})
			}
		case "item":
			li, ok := l.elem.(*model.List)
			if !ok {
				probs = append(probs, c15.Problem{Class: "list-item-lost", What: fmt.Sprintf("list item %s (depth %d) is a %T in the document model", toks[0], u.Level, l.elem)})
				continue
			}
			if l.item >= 0 && li.Items[l.item].Level != u.Level {
				probs = append(probs, c15.Problem{Class: "list-depth", What: fmt.Sprintf("list item %s authored at depth %d has Level %d in the document model", toks[0], u.Level, li.Items[l.item].Level)})
			}
		}
	}
	for bi := range d.Blocks {
		if d.Blocks[bi].Kind != logical.BTable {
			continue
		}
		t := d.Blocks[bi].Table
		first := t.FirstToken()
		if first == "" {
			continue
		}
		l, ok := where[first]
		if !ok {
			continue
		}
		mt, ok := l.elem.(*model.Table)
		if !ok {
			probs = append(probs, c15.Problem{Class: "table-not-a-table", What: fmt.Sprintf("table with first token %s is a %T in the document model", first, l.elem)})
			continue
		}
		rows := make([][]string, len(mt.Rows))
		for r := range mt.Rows {
			rows[r] = make([]string, len(mt.Rows[r]))
			for cidx := range mt.Rows[r] {
				rows[r][cidx] = mt.Rows[r][cidx].Text
			}
		}
		ps := c15.CompareGrid(t, rows, first, false)
		probs = append(probs, ps...)
		if len(ps) == 0 {
			// merged regions as authored: the top-left cell carries the spans
			for r := 0; r < t.NRows; r++ {
				for cidx := 0; cidx < t.NCols; cidx++ {
					cell := t.Cells[r][cidx]
					if cell == nil {
						continue
					}
					mc := mt.Rows[r][cidx]
					rs, cs := mc.RowSpan, mc.ColSpan
					if rs < 1 {
						rs = 1
					}
					if cs < 1 {
						cs = 1
					}
					if rs != cell.RowSpan || cs != cell.ColSpan {
						probs = append(probs, c15.Problem{Class: "table-spans", What: fmt.Sprintf("table %s: cell (%d,%d) authored with rowspan %d colspan %d has RowSpan %d ColSpan %d in the document model", first, r, cidx, cell.RowSpan, cell.ColSpan, mc.RowSpan, mc.ColSpan)})
						r = t.NRows
						break
					}
				}
			}
		}
	}
	return lin.String(), probs
}

// non-triviality (DESIGN §9): >= 1 table between paragraphs or >= 1
// paragraph with >= 3 inline kinds.
func nontrivial(d *logical.Doc) bool {
	for i := range d.Blocks {
		if d.Blocks[i].Kind == logical.BTable && i > 0 && i+1 < len(d.Blocks) &&
			d.Blocks[i-1].Kind != logical.BTable && d.Blocks[i+1].Kind != logical.BTable {
			return true
		}
	}
	for _, u := range d.Units() {
		if len(u.Para.ItemKinds()) >= 3 {
			return true
		}
	}
	return false
}

// runCase evaluates one document with known-finding attribution.
func runCase(c *fw.Ctx, id string, d *logical.Doc, format string, clean bool, w wopts) {
	open := openFindings(c, format)
	all := map[string]bool{}
	for _, f := range open {
		all[f.Key] = true
	}
	trig := triggerFeatures(d, format)
	var present []finding
	for _, f := range open {
		if trig[f.Feature] {
			present = append(present, f)
		}
	}
	neutral := map[string]bool{}
	if clean {
		neutral = all
	}
	c.Case(format+"|"+fmt.Sprint(keys(neutral))+"|"+d.Describe(), nontrivial(d))
	for _, f := range d.FeatureList() {
		c.Seen("feature", f)
	}
	for f := range trig {
		if !clean {
			c.Seen("trigger_feature", f)
		}
	}
	c.Seen("format", format)
	c.Seen("clean_half", fmt.Sprint(clean))
	for _, u := range d.Units() {
		c.Seen("unit_kind", u.Kind)
	}
	c.Count("documents", 1)
	c.Count("blocks", int64(len(d.Blocks)))
	c.Sample(map[string]any{"id": id, "format": format, "clean": clean, "features": d.FeatureList(), "blocks": len(d.Blocks)})

	res := evaluate(c, id, d, format, neutral, w, true)
	if len(res.probs) == 0 {
		return
	}
	report := func(fid, caseID string, r result) {
		seen := map[string]bool{}
		for _, p := range r.probs {
			if seen[p.Class] {
				continue
			}
			seen[p.Class] = true
			det := map[string]any{"problems": problemStrings(r.probs)}
			for k, v := range r.detail {
				det[k] = v
			}
			c.Fail(fid, format+"/"+p.Class, caseID, format+" "+p.What, det)
		}
	}
	if clean || len(present) == 0 {
		report("", id, res)
		return
	}
	// counterfactual: the same document with every open finding's trigger neutralised
	resN := evaluate(c, id+"#n", d, format, all, w, false)
	if len(resN.probs) > 0 {
		report("", id+"#n", resN)
		return
	}
	blamed := 0
	for _, f := range present {
		// everything neutral except f: does f alone make the case fail?
		n := map[string]bool{}
		for k := range all {
			if k != f.Key {
				n[k] = true
			}
		}
		rf := evaluate(c, id+"#"+f.Key, d, format, n, w, false)
		if len(rf.probs) > 0 {
			blamed++
			report(f.ID, id, rf)
			c.Count("attributed_"+f.ID, 1)
		}
	}
	if blamed == 0 {
		// only the combination fails: charge every present finding
		for _, f := range present {
			report(f.ID, id, res)
		}
	}
}

func problemStrings(ps []c15.Problem) []string {
	out := make([]string, 0, len(ps))
	for i, p := range ps {
		if i >= 12 {
			out = append(out, fmt.Sprintf("… %d more", len(ps)-i))
			break
		}
		out = append(out, p.What)
	}
	return out
}

// witnessDoc builds the fixed witness document of a finding.
func witnessDoc(f finding, tk *fw.Tokens) *logical.Doc {
	text := func() logical.Item {
		t := tk.Next()
		return logical.Item{Kind: logical.KText, Text: t, Token: t}
	}
	d := &logical.Doc{HasStyles: true, Features: map[string]bool{"witness": true}}
	var p logical.Para
	switch f.Key {
	case "link", "ins", "sdt", "smart", "nest":
		p.Runs = []logical.Run{{Items: []logical.Item{text()}}, {Wrap: f.Key, Items: []logical.Item{text()}}, {Items: []logical.Item{text()}}}
	case "mixed":
		p.Runs = []logical.Run{{Items: []logical.Item{text()}}, {Wrap: "span", Items: []logical.Item{text()}}, {Items: []logical.Item{text()}}}
	case "tab":
		p.Runs = []logical.Run{{Items: []logical.Item{text(), {Kind: logical.KTab}, text()}}}
	case "break":
		p.Runs = []logical.Run{{Items: []logical.Item{text(), {Kind: logical.KBreak}, text()}}}
	case "spaces":
		p.Runs = []logical.Run{{Items: []logical.Item{text(), {Kind: logical.KSpaces, N: 3}, text()}}}
	}
	lead := logical.Para{Runs: []logical.Run{{Items: []logical.Item{text()}}}}
	blk := logical.Block{Kind: logical.BPara, Para: &p}
	if f.Key == "blocksdt" {
		p.Runs = []logical.Run{{Items: []logical.Item{text()}}}
		blk.Wrap = "container"
	}
	tail := logical.Para{Runs: []logical.Run{{Items: []logical.Item{text()}}}}
	d.Blocks = []logical.Block{{Kind: logical.BPara, Para: &lead}, blk, {Kind: logical.BPara, Para: &tail}}
	return d
}

// runDamagedOptionalPart: a conforming DOCX whose optional styles or numbering part
// is cut off / replaced by garbage. A reader may refuse the file; if it reads it,
// the body is still complete and in order (headings and list structure, which
// those parts define, are not judged).
func runDamagedOptionalPart(c *fw.Ctx, i int) {
	id := fmt.Sprintf("dmgpart:%d", i)
	if !c.Want(id) {
		return
	}
	r := c.Rand("dmgpart", i)
	tk := fw.NewTokens(c.Rand("dmgpart", i, "tokens"))
	d := logical.Gen(r, tk, profile("docx", []string{"tables", "", "lists"}[i%3], false))
	data := ooxml.WriteDocx(d, ooxml.DocxOptions{})
	zr, err := zip.NewReader(bytes.NewReader(data), int64(len(data)))
	if err != nil {
		return
	}
	victims := []string{"word/styles.xml", "word/numbering.xml"}
	victim := victims[i%2]
	var members []ooxml.PartMember
	hit := false
	for _, f := range zr.File {
		rc, err := f.Open()
		if err != nil {
			return
		}
		b, _ := io.ReadAll(rc)
		rc.Close()
		if f.Name == victim && len(b) > 60 {
			hit = true
			switch r.Intn(3) {
			case 0:
				b = b[:len(b)/2]
			case 1:
				b = []byte("this is not xml at all \x00\x01")
			default:
				b = append(b[:len(b)/3:len(b)/3], []byte("<w:oops></w:nope>")...)
			}
		}
		members = append(members, ooxml.PartMember{Name: f.Name, Data: b})
	}
	if !hit {
		return
	}
	path := filepath.Join(c.Work, fmt.Sprintf("c16-dmg-%d.docx", i))
	if os.WriteFile(path, ooxml.PartZip(members), 0o644) != nil {
		return
	}
	defer os.Remove(path)
	c.Case(fmt.Sprintf("dmgpart|%d|%s|%s", i, victim, d.Describe()), true)
	c.Seen("damaged_optional_part", victim)
	detail := map[string]any{"damaged_part": victim, "document": clip(d.Describe())}
	sk := logical.SkeletonOf(d.Units())
	c.Guard("c16-damaged-part", id, detail, func() {
		txt, _, err := tabula.Open(path).Text()
		if err != nil {
			c.Count("damaged_optional_part_refused", 1)
			return
		}
		c.Count("damaged_optional_part_read", 1)
		report := func(view, out string, md bool) {
			for _, p := range c15.TraceTokens(out, sk, c15.TraceOpts{Markdown: md, LossOnly: true}) {
				c.Fail("", "damaged-optional-part/"+view+"/"+p.Class, id, fmt.Sprintf("docx with %s damaged, %s: %s", victim, view, p.What), detail)
				return
			}
		}
		report("Text()", txt, false)
		if md, _, err := tabula.Open(path).ToMarkdown(); err == nil {
			report("ToMarkdown()", md, true)
		}
		if doc, _, err := tabula.Open(path).Document(); err == nil && doc != nil {
			lin, _ := compareModel(d, d.Units(), doc)
			report("Document()", lin, false)
		}
	})
}

// Run is the C16 check.
func Run(c *fw.Ctx) {
	c.Rule("case = (logical document, format, writer spelling, neutralised trigger set); non-trivial iff >= 1 table stands between two non-table blocks " +
		"or >= 1 paragraph mixes >= 3 inline kinds (text, tab, break, symbol, spaces, container kinds); distinct by hash of format + neutral set + document description")
	c.Assume("gen/ooxml and gen/odf write only constructs ECMA-376 Part 1 (WordprocessingML) resp. ODF 1.2 allow: w:hyperlink / w:ins / w:sdt / w:smartTag around runs, run children in any order, "+
		"gridSpan + vMerge restart/continue, text:s / text:tab / text:line-break / text:a / nested text:span, number-columns-spanned / number-rows-spanned with covered-table-cell, table-header-rows",
		"Markdown is read back with ref/gfm; list nesting is taken from indentation (weaker than CommonMark's content-column rule)",
		"a paragraph without heading style / outline level must not become a heading (no generated style is bold and >= 14pt, which tabula's documented heuristic treats as a heading)",
		"the text:outline-level attribute of text:h is the authored heading level in ODT (ODF 1.2 §5.1.2); in DOCX the outline level of the paragraph's style chain or its direct w:outlineLvl")

	n := c.N(1500, 50000)
	biases := []string{"", "tables", "inline", "lists", "headings", ""}
	c.Parallel(n, func(i int) {
		id := fmt.Sprintf("doc:%d", i)
		if !(c.Want(id) || strings.HasPrefix(c.Only, id+"#")) {
			return
		}
		format := []string{"docx", "odt"}[i%2]
		if f := os.Getenv("C16_DEV_FORMAT"); f != "" && f != format {
			return // development aid only: look at one format at a time
		}
		clean := (i/2)%2 == 0
		r := c.Rand("doc", i)
		tk := fw.NewTokens(c.Rand("doc", i, "tokens"))
		d := logical.Gen(r, tk, profile(format, biases[(i/4)%len(biases)], i%40 == 39))
		wr := c.Rand("doc", i, "writer")
		w := wopts{pretty: wr.Intn(2) == 0, store: wr.Intn(4) == 0, colsRepeated: wr.Intn(2) == 0, bodyStyle: wr.Intn(30)}
		runCase(c, id, d, format, clean, w)
	})

	c.Parallel(c.N(120, 2000), func(i int) { runDamagedOptionalPart(c, i) })

	// one fixed witness per open finding, so that the KNOWN-FINDING line is
	// printed on every run while the defect exists
	for _, format := range []string{"docx", "odt"} {
		for _, f := range openFindings(c, format) {
			id := "witness:" + f.ID
			if !(c.Want(id) || strings.HasPrefix(c.Only, id+"#")) {
				continue
			}
			tk := fw.NewTokens(fw.RandFor(0, "witness", f.ID))
			runCase(c, id, witnessDoc(f, tk), format, false, wopts{})
		}
	}
	c.Exhaustive(false)
	if c.Only == "" && os.Getenv("C16_DEV_FORMAT") == "" && c.Evaluations() < int64(n) {
		c.Inconclusive("fewer cases executed than planned")
	}
}
