package c11

import "verifharness/fw"

func runOffice(c *fw.Ctx, dir string) {}
