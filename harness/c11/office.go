package c11

import (
	"fmt"
	"math/rand"
	"os"
	"path/filepath"
	"strings"

	"github.com/tsawler/tabula"

	"verifharness/fw"
	"verifharness/gen/logical"
	"verifharness/gen/odf"
	"verifharness/gen/ooxml"
)

// DOCX / ODT: flow documents have no bands. The mechanism the property names
// is "a body paragraph is removed only if it equals a line of a header/footer
// part". Ground truth: every body paragraph is
//   unique      its own token, unrelated to the parts
//   copy        literally equal to a header or footer line (may be removed)
//   near        contains / is contained in such a line but is not equal to it
//               (must stay); taggable near-misses carry an extra unique token
//
// Oracle: (1) tokens with exclusion are a subsequence of the tokens without;
// (2) per token, no more occurrences disappear than there are literal copies
// (the statement does not separate header from footer lines, so a copy of a
// footer line may go under ExcludeHeaders); a unique token never disappears;
// (3) without literal copies in the body the output is unchanged.
// Nothing is required to disappear (clause (4) speaks of pages).

type offPara struct {
	Kind      string // unique | copy | near-<how>
	Container string // para | heading | list | cell
	Text      string
	Tokens    []string
}

type offDoc struct {
	Header, Footer []string // nil = no part
	Body           []offPara
	Features       map[string]bool
}

func plainPara(text string) logical.Para {
	tok := ""
	if t := fw.FindTokens(text); len(t) > 0 {
		tok = t[0]
	}
	return logical.Para{Runs: []logical.Run{{Items: []logical.Item{{Kind: logical.KText, Text: text, Token: tok}}}}}
}

func genOffice(r *rand.Rand) *offDoc {
	d := &offDoc{Features: map[string]bool{}}
	tk := fw.NewTokens(r)
	part := func() []string {
		switch r.Intn(5) {
		case 0:
			return nil
		case 1:
			return []string{phrase(r, tk.Next(), 1+r.Intn(3))}
		default:
			n := 1 + r.Intn(3)
			var out []string
			for i := 0; i < n; i++ {
				out = append(out, phrase(r, tk.Next(), r.Intn(4)))
			}
			return out
		}
	}
	d.Header, d.Footer = part(), part()
	var lines []string
	lines = append(lines, d.Header...)
	lines = append(lines, d.Footer...)
	if d.Header != nil {
		d.Features["part.header"] = true
	}
	if d.Footer != nil {
		d.Features["part.footer"] = true
	}
	// per part line: how the body refers to it
	type use struct {
		line string
		how  string
	}
	var uses []use
	for _, l := range lines {
		switch r.Intn(6) {
		case 0, 1: // not referenced
		case 2:
			uses = append(uses, use{l, "copy"})
			if r.Intn(3) == 0 {
				uses = append(uses, use{l, "copy"})
			}
		case 3:
			uses = append(uses, use{l, "copy"}, use{l, "near-tagged"})
		case 4:
			uses = append(uses, use{l, "near-tagged"})
			if r.Intn(2) == 0 {
				uses = append(uses, use{l, "near-tagged"})
			}
		case 5:
			uses = append(uses, use{l, "near-bare"})
		}
	}
	n := 4 + r.Intn(9)
	for i := 0; i < n; i++ {
		d.Body = append(d.Body, offPara{Kind: "unique", Text: phrase(r, tk.Next(), 1+r.Intn(6))})
	}
	for _, u := range uses {
		p := offPara{Kind: u.how}
		switch u.how {
		case "copy":
			p.Text = u.line
		case "near-tagged": // the line plus something, with its own token
			extra := tk.Next()
			switch r.Intn(4) {
			case 0:
				p.Text = u.line + " " + extra
			case 1:
				p.Text = extra + " " + u.line
			case 2:
				p.Text = strings.ToUpper(u.line[:1]) + u.line[1:] + " " + extra
			default:
				p.Text = u.line + ". " + extra
			}
		case "near-bare": // differs from the line without room for another token
			w := strings.Fields(u.line)
			switch k := r.Intn(4); {
			case k == 0 && len(w) > 1:
				p.Text = strings.Join(w[:len(w)-1], " ") // strict prefix … may drop the token, fine
			case k == 1:
				p.Text = u.line + "."
			case k == 2:
				p.Text = strings.ToUpper(u.line)
			default:
				p.Text = u.line + " " + words[r.Intn(len(words))]
			}
			if p.Text == u.line || strings.TrimSpace(p.Text) == "" {
				p.Text = u.line + " also"
			}
		}
		d.Features["body."+u.how] = true
		pos := r.Intn(len(d.Body) + 1)
		d.Body = append(d.Body[:pos], append([]offPara{p}, d.Body[pos:]...)...)
	}
	for i := range d.Body {
		p := &d.Body[i]
		p.Tokens = fw.FindTokens(strings.ToLower(p.Text))
		p.Container = []string{"para", "para", "para", "para", "heading", "list"}[r.Intn(6)]
		d.Features["container."+p.Container] = true
	}
	return d
}

func (d *offDoc) logical(r *rand.Rand) *logical.Doc {
	ld := &logical.Doc{HasStyles: r.Intn(2) == 0}
	for _, l := range d.Header {
		ld.Header = append(ld.Header, plainPara(l))
	}
	for _, l := range d.Footer {
		ld.Footer = append(ld.Footer, plainPara(l))
	}
	for i := 0; i < len(d.Body); i++ {
		p := d.Body[i]
		pp := plainPara(p.Text)
		switch p.Container {
		case "heading":
			ld.Blocks = append(ld.Blocks, logical.Block{Kind: logical.BHeading, Heading: &logical.Heading{Level: 1 + r.Intn(3), How: "builtin", Para: pp}})
		case "list":
			l := &logical.List{}
			l.Items = append(l.Items, logical.ListItem{Para: pp})
			ld.Blocks = append(ld.Blocks, logical.Block{Kind: logical.BList, List: l})
		default:
			ld.Blocks = append(ld.Blocks, logical.Block{Kind: logical.BPara, Para: &pp})
		}
	}
	return ld
}

func (d *offDoc) describe() []string {
	var out []string
	for _, l := range d.Header {
		out = append(out, fmt.Sprintf("header line %q", l))
	}
	for _, l := range d.Footer {
		out = append(out, fmt.Sprintf("footer line %q", l))
	}
	for _, p := range d.Body {
		out = append(out, fmt.Sprintf("body %s/%s %q", p.Kind, p.Container, p.Text))
	}
	return out
}

func officeView(path, mode, api string) (string, error) {
	e := applyMode(tabula.Open(path), mode)
	defer e.Close()
	if api == "Markdown" {
		s, _, err := e.ToMarkdown()
		return s, err
	}
	s, _, err := e.Text()
	return s, err
}

func runOfficeCase(c *fw.Ctx, dir string, i int) {
	id := fmt.Sprintf("office:%d", i)
	if !c.Want(id) {
		return
	}
	r := c.Rand("office", i)
	d := genOffice(r)
	ld := d.logical(r)
	format := []string{"docx", "odt"}[i%2]
	var data []byte
	if format == "docx" {
		data = ooxml.WriteDocx(ld, ooxml.DocxOptions{Store: r.Intn(4) == 0, Pretty: r.Intn(3) == 0})
	} else {
		ld2 := *ld
		for bi := range ld2.Blocks { // ODT heading spelling
			if ld2.Blocks[bi].Kind == logical.BHeading {
				h := *ld2.Blocks[bi].Heading
				h.How = "h"
				ld2.Blocks[bi].Heading = &h
			}
		}
		data = odf.WriteODT(&ld2, odf.Options{Pretty: r.Intn(3) == 0})
	}
	path := filepath.Join(dir, fmt.Sprintf("o%06d.%s", i, format))
	if err := os.WriteFile(path, data, 0o644); err != nil {
		c.Inconclusive("cannot write scratch file: " + err.Error())
		return
	}
	defer os.Remove(path)
	copies := map[string]int{} // token -> literal copies carrying it
	exp := map[string]int{}
	nCopies := 0
	for _, p := range d.Body {
		for _, t := range p.Tokens {
			exp[t]++
			if p.Kind == "copy" {
				copies[t]++
			}
		}
		if p.Kind == "copy" {
			nCopies++
		}
	}
	c.Case(format+"|"+strings.Join(d.describe(), "|"), (d.Header != nil || d.Footer != nil) && nCopies > 0)
	c.Seen("office_format", format)
	for f := range d.Features {
		c.Seen("office_feature", f)
	}
	detail := map[string]any{"format": format, "document": d.describe()}
	for _, api := range []string{"Text", "Markdown"} {
		var base string
		var berr error
		if !c.Guard("office", id, detail, func() { base, berr = officeView(path, "", api) }) || berr != nil {
			c.Count("office_baseline_error", 1)
			continue
		}
		U := fw.FindTokens(strings.ToLower(base))
		cu := counts(U)
		okBase := true
		for t, n := range cu {
			if n > exp[t] {
				okBase = false
			}
		}
		if !okBase {
			c.Count("office_baseline_mismatch", 1)
			continue
		}
		for _, mode := range []string{"H", "F", "HF", "H+F"} {
			mode := mode
			c.Guard("office", id, detail, func() {
				got, err := officeView(path, mode, api)
				c.Count("office_comparisons", 1)
				cls := fmt.Sprintf("office/%s/%s/", format, api)
				if err != nil {
					c.Fail("", cls+"error", id, fmt.Sprintf("%s %s under %s fails with exclusion only: %v", format, api, mode, err), detail)
					return
				}
				F := fw.FindTokens(strings.ToLower(got))
				cf := counts(F)
				c.Count("office_tokens_compared", int64(len(U)))
				c.Count("office_tokens_deleted", int64(len(U)-len(F)))
				if !isSubsequence(F, U) {
					c.Fail("", cls+"not-subsequence", id, fmt.Sprintf("%s %s under %s: tokens with exclusion are not a subsequence of the tokens without: %s vs %s", format, api, mode, short(F), short(U)), detail)
					return
				}
				for t, n := range cu {
					if del := n - cf[t]; del > copies[t] {
						c.Fail("", cls+"deleted-non-copy", id, fmt.Sprintf("%s %s under %s: %d paragraph(s) with token %s disappeared but only %d body paragraph(s) equal a header/footer line", format, api, mode, del, t, copies[t]), detail)
						return
					}
				}
				if nCopies == 0 && got != base {
					c.Fail("", cls+"changed-without-copies", id, fmt.Sprintf("%s %s under %s: output changed although no body paragraph equals a header/footer line", format, api, mode), detail)
				}
			})
		}
	}
}

func runOffice(c *fw.Ctx, dir string) {
	n := c.N(600, 8000)
	c.Parallel(n, func(i int) { runOfficeCase(c, dir, i) })
	m := c.N(300, 4000)
	c.Parallel(m, func(i int) { runPptxCase(c, dir, i) })
}
