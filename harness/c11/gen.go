package c11

import (
	"fmt"
	"math/rand"
	"sort"
	"strings"

	"verifharness/fw"
	"verifharness/gen/pdfw"
)

// band of the page box a unit lies in. The bands are the top and bottom 72 pt
// of the page box; generated marginal text lies completely inside a band
// (baseline 20..58 pt from the edge, size <= 11) and body text lies >= 100 pt
// from either edge, so no unit is borderline.
const (
	bandTop    = "top"
	bandBottom = "bottom"
	bandBody   = "body"
)

// unit is one text unit of the ground truth: one shown string (one Tj), or,
// in a character-level document, the run of single-character strings that
// spell it.
type unit struct {
	Page   int // 0-based
	Role   string
	Band   string
	X, Y   float64 // baseline origin
	Size   float64
	Text   string
	Series string // id of the running series the unit belongs to ("" = none)

	// derived by classify()
	Atoms     []string
	Repeats   bool // same literal text at the same position of the same band on >= 2 pages
	PageNum   bool // marginal text that is a page number in one of the five styles
	Deletable bool // Band != body && (Repeats || PageNum)
	Must      bool // must be removed: present at that marginal position on every page / running page number on every page
}

type docSpec struct {
	NPages    int
	W, H      []float64
	Units     []unit
	CharLevel bool
	Features  map[string]bool
	Total     int // N of "n of N"
	// UserUnit (0 = absent): 1.1 or 1.2 keep every marginal baseline (<= 58 units
	// from the edge) inside the 72 pt band in user units *and* in physical points,
	// and the body (>= 100 units) outside both, so no case becomes borderline
	UserUnit float64
	// Ghost (0 = none): an additional, unreadable page stands at this 1-based
	// position of the file; the logical pages keep their content and follow it
	Ghost int
}

// phys maps a logical 1-based page number to the page number in the file.
func (d *docSpec) phys(p int) int {
	if d.Ghost > 0 && p >= d.Ghost {
		return p + 1
	}
	return p
}

func (d *docSpec) feat(f string) { d.Features[f] = true }

func (d *docSpec) featureList() []string {
	var out []string
	for f := range d.Features {
		out = append(out, f)
	}
	sort.Strings(out)
	return out
}

// Helvetica advance widths (Adobe core-14 AFM), 1/1000 em, for the characters
// the generator uses. Only used to right-align / centre strings and to place
// the characters of character-level documents.
var helv = map[byte]int{
	' ': 278, '-': 333, '/': 278, '.': 278, 'P': 667,
	'0': 556, '1': 556, '2': 556, '3': 556, '4': 556, '5': 556, '6': 556, '7': 556, '8': 556, '9': 556,
	'a': 556, 'b': 556, 'c': 500, 'd': 556, 'e': 556, 'f': 278, 'g': 556, 'h': 556, 'i': 222, 'j': 222,
	'k': 500, 'l': 222, 'm': 833, 'n': 556, 'o': 556, 'p': 556, 'q': 556, 'r': 333, 's': 500, 't': 278,
	'u': 556, 'v': 500, 'w': 722, 'x': 500, 'y': 500, 'z': 500,
}

func textWidth(s string, size float64) float64 {
	w := 0
	for i := 0; i < len(s); i++ {
		cw, ok := helv[s[i]]
		if !ok {
			cw = 556
		}
		w += cw
	}
	return float64(w) * size / 1000
}

// filler words: no 'q', no digits.
var words = []string{"annual", "report", "summary", "river", "stone", "market", "window", "garden", "letter", "method",
	"result", "figure", "winter", "bridge", "signal", "theory", "harbour", "candle", "meadow", "copper", "island", "violet"}

func phrase(r *rand.Rand, tok string, n int) string {
	parts := []string{tok}
	for i := 0; i < n; i++ {
		parts = append(parts, words[r.Intn(len(words))])
	}
	if n > 0 && r.Intn(3) == 0 { // token not always first
		k := 1 + r.Intn(n)
		parts[0], parts[k] = parts[k], parts[0]
	}
	return strings.Join(parts, " ")
}

var pnStyles = []string{"n", "Page n", "- n -", "n of N", "n/N"}

func pageNumText(style string, n, total int) string {
	switch style {
	case "n":
		return fmt.Sprint(n)
	case "Page n":
		return fmt.Sprintf("Page %d", n)
	case "- n -":
		return fmt.Sprintf("- %d -", n)
	case "n of N":
		return fmt.Sprintf("%d of %d", n, total)
	case "n/N":
		return fmt.Sprintf("%d/%d", n, total)
	}
	panic("style")
}

// alignX returns the x origin for text aligned left / centre / right inside
// the 72 pt side margins of a page of width w.
func alignX(align string, w float64, text string, size float64) float64 {
	switch align {
	case "left":
		return 72
	case "center":
		return (w - textWidth(text, size)) / 2
	default:
		return w - 72 - textWidth(text, size)
	}
}

// fromEdge converts a distance of the baseline from the band's page edge into y.
func fromEdge(band string, h, d float64) float64 {
	if band == bandTop {
		return h - d
	}
	return d
}

type genOpts struct {
	// Neutral switches off generator features (counterfactual attribution of
	// known findings); nil = nothing neutralised.
	Neutral map[string]bool
	// NumericRun: the first two body lines of every page are bare numbers (each a
	// paragraph of its own under most leadings: two consecutive number-only
	// paragraphs, which list detection takes for a numbered list)
	NumericRun bool
}

// genDoc draws a document. All randomness comes from r, and neutralising a
// feature does not disturb the other draws (every feature draws its numbers
// whether or not it is used).
func genDoc(r *rand.Rand, o genOpts) *docSpec {
	d := &docSpec{Features: map[string]bool{}}
	tk := fw.NewTokens(r)
	if uu := []float64{0, 0, 0, 0, 0, 0, 1.1, 1.2}[r.Intn(8)]; uu != 0 {
		d.UserUnit = uu
		d.feat("page.userunit")
	}
	switch k := r.Intn(100); {
	case k < 7:
		d.NPages = 1
	case k < 22:
		d.NPages = 2
	case k < 40:
		d.NPages = 3
	default:
		d.NPages = 4 + r.Intn(9)
	}
	sizes := [][2]float64{{612, 792}, {595, 842}, {500, 700}, {792, 612}, {612, 1008}}
	base := sizes[r.Intn(len(sizes))]
	mixed := r.Intn(8) == 0
	for p := 0; p < d.NPages; p++ {
		s := base
		if mixed && r.Intn(2) == 0 {
			// same width, different height: the x of centred / right-aligned
			// marginal lines stays identical, so "same position" is never borderline
			s = [2]float64{base[0], []float64{612, 700, 792, 842, 1008}[r.Intn(5)]}
		}
		d.W = append(d.W, s[0])
		d.H = append(d.H, s[1])
	}
	if mixed && d.NPages > 1 {
		d.feat("page.mixed-size")
	}
	d.CharLevel = r.Intn(8) == 0
	if d.CharLevel {
		d.feat("page.char-level")
	}
	nextNum := 1000 + r.Intn(500)
	uniqueNum := func() int { nextNum += 1 + r.Intn(40); return nextNum }

	// occupied baselines per band (distance from edge), so that different
	// marginal series never share a baseline unless intended
	freeDists := map[string][]float64{
		bandTop:    {30, 44, 58},
		bandBottom: {24, 38, 52},
	}
	for _, b := range []string{bandTop, bandBottom} {
		ds := freeDists[b]
		r.Shuffle(len(ds), func(i, j int) { ds[i], ds[j] = ds[j], ds[i] })
	}
	takeDist := func(band string) (float64, bool) {
		ds := freeDists[band]
		if len(ds) == 0 {
			return 0, false
		}
		freeDists[band] = ds[1:]
		return ds[0], true
	}

	add := func(u unit) { d.Units = append(d.Units, u) }

	// --- running header / footer text -------------------------------------
	var runningTexts []string // literal texts of running lines (for body copies)
	for _, band := range []string{bandTop, bandBottom} {
		kind := []string{"none", "run", "run", "run", "oddeven", "some", "run2"}[r.Intn(7)]
		size := []float64{8, 9, 10, 11}[r.Intn(4)]
		align := []string{"left", "center", "right"}[r.Intn(3)]
		tA, tB, tC := phrase(r, tk.Next(), 1+r.Intn(3)), phrase(r, tk.Next(), 1+r.Intn(3)), phrase(r, tk.Next(), r.Intn(2))
		withYear := r.Intn(5) == 0
		year := 1990 + r.Intn(40)
		somePages := map[int]bool{}
		for p := 0; p < d.NPages; p++ {
			if r.Intn(3) == 0 {
				somePages[p] = true
			}
		}
		skipFirst := r.Intn(6) == 0
		if kind == "none" {
			continue
		}
		dist, ok := takeDist(band)
		if !ok {
			continue
		}
		if withYear { // digits inside a running line (identical on every page)
			tA = fmt.Sprintf("%s %d", tA, year)
			d.feat("running.has-digits")
			if year%2 == 0 {
				// two numbers that follow one another, the same on every page: a release,
				// a span of years, a date
				tA = []string{fmt.Sprintf("%s Release %d.%d", tA, year%7+1, year%7+2), fmt.Sprintf("%s-%d", tA, year+1), fmt.Sprintf("%s 0%d/0%d", tA, year%8+1, year%8+2)}[year/2%3]
				d.feat("running.has-consecutive-numbers")
			}
		}
		if !withYear && (kind == "run" || kind == "run2") && r.Intn(6) == 0 {
			// a very short running line: a section sign (one WinAnsi byte, two bytes in
			// UTF-8) and a number that is the same on every page, e.g. "§1234"
			tA = fmt.Sprintf("\xa7%d", uniqueNum())
			d.feat("running.short-non-ascii")
		}
		name := map[string]string{bandTop: "hdr", bandBottom: "ftr"}[band]
		d.feat(name + "." + kind)
		d.feat(name + ".align-" + align)
		for p := 0; p < d.NPages; p++ {
			h, w := d.H[p], d.W[p]
			switch kind {
			case "run", "run2":
				if skipFirst && p == 0 && d.NPages > 2 {
					d.feat(name + ".skip-first")
					continue
				}
				add(unit{Page: p, Role: name + "-run", Band: band, X: alignX(align, w, tA, size), Y: fromEdge(band, h, dist), Size: size, Text: tA, Series: name + "A"})
				if kind == "run2" && align != "center" { // second fragment on the same baseline at the other side
					other := map[string]string{"left": "right", "right": "left"}[align]
					add(unit{Page: p, Role: name + "-run", Band: band, X: alignX(other, w, tC, size), Y: fromEdge(band, h, dist), Size: size, Text: tC, Series: name + "C"})
				}
			case "oddeven":
				t, al := tA, "left"
				if p%2 == 1 {
					t, al = tB, "right"
					if year%3 == 0 { // a mirrored running title: the same text, outer side of each page
						t = tA
						d.feat(name + ".mirrored")
					}
				}
				if align == "center" {
					al = "center"
				}
				add(unit{Page: p, Role: name + "-oddeven", Band: band, X: alignX(al, w, t, size), Y: fromEdge(band, h, dist), Size: size, Text: t, Series: name + "OE"})
			case "some":
				if somePages[p] {
					add(unit{Page: p, Role: name + "-some", Band: band, X: alignX(align, w, tA, size), Y: fromEdge(band, h, dist), Size: size, Text: tA, Series: name + "S"})
				}
			}
		}
		if kind == "run" || kind == "run2" {
			runningTexts = append(runningTexts, tA)
		}
	}

	// --- page numbers ---------------------------------------------------------
	{
		kind := []string{"none", "all", "all", "all", "all", "alternate", "skipfirst"}[r.Intn(7)]
		style := pnStyles[r.Intn(len(pnStyles))]
		band := []string{bandBottom, bandBottom, bandTop}[r.Intn(3)]
		align := []string{"left", "center", "center", "right"}[r.Intn(4)]
		size := []float64{8, 9, 10}[r.Intn(3)]
		start := 1
		if r.Intn(4) == 0 {
			start = 2 + r.Intn(90)
		}
		d.Total = start + d.NPages - 1
		if o.Neutral["pn.alternate"] && kind == "alternate" {
			kind = "all"
		}
		if kind != "none" {
			if dist, ok := takeDist(band); ok {
				d.feat("pn." + kind)
				d.feat("pn.style=" + style)
				d.feat("pn.band-" + band)
				if start != 1 {
					d.feat("pn.offset-start")
				}
				for p := 0; p < d.NPages; p++ {
					if kind == "skipfirst" && p == 0 {
						continue
					}
					al := align
					if kind == "alternate" { // outer margin: right on odd (1st, 3rd …), left on even pages
						al = []string{"right", "left"}[p%2]
					}
					t := pageNumText(style, start+p, d.Total)
					if style == "Page n" { // the word in another letter case is the same running page number
						switch d.Total % 3 {
						case 1:
							t = strings.ToUpper(t)
							d.feat("pn.word-upper-case")
						case 2:
							t = strings.ToLower(t)
							d.feat("pn.word-lower-case")
						}
					}
					add(unit{Page: p, Role: "pagenum", Band: band, X: alignX(al, d.W[p], t, size), Y: fromEdge(band, d.H[p], dist), Size: size, Text: t, Series: "pn-" + kind})
				}
			}
		}
	}

	// --- unique marginal lines (chapter title on one page, a draft stamp …) ----
	for _, band := range []string{bandTop, bandBottom} {
		want := r.Intn(3) == 0
		page := r.Intn(d.NPages)
		t := phrase(r, tk.Next(), 1+r.Intn(2))
		size := []float64{8, 9, 10}[r.Intn(3)]
		align := []string{"left", "center", "right"}[r.Intn(3)]
		if !want {
			continue
		}
		if dist, ok := takeDist(band); ok {
			d.feat("margin.unique-" + band)
			add(unit{Page: page, Role: "margin-unique", Band: band, X: alignX(align, d.W[page], t, size), Y: fromEdge(band, d.H[page], dist), Size: size, Text: t})
		}
	}

	// --- the running text once more, elsewhere in the same band of one page ------
	// (e.g. the title high on the title page): it does not repeat at *that*
	// position, so it has to stay.
	{
		want := r.Intn(8) == 0
		page := r.Intn(d.NPages)
		pick := r.Intn(4)
		align := []string{"left", "center", "right"}[r.Intn(3)]
		var runs []*unit
		for i := range d.Units {
			if u := &d.Units[i]; u.Page == page && (u.Role == "hdr-run" || u.Role == "ftr-run") {
				runs = append(runs, u)
			}
		}
		if want && len(runs) > 0 && !o.Neutral["margin.copy-elsewhere"] {
			src := *runs[pick%len(runs)]
			if dist, ok := takeDist(src.Band); ok {
				x := alignX(align, d.W[page], src.Text, src.Size)
				if x > src.X-40 && x < src.X+40 { // clearly elsewhere, also horizontally
					x = src.X + 60
				}
				d.feat("margin.copy-elsewhere")
				add(unit{Page: page, Role: "margin-copy-elsewhere", Band: src.Band, X: x, Y: fromEdge(src.Band, d.H[page], dist), Size: src.Size, Text: src.Text})
			}
		}
	}

	// --- body -------------------------------------------------------------------
	repeatBody := r.Intn(5) == 0 // a body line that is identical on every page, at the same place
	repeatText := phrase(r, tk.Next(), 2)
	numericRepeat := r.Intn(10) == 0 // … or an identical purely numeric body line on every page
	numericRepeatText := fmt.Sprint(uniqueNum())
	bodySize := []float64{10, 11, 12}[r.Intn(3)]
	for p := 0; p < d.NPages; p++ {
		h := d.H[p]
		mode := []string{"full", "full", "top", "bottom", "ends", "edge"}[r.Intn(6)]
		lead := bodySize + float64(3+r.Intn(14))
		hi := h - 100 - bodySize // highest allowed baseline (glyph box top = h-100)
		lo := 100.0              // lowest allowed baseline
		var ys []float64
		n := 1 + r.Intn(8)
		switch mode {
		case "full":
			for y, k := hi-float64(r.Intn(60)), 0; y >= lo && k < n; y, k = y-lead, k+1 {
				ys = append(ys, y)
			}
		case "top": // short page: content ends well above the middle
			n = 1 + r.Intn(3)
			for y, k := hi, 0; y >= lo && k < n; y, k = y-lead, k+1 {
				ys = append(ys, y)
			}
		case "bottom": // body only just above the bottom band
			n = 1 + r.Intn(3)
			for k := n - 1; k >= 0; k-- {
				ys = append(ys, lo+float64(k)*lead)
			}
		case "ends", "edge": // lines at both inner edges of the body area
			ys = append(ys, hi)
			if mode == "edge" {
				ys = append(ys, hi-lead)
			}
			ys = append(ys, h/2)
			if mode == "edge" {
				ys = append(ys, lo+lead)
			}
			ys = append(ys, lo)
		}
		d.feat("body." + mode)
		for li, y := range ys {
			u := unit{Page: p, Role: "body", Band: bandBody, X: 72, Y: y, Size: bodySize}
			switch k := r.Intn(20); {
			case k < 4: // purely numeric body line
				u.Role, u.Text = "body-numeric", fmt.Sprint(uniqueNum())
			case k == 4: // body line that looks like a page number in another style
				u.Role = "body-numeric"
				u.Text = pageNumText(pnStyles[1+r.Intn(2)], uniqueNum(), 0)
			case k == 5 && len(runningTexts) > 0: // the running header/footer text itself, in the body
				u.Role, u.Text = "body-copy", runningTexts[r.Intn(len(runningTexts))]
			default:
				u.Text = phrase(r, tk.Next(), 1+r.Intn(5))
			}
			if o.NumericRun && li < 2 && u.Role == "body" {
				u.Role, u.Text = "body-numeric", fmt.Sprint(uniqueNum())
				d.feat("body.numeric-run")
			}
			if repeatBody && li == len(ys)/2 {
				u.Role, u.Text = "body-repeat", repeatText
			} else if numericRepeat && li == len(ys)/2 {
				u.Role, u.Text = "body-repeat-numeric", numericRepeatText
			}
			d.feat("role." + u.Role)
			add(u)
		}
	}
	classify(d)
	return d
}

// classify derives the ground-truth predicates of every unit.
func classify(d *docSpec) {
	type key struct {
		band, text string
		x, dist    int
	}
	pagesAt := map[key]map[int]bool{}
	kf := func(u *unit) key {
		dist := u.Y
		if u.Band == bandTop {
			dist = d.H[u.Page] - u.Y
		}
		return key{u.Band, u.Text, int(u.X*4 + 0.5), int(dist*4 + 0.5)}
	}
	seriesPages := map[string]map[int]bool{}
	for i := range d.Units {
		u := &d.Units[i]
		u.Atoms = atomsOf(u.Text)
		if u.Band == bandBody {
			continue
		}
		k := kf(u)
		if pagesAt[k] == nil {
			pagesAt[k] = map[int]bool{}
		}
		pagesAt[k][u.Page] = true
		if u.Series != "" {
			if seriesPages[u.Series] == nil {
				seriesPages[u.Series] = map[int]bool{}
			}
			seriesPages[u.Series][u.Page] = true
		}
	}
	for i := range d.Units {
		u := &d.Units[i]
		if u.Band == bandBody {
			continue
		}
		np := len(pagesAt[kf(u)])
		u.Repeats = np >= 2
		u.PageNum = u.Role == "pagenum"
		u.Deletable = u.Repeats || u.PageNum
		if d.NPages >= 2 {
			if np == d.NPages { // identical line at the same marginal position on every page
				u.Must = true
			}
			if u.Role == "pagenum" && len(seriesPages[u.Series]) == d.NPages { // running page numbers, one on every page
				u.Must = true
			}
		}
	}
}

// item is one shown string; Unit indexes docSpec.Units.
type item struct {
	pdfw.SimpleItem
	Unit int
}

// render turns the units into positioned strings: one per unit, or one per
// character in a character-level document. Items of a page are emitted in a
// seed-chosen stream order (content-stream order need not be reading order).
func render(d *docSpec, r *rand.Rand) ([][]item, []byte) {
	per := make([][]item, d.NPages)
	for ui, u := range d.Units {
		if !d.CharLevel {
			per[u.Page] = append(per[u.Page], item{pdfw.SimpleItem{X: u.X, Y: u.Y, Size: u.Size, Text: u.Text}, ui})
			continue
		}
		x := u.X
		for i := 0; i < len(u.Text); i++ {
			ch := u.Text[i : i+1]
			per[u.Page] = append(per[u.Page], item{pdfw.SimpleItem{X: x, Y: u.Y, Size: u.Size, Text: ch}, ui})
			x += textWidth(ch, u.Size)
		}
	}
	order := r.Intn(3) // 0 generator order (margins first), 1 top-to-bottom, 2 body first then margins
	pages := make([]pdfw.SimplePage, d.NPages)
	for p := range per {
		its := per[p]
		switch order {
		case 1:
			sort.SliceStable(its, func(i, j int) bool {
				if its[i].Y != its[j].Y {
					return its[i].Y > its[j].Y
				}
				return its[i].X < its[j].X
			})
		case 2:
			sort.SliceStable(its, func(i, j int) bool {
				bi, bj := d.Units[its[i].Unit].Band == bandBody, d.Units[its[j].Unit].Band == bandBody
				return bi && !bj
			})
		}
		pages[p] = pdfw.SimplePage{W: d.W[p], H: d.H[p], UserUnit: d.UserUnit}
		for _, it := range its {
			pages[p].Items = append(pages[p].Items, it.SimpleItem)
		}
	}
	if d.Ghost > 0 {
		g := d.Ghost - 1
		ghost := pdfw.SimplePage{W: 612, H: 792, Unreadable: true}
		pages = append(pages[:g:g], append([]pdfw.SimplePage{ghost}, pages[g:]...)...)
	}
	return per, pdfw.SimplePDF(pages)
}

func (d *docSpec) describe() string {
	var sb strings.Builder
	fmt.Fprintf(&sb, "pages=%d char=%v\n", d.NPages, d.CharLevel)
	for _, u := range d.Units {
		fmt.Fprintf(&sb, "p%d %s %s (%.1f,%.1f)/%g %q rep=%v pn=%v must=%v\n", u.Page+1, u.Role, u.Band, u.X, u.Y, u.Size, u.Text, u.Repeats, u.PageNum, u.Must)
	}
	return sb.String()
}

// nontrivial: >= 2 pages that each carry >= 1 marginal and >= 1 body unit.
func (d *docSpec) nontrivial() bool {
	m, b := map[int]bool{}, map[int]bool{}
	for _, u := range d.Units {
		if u.Band == bandBody {
			b[u.Page] = true
		} else {
			m[u.Page] = true
		}
	}
	n := 0
	for p := range m {
		if b[p] {
			n++
		}
	}
	return n >= 2
}
