package c11

import (
	"fmt"
	"regexp"
	"strings"
)

// An atom is the observable trace of a unit in a text output: a unique token,
// or a number. "n of N" and "n/N" are one atom, so that the N that every page
// shares does not blur which page number was removed.
var atomRe = regexp.MustCompile(`q[a-pr-z]{3}z[a-pr-z]{4}|\d+\s*of\s*\d+|\d+\s*/\s*\d+|\d+`)
var wsRe = regexp.MustCompile(`\s+`)

func atomsOf(s string) []string {
	m := atomRe.FindAllString(s, -1)
	for i := range m {
		m[i] = wsRe.ReplaceAllString(m[i], "")
	}
	return m
}

// isSubsequence reports whether sub can be obtained from full by deletions only.
func isSubsequence(sub, full []string) bool {
	j := 0
	for _, x := range full {
		if j < len(sub) && sub[j] == x {
			j++
		}
	}
	return j == len(sub)
}

func counts(xs []string) map[string]int {
	m := map[string]int{}
	for _, x := range xs {
		m[x]++
	}
	return m
}

// bounds computes, for the pages in sel, per atom: how often it occurs by
// construction, how many of these occurrences may be deleted (marginal and
// repeated-at-that-position or page number), and how many must be deleted
// under the given mode ("H": only top-band lines are asserted, "F": only
// bottom-band lines, "HF": both — the weaker reading of the statement for the
// single-sided options).
type bound struct{ exp, maxDel, minDel int }

func bounds(d *docSpec, sel map[int]bool, mode string) map[string]*bound {
	m := map[string]*bound{}
	for i := range d.Units {
		u := &d.Units[i]
		if !sel[u.Page] {
			continue
		}
		for _, a := range u.Atoms {
			b := m[a]
			if b == nil {
				b = &bound{}
				m[a] = b
			}
			b.exp++
			if u.Deletable {
				b.maxDel++
			}
			if u.Must && (mode == "HF" || (mode == "H" && u.Band == bandTop) || (mode == "F" && u.Band == bandBottom)) {
				b.minDel++
			}
		}
	}
	return m
}

// verdict of one comparison
type verdict struct {
	Class   string // "" = ok
	What    string
	Finding string // known finding the failure is attributed to by counterfactual ("" = none)
}

// judgeAtoms applies clauses (1)-(4) to the atom sequences of one output
// without (U) and with (F) exclusion.
func judgeAtoms(d *docSpec, sel map[int]bool, mode string, U, F []string) (v verdict, baselineOK bool) {
	bs := bounds(d, sel, mode)
	cu, cf := counts(U), counts(F)
	// The unfiltered output must not show anything the construction does not
	// explain (garbled or duplicated atoms): then the comparison below could
	// blame exclusion for something else (C01/C09) and is skipped. Atoms that
	// the unfiltered output already lacks (e.g. the line detector drops lines
	// narrower than 5 pt) only weaken the comparison: bounds are applied to
	// what is there.
	for a, n := range cu {
		if bs[a] == nil || n > bs[a].exp {
			return verdict{}, false
		}
	}
	if !isSubsequence(F, U) {
		return verdict{Class: "not-subsequence", What: fmt.Sprintf("output with exclusion is not a subsequence of the output without: with=%v without=%v", short(F), short(U))}, true
	}
	for a, b := range bs {
		del := cu[a] - cf[a]
		if del > b.maxDel {
			u := d.unitWith(a, sel, false)
			return verdict{Class: "deleted-protected/" + u.Role, What: fmt.Sprintf("%d occurrence(s) of %q deleted but only %d may be: unit %s", del, a, b.maxDel, u.brief())}, true
		}
		if keep := b.exp - b.minDel; cf[a] > keep {
			u := d.unitWith(a, sel, true)
			return verdict{Class: "survived/" + u.Role, What: fmt.Sprintf("%q still occurs %d time(s) but at most %d occurrence(s) on the selected pages are not must-remove: unit %s", a, cf[a], keep, u.brief())}, true
		}
	}
	return verdict{}, true
}

// unitWith finds a unit that carries atom a on a selected page (a protected one
// if must is false, a must-remove one otherwise) for the report.
func (d *docSpec) unitWith(a string, sel map[int]bool, must bool) *unit {
	var any *unit
	for i := range d.Units {
		u := &d.Units[i]
		if !sel[u.Page] {
			continue
		}
		for _, x := range u.Atoms {
			if x == a {
				if any == nil {
					any = u
				}
				if (must && u.Must) || (!must && !u.Deletable) {
					return u
				}
			}
		}
	}
	if any == nil {
		return &unit{Role: "?"}
	}
	return any
}

func (u *unit) brief() string {
	return fmt.Sprintf("{page %d, role %s, band %s, baseline (%.1f,%.1f), size %g, text %q, repeats-at-position=%v, page-number=%v}", u.Page+1, u.Role, u.Band, u.X, u.Y, u.Size, u.Text, u.Repeats, u.PageNum)
}

func short(xs []string) string {
	s := strings.Join(xs, " ")
	if len(s) > 600 {
		s = s[:600] + "…"
	}
	return s
}
