package c11

import (
	"bytes"
	"fmt"
	"os"
	"path/filepath"
	"strings"

	"verifharness/fw"
	"verifharness/gen/ooxml"
)

// PPTX: the mechanism the property names is the placeholder type. Ground
// truth: title / body / text-box paragraphs (never removed, even when a text
// box repeats the footer text), footer / date / slide-number placeholders
// (p:ph type ftr | dt | sldNum: may be removed; under ExcludeFooters or
// ExcludeHeadersAndFooters a footer placeholder that every slide carries must
// be removed from every slide) and header placeholders (type hdr: may be
// removed).

type pptxShape struct {
	Ph    string // "" (text box) | ftr | dt | sldNum | hdr
	Text  string
	Token string
}

func phShapeXML(id int, s pptxShape) string {
	ph := ""
	if s.Ph != "" {
		ph = fmt.Sprintf(`<p:ph type="%s" sz="quarter" idx="%d"/>`, s.Ph, 10+id)
	}
	return fmt.Sprintf(`<p:sp><p:nvSpPr><p:cNvPr id="%d" name="Shape %d"/><p:cNvSpPr/><p:nvPr>%s</p:nvPr></p:nvSpPr><p:spPr/><p:txBody><a:bodyPr/><a:lstStyle/><a:p><a:r><a:rPr lang="en-US"/><a:t>%s</a:t></a:r></a:p></p:txBody></p:sp>`,
		id, id, ph, ooxml.Esc(s.Text))
}

func runPptxCase(c *fw.Ctx, dir string, i int) {
	id := fmt.Sprintf("pptx:%d", i)
	if !c.Want(id) {
		return
	}
	r := c.Rand("pptx", i)
	tk := fw.NewTokens(r)
	n := 1 + r.Intn(6)
	deck := &ooxml.PDeck{DocProps: r.Intn(2) == 0, Title: "c11", MasterText: tk.Next()}
	footerTok, footerOn := tk.Next(), r.Intn(4) > 0
	footerText := phrase(r, footerTok, 1+r.Intn(2))
	dateOn, numOn, hdrOn, boxCopy := r.Intn(2) == 0, r.Intn(2) == 0, r.Intn(4) == 0, r.Intn(3) == 0
	extra := make([][]pptxShape, n)
	protected := map[string]bool{}  // tokens that must survive
	phTokens := map[string]string{} // token -> placeholder type
	must := map[string]int{}        // token -> occurrences that must go under F/HF
	var desc []string
	for s := 0; s < n; s++ {
		sl := ooxml.PSlide{Part: fmt.Sprintf("ppt/slides/slide%d.xml", s+1), RID: fmt.Sprintf("rId%d", 10+s), SlideID: 256 + s}
		if r.Intn(5) > 0 {
			t := tk.Next()
			sl.Title = phrase(r, t, 1)
			protected[t] = true
		}
		for k := 1 + r.Intn(3); k > 0; k-- {
			t := tk.Next()
			sl.Paras = append(sl.Paras, phrase(r, t, 1+r.Intn(4)))
			protected[t] = true
		}
		if r.Intn(3) == 0 {
			for k := 1 + r.Intn(3); k > 0; k-- {
				t := tk.Next()
				sl.Bullets = append(sl.Bullets, phrase(r, t, 1+r.Intn(3)))
				protected[t] = true
			}
		}
		deck.Slides = append(deck.Slides, sl)
		if footerOn {
			extra[s] = append(extra[s], pptxShape{"ftr", footerText, footerTok})
			phTokens[footerTok] = "ftr"
			must[footerTok]++
		}
		if dateOn {
			t := tk.Next()
			extra[s] = append(extra[s], pptxShape{"dt", t + " march", t})
			phTokens[t] = "dt"
			must[t]++
		}
		if numOn {
			t := tk.Next() // a slide number field; the token stands for the rendered number
			extra[s] = append(extra[s], pptxShape{"sldNum", t, t})
			phTokens[t] = "sldNum"
			must[t]++
		}
		if hdrOn {
			t := tk.Next()
			extra[s] = append(extra[s], pptxShape{"hdr", phrase(r, t, 1), t})
			phTokens[t] = "hdr"
		}
		if boxCopy && footerOn && r.Intn(2) == 0 { // an ordinary text box that repeats the footer text
			extra[s] = append(extra[s], pptxShape{"", footerText, footerTok})
		}
		r.Shuffle(len(extra[s]), func(a, b int) { extra[s][a], extra[s][b] = extra[s][b], extra[s][a] })
		desc = append(desc, fmt.Sprintf("slide %d: title=%q paras=%q bullets=%q extra=%+v", s+1, sl.Title, sl.Paras, sl.Bullets, extra[s]))
	}
	members := deck.Members(r)
	for mi := range members {
		for s := range deck.Slides {
			if members[mi].Name == deck.Slides[s].Part && len(extra[s]) > 0 {
				var sb strings.Builder
				for k, sh := range extra[s] {
					sb.WriteString(phShapeXML(40+k, sh))
				}
				members[mi].Data = bytes.Replace(members[mi].Data, []byte(`</p:spTree>`), []byte(sb.String()+`</p:spTree>`), 1)
			}
		}
	}
	path := filepath.Join(dir, fmt.Sprintf("p%06d.pptx", i))
	if err := os.WriteFile(path, ooxml.PartZip(members), 0o644); err != nil {
		c.Inconclusive("cannot write scratch file: " + err.Error())
		return
	}
	defer os.Remove(path)
	boxCopies := 0
	for s := range extra {
		for _, sh := range extra[s] {
			if sh.Ph == "" {
				boxCopies++
			}
		}
	}
	c.Case("pptx|"+strings.Join(desc, "|"), n >= 2 && len(phTokens) > 0)
	c.Seen("office_format", "pptx")
	for _, ph := range phTokens {
		c.Seen("pptx_placeholder", ph)
	}
	if boxCopies > 0 {
		c.Seen("pptx_placeholder", "text-box-repeating-footer")
	}
	detail := map[string]any{"format": "pptx", "document": desc}
	var base string
	var berr error
	if !c.Guard("pptx", id, detail, func() { base, berr = officeView(path, "", "Text") }) || berr != nil {
		c.Count("office_baseline_error", 1)
		return
	}
	U := fw.FindTokens(base)
	cu := counts(U)
	for t := range protected {
		if cu[t] != 1 {
			c.Count("office_baseline_mismatch", 1)
			return
		}
	}
	for _, mode := range []string{"H", "F", "HF", "H+F"} {
		mode := mode
		c.Guard("pptx", id, detail, func() {
			got, err := officeView(path, mode, "Text")
			c.Count("office_comparisons", 1)
			if err != nil {
				c.Fail("", "office/pptx/error", id, fmt.Sprintf("pptx Text under %s fails with exclusion only: %v", mode, err), detail)
				return
			}
			F := fw.FindTokens(got)
			cf := counts(F)
			c.Count("office_tokens_compared", int64(len(U)))
			c.Count("office_tokens_deleted", int64(len(U)-len(F)))
			if !isSubsequence(F, U) {
				c.Fail("", "office/pptx/not-subsequence", id, fmt.Sprintf("pptx Text under %s: tokens with exclusion are not a subsequence of the tokens without: %s vs %s", mode, short(F), short(U)), detail)
				return
			}
			for t, nU := range cu {
				del := nU - cf[t]
				if del == 0 {
					continue
				}
				if phTokens[t] == "" {
					c.Fail("", "office/pptx/deleted-non-placeholder", id, fmt.Sprintf("pptx Text under %s: token %s of a title / body / text box disappeared", mode, t), detail)
					return
				}
				if t == footerTok && cf[t] < boxCopies {
					c.Fail("", "office/pptx/deleted-text-box", id, fmt.Sprintf("pptx Text under %s: a text box that repeats the footer text disappeared (%d of %d text boxes left)", mode, cf[t], boxCopies), detail)
					return
				}
			}
			if truthMode(mode) != "H" && n >= 2 {
				// footer / date / slide-number placeholders are on every slide by construction
				for t := range must {
					if cu[t] == 0 {
						continue // not shown without exclusion either
					}
					keep := 0
					if t == footerTok {
						keep = boxCopies
					}
					if cf[t] > keep {
						c.Fail("", "office/pptx/survived/"+phTokens[t], id, fmt.Sprintf("pptx Text under %s: %s placeholders are on every slide, but token %s still occurs %d time(s) (%d text box(es) repeat it)", mode, phTokens[t], t, cf[t], keep), detail)
						return
					}
				}
			}
		})
	}
}
