// Package c11: header/footer exclusion removes only repeated marginal text.
//
// Ground truth by construction: the generator knows the role, band and
// position of every text unit. Observed: the direct detector
// (layout.HeaderFooterDetector.Detect + FilterFragments) on the fragments the
// library extracted, and the facade (Text / Lines / Paragraphs under
// ExcludeHeaders / ExcludeFooters / ExcludeHeadersAndFooters, with page
// subsets), each compared with the same call without exclusion; DOCX / ODT
// header/footer parts (see office.go).
package c11

import (
	"fmt"
	"hash/fnv"
	"math"
	"math/rand"
	"os"
	"path/filepath"
	"strings"
	"sync"
	"sync/atomic"

	"github.com/tsawler/tabula"
	"github.com/tsawler/tabula/layout"
	"github.com/tsawler/tabula/reader"
	"github.com/tsawler/tabula/text"

	"verifharness/fw"
)

func applyMode(e *tabula.Extractor, mode string) *tabula.Extractor {
	switch mode {
	case "H":
		return e.ExcludeHeaders()
	case "F":
		return e.ExcludeFooters()
	case "HF":
		return e.ExcludeHeadersAndFooters()
	case "H+F":
		return e.ExcludeHeaders().ExcludeFooters()
	}
	return e
}

func truthMode(mode string) string {
	if mode == "H+F" {
		return "HF"
	}
	return mode
}

func applyTextMode(e *tabula.Extractor, tm string) *tabula.Extractor {
	switch tm {
	case "join":
		return e.JoinParagraphs()
	case "bycolumn":
		return e.ByColumn()
	case "layout":
		return e.PreserveLayout()
	}
	return e
}

// sharedReaderViews counts the views served by a pre-used, caller-owned reader.
var sharedReaderViews atomic.Int64

// view runs one facade API and returns its text rendering.
// shownText is what a written string shows: the writer's strings are WinAnsi
// bytes, of which only the section sign (0xA7) lies outside ASCII.
func shownText(s string) string { return strings.ReplaceAll(s, "\xa7", "§") }

// ghosts: path -> document spec, for files that carry an unreadable extra page.
var ghosts sync.Map

func view(path string, pagesSel []int, selHow, mode, api, tm string) (string, error) {
	if v, ok := ghosts.Load(path); ok {
		// the requests speak about the logical pages; "all pages" = all readable ones
		d := v.(*docSpec)
		var sel []int
		if len(pagesSel) == 0 {
			for p := 1; p <= d.NPages; p++ {
				sel = append(sel, d.phys(p))
			}
		}
		for _, p := range pagesSel {
			sel = append(sel, d.phys(p))
		}
		pagesSel = sel
	}
	e := tabula.Open(path)
	defer e.Close()
	// a third of the views run on a caller-owned reader.Reader that has already
	// served a filtered and an unfiltered extraction: what exclusion removed from
	// one result must not be missing from (or doubled in) the next
	h := fnv.New32a()
	fmt.Fprint(h, path, pagesSel, selHow, mode, api, tm)
	if h.Sum32()%3 == 0 {
		if rd, err := reader.Open(path); err == nil {
			defer rd.Close()
			tabula.FromReader(rd).ExcludeHeadersAndFooters().Text()
			tabula.FromReader(rd).Fragments()
			e = tabula.FromReader(rd)
			sharedReaderViews.Add(1)
		}
	}
	// order of the builder calls is seed-chosen by the caller through selHow
	sel := func(e *tabula.Extractor) *tabula.Extractor {
		if len(pagesSel) == 0 {
			return e
		}
		return e.Pages(pagesSel...)
	}
	if selHow == "pages-first" {
		e = applyMode(sel(e), mode)
	} else {
		e = sel(applyMode(e, mode))
	}
	switch api {
	case "Text":
		s, _, err := applyTextMode(e, tm).Text()
		return s, err
	case "Lines":
		ls, err := e.Lines()
		var sb strings.Builder
		for _, l := range ls {
			sb.WriteString(l.Text)
			sb.WriteString("\n")
		}
		return sb.String(), err
	case "Paragraphs":
		ps, err := e.Paragraphs()
		var sb strings.Builder
		for _, p := range ps {
			sb.WriteString(p.Text)
			sb.WriteString("\n\n")
		}
		return sb.String(), err
	case "Fragments":
		fr, _, err := e.Fragments()
		return joinFragments(fr), err
	case "ReadingOrder":
		ro, err := e.ReadingOrder()
		if err != nil || ro == nil {
			return "", err
		}
		return joinFragments(ro.Fragments), nil
	case "Markdown":
		s, _, err := e.ToMarkdown()
		return s, err
	case "Document":
		doc, _, err := e.Document()
		if err != nil || doc == nil {
			return "", err
		}
		return doc.ExtractText(), nil
	}
	panic("api")
}

// joinFragments renders a fragment list: fragments on the same baseline are
// glued (so that the characters of a character-level page spell their words
// again), a change of baseline starts a new line.
func joinFragments(fr []text.TextFragment) string {
	var sb strings.Builder
	for i, f := range fr {
		if i > 0 && (f.Y != fr[i-1].Y || f.X < fr[i-1].X) {
			sb.WriteString("\n")
		}
		sb.WriteString(f.Text)
		if len([]rune(f.Text)) > 1 {
			sb.WriteString("\n")
		}
	}
	return sb.String()
}

type pdfCase struct {
	id   string
	d    *docSpec
	per  [][]item
	path string

	directOK      bool         // direct check ran to the end without a verdict
	directDeleted map[int]bool // units FilterFragments deleted (direct API)
	directPartial bool         // some unit lost only part of its fragments
	reducedPath   string       // the same document without the units in directDeleted ("" = not built)
	renderSeed    func() *rand.Rand
	dir           string
}

// reduced builds (once) the counterfactual document: the same units, same
// stream order, minus the units the direct FilterFragments deleted.
func (pc *pdfCase) reduced() string {
	if pc.reducedPath != "" {
		return pc.reducedPath
	}
	rd := *pc.d
	rd.Units = nil
	for ui, u := range pc.d.Units {
		if !pc.directDeleted[ui] {
			rd.Units = append(rd.Units, u)
		}
	}
	_, data := render(&rd, pc.renderSeed())
	pc.reducedPath = strings.TrimSuffix(pc.path, ".pdf") + "-reduced.pdf"
	os.WriteFile(pc.reducedPath, data, 0o644)
	if rd.Ghost > 0 {
		rdc := rd
		ghosts.Store(pc.reducedPath, &rdc)
	}
	return pc.reducedPath
}

// directCheck: Detect on the extracted fragments of all pages, FilterFragments per page.
// Returns a verdict ("" class = ok) and whether the extraction baseline matched the construction.
func directCheck(c *fw.Ctx, pc *pdfCase) (verdict, bool) {
	pc.directDeleted = map[int]bool{}
	pc.directPartial = false
	d := pc.d
	frags := make([][]text.TextFragment, d.NPages)
	owner := make([][]int, d.NPages) // fragment -> unit index
	for p := 0; p < d.NPages; p++ {
		fr, _, err := tabula.Open(pc.path).Pages(d.phys(p + 1)).Fragments()
		if err != nil || len(fr) != len(pc.per[p]) {
			return verdict{}, false
		}
		// map fragments to items by position and text
		used := make([]bool, len(pc.per[p]))
		owner[p] = make([]int, len(fr))
		for fi, f := range fr {
			found := -1
			for ii, it := range pc.per[p] {
				if !used[ii] && math.Abs(it.X-f.X) < 0.01 && math.Abs(it.Y-f.Y) < 0.01 && shownText(it.Text) == f.Text {
					found = ii
					break
				}
			}
			if found < 0 {
				return verdict{}, false
			}
			used[found] = true
			owner[p][fi] = pc.per[p][found].Unit
		}
		frags[p] = fr
	}
	in := make([]layout.PageFragments, d.NPages)
	for p := range in {
		in[p] = layout.PageFragments{PageIndex: p, PageHeight: d.H[p], PageWidth: d.W[p], Fragments: append([]text.TextFragment(nil), frags[p]...)}
	}
	res := layout.NewHeaderFooterDetector().Detect(in)
	anyDeletable := false
	for i := range d.Units {
		if d.Units[i].Deletable {
			anyDeletable = true
		}
	}
	for p := 0; p < d.NPages; p++ {
		out := res.FilterFragments(p, append([]text.TextFragment(nil), frags[p]...), d.H[p])
		// (1) only deletions, same order
		deleted := make([]bool, len(frags[p]))
		j := 0
		for i, f := range frags[p] {
			if j < len(out) && out[j] == f {
				j++
			} else {
				deleted[i] = true
			}
		}
		if j != len(out) {
			return verdict{Class: "direct/not-subsequence", What: fmt.Sprintf("FilterFragments(page %d) returned fragments that are not a subsequence of its input (%d in, %d out, matched %d)", p+1, len(frags[p]), len(out), j)}, true
		}
		c.Count("direct_fragments_in", int64(len(frags[p])))
		delUnits := map[int]int{}
		total := map[int]int{}
		for i := range frags[p] {
			total[owner[p][i]]++
			if deleted[i] {
				delUnits[owner[p][i]]++
				c.Count("direct_fragments_deleted", 1)
			}
		}
		for ui, n := range delUnits {
			pc.directDeleted[ui] = true
			if n != total[ui] {
				pc.directPartial = true
			}
		}
		for ui, n := range delUnits {
			u := &d.Units[ui]
			if !u.Deletable {
				return verdict{Class: "direct/deleted-protected/" + u.Role, What: fmt.Sprintf("FilterFragments(page %d) deleted %d of %d fragment(s) of unit %s", p+1, n, total[ui], u.brief())}, true
			}
		}
		if (d.NPages == 1 || !anyDeletable) && len(out) != len(frags[p]) {
			return verdict{Class: "direct/changed-without-repetition", What: fmt.Sprintf("page %d changed although the document has no repeated marginal text", p+1)}, true
		}
		for ui, n := range total {
			u := &d.Units[ui]
			if u.Must && delUnits[ui] != n {
				return verdict{Class: "direct/survived/" + u.Role, What: fmt.Sprintf("FilterFragments(page %d) kept %d of %d fragment(s) of unit %s, which is on every page", p+1, n-delUnits[ui], n, u.brief())}, true
			}
		}
	}
	c.Count("direct_docs_checked", 1)
	c.Count("direct_header_regions", int64(len(res.Headers)))
	c.Count("direct_footer_regions", int64(len(res.Footers)))
	return verdict{}, true
}

type request struct {
	Sel    []int // 1-based pages, nil = all
	SelHow string
	Mode   string
	API    string
	TM     string
}

func (q request) String() string {
	return fmt.Sprintf("%s[%s]/%s/pages=%v/%s", q.API, q.TM, q.Mode, q.Sel, q.SelHow)
}

func genRequests(r *rand.Rand, d *docSpec, n int) []request {
	var out []request
	modes := []string{"H", "F", "HF", "H+F"}
	// Text (plain / PreserveLayout), Lines and Fragments do not run column
	// detection on ordinary pages: more than half of the requests stay clear of
	// the trigger of the known finding C11-layout-reflow-after-filter.
	apis := []string{"Text", "Text", "Text", "Text", "Text", "Text", "Lines", "Lines", "Lines", "Fragments", "Paragraphs", "ReadingOrder", "Markdown", "Document"}
	for k := 0; k < n; k++ {
		q := request{Mode: modes[r.Intn(len(modes))], API: apis[r.Intn(len(apis))], SelHow: []string{"pages-first", "mode-first"}[r.Intn(2)]}
		if k < 3 {
			q.Mode = modes[k] // every document sees H, F and HF
		}
		if q.API == "Text" {
			q.TM = []string{"", "", "", "join", "bycolumn", "layout"}[r.Intn(6)]
		}
		if k > 0 && d.NPages > 1 || r.Intn(4) == 0 {
			// a page subset: single page, a few pages (unsorted, with repeats), or all listed
			switch r.Intn(3) {
			case 0:
				q.Sel = []int{1 + r.Intn(d.NPages)}
			case 1:
				for j := 1 + r.Intn(d.NPages); j > 0; j-- {
					q.Sel = append(q.Sel, 1+r.Intn(d.NPages))
				}
			default:
				for p := 1; p <= d.NPages; p++ {
					if r.Intn(2) == 0 {
						q.Sel = append(q.Sel, p)
					}
				}
				if len(q.Sel) == 0 {
					q.Sel = []int{d.NPages}
				}
			}
		}
		out = append(out, q)
	}
	return out
}

func selSet(d *docSpec, sel []int) map[int]bool {
	m := map[int]bool{}
	if len(sel) == 0 {
		for p := 0; p < d.NPages; p++ {
			m[p] = true
		}
	}
	for _, p := range sel {
		m[p-1] = true
	}
	return m
}

// facadeCheck runs one request with and without exclusion.
func facadeCheck(c *fw.Ctx, pc *pdfCase, q request) (verdict, bool) {
	d := pc.d
	base, err0 := view(pc.path, q.Sel, q.SelHow, "", q.API, q.TM)
	got, err1 := view(pc.path, q.Sel, q.SelHow, q.Mode, q.API, q.TM)
	if err0 != nil {
		return verdict{}, false
	}
	if err1 != nil {
		return verdict{Class: "facade/error", What: fmt.Sprintf("%s fails with exclusion (%v) but not without", q, err1)}, true
	}
	U, F := atomsOf(base), atomsOf(got)
	if q.TM == "layout" && d.CharLevel {
		// PreserveLayout pads with spaces to mimic positions; on a character-level
		// page the padding can fall inside a word. White space inside a line is
		// not text, so atoms are read from the lines with blanks removed.
		U, F = atomsOf(stripBlanks(base)), atomsOf(stripBlanks(got))
	}
	if os.Getenv("C11_DEBUG") != "" {
		fmt.Fprintf(os.Stderr, "--- %s\nwithout: %q\nwith:    %q\n", q, base, got)
	}
	tm := truthMode(q.Mode)
	if q.API == "Fragments" {
		// Fragments() documents no exclusion and applies none: only the
		// "nothing else is deleted" clauses are asserted there.
		tm = "none"
	}
	v, ok := judgeAtoms(d, selSet(d, q.Sel), tm, U, F)
	if !ok {
		return v, false
	}
	c.Count("facade_atoms_compared", int64(len(U)))
	c.Count("facade_atoms_deleted", int64(len(U)-len(F)))
	if v.Class != "" {
		v.Class = "facade/" + q.API + "/" + v.Class
		v.What = q.String() + ": " + v.What
		// Counterfactual for the layout-analysis paths: the same request
		// without exclusion on the document that lacks exactly the units the
		// direct filter removes. If that yields the same atoms, exclusion
		// removed only what the (separately judged) filter removes and the
		// difference to the unfiltered output is the layout analysis reacting
		// to the smaller fragment set.
		if pc.directOK && !pc.directPartial {
			red, err := view(pc.reduced(), q.Sel, q.SelHow, "", q.API, q.TM)
			ra := atomsOf(red)
			if q.TM == "layout" && d.CharLevel {
				ra = atomsOf(stripBlanks(red))
			}
			// Only a changed order (or an occurrence the reduced document shows as
			// well, i.e. a duplicate made by the view itself) is attributed; body
			// text that disappears is always reported.
			if err == nil && equalStrings(ra, F) && strings.Contains(v.Class, "deleted-protected") {
				if d.CharLevel {
					// words scrambled by the unstable sort of the single-column path
					// (fixes/C11-5): once that finding is marked fixed this is a violation
					v.Finding = findingScramble
					c.Count("scramble_at "+q.API+"/"+q.TM, 1)
				}
			} else if err == nil && equalStrings(ra, F) {
				v.Finding = findingReflow
				if strings.Contains(v.Class, "not-subsequence") {
					// what moved: only marginal fragments that stayed, or body text too?
					body := map[string]bool{}
					for _, u := range d.Units {
						for _, a := range u.Atoms {
							if u.Band == bandBody {
								if _, seen := body[a]; !seen {
									body[a] = true
								}
							} else {
								body[a] = false
							}
						}
					}
					only := func(xs []string) []string {
						var out []string
						for _, x := range xs {
							if body[x] {
								out = append(out, x)
							}
						}
						return out
					}
					if isSubsequence(only(F), only(U)) {
						c.Count("reflow_reorder_body_order_kept", 1)
					} else {
						c.Count("reflow_reorder_body_order_changed", 1)
						if os.Getenv("C11_REFLOW_LOG") != "" {
							fmt.Fprintf(os.Stderr, "BODYREORDER %s %s\n  with=%v\n  without=%v\n", pc.id, q, only(F), only(U))
						}
					}
				}
				if os.Getenv("C11_REFLOW_LOG") != "" {
					fmt.Fprintf(os.Stderr, "REFLOW %s char=%v %s\n", pc.id, d.CharLevel, v.What)
				}
				c.Count("reflow_at "+q.API+"/"+q.TM+fmt.Sprintf("/char=%v", d.CharLevel)+"/"+strings.SplitN(v.Class, "/", 4)[2], 1)
			}
		}
		return v, true
	}
	anyDeletable := false
	for i := range d.Units {
		if d.Units[i].Deletable {
			anyDeletable = true
		}
	}
	if (d.NPages == 1 || !anyDeletable) && got != base {
		return verdict{Class: "facade/" + q.API + "/changed-without-repetition", What: fmt.Sprintf("%s: output differs from the output without exclusion although the document has no repeated marginal text: %q vs %q", q, fw.OneLine(got, 300), fw.OneLine(base, 300))}, true
	}
	return verdict{}, true
}

func stripBlanks(s string) string {
	return strings.NewReplacer(" ", "", "\t", "").Replace(s)
}

func equalStrings(a, b []string) bool {
	if len(a) != len(b) {
		return false
	}
	for i := range a {
		if a[i] != b[i] {
			return false
		}
	}
	return true
}

// findingReflow: see /verif/known_findings.d/C11.json
const findingReflow = "C11-layout-reflow-after-filter"
const findingScramble = "C11-single-column-unstable-sort"

func docHash(d *docSpec) string {
	var sb strings.Builder
	sb.WriteString(d.describe())
	return sb.String()
}

func runPDF(c *fw.Ctx, dir string, i int) {
	id := fmt.Sprintf("pdf:%d", i)
	if !c.Want(id) {
		return
	}
	d := genDoc(c.Rand("pdf", i), genOpts{NumericRun: i%7 == 3})
	if i%5 == 4 && d.NPages >= 2 {
		// the file carries one more page, which cannot be extracted, somewhere before
		// the last page: requests name the readable pages only
		d.Ghost = 1 + c.Rand("pdf", i, "ghost").Intn(d.NPages)
	}
	reqs := genRequests(c.Rand("pdf", i, "req"), d, 5)
	if i%7 == 3 {
		// number-only paragraphs regroup when the running lines go: the page model
		// and the chunk-facing renderings are asked for on these documents
		reqs = append(reqs, request{Mode: "H", API: "Document", SelHow: "mode-first"}, request{Mode: "HF", API: "Document", SelHow: "pages-first"}, request{Mode: "HF", API: "Markdown", SelHow: "mode-first"})
	}
	runDoc(c, dir, id, fmt.Sprintf("d%06d.pdf", i), d, func() *rand.Rand { return c.Rand("pdf", i, "render") }, reqs)
}

// runWitness runs the fixed witness of the open finding
// C11-layout-reflow-after-filter on every run.
func runWitness(c *fw.Ctx, dir string) {
	id := "witness:reflow"
	if !c.Want(id) && !c.Want("witness:scramble") {
		return
	}
	// Page 1 carries a unique line in the top-right corner next to the running
	// header. Without exclusion the column detector sees two columns and reads
	// the unique line after the body; once the header, page number and footer
	// are filtered out the page is a single column and the line is read first.
	d := &docSpec{NPages: 2, W: []float64{612, 612}, H: []float64{792, 792}, Features: map[string]bool{"witness": true}, Total: 2}
	hdr, ftr := "qwitzaaaa stone meadow result", "qwitzaaab result market"
	for p := 0; p < 2; p++ {
		d.Units = append(d.Units,
			unit{Page: p, Role: "hdr-run", Band: bandTop, X: 72, Y: 748, Size: 8, Text: hdr, Series: "hdrA"},
			unit{Page: p, Role: "ftr-run", Band: bandBottom, X: 447, Y: 38, Size: 9, Text: ftr, Series: "ftrA"},
			unit{Page: p, Role: "pagenum", Band: bandTop, X: 299.7, Y: 734, Size: 9, Text: fmt.Sprintf("%d/2", p+1), Series: "pn"})
	}
	d.Units = append(d.Units,
		unit{Page: 0, Role: "margin-unique", Band: bandTop, X: 479, Y: 762, Size: 9, Text: "letter qwitzaaac"},
		unit{Page: 0, Role: "body", Band: bandBody, X: 72, Y: 681, Size: 11, Text: "qwitzaaad candle signal signal copper garden"},
		unit{Page: 0, Role: "body-numeric", Band: bandBody, X: 72, Y: 664, Size: 11, Text: "1355"},
		unit{Page: 1, Role: "body-numeric", Band: bandBody, X: 72, Y: 681, Size: 11, Text: "1386"},
		unit{Page: 1, Role: "body", Band: bandBody, X: 72, Y: 100, Size: 11, Text: "island annual copper qwitzaaae"})
	classify(d)
	reqs := []request{{Sel: []int{1}, SelHow: "mode-first", Mode: "H", API: "Text", TM: "bycolumn"}}
	if c.Want(id) {
		runDoc(c, dir, id, "witness-reflow.pdf", d, func() *rand.Rand { return rand.New(rand.NewSource(1)) }, reqs)
	}

	// witness of C11-single-column-unstable-sort: the same document written one
	// character per fragment; after filtering page 1 is a single column and the
	// characters of each line are scrambled.
	if c.Want("witness:scramble") {
		d2 := *d
		d2.CharLevel = true
		d2.Features = map[string]bool{"witness": true, "page.char-level": true}
		reqs2 := []request{{Sel: []int{1}, SelHow: "mode-first", Mode: "H", API: "Text", TM: "join"}}
		runDoc(c, dir, "witness:scramble", "witness-scramble.pdf", &d2, func() *rand.Rand { return rand.New(rand.NewSource(1)) }, reqs2)
	}
}

// runNumberOnlyWitness: the shape of the defect repaired by d4b4b34 (found by the
// thorough tier, replay pdf:9384 seed 1). On page 2 two body lines are bare
// numbers; with the running header gone they become paragraphs of their own and
// list detection takes them for markers of a numbered list. The page model has
// to keep them as text in every rendering.
func runNumberOnlyWitness(c *fw.Ctx, dir string) {
	id := "witness:number-only-list"
	if !c.Want(id) {
		return
	}
	d := &docSpec{NPages: 2, W: []float64{612, 612}, H: []float64{1008, 1008}, Features: map[string]bool{"witness": true, "body.numeric-run": true}, Total: 2, Ghost: 2}
	hdr := "qwinzaaaa summary summary 2023"
	for p := 0; p < 2; p++ {
		d.Units = append(d.Units,
			unit{Page: p, Role: "hdr-run", Band: bandTop, X: 72, Y: 950, Size: 10, Text: hdr, Series: "hdrA"},
			unit{Page: p, Role: "ftr-run", Band: bandBottom, X: 72, Y: 38, Size: 8, Text: "\xa71472", Series: "ftrA"},
			unit{Page: p, Role: "ftr-run", Band: bandBottom, X: 505.3, Y: 38, Size: 8, Text: "qwinzaaab", Series: "ftrB"})
	}
	d.Units = append(d.Units,
		unit{Page: 1, Role: "margin-unique", Band: bandTop, X: 264.2, Y: 964, Size: 8, Text: "qwinzaaag island winter"},
		unit{Page: 1, Role: "margin-unique", Band: bandBottom, X: 248.7, Y: 52, Size: 9, Text: "qwinzaaah summary harbour"},
		unit{Page: 0, Role: "body", Band: bandBody, X: 72, Y: 843, Size: 11, Text: "market island qwinzaaac window signal"},
		unit{Page: 0, Role: "body", Band: bandBody, X: 72, Y: 817, Size: 11, Text: "qwinzaaad figure market river method"},
		unit{Page: 0, Role: "body", Band: bandBody, X: 72, Y: 791, Size: 11, Text: "qwinzaaai meadow stone summary window window"},
		unit{Page: 0, Role: "body", Band: bandBody, X: 72, Y: 765, Size: 11, Text: "qwinzaaaj island winter stone"},
		unit{Page: 0, Role: "body-numeric", Band: bandBody, X: 72, Y: 739, Size: 11, Text: "1520"},
		unit{Page: 0, Role: "body", Band: bandBody, X: 72, Y: 713, Size: 11, Text: "qwinzaaak method annual candle candle"},
		unit{Page: 1, Role: "body-numeric", Band: bandBody, X: 72, Y: 897, Size: 11, Text: "1525"},
		unit{Page: 1, Role: "body-numeric", Band: bandBody, X: 72, Y: 504, Size: 11, Text: "1561"},
		unit{Page: 1, Role: "body", Band: bandBody, X: 72, Y: 100, Size: 11, Text: "qwinzaaae annual island garden"})
	classify(d)
	reqs := []request{{SelHow: "pages-first", Mode: "H", API: "Document"}, {SelHow: "mode-first", Mode: "HF", API: "Document"}, {Sel: []int{2}, SelHow: "mode-first", Mode: "H", API: "Document"}, {SelHow: "mode-first", Mode: "H", API: "Markdown"}}
	runDoc(c, dir, id, "witness-number-only.pdf", d, func() *rand.Rand { return rand.New(rand.NewSource(1)) }, reqs)
}

// runDoc evaluates one document: the direct detector and the given facade requests.
func runDoc(c *fw.Ctx, dir, id, file string, d *docSpec, renderSeed func() *rand.Rand, reqs []request) {
	per, data := render(d, renderSeed())
	path := filepath.Join(dir, file)
	if d.Ghost > 0 {
		ghosts.Store(path, d)
		defer ghosts.Delete(path)
		d.feat("file.unreadable-extra-page")
	}
	if err := os.WriteFile(path, data, 0o644); err != nil {
		c.Inconclusive("cannot write scratch file: " + err.Error())
		return
	}
	defer os.Remove(path)
	pc := &pdfCase{id: id, d: d, per: per, path: path, renderSeed: renderSeed}
	defer func() {
		if pc.reducedPath != "" {
			os.Remove(pc.reducedPath)
		}
	}()
	if os.Getenv("C11_DEBUG") != "" {
		fmt.Fprintln(os.Stderr, d.describe())
		os.WriteFile("/tmp/c11-debug.pdf", data, 0o644)
	}
	c.Case(docHash(d)+fmt.Sprint(reqs), d.nontrivial())
	for _, f := range d.featureList() {
		c.Seen("feature", f)
	}
	c.Seen("pages", fmt.Sprint(d.NPages))
	nMust, nDel, nProtMargin := 0, 0, 0
	for _, u := range d.Units {
		if u.Must {
			nMust++
		}
		if u.Deletable {
			nDel++
		}
		if u.Band != bandBody && !u.Deletable {
			nProtMargin++
		}
	}
	c.Count("units", int64(len(d.Units)))
	c.Count("units_must_remove", int64(nMust))
	c.Count("units_may_remove", int64(nDel-nMust))
	c.Count("units_marginal_protected", int64(nProtMargin))
	c.Sample(map[string]any{"id": id, "pages": d.NPages, "features": d.featureList(), "units": len(d.Units), "must_remove": nMust, "requests": fmt.Sprint(reqs)})

	detail := func() map[string]any {
		return map[string]any{"document": strings.Split(strings.TrimSpace(d.describe()), "\n"), "features": d.featureList(), "pdf_bytes": len(data)}
	}
	report := func(v verdict) {
		if d.CharLevel {
			v.Class = "char-level/" + v.Class
			v.What = "[character-level document] " + v.What
		}
		c.Fail(v.Finding, v.Class, id, v.What, detail())
	}
	c.Guard("direct", id, detail(), func() {
		v, ok := directCheck(c, pc)
		if !ok {
			c.Count("direct_baseline_mismatch", 1)
			return
		}
		if v.Class != "" {
			report(v)
		} else {
			pc.directOK = true
		}
	})
	for _, q := range reqs {
		q := q
		c.Seen("api", q.API+"/"+q.TM)
		c.Seen("mode", q.Mode)
		c.Guard("facade", id, detail(), func() {
			v, ok := facadeCheck(c, pc, q)
			c.Count("facade_requests", 1)
			if !ok {
				c.Count("facade_baseline_mismatch", 1)
				c.Seen("facade_baseline_mismatch_at", q.API+"/"+q.TM+fmt.Sprintf("/char=%v", d.CharLevel))
				return
			}
			if len(q.Sel) > 0 {
				c.Count("facade_requests_with_page_subset", 1)
			}
			if v.Class != "" {
				report(v)
			}
		})
	}
}

// Run is the C11 check.
func Run(c *fw.Ctx) {
	c.Rule("case = generated document (1-12 pages; running / odd-even / some-pages header and footer lines, page numbers in 5 styles, unique marginal lines, body lines incl. numeric, repeated and header-text copies; short pages; character-level pages) x 5 facade requests (API, mode, page subset, text mode) + the direct detector; " +
		"non-trivial iff >= 2 pages carry >= 1 marginal and >= 1 body unit each; distinct by hash of all units (role, position, text) and requests")
	c.Assume("bands are the top and bottom 72 pt of the page box; marginal units lie entirely inside a band, body units >= 100 pt from either edge",
		"'repeats at that position' = identical literal text at the identical baseline origin (relative to the band's page edge) on >= 2 pages",
		"must-remove = identical line at the same marginal position on every page, or a page number of a series present on every page; under ExcludeHeaders alone only top-band lines, under ExcludeFooters alone only bottom-band lines are required to go (weaker reading)",
		"the statement does not separate headers from footers in what may be deleted, so ExcludeHeaders deleting a repeated footer is not reported",
		"text outputs are compared as sequences of atoms (unique tokens and numbers); a comparison is skipped (counted) when the output without exclusion does not show every constructed unit exactly once (that is C01/C09's matter)")
	dir := filepath.Join(c.Work, "c11")
	os.MkdirAll(dir, 0o755)
	n := c.N(2500, 40000)
	c.Parallel(n, func(i int) { runPDF(c, dir, i) })
	runWitness(c, dir)
	runNumberOnlyWitness(c, dir)
	runOffice(c, dir)
	c.Count("facade_views_on_a_pre_used_shared_reader", sharedReaderViews.Load())

	if c.Only == "" {
		if mm, tot := c.Counter("facade_baseline_mismatch"), c.Counter("facade_requests"); tot > 0 && mm*5 > tot {
			c.Inconclusive(fmt.Sprintf("%d of %d facade comparisons skipped because the unfiltered output did not match the construction", mm, tot))
		}
		if mm, tot := c.Counter("direct_baseline_mismatch"), int64(n); mm*20 > tot {
			c.Inconclusive(fmt.Sprintf("%d of %d direct comparisons skipped because extracted fragments did not match the construction", mm, tot))
		}
	}
}
