// Package c15: Markdown output keeps table, heading and list structure.
//
// A logical document (gen/logical) is rendered to Markdown by tabula through
// a *backend* (a file format written by an independent writer and opened with
// tabula.Open(f).ToMarkdownWithOptions, or a direct renderer such as
// model.Table.ToMarkdown / rag.ChunkCollection) under every combination of
// Markdown options, read back with ref/gfm and compared with the logical
// document: every table the same rows x columns of cell texts (merged
// regions: text at the top-left position, blanks elsewhere), every heading an
// ATX heading of level clamp(source+offset, 1, min(max, 6)), list items in
// order with their depth and kind, no body token lost.
//
// Further formats plug in by implementing FileWriter (logical document ->
// file bytes + extension) and registering FileBackend(...) in Backends().
package c15

import (
	"fmt"
	"math/rand"
	"os"
	"path/filepath"
	"sort"
	"strings"

	"github.com/tsawler/tabula"
	"github.com/tsawler/tabula/docx"
	"github.com/tsawler/tabula/model"
	"github.com/tsawler/tabula/odt"
	"github.com/tsawler/tabula/pptx"
	"github.com/tsawler/tabula/rag"
	"github.com/tsawler/tabula/xlsx"

	"verifharness/fw"
	"verifharness/gen/epubw"
	"verifharness/gen/htmlw"
	"verifharness/gen/logical"
	"verifharness/gen/odf"
	"verifharness/gen/ooxml"
)

// FileWriter is the small interface a document format implements to take
// part in C15: logical document -> file bytes, plus the file extension that
// makes tabula.Open pick the format.
type FileWriter interface {
	Ext() string // ".docx"
	// Write serialises the document; r selects among equivalent spellings;
	// neutral lists trigger features to write in their neutral form.
	Write(d *logical.Doc, r *rand.Rand, neutral map[string]bool) []byte
}

// Backend renders a logical document to Markdown through tabula.
type Backend interface {
	Name() string
	Profile(r *rand.Rand) logical.Profile
	// Markdown returns tabula's Markdown for the document.
	Markdown(c *fw.Ctx, id string, d *logical.Doc, r *rand.Rand, neutral map[string]bool, o rag.MarkdownOptions) (string, error)
	// Expect adapts the comparison to what the backend can express.
	Expect(o *MDOpts)
	// Triggers lists the known-finding trigger features present in d.
	Triggers(d *logical.Doc) map[string]bool
	// UsesOptions: the backend honours rag.MarkdownOptions.
	UsesOptions() bool
}

// ---------------------------------------------------------------------------
// file backends

type fileBackend struct {
	name    string
	w       FileWriter
	profile func(r *rand.Rand) logical.Profile
	trig    func(d *logical.Doc) map[string]bool
}

// FileBackend wraps a FileWriter: the file is written to the run's scratch
// directory and rendered with tabula.Open(path).ToMarkdownWithOptions(opts).
func FileBackend(name string, w FileWriter, profile func(r *rand.Rand) logical.Profile, trig func(d *logical.Doc) map[string]bool) Backend {
	return &fileBackend{name, w, profile, trig}
}

func (b *fileBackend) Name() string                         { return b.name }
func (b *fileBackend) Profile(r *rand.Rand) logical.Profile { return b.profile(r) }
func (b *fileBackend) Expect(o *MDOpts)                     {}
func (b *fileBackend) UsesOptions() bool                    { return true }
func (b *fileBackend) Triggers(d *logical.Doc) map[string]bool {
	if b.trig == nil {
		return nil
	}
	return b.trig(d)
}
func (b *fileBackend) Markdown(c *fw.Ctx, id string, d *logical.Doc, r *rand.Rand, neutral map[string]bool, o rag.MarkdownOptions) (string, error) {
	data := b.w.Write(d, r, neutral)
	path := filepath.Join(c.Work, strings.NewReplacer(":", "_", "#", "_", "/", "_").Replace(id)+b.w.Ext())
	if err := os.WriteFile(path, data, 0o644); err != nil {
		return "", err
	}
	defer os.Remove(path)
	// half of the word-processor cases go through the format's own Reader, which
	// first serves its side views (tables, lists, model) — the rendering that
	// follows must be the same document
	if r.Intn(2) == 0 {
		switch b.w.Ext() {
		case ".docx":
			if rd, err := docx.Open(path); err == nil {
				defer rd.Close()
				rd.Tables()
				rd.ModelTables()
				rd.Lists()
				if r.Intn(2) == 0 {
					rd.Markdown()
					rd.Document()
				}
				return rd.MarkdownWithRAGOptions(docx.ExtractOptions{}, o)
			}
		case ".odt":
			if rd, err := odt.Open(path); err == nil {
				defer rd.Close()
				rd.Tables()
				rd.ModelTables()
				rd.Lists()
				if r.Intn(2) == 0 {
					rd.Markdown()
					rd.Document()
				}
				return rd.MarkdownWithRAGOptions(odt.ExtractOptions{}, o)
			}
		}
	}
	md, _, err := tabula.Open(path).ToMarkdownWithOptions(o)
	return md, err
}

type docxWriter struct{}

func (docxWriter) Ext() string { return ".docx" }
func (docxWriter) Write(d *logical.Doc, r *rand.Rand, neutral map[string]bool) []byte {
	return ooxml.WriteDocx(d, ooxml.DocxOptions{Neutral: neutral, Pretty: r.Intn(2) == 0, Store: r.Intn(4) == 0,
		BodyStyle: []string{"", "Normal", "BodyText", "BodyText"}[r.Intn(4)], OutlineKeepsBodyStyle: r.Intn(4) > 0})
}

type odtWriter struct{}

func (odtWriter) Ext() string { return ".odt" }
func (odtWriter) Write(d *logical.Doc, r *rand.Rand, neutral map[string]bool) []byte {
	return odf.WriteODT(d, odf.Options{Neutral: neutral, Pretty: r.Intn(2) == 0, ColumnsRepeated: r.Intn(2) == 0,
		BodyStyle: []string{"", "Standard", "Text_20_body"}[r.Intn(3)]})
}

func wpProfile(hows []string) func(r *rand.Rand) logical.Profile {
	return func(r *rand.Rand) logical.Profile {
		p := logical.Profile{
			MinBlocks: 2, MaxBlocks: 8,
			Tab: true, Break: true, Sym: true, Spaces: true,
			HeadingHows: hows, MaxHeadingLevel: 9,
			Lists: true, ListMaxDepth: 4, ListJumps: true,
			Tables: true, MaxRows: 5, MaxCols: 5, Spans: true, MultiPara: true, EmptyCells: true, CellSpecials: true, HeaderRows: true,
			Pipes: true, Backslash: true, XMLChars: true, Title: true, HeaderFooter: true,
			BlockBias: []string{"", "tables", "tables", "lists", "headings"}[r.Intn(5)],
		}
		if r.Intn(10) == 0 {
			p.MaxRows, p.MaxCols = 8, 8
		}
		return p
	}
}

// ---------------------------------------------------------------------------
// direct backends

// tableBackend: model.Table.ToMarkdown() of every table of the document.
type tableBackend struct{}

func (tableBackend) Name() string { return "model.Table" }
func (tableBackend) Profile(r *rand.Rand) logical.Profile {
	return logical.Profile{MinBlocks: 1, MaxBlocks: 3, Tables: true, MaxRows: 8, MaxCols: 8, Spans: true, MultiPara: true,
		EmptyCells: true, CellSpecials: true, Tab: true, Break: true, Sym: true, Pipes: true, Backslash: true, BlockBias: "tables", Styles: 2}
}
func (tableBackend) Expect(o *MDOpts)                        { o.NoHeadings, o.NoLists = true, true }
func (tableBackend) UsesOptions() bool                       { return false }
func (tableBackend) Triggers(d *logical.Doc) map[string]bool { return nil }

// ModelTable builds the model.Table of a logical table.
func ModelTable(t *logical.Table) *model.Table {
	mt := model.NewTable(t.NRows, t.NCols)
	g := t.Grid()
	for r := 0; r < t.NRows; r++ {
		for c := 0; c < t.NCols; c++ {
			cell := model.Cell{Text: g[r][c], RowSpan: 1, ColSpan: 1}
			if lc := t.Cells[r][c]; lc != nil {
				cell.RowSpan, cell.ColSpan = lc.RowSpan, lc.ColSpan
			}
			mt.SetCell(r, c, cell)
		}
	}
	return mt
}

func (tableBackend) Markdown(c *fw.Ctx, id string, d *logical.Doc, r *rand.Rand, neutral map[string]bool, o rag.MarkdownOptions) (string, error) {
	var sb strings.Builder
	for i := range d.Blocks {
		b := &d.Blocks[i]
		switch b.Kind {
		case logical.BTable:
			sb.WriteString(ModelTable(b.Table).ToMarkdown())
			sb.WriteString("\n")
		case logical.BPara:
			// body text between the tables, written by the harness itself
			sb.WriteString(strings.ReplaceAll(b.Para.PlainText(), "\n", " "))
			sb.WriteString("\n\n")
		}
	}
	return sb.String(), nil
}

// pptxBackend: the tables (and text boxes) of a generated deck, rendered through
// tabula.Open(x.pptx).ToMarkdownWithOptions or pptx.Reader.Markdown. PresentationML
// has neither headings nor lists of the word-processor kind: only the tables and
// the body text are compared.
type pptxBackend struct{}

func (pptxBackend) Name() string { return "pptx" }
func (pptxBackend) Profile(r *rand.Rand) logical.Profile {
	return logical.Profile{MinBlocks: 1, MaxBlocks: 5, Tables: true, MaxRows: 6, MaxCols: 6, Spans: true, MultiPara: true,
		EmptyCells: true, CellSpecials: true, Tab: true, Break: true, Sym: true, Pipes: true, Backslash: true, XMLChars: true,
		Lists: true, ListMaxDepth: 3, BlockBias: []string{"tables", "tables", "lists"}[r.Intn(3)], Styles: 2}
}
func (pptxBackend) Expect(o *MDOpts)                        { o.NoHeadings = true }
func (pptxBackend) UsesOptions() bool                       { return false }
func (pptxBackend) Triggers(d *logical.Doc) map[string]bool { return nil }
func (pptxBackend) Markdown(c *fw.Ctx, id string, d *logical.Doc, r *rand.Rand, neutral map[string]bool, o rag.MarkdownOptions) (string, error) {
	data := ooxml.WritePptx(d, r)
	path := filepath.Join(c.Work, strings.NewReplacer(":", "_", "#", "_", "/", "_").Replace(id)+".pptx")
	if err := os.WriteFile(path, data, 0o644); err != nil {
		return "", err
	}
	defer os.Remove(path)
	if r.Intn(2) == 0 {
		rd, err := pptx.Open(path)
		if err != nil {
			return "", err
		}
		defer rd.Close()
		if r.Intn(2) == 0 {
			rd.Text()
			rd.Document()
		}
		return rd.Markdown()
	}
	md, _, err := tabula.Open(path).ToMarkdownWithOptions(o)
	return md, err
}

// xlsxBackend: every table of the document becomes one worksheet (cells as
// inline / shared strings, merged regions from the spans), rendered through
// tabula.Open(x.xlsx).ToMarkdownWithOptions or xlsx.Reader.Markdown. Only the
// tables are compared (a workbook has no headings, lists or body paragraphs).
type xlsxBackend struct{}

func (xlsxBackend) Name() string { return "xlsx" }
func (xlsxBackend) Profile(r *rand.Rand) logical.Profile {
	return logical.Profile{MinBlocks: 1, MaxBlocks: 3, Tables: true, MaxRows: 8, MaxCols: 8, Spans: true, MultiPara: true,
		EmptyCells: true, CellSpecials: true, Tab: true, Break: true, Sym: true, Pipes: true, Backslash: true, XMLChars: true, BlockBias: "tables", Styles: 2}
}
func (xlsxBackend) Expect(o *MDOpts)                        { o.NoHeadings, o.NoLists = true, true }
func (xlsxBackend) UsesOptions() bool                       { return false }
func (xlsxBackend) Triggers(d *logical.Doc) map[string]bool { return nil }

// Normalize keeps the tables only and makes every table start with a token (the
// comparison finds a table by its first token) — a sheet holds nothing else.
func (xlsxBackend) Normalize(d *logical.Doc) {
	var keep []logical.Block
	for _, b := range d.Blocks {
		if b.Kind != logical.BTable || b.Table.FirstToken() == "" {
			continue
		}
		// a sheet has no size of its own: its grid ends with the last row / column
		// that holds a value, so tables beginning or ending with an empty row or column are left out
		g := b.Table.Grid()
		lastRow, lastCol, firstRow, firstCol := false, false, false, false
		for cc := range g[len(g)-1] {
			lastRow = lastRow || strings.TrimSpace(g[len(g)-1][cc]) != ""
			firstRow = firstRow || strings.TrimSpace(g[0][cc]) != ""
		}
		for rr := range g {
			lastCol = lastCol || strings.TrimSpace(g[rr][len(g[rr])-1]) != ""
			firstCol = firstCol || strings.TrimSpace(g[rr][0]) != ""
		}
		if lastRow && lastCol && firstRow && firstCol {
			keep = append(keep, b)
		}
	}
	d.Blocks = keep
}
func (xlsxBackend) Markdown(c *fw.Ctx, id string, d *logical.Doc, r *rand.Rand, neutral map[string]bool, o rag.MarkdownOptions) (string, error) {
	wb := &ooxml.XWorkbook{Styles: r.Intn(2) == 0}
	n := 0
	for bi := range d.Blocks {
		t := d.Blocks[bi].Table
		if d.Blocks[bi].Kind != logical.BTable || t == nil {
			continue
		}
		n++
		sh := ooxml.XSheet{Name: fmt.Sprintf("T%d", n), Part: fmt.Sprintf("xl/worksheets/sheet%d.xml", n), RID: fmt.Sprintf("rId%d", n), SheetID: n, Dimension: r.Intn(2) == 0}
		g := t.Grid()
		for rr := 0; rr < t.NRows; rr++ {
			for cc := 0; cc < t.NCols; cc++ {
				cell := t.Cells[rr][cc]
				if cell == nil {
					continue
				}
				kind := []ooxml.XKind{ooxml.XShared, ooxml.XInline}[r.Intn(2)]
				if g[rr][cc] == "" {
					kind = ooxml.XBlank
				}
				xc := ooxml.XCell{Col: cc, Row: rr, Kind: kind, V: g[rr][cc]}
				if kind == ooxml.XShared && r.Intn(3) == 0 {
					xc.Phonetic = "yomi" // a phonetic run is no part of the displayed value
				}
				sh.Cells = append(sh.Cells, xc)
				if cell.RowSpan > 1 || cell.ColSpan > 1 {
					sh.Merges = append(sh.Merges, ooxml.XMerge{C0: cc, R0: rr, C1: cc + max(1, cell.ColSpan) - 1, R1: rr + max(1, cell.RowSpan) - 1})
				}
			}
		}
		// the used range reaches the last grid row / column also when those hold no value
		sh.Cells = append(sh.Cells, ooxml.XCell{Col: t.NCols - 1, Row: t.NRows - 1, Kind: ooxml.XBlank})
		wb.Sheets = append(wb.Sheets, sh)
	}
	if n == 0 {
		return "", nil
	}
	path := filepath.Join(c.Work, strings.NewReplacer(":", "_", "#", "_", "/", "_").Replace(id)+".xlsx")
	if err := os.WriteFile(path, ooxml.PartZip(wb.Members(r)), 0o644); err != nil {
		return "", err
	}
	defer os.Remove(path)
	if r.Intn(2) == 0 {
		rd, err := xlsx.Open(path)
		if err != nil {
			return "", err
		}
		defer rd.Close()
		return rd.Markdown()
	}
	md, _, err := tabula.Open(path).ToMarkdownWithOptions(o)
	return md, err
}

// htmlBackend: the document written as an HTML page, rendered through
// tabula.FromHTMLString(...).ToMarkdownWithOptions or tabula.Open(x.html).
type htmlBackend struct{}

func (htmlBackend) Name() string { return "html" }
func (htmlBackend) Profile(r *rand.Rand) logical.Profile {
	return logical.Profile{MinBlocks: 2, MaxBlocks: 8, Tab: true, Break: true, Sym: true, HeadingHows: []string{"h"}, MaxHeadingLevel: 6,
		Lists: true, ListMaxDepth: 3, Tables: true, MaxRows: 5, MaxCols: 5, Spans: true, MultiPara: true, EmptyCells: true, CellSpecials: true, HeaderRows: true,
		Pipes: true, Backslash: true, XMLChars: true, Title: true, Wraps: []string{"link"},
		BlockBias: []string{"", "tables", "tables", "lists", "headings"}[r.Intn(5)]}
}

// Normalize: HTML has no cell elements for covered positions, so a grid row that
// is covered completely from above would be an empty <tr> — a row no reader can
// tell from formatting noise. Tables with such a row are written without spans.
func (htmlBackend) Normalize(d *logical.Doc) {
	for bi := range d.Blocks {
		t := d.Blocks[bi].Table
		if d.Blocks[bi].Kind != logical.BTable || t == nil {
			continue
		}
		full := false
		for r := range t.Cells {
			n := 0
			for _, c := range t.Cells[r] {
				if c != nil {
					n++
				}
			}
			full = full || n == 0
		}
		if !full {
			continue
		}
		for r := range t.Cells {
			for c := range t.Cells[r] {
				if t.Cells[r][c] == nil {
					t.Cells[r][c] = &logical.Cell{Paras: []logical.Para{{}}, RowSpan: 1, ColSpan: 1}
				} else {
					t.Cells[r][c].RowSpan, t.Cells[r][c].ColSpan = 1, 1
				}
			}
		}
	}
}
func (htmlBackend) Expect(o *MDOpts)                        {}
func (htmlBackend) UsesOptions() bool                       { return true }
func (htmlBackend) Triggers(d *logical.Doc) map[string]bool { return nil }
func (htmlBackend) Markdown(c *fw.Ctx, id string, d *logical.Doc, r *rand.Rand, neutral map[string]bool, o rag.MarkdownOptions) (string, error) {
	if r.Intn(3) == 0 {
		// the same content as the only chapter of an EPUB
		path := filepath.Join(c.Work, strings.NewReplacer(":", "_", "#", "_", "/", "_").Replace(id)+".epub")
		if err := os.WriteFile(path, epubw.SimpleBook(d.Title, [][]byte{htmlw.XHTMLFromLogical(d)}), 0o644); err != nil {
			return "", err
		}
		defer os.Remove(path)
		md, _, err := tabula.Open(path).ToMarkdownWithOptions(o)
		return md, err
	}
	data := htmlw.FromLogical(d)
	if r.Intn(2) == 0 {
		md, _, err := tabula.FromHTMLString(string(data)).ToMarkdownWithOptions(o)
		return md, err
	}
	path := filepath.Join(c.Work, strings.NewReplacer(":", "_", "#", "_", "/", "_").Replace(id)+".html")
	if err := os.WriteFile(path, data, 0o644); err != nil {
		return "", err
	}
	defer os.Remove(path)
	md, _, err := tabula.Open(path).ToMarkdownWithOptions(o)
	return md, err
}

// ragBackend: model.Document -> rag.DocumentChunker -> ChunkCollection.ToMarkdownWithOptions.
type ragBackend struct{}

func (ragBackend) Name() string { return "rag.ChunkCollection" }
func (ragBackend) Profile(r *rand.Rand) logical.Profile {
	// at most 6 blocks: a run of consecutive paragraphs stays far below the
	// chunker's 2000-character split limit (splitting is C13's subject)
	return logical.Profile{MinBlocks: 2, MaxBlocks: 6, HeadingHows: []string{"model"}, MaxHeadingLevel: 9,
		Lists: true, ListMaxDepth: 4, ListJumps: true, Tables: true, MaxRows: 5, MaxCols: 5, Spans: true, MultiPara: true, EmptyCells: true,
		Tab: true, Sym: true, Pipes: true, Backslash: true, Title: true, Styles: 1,
		BlockBias: []string{"", "tables", "lists", "headings"}[r.Intn(4)]}
}

// model.List has one Ordered flag: the kind of the first item's level.
func (ragBackend) Expect(o *MDOpts)                        { o.NoListKind = true }
func (ragBackend) UsesOptions() bool                       { return true }
func (ragBackend) Triggers(d *logical.Doc) map[string]bool { return nil }

// ModelDocument builds a one-page model.Document from the logical document.
func ModelDocument(d *logical.Doc) *model.Document {
	doc := model.NewDocument()
	doc.Metadata.Title = d.Title
	page := model.NewPage(612, 792)
	page.Number = 1
	y := 750.0
	for i := range d.Blocks {
		b := &d.Blocks[i]
		box := model.BBox{X: 72, Y: y, Width: 468, Height: 14}
		y -= 18
		switch b.Kind {
		case logical.BPara:
			if b.Para.Empty() {
				continue
			}
			page.AddElement(&model.Paragraph{Text: b.Para.PlainText(), BBox: box})
		case logical.BHeading:
			page.AddElement(&model.Heading{Text: b.Heading.Para.PlainText(), Level: b.Heading.Level, BBox: box})
		case logical.BList:
			l := &model.List{Ordered: b.List.Ordered[0], BBox: box}
			for _, it := range b.List.Items {
				bullet := "•"
				if l.Ordered {
					bullet = "1."
				}
				l.Items = append(l.Items, model.ListItem{Text: it.Para.PlainText(), Level: it.Level, Bullet: bullet})
			}
			page.AddElement(l)
		case logical.BTable:
			mt := ModelTable(b.Table)
			mt.BBox = box
			page.AddElement(mt)
		}
	}
	doc.AddPage(page)
	return doc
}

func (ragBackend) Markdown(c *fw.Ctx, id string, d *logical.Doc, r *rand.Rand, neutral map[string]bool, o rag.MarkdownOptions) (string, error) {
	cc := rag.NewDocumentChunker().ChunkDocument(ModelDocument(d))
	if r.Intn(2) == 0 {
		// the same collection has been rendered before, under other options (a caller
		// that writes one file per option set): a rendering depends on the collection
		// and the options, not on earlier renderings
		cc.ToMarkdownWithOptions(rag.MarkdownOptions{IncludeMetadata: true, IncludeTableOfContents: true, HeadingLevelOffset: 1 + r.Intn(3), MaxHeadingLevel: 1 + r.Intn(6)})
		cc.ToMarkdown()
	}
	return cc.ToMarkdownWithOptions(o), nil
}

// Backends lists the registered backends. XLSX, PPTX, HTML and EPUB are added
// here as FileBackend(name, writer, profile, triggers) once their writers exist.
func Backends() []Backend {
	return []Backend{
		FileBackend("docx", docxWriter{}, wpProfile([]string{"builtin", "builtin", "custom", "basedon", "localized", "outline-style", "outline-direct", "outline-direct"}), nil),
		FileBackend("odt", odtWriter{}, wpProfile([]string{"h", "h", "h-custom", "h-nolevelstyle", "h-mismatch", "h-nostyle"}), nil),
		tableBackend{},
		ragBackend{},
		pptxBackend{},
		htmlBackend{},
		xlsxBackend{},
	}
}

// ---------------------------------------------------------------------------

func nontrivial(d *logical.Doc) bool {
	levels := map[int]bool{}
	for i := range d.Blocks {
		b := &d.Blocks[i]
		switch b.Kind {
		case logical.BTable:
			if b.Table.NRows >= 2 && b.Table.NCols >= 2 {
				return true
			}
		case logical.BHeading:
			levels[b.Heading.Level] = true
		case logical.BList:
			for _, it := range b.List.Items {
				if it.Level > 0 {
					return true
				}
			}
		}
	}
	return len(levels) >= 2
}

type optCombo struct {
	meta, toc   bool
	offset, max int
}

func (o optCombo) String() string {
	return fmt.Sprintf("meta=%v toc=%v offset=%d max=%d", o.meta, o.toc, o.offset, o.max)
}

func (o optCombo) ragOptions() rag.MarkdownOptions {
	m := rag.DefaultMarkdownOptions()
	m.IncludeMetadata = o.meta
	m.IncludeTableOfContents = o.toc
	m.HeadingLevelOffset = o.offset
	m.MaxHeadingLevel = o.max
	return m
}

// check renders and compares one (document, backend, options) triple.
func check(c *fw.Ctx, id string, b Backend, d *logical.Doc, r *rand.Rand, neutral map[string]bool, oc optCombo, count bool) ([]Problem, map[string]any) {
	detail := map[string]any{"backend": b.Name(), "options": oc.String(), "document": d.Describe()}
	var probs []Problem
	ok := c.Guard("c15/"+b.Name(), id, detail, func() {
		md, err := b.Markdown(c, id, d, r, neutral, oc.ragOptions())
		if err != nil {
			probs = append(probs, Problem{"error", err.Error()})
			return
		}
		if len(md) > 2500 {
			detail["markdown"] = md[:2500] + "…"
		} else {
			detail["markdown"] = md
		}
		body, hadFM, hadTOC := StripPreamble(md)
		if count {
			if hadFM {
				c.Count("front_matter_seen", 1)
			}
			if hadTOC {
				c.Count("toc_seen", 1)
			}
		}
		sk := logical.SkeletonOf(d.Units())
		probs = append(probs, TraceTokens(body, sk, TraceOpts{Markdown: true, LossOnly: true})...)
		mo := MDOpts{Offset: oc.offset, Max: oc.max}
		if !b.UsesOptions() {
			mo = MDOpts{Max: 6}
		}
		b.Expect(&mo)
		ps, st := CompareMarkdown(d, body, mo)
		probs = append(probs, ps...)
		if count {
			for k, v := range st {
				c.Count(k, int64(v))
			}
			c.Count("tokens_checked", int64(len(sk.Tokens)))
			c.Count("renderings", 1)
		}
	})
	if !ok {
		probs = append(probs, Problem{"panic", "panic (reported separately)"})
	}
	return probs, detail
}

// Run is the C15 check.
func Run(c *fw.Ctx) {
	c.Rule("case = (logical document, backend, Markdown options); non-trivial iff the document has >= 1 table of >= 2x2 cells or >= 2 heading levels or a nested list; " +
		"distinct by hash of backend + options + document description")
	c.Assume("ref/gfm reads pipe tables per GFM §4.10 (header and delimiter row must have the same cell count, short rows are padded, `\\|` is a literal pipe), ATX headings per §4.2, list items with their indentation",
		"cell texts are compared white-space-free after removing backslash escapes; a backslash directly before a pipe is never generated (GFM implementations disagree on it)",
		"list nesting is taken from indentation (weaker than CommonMark's content-column rule)",
		"front matter and a generated table of contents are renderer additions and are removed before the comparison",
		"model.List carries one Ordered flag, so the chunk-collection backend does not assert the kind of nested levels")

	backends := Backends()
	if f := os.Getenv("C15_DEV_BACKEND"); f != "" { // development aid: one backend at a time
		var keep []Backend
		for _, b := range backends {
			if b.Name() == f {
				keep = append(keep, b)
			}
		}
		backends = keep
	}
	// all option combinations
	var combos []optCombo
	for _, meta := range []bool{false, true} {
		for _, toc := range []bool{false, true} {
			for off := -2; off <= 7; off++ {
				for max := 1; max <= 6; max++ {
					combos = append(combos, optCombo{meta, toc, off, max})
				}
			}
		}
	}
	c.Extra("option_combinations", len(combos))
	n := c.N(2000, 60000)
	perDoc := 3
	c.Parallel(n, func(i int) {
		id := fmt.Sprintf("doc:%d", i)
		if !(c.Want(id) || strings.HasPrefix(c.Only, id+"/")) {
			return
		}
		b := backends[i%len(backends)]
		r := c.Rand("doc", i)
		tk := fw.NewTokens(c.Rand("doc", i, "tokens"))
		d := logical.Gen(r, tk, b.Profile(c.Rand("doc", i, "profile")))
		if nb, ok := b.(interface{ Normalize(*logical.Doc) }); ok {
			nb.Normalize(d)
		}
		or := c.Rand("doc", i, "options")
		nt := nontrivial(d)
		for _, f := range d.FeatureList() {
			c.Seen("feature", f)
		}
		c.Seen("backend", b.Name())
		k := perDoc
		if !b.UsesOptions() {
			k = 1
		}
		for j := 0; j < k; j++ {
			// the i-th document takes combos in a stride so that all 240 are covered quickly
			oc := combos[(i*perDoc+j*7+or.Intn(len(combos)))%len(combos)]
			if j == 0 && i%3 == 0 {
				oc = optCombo{false, false, 0, 6} // defaults = ToMarkdown()
			}
			cid := fmt.Sprintf("%s/%d", id, j)
			if !(c.Want(id) || c.Want(cid)) {
				continue
			}
			c.Case(b.Name()+"|"+oc.String()+"|"+d.Describe(), nt)
			c.Seen("options", oc.String())
			c.Seen("offset", fmt.Sprint(oc.offset))
			c.Seen("max", fmt.Sprint(oc.max))
			probs, detail := check(c, cid, b, d, c.Rand("doc", i, "writer"), nil, oc, true)
			if len(probs) == 0 {
				continue
			}
			c.Sample(map[string]any{"id": cid, "backend": b.Name(), "options": oc.String(), "problems": len(probs)})
			seen := map[string]bool{}
			var all []string
			for _, p := range probs {
				all = append(all, p.String())
			}
			sort.Strings(all)
			detail["problems"] = all
			for _, p := range probs {
				if seen[p.Class] {
					continue
				}
				seen[p.Class] = true
				c.Fail("", b.Name()+"/"+p.Class, cid, fmt.Sprintf("%s [%s]: %s", b.Name(), oc.String(), p.What), detail)
			}
		}
		if i < 4 {
			c.Sample(map[string]any{"id": id, "backend": b.Name(), "features": d.FeatureList(), "blocks": len(d.Blocks)})
		}
	})
	c.Exhaustive(false)
	if c.Only == "" && os.Getenv("C15_DEV_BACKEND") == "" && c.SeenCount("options") < len(combos) {
		c.Inconclusive(fmt.Sprintf("only %d of %d option combinations exercised", c.SeenCount("options"), len(combos)))
	}
}
