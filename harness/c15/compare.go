package c15

import (
	"fmt"
	"strings"
	"unicode"

	"verifharness/fw"
	"verifharness/gen/logical"
	"verifharness/ref/gfm"
)

// Problem is one failed comparison.
type Problem struct {
	Class string // stable class name (groups equivalent failures)
	What  string // human-readable witness
}

func (p Problem) String() string { return p.Class + ": " + p.What }

// TokenPos is a token occurrence in an output.
type TokenPos struct {
	Tok        string
	Start, End int
}

// FindTokenPos is fw.FindTokens with positions.
func FindTokenPos(s string) []TokenPos {
	var out []TokenPos
	for i := 0; i+fw.TokenLen <= len(s); i++ {
		if s[i] != 'q' || s[i+4] != 'z' {
			continue
		}
		ok := true
		for j := 1; j < fw.TokenLen; j++ {
			ch := s[i+j]
			if ch < 'a' || ch > 'z' || ch == 'q' {
				ok = false
				break
			}
		}
		if ok {
			out = append(out, TokenPos{s[i : i+fw.TokenLen], i, i + fw.TokenLen})
			i += fw.TokenLen - 1
		}
	}
	return out
}

// Squash removes all white space (and, for Markdown outputs, the
// backslashes an escaping writer may add).
func Squash(s string, md bool) string {
	var sb strings.Builder
	for _, r := range s {
		if unicode.IsSpace(r) || r == 0xA0 {
			continue
		}
		if md && r == '\\' {
			continue
		}
		sb.WriteRune(r)
	}
	return sb.String()
}

func hasSpace(s string) bool {
	for _, r := range s {
		if unicode.IsSpace(r) || r == 0xA0 {
			return true
		}
	}
	return false
}

func isSubsequence(needle, hay string) bool {
	n := []rune(needle)
	if len(n) == 0 {
		return true
	}
	k := 0
	for _, r := range hay {
		if r == n[k] {
			k++
			if k == len(n) {
				return true
			}
		}
	}
	return false
}

func short(s string) string {
	if len(s) > 80 {
		return fmt.Sprintf("%q…", s[:80])
	}
	return fmt.Sprintf("%q", s)
}

// TraceOpts configures TraceTokens.
type TraceOpts struct {
	Markdown  bool // output is Markdown (escapes allowed)
	OrderOnly bool // do not look at the gaps
	LossOnly  bool // only report missing tokens (C15: "no body text is lost")
	Foreign   map[string]string
	// Foreign: tokens that must not occur (header / footer parts), value = part name
}

// TraceTokens compares the token trace of an output with the expected
// skeleton: every token exactly once, in source order; between two tokens of
// the same paragraph the same non-blank characters, white space where the
// source has a tab / break / spaces, no tab or line break where the source
// has none; across paragraphs the trailing / leading inline content
// survives.
func TraceTokens(out string, sk *logical.Skeleton, o TraceOpts) []Problem {
	var probs []Problem
	got := FindTokenPos(out)
	expIdx := map[string]int{}
	for i, t := range sk.Tokens {
		expIdx[t] = i
	}
	count := map[string]int{}
	var body []TokenPos
	for _, g := range got {
		if part, bad := o.Foreign[g.Tok]; bad {
			probs = append(probs, Problem{"leak/" + part, fmt.Sprintf("token %s of the %s part occurs in the body output", g.Tok, part)})
			continue
		}
		if _, ok := expIdx[g.Tok]; !ok {
			probs = append(probs, Problem{"unknown-token", fmt.Sprintf("token %s is not part of the document", g.Tok)})
			continue
		}
		count[g.Tok]++
		body = append(body, g)
	}
	var missing []string
	for _, t := range sk.Tokens {
		if count[t] == 0 {
			missing = append(missing, t)
		}
	}
	if len(missing) > 0 {
		probs = append(probs, Problem{"loss", fmt.Sprintf("%d of %d tokens missing, first: %s (expected after %s)", len(missing), len(sk.Tokens), missing[0], prevTok(sk, expIdx[missing[0]]))})
	}
	if o.LossOnly {
		return probs
	}
	for _, t := range sk.Tokens {
		if count[t] > 1 {
			probs = append(probs, Problem{"duplicate", fmt.Sprintf("token %s occurs %d times", t, count[t])})
			break
		}
	}
	if len(missing) > 0 || len(probs) > 0 {
		// order of the surviving tokens
		last := -1
		for _, g := range body {
			if expIdx[g.Tok] < last {
				probs = append(probs, Problem{"order", fmt.Sprintf("token %s (source position %d) comes after a token of source position %d", g.Tok, expIdx[g.Tok], last)})
				break
			}
			last = expIdx[g.Tok]
		}
		return probs
	}
	// same multiset, every token once: order
	for i, g := range body {
		if g.Tok != sk.Tokens[i] {
			probs = append(probs, Problem{"order", fmt.Sprintf("position %d: got %s (source position %d), expected %s; preceding token %s", i, g.Tok, expIdx[g.Tok], sk.Tokens[i], prevTok(sk, i))})
			return probs
		}
	}
	if o.OrderOnly || len(body) == 0 {
		return probs
	}
	// gaps
	lead := out[:body[0].Start]
	if !isSubsequence(Squash(sk.Lead, o.Markdown), Squash(lead, o.Markdown)) {
		probs = append(probs, Problem{"inline-content", fmt.Sprintf("before %s: expected %s to survive, got %s", body[0].Tok, short(sk.Lead), short(lead))})
	}
	for i := 0; i+1 < len(body); i++ {
		g := out[body[i].End:body[i+1].Start]
		e := sk.Inner[i]
		if !sk.SamePara[i] {
			if !isSubsequence(Squash(e, o.Markdown), Squash(g, o.Markdown)) {
				probs = append(probs, Problem{"inline-content", fmt.Sprintf("between %s and %s (different paragraphs): expected %s to survive, got %s", body[i].Tok, body[i+1].Tok, short(e), short(g))})
			}
			continue
		}
		if Squash(g, o.Markdown) != Squash(e, o.Markdown) {
			probs = append(probs, Problem{"inline-content", fmt.Sprintf("between %s and %s (same paragraph): expected %s, got %s", body[i].Tok, body[i+1].Tok, short(e), short(g))})
			continue
		}
		if hasSpace(e) && !hasSpace(g) {
			probs = append(probs, Problem{"inline-space-lost", fmt.Sprintf("between %s and %s: source has %s, output has no white space (%s)", body[i].Tok, body[i+1].Tok, short(e), short(g))})
			continue
		}
		if strings.Count(g, "\t") > strings.Count(e, "\t") || strings.Count(g, "\n") > strings.Count(e, "\n") {
			probs = append(probs, Problem{"inline-space-moved", fmt.Sprintf("between %s and %s: source has %s, output has %s (a tab / line break the source does not have here)", body[i].Tok, body[i+1].Tok, short(e), short(g))})
		}
	}
	trail := out[body[len(body)-1].End:]
	if !isSubsequence(Squash(sk.Trail, o.Markdown), Squash(trail, o.Markdown)) {
		probs = append(probs, Problem{"inline-content", fmt.Sprintf("after %s: expected %s to survive, got %s", body[len(body)-1].Tok, short(sk.Trail), short(trail))})
	}
	return probs
}

func prevTok(sk *logical.Skeleton, i int) string {
	if i <= 0 {
		return "<start>"
	}
	return sk.Tokens[i-1]
}

// ---------------------------------------------------------------------------
// Markdown structure

// MDOpts are the Markdown options that matter to the comparison.
type MDOpts struct {
	Offset int // HeadingLevelOffset
	Max    int // MaxHeadingLevel (0 = none)
	// AssertPlain: a plain paragraph must not come out as a heading or a
	// list item (C16 "as authored"; not part of C15's statement).
	AssertPlain bool
	// SkipHeadingText: heading text that is not part of the body (a
	// document-title heading emitted by the chunk-collection renderer).
	TitleHeading string
	NoHeadings   bool // the backend cannot express headings
	NoLists      bool
	NoListKind   bool // the backend cannot express ordered / unordered per level
}

// ExpectedMDLevel is the level an ATX heading must have.
func ExpectedMDLevel(src int, o MDOpts) int {
	l := src + o.Offset
	if l < 1 {
		l = 1
	}
	max := 6
	if o.Max > 0 && o.Max < 6 {
		max = o.Max
	}
	if l > max {
		l = max
	}
	return l
}

// StripPreamble removes YAML front matter and a generated table of contents
// ("## Table of Contents" … next thematic break) from Markdown text; both are
// additions of the renderer, not body content.
func StripPreamble(md string) (body string, hadFrontMatter, hadTOC bool) {
	lines := strings.Split(md, "\n")
	i := 0
	if len(lines) > 0 && strings.TrimRight(lines[0], " \r") == "---" {
		for j := 1; j < len(lines); j++ {
			if strings.TrimRight(lines[j], " \r") == "---" {
				i = j + 1
				hadFrontMatter = true
				break
			}
		}
	}
	lines = lines[i:]
	for k, l := range lines {
		t := strings.TrimSpace(l)
		if strings.HasPrefix(t, "#") && strings.HasSuffix(t, "Table of Contents") {
			for j := k + 1; j < len(lines); j++ {
				if strings.TrimSpace(lines[j]) == "---" {
					lines = append(append([]string{}, lines[:k]...), lines[j+1:]...)
					hadTOC = true
					break
				}
			}
			break
		}
		if FindTokenPos(l) != nil {
			break // the TOC precedes all body content
		}
	}
	return strings.Join(lines, "\n"), hadFrontMatter, hadTOC
}

// CompareMarkdown checks the block structure of Markdown text (already
// stripped of front matter / TOC) against the logical document.
func CompareMarkdown(d *logical.Doc, md string, o MDOpts) (probs []Problem, stats map[string]int) {
	stats = map[string]int{}
	blocks := gfm.Parse(md)
	// token -> block index (and cell for tables)
	type loc struct{ b, r, c int }
	where := map[string]loc{}
	for bi, b := range blocks {
		switch b.Kind {
		case "table":
			for ri, row := range b.Rows {
				for ci, cell := range row {
					for _, t := range fw.FindTokens(cell) {
						if _, dup := where[t]; !dup {
							where[t] = loc{bi, ri, ci}
						}
					}
				}
			}
		default:
			for _, t := range fw.FindTokens(b.Text) {
				if _, dup := where[t]; !dup {
					where[t] = loc{bi, -1, -1}
				}
			}
		}
	}
	// Markdown expresses nesting relatively (an item indented further than its
	// predecessor is one level deeper, however much further): an authored level
	// jump (level 1 -> 3) therefore reads back as depth+1. The expected depth is
	// the rank of the authored level on the stack of enclosing authored levels.
	rankDepth := map[string]int{}
	{
		var stack []int
		for _, u := range d.Units() {
			if u.Kind != "item" {
				stack = stack[:0]
				continue
			}
			for len(stack) > 0 && stack[len(stack)-1] >= u.Level {
				stack = stack[:len(stack)-1]
			}
			if u.Para != nil {
				if tk := u.Para.Tokens(); len(tk) > 0 {
					rankDepth[tk[0]] = len(stack)
				}
			}
			stack = append(stack, u.Level)
		}
	}
	for _, u := range d.Units() {
		toks := u.Para.Tokens()
		if len(toks) == 0 {
			continue
		}
		l, ok := where[toks[0]]
		if !ok {
			continue // loss is reported by the token trace
		}
		b := blocks[l.b]
		switch u.Kind {
		case "heading":
			if o.NoHeadings {
				continue
			}
			want := ExpectedMDLevel(u.Level, o)
			stats["headings_compared"]++
			if b.Kind != "heading" {
				probs = append(probs, Problem{"heading-not-atx", fmt.Sprintf("heading %s (level %d, %s) is a %q block in the Markdown, not an ATX heading (line %d)", toks[0], u.Level, u.How, b.Kind, b.Line)})
				continue
			}
			if b.Level != want {
				probs = append(probs, Problem{"heading-level", fmt.Sprintf("heading %s authored at level %d (%s): ATX level %d, expected %d (offset %d, max %d)", toks[0], u.Level, u.How, b.Level, want, o.Offset, o.Max)})
				continue
			}
			for _, t := range toks[1:] {
				if l2, ok := where[t]; ok && l2.b != l.b {
					probs = append(probs, Problem{"heading-split", fmt.Sprintf("heading %s: token %s is outside the ATX heading line", toks[0], t)})
					break
				}
			}
		case "para":
			if !o.AssertPlain {
				continue
			}
			stats["plain_compared"]++
			if b.Kind == "heading" {
				probs = append(probs, Problem{"para-as-heading", fmt.Sprintf("plain paragraph %s comes out as an ATX heading of level %d", toks[0], b.Level)})
			}
		case "item":
			if o.NoLists {
				continue
			}
			stats["items_compared"]++
			if b.Kind != "item" {
				probs = append(probs, Problem{"list-item-lost", fmt.Sprintf("list item %s (depth %d) is a %q block in the Markdown, not a list item", toks[0], u.Level, b.Kind)})
				continue
			}
			if !o.NoListKind && b.Ordered != u.Ordered {
				probs = append(probs, Problem{"list-kind", fmt.Sprintf("list item %s: ordered=%v in the Markdown, authored ordered=%v (depth %d)", toks[0], b.Ordered, u.Ordered, u.Level)})
			}
			if want, ok := rankDepth[toks[0]]; b.Depth != u.Level && !(ok && b.Depth == want) {
				probs = append(probs, Problem{"list-depth", fmt.Sprintf("list item %s: nesting depth %d (indent %d) in the Markdown, authored depth %d", toks[0], b.Depth, b.Indent, u.Level)})
			}
		}
	}
	// tables
	for bi := range d.Blocks {
		if d.Blocks[bi].Kind != logical.BTable {
			continue
		}
		t := d.Blocks[bi].Table
		first := t.FirstToken()
		if first == "" {
			stats["tables_without_token"]++
			continue
		}
		l, ok := where[first]
		if !ok {
			continue
		}
		stats["tables_compared"]++
		b := blocks[l.b]
		if b.Kind != "table" {
			probs = append(probs, Problem{"table-not-a-table", fmt.Sprintf("table %dx%d with first token %s is not read back as a pipe table (token is in a %q block, line %d)", t.NRows, t.NCols, first, b.Kind, b.Line)})
			continue
		}
		probs = append(probs, CompareGrid(t, b.Rows, first, true)...)
		stats["cells_compared"] += t.NRows * t.NCols
	}
	return probs, stats
}

// CompareGrid compares a rows x columns grid of cell texts with the
// expected grid of the table (white-space-free comparison).
func CompareGrid(t *logical.Table, rows [][]string, name string, md bool) []Problem {
	var probs []Problem
	want := t.Grid()
	if len(rows) != t.NRows {
		return []Problem{{"table-shape", fmt.Sprintf("table %s: %d rows read back, authored %d rows x %d columns", name, len(rows), t.NRows, t.NCols)}}
	}
	for r := range rows {
		if len(rows[r]) != t.NCols {
			return []Problem{{"table-shape", fmt.Sprintf("table %s: row %d has %d cells, authored %d columns", name, r, len(rows[r]), t.NCols)}}
		}
	}
	for r := range rows {
		for c := range rows[r] {
			got := rows[r][c]
			if md {
				got = gfm.Unescape(got)
			}
			if Squash(got, false) != Squash(want[r][c], false) {
				cls := "table-grid"
				if t.HasSpans() {
					cls = "table-grid-spans"
				}
				probs = append(probs, Problem{cls, fmt.Sprintf("table %s (%dx%d): cell (%d,%d) reads %s, authored %s", name, t.NRows, t.NCols, r, c, short(got), short(want[r][c]))})
				return probs
			}
		}
	}
	return probs
}
