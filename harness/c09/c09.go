// Package c09: layout analysis never loses, invents or duplicates text.
//
// Oracle: conservation + exactly-once. For a generated page (pagegen) the
// multiset of non-white-space runes of every output (lines, columns ∪
// spanning, reading order, paragraphs, blocks, analysis elements, each plain
// text rendering) must equal that of the input fragments, and the fragments
// carried by every structural output must be the input fragments, each exactly
// once (fragments are matched by text + position, tokens give the witness).
//
// Two layers: (a) the detectors of package layout called directly on
// fragments we build; (b) the same page written as a PDF (pdfw.SimplePDF) and
// pushed through the public API of package tabula; there the reference is the
// fragment list the public API itself reports (Fragments()), which in turn is
// compared with the written strings modulo the one sanctioned removal, the
// extractor's de-duplication of identical text at the identical rounded
// position.
package c09

import (
	"fmt"
	"math"
	"os"
	"path/filepath"
	"regexp"
	"sort"
	"strings"
	"unicode"

	"github.com/tsawler/tabula"
	"github.com/tsawler/tabula/layout"
	"github.com/tsawler/tabula/model"
	"github.com/tsawler/tabula/reader"
	"github.com/tsawler/tabula/text"

	"verifharness/fw"
	"verifharness/gen/pagegen"
	"verifharness/gen/pdfw"
)

// ---------------------------------------------------------------- reference

type fkey struct {
	t    string
	x, y float64
}

type ref struct {
	frags []text.TextFragment
	keys  map[fkey]int
	runes map[rune]int
	toks  map[string]int
	nr    int
}

func keyOf(f text.TextFragment) fkey { return fkey{f.Text, f.X, f.Y} }

func addRunes(m map[rune]int, s string) int {
	n := 0
	for _, r := range s {
		if unicode.IsSpace(r) {
			continue
		}
		m[r]++
		n++
	}
	return n
}

func newRef(frags []text.TextFragment) *ref {
	r := &ref{frags: frags, keys: map[fkey]int{}, runes: map[rune]int{}, toks: map[string]int{}}
	for _, f := range frags {
		r.keys[keyOf(f)]++
		r.nr += addRunes(r.runes, f.Text)
		for _, t := range fw.FindTokens(f.Text) {
			r.toks[t]++
		}
	}
	return r
}

// runeDiff returns what is missing from / extra in got relative to want.
func runeDiff(want, got map[rune]int) (lost, extra string) {
	var l, e []rune
	for r, n := range want {
		for i := got[r]; i < n; i++ {
			l = append(l, r)
		}
	}
	for r, n := range got {
		for i := want[r]; i < n; i++ {
			e = append(e, r)
		}
	}
	sort.Slice(l, func(i, j int) bool { return l[i] < l[j] })
	sort.Slice(e, func(i, j int) bool { return e[i] < e[j] })
	return string(l), string(e)
}

func short(s string, n int) string {
	if len(s) > n {
		return s[:n] + "…"
	}
	return s
}

// tokenWitness names whole tokens whose count differs (short witness).
func (r *ref) tokenWitness(got string) (lost, dup []string) {
	g := map[string]int{}
	for _, t := range fw.FindTokens(got) {
		g[t]++
	}
	for t, n := range r.toks {
		if g[t] < n {
			lost = append(lost, t)
		} else if g[t] > n {
			dup = append(dup, t)
		}
	}
	sort.Strings(lost)
	sort.Strings(dup)
	if len(lost) > 8 {
		lost = append(lost[:8], fmt.Sprintf("…(%d)", len(lost)))
	}
	if len(dup) > 8 {
		dup = append(dup[:8], fmt.Sprintf("…(%d)", len(dup)))
	}
	return
}

// problem is one failed comparison.
type problem struct {
	obs    string // observation point
	kind   string // lost | invented | lost+invented | frag-unassigned | frag-twice | frag-foreign
	what   string
	detail map[string]any
}

type checker struct {
	r     *ref
	probs []problem
	nobs  int
	nrune int64
	nfrag int64
}

// text compares the non-white-space runes of a text output with the input's.
func (k *checker) text(obs, got string) {
	k.nobs++
	g := map[rune]int{}
	k.nrune += int64(addRunes(g, got))
	lost, extra := runeDiff(k.r.runes, g)
	if lost == "" && extra == "" {
		return
	}
	kind := "lost"
	if lost == "" {
		kind = "invented"
	} else if extra != "" {
		kind = "lost+invented"
	}
	tl, td := k.r.tokenWitness(got)
	k.probs = append(k.probs, problem{obs, kind,
		fmt.Sprintf("%s: %d rune(s) lost %q, %d extra %q; tokens missing %v, duplicated %v", obs, len([]rune(lost)), short(lost, 60), len([]rune(extra)), short(extra, 60), tl, td),
		map[string]any{"lost_runes": short(lost, 400), "extra_runes": short(extra, 400), "tokens_missing": tl, "tokens_duplicated": td}})
}

// frags checks exactly-once assignment of the input fragments to the groups of
// a structural output (groups = lines, columns ∪ spanning, blocks …).
func (k *checker) frags(obs string, groups ...[]text.TextFragment) {
	k.nobs++
	got := map[fkey]int{}
	for _, g := range groups {
		for _, f := range g {
			got[keyOf(f)]++
			k.nfrag++
		}
	}
	var miss, twice, foreign []string
	for key, n := range k.r.keys {
		switch {
		case got[key] < n && strings.TrimSpace(key.t) == "":
			// weaker reading of "each input fragment": a fragment without any
			// visible character may be left out (never duplicated)
		case got[key] < n:
			miss = append(miss, fmt.Sprintf("%q@(%.2f,%.2f)x%d<%d", key.t, key.x, key.y, got[key], n))
		case got[key] > n:
			twice = append(twice, fmt.Sprintf("%q@(%.2f,%.2f)x%d>%d", key.t, key.x, key.y, got[key], n))
		}
	}
	for key, n := range got {
		if _, ok := k.r.keys[key]; !ok {
			foreign = append(foreign, fmt.Sprintf("%q@(%.2f,%.2f)x%d", key.t, key.x, key.y, n))
		}
	}
	rep := func(kind string, l []string) {
		if len(l) == 0 {
			return
		}
		sort.Strings(l)
		n := len(l)
		if n > 10 {
			l = l[:10]
		}
		k.probs = append(k.probs, problem{obs, kind, fmt.Sprintf("%s: %d fragment(s) %s, e.g. %v", obs, n, kind, l), map[string]any{"fragments": l, "count": n}})
	}
	rep("frag-unassigned", miss)
	rep("frag-twice", twice)
	rep("frag-foreign", foreign)
}

func lineFrags(ls []layout.Line) [][]text.TextFragment {
	out := make([][]text.TextFragment, len(ls))
	for i, l := range ls {
		out[i] = l.Fragments
	}
	return out
}

func lineTexts(ls []layout.Line) string {
	var sb strings.Builder
	for _, l := range ls {
		sb.WriteString(l.Text)
		sb.WriteByte('\n')
	}
	return sb.String()
}

func paraLines(ps []layout.Paragraph) []layout.Line {
	var out []layout.Line
	for _, p := range ps {
		out = append(out, p.Lines...)
	}
	return out
}

func paraTexts(ps []layout.Paragraph) string {
	var sb strings.Builder
	for _, p := range ps {
		sb.WriteString(p.Text)
		sb.WriteByte('\n')
	}
	return sb.String()
}

func elemTexts(es []layout.LayoutElement) string {
	var sb strings.Builder
	var rec func(es []layout.LayoutElement)
	rec = func(es []layout.LayoutElement) {
		for _, e := range es {
			sb.WriteString(e.Text)
			sb.WriteByte('\n')
			rec(e.Children)
		}
	}
	rec(es)
	return sb.String()
}

// ------------------------------------------------------------ configuration

// cfg is the set of detector configurations of one run of the observations.
type cfg struct {
	name string
	line layout.LineConfig
	col  layout.ColumnConfig
	blk  layout.BlockConfig
	par  layout.ParagraphConfig
	ro   layout.ReadingOrderConfig
	an   layout.AnalyzerConfig
}

func defaultCfg() cfg {
	return cfg{name: "default", line: layout.DefaultLineConfig(), col: layout.DefaultColumnConfig(), blk: layout.DefaultBlockConfig(),
		par: layout.DefaultParagraphConfig(), ro: layout.DefaultReadingOrderConfig(), an: layout.DefaultAnalyzerConfig()}
}

// ----------------------------------------------------------- layer (a)

func (k *checker) checkLines(pfx string, ls []layout.Line) {
	k.frags(pfx+".Fragments", lineFrags(ls)...)
	k.text(pfx+".Text", lineTexts(ls))
}

func (k *checker) checkRO(pfx string, ro *layout.ReadingOrderResult) {
	if ro == nil {
		k.probs = append(k.probs, problem{pfx, "nil", pfx + ": nil result for a non-empty page", nil})
		return
	}
	k.frags(pfx+".Fragments", ro.Fragments)
	k.checkLines(pfx+".Lines", ro.Lines)
	var sf [][]text.TextFragment
	var sl []layout.Line
	for _, s := range ro.Sections {
		sf = append(sf, s.Fragments)
		sl = append(sl, s.Lines...)
	}
	k.frags(pfx+".Sections.Fragments", sf...)
	k.checkLines(pfx+".Sections.Lines", sl)
	k.text(pfx+".GetText", ro.GetText())
	pl := ro.GetParagraphs()
	k.checkParas(pfx+".GetParagraphs", pl)
}

func (k *checker) checkParas(pfx string, pl *layout.ParagraphLayout) {
	if pl == nil {
		k.probs = append(k.probs, problem{pfx, "nil", pfx + ": nil result for a non-empty page", nil})
		return
	}
	k.checkLines(pfx+".Lines", paraLines(pl.Paragraphs))
	k.text(pfx+".Text", paraTexts(pl.Paragraphs))
	k.text(pfx+".GetText", pl.GetText())
}

func (k *checker) checkBlocks(pfx string, bs []layout.Block) {
	var bf, bl [][]text.TextFragment
	var sb strings.Builder
	for i := range bs {
		bf = append(bf, bs[i].Fragments)
		bl = append(bl, bs[i].Lines...)
		sb.WriteString(bs[i].GetText())
		sb.WriteByte('\n')
	}
	k.frags(pfx+".Fragments", bf...)
	k.frags(pfx+".Lines", bl...)
	k.text(pfx+".Block.GetText", sb.String())
}

func (k *checker) checkColumns(pfx string, cl *layout.ColumnLayout) {
	if cl == nil {
		k.probs = append(k.probs, problem{pfx, "nil", pfx + ": nil result for a non-empty page", nil})
		return
	}
	groups := [][]text.TextFragment{cl.SpanningFragments}
	for _, c := range cl.Columns {
		groups = append(groups, c.Fragments)
	}
	k.frags(pfx+".Columns+Spanning", groups...)
	k.text(pfx+".GetText", cl.GetText())
	k.frags(pfx+".GetFragmentsInReadingOrder", cl.GetFragmentsInReadingOrder())
}

func (k *checker) checkAnalysis(pfx string, an *layout.AnalysisResult) {
	if an == nil {
		k.probs = append(k.probs, problem{pfx, "nil", pfx + ": nil result for a non-empty page", nil})
		return
	}
	k.text(pfx+".Elements", elemTexts(an.Elements))
	k.text(pfx+".GetText", an.GetText())
	if an.Paragraphs != nil {
		k.text(pfx+".Paragraphs.GetText", an.Paragraphs.GetText())
	}
	if an.Lines != nil {
		k.frags(pfx+".Lines.Fragments", lineFrags(an.Lines.Lines)...)
	}
	if an.Blocks != nil {
		k.frags(pfx+".Blocks.Fragments", an.Blocks.GetAllFragments())
	}
}

// direct runs every detector on the fragments and returns the problems.
func direct(c *fw.Ctx, frags []text.TextFragment, w, h float64, cf cfg) *checker {
	k := &checker{r: newRef(frags)}
	// lines
	ll := layout.NewLineDetectorWithConfig(cf.line).Detect(frags, w, h)
	k.checkLines("LineDetector", ll.Lines)
	k.text("LineLayout.GetText", ll.GetText())
	k.frags("LineLayout.GetAllFragments", ll.GetAllFragments())
	// columns
	cl := layout.NewColumnDetectorWithConfig(cf.col).Detect(frags, w, h)
	k.checkColumns("ColumnDetector", cl)
	c.Seen("detected_columns", fmt.Sprint(cl.ColumnCount()))
	if len(cl.SpanningFragments) > 0 {
		c.Count("pages_with_spanning_group", 1)
	}
	// reading order
	ro := layout.NewReadingOrderDetectorWithConfig(cf.ro).Detect(frags, w, h)
	k.checkRO("ReadingOrder", ro)
	k.frags("ReorderForReading", layoutReorder(frags, w, h, cf))
	// paragraphs from the detected lines: conservation relative to those lines
	pk := &checker{r: newRef(ll.GetAllFragments())}
	pk.checkParas("ParagraphDetector", layout.NewParagraphDetectorWithConfig(cf.par).Detect(ll.Lines, w, h))
	k.merge(pk)
	// blocks
	bl := layout.NewBlockDetectorWithConfig(cf.blk).Detect(frags, w, h)
	k.checkBlocks("BlockDetector", bl.Blocks)
	k.text("BlockLayout.GetText", bl.GetText())
	k.frags("BlockLayout.GetAllFragments", bl.GetAllFragments())
	// analyzer
	an := layout.NewAnalyzerWithConfig(cf.an)
	ar := an.Analyze(frags, w, h)
	k.checkAnalysis("Analyzer.Analyze", ar)
	for _, e := range ar.Elements {
		c.Count("elements_"+e.Type.String(), 1)
	}
	c.Count("lines_detected", int64(len(ll.Lines)))
	c.Count("blocks_detected", int64(len(bl.Blocks)))
	qa := an.QuickAnalyze(frags, w, h)
	k.text("Analyzer.QuickAnalyze.Elements", elemTexts(qa.Elements))
	return k
}

func layoutReorder(frags []text.TextFragment, w, h float64, cf cfg) []text.TextFragment {
	if cf.name == "default" {
		return layout.ReorderForReading(frags, w, h)
	}
	return layout.NewReadingOrderDetectorWithConfig(cf.ro).Detect(frags, w, h).Fragments
}

func (k *checker) merge(o *checker) {
	k.probs = append(k.probs, o.probs...)
	k.nobs += o.nobs
	k.nrune += o.nrune
	k.nfrag += o.nfrag
}

// ------------------------------------------------------------------ pages

func toFrags(p *pagegen.Page) []text.TextFragment {
	out := make([]text.TextFragment, len(p.Frags))
	reg, bold := "F1", "F2"
	if p.Spec.BoldName {
		reg, bold = "Helvetica", "Helvetica-Bold"
	}
	for i, f := range p.Frags {
		fn := reg
		if f.Bold {
			fn = bold
		}
		d := text.LTR
		switch f.Dir {
		case pagegen.RTL:
			d = text.RTL
		case pagegen.Neutral:
			d = text.Neutral
		}
		out[i] = text.TextFragment{Text: f.Text, X: f.X, Y: f.Y, Width: f.W, Height: f.H, FontName: fn, FontSize: f.Size, Direction: d}
	}
	return out
}

func nontrivial(p *pagegen.Page) bool { return len(p.Frags) >= 20 && p.Lines >= 3 }

// variantCfg perturbs public configuration knobs (seed-chosen).
func variantCfg(c *fw.Ctx, i int, s pagegen.Spec) cfg {
	r := c.Rand("page", i, "cfg")
	cf := defaultCfg()
	cf.name = "variant"
	cf.line.LineHeightTolerance = fw.Pick(r, []float64{0.3, 0.5, 0.8})
	cf.line.MinLineWidth = fw.Pick(r, []float64{0, 5, 20})
	cf.col.MinColumnWidth = fw.Pick(r, []float64{0, 30, 50, 100})
	cf.col.MinGapWidth = fw.Pick(r, []float64{10, 20, 40})
	cf.col.MaxColumns = fw.Pick(r, []int{2, 3, 6})
	cf.col.SpanningThreshold = fw.Pick(r, []float64{0.2, 0.35, 0.7})
	cf.blk.MinBlockWidth = fw.Pick(r, []float64{0, 10, 50})
	cf.blk.MinBlockHeight = fw.Pick(r, []float64{0, 5, 10})
	cf.blk.MergeOverlappingBlocks = r.Intn(2) == 0
	cf.blk.VerticalGapThreshold = fw.Pick(r, []float64{1, 1.5, 2})
	cf.par.SpacingThreshold = fw.Pick(r, []float64{1.2, 1.5, 2})
	cf.par.IndentThreshold = fw.Pick(r, []float64{5, 15, 30})
	cf.ro.ColumnConfig = cf.col
	cf.ro.LineConfig = cf.line
	if s.InvertedY {
		t := true
		cf.ro.InvertedY = &t
	}
	if s.RTL && r.Intn(2) == 0 {
		cf.ro.Direction = layout.RightToLeft
	}
	cf.an.ColumnConfig, cf.an.LineConfig, cf.an.BlockConfig, cf.an.ParagraphConfig, cf.an.ReadingOrderConfig = cf.col, cf.line, cf.blk, cf.par, cf.ro
	cf.an.DetectHeadings = r.Intn(4) > 0
	cf.an.DetectLists = r.Intn(4) > 0
	cf.an.UseReadingOrder = r.Intn(4) > 0
	return cf
}

func specDetail(p *pagegen.Page) map[string]any {
	return map[string]any{"features": p.Features, "fragments": len(p.Frags), "lines": p.Lines, "page": fmt.Sprintf("%gx%g", p.W, p.H)}
}

func sampleFrags(p *pagegen.Page, n int) []string {
	var out []string
	for i, f := range p.Frags {
		if i >= n {
			break
		}
		out = append(out, fmt.Sprintf("%q@(%.2f,%.2f) w=%.2f s=%.2f", f.Text, f.X, f.Y, f.W, f.Size))
	}
	return out
}

// report turns the problems of a checker into Fail calls.
func report(c *fw.Ctx, id, layer string, p *pagegen.Page, k *checker, attribute func(pr problem) string) {
	c.Count("observations", int64(k.nobs))
	c.Count("runes_compared", k.nrune)
	c.Count("fragment_assignments_checked", k.nfrag)
	for _, pr := range k.probs {
		d := specDetail(p)
		for kk, v := range pr.detail {
			d[kk] = v
		}
		d["first_fragments"] = sampleFrags(p, 12)
		d["layer"] = layer
		fid := ""
		if attribute != nil {
			fid = attribute(pr)
		}
		c.Fail(fid, layer+"/"+pr.obs+"/"+pr.kind, id, layer+" "+pr.what+fmt.Sprintf(" [page: %s]", strings.Join(p.Features, " ")), d)
	}
}

// runDirect is layer (a) of one page.
func runDirect(c *fw.Ctx, id string, i int, base *pagegen.Page) {
	p := base.Final()
	frags := toFrags(p)
	det := specDetail(p)
	c.Guard("a/default", id, det, func() {
		k := direct(c, frags, p.W, p.H, defaultCfg())
		report(c, id, "a:default", p, k, nil)
	})
	if i%3 == 0 {
		cf := variantCfg(c, i, p.Spec)
		c.Seen("config", "variant")
		c.Guard("a/variant", id, det, func() {
			k := direct(c, frags, p.W, p.H, cf)
			report(c, id, "a:variant", p, k, nil)
		})
	}
}

// ----------------------------------------------------------- layer (b)

// dedupBounds computes, per fragment text, the admissible number of
// occurrences after the extractor's de-duplication (same text at the same
// rounded position): identical coordinates collapse for certain; the same text
// at positions closer than 1.5 units in both axes may or may not collapse
// (rounding), anything else must survive.
func dedupBounds(items []pagegen.Frag) (lo, hi map[string]int) {
	lo, hi = map[string]int{}, map[string]int{}
	by := map[string][][2]float64{}
	for _, f := range items {
		pos := [2]float64{f.X, f.Y}
		dup := false
		for _, q := range by[f.Text] {
			if q == pos {
				dup = true
				break
			}
		}
		if !dup {
			by[f.Text] = append(by[f.Text], pos)
		}
	}
	for t, ps := range by {
		// greedy: positions that have a near neighbour are "ambiguous"
		amb := 0
		for i, p := range ps {
			near := false
			for j, q := range ps {
				if i != j && math.Abs(p[0]-q[0]) < 1.5 && math.Abs(p[1]-q[1]) < 1.5 {
					near = true
				}
			}
			if near {
				amb++
			}
		}
		hi[t] = len(ps)
		lo[t] = len(ps) - amb
		if amb > 0 {
			lo[t]++ // the first of any colliding group always survives
		}
	}
	return
}

type pdfCase struct {
	path  string
	pages []*pagegen.Page // device-space pages (standard orientation)
}

func fragsOf(path string) ([]text.TextFragment, error) {
	fr, _, err := tabula.Open(path).Fragments()
	return fr, err
}

// runPDF is layer (b) of one document.
func runPDF(c *fw.Ctx, id string, pc pdfCase, attribute func(pr problem) string) {
	p0 := pc.pages[0]
	det := specDetail(p0)
	det["pdf_pages"] = len(pc.pages)
	fail := func(class, what string) {
		c.Fail("", "b/"+class, id, "b: "+what+fmt.Sprintf(" [page: %s]", strings.Join(p0.Features, " ")), det)
	}
	c.Guard("b", id, det, func() {
		obs, err := fragsOf(pc.path)
		if err != nil {
			fail("Fragments/error", "Fragments() failed on a plain PDF: "+err.Error())
			return
		}
		// (1) Fragments() against what was written, modulo de-duplication
		var items []pagegen.Frag
		for pi, p := range pc.pages {
			for _, f := range p.Frags {
				f.Y += float64(pi) * 1e6 // pages are de-duplicated separately
				items = append(items, f)
			}
		}
		lo, hi := dedupBounds(items)
		got := map[string]int{}
		for _, f := range obs {
			got[f.Text]++
		}
		var bad []string
		for t := range hi {
			if got[t] < lo[t] || got[t] > hi[t] {
				bad = append(bad, fmt.Sprintf("%q: %d not in [%d,%d]", t, got[t], lo[t], hi[t]))
			}
		}
		for t, n := range got {
			if _, ok := hi[t]; !ok {
				bad = append(bad, fmt.Sprintf("%q: %d, never written", t, n))
			}
		}
		c.Count("pdf_fragments_compared", int64(len(obs)))
		if len(bad) > 0 {
			sort.Strings(bad)
			if len(bad) > 8 {
				bad = bad[:8]
			}
			fail("Fragments/mismatch", fmt.Sprintf("Fragments() differs from the written strings beyond de-duplication: %v", bad))
			return
		}
		// (2) every output against the observed fragments
		k := &checker{r: newRef(obs)}
		txt := func(name string, f func(e *tabula.Extractor) (string, []tabula.Warning, error)) {
			s, _, err := f(tabula.Open(pc.path))
			if err != nil {
				k.probs = append(k.probs, problem{name, "error", name + ": " + err.Error(), nil})
				return
			}
			k.text(name, s)
		}
		txt("Text", func(e *tabula.Extractor) (string, []tabula.Warning, error) { return e.Text() })
		txt("ByColumn.Text", func(e *tabula.Extractor) (string, []tabula.Warning, error) { return e.ByColumn().Text() })
		txt("JoinParagraphs.Text", func(e *tabula.Extractor) (string, []tabula.Warning, error) { return e.JoinParagraphs().Text() })
		txt("PreserveLayout.Text", func(e *tabula.Extractor) (string, []tabula.Warning, error) { return e.PreserveLayout().Text() })
		// text.(*Extractor).GetText, reached through reader.ExtractText
		if rd, err := reader.Open(pc.path); err != nil {
			k.probs = append(k.probs, problem{"reader.ExtractText", "error", "reader.Open: " + err.Error(), nil})
		} else {
			var sb strings.Builder
			np, _ := rd.PageCount()
			for i := 0; i < np; i++ {
				pg, err := rd.GetPage(i)
				if err != nil {
					k.probs = append(k.probs, problem{"reader.ExtractText", "error", "GetPage: " + err.Error(), nil})
					continue
				}
				t, err := rd.ExtractText(pg)
				if err != nil {
					k.probs = append(k.probs, problem{"reader.ExtractText", "error", "ExtractText: " + err.Error(), nil})
				}
				sb.WriteString(t)
				sb.WriteByte('\n')
			}
			rd.Close()
			k.text("reader.ExtractText", sb.String())
		}
		// the page model carries the page's text once (chunk and Markdown renderings re-spell list markers, so they are judged by tokens in C10/C12)
		if doc, _, err := tabula.Open(pc.path).Document(); err != nil {
			k.probs = append(k.probs, problem{"Document", "error", "Document: " + err.Error(), nil})
		} else {
			var sb strings.Builder
			for _, pg := range doc.Pages {
				for _, el := range pg.Elements {
					switch v := el.(type) {
					case *model.Heading:
						sb.WriteString(v.Text + "\n")
					case *model.Paragraph:
						sb.WriteString(v.Text + "\n")
					case *model.List:
						for _, it := range v.Items {
							sb.WriteString(it.Bullet + " " + it.Text + "\n")
						}
					}
				}
			}
			k.text("Document.Elements", sb.String())
		}
		if ls, err := tabula.Open(pc.path).Lines(); err != nil {
			k.probs = append(k.probs, problem{"Lines", "error", "Lines: " + err.Error(), nil})
		} else {
			k.checkLines("Lines", ls)
		}
		if ps, err := tabula.Open(pc.path).Paragraphs(); err != nil {
			k.probs = append(k.probs, problem{"Paragraphs", "error", "Paragraphs: " + err.Error(), nil})
		} else {
			k.checkLines("Paragraphs.Lines", paraLines(ps))
			k.text("Paragraphs.Text", paraTexts(ps))
		}
		if bs, err := tabula.Open(pc.path).Blocks(); err != nil {
			k.probs = append(k.probs, problem{"Blocks", "error", "Blocks: " + err.Error(), nil})
		} else {
			k.checkBlocks("Blocks", bs)
		}
		if es, err := tabula.Open(pc.path).Elements(); err != nil {
			k.probs = append(k.probs, problem{"Elements", "error", "Elements: " + err.Error(), nil})
		} else {
			k.text("Elements", elemTexts(es))
		}
		if ro, err := tabula.Open(pc.path).ReadingOrder(); err != nil {
			k.probs = append(k.probs, problem{"ReadingOrder", "error", "ReadingOrder: " + err.Error(), nil})
		} else {
			k.frags("ReadingOrder.Fragments", ro.Fragments)
			k.checkLines("ReadingOrder.Lines", ro.Lines)
			var sf [][]text.TextFragment
			for _, s := range ro.Sections {
				sf = append(sf, s.Fragments)
			}
			k.frags("ReadingOrder.Sections.Fragments", sf...)
			k.text("ReadingOrder.GetText", ro.GetText())
		}
		if an, err := tabula.Open(pc.path).Analyze(); err != nil {
			k.probs = append(k.probs, problem{"Analyze", "error", "Analyze: " + err.Error(), nil})
		} else {
			k.text("Analyze.Elements", elemTexts(an.Elements))
		}
		report(c, id, "b", p0, k, attribute)
	})
}

// buildPDF writes the document of page i (1 or 2 pages) and returns the case.
func buildPDF(c *fw.Ctx, dir string, i int, base *pagegen.Page) pdfCase {
	r := c.Rand("page", i, "pdf")
	mode := pagegen.PDFMode{ScaleByCTM: base.Spec.Scale != 1 && r.Intn(2) == 0, TopDown: base.Spec.InvertedY}
	pages := []*pagegen.Page{base}
	if r.Intn(5) == 0 {
		s2 := base.Spec
		s2.Cols = 1 + r.Intn(3)
		// the second page need not be cut into fragments the way the first one is
		// (a page of whole lines followed by a character-level page, and the reverse)
		if (i/5)%2 == 0 {
			if base.Spec.Frag == "char" {
				s2.Frag = []string{"line", "word"}[(i/10)%2]
			} else {
				s2.Frag = "char"
			}
			c.Seen("pdf", "pages of different fragmentation: "+base.Spec.Frag+" then "+s2.Frag)
		}
		pages = append(pages, pagegen.Build(s2, c.Rand("page", i, "p2")))
	}
	if len(pages) == 1 && base.Spec.Frag != "char" && r.Intn(5) == 0 {
		// a second page set on the same grid as the first: every fragment at the same
		// place with the same glyphs in another order (each token with two of its
		// characters exchanged), so that the boxes of the two pages agree and only the
		// text differs
		twin := *base
		twin.Frags = append([]pagegen.Frag(nil), base.Frags...)
		changed := false
		for k := range twin.Frags {
			t := tokenRe.ReplaceAllStringFunc(twin.Frags[k].Text, func(tok string) string {
				b := []byte(tok)
				for _, pr := range [][2]int{{1, 2}, {2, 3}, {1, 3}} {
					if b[pr[0]] != b[pr[1]] {
						b[pr[0]], b[pr[1]] = b[pr[1]], b[pr[0]]
						changed = true
						break
					}
				}
				return string(b)
			})
			twin.Frags[k].Text = t
		}
		if changed {
			pages = append(pages, &twin)
			c.Seen("pdf", "second page on the same grid as the first, other text")
		}
	}
	var sps []pdfw.SimplePage
	var dev []*pagegen.Page
	for _, p := range pages {
		sps = append(sps, p.SimplePage(base.Spec.Scale, mode))
		dev = append(dev, p.Transform(false, base.Spec.Scale))
	}
	// page-box spellings: layout analysis takes the page size from the MediaBox; text must be
	// conserved whatever the box says (indirect numbers, or a degenerate empty box on the first page)
	switch bx := r.Intn(8); {
	case bx == 0:
		for k := range sps {
			sps[k].Box = "indirect"
		}
		c.Seen("pdf", "mediabox=indirect-numbers")
	case bx == 1 && len(sps) == 2:
		sps[0].Box = "zero"
		c.Seen("pdf", "mediabox=degenerate-first-page")
	case bx == 2:
		sps[len(sps)-1].Box = "dangling"
		c.Seen("pdf", "mediabox=unreadable (dangling reference)")
	}
	if mode.ScaleByCTM {
		c.Seen("pdf", "scale-by-ctm")
	}
	if mode.TopDown {
		c.Seen("pdf", "top-down")
	}
	c.Seen("pdf", fmt.Sprintf("pages=%d", len(pages)))
	path := filepath.Join(dir, fmt.Sprintf("p%d.pdf", i))
	os.WriteFile(path, pdfw.SimplePDF(sps), 0o644)
	return pdfCase{path: path, pages: dev}
}

// runDamagedPage: the page followed by a page whose content stream cannot be decoded
// (it claims /FlateDecode and holds no zlib data). Whether the document is refused or the
// damaged page is left out is the library's choice; what is asserted is that an output
// that is returned shows no token more often than it was written — the healthy page's
// text is not shown a second time in the place of the damaged one.
func runDamagedPage(c *fw.Ctx, id, dir string, i int, base *pagegen.Page) {
	r := c.Rand("page", i, "damaged")
	mode := pagegen.PDFMode{TopDown: base.Spec.InvertedY}
	good := base.SimplePage(base.Spec.Scale, mode)
	bad := good
	bad.Unreadable = true
	sps := []pdfw.SimplePage{good, bad}
	if r.Intn(3) == 0 {
		sps = append(sps, good) // healthy, damaged, healthy again (the same text twice is then written twice)
	}
	written := map[string]int{}
	for k, sp := range sps {
		if k == 1 {
			continue
		}
		for _, it := range sp.Items {
			for _, t := range fw.FindTokens(it.Text) {
				written[t]++
			}
		}
	}
	path := filepath.Join(dir, fmt.Sprintf("p%d-damaged.pdf", i))
	os.WriteFile(path, pdfw.SimplePDF(sps), 0o644)
	defer os.Remove(path)
	det := specDetail(base)
	det["pdf_pages"] = len(sps)
	det["damaged_page"] = 2
	c.Guard("b-damaged", id, det, func() {
		for _, v := range []struct {
			name string
			f    func(e *tabula.Extractor) (string, []tabula.Warning, error)
		}{
			{"Text", func(e *tabula.Extractor) (string, []tabula.Warning, error) { return e.Text() }},
			{"ByColumn.Text", func(e *tabula.Extractor) (string, []tabula.Warning, error) { return e.ByColumn().Text() }},
			{"JoinParagraphs.Text", func(e *tabula.Extractor) (string, []tabula.Warning, error) { return e.JoinParagraphs().Text() }},
			{"PreserveLayout.Text", func(e *tabula.Extractor) (string, []tabula.Warning, error) { return e.PreserveLayout().Text() }},
		} {
			out, _, err := v.f(tabula.Open(path))
			if err != nil {
				c.Count("damaged_page_documents_refused", 1)
				continue
			}
			c.Count("damaged_page_outputs_compared", 1)
			got := map[string]int{}
			for _, t := range fw.FindTokens(out) {
				got[t]++
			}
			var dup []string
			for t, n := range got {
				if n > written[t] {
					dup = append(dup, fmt.Sprintf("%q shown %d times, written %d times", t, n, written[t]))
				}
			}
			if len(dup) > 0 {
				sort.Strings(dup)
				if len(dup) > 6 {
					dup = dup[:6]
				}
				c.Fail("", "b/damaged-page/duplicated", id, fmt.Sprintf("b: %s of a document whose page 2 cannot be decoded shows text more often than it was written: %v", v.name, dup), det)
				return
			}
		}
	})
}

var tokenRe = regexp.MustCompile(`q[0-9a-z]{3}z[0-9a-z]{4}`)

// ---------------------------------------------------------- fixed witnesses

// witnesses are small hand-placed pages, one per defect that was found (and
// fixed) on the pinned tree; they are run on every invocation so that a
// regression does not depend on the seed.
func witnesses() []*pagegen.Page {
	mk := func(name string, w, h float64, frs ...pagegen.Frag) *pagegen.Page {
		return &pagegen.Page{W: w, H: h, Frags: frs, Lines: len(frs), Features: []string{"witness=" + name}, Spec: pagegen.Spec{Scale: 1}}
	}
	fr := func(t string, x, y, w, s float64) pagegen.Frag {
		return pagegen.Frag{Text: t, X: x, Y: y, W: w, H: s, Size: s}
	}
	var out []*pagegen.Page
	// a word sticking out past the ragged right edge of a single column
	var f []pagegen.Frag
	for i := 0; i < 12; i++ {
		f = append(f, fr(fmt.Sprintf("line%02d of body text that is wide", i), 72, 700-float64(i)*14, 300, 10))
	}
	f = append(f, fr("sticks", 380, 700-5*14, 30, 10))
	out = append(out, mk("protruding-word", 612, 792, f...))
	// a single-character line
	out = append(out, mk("single-char-line", 612, 792, fr("First line of text", 72, 700, 90, 10), fr("i", 72, 686, 2.8, 10), fr("Third line of text", 72, 672, 90, 10)))
	// a scaled-down page: every block is lower than 5 units
	out = append(out, mk("small-blocks", 153, 198, fr("alpha beta gamma", 18, 175, 40, 2.5), fr("delta epsilon", 18, 160, 32, 2.5)))
	// a short heading above body text
	f = []pagegen.Frag{fr("Short", 72, 740, 40, 18)}
	for i := 0; i < 5; i++ {
		f = append(f, fr(fmt.Sprintf("body line %d with enough words to be wide", i), 72, 700-float64(i)*14, 300, 10))
	}
	out = append(out, mk("short-heading", 612, 792, f...))
	// a list with a nested item between paragraphs
	out = append(out, mk("nested-list", 612, 792, fr("Intro paragraph text that is long enough", 72, 740, 300, 10), fr("- one item text", 72, 700, 80, 10),
		fr("- two nested item", 92, 670, 80, 10), fr("- three item text", 72, 640, 80, 10), fr("Closing paragraph text that is long enough", 72, 600, 300, 10)))
	// a title spanning two columns
	f = []pagegen.Frag{fr("A Wide Centered Title Over Both Columns", 150, 740, 300, 18)}
	for i := 0; i < 10; i++ {
		f = append(f, fr(fmt.Sprintf("left %d left left left left", i), 72, 700-float64(i)*14, 200, 10))
		f = append(f, fr(fmt.Sprintf("right %d right right right", i), 330, 700-float64(i)*14, 200, 10))
	}
	out = append(out, mk("spanning-title", 612, 792, f...))
	return out
}

// ------------------------------------------------------------------- Run

// Run is the C09 check.
func Run(c *fw.Ctx) {
	c.Rule("case = one generated page (feature vector + unique tokens) in one layer (a: detectors called directly, b: PDF through the public API); " +
		"non-trivial iff the page has >= 20 fragments in >= 3 lines; distinct by hash of feature vector + fragment list")
	c.Assume("white space = unicode.IsSpace; fragments are matched by (text, x, y), which the detectors copy verbatim",
		"'each input fragment is assigned to exactly one line / column' is asserted for fragments with at least one visible character; a white-space-only fragment may be left out of lines and blocks but must never be assigned twice (weaker reading)",
		"layer b reference = fragments reported by Fragments(); these are compared with the written strings modulo de-duplication of the same text at the same rounded position (positions of the same text closer than 1.5 units may or may not collapse)",
		"list markers dropped by model.List (GetElements) and Markdown renderings are not plain-text renderings and are not observed")

	dir := filepath.Join(c.Work, "c09")
	os.MkdirAll(dir, 0o755)

	for _, p := range witnesses() {
		id := "wit:" + strings.TrimPrefix(p.Features[0], "witness=")
		if !c.Want(id) {
			continue
		}
		c.Case(id, nontrivial(p))
		c.Seen("witness", id)
		frags := toFrags(p)
		c.Guard("a/witness", id, specDetail(p), func() {
			report(c, id, "a:default", p, direct(c, frags, p.W, p.H, defaultCfg()), nil)
		})
		pc := pdfCase{path: filepath.Join(dir, strings.ReplaceAll(id, ":", "-")+".pdf"), pages: []*pagegen.Page{p}}
		os.WriteFile(pc.path, pdfw.SimplePDF([]pdfw.SimplePage{p.SimplePage(1, pagegen.PDFMode{})}), 0o644)
		runPDF(c, id, pc, nil)
		os.Remove(pc.path)
	}

	n := c.N(1200, 20000)
	c.Parallel(n, func(i int) {
		id := fmt.Sprintf("pg:%d", i)
		if !c.Want(id) {
			return
		}
		spec := pagegen.RandomSpec(c.Rand("page", i, "spec"))
		if i%2 == 1 && !spec.ASCII() { // every other page is PDF-able
			spec.RTL = false
			if spec.List == "bullet" {
				spec.List = "dash"
			}
		}
		base := pagegen.Build(spec, c.Rand("page", i, "content"))
		var sb strings.Builder
		for _, f := range base.Frags {
			fmt.Fprintf(&sb, "%s@%g,%g;", f.Text, f.X, f.Y)
		}
		desc := strings.Join(base.Features, ",") + "|" + sb.String()
		for _, f := range base.Features {
			c.Seen("feature", f)
		}
		for _, f := range base.Features[4:] {
			c.Seen("feature_pair", base.Features[0]+"+"+f)
			c.Seen("feature_pair", base.Features[1]+"+"+f)
		}
		c.Sample(map[string]any{"id": id, "features": base.Features, "fragments": len(base.Frags), "lines": base.Lines})
		c.Count("fragments_generated", int64(len(base.Frags)))

		c.Case("a|"+desc, nontrivial(base))
		c.Seen("layer", "a")
		runDirect(c, id, i, base)

		if spec.ASCII() {
			c.Case("b|"+desc, nontrivial(base))
			c.Seen("layer", "b")
			pc := buildPDF(c, dir, i, base)
			runPDF(c, id, pc, nil)
			os.Remove(pc.path)
			if i%4 == 0 && base.Spec.Frag != "char" { // whole tokens per show operation, so that "written" can be counted per item
				runDamagedPage(c, id, dir, i, base)
			}
		}
	})
	c.Exhaustive(false)
}
