// Package c20: files are admitted by content; mismatches and DRM are refused.
//
// Oracle: the generator's knowledge of the format F of each valid document,
// of every manifest item's media type and of the algorithm attached to it.
// Observed: format.DetectFromReader, tabula.Open(name.<ext>) under every
// extension spelling, errors.Is(err, epubdoc.ErrDRMProtected).
package c20

import (
	"archive/zip"
	"bytes"
	"errors"
	"fmt"
	"math/rand"
	"os"
	"path/filepath"
	"regexp"
	"strings"

	"github.com/tsawler/tabula"
	"github.com/tsawler/tabula/epubdoc"
	"github.com/tsawler/tabula/format"

	"verifharness/fw"
	"verifharness/gen/epubw"
	"verifharness/gen/samples"
)

var fmtOf = map[string]format.Format{"pdf": format.PDF, "docx": format.DOCX, "odt": format.ODT, "xlsx": format.XLSX, "pptx": format.PPTX, "epub": format.EPUB, "html": format.HTML}

// extension spellings: ext -> format it denotes
var extSpellings = []struct{ ext, f string }{
	{"pdf", "pdf"}, {"docx", "docx"}, {"odt", "odt"}, {"xlsx", "xlsx"}, {"pptx", "pptx"}, {"epub", "epub"}, {"html", "html"}, {"htm", "html"},
}

func caseVariants(ext string, r *rand.Rand) []string {
	mixed := []byte(ext)
	for i := range mixed {
		if r.Intn(2) == 0 {
			mixed[i] = byte(strings.ToUpper(string(mixed[i]))[0])
		}
	}
	return []string{ext, strings.ToUpper(ext), string(mixed)}
}

// variant of a valid document: same format, different physical arrangement.
type variant struct {
	data     []byte
	features []string
}

// decoys: members that belong to *other* formats' directory layouts but do not
// make the package a document of that format (the package type is defined by
// [Content_Types].xml / _rels/.rels for OOXML, by the mimetype member for
// ODF/EPUB — not by the presence of a directory name).
func decoyMembers(own string, r *rand.Rand) ([]samples.ZMember, []string) {
	all := map[string]samples.ZMember{
		"word":      {Name: "word/attachedNotes.txt", Data: []byte("not a wordprocessing part")},
		"xl":        {Name: "xl/leftover.bin", Data: []byte{1, 2, 3}},
		"ppt":       {Name: "ppt/thumb.txt", Data: []byte("not a presentation part")},
		"container": {Name: "META-INF/container.xml", Data: []byte(`<?xml version="1.0"?><container xmlns="urn:oasis:names:tc:opendocument:xmlns:container" version="1.0"><rootfiles/></container>`)},
	}
	var keys []string
	switch own {
	case "docx":
		keys = []string{"xl", "ppt", "container"}
	case "xlsx":
		keys = []string{"word", "ppt", "container"}
	case "pptx":
		keys = []string{"word", "xl", "container"}
	case "odt":
		keys = []string{"word", "xl", "ppt"} // ODF packages legitimately carry META-INF/
	case "epub":
		keys = []string{"word", "xl", "ppt"}
	}
	k := keys[r.Intn(len(keys))]
	return []samples.ZMember{all[k]}, []string{"decoy=" + k}
}

// embedded documents: a real-world layout (DOCX embedding a workbook and vice versa)
func embedMember(own string, r *rand.Rand) (samples.ZMember, string, bool) {
	switch own {
	case "docx":
		return samples.ZMember{Name: "word/embeddings/Microsoft_Excel_Sheet1.xlsx", Data: samples.Make("xlsx", r).Data}, "embed=xlsx-in-docx", true
	case "xlsx":
		return samples.ZMember{Name: "xl/embeddings/Microsoft_Word_Document1.docx", Data: samples.Make("docx", r).Data}, "embed=docx-in-xlsx", true
	case "pptx":
		return samples.ZMember{Name: "ppt/embeddings/Microsoft_Excel_Sheet1.xlsx", Data: samples.Make("xlsx", r).Data}, "embed=xlsx-in-pptx", true
	}
	return samples.ZMember{}, "", false
}

// makeVariants: seed-chosen physical variants of one valid sample. neutral
// switches decoy placement off (counterfactual for decoy findings).
func makeVariants(s samples.Sample, r *rand.Rand, neutral bool) []variant {
	vs := []variant{{s.Data, []string{"as-written"}}}
	switch s.Format {
	case "pdf":
		return vs
	case "html":
		// legal things before the doctype: BOM, white space, comments (HTML5 §13.1)
		h := s.Data
		vs = append(vs, variant{append([]byte("\xef\xbb\xbf"), h...), []string{"html.bom"}})
		vs = append(vs, variant{append([]byte("<!-- generated -->\n"), h...), []string{"html.leading-comment"}})
		vs = append(vs, variant{append([]byte("\n\n  \t"), h...), []string{"html.leading-space"}})
		vs = append(vs, variant{bytes.Replace(h, []byte("<!DOCTYPE html>"), []byte("<!doctype html>"), 1), []string{"html.doctype-lower"}})
		return vs
	}
	ms := samples.Unzip(s.Data)
	if ms == nil {
		return vs
	}
	// OPC: the main part may get its content type from a <Default Extension="xml">
	// instead of an <Override> (ECMA-376 Part 2, 10.1.2.2.3); every other XML part
	// then carries an explicit Override. Half of the OOXML samples are typed this way.
	ctDefault := false
	if (s.Format == "docx" || s.Format == "xlsx" || s.Format == "pptx") && r.Intn(2) == 0 {
		if ms2, ok := mainTypeViaDefault(ms); ok {
			ms, ctDefault = ms2, true
			vs = append(vs, variant{samples.Rezip(ms), []string{"content-types.main-via-default"}})
		}
	}
	defer func() {
		if ctDefault {
			for i := range vs[1:] {
				vs[1+i].features = append(vs[1+i].features, "content-types.main-via-default")
			}
		}
	}()
	pinFirst := 0
	if s.Format == "odt" || s.Format == "epub" {
		pinFirst = 1 // "mimetype" stays first
	}
	shuffle := func(ms []samples.ZMember) []samples.ZMember {
		out := append([]samples.ZMember{}, ms...)
		tail := out[pinFirst:]
		r.Shuffle(len(tail), func(i, j int) { tail[i], tail[j] = tail[j], tail[i] })
		return out
	}
	vs = append(vs, variant{samples.Rezip(shuffle(ms)), []string{"zip.order=shuffled"}})
	rev := append([]samples.ZMember{}, ms...)
	for i, j := pinFirst, len(rev)-1; i < j; i, j = i+1, j-1 {
		rev[i], rev[j] = rev[j], rev[i]
	}
	vs = append(vs, variant{samples.Rezip(rev), []string{"zip.order=reversed"}})
	if em, feat, ok := embedMember(s.Format, r); ok {
		vs = append(vs, variant{samples.Rezip(shuffle(append(append([]samples.ZMember{}, ms...), em))), []string{feat, "zip.order=shuffled"}})
	}
	if !neutral {
		dm, feats := decoyMembers(s.Format, r)
		// decoy first (right after a pinned mimetype), last, or shuffled in
		first := append(append(append([]samples.ZMember{}, ms[:pinFirst]...), dm...), ms[pinFirst:]...)
		vs = append(vs, variant{samples.Rezip(first), append([]string{"decoy.pos=first"}, feats...)})
		last := append(append([]samples.ZMember{}, ms...), dm...)
		vs = append(vs, variant{samples.Rezip(last), append([]string{"decoy.pos=last"}, feats...)})
		if s.Format == "odt" || s.Format == "epub" {
			// the skeleton of a wordprocessing package as stray members behind the mimetype
			// member (which stays first, as ODF 1.2 part 3, 3.3 and OCF 3.3 require): the
			// package still says what it is in its mimetype member
			sk := []samples.ZMember{{Name: "[Content_Types].xml", Data: []byte(`<?xml version="1.0" encoding="UTF-8"?><Types xmlns="http://schemas.openxmlformats.org/package/2006/content-types"><Default Extension="xml" ContentType="application/xml"/><Override PartName="/word/document.xml" ContentType="application/vnd.openxmlformats-officedocument.wordprocessingml.document.main+xml"/></Types>`)},
				{Name: "word/document.xml", Data: []byte(`<?xml version="1.0" encoding="UTF-8"?><w:document xmlns:w="http://schemas.openxmlformats.org/wordprocessingml/2006/main"><w:body><w:p><w:r><w:t>stray</w:t></w:r></w:p></w:body></w:document>`)}}
			withSk := append(append(append([]samples.ZMember{}, ms[:1]...), sk...), ms[1:]...)
			if r.Intn(2) == 0 {
				withSk = append(append([]samples.ZMember{}, ms...), sk...)
			}
			vs = append(vs, variant{samples.Rezip(withSk), []string{"decoy=ooxml-skeleton"}})
		}
		if s.Format == "docx" || s.Format == "xlsx" || s.Format == "pptx" {
			// the skeleton of an EPUB / ODF package as stray members, its mimetype member
			// with undecodable data: the package still says what it is in [Content_Types].xml
			mt := []string{"application/epub+zip", "application/vnd.oasis.opendocument.text"}[r.Intn(2)]
			sk := []samples.ZMember{{Name: "mimetype", Data: []byte(mt + strings.Repeat(" ", 40))},
				{Name: "META-INF/container.xml", Data: []byte(`<?xml version="1.0"?><container xmlns="urn:oasis:names:tc:opendocument:xmlns:container" version="1.0"><rootfiles><rootfile full-path="OEBPS/content.opf" media-type="application/oebps-package+xml"/></rootfiles></container>`)}}
			withSk := append(append([]samples.ZMember{}, sk...), ms...)
			if r.Intn(2) == 0 {
				withSk = append(append([]samples.ZMember{}, ms...), sk...)
			}
			if bad := damageMember(samples.Rezip(withSk), "mimetype", "all"); bad != nil {
				vs = append(vs, variant{bad, []string{"decoy=foreign-skeleton", "decoy.mimetype=undecodable"}})
			}
		}
	}
	return vs
}

var mainOverrideRe = regexp.MustCompile(`<Override PartName="(/[^"]+)" ContentType="([^"]*\.main\+xml)"\s*/>`)
var defaultXMLRe = regexp.MustCompile(`<Default Extension="xml" ContentType="[^"]*"\s*/>`)

// mainTypeViaDefault rewrites [Content_Types].xml so that the main part is typed
// by the Default for the "xml" extension; XML parts that relied on that Default
// get an Override with their old type.
func mainTypeViaDefault(ms []samples.ZMember) ([]samples.ZMember, bool) {
	out := append([]samples.ZMember{}, ms...)
	for i, m := range out {
		if m.Name != "[Content_Types].xml" {
			continue
		}
		ct := string(m.Data)
		mo := mainOverrideRe.FindStringSubmatch(ct)
		if mo == nil || !defaultXMLRe.MatchString(ct) {
			return nil, false
		}
		mainPart, mainType := mo[1], mo[2]
		ct = strings.Replace(ct, mo[0], "", 1)
		ct = defaultXMLRe.ReplaceAllString(ct, `<Default Extension="xml" ContentType="`+mainType+`"/>`)
		var extra strings.Builder
		for _, o := range ms {
			pn := "/" + o.Name
			if !strings.HasSuffix(strings.ToLower(o.Name), ".xml") || o.Name == "[Content_Types].xml" || pn == mainPart {
				continue
			}
			if !strings.Contains(ct, `PartName="`+pn+`"`) {
				fmt.Fprintf(&extra, `<Override PartName="%s" ContentType="application/xml"/>`, pn)
			}
		}
		ct = strings.Replace(ct, "</Types>", extra.String()+"</Types>", 1)
		out[i] = samples.ZMember{Name: m.Name, Data: []byte(ct)}
		return out, true
	}
	return nil, false
}

func opens(path string) (ok bool, err error) {
	// "produces output": any terminal operation succeeds
	txt, _, e1 := tabula.Open(path).Text()
	_, _, e2 := tabula.Open(path).ToMarkdown()
	_, _, e3 := tabula.Open(path).Document()
	ex := tabula.Open(path)
	_, e4 := ex.PageCount()
	ex.Close()
	_ = txt
	// the decision is made again on every call: the same Extractor asked a second
	// time, and extractors derived from one that has already been asked
	again := tabula.Open(path)
	again.Text()
	_, _, e5 := again.Text()
	_, _, e6 := again.ExcludeHeaders().ToMarkdown()
	_, e7 := again.JoinParagraphs().PageCount()
	again.Close()
	if e1 != nil && e2 != nil && e3 != nil && e4 != nil && (e5 == nil || e6 == nil || e7 == nil) {
		return true, fmt.Errorf("refused on the first call, accepted on a later call of the same or a derived Extractor (Text again: %v, derived ToMarkdown: %v, derived PageCount: %v)", e5, e6, e7)
	}
	if e1 == nil || e2 == nil || e3 == nil || e4 == nil {
		if e1 != nil {
			return true, e1
		}
		return true, nil
	}
	return false, e1
}

func hasDecoy(feats []string) string {
	for _, f := range feats {
		if strings.HasPrefix(f, "decoy=") {
			return f
		}
	}
	return ""
}

func runDoc(c *fw.Ctx, id string, dir string) {
	var fi int
	fmt.Sscanf(id, "doc:%d", &fi)
	f := samples.Formats[fi%len(samples.Formats)]
	r := c.Rand("doc", id)
	s := samples.Make(f, r)
	vs := makeVariants(s, c.Rand("doc", id, "variants"), false)
	c.Sample(map[string]any{"id": id, "format": f, "desc": s.Desc, "variants": len(vs)})
	for vi, v := range vs {
		feats := strings.Join(v.features, ",")
		c.Seen("variant", f+":"+feats)
		fail := func(class, what string) {
			finding := ""
			if d := hasDecoy(v.features); d != "" {
				finding = "zip-decoy-misdetected"
				_ = d
			}
			if strings.HasPrefix(feats, "html.bom") || strings.HasPrefix(feats, "html.leading-comment") {
				finding = "html-prologue-unrecognised"
			}
			c.Fail(finding, class+"/"+f+"/"+feats, id, what, map[string]any{"format": f, "variant": v.features, "bytes": len(v.data)})
		}
		// detection by content
		det, err := format.DetectFromReader(bytes.NewReader(v.data), int64(len(v.data)))
		c.Count("detections_checked", 1)
		if err != nil || det != fmtOf[f] {
			fail("detect", fmt.Sprintf("valid %s document (%s; %s) detected as %v (err %v)", f, s.Desc, feats, det, err))
		}
		// admission matrix
		for _, es := range extSpellings {
			for ci, ext := range caseVariants(es.ext, r) {
				if ci > 0 && (vi+ci)%2 == 1 {
					continue // sample the case variants
				}
				path := filepath.Join(dir, fmt.Sprintf("%s-v%d.%s", strings.ReplaceAll(id, ":", "_"), vi, ext))
				os.WriteFile(path, v.data, 0o644)
				ok, oerr := opens(path)
				os.Remove(path)
				own := es.f == f
				c.Case(fmt.Sprintf("%s|%s|%s|%x", f, feats, ext, fnv(v.data)), !own || vi > 0)
				c.Count("admissions_checked", 1)
				switch {
				case own && !ok:
					fail("own-ext-refused", fmt.Sprintf("valid %s document (%s) named .%s does not open: %v", f, feats, ext, oerr))
				case own && oerr != nil:
					fail("own-ext-refused", fmt.Sprintf("valid %s document (%s) named .%s: Text() error %v", f, feats, ext, oerr))
				case !own && ok:
					fail("mismatch-accepted", fmt.Sprintf("%s bytes (%s) named .%s produced output instead of an error", f, feats, ext))
				}
			}
		}
	}
}

// runHistory re-uses one path string while the file's content changes: the
// decision must follow the bytes that are there now, not what the same name
// held before (a document replaced on disk, a temp name recycled).
func runHistory(c *fw.Ctx, id string, dir string) {
	var fi int
	fmt.Sscanf(id, "hist:%d", &fi)
	r := c.Rand("hist", id)
	f := samples.Formats[fi%len(samples.Formats)]
	g := samples.Formats[(fi+1+r.Intn(len(samples.Formats)-1))%len(samples.Formats)]
	docs := map[string]samples.Sample{f: samples.Make(f, r), g: samples.Make(g, r)}
	primary := map[string]string{}
	for _, es := range extSpellings {
		if _, ok := primary[es.f]; !ok {
			primary[es.f] = es.ext
		}
	}
	put := func(path string, data []byte, how int) {
		switch how {
		case 0: // overwrite in place
			os.WriteFile(path, data, 0o644)
		case 1: // replace by rename (new inode, same name)
			tmp := path + ".tmp"
			os.WriteFile(tmp, data, 0o644)
			os.Rename(tmp, path)
		default: // delete, then create again
			os.Remove(path)
			os.WriteFile(path, data, 0o644)
		}
	}
	for _, named := range []string{f, g} {
		path := filepath.Join(dir, fmt.Sprintf("%s.%s", strings.ReplaceAll(id, ":", "_"), primary[named]))
		other := g
		if named == g {
			other = f
		}
		// own, foreign, own, foreign … starting with either
		seq := []string{named, other, named, other}
		if r.Intn(2) == 0 {
			seq = []string{other, named, other, named}
		}
		var trail []string
		for step, content := range seq {
			how := r.Intn(3)
			put(path, docs[content].Data, how)
			ok, oerr := opens(path)
			own := content == named
			trail = append(trail, fmt.Sprintf("%s-bytes/how=%d:%v", content, how, ok))
			c.Case(fmt.Sprintf("hist|%s|%s|%d|%d|%x", named, content, step, how, fnv(docs[content].Data)), step > 0)
			c.Count("same_path_reopens_checked", 1)
			c.Seen("history-step", fmt.Sprintf("named=%s content=%s step=%d", named, content, step))
			detail := map[string]any{"path_ext": primary[named], "history": trail}
			switch {
			case own && (!ok || oerr != nil):
				c.Fail("", "same-path/own-refused/"+named, id, fmt.Sprintf("valid %s document written to a .%s path that held %s bytes before does not open (step %d): %v", content, primary[named], other, step, oerr), detail)
			case !own && ok:
				c.Fail("", "same-path/mismatch-accepted/"+named, id, fmt.Sprintf("%s bytes written to a .%s path that held a valid %s document before produced output instead of an error (step %d)", content, primary[named], named, step), detail)
			}
		}
		os.Remove(path)
	}
}

func fnv(b []byte) uint64 {
	h := uint64(14695981039346656037)
	for _, c := range b {
		h ^= uint64(c)
		h *= 1099511628211
	}
	return h
}

// ---- DRM matrix -----------------------------------------------------------------

type algo struct {
	uri         string
	obfuscation bool
}

var algos = []algo{
	{"http://www.idpf.org/2008/embedding", true},
	{"http://ns.adobe.com/pdf/enc#RC", true},
	{"http://www.w3.org/2001/04/xmlenc#aes128-cbc", false},
	{"http://www.w3.org/2001/04/xmlenc#aes256-cbc", false},
	{"http://www.w3.org/2009/xmlenc11#aes128-gcm", false},
	{"urn:example:unknown-cipher", false},
	{epubw.NoEncryptionMethod, false},
}

type item struct {
	path    string // package path
	kind    string // content | font | image | css
	inSpine bool
}

func runDRM(c *fw.Ctx, id string, dir string) {
	r := c.Rand("drm", id)
	tk := fw.NewTokens(r)
	b := samples.Book(r, tk, nil)
	odir := ""
	if i := strings.LastIndex(b.OPFPath, "/"); i >= 0 {
		odir = b.OPFPath[:i+1]
	}
	// unusual but legal content-document names (the manifest media type decides, not the extension)
	if r.Intn(3) == 0 {
		b.Spine[1].Path = odir + "text/chapter2" + []string{".xht", ".xml", "", ".HTM", ".page"}[r.Intn(5)]
	}
	if r.Intn(2) == 0 {
		// an SVG content document in the spine (EPUB 3 core media type image/svg+xml:
		// a content document like the XHTML ones, whatever its name ends in)
		b.Spine = append(b.Spine, epubw.Chapter{ID: "svgdoc", Path: odir + "text/plate" + []string{".svg", ".svg", ".SVG", ".xml"}[r.Intn(4)],
			Title: "Plate", Heading: tk.Next(), Paras: []string{tk.Next()}, MediaType: "image/svg+xml"})
	}
	var items []item
	for _, ch := range b.Spine {
		items = append(items, item{ch.Path, "content", true})
	}
	// fonts and an image as manifest-only items
	res := []struct{ name, mt, kind string }{{"fonts/Body.otf", "font/otf", "font"}, {"fonts/Head.ttf", "application/x-font-ttf", "font"}, {"images/cover.png", "image/png", "image"}}
	for i, rs := range res {
		b.ManifestOnly = append(b.ManifestOnly, epubw.Chapter{ID: fmt.Sprintf("res%d", i), Path: odir + rs.name, MediaType: rs.mt})
		items = append(items, item{odir + rs.name, rs.kind, false})
	}
	base := b.Members(c.Rand("drm", id, "members"))
	n := len(items)
	al := algos[r.Intn(len(algos))]
	spell := r.Intn(3) // URI spelling: plain, ./-prefixed, percent-encoded unreserved character
	for mask := 0; mask < 1<<uint(n); mask++ {
		var ents []epubw.EncEntry
		contentEnc, nonFontEnc := false, false
		for i, it := range items {
			if mask&(1<<uint(i)) == 0 {
				continue
			}
			uri := it.path
			switch spell {
			case 1:
				uri = "./" + uri
			case 2:
				uri = strings.ReplaceAll(uri, "chapter", "%63hapter") // percent-encoded unreserved character
			}
			ents = append(ents, epubw.EncEntry{Algorithm: al.uri, URI: uri})
			if it.kind == "content" {
				contentEnc = true
			}
			if it.kind != "font" {
				nonFontEnc = true
			}
		}
		r.Shuffle(len(ents), func(i, j int) { ents[i], ents[j] = ents[j], ents[i] }) // entry order in encryption.xml is arbitrary
		rights := mask == (1<<uint(n))-1 && r.Intn(2) == 0                           // sometimes add rights.xml on the full subset
		ms := append([]epubw.Member{}, base...)
		ms = append(ms, epubw.Member{Name: "META-INF/encryption.xml", Data: epubw.EncryptionXML(ents)})
		if rights {
			ms = append(ms, epubw.Member{Name: "META-INF/rights.xml", Data: epubw.RightsXML()})
		}
		data := epubw.Zip(ms)
		mustRefuse := rights || (contentEnc && !al.obfuscation)
		mustOpen := !rights && (!nonFontEnc && (al.obfuscation || len(ents) == 0))
		caseID := fmt.Sprintf("%s mask=%b alg=%s spell=%d", id, mask, al.uri, spell)
		path := filepath.Join(dir, fmt.Sprintf("%s-%d.epub", strings.ReplaceAll(id, ":", "_"), mask))
		os.WriteFile(path, data, 0o644)
		_, _, err := tabula.Open(path).Text()
		_, err2 := epubdoc.Open(path)
		os.Remove(path)
		c.Case(caseID, len(ents) > 0)
		c.Count("drm_cases_checked", 1)
		c.Seen("drm.algorithm", al.uri)
		c.Seen("drm.uri_spelling", fmt.Sprint(spell))
		detail := map[string]any{"entries": ents, "rights": rights, "items": items}
		finding := ""
		if spell == 2 || hasOddContentName(items) {
			finding = "drm-content-by-uri-suffix"
		}
		switch {
		case mustRefuse:
			c.Seen("drm.expect", "refuse")
			if err == nil || !errors.Is(err, epubdoc.ErrDRMProtected) || err2 == nil || !errors.Is(err2, epubdoc.ErrDRMProtected) {
				c.Fail(finding, "drm-accepted/"+fmt.Sprint(al.obfuscation, spell), id, fmt.Sprintf("EPUB whose encryption.xml covers a content document with %s (rights.xml: %v) was not refused as DRM-protected: tabula err=%v epubdoc err=%v", al.uri, rights, err, err2), detail)
			}
		case mustOpen:
			c.Seen("drm.expect", "open")
			if err != nil || err2 != nil {
				c.Fail("", "drm-false-refusal", id, fmt.Sprintf("font-obfuscation-only EPUB (%d entries, %s) refused: %v / %v", len(ents), al.uri, err, err2), detail)
			}
		default:
			c.Seen("drm.expect", "dont-care")
		}
		// the same protected book with an encryption.xml that cannot be read (its
		// compressed data are damaged): what it covers is unknowable, so the book
		// must not be admitted as if it carried no encryption at all
		if mustRefuse && !rights && (mask%5 == 1 || mask == (1<<uint(n))-1) {
			for _, how := range []string{"middle", "start", "truncated"} {
				bad := damageMember(data, "META-INF/encryption.xml", how)
				if bad == nil {
					continue
				}
				os.WriteFile(path, bad, 0o644)
				_, _, e1 := tabula.Open(path).Text()
				rd, e2 := epubdoc.Open(path)
				if rd != nil {
					rd.Close()
				}
				os.Remove(path)
				c.Case(caseID+" encryption.xml damaged:"+how, true)
				c.Count("drm_unreadable_encryption_xml_checked", 1)
				c.Seen("drm.expect", "refuse-unreadable-metadata")
				if e1 == nil || e2 == nil {
					c.Fail("", "drm-accepted-unreadable-metadata/"+how, id, fmt.Sprintf("EPUB with content documents encrypted by %s whose encryption.xml member is unreadable (deflate data damaged: %s) was opened as if unprotected: tabula err=%v epubdoc err=%v", al.uri, how, e1, e2), detail)
				}
			}
		}
	}
	c.Sample(map[string]any{"id": id, "items": items, "algorithm": al.uri, "subsets": 1 << uint(n)})
}

// damageMember returns a copy of the archive in which the compressed data of
// one deflated member are damaged (bytes overwritten in the middle or at the
// start, or the second half zeroed); nil if the member is absent, stored or tiny.
func damageMember(zipData []byte, name, how string) []byte {
	zr, err := zip.NewReader(bytes.NewReader(zipData), int64(len(zipData)))
	if err != nil {
		return nil
	}
	for _, f := range zr.File {
		if f.Name != name || f.Method != zip.Deflate || (f.CompressedSize64 < 24 && how != "all") || f.CompressedSize64 < 4 {
			continue
		}
		off, err := f.DataOffset()
		if err != nil {
			return nil
		}
		out := append([]byte{}, zipData...)
		n := int64(f.CompressedSize64)
		switch how {
		case "middle":
			for i := n / 2; i < n/2+6; i++ {
				out[off+i] = 0xFF
			}
		case "all":
			for i := int64(0); i < n; i++ {
				out[off+i] = 0xFF
			}
		case "start":
			out[off], out[off+1], out[off+2] = 0x07, 0xFF, 0xFF // reserved block type
		default:
			for i := n / 2; i < n; i++ {
				out[off+i] = 0
			}
		}
		return out
	}
	return nil
}

func hasOddContentName(items []item) bool {
	for _, it := range items {
		if it.kind == "content" && !strings.HasSuffix(strings.ToLower(it.path), ".xhtml") {
			return true
		}
	}
	return false
}

// Run is the C20 check.
func Run(c *fw.Ctx) {
	c.Rule("case = (valid generated document of format F, physical variant: ZIP member order / decoy members of other formats / embedded documents / HTML prologue, file name extension spelling) for the admission matrix; " +
		"(EPUB, subset of 6 manifest items marked encrypted, algorithm URI, URI spelling, rights.xml) for the DRM matrix (all 64 subsets per book); " +
		"(two documents of different formats, one path named for either, sequence of 4 content replacements in place / by rename / by delete+create) for the same-path histories; " +
		"non-trivial iff the extension denotes another format than the bytes, or the variant differs from the writer's output, or encryption.xml has >= 1 entry")
	c.Assume("the package type of an OOXML file is defined by its content types / root relationship, of ODF/EPUB by the mimetype member: a stray member under another format's directory name does not change it",
		"must-refuse = rights.xml present, or a spine content document encrypted with a non-obfuscation algorithm; must-open = only fonts covered, only by the two obfuscation algorithms (or no entry); everything else is not asserted")
	dir := filepath.Join(c.Work, "c20")
	os.MkdirAll(dir, 0o755)
	nd := c.N(70, 2100)
	c.Parallel(nd, func(i int) {
		id := fmt.Sprintf("doc:%d", i)
		if c.Want(id) {
			runDoc(c, id, dir)
		}
	})
	nh := c.N(42, 1400)
	c.Parallel(nh, func(i int) {
		id := fmt.Sprintf("hist:%d", i)
		if c.Want(id) {
			runHistory(c, id, dir)
		}
	})
	nb := c.N(40, 1500)
	c.Parallel(nb, func(i int) {
		id := fmt.Sprintf("drm:%d", i)
		if c.Want(id) {
			runDRM(c, id, dir)
		}
	})
	c.Extra("drm_subsets_exhaustive_per_book", true)
}
