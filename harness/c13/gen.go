package c13

import (
	"unicode/utf8"
	"math/rand"
	"runtime/debug"
	"strings"

	"github.com/tsawler/tabula/rag"
)

func stack() []byte { return debug.Stack() }

var asciiWords = strings.Fields(`the of and to in is that for it as was with be by on not he this are or his from at which but have an had they you were their one all we can her has there been if more when will would who so no out up into than them only its time may some could these two then do first any my now such like our over man me even most made after also did many before must through back years where much your way well down should because each just those people how too little state good very make world still see own men work long here get both between life being under never day same another know while last might us great old year off come since against go came right used take three extraordinarily incomprehensibilities`)

var multiWords = strings.Fields(`naïve café über résumé señor Ærøskøbing 日本 東京 文書 日本語のテキスト данные текст предложение Ελληνικά עברית العربية हिन्दी ไทย 한국어 😀 👨‍👩‍👧‍👦 🏳️‍🌈 é̃ o͜͡o ﬁ Ǆ`)

var cjk = []rune("日本語文書東京都京都大阪名古屋福岡札幌仙台広島的一是不了人我在有他这为之大来以个中上们到说国和地也子时道出而要于就下得可你年生自会那后能对着事其里所去行过家十用发天如然作方成者多日都三小军二无同么经法当起与好看学进种将还分此心前面又定见只主没公从")

var emoji = []string{"😀", "👍🏽", "👨‍👩‍👧‍👦", "🏳️‍🌈", "🇯🇵", "🧑🏿‍🚀", "❤️", "1️⃣"}

var combining = []string{"é", "ǟ", "ộ", "ñ", "Z͑ͫ̓ͪ̂", "กิ้", "क्ष"}

var spaces = []string{" ", " ", " ", "\n", "\t", "  ", "\n\n", " ", " ", "　", "\r\n", "\u0085", " "}

type tg struct{ r *rand.Rand }

func (g tg) pick(xs []string) string { return xs[g.r.Intn(len(xs))] }

func cap1(s string) string {
	if s != "" && s[0] >= 'a' && s[0] <= 'z' {
		return string(s[0]-32) + s[1:]
	}
	return s
}

// proseASCII: sentences with ASCII punctuation, single spaces.
func (g tg) prose(size int, multibyte bool, punct bool) string {
	var sb strings.Builder
	start := true
	for sb.Len() < size {
		w := g.pick(asciiWords)
		if multibyte && g.r.Intn(3) == 0 {
			w = g.pick(multiWords)
		}
		if start {
			w = cap1(w)
			start = false
		}
		if sb.Len() > 0 {
			sb.WriteByte(' ')
		}
		sb.WriteString(w)
		if punct {
			switch g.r.Intn(14) {
			case 0:
				sb.WriteString([]string{".", ".", ".", "!", "?"}[g.r.Intn(5)])
				start = true
			case 1:
				sb.WriteByte(',')
			case 2:
				sb.WriteString(" e.g.")
			case 3:
				if g.r.Intn(4) == 0 {
					sb.WriteString(" Dr.")
				}
			}
		}
	}
	return sb.String()
}

// bounded: words of at most 40 bytes separated by exactly one U+0020 (the
// statement's "a space at least every 50 bytes"), optional sentence marks.
func (g tg) bounded(size int) string {
	mode := g.r.Intn(4)
	var sb strings.Builder
	for sb.Len() < size {
		if sb.Len() > 0 {
			sb.WriteByte(' ')
		}
		var w string
		switch mode {
		case 0:
			w = g.pick(asciiWords)
		case 1: // long words near the window
			n := 20 + g.r.Intn(21)
			b := make([]byte, n)
			for i := range b {
				b[i] = byte('a' + g.r.Intn(26))
			}
			w = string(b)
		case 2: // multi-byte words, <= 40 bytes
			n := 1 + g.r.Intn(12)
			rs := make([]rune, n)
			for i := range rs {
				rs[i] = cjk[g.r.Intn(len(cjk))]
			}
			w = string(rs)
		default:
			w = g.pick(asciiWords)
			if g.r.Intn(3) == 0 {
				w = g.pick(multiWords)
			}
		}
		quoted := g.r.Intn(12) == 0
		if quoted {
			sb.WriteString([]string{"\"", "(", "'", "[", "“"}[g.r.Intn(5)])
		}
		sb.WriteString(w)
		if g.r.Intn(9) == 0 {
			sb.WriteString([]string{".", "!", "?", ".", ","}[g.r.Intn(5)])
			// a sentence that ends inside quotes or brackets: He said "stop." (Really?) …
			if quoted || g.r.Intn(3) == 0 {
				sb.WriteString([]string{"\"", ")", "'", "]", "”", "’", "\")", ")\""}[g.r.Intn(8)])
			}
		}
	}
	return sb.String()
}

func (g tg) cjkText(n int, punct bool) string {
	var sb strings.Builder
	// U+FFFD is an ordinary, validly encoded character (it is what a decoder
	// leaves where the source had undecodable bytes); some texts carry many
	fffd := g.r.Intn(3) == 0
	for i := 0; i < n; i++ {
		if fffd && g.r.Intn(4) == 0 {
			sb.WriteRune('\uFFFD')
			continue
		}
		sb.WriteRune(cjk[g.r.Intn(len(cjk))])
		if punct && g.r.Intn(20) == 0 {
			sb.WriteString([]string{"。", "、", "！", "　"}[g.r.Intn(4)])
		}
	}
	return sb.String()
}

func (g tg) fromList(xs []string, n int, sep string) string {
	var sb strings.Builder
	for i := 0; i < n; i++ {
		if i > 0 {
			sb.WriteString(sep)
		}
		sb.WriteString(g.pick(xs))
	}
	return sb.String()
}

func (g tg) longToken(n int) string {
	var sb strings.Builder
	multi := g.r.Intn(2) == 0
	for sb.Len() < n {
		if multi && g.r.Intn(2) == 0 {
			sb.WriteRune(cjk[g.r.Intn(len(cjk))])
		} else {
			sb.WriteByte(byte('a' + g.r.Intn(26)))
		}
	}
	return sb.String()
}

// damaged returns a text whose encoding is damaged: multi-byte characters cut
// short (a file truncated or re-coded mid-character). SplitToSize still
// terminates on it and conserves its bytes; validity of the pieces is only
// promised for valid input.
func (g tg) damaged(size int) string {
	base := g.prose(size, true, true)
	cuts := []string{"\xe6\x97", "\xf0\x9f\x98", "\xc3", "\xe2\x82", "\xf0\x9f"}
	var sb strings.Builder
	sb.WriteString(g.pick(cuts))
	for _, w := range strings.SplitAfter(base, " ") {
		sb.WriteString(w)
		if g.r.Intn(6) == 0 {
			sb.WriteString(g.pick(cuts))
			if g.r.Intn(2) == 0 {
				sb.WriteString(" ")
			}
		}
	}
	return sb.String()
}

// text returns (text, kind label).
func (g tg) text(size int) (string, string) {
	switch g.r.Intn(14) {
	case 0:
		return g.prose(size, false, true), "ascii-prose"
	case 1:
		return g.prose(size, true, true), "mixed-prose"
	case 2:
		return g.prose(size, true, false), "no-punctuation"
	case 3:
		return g.cjkText(size/3+1, false), "cjk-no-breaks"
	case 4:
		return g.cjkText(size/3+1, true), "cjk-ideographic-punct"
	case 5:
		return g.fromList(emoji, size/8+1, ""), "emoji-zwj"
	case 6:
		return g.fromList(combining, size/4+1, []string{"", " "}[g.r.Intn(2)]), "combining"
	case 7:
		return g.longToken(size), "long-token"
	case 8:
		return g.fromList(spaces, size/2+1, ""), "whitespace-only"
	case 9: // paragraphs
		var ps []string
		for n := 0; n < size; {
			p := g.prose(40+g.r.Intn(300), g.r.Intn(2) == 0, true)
			ps = append(ps, p)
			n += len(p)
		}
		return strings.Join(ps, "\n\n"), "paragraphs"
	case 10: // mixed pieces with odd white space
		var sb strings.Builder
		for sb.Len() < size {
			switch g.r.Intn(6) {
			case 0:
				sb.WriteString(g.cjkText(1+g.r.Intn(80), true))
			case 1:
				sb.WriteString(g.longToken(1 + g.r.Intn(150)))
			case 2:
				sb.WriteString(g.pick(emoji))
			case 3:
				sb.WriteString(g.pick(combining))
			default:
				sb.WriteString(g.prose(1+g.r.Intn(200), true, true))
			}
			sb.WriteString(g.pick(spaces))
		}
		return sb.String(), "mixed"
	case 11:
		return " \n" + g.prose(size, true, true) + "  \n\n", "padded-prose"
	default:
		return g.bounded(size), "bounded"
	}
}

var limits = []int{1, 2, 3, 7, 50, 199, 200, 201, 250, 256, 300, 500, 1000, 2000}

func (g tg) sizeConfig(boundedOnly bool) rag.SizeConfig {
	sc := rag.DefaultSizeConfig()
	unit := []rag.SizeUnit{rag.SizeUnitCharacters, rag.SizeUnitCharacters, rag.SizeUnitTokens, rag.SizeUnitTokens, rag.SizeUnitWords, rag.SizeUnitSentences, rag.SizeUnitParagraphs}[g.r.Intn(7)]
	v := limits[g.r.Intn(len(limits))]
	if g.r.Intn(4) == 0 {
		v = 1 + g.r.Intn(1500)
	}
	if boundedOnly {
		unit = []rag.SizeUnit{rag.SizeUnitCharacters, rag.SizeUnitTokens}[g.r.Intn(2)]
		v = 200 + g.r.Intn(400)
		if g.r.Intn(3) == 0 {
			v = 200
		}
	}
	sc.Max = rag.SizeLimit{Value: v, Unit: unit, Type: rag.LimitTypeHard}
	if !boundedOnly && g.r.Intn(6) == 0 {
		sc.Max.Type = rag.LimitTypeSoft
	}
	sc.Target = rag.SizeLimit{Value: max(1, v/2), Unit: unit, Type: rag.LimitTypeSoft}
	sc.Min = rag.SizeLimit{Value: v / 10, Unit: unit, Type: rag.LimitTypeSoft}
	if g.r.Intn(3) == 0 {
		// the three limits need not share a unit (every field carries its own):
		// a soft minimum / target in another unit than the hard maximum
		ou := []rag.SizeUnit{rag.SizeUnitCharacters, rag.SizeUnitTokens, rag.SizeUnitWords}[g.r.Intn(3)]
		sc.Min = rag.SizeLimit{Value: 1 + g.r.Intn(max(2, v/4)), Unit: ou, Type: rag.LimitTypeSoft}
		if g.r.Intn(2) == 0 {
			sc.Target.Unit = ou
		}
	}
	sc.TokensPerChar = []float64{0.25, 0.25, 0.5, 1, 0, 0.3}[g.r.Intn(6)]
	sc.SplitAtSemanticBoundaries = g.r.Intn(2) == 0
	sc.MergeSmallChunks = g.r.Intn(2) == 0
	switch g.r.Intn(12) { // presets
	case 0:
		sc = rag.SmallChunkConfig()
	case 1:
		sc = rag.CohereEmbeddingConfig()
	case 2:
		sc = rag.SemanticSizeConfig(1, 1+g.r.Intn(3))
	}
	return sc
}

func genSplit(r *rand.Rand, i int) *wcase {
	g := tg{r}
	w := &wcase{Kind: "split"}
	if i%3 == 0 { // a third of the list is aimed at the bounded domain of the size law
		w.Size = g.sizeConfig(true)
		w.Text = []byte(g.bounded(300 + r.Intn(4000)))
		w.Titles = []string{"bounded"}
		return w
	}
	w.Size = g.sizeConfig(false)
	size := []int{0, 5, 60, 300, 1200, 4000}[r.Intn(6)] + r.Intn(200)
	if w.Size.Max.Value >= 200 && r.Intn(3) == 0 {
		size = 3000 + r.Intn(20000)
	}
	t, kind := g.text(size)
	if i%16 == 7 {
		t, kind = g.damaged(size), "damaged-utf8"
		if r.Intn(2) == 0 { // and the smallest limits: no split point ever fits
			w.Size.Max.Value = 1 + r.Intn(3)
			w.Size.Target.Value, w.Size.Min.Value = 1, 0
		}
	}
	w.Text = []byte(t)
	w.Titles = []string{kind}
	if i%5 == 1 {
		w.Boundaries = true
		w.Titles = []string{kind + "+boundaries-reused"}
	}
	return w
}

func (g tg) overlapConfig() rag.OverlapConfig {
	oc := rag.OverlapConfig{
		Strategy:              []rag.OverlapStrategy{rag.OverlapNone, rag.OverlapCharacter, rag.OverlapCharacter, rag.OverlapSentence, rag.OverlapSentence, rag.OverlapParagraph}[g.r.Intn(6)],
		Size:                  []int{0, 1, 2, 3, 5, 10, 50, 100, 300}[g.r.Intn(9)],
		MinOverlap:            []int{0, 20, 50}[g.r.Intn(3)],
		MaxOverlap:            []int{0, 10, 50, 100, 300, 500, 1500}[g.r.Intn(7)],
		PreserveWords:         g.r.Intn(2) == 0,
		IncludeHeadingContext: g.r.Intn(3) == 0,
	}
	if g.r.Intn(8) == 0 {
		oc = rag.DefaultOverlapConfig()
	}
	return oc
}

// strayAt inserts the byte sequence bad so that it stands where a window of the last
// max bytes and of the last size bytes of the result starts (moved forward to a
// character boundary of t); a window longer than the text gets no insertion.
func strayAt(t string, max, size int, bad string) string {
	ins := func(t string, k int) string {
		if k <= 0 || k >= len(t) {
			return t
		}
		for k < len(t) && !utf8.RuneStart(t[k]) {
			k++
		}
		return t[:k] + bad + t[k:]
	}
	n := len(t)
	if max > size {
		t = ins(t, n+2*len(bad)-max)
		return ins(t, n+2*len(bad)-size)
	}
	return ins(t, n+len(bad)-size)
}

func genOverlap(r *rand.Rand) *wcase {
	g := tg{r}
	w := &wcase{Kind: "overlap", Overlap: g.overlapConfig()}
	n := 2 + r.Intn(6)
	for i := 0; i < n; i++ {
		size := []int{3, 30, 120, 400, 1500}[r.Intn(5)] + r.Intn(60)
		t, _ := g.text(size)
		if r.Intn(3) == 0 {
			t = g.prose(size, r.Intn(2) == 0, true)
		}
		t = strings.TrimSpace(t)
		if t == "" {
			t = g.pick(asciiWords)
		}
		if r.Intn(5) == 0 {
			// stray bytes (a lone lead or continuation byte, as left by a mis-decoded source)
			// where the overlap window of this text starts — at len-MaxOverlap and at
			// len-Size: the bounds hold for every text, valid UTF-8 or not
			t = strayAt(t, w.Overlap.MaxOverlap, w.Overlap.Size, []string{"\xe9", "\x80", "\xc3", "\xf0\x9f"}[r.Intn(4)])
		}
		w.Texts = append(w.Texts, []byte(t))
		title := ""
		if r.Intn(2) == 0 {
			title = cap1(g.pick(asciiWords)) + " " + g.pick(multiWords)
		}
		w.Titles = append(w.Titles, title)
	}
	return w
}

func genDoc(r *rand.Rand, kind string) *wcase {
	g := tg{r}
	w := &wcase{Kind: kind}
	w.Size = g.sizeConfig(r.Intn(2) == 0)
	inDomain := w.Size.Max.Type == rag.LimitTypeHard && w.Size.Max.Value >= 200 &&
		(w.Size.Max.Unit == rag.SizeUnitCharacters || w.Size.Max.Unit == rag.SizeUnitTokens)
	cc := rag.DefaultChunkerConfig()
	cc.MaxChunkSize = []int{100, 250, 600, 2000}[r.Intn(4)] + r.Intn(100)
	cc.MinChunkSize = []int{0, 20, 100}[r.Intn(3)]
	cc.OverlapSize = []int{0, 3, 10, 30, 100, 400}[r.Intn(6)]
	cc.OverlapSentences = r.Intn(2) == 0
	cc.IncludeSectionContext = r.Intn(2) == 0
	w.Chunker = cc
	n := 1 + r.Intn(7)
	for i := 0; i < n; i++ {
		size := []int{10, 80, 300, 900, 2500, 6000}[r.Intn(6)] + r.Intn(100)
		var t string
		if kind == "docchunk" && inDomain && r.Intn(4) > 0 {
			t = g.bounded(size) + " " // the blank line between paragraphs is no U+0020
		} else {
			t, _ = g.text(size)
			// a paragraph element holds running text, not blank lines of its own
			t = strings.TrimSpace(strings.ReplaceAll(t, "\n\n", "\n"))
			if t == "" {
				t = g.pick(multiWords)
			}
		}
		w.Texts = append(w.Texts, []byte(t))
	}
	if kind == "docchunk" && r.Intn(4) == 0 {
		// empty paragraph elements (a page that opens with one, one between two texts)
		w.Texts = append([][]byte{{}}, w.Texts...)
		if len(w.Texts) > 2 && r.Intn(2) == 0 {
			k := 1 + r.Intn(len(w.Texts)-1)
			w.Texts = append(w.Texts[:k:k], append([][]byte{{}}, w.Texts[k:]...)...)
		}
	}
	w.PerPage = 1 + r.Intn(4)
	return w
}

// fixed witnesses of the defects found on the pinned tree (run on every run).
var fixedCases = []wcase{
	{Kind: "split", Titles: []string{"fixed-cjk"}, Size: rag.SmallChunkConfig(),
		Text: []byte(strings.Repeat("日本語の文書は空白も句点も使わずに書かれることが多い", 120))},
	{Kind: "split", Titles: []string{"fixed-tpc0"}, Size: rag.SizeConfig{Max: rag.SizeLimit{Value: 200, Unit: rag.SizeUnitTokens, Type: rag.LimitTypeHard}, Target: rag.SizeLimit{Value: 100, Unit: rag.SizeUnitTokens}},
		Text: []byte(strings.Repeat("plain words without any full stop ", 80))},
	{Kind: "split", Titles: []string{"fixed-stop-on-target"}, Size: rag.SizeConfig{Max: rag.SizeLimit{Value: 200, Unit: rag.SizeUnitCharacters, Type: rag.LimitTypeHard}, TokensPerChar: 0.25},
		Text: []byte(strings.Repeat("x", 9) + strings.Repeat(" abcdefghi", 19) + ". " + strings.Repeat("tail words ", 30))},
	{Kind: "split", Titles: []string{"fixed-forward-sentence"}, Size: rag.SizeConfig{Max: rag.SizeLimit{Value: 200, Unit: rag.SizeUnitCharacters, Type: rag.LimitTypeHard}, TokensPerChar: 0.25},
		Text: []byte(strings.Repeat("word ", 50) + "and then it ends here. " + strings.Repeat("more ", 60))},
	{Kind: "overlap", Overlap: rag.OverlapConfig{Strategy: rag.OverlapCharacter, Size: 10, MaxOverlap: 100},
		Texts: [][]byte{[]byte("前の塊の本文はここで終わります"), []byte("次の塊")}, Titles: []string{"", ""}},
	{Kind: "overlap", Overlap: rag.OverlapConfig{Strategy: rag.OverlapCharacter, Size: 60, MaxOverlap: 200, PreserveWords: true},
		Texts: [][]byte{[]byte("First chunk with enough own text to be longer than the overlap size."), []byte("tiny"), []byte("Third chunk.")}, Titles: []string{"", "", ""}},
	{Kind: "overlap", Overlap: rag.OverlapConfig{Strategy: rag.OverlapSentence, Size: 3, MaxOverlap: 60, PreserveWords: true},
		Texts: [][]byte{[]byte("Intro text here. The first kept sentence is short. The second one is short too. The third and last sentence ends it."), []byte("Next chunk.")}, Titles: []string{"", ""}},
}
