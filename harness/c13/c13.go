// Package c13: splitting respects the size limit and never corrupts text.
//
// Every call into tabula runs in an isolated worker process with a CPU-time
// budget (the property speaks of termination). Cases are sent in batches; a
// batch that does not come back cleanly is re-run case by case.
//
// Laws checked on the results (computed from the input, not from tabula):
//   - termination (CPU budget), no panic;
//   - conservation: the non-white-space runes of the pieces, concatenated in
//     order, are exactly those of the input;
//   - every piece is valid UTF-8 (all inputs are);
//   - bounded domain only (hard character/token maximum >= 200, a space at
//     least every 50 bytes): no piece exceeds the maximum, measured leniently
//     (rune count, resp. int(runes*tokensPerChar));
//   - overlap: the prefix added to chunk i is, white space aside, a suffix of
//     chunk i-1's own text, is valid UTF-8, has at most MaxOverlap runes, and
//     the chunk text is [heading context +] prefix + own text.
package c13

import (
	"bytes"
	"encoding/json"
	"fmt"
	"math/rand"
	"os"
	"path/filepath"
	"strings"
	"sync/atomic"
	"time"
	"unicode"
	"unicode/utf8"

	"github.com/tsawler/tabula/model"
	"github.com/tsawler/tabula/rag"

	"verifharness/fw"
)

// ---------------------------------------------------------------- protocol

type wcase struct {
	ID      string            `json:"id"`
	Kind    string            `json:"kind"` // split | overlap | docchunk | layout
	Text    []byte            `json:"text,omitempty"`
	Size    rag.SizeConfig    `json:"size"`
	Overlap rag.OverlapConfig `json:"overlap"`
	Chunker rag.ChunkerConfig `json:"chunker"`
	Texts   [][]byte          `json:"texts,omitempty"`  // chunk texts (overlap) / paragraphs (docchunk, layout)
	Titles  []string          `json:"titles,omitempty"` // section titles (overlap)
	PerPage int               `json:"per_page,omitempty"`
	// Boundaries (split): detect semantic boundaries once and pass the same slice to three splits
	Boundaries bool `json:"boundaries,omitempty"`
}

type wresult struct {
	ID        string   `json:"id"`
	Panic     string   `json:"panic,omitempty"`
	Stack     string   `json:"stack,omitempty"`
	Pieces    [][]byte `json:"pieces,omitempty"` // split pieces / chunk texts
	Kinds     []string `json:"kinds,omitempty"`  // docchunk: element types per chunk
	Own       [][]byte `json:"own,omitempty"`    // layout: chunk texts before overlap
	Prefix    [][]byte `json:"prefix,omitempty"` // overlap prefix per chunk
	HasPrefix []bool   `json:"has_prefix,omitempty"`
	Gen       []byte   `json:"gen,omitempty"` // GenerateOverlap(texts[0]).Text
	SecTitles []string `json:"sec_titles,omitempty"`
	OwnAgain  [][]byte `json:"own_again,omitempty"` // layout: Chunk(doc) once more on the same Chunker, after the overlap run
	Pieces2   [][]byte `json:"pieces2,omitempty"`   // layout: ChunkWithOverlapEnabled(doc) once more
}

// wbatch is one request: the worker notes the id of the case it is about to
// run in the journal file, so that a batch that dies or spins names its culprit.
type wbatch struct {
	Journal string   `json:"journal"`
	Cases   []*wcase `json:"cases"`
}

func init() { fw.RegisterWorker("c13", handle) }

func handle(req []byte) []byte {
	var b wbatch
	if err := json.Unmarshal(req, &b); err != nil {
		panic("bad request: " + err.Error())
	}
	out := make([]wresult, len(b.Cases))
	for i := range b.Cases {
		if b.Journal != "" {
			os.WriteFile(b.Journal, []byte(b.Cases[i].ID), 0o644)
		}
		out[i] = runOne(b.Cases[i])
	}
	if b.Journal != "" {
		os.Remove(b.Journal)
	}
	rb, _ := json.Marshal(out)
	return rb
}

func bytesOf(ss []string) [][]byte {
	out := make([][]byte, len(ss))
	for i, s := range ss {
		out[i] = []byte(s)
	}
	return out
}

func paragraphsDoc(w *wcase, layout bool) *model.Document {
	doc := model.NewDocument()
	doc.Metadata.Title = "T"
	per := w.PerPage
	if per <= 0 {
		per = len(w.Texts) + 1
	}
	var page *model.Page
	for i, t := range w.Texts {
		if i%per == 0 {
			page = model.NewPage(612, 792)
			if layout {
				page.Layout = &model.PageLayout{}
			}
			doc.AddPage(page)
		}
		page.AddElement(&model.Paragraph{Text: string(t)})
		if layout {
			page.Layout.Paragraphs = append(page.Layout.Paragraphs, model.ParagraphInfo{Text: string(t)})
		}
	}
	return doc
}

func runOne(w *wcase) (res wresult) {
	res.ID = w.ID
	defer func() {
		if r := recover(); r != nil {
			res = wresult{ID: w.ID, Panic: fmt.Sprint(r), Stack: string(stack())}
		}
	}()
	switch w.Kind {
	case "split":
		if w.Boundaries {
			// semantic boundaries detected once (paragraph blocks) and handed to several
			// splits, as a caller that keeps them would: a split must not depend on what
			// an earlier split did with the slice
			text := string(w.Text)
			var blocks []rag.ContentBlock
			for i, t := range strings.Split(text, "\n\n") {
				blocks = append(blocks, rag.ContentBlock{Type: model.ElementTypeParagraph, Text: t, Page: 1, Index: i})
			}
			bs := rag.NewBoundaryDetector().DetectBoundaries(blocks)
			half := w.Size
			if half.Max.Value > 2 {
				half.Max.Value /= 2
				if half.Target.Value > half.Max.Value {
					half.Target.Value = half.Max.Value
				}
				if half.Min.Value > half.Target.Value {
					half.Min.Value = half.Target.Value
				}
			}
			rag.NewSizeCalculatorWithConfig(half).SplitToSize(text, bs)
			rag.NewSizeCalculatorWithConfig(w.Size).SplitToSize(text, bs)
			res.Pieces = bytesOf(rag.NewSizeCalculatorWithConfig(w.Size).SplitToSize(text, bs))
			break
		}
		res.Pieces = bytesOf(rag.NewSizeCalculatorWithConfig(w.Size).SplitToSize(string(w.Text), nil))
	case "overlap":
		chunks := make([]*rag.Chunk, len(w.Texts))
		for i, t := range w.Texts {
			md := rag.ChunkMetadata{ChunkIndex: i}
			if i < len(w.Titles) {
				md.SectionTitle = w.Titles[i]
			}
			chunks[i] = rag.NewChunk(fmt.Sprintf("c%d", i), string(t), md)
		}
		if len(w.Texts) > 0 {
			res.Gen = []byte(rag.NewOverlapGeneratorWithConfig(w.Overlap).GenerateOverlap(string(w.Texts[0])).Text)
		}
		for _, c := range rag.ApplyOverlapToChunks(chunks, w.Overlap) {
			res.Pieces = append(res.Pieces, []byte(c.Text))
			res.Prefix = append(res.Prefix, []byte(c.OverlapPrefix))
			res.HasPrefix = append(res.HasPrefix, c.HasOverlapPrefix)
		}
	case "docchunk":
		col := rag.ChunkDocumentWithConfig(paragraphsDoc(w, false), w.Chunker, w.Size)
		for _, c := range col.Chunks {
			res.Pieces = append(res.Pieces, []byte(c.Text))
			res.Kinds = append(res.Kinds, strings.Join(c.Metadata.ElementTypes, ","))
		}
	case "layout":
		doc := paragraphsDoc(w, true)
		ck := rag.NewChunkerWithConfig(w.Chunker)
		r1, err := ck.Chunk(doc)
		if err != nil {
			panic("Chunk: " + err.Error())
		}
		for _, c := range r1.Chunks {
			res.Own = append(res.Own, []byte(c.Text))
		}
		r2, err := ck.ChunkWithOverlapEnabled(doc)
		if err != nil {
			panic("ChunkWithOverlapEnabled: " + err.Error())
		}
		for _, c := range r2.Chunks {
			res.Pieces = append(res.Pieces, []byte(c.Text))
			res.Prefix = append(res.Prefix, []byte(c.OverlapPrefix))
			res.HasPrefix = append(res.HasPrefix, c.HasOverlapPrefix)
			res.SecTitles = append(res.SecTitles, c.Metadata.SectionTitle)
		}
		// the same Chunker asked again for the same document: the chunks' own content
		// is what it was before overlap text was added, and a second overlap run adds
		// the same overlap, not more
		if r3, err := ck.Chunk(doc); err == nil {
			for _, c := range r3.Chunks {
				res.OwnAgain = append(res.OwnAgain, []byte(c.Text))
			}
		}
		if r4, err := ck.ChunkWithOverlapEnabled(doc); err == nil {
			for _, c := range r4.Chunks {
				res.Pieces2 = append(res.Pieces2, []byte(c.Text))
			}
		}
	default:
		panic("bad kind " + w.Kind)
	}
	return res
}

// ---------------------------------------------------------------- laws

func squeeze(b []byte) string {
	var sb strings.Builder
	sb.Grow(len(b))
	for i := 0; i < len(b); {
		r, n := utf8.DecodeRune(b[i:])
		if (r == utf8.RuneError && n == 1) || !unicode.IsSpace(r) {
			sb.Write(b[i : i+n]) // invalid bytes are kept as they are
		}
		i += n
	}
	return sb.String()
}

func squeezeAll(bs [][]byte) string {
	var sb strings.Builder
	for _, b := range bs {
		sb.WriteString(squeeze(b))
	}
	return sb.String()
}

func firstDiff(a, b string) int {
	n := min(len(a), len(b))
	for i := 0; i < n; i++ {
		if a[i] != b[i] {
			return i
		}
	}
	return n
}

func around(s string, i int) string {
	lo, hi := max(0, i-24), min(len(s), i+24)
	return fmt.Sprintf("%q", s[lo:hi])
}

type verdict struct{ class, what string }

func effTPC(sc rag.SizeConfig) float64 {
	if sc.TokensPerChar <= 0 {
		return 0.25
	}
	return sc.TokensPerChar
}

// lawConservation: pieces together == input, white space aside, in order.
func lawConservation(input []byte, pieces [][]byte, who string) *verdict {
	want, got := squeeze(input), squeezeAll(pieces)
	if want != got {
		i := firstDiff(want, got)
		return &verdict{"conservation", fmt.Sprintf("%s: non-white-space characters of the pieces differ from the input at offset %d: input %s, pieces %s (input %d, pieces %d bytes)", who, i, around(want, i), around(got, i), len(want), len(got))}
	}
	return nil
}

func lawUTF8(pieces [][]byte, who string) *verdict {
	return lawUTF8In(nil, pieces, who)
}

// lawUTF8In: the law is conditional on the input being valid UTF-8 (input nil = known valid).
func lawUTF8In(input []byte, pieces [][]byte, who string) *verdict {
	if input != nil && !utf8.Valid(input) {
		return nil
	}
	for i, p := range pieces {
		if !utf8.Valid(p) {
			j := 0
			for j < len(p) {
				r, n := utf8.DecodeRune(p[j:])
				if r == utf8.RuneError && n == 1 {
					break
				}
				j += n
			}
			return &verdict{"invalid-utf8", fmt.Sprintf("%s: piece %d of %d is not valid UTF-8 (byte %d of %d: %x) although the input is", who, i, len(pieces), j, len(p), p[max(0, j-4):min(len(p), j+4)])}
		}
	}
	return nil
}

// inBoundedDomain: hard character/token maximum >= 200 and a space at least every 50 bytes.
func inBoundedDomain(sc rag.SizeConfig, text []byte) bool {
	if sc.Max.Type != rag.LimitTypeHard || sc.Max.Value < 200 {
		return false
	}
	if sc.Max.Unit != rag.SizeUnitCharacters && sc.Max.Unit != rag.SizeUnitTokens {
		return false
	}
	if sc.Max.Unit == rag.SizeUnitTokens && effTPC(sc) > 1 {
		return false
	}
	run := 0
	for _, b := range text {
		if b == ' ' {
			run = 0
		} else {
			run++
			if run >= 50 {
				return false
			}
		}
	}
	return true
}

func lawSize(sc rag.SizeConfig, pieces [][]byte, who string) *verdict {
	for i, p := range pieces {
		runes := utf8.RuneCount(p)
		size := runes
		if sc.Max.Unit == rag.SizeUnitTokens {
			size = int(float64(runes) * effTPC(sc))
		}
		if size > sc.Max.Value {
			return &verdict{"exceeds-hard-max", fmt.Sprintf("%s: piece %d of %d measures %d %s (%d runes, %d bytes), hard maximum %d; the text has a space at least every 50 bytes", who, i, len(pieces), size, sc.Max.Unit, runes, len(p), sc.Max.Value)}
		}
	}
	return nil
}

// lawOverlap checks the overlap clause against the chunks' own texts.
func lawOverlap(own, texts, prefix [][]byte, has []bool, titles []string, oc rag.OverlapConfig, who string) *verdict {
	if len(texts) != len(own) {
		return &verdict{"overlap-count", fmt.Sprintf("%s: %d chunks in, %d out", who, len(own), len(texts))}
	}
	inputValid := true
	for i := range own {
		inputValid = inputValid && utf8.Valid(own[i])
	}
	if !inputValid {
		// the library may hand back an undecodable byte as it is or as U+FFFD (one per byte, as a
		// conversion through []rune does): both sides are compared in the replaced form
		norm := func(bs [][]byte) [][]byte {
			out := make([][]byte, len(bs))
			for i, b := range bs {
				out[i] = []byte(string([]rune(string(b))))
			}
			return out
		}
		own, texts, prefix = norm(own), norm(texts), norm(prefix)
	}
	for i := range texts {
		if inputValid && !utf8.Valid(texts[i]) {
			return &verdict{"invalid-utf8", fmt.Sprintf("%s: text of chunk %d is not valid UTF-8 after overlap", who, i)}
		}
		if i == 0 || !has[i] || len(prefix[i]) == 0 {
			if squeeze(texts[i]) != squeeze(own[i]) {
				return &verdict{"overlap-text", fmt.Sprintf("%s: chunk %d reports no overlap prefix but its text changed: %s", who, i, around(string(texts[i]), 0))}
			}
			continue
		}
		p := prefix[i]
		if oc.Strategy == rag.OverlapNone {
			return &verdict{"overlap-none", fmt.Sprintf("%s: chunk %d got an overlap prefix with strategy none", who, i)}
		}
		if inputValid && !utf8.Valid(p) {
			return &verdict{"overlap-invalid-utf8", fmt.Sprintf("%s: overlap prefix of chunk %d is not valid UTF-8: %x…", who, i, p[:min(len(p), 12)])}
		}
		if n := utf8.RuneCount(p); n > oc.MaxOverlap {
			return &verdict{"overlap-too-long", fmt.Sprintf("%s: overlap prefix of chunk %d has %d characters, MaxOverlap is %d", who, i, n, oc.MaxOverlap)}
		}
		sp, prev := squeeze(p), squeeze(own[i-1])
		if !strings.HasSuffix(prev, sp) {
			why := "is not a suffix of the previous chunk's own text"
			if strings.Contains(prev, sp) {
				why = "is taken from the middle of the previous chunk's own text, not from its end"
			} else if i >= 2 && strings.Contains(squeeze(own[i-2])+prev, sp) {
				why = "reaches back into the chunk before the previous one (overlap computed from already overlapped text)"
			}
			return &verdict{"overlap-not-suffix", fmt.Sprintf("%s: overlap prefix of chunk %d %s: prefix %q, previous chunk ends %q", who, i, why, fw.OneLine(string(p), 120), tail(string(own[i-1]), 80))}
		}
		// text = [context] + prefix + own
		st := squeeze(texts[i])
		so := squeeze(own[i])
		if !strings.HasSuffix(st, so) {
			return &verdict{"overlap-text", fmt.Sprintf("%s: text of chunk %d no longer ends with its own content", who, i)}
		}
		head := st[:len(st)-len(so)]
		ctx := ""
		if oc.IncludeHeadingContext && i < len(titles) && titles[i] != "" {
			ctx = squeeze([]byte("[" + titles[i] + "]"))
		}
		if head != sp && head != ctx+sp {
			return &verdict{"overlap-text", fmt.Sprintf("%s: text added in front of chunk %d is %q, reported overlap prefix is %q", who, i, fw.OneLine(head, 120), fw.OneLine(sp, 120))}
		}
	}
	return nil
}

func tail(s string, n int) string {
	if len(s) <= n {
		return s
	}
	i := len(s) - n
	for i < len(s) && !utf8.RuneStart(s[i]) {
		i++
	}
	return "…" + s[i:]
}

// ---------------------------------------------------------------- evaluation

func evaluate(c *fw.Ctx, w *wcase, r *wresult) *verdict {
	if r.Panic != "" {
		return &verdict{"panic", fmt.Sprintf("%s panicked: %s at %s", w.Kind, r.Panic, fw.InnermostTabulaFrame(afterPanic(r.Stack)))}
	}
	switch w.Kind {
	case "split":
		who := "SplitToSize"
		if v := lawUTF8In(w.Text, r.Pieces, who); v != nil {
			return v
		}
		if v := lawConservation(w.Text, r.Pieces, who); v != nil {
			return v
		}
		c.Count("pieces_checked", int64(len(r.Pieces)))
		c.Count("bytes_conserved", int64(len(w.Text)))
		if inBoundedDomain(w.Size, w.Text) {
			c.Count("size_law_cases", 1)
			if v := lawSize(w.Size, r.Pieces, who); v != nil {
				return v
			}
		}
	case "overlap":
		who := "ApplyOverlapToChunks"
		if v := lawOverlap(w.Texts, r.Pieces, r.Prefix, r.HasPrefix, w.Titles, w.Overlap, who); v != nil {
			return v
		}
		c.Count("overlaps_checked", int64(len(r.Pieces)))
		// GenerateOverlap directly
		if len(w.Texts) > 0 && len(r.Gen) > 0 {
			if utf8.Valid(w.Texts[0]) && !utf8.Valid(r.Gen) {
				return &verdict{"overlap-invalid-utf8", fmt.Sprintf("GenerateOverlap: result is not valid UTF-8: %x…", r.Gen[:min(len(r.Gen), 12)])}
			}
			if n := utf8.RuneCount(r.Gen); n > w.Overlap.MaxOverlap {
				return &verdict{"overlap-too-long", fmt.Sprintf("GenerateOverlap: %d characters, MaxOverlap is %d", n, w.Overlap.MaxOverlap)}
			}
			if !strings.HasSuffix(squeeze([]byte(string([]rune(string(w.Texts[0]))))), squeeze([]byte(string([]rune(string(r.Gen)))))) {
				return &verdict{"overlap-not-suffix", fmt.Sprintf("GenerateOverlap: result %q is not the end of the chunk text (…%q)", fw.OneLine(string(r.Gen), 120), tail(string(w.Texts[0]), 80))}
			}
		}
	case "docchunk":
		who := "ChunkDocumentWithConfig"
		all := []byte(strings.Join(stringsOf(w.Texts), "\n\n"))
		if v := lawUTF8In(all, r.Pieces, who); v != nil {
			return v
		}
		if v := lawConservation(all, r.Pieces, who); v != nil {
			return v
		}
		c.Count("pieces_checked", int64(len(r.Pieces)))
		if inBoundedDomain(w.Size, all) {
			c.Count("size_law_cases", 1)
			if v := lawSize(w.Size, r.Pieces, who); v != nil {
				return v
			}
		}
	case "layout":
		all := []byte(strings.Join(stringsOf(w.Texts), "\n\n"))
		if v := lawUTF8In(all, r.Own, "Chunker.Chunk"); v != nil {
			return v
		}
		if v := lawConservation(all, r.Own, "Chunker.Chunk"); v != nil {
			return v
		}
		oc := rag.OverlapConfig{Strategy: rag.OverlapNone, MaxOverlap: w.Chunker.OverlapSize * 3, IncludeHeadingContext: w.Chunker.IncludeSectionContext}
		if w.Chunker.OverlapSize > 0 {
			oc.Strategy = rag.OverlapCharacter
			if w.Chunker.OverlapSentences {
				oc.Strategy = rag.OverlapSentence
			}
		}
		if v := lawOverlap(r.Own, r.Pieces, r.Prefix, r.HasPrefix, r.SecTitles, oc, "ChunkWithOverlapEnabled"); v != nil {
			return v
		}
		c.Count("overlaps_checked", int64(len(r.Pieces)))
		same := func(a, b [][]byte) int {
			if len(a) != len(b) {
				return 0
			}
			for i := range a {
				if !bytes.Equal(a[i], b[i]) {
					return i
				}
			}
			return -1
		}
		if r.OwnAgain != nil {
			c.Count("chunker_reuse_compared", 1)
			if i := same(r.Own, r.OwnAgain); i >= 0 {
				return &verdict{"chunker-reuse/own-content-changed", fmt.Sprintf("Chunker.Chunk on the same Chunker and document after ChunkWithOverlapEnabled: %d chunks (before: %d); first difference at chunk %d", len(r.OwnAgain), len(r.Own), i)}
			}
		}
		if r.Pieces2 != nil {
			if i := same(r.Pieces, r.Pieces2); i >= 0 {
				return &verdict{"chunker-reuse/overlap-stacked", fmt.Sprintf("ChunkWithOverlapEnabled twice on the same Chunker and document: %d chunks (first run: %d); first difference at chunk %d", len(r.Pieces2), len(r.Pieces), i)}
			}
		}
	}
	return nil
}

func totalLen(bs [][]byte) int {
	n := 0
	for _, b := range bs {
		n += len(b)
	}
	return n
}

func stringsOf(bs [][]byte) []string {
	out := make([]string, len(bs))
	for i, b := range bs {
		out[i] = string(b)
	}
	return out
}

func afterPanic(stack string) string {
	if i := strings.Index(stack, "panic("); i >= 0 {
		return stack[i:]
	}
	return stack
}

func detailOf(w *wcase, r *wresult) map[string]any {
	d := map[string]any{"kind": w.Kind}
	switch w.Kind {
	case "split":
		d["size_config"] = fmt.Sprintf("%+v", w.Size)
		d["text"] = clip(string(w.Text), 3000)
		d["text_len"] = len(w.Text)
	case "overlap":
		d["overlap_config"] = fmt.Sprintf("%+v", w.Overlap)
		d["texts"] = clipAll(w.Texts, 600)
		d["titles"] = w.Titles
	default:
		d["size_config"] = fmt.Sprintf("%+v", w.Size)
		d["chunker_config"] = fmt.Sprintf("%+v", w.Chunker)
		d["paragraphs"] = clipAll(w.Texts, 400)
		d["per_page"] = w.PerPage
	}
	if r != nil {
		if r.Stack != "" {
			d["stack"] = clip(r.Stack, 2500)
		}
		d["pieces"] = clipAll(r.Pieces, 200)
		if len(r.Prefix) > 0 {
			d["prefixes"] = clipAll(r.Prefix, 200)
		}
	}
	return d
}

func clip(s string, n int) string {
	if len(s) <= n {
		return s
	}
	i := n
	for i > 0 && !utf8.RuneStart(s[i]) {
		i--
	}
	return s[:i] + fmt.Sprintf("…(%d bytes)", len(s))
}

func clipAll(bs [][]byte, n int) []string {
	out := []string{}
	for i, b := range bs {
		if i >= 30 {
			out = append(out, fmt.Sprintf("…(%d more)", len(bs)-i))
			break
		}
		out = append(out, fmt.Sprintf("%q", clip(string(b), n)))
	}
	return out
}

// ---------------------------------------------------------------- driver

const batchSize = 20

func isNontrivial(w *wcase) bool {
	switch w.Kind {
	case "split":
		sc := rag.NewSizeCalculatorWithConfig(w.Size) // only the pure size arithmetic of the configuration
		_ = sc
		return exceedsMax(w.Size, w.Text)
	case "overlap":
		return len(w.Texts) >= 2 && w.Overlap.Strategy != rag.OverlapNone && w.Overlap.Size > 0
	case "docchunk":
		return exceedsMax(w.Size, []byte(strings.Join(stringsOf(w.Texts), "\n\n")))
	case "layout":
		n := 0
		for _, t := range w.Texts {
			n += len(t) + 2
		}
		return n > w.Chunker.MaxChunkSize
	}
	return false
}

// exceedsMax: is the input longer than the maximum (a split is forced)?
// Computed independently of tabula with the documented unit definitions.
func exceedsMax(sc rag.SizeConfig, text []byte) bool {
	switch sc.Max.Unit {
	case rag.SizeUnitCharacters:
		return len(text) > sc.Max.Value
	case rag.SizeUnitTokens:
		return int(float64(len(text))*effTPC(sc)) > sc.Max.Value
	case rag.SizeUnitWords:
		return len(strings.Fields(string(text))) > sc.Max.Value
	case rag.SizeUnitSentences:
		return strings.Count(string(text), ". ")+strings.Count(string(text), "! ")+strings.Count(string(text), "? ") >= sc.Max.Value
	case rag.SizeUnitParagraphs:
		return strings.Count(string(text), "\n\n") >= sc.Max.Value
	}
	return false
}

func describeCase(w *wcase) string {
	switch w.Kind {
	case "split":
		return fmt.Sprintf("split|%+v|%x", w.Size, w.Text)
	case "overlap":
		return fmt.Sprintf("overlap|%+v|%x", w.Overlap, w.Texts)
	default:
		return fmt.Sprintf("%s|%+v|%+v|%x", w.Kind, w.Size, w.Chunker, w.Texts)
	}
}

// Run is the C13 check.
func Run(c *fw.Ctx) {
	c.Rule("case = (text or paragraph list, size / overlap / chunker configuration, entry point); non-trivial iff the input is longer than the maximum so that a split is forced (overlap cases: >= 2 chunks and a strategy other than none); distinct by hash of configuration + input")
	c.Assume("white space = unicode.IsSpace; all generated inputs are valid UTF-8",
		"size law only on the statement's bounded domain: Max.Type hard, unit characters or tokens, value >= 200, TokensPerChar <= 1, a U+0020 at least every 50 bytes; measured leniently (runes, int(runes*TokensPerChar), ratio <= 0 read as the documented default 0.25)",
		"overlap bounds = at most MaxOverlap characters (MinOverlap is documented as a preference and not asserted)",
		"the layout Chunker's MaxChunkSize is not a SizeConfig hard maximum: its paths are checked for termination, conservation, UTF-8 and overlap only",
		"termination = a batch of <= 20 cases finishes within 20 s of CPU time (healthy cases cost milliseconds); a failing batch is re-run case by case")

	nSplit := c.N(6000, 1000000)
	nOverlap := c.N(2500, 300000)
	nDoc := c.N(800, 80000)
	nLayout := c.N(800, 80000)
	type job struct {
		kind string
		i    int
	}
	var jobs []job
	for i := 0; i < nSplit; i++ {
		jobs = append(jobs, job{"split", i})
	}
	for i := 0; i < nOverlap; i++ {
		jobs = append(jobs, job{"overlap", i})
	}
	for i := 0; i < nDoc; i++ {
		jobs = append(jobs, job{"docchunk", i})
	}
	for i := 0; i < nLayout; i++ {
		jobs = append(jobs, job{"layout", i})
	}
	for i := range fixedCases {
		jobs = append(jobs, job{"fixed", i})
	}
	mk := func(j job) *wcase {
		id := fmt.Sprintf("%s:%d", j.kind, j.i)
		var w *wcase
		switch j.kind {
		case "split":
			w = genSplit(c.Rand("split", j.i), j.i)
		case "overlap":
			w = genOverlap(c.Rand("overlap", j.i))
		case "docchunk":
			w = genDoc(c.Rand("docchunk", j.i), "docchunk")
		case "layout":
			w = genDoc(c.Rand("layout", j.i), "layout")
		case "fixed":
			f := fixedCases[j.i]
			w = &f
		}
		w.ID = id
		return w
	}

	workers := 16
	pool := fw.NewPool(c, "c13", workers, cpuBudget, 2048)
	defer pool.Close()
	d := &driver{c: c, pool: pool}

	nb := (len(jobs) + batchSize - 1) / batchSize
	c.Parallel(nb, func(b int) {
		var cases []*wcase
		for k := b * batchSize; k < (b+1)*batchSize && k < len(jobs); k++ {
			id := fmt.Sprintf("%s:%d", jobs[k].kind, jobs[k].i)
			if !c.Want(id) {
				continue
			}
			cases = append(cases, mk(jobs[k]))
		}
		d.runBatch(cases)
	})
	c.Extra("max_batch_cpu_ms", atomic.LoadInt64(&d.maxCPU))
	c.Extra("cpu_budget_per_batch_s", cpuBudget.Seconds())
	if n := atomic.LoadInt64(&d.skipped); n > 0 {
		c.Extra("cases_skipped_after_hang_flood", n)
	}
	if c.Only == "" && c.ViolationCount() == 0 && c.Counter("size_law_cases") < 50 {
		c.Inconclusive("fewer than 50 size-law cases on the bounded domain")
	}
}

// cpuBudget: a batch of <= 20 cases costs well under a second of CPU on a
// healthy tree (see max_batch_cpu_ms in the evidence); 20 s is the hang line.
const cpuBudget = 20 * time.Second

type driver struct {
	c       *fw.Ctx
	pool    *fw.Pool
	seq     int64
	maxCPU  int64
	hangs   int64
	skipped int64
}

func withStack(d map[string]any, st string) map[string]any {
	d["stack"] = clip(st, 4000)
	return d
}

// runBatch runs the cases in one worker request. If the worker dies or spins,
// the journal names the case it was on: that case is reported (a hang is first
// confirmed by running the case alone, which is also what a replay does) and
// the cases after it are run as a new batch.
func (d *driver) runBatch(cases []*wcase) {
	c := d.c
	for len(cases) > 0 {
		if atomic.LoadInt64(&d.hangs) >= 12 {
			// the tree is broken beyond doubt; do not burn a CPU budget per remaining hang
			atomic.AddInt64(&d.skipped, int64(len(cases)))
			return
		}
		journal := filepath.Join(c.Work, fmt.Sprintf("c13-journal-%d", atomic.AddInt64(&d.seq, 1)))
		req, _ := json.Marshal(wbatch{Journal: journal, Cases: cases})
		res := d.pool.Do(req)
		for {
			old := atomic.LoadInt64(&d.maxCPU)
			if ms := res.CPU.Milliseconds(); ms <= old || atomic.CompareAndSwapInt64(&d.maxCPU, old, ms) {
				break
			}
		}
		var outs []wresult
		if res.Kind == "ok" && json.Unmarshal(res.Resp, &outs) == nil && len(outs) == len(cases) {
			for k := range cases {
				finish(c, cases[k], &outs[k])
			}
			return
		}
		// which case was it on?
		jb, _ := os.ReadFile(journal)
		os.Remove(journal)
		at := -1
		for k, w := range cases {
			if w.ID == string(jb) {
				at = k
			}
		}
		if at < 0 {
			if res.Kind == "stuck" {
				c.Inconclusive("worker stuck: " + res.Msg)
				return
			}
			at = 0 // no journal entry: the worker died before the first case; blame nothing, retry one by one
			if len(cases) > 1 {
				for _, w := range cases {
					d.runBatch([]*wcase{w})
				}
				return
			}
		}
		c.Count("batches_interrupted", 1)
		// cases before the culprit finished fine inside the dead worker but their
		// results are lost: run them again (cheap), then deal with the culprit.
		if at > 0 {
			d.runBatch(cases[:at])
		}
		w := cases[at]
		if len(cases) > 1 { // confirm alone
			d.runBatch([]*wcase{w})
		} else {
			account(c, w)
			switch res.Kind {
			case "hang":
				atomic.AddInt64(&d.hangs, 1)
				c.Fail("", "termination/"+w.Kind, w.ID, fmt.Sprintf("%s did not terminate: %s; spinning in %s", w.Kind, res.Msg, res.Site), withStack(detailOf(w, nil), res.Stack))
			case "stuck":
				c.Inconclusive("worker stuck on " + w.ID + ": " + res.Msg)
			default:
				c.Fail("", res.Kind+"/"+w.Kind, w.ID, fmt.Sprintf("%s killed the process (%s): %s at %s", w.Kind, res.Kind, res.Msg, res.Site), withStack(detailOf(w, nil), res.Stack))
			}
		}
		cases = cases[at+1:]
	}
}

func account(c *fw.Ctx, w *wcase) {
	c.Case(describeCase(w), isNontrivial(w))
	c.Seen("entry", w.Kind)
	switch w.Kind {
	case "split", "docchunk":
		if w.Kind == "split" && len(w.Titles) > 0 {
			c.Seen("text_kind", w.Titles[0])
		}
		c.Seen("size_unit", w.Size.Max.Unit.String())
		c.Seen("max_bucket", bucket(w.Size.Max.Value))
		c.Seen("tokens_per_char", fmt.Sprint(w.Size.TokensPerChar))
	case "overlap":
		c.Seen("overlap_strategy", w.Overlap.Strategy.String())
		c.Seen("preserve_words", fmt.Sprint(w.Overlap.PreserveWords))
	}
}

func bucket(v int) string {
	switch {
	case v <= 3:
		return fmt.Sprint(v)
	case v < 50:
		return "4-49"
	case v < 200:
		return "50-199"
	case v < 1000:
		return "200-999"
	}
	return ">=1000"
}

func finish(c *fw.Ctx, w *wcase, r *wresult) {
	account(c, w)
	if strings.HasSuffix(w.ID, ":7") || strings.HasPrefix(w.ID, "fixed:") {
		c.Sample(map[string]any{"id": w.ID, "kind": w.Kind, "input_bytes": len(w.Text) + totalLen(w.Texts), "pieces": len(r.Pieces), "size": fmt.Sprintf("%+v", w.Size.Max), "overlap": fmt.Sprintf("%+v", w.Overlap)})
	}
	if v := evaluate(c, w, r); v != nil {
		c.Fail("", w.Kind+"/"+v.class, w.ID, v.what, detailOf(w, r))
	}
}

var _ = rand.Int
