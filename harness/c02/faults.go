package c02

import (
	"archive/zip"
	"bytes"
	"fmt"
	"io"
	"math/rand"
	"regexp"
	"runtime/debug"
	"sort"
	"strconv"
	"strings"

	"github.com/tsawler/tabula/text"

	"verifharness/fw"
	"verifharness/gen/pdfw"
)

// rawInts finds the integer tokens of a PDF text (not part of a name, a real,
// a keyword or a hex string): [start,end) pairs.
func rawInts(d []byte) [][2]int {
	delim := func(c byte) bool { return strings.IndexByte(" \t\r\n\f\x00[]<>()/", c) >= 0 }
	var out [][2]int
	for i := 0; i < len(d); i++ {
		if i > 0 && !delim(d[i-1]) {
			continue
		}
		j := i
		if j < len(d) && (d[j] == '-' || d[j] == '+') {
			j++
		}
		k := j
		for k < len(d) && d[k] >= '0' && d[k] <= '9' {
			k++
		}
		if k > j && (k == len(d) || delim(d[k])) {
			out = append(out, [2]int{i, k})
			i = k
		}
	}
	return out
}

func stackString() string { return string(debug.Stack()) }

func panicSite(stack string) string {
	if i := strings.Index(stack, "panic("); i >= 0 {
		stack = stack[i:]
	}
	return fw.InnermostTabulaFrame(stack)
}

func extractFromBytes(b []byte) error {
	_, err := text.NewExtractor().ExtractFromBytes(b)
	return err
}

// ExtraBases lets generator packages contribute valid base documents of the
// ZIP-based formats (docx, odt, xlsx, pptx, epub): func(r) -> (bytes, ext, description).
var ExtraBases []func(r *rand.Rand) ([]byte, string, string)

var hostileInts = []string{"0", "-1", "2147483648", "9223372036854775807", "4294967295", "99999999999999999999"}

type base struct {
	rebuild func(m *pdfw.Mutation, rev int) []byte // PDF bases: the same file written with one semantic fault
	objStmN [][]int
	xrefCnt []int
	id      string
	kind    string
	ext     string
	data    []byte
	fields  []pdfw.Field
	desc    string
	forms   map[string]int // formsBase: object numbers of the form XObjects
}

func splice(b []byte, start, end int, repl []byte) []byte {
	out := make([]byte, 0, len(b)-(end-start)+len(repl))
	out = append(out, b[:start]...)
	out = append(out, repl...)
	out = append(out, b[end:]...)
	return out
}

var intRe = regexp.MustCompile(`-?\d+`)

// pdfSingleFaults enumerates the whole single-fault catalogue for one PDF base.
func pdfSingleFaults(b *base, emit func(desc string, data []byte)) {
	d := b.data
	// object ranges
	type rng struct{ num, start, end int }
	var objs []rng
	for i, f := range b.fields {
		if f.Kind == "objhead" {
			end := -1
			for _, g := range b.fields[i+1:] {
				if g.Kind == "keyword" && string(d[g.Start:g.End]) == "endobj" {
					end = g.End
					break
				}
			}
			if end > 0 {
				objs = append(objs, rng{f.Obj, f.Start, end})
			}
		}
	}
	maxObj := 0
	for _, o := range objs {
		if o.num > maxObj {
			maxObj = o.num
		}
	}
	for _, f := range b.fields {
		tok := string(d[f.Start:f.End])
		// truncate at every token boundary
		emit(fmt.Sprintf("truncate after %s@%d", f.Kind, f.End), append([]byte{}, d[:f.End]...))
		switch f.Kind {
		case "int", "startxref":
			for _, h := range hostileInts {
				emit(fmt.Sprintf("int %s@%d=%s", tok, f.Start, h), splice(d, f.Start, f.End, []byte(h)))
			}
		case "xrefhead", "objhead", "xrefentry":
			// every number inside
			for _, loc := range intRe.FindAllStringIndex(tok, -1) {
				for _, h := range hostileInts[:4] {
					emit(fmt.Sprintf("%s-int %s@%d=%s", f.Kind, tok[loc[0]:loc[1]], f.Start+loc[0], h), splice(d, f.Start+loc[0], f.Start+loc[1], []byte(h)))
				}
			}
		case "ref":
			// retarget: itself, object 1.., free object 0, missing object, hostile number
			targets := []string{fmt.Sprintf("%d 0 R", f.Obj), "0 0 R", fmt.Sprintf("%d 0 R", maxObj+7), "2147483648 0 R", "-1 0 R", fmt.Sprintf("%d 65535 R", f.Obj)}
			for _, o := range objs {
				if len(targets) < 10 && o.num != f.Obj {
					targets = append(targets, fmt.Sprintf("%d 0 R", o.num)) // an arbitrary other object (often an ancestor)
				}
			}
			for _, t := range targets {
				if t != tok {
					emit(fmt.Sprintf("ref %s@%d->%s", tok, f.Start, t), splice(d, f.Start, f.End, []byte(t)))
				}
			}
		case "delim":
			emit(fmt.Sprintf("delim-drop %s@%d", tok, f.Start), splice(d, f.Start, f.End, nil))
			emit(fmt.Sprintf("delim-dup %s@%d", tok, f.Start), splice(d, f.Start, f.End, []byte(tok+tok)))
			swap := map[string]string{"<<": "[", ">>": "]", "[": "<<", "]": ">>"}[tok]
			if swap != "" {
				emit(fmt.Sprintf("delim-swap %s@%d", tok, f.Start), splice(d, f.Start, f.End, []byte(swap)))
			}
		case "string":
			if strings.HasPrefix(tok, "(") {
				emit(fmt.Sprintf("string-unclose@%d", f.Start), splice(d, f.End-1, f.End, nil))
				emit(fmt.Sprintf("string-nest@%d", f.Start), splice(d, f.Start, f.Start+1, []byte("((((")))
			} else {
				emit(fmt.Sprintf("hex-unclose@%d", f.Start), splice(d, f.End-1, f.End, nil))
				emit(fmt.Sprintf("hex-bad@%d", f.Start), splice(d, f.Start+1, f.Start+1, []byte("zz")))
			}
		case "name":
			emit(fmt.Sprintf("name-mangle %s@%d", tok, f.Start), splice(d, f.Start, f.End, []byte(tok+"#")))
			emit(fmt.Sprintf("name-drop %s@%d", tok, f.Start), splice(d, f.Start, f.End, nil))
		case "keyword":
			emit(fmt.Sprintf("keyword-drop %s@%d", tok, f.Start), splice(d, f.Start, f.End, nil))
			emit(fmt.Sprintf("keyword-dup %s@%d", tok, f.Start), splice(d, f.Start, f.End, []byte(tok+" "+tok)))
		case "streamdata":
			n := f.End - f.Start
			if n > 0 {
				for _, pos := range []int{0, n / 2, n - 1} {
					x := append([]byte{}, d...)
					x[f.Start+pos] ^= 0x40
					emit(fmt.Sprintf("stream-bitflip@%d+%d", f.Start, pos), x)
				}
				emit(fmt.Sprintf("stream-truncate@%d", f.Start), splice(d, f.Start+n/2, f.End, nil))
				emit(fmt.Sprintf("stream-empty@%d", f.Start), splice(d, f.Start, f.End, nil))
				emit(fmt.Sprintf("stream-zero@%d", f.Start), splice(d, f.Start, f.End, make([]byte, n)))
				// a JPEG (DCTDecode data): frame header dimensions 65535 x 65535, 0 x 0, and 65535 x 1
				if n > 4 && d[f.Start] == 0xFF && d[f.Start+1] == 0xD8 {
					if k := bytes.Index(d[f.Start:f.End], []byte{0xFF, 0xC0}); k > 0 && f.Start+k+9 < f.End {
						for _, dim := range [][4]byte{{0xFF, 0xFF, 0xFF, 0xFF}, {0, 0, 0, 0}, {0, 1, 0xFF, 0xFF}} {
							x := append([]byte{}, d...)
							copy(x[f.Start+k+5:], dim[:])
							emit(fmt.Sprintf("jpeg-sof-dims@%d=%x", f.Start+k, dim), x)
						}
					}
				}
			}
		case "real":
			for _, h := range []string{"0", "-1e308", "1e308", "NaN", "....", "1e999999"} {
				emit(fmt.Sprintf("real %s@%d=%s", tok, f.Start, h), splice(d, f.Start, f.End, []byte(h)))
			}
		}
	}
	// offset-valued trailer keys pointed at the cross-reference sections of the file
	// itself (the section that carries the key, and every other one): /Prev chains and
	// hybrid-reference /XRefStm links that lead back to where the reader already is
	var sections []string
	for _, f := range b.fields {
		if f.Kind == "startxref" {
			sections = append(sections, string(d[f.Start:f.End]))
		}
	}
	for _, marker := range []string{"trailer", "/Type /XRef", "/Type/XRef"} {
		for idx := 0; ; {
			i := bytes.Index(d[idx:], []byte(marker))
			if i < 0 {
				break
			}
			at := idx + i
			idx = at + len(marker)
			k := bytes.Index(d[at:], []byte("/Size"))
			if k < 0 || k > 400 {
				continue
			}
			for _, off := range sections {
				for _, key := range []string{"XRefStm", "Prev"} {
					emit(fmt.Sprintf("trailer-key /%s %s injected@%d", key, off, at+k), splice(d, at+k, at+k, []byte("/"+key+" "+off+" ")))
				}
			}
		}
	}
	for _, o := range objs {
		emit(fmt.Sprintf("object-drop %d", o.num), splice(d, o.start, o.end, nil))
		emit(fmt.Sprintf("object-dup %d", o.num), splice(d, o.end, o.end, append([]byte("\n"), d[o.start:o.end]...)))
	}
	// semantic faults expressed as text edits of dictionary entries
	for _, e := range [][2]string{
		{"/Count ", "/Count -5 %"}, {"/Count ", "/Count 2147483647 %"}, {"/Kids ", "/Kids [] %"}, {"/N ", "/N 2147483647 %"}, {"/N ", "/N -1 %"},
		{"/First ", "/First 2147483647 %"}, {"/First ", "/First -1 %"}, {"/Columns ", "/Columns 0 %"}, {"/Columns ", "/Columns -3 %"}, {"/Columns ", "/Columns 2147483647 %"},
		{"/Predictor ", "/Predictor 99 %"}, {"/W ", "/W [-1 -1 -1] %"}, {"/W ", "/W [0 0 0] %"}, {"/W ", "/W [9 9 9] %"}, {"/W ", "/W [1 2147483647 1] %"}, {"/Index ", "/Index [0] %"}, {"/Index ", "/Index [0 2147483647] %"}, {"/Index ", "/Index [-5 10] %"},
		{"/Size ", "/Size -1 %"}, {"/Size ", "/Size 2147483647 %"}, {"/Length ", "/Length 2147483647 %"}, {"/Length ", "/Length -1 %"}, {"/Colors ", "/Colors 0 %"},
		{"/MediaBox ", "/MediaBox [0 0] %"}, {"/MediaBox ", "/MediaBox [1e400 0 -1e400 NaN] %"}, {"/Rotate ", "/Rotate 45 %"},
		{"/FirstChar ", "/FirstChar -1 %"}, {"/LastChar ", "/LastChar 2147483647 %"}, {"/DW ", "/DW -1 %"},
		{"/Width ", "/Width -7 %"}, {"/Width ", "/Width 4294967296 %"}, {"/Height ", "/Height -1 %"}, {"/Height ", "/Height 40000 %"}, {"/Width ", "/Width 40000 %"},
		{"/BitsPerComponent ", "/BitsPerComponent 16 %"}, {"/BitsPerComponent ", "/BitsPerComponent 3 %"}, {"/ColorSpace ", "/ColorSpace /DeviceCMYK %"}, {"/ColorSpace ", "/ColorSpace /DeviceRGB %"}, {"/ColorSpace ", "/ColorSpace [/Indexed [/Indexed [/Indexed /DeviceGray 1 <00>] 1 <00>] 1 <00>] %"},
	} {
		for idx := 0; ; {
			i := bytes.Index(d[idx:], []byte(e[0]))
			if i < 0 {
				break
			}
			at := idx + i
			emit(fmt.Sprintf("entry %s=>%s@%d", strings.TrimSpace(e[0]), strings.TrimSuffix(e[1], " %"), at), splice(d, at, at+len(e[0]), []byte(strings.TrimSuffix(e[1], "%"))))
			idx = at + len(e[0])
		}
	}
}

// fixupXRef repairs the cross-reference information of a classic-xref PDF after
// an edit that changed its length: without it every length-changing fault
// only ever exercises the xref loader (tabula has no xref recovery), and the
// code behind the faulted field is never reached. Offsets of objects, of
// earlier xref sections (/Prev) and startxref that lie behind the edit are
// shifted by delta. Returns nil when the edit touches the xref data itself.
func fixupXRef(b *base, data []byte) []byte {
	if len(data) == len(b.data) {
		return nil
	}
	ed, ok := diffEdit(b.data, data)
	if !ok {
		return nil
	}
	return fixupEdits(b, []edit{ed})
}

func maxInt(a, b int) int {
	if a > b {
		return a
	}
	return b
}

// edit replaces d[start:end] of the base by repl.
type edit struct {
	start, end int
	repl       []byte
	desc       string
}

// diffEdit expresses a faulted file as one edit of the base (common prefix / suffix).
func diffEdit(d, data []byte) (edit, bool) {
	p := 0
	for p < len(d) && p < len(data) && d[p] == data[p] {
		p++
	}
	q := 0
	for q < len(d)-p && q < len(data)-p && d[len(d)-1-q] == data[len(data)-1-q] {
		q++
	}
	if p == len(d) && p == len(data) {
		return edit{}, false
	}
	return edit{start: p, end: len(d) - q, repl: append([]byte{}, data[p:len(data)-q]...)}, true
}

// applyEdits applies non-overlapping edits (any order) to the base.
func applyEdits(d []byte, eds []edit) []byte {
	s := append([]edit{}, eds...)
	sort.Slice(s, func(i, j int) bool { return s[i].start > s[j].start })
	out := append([]byte{}, d...)
	for _, e := range s {
		out = splice(out, e.start, e.end, e.repl)
	}
	return out
}

// fixupEdits applies the edits and repairs the classic cross-reference data
// (object offsets, /Prev, startxref) behind them; nil when an edit touches
// those data themselves or a repaired number would change its digit count.
func fixupEdits(b *base, eds []edit) []byte {
	d := b.data
	out := applyEdits(d, eds)
	shift := func(pos int) int { // position in the original -> position in the edited file
		n := pos
		for _, e := range eds {
			if pos >= e.end {
				n += len(e.repl) - (e.end - e.start)
			}
		}
		return n
	}
	changed := false
	fixNum := func(f pdfw.Field, width int) bool {
		for _, e := range eds {
			if f.Start < e.end && f.End > e.start {
				return false // an edit hit this field
			}
		}
		tok := string(d[f.Start:f.End])
		loc := intRe.FindStringIndex(tok)
		if loc == nil {
			return true
		}
		v, err := strconv.Atoi(tok[loc[0]:loc[1]])
		if err != nil || shift(v) == v {
			return true // points before every edit: unchanged
		}
		nv := shift(v)
		ns := strconv.Itoa(nv)
		if width > 0 {
			ns = fmt.Sprintf("%0*d", width, nv)
		}
		if len(ns) != loc[1]-loc[0] {
			return false // digit count changes: would shift everything again
		}
		copy(out[shift(f.Start)+loc[0]:], ns)
		changed = true
		return true
	}
	for i, f := range b.fields {
		switch f.Kind {
		case "xrefentry":
			if bytes.Contains(d[f.Start:f.End], []byte(" n")) {
				if !fixNum(f, 10) {
					return nil
				}
			}
		case "startxref":
			if !fixNum(f, 0) {
				return nil
			}
		case "name":
			if string(d[f.Start:f.End]) == "/Prev" && i+1 < len(b.fields) && b.fields[i+1].Kind == "int" {
				if !fixNum(b.fields[i+1], 0) {
					return nil
				}
			}
		}
	}
	if !changed {
		return nil
	}
	return out
}

// pdfSemanticFaults damages data inside encoded streams (object-stream headers,
// xref-stream entries) by re-writing the file with one pdfw.Mutation; all
// offsets and lengths stay consistent, so the code behind the damaged field is
// reached. Values include the boundaries of the decoded data (len-1, len, len+1).
func pdfSemanticFaults(b *base, emit func(desc string, data []byte)) {
	if b.rebuild == nil {
		return
	}
	abs := []int64{0, -1, 1, 7, 2147483648, 9223372036854775807}
	for rev, conts := range b.objStmN {
		for ci, n := range conts {
			for idx := 0; idx < n && idx < 6; idx++ {
				for _, v := range abs {
					emit(fmt.Sprintf("objstm r%d c%d entry %d offset=%d", rev, ci, idx, v), b.rebuild(&pdfw.Mutation{Kind: "objstm-off", Cont: ci, Index: idx, Value: v}, rev))
					emit(fmt.Sprintf("objstm r%d c%d entry %d objnum=%d", rev, ci, idx, v), b.rebuild(&pdfw.Mutation{Kind: "objstm-num", Cont: ci, Index: idx, Value: v}, rev))
				}
				for _, rel := range []string{"bodylen", "datalen"} {
					for _, dv := range []int64{-2, -1, 0, 1, 64} {
						emit(fmt.Sprintf("objstm r%d c%d entry %d offset=%s%+d", rev, ci, idx, rel, dv), b.rebuild(&pdfw.Mutation{Kind: "objstm-off", Cont: ci, Index: idx, Rel: rel, Value: dv}, rev))
					}
				}
			}
			for _, v := range abs {
				emit(fmt.Sprintf("objstm r%d c%d /First=%d", rev, ci, v), b.rebuild(&pdfw.Mutation{Kind: "objstm-first", Cont: ci, Value: v}, rev))
				emit(fmt.Sprintf("objstm r%d c%d /N=%d", rev, ci, v), b.rebuild(&pdfw.Mutation{Kind: "objstm-n", Cont: ci, Value: v}, rev))
			}
			emit(fmt.Sprintf("objstm r%d c%d /N=n+1", rev, ci), b.rebuild(&pdfw.Mutation{Kind: "objstm-n", Cont: ci, Value: int64(n + 1)}, rev))
			for _, dv := range []int64{-1, 0, 1} {
				emit(fmt.Sprintf("objstm r%d c%d /First=datalen%+d", rev, ci, dv), b.rebuild(&pdfw.Mutation{Kind: "objstm-first", Cont: ci, Rel: "datalen", Value: dv}, rev))
			}
		}
	}
	for rev, n := range b.xrefCnt {
		for idx := 0; idx < n && idx < 12; idx++ {
			for field := 0; field < 3; field++ {
				vals := []int64{0, 1, 2, 3, 255, 65535}
				if field == 1 {
					vals = []int64{0, 1, 9, 4294967295}
				}
				for _, v := range vals {
					emit(fmt.Sprintf("xrefstm r%d entry %d field %d=%d", rev, idx, field, v), b.rebuild(&pdfw.Mutation{Kind: "xref-field", Index: idx, Field: field, Value: v}, rev))
				}
				if field == 1 {
					for _, dv := range []int64{-1, 0, 5, 4096} {
						emit(fmt.Sprintf("xrefstm r%d entry %d offset=xrefpos%+d", rev, idx, dv), b.rebuild(&pdfw.Mutation{Kind: "xref-field", Index: idx, Field: 1, Rel: "filesize", Value: dv}, rev))
					}
				}
			}
		}
	}
}

// byteMutations are seed-determined (replayable) random damage.
func byteMutation(d []byte, r *rand.Rand) ([]byte, string) {
	x := append([]byte{}, d...)
	if len(x) == 0 {
		return x, "empty"
	}
	switch r.Intn(7) {
	case 0:
		k := 1 + r.Intn(4)
		for ; k > 0; k-- {
			x[r.Intn(len(x))] ^= 1 << uint(r.Intn(8))
		}
		return x, "mut-bitflips"
	case 1:
		p := r.Intn(len(x))
		return x[:p], "mut-truncate"
	case 2:
		a, b := r.Intn(len(x)), r.Intn(len(x))
		if a > b {
			a, b = b, a
		}
		return append(x[:a:a], x[b:]...), "mut-delete-block"
	case 3:
		a := r.Intn(len(x))
		n := 1 + r.Intn(200)
		if a+n > len(x) {
			n = len(x) - a
		}
		blk := append([]byte{}, x[a:a+n]...)
		rep := 1 + r.Intn(50)
		ins := bytes.Repeat(blk, rep)
		return append(x[:a:a], append(ins, x[a:]...)...), "mut-repeat-block"
	case 4:
		a, b := r.Intn(len(x)), r.Intn(len(x))
		n := 1 + r.Intn(64)
		for i := 0; i < n && a+i < len(x) && b+i < len(x); i++ {
			x[a+i] = x[b+i]
		}
		return x, "mut-splice"
	case 5:
		p := r.Intn(len(x))
		for i := p; i < len(x) && i < p+8; i++ {
			x[i] = byte(r.Intn(256))
		}
		return x, "mut-random-bytes"
	default:
		// replace a digit run by a hostile integer
		locs := intRe.FindAllIndex(x, -1)
		if len(locs) == 0 {
			return x, "mut-none"
		}
		l := locs[r.Intn(len(locs))]
		return splice(x, l[0], l[1], []byte(hostileInts[r.Intn(len(hostileInts))])), "mut-hostile-int"
	}
}

// ---- ZIP / XML faults ----------------------------------------------------------

type zmember struct {
	name   string
	data   []byte
	method uint16
}

func readZip(b []byte) []zmember {
	zr, err := zip.NewReader(bytes.NewReader(b), int64(len(b)))
	if err != nil {
		return nil
	}
	var ms []zmember
	for _, f := range zr.File {
		rc, err := f.Open()
		if err != nil {
			continue
		}
		data, _ := io.ReadAll(rc)
		rc.Close()
		ms = append(ms, zmember{f.Name, data, f.Method})
	}
	return ms
}

func writeZip(ms []zmember) []byte {
	var buf bytes.Buffer
	zw := zip.NewWriter(&buf)
	for _, m := range ms {
		w, err := zw.CreateHeader(&zip.FileHeader{Name: m.name, Method: m.method})
		if err != nil {
			continue
		}
		w.Write(m.data)
	}
	zw.Close()
	return buf.Bytes()
}

var attrNumRe = regexp.MustCompile(`="(-?\d+)"`)
var cellRefRe = regexp.MustCompile(`r="([A-Z]+)(\d+)"`)

// zipSingleFaults enumerates member-level and XML-level faults of a ZIP-based document.
func zipSingleFaults(b *base, emit func(desc string, data []byte)) {
	ms := readZip(b.data)
	if ms == nil {
		return
	}
	clone := func() []zmember {
		c := make([]zmember, len(ms))
		copy(c, ms)
		return c
	}
	for i, m := range ms {
		c := clone()
		emit("zip-drop "+m.name, writeZip(append(c[:i:i], c[i+1:]...)))
		c = clone()
		emit("zip-dup "+m.name, writeZip(append(c, m)))
		c = clone()
		c[i].data = nil
		emit("zip-empty "+m.name, writeZip(c))
		c = clone()
		c[i].data = m.data[:len(m.data)/2]
		emit("zip-halve "+m.name, writeZip(c))
		if !strings.HasSuffix(m.name, ".xml") && !strings.HasSuffix(m.name, ".rels") && !strings.HasSuffix(m.name, ".opf") && !strings.HasSuffix(m.name, "html") && !strings.HasSuffix(m.name, ".ncx") {
			continue
		}
		s := string(m.data)
		xmlEmit := func(desc, ns string) {
			c := clone()
			c[i].data = []byte(ns)
			emit("xml "+m.name+": "+desc, writeZip(c))
		}
		// numeric attributes -> hostile values
		for k, loc := range attrNumRe.FindAllStringSubmatchIndex(s, -1) {
			if k > 40 {
				break
			}
			for _, h := range hostileInts[:4] {
				xmlEmit(fmt.Sprintf("attr@%d=%s", loc[2], h), s[:loc[2]]+h+s[loc[3]:])
			}
		}
		// cell references -> huge / malformed
		for k, loc := range cellRefRe.FindAllStringSubmatchIndex(s, -1) {
			if k > 10 {
				break
			}
			for _, h := range []string{`r="ZZZZZZ1"`, `r="A99999999"`, `r="A0"`, `r="1A"`, `r=""`, `r="XFD1048576"`, `r="A-1"`} {
				xmlEmit(fmt.Sprintf("cellref@%d=%s", loc[0], h), s[:loc[0]]+h+s[loc[1]:])
			}
		}
		// structure: unclosed element, truncation at tag boundaries, deep nesting, removed closing tags
		tags := regexp.MustCompile(`<[^>]*>`).FindAllStringIndex(s, -1)
		step := len(tags)/12 + 1
		for k := 0; k < len(tags); k += step {
			t := tags[k]
			xmlEmit(fmt.Sprintf("truncate@%d", t[0]), s[:t[0]])
			xmlEmit(fmt.Sprintf("tag-drop@%d", t[0]), s[:t[0]]+s[t[1]:])
			xmlEmit(fmt.Sprintf("tag-dup@%d", t[0]), s[:t[1]]+s[t[0]:])
		}
		// reference cycles between named definitions (style inheritance and the like):
		// a definition that names itself, and a two-element cycle
		for _, rc := range []struct{ open, idAttr, refElem, refAttr string }{
			{"<w:style ", "w:styleId", "w:basedOn", ""}, // DOCX styles: <w:basedOn w:val="ID"/>
			{"<w:style ", "w:styleId", "w:link", ""},    // linked styles
			{"<w:abstractNum ", "w:abstractNumId", "w:numStyleLink", ""},
			{"<style:style ", "style:name", "", "style:parent-style-name"}, // ODF: attribute on the element itself
			{"<text:list-style ", "style:name", "", "style:parent-style-name"},
		} {
			var ids []string
			var pos []int // position just behind the opening tag of each definition
			for idx := 0; ; {
				i := strings.Index(s[idx:], rc.open)
				if i < 0 {
					break
				}
				at := idx + i
				end := strings.Index(s[at:], ">")
				if end < 0 {
					break
				}
				tag := s[at : at+end+1]
				if m := regexp.MustCompile(rc.idAttr + `="([^"]*)"`).FindStringSubmatch(tag); m != nil && !strings.HasSuffix(tag, "/>") {
					ids = append(ids, m[1])
					pos = append(pos, at+end+1)
				}
				idx = at + end + 1
			}
			mk := func(targets map[int]string) string { // definition index -> id it refers to
				var sb strings.Builder
				last := 0
				for k, p := range pos {
					t, ok := targets[k]
					if !ok {
						continue
					}
					if rc.refAttr != "" {
						// attribute inside the opening tag
						sb.WriteString(s[last : p-1])
						sb.WriteString(" " + rc.refAttr + `="` + t + `">`)
					} else {
						sb.WriteString(s[last:p])
						// replace an existing reference inside this definition, else insert one
						closeTag := "</" + strings.TrimSpace(rc.open[1:]) + ">"
						spanEnd := len(s)
						if e := strings.Index(s[p:], closeTag); e >= 0 {
							spanEnd = p + e
						}
						re := regexp.MustCompile(`<` + rc.refElem + ` w:val="[^"]*"/>`)
						if loc := re.FindStringIndex(s[p:spanEnd]); loc != nil {
							sb.WriteString(s[p : p+loc[0]])
							sb.WriteString("<" + rc.refElem + ` w:val="` + t + `"/>`)
							last = p + loc[1]
							continue
						}
						sb.WriteString("<" + rc.refElem + ` w:val="` + t + `"/>`)
					}
					last = p
				}
				sb.WriteString(s[last:])
				return sb.String()
			}
			for k := range ids {
				if k > 6 {
					break
				}
				xmlEmit(fmt.Sprintf("ref-cycle %s %s->self", rc.refElem+rc.refAttr, ids[k]), mk(map[int]string{k: ids[k]}))
			}
			if len(ids) >= 2 {
				xmlEmit(fmt.Sprintf("ref-cycle %s %s<->%s", rc.refElem+rc.refAttr, ids[0], ids[1]), mk(map[int]string{0: ids[1], 1: ids[0]}))
				all := map[int]string{}
				for k := range ids {
					all[k] = ids[(k+1)%len(ids)]
				}
				xmlEmit(fmt.Sprintf("ref-cycle %s ring of %d", rc.refElem+rc.refAttr, len(ids)), mk(all))
			}
		}
		xmlEmit("deep-nesting", strings.Repeat("<a>", 20000)+s)
		// cell-range attributes (mergeCell ref, dimension ref, autoFilter ref …): ranges that
		// reach beyond every stored row / column, reversed, degenerate and unparsable ones
		for idx, from := 0, 0; idx < 6; idx++ {
			j := strings.Index(s[from:], ` ref="`)
			if j < 0 {
				break
			}
			st := from + j + len(` ref="`)
			e := strings.Index(s[st:], `"`)
			if e < 0 {
				break
			}
			if strings.Contains(s[st:st+e], ":") {
				for _, h := range []string{"A1:A1048576", "A1:XFD1", "A1:XFD1048576", "A1:A99999999999999999999", "B2:A1", "A0:A0", "A1:", ":", "A1:ZZZZZZZZ9", "A-1:B2", "A1:A3"} {
					xmlEmit(fmt.Sprintf("range-ref#%d=%s", idx, h), s[:st]+h+s[st+e:])
				}
			}
			from = st + e
		}
		// the XML declaration: encoding labels the reader may not know (a decoder
		// hook has to answer for every label), other versions, a second declaration
		body := s
		if strings.HasPrefix(s, "<?xml") {
			if e := strings.Index(s, "?>"); e > 0 {
				body = s[e+2:]
			}
		}
		for _, enc := range []string{"UTF-9", "utf8", "UTF-16", "windows-1252", "ISO-8859-1", "us-ascii", "", "x", "UTF-8\x00"} {
			xmlEmit("xmldecl-encoding="+enc, `<?xml version="1.0" encoding="`+enc+`"?>`+body)
		}
		xmlEmit("xmldecl-version=9.9", `<?xml version="9.9" encoding="UTF-8"?>`+body)
		xmlEmit("xmldecl-twice", `<?xml version="1.0" encoding="UTF-8"?><?xml version="1.0" encoding="latin1"?>`+body)
		xmlEmit("xmldecl-unclosed", `<?xml version="1.0" encoding="UTF-8"`+body)
		for _, span := range []string{"gridSpan", "rowspan", "colspan", "number-columns-repeated", "number-rows-repeated", "number-columns-spanned", "number-rows-spanned", "w:val", "count", "uniqueCount", "sheetId", "r:id"} {
			if j := strings.Index(s, span+`="`); j >= 0 {
				e := strings.Index(s[j+len(span)+2:], `"`)
				if e >= 0 {
					st := j + len(span) + 2
					for _, h := range []string{"2147483647", "-1", "0", "99999999999999999999", "abc"} {
						xmlEmit(span+"="+h, s[:st]+h+s[st+e:])
					}
				}
			}
		}
	}
}

// htmlFaults: structural damage of an HTML document.
func htmlFaults(b *base, emit func(desc string, data []byte)) {
	s := string(b.data)
	tags := regexp.MustCompile(`<[^>]*>`).FindAllStringIndex(s, -1)
	for _, t := range tags {
		emit(fmt.Sprintf("html-truncate@%d", t[0]), []byte(s[:t[0]]))
		emit(fmt.Sprintf("html-truncate-in-tag@%d", t[0]), []byte(s[:t[0]+(t[1]-t[0])/2]))
		emit(fmt.Sprintf("html-tag-drop@%d", t[0]), []byte(s[:t[0]]+s[t[1]:]))
	}
	for _, e := range [][2]string{{"<td>", `<td colspan="2147483647">`}, {"<td>", `<td rowspan="-1">`}, {"<td>", `<td colspan="99999999999999999999" rowspan="1000000">`}, {"<th>", `<th colspan="1000000">`},

		{"<p>", "<p>&#1114112;&#xFFFFFFFFFF;&#-1;&bogus;&#0;"}, {"<li>", `<ol start="2147483647"><li value="-99999999999">`}} {
		if i := strings.Index(s, e[0]); i >= 0 {
			emit("html-"+fw.OneLine(e[1], 30), []byte(s[:i]+e[1]+s[i+len(e[0]):]))
		}
	}
}

// deepNesting: unclosed nested elements. The shallow variant (depth 200) is the
// counterfactual for the known finding "html-deep-nesting-quadratic".
func htmlDeepFaults(b *base, emit func(desc string, data, neutral []byte)) {
	s := string(b.data)
	for _, e := range []struct {
		at, unit string
		depth    int
	}{{"<ul>", "<ul><li>", 5000}, {"<p>", "<div>", 20000}, {"<table>", "<table><tr><td>", 3000}, {"<body>", "<blockquote>", 10000}, {"<p>", "<span><b>", 10000}, {"<p>", "<div>", 120000}} {
		i := strings.Index(s, e.at)
		if i < 0 {
			continue
		}
		mk := func(d int) []byte { return []byte(s[:i+len(e.at)] + strings.Repeat(e.unit, d) + s[i+len(e.at):]) }
		emit(fmt.Sprintf("html-deep %sx%d", e.unit, e.depth), mk(e.depth), mk(200))
	}
}

// ---- case list ---------------------------------------------------------------------

func pdfBase(c *fw.Ctx, i int) *base {
	r := c.Rand("base", "pdf", i)
	// font constructions rotate over the bases so that every kind (with and without explicit /Widths) is faulted
	kinds := [][]string{{"tt-winansi-tounicode", "t1-winansi"}, {"type0-identity", "t1-std"}, {"t1-macroman", "tt-winansi-tounicode"}, {"t1-winansi", "type0-identity"}}[i%4]
	g := pdfw.GenDoc(r, pdfw.DocOpts{MinPages: 1, MaxPages: 3, MaxLines: 3, MaxFonts: 2, TreeDepth: 1 + i%3, Inherit: "mixed", NoEmptyPages: true, FontKinds: kinds, FontWidths: true, ExactKinds: true})
	for k := range g.Doc.Fonts { // every simple font carries /FirstChar /LastChar /Widths
		if g.Doc.Fonts[k].Kind != "type0-identity" && g.Doc.Fonts[k].Widths == nil {
			for c := 32; c <= 255; c++ {
				g.Doc.Fonts[k].Widths = append(g.Doc.Fonts[k].Widths, 250+r.Intn(500))
			}
		}
	}
	lay := pdfw.RandomLayout(r, 1+i%2)
	// cover the structural variety deterministically across bases
	lay.XRef = [][]string{{"table"}, {"stream"}, {"table", "stream"}, {"stream", "table"}}[i%4]
	lay.ObjStm = []string{"none", "some", "all"}[i%3]
	lay.BigContent = 0
	docs := []*pdfw.Doc{g.Doc}
	if len(lay.XRef) > 1 {
		g2, _ := g.Evolve(r)
		docs = append(docs, g2.Doc)
	}
	seed := r.Int63()
	b := pdfw.Build(seed, lay, docs)
	return &base{id: fmt.Sprintf("pdf%d", i), kind: "pdf", ext: "pdf", data: b.Bytes, fields: b.Fields,
		desc:    fmt.Sprintf("xref=%v objstm=%s filter=%s len=%s", lay.XRef, lay.ObjStm, lay.Filter, lay.LenMode),
		objStmN: b.ObjStmN, xrefCnt: b.XRefCount,
		rebuild: func(m *pdfw.Mutation, rev int) []byte {
			l2 := lay
			l2.Mutate, l2.MutateRev = m, rev
			return pdfw.Build(seed, l2, docs).Bytes
		}}
}

// imageBase: a PDF whose pages draw image XObjects of every colour-space and
// filter construction (one page is image-only, so the facade takes its
// scanned-page path); faulted field by field like the text bases.
func imageBase(c *fw.Ctx, i int) *base {
	r := c.Rand("base", "pdfimg", i)
	tk := fw.NewTokens(r)
	var pages []pdfw.ImagePage
	pg := pdfw.ImagePage{Text: []pdfw.SimpleItem{{X: 72, Y: 700, Size: 11, Text: tk.Next() + " caption"}}, Inline: true}
	for k := 0; k < 5; k++ {
		pg.Images = append(pg.Images, pdfw.GenImageSpec(r))
	}
	// the last image always has an Indexed colour space held in an object of its own whose
	// base is a reference, so the reference faults include a colour space that is its own base
	pages = append(pages, pg, pdfw.ImagePage{Images: []pdfw.ImageSpec{pdfw.GenImageSpec(r), pdfw.GenImageSpec(r),
		{W: 3 + r.Intn(9), H: 3 + r.Intn(9), BPC: []int{1, 4, 8}[r.Intn(3)], CS: "IndexedCSRef", Filter: []string{"", "Fl"}[r.Intn(2)]}}})
	data, fields := pdfw.ImagePDF(r, pages)
	return &base{id: fmt.Sprintf("pdfimg%d", i), kind: "pdf", ext: "pdf", data: data, fields: fields, desc: fmt.Sprintf("image XObjects %+v / %+v", pages[0].Images, pages[1].Images)}
}

// formsBase: a page drawing a tree of nested form XObjects; beside the generic
// catalogue it gets every pair (child reference of a form retargeted, incl. to
// the form itself / an ancestor) x (a string of a form's content left unclosed).
func formsBase(c *fw.Ctx, i int) *base {
	r := c.Rand("base", "pdfforms", i)
	tk := fw.NewTokens(r)
	data, fields, forms := pdfw.FormsPDF(r, tk.Next)
	return &base{id: fmt.Sprintf("pdfforms%d", i), kind: "pdf", ext: "pdf", data: data, fields: fields, forms: forms, desc: "nested form XObjects page -> Fm1 -> {Fm2, Fm3 -> {Fm4, Fm5}, Fm6}"}
}

var contentString = regexp.MustCompile(`\([^()\\]*\)`)

// formPairFaults: see formsBase.
func formPairFaults(b *base, singles []edit, emit func(desc string, data []byte)) {
	isForm := map[int]bool{}
	for _, n := range b.forms {
		isForm[n] = true
	}
	var retargets, breaks []edit
	for _, e := range singles {
		if strings.HasPrefix(e.desc, "ref ") && isFormRefField(b, e, isForm) {
			retargets = append(retargets, e)
		}
	}
	for _, f := range b.fields {
		if f.Kind != "streamdata" || !isForm[f.Obj] {
			continue
		}
		for _, loc := range contentString.FindAllIndex(b.data[f.Start:f.End], -1) {
			at := f.Start + loc[1] - 1
			breaks = append(breaks, edit{start: at, end: at + 1, repl: []byte(" "), desc: fmt.Sprintf("content-string-unclose obj %d@%d", f.Obj, at)})
		}
	}
	for _, br := range breaks {
		emit(br.desc, applyEdits(b.data, []edit{br}))
		for _, rt := range retargets {
			emit(rt.desc+" ++ "+br.desc, applyEdits(b.data, []edit{rt, br}))
		}
	}
}

// isFormRefField: the edit rewrites a reference that lives inside a form object.
func isFormRefField(b *base, e edit, isForm map[int]bool) bool {
	for _, f := range b.fields {
		if f.Kind == "ref" && f.Start <= e.start && e.start < f.End {
			return isForm[f.Obj]
		}
	}
	return false
}

func htmlBase(c *fw.Ctx, i int) *base {
	r := c.Rand("base", "html", i)
	tok := fw.NewTokens(r)
	var sb strings.Builder
	sb.WriteString("<!DOCTYPE html><html><head><title>t</title><style>p{}</style><script>var x=1;</script></head><body>")
	sb.WriteString("<nav><ul><li><a href=\"#\">" + tok.Next() + "</a></li></ul></nav>")
	sb.WriteString("<h1>" + tok.Next() + "</h1><p>" + tok.Next() + " &amp; &#169; text</p><ul><li>" + tok.Next() + "<ul><li>" + tok.Next() + "</li></ul></li></ul>")
	sb.WriteString("<table><tr><th>" + tok.Next() + "</th><th>b</th></tr><tr><td>" + tok.Next() + "</td><td>" + tok.Next() + "</td></tr></table><pre>code</pre><blockquote>" + tok.Next() + "</blockquote></body></html>")
	return &base{id: fmt.Sprintf("html%d", i), kind: "html", ext: "html", data: []byte(sb.String())}
}

// rawBases: inputs for the byte-level parsers, cut out of a PDF base.
func rawBases(c *fw.Ctx) []*base {
	var out []*base
	out = append(out,
		&base{id: "rawobj0", kind: "raw-object", ext: "bin", data: []byte("<< /Type /Page /Kids [1 0 R 2 0 R] /A (str\\)ing) /B <48656C6C6F> /C [1 2.5 -3 true null /N#20x] /D << /E 1 0 R >> >>")},
		&base{id: "rawobj1", kind: "raw-object", ext: "bin", data: []byte("7 0 obj\n<< /Length 11 /Filter /ASCIIHexDecode >>\nstream\n48656C6C6F>\nendstream\nendobj\n")},
		&base{id: "rawcs0", kind: "raw-content", ext: "bin", data: []byte("q 1 0 0 1 50 50 cm BT /F1 12 Tf 10 20 Td (Hello) Tj [(a) -120 (b)] TJ T* <4142> Tj ET Q /Im1 Do BI /W 1 /H 1 ID x EI")},
		// inline images with every dictionary key incl. the PDF 2.0 /L (length) entry, text-state operators, marked content
		&base{id: "rawcs1", kind: "raw-content", ext: "bin", data: []byte("q BI /W 2 /H 2 /BPC 8 /CS /G /L 4 ID\nabcd\nEI Q BT /F1 9 Tf 2 Tr 3 Ts 1.5 Tc 2 Tw 90 Tz 11 TL 1 0 0 1 5 6 Tm (x) ' 1 2 (y) \" ET " +
			"/P <</MCID 3>> BDC BT (z) Tj ET EMC BI /Width 3 /Height 1 /BitsPerComponent 8 /ColorSpace /RGB /Length 9 /F [/AHx] /D [0 1] /I true /IM false ID 616263616263616263> EI 0 0 10 10 re f /GS1 gs /Sh1 sh 5 0 0 5 0 0 cm /Fm1 Do")},
		// dictionary operands written with white space inside, nested, with comments and every line ending
		&base{id: "rawcs2", kind: "raw-content", ext: "bin", data: []byte("/Span << /MCID 1 /Lang (en-GB) /ActualText <FEFF0041> /A [ 1 2 ] /D << /E 1 /F << /G null >> >> >> BDC\r\nBT /F1 10 Tf ( a ) Tj ET % note\rEMC /OC /MC0 BDC << /K true >> pop EMC\n<< >> x << /N /V >> y")},
		&base{id: "rawcmap0", kind: "raw-cmap", ext: "bin", data: pdfw.ToUnicodeProgram(map[string]string{"A": "x", "B": "y", "\x01\x02": "z"}, 1, "\n")},
		&base{id: "rawcmap1", kind: "raw-cmap", ext: "bin", data: []byte("1 begincodespacerange\n<0000> <FFFF>\nendcodespacerange\n2 beginbfrange\n<0001> <0010> <0041>\n<0020> <0022> [<0061> <0062> <0063>]\nendbfrange\n1 beginbfchar\n<0030> <D83DDE00>\nendbfchar\n")},
		// code space ranges of different widths (ISO 32000-1 9.7.6.2, the 90ms-RKSJ example) with targets in each
		&base{id: "rawcmap2", kind: "raw-cmap", ext: "bin", data: []byte("/CIDInit /ProcSet findresource begin\n12 dict begin\nbegincmap\n/CMapName /Mixed def\n4 begincodespacerange\n<00> <80>\n<8140> <9FFC>\n<A0> <DF>\n<E040> <FCFC>\nendcodespacerange\n3 beginbfchar\n<41> <0041>\n<8140> <3000>\n<B1> <FF71>\nendbfchar\n2 beginbfrange\n<20> <7E> <0020>\n<E040> <E07E> <6F3E>\nendbfrange\nendcmap\nend\nend\n")},
		&base{id: "rawstm0", kind: "raw-stream", ext: "bin", data: append([]byte("<< /Filter /FlateDecode /DecodeParms << /Predictor 12 /Columns 4 /Colors 1 >> >>\n"), func() []byte {
			return pdfw.EncodeStream([]byte("abcdabcdabcdabcd"), []pdfw.FilterStage{{Kind: "Fl", Pred: 12, Cols: 4}}, rand.New(rand.NewSource(1)))
		}()...)},
		&base{id: "rawstm1", kind: "raw-stream", ext: "bin", data: []byte("<< /Filter [/ASCII85Decode /ASCIIHexDecode] /DecodeParms [null << /Predictor 2 /Columns 2 >>] >>\n87cURD]i,\"Ebo80~>")},
		&base{id: "rawhtml0", kind: "raw-html", ext: "bin", data: htmlBase(c, 99).data},
	)
	return out
}

// streamDictFaults: hostile decode parameters for core.Stream.Decode.
func streamDictFaults(b *base, emit func(string, []byte)) {
	i := bytes.IndexByte(b.data, '\n')
	body := b.data[i+1:]
	for _, d := range []string{
		"<< /Filter /FlateDecode /DecodeParms << /Predictor 12 /Columns 0 >> >>", "<< /Filter /FlateDecode /DecodeParms << /Predictor 12 /Columns -1 >> >>",
		"<< /Filter /FlateDecode /DecodeParms << /Predictor 12 /Columns 1 /Colors -1 >> >>", "<< /Filter /FlateDecode /DecodeParms << /Predictor 2 /Columns 0 >> >>",
		"<< /Filter /FlateDecode /DecodeParms << /Predictor 2 /Columns 0 /Colors 0 >> >>", "<< /Filter /FlateDecode /DecodeParms << /Predictor 15 /Columns 2147483647 /Colors 2147483647 >> >>",
		"<< /Filter /FlateDecode /DecodeParms << /Predictor 12 /Columns 4 /BitsPerComponent 0 >> >>", "<< /Filter /FlateDecode /DecodeParms << /Predictor 12 /Columns 9223372036854775807 >> >>",
		"<< /Filter /FlateDecode /DecodeParms << /Predictor 12.5 /Columns 4.5 >> >>", "<< /Filter /FlateDecode /DecodeParms [ << /Predictor 12 >> 5 ] >>",
		"<< /Filter [ /FlateDecode /FlateDecode /FlateDecode ] >>", "<< /Filter 5 >>", "<< /Filter [ 1 2 ] >>", "<< /Filter /CCITTFaxDecode /DecodeParms << /K -1 /Columns 0 /Rows -5 >> >>",
		"<< /Filter /CCITTFaxDecode /DecodeParms << /K 0 /Columns 2147483647 /Rows 2147483647 >> >>", "<< /Filter /CCITTFaxDecode >>", "<< /Filter /LZWDecode >>", "<< /Filter /ASCII85Decode >>", "<< /Filter /AHx >>",
	} {
		emit("stream-dict "+d, append([]byte(d+"\n"), body...))
	}
}

func buildCases(c *fw.Ctx) []*Case {
	var cases []*Case
	add := func(b *base, desc string, data []byte) {
		cases = append(cases, &Case{ID: fmt.Sprintf("%s:%d", b.id, len(cases)), Kind: b.kind, Ext: b.ext, Data: data, Desc: desc, Base: b.id, Changed: !bytes.Equal(data, b.data)})
	}
	var bases []*base
	for i := 0; i < c.N(4, 24); i++ {
		bases = append(bases, pdfBase(c, i))
	}
	for i := 0; i < c.N(1, 4); i++ {
		bases = append(bases, imageBase(c, i))
	}
	bases = append(bases, formsBase(c, 0))
	for i := 0; i < c.N(1, 3); i++ {
		bases = append(bases, htmlBase(c, i))
	}
	for i, f := range ExtraBases {
		for k := 0; k < c.N(1, 3); k++ {
			data, ext, desc := f(c.Rand("base", "extra", i, k))
			bases = append(bases, &base{id: fmt.Sprintf("%s%d", ext, k), kind: ext, ext: ext, data: data, desc: desc})
		}
	}
	bases = append(bases, rawBases(c)...)
	// one document of 7000 nested containers for the cost comparison of the strict
	// navigation mode (entry Aggressive.cost); it gets no faults of its own
	deep := "<!DOCTYPE html><html><body><h1>deep</h1>" + strings.Repeat("<div><p>x</p>", 7000) + "</body></html>"
	cases = append(cases, &Case{ID: "htmlcost0:0", Kind: "raw-htmlcost", Ext: "html", Data: []byte(deep), Desc: "7000 nested <div><p>x</p> (valid)", Base: "htmlcost0", Changed: true})
	for _, b := range bases {
		b := b
		add(b, "none (valid base)", b.data)
		emit := func(desc string, data []byte) { add(b, desc, data) }
		switch {
		case b.kind == "pdf":
			classic := !bytes.Contains(b.data, []byte("/XRef"))
			pdfSemanticFaults(b, emit)
			var singles []edit
			pdfSingleFaults(b, func(desc string, data []byte) {
				add(b, desc, data)
				if strings.HasPrefix(desc, "truncate") {
					return
				}
				if ed, ok := diffEdit(b.data, data); ok {
					ed.desc = desc
					singles = append(singles, ed)
				}
				if classic {
					if fx := fixupXRef(b, data); fx != nil {
						add(b, desc+" [xref offsets repaired]", fx)
					}
				}
			})
			if b.forms != nil {
				formPairFaults(b, singles, emit)
				// a delimiter duplicated a million times: a page dictionary entry and a content
				// stream holding arrays nested that deep (cross-reference data repaired)
				for _, n := range []int{300000, 2000000} {
					if at := bytes.Index(b.data, []byte("/MediaBox")); at > 0 {
						ed := edit{start: at, end: at, repl: append(append([]byte("/PieceInfo "), bytes.Repeat([]byte("["), n)...), ' '), desc: fmt.Sprintf("deep-nesting page entry [ x %d", n)}
						if fx := fixupEdits(b, []edit{ed}); fx != nil {
							emit(ed.desc+" [xref offsets repaired]", fx)
						}
					}
					for _, f := range b.fields {
						if f.Kind == "streamdata" && f.Obj == b.forms["fm1"] {
							ed := edit{start: f.Start, end: f.Start, repl: bytes.Repeat([]byte("["), n), desc: fmt.Sprintf("deep-nesting form content [ x %d", n)}
							if fx := fixupEdits(b, []edit{ed}); fx != nil {
								emit(ed.desc+" [xref offsets repaired]", fx)
							}
						}
					}
				}
			}
			// double applications of the catalogue: half of the pairs combine a number
			// that lies about a size or count with a structural break (retargeted
			// reference, dropped / duplicated object, unbalanced delimiter), the rest
			// are uniform; the edits never overlap
			var lies, breaks []int
			for i, e := range singles {
				switch {
				case strings.Contains(e.desc, "=9223372036854775807") || strings.Contains(e.desc, "=2147483648") || strings.Contains(e.desc, "=4294967295") || strings.Contains(e.desc, "=-1") || strings.HasPrefix(e.desc, "entry "):
					lies = append(lies, i)
				case strings.HasPrefix(e.desc, "ref ") || strings.HasPrefix(e.desc, "object-") || strings.HasPrefix(e.desc, "delim-"):
					breaks = append(breaks, i)
				}
			}
			// targeted: a lie in a page-tree /Count together with a break of the page tree
			// itself (a count that the traversal can no longer confirm)
			var countLies, treeBreaks []int
			for i, e := range singles {
				ctx := string(b.data[maxInt(0, e.start-12):e.start])
				switch {
				case strings.HasPrefix(e.desc, "entry /Count") || (strings.HasPrefix(e.desc, "int ") && strings.HasSuffix(strings.TrimSpace(ctx), "/Count")):
					countLies = append(countLies, i)
				case strings.HasPrefix(e.desc, "ref ") && (strings.Contains(ctx, "/Kids") || strings.Contains(ctx, " R") || strings.Contains(ctx, "/Parent") || strings.Contains(ctx, "/Pages")):
					treeBreaks = append(treeBreaks, i)
				case strings.HasPrefix(e.desc, "object-drop"):
					treeBreaks = append(treeBreaks, i)
				}
			}
			rt := c.Rand("double-pagetree", b.id)
			for k := 0; k < c.N(300, 4000) && len(countLies) > 0 && len(treeBreaks) > 0; k++ {
				a, bb := singles[countLies[rt.Intn(len(countLies))]], singles[treeBreaks[rt.Intn(len(treeBreaks))]]
				if a.start < bb.end && bb.start < a.end {
					continue
				}
				desc := a.desc + " ++ " + bb.desc
				add(b, desc, applyEdits(b.data, []edit{a, bb}))
				if classic {
					if fx := fixupEdits(b, []edit{a, bb}); fx != nil {
						add(b, desc+" [xref offsets repaired]", fx)
					}
				}
			}
			rp := c.Rand("double", b.id)
			for k := 0; k < c.N(500, 8000) && len(singles) > 1; k++ {
				i, j := rp.Intn(len(singles)), rp.Intn(len(singles))
				if k%2 == 0 && len(lies) > 0 && len(breaks) > 0 {
					i, j = lies[rp.Intn(len(lies))], breaks[rp.Intn(len(breaks))]
				}
				a, bb := singles[i], singles[j]
				if a.start < bb.end && bb.start < a.end || (a.start == bb.start) {
					continue
				}
				desc := a.desc + " ++ " + bb.desc
				add(b, desc, applyEdits(b.data, []edit{a, bb}))
				if classic {
					if fx := fixupEdits(b, []edit{a, bb}); fx != nil {
						add(b, desc+" [xref offsets repaired]", fx)
					}
				}
			}
		case b.kind == "html":
			htmlFaults(b, emit)
			htmlDeepFaults(b, func(desc string, data, neutral []byte) {
				add(b, desc, data)
				cases[len(cases)-1].Neutral = neutral
			})
		case b.kind == "raw-stream":
			streamDictFaults(b, emit)
		case strings.HasPrefix(b.kind, "raw-"):
			// every integer token replaced by the hostile values of the catalogue
			for _, loc := range rawInts(b.data) {
				st, en := loc[0], loc[1]
				for _, h := range hostileInts {
					emit(fmt.Sprintf("int %s@%d=%s", b.data[st:en], st, h), splice(b.data, st, en, []byte(h)))
				}
			}
			// unbalanced delimiters, repeated: containers nested far deeper than any real
			// file (the stack / the memory per level is the attacker's to choose)
			if b.id == "rawobj0" || b.id == "rawcs0" {
				for _, unit := range []string{"[", "<</K ", "[<</K ", "[ "} {
					for _, n := range []int{100000, 1000000, 8000000} {
						emit(fmt.Sprintf("deep-nesting %q x %d", unit, n), append(bytes.Repeat([]byte(unit), n), b.data...))
					}
				}
			}
			// token-ish single faults for raw parser inputs: truncate at every byte, drop every byte
			for i := range b.data {
				emit(fmt.Sprintf("truncate@%d", i), b.data[:i])
				if len(b.data) < 400 {
					emit(fmt.Sprintf("drop-byte@%d", i), splice(b.data, i, i+1, nil))
				}
			}
		default:
			zipSingleFaults(b, emit)
		}
		// seeded double faults and byte mutations
		nm := c.N(150, 3000)
		r := c.Rand("mut", b.id)
		for k := 0; k < nm; k++ {
			x, d1 := byteMutation(b.data, r)
			if r.Intn(3) == 0 {
				var d2 string
				x, d2 = byteMutation(x, r)
				d1 += "+" + d2
			}
			emit(d1, x)
		}
	}
	// cross-format: every base under every other extension (format-mismatched open)
	exts := []string{"pdf", "docx", "odt", "xlsx", "pptx", "epub", "html", "htm", "txt"}
	for _, b := range bases {
		if strings.HasPrefix(b.kind, "raw-") {
			continue
		}
		for _, e := range exts {
			if e != b.ext {
				k := e
				if k == "htm" {
					k = "html"
				}
				if k == "txt" {
					k = "pdf"
				}
				cases = append(cases, &Case{ID: fmt.Sprintf("%s:as-%s", b.id, e), Kind: k, Ext: e, Data: b.data, Desc: "ext-mismatch " + b.ext + " bytes named ." + e, Base: b.id, Changed: true})
			}
		}
	}
	sort.SliceStable(cases, func(i, j int) bool { return false })
	_ = strconv.Itoa
	return cases
}
