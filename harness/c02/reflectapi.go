package c02

// Reflective exerciser: every exported method of a format package's Reader
// (and, one level down, of the values it hands out: sheets, slides, chapters,
// parsed tables …) is called with plain argument values. The methods are
// public entry points like the facade's; on a damaged file they must return,
// not panic.

import (
	"fmt"
	"reflect"

	"github.com/tsawler/tabula/docx"
	"github.com/tsawler/tabula/epubdoc"
	"github.com/tsawler/tabula/htmldoc"
	"github.com/tsawler/tabula/odt"
	"github.com/tsawler/tabula/pptx"
	"github.com/tsawler/tabula/xlsx"
)

// openFormatReader opens the format's own reader for a file kind.
func openFormatReader(kind, path string) (any, error) {
	switch kind {
	case "docx":
		return docx.Open(path)
	case "odt":
		return odt.Open(path)
	case "xlsx":
		return xlsx.Open(path)
	case "pptx":
		return pptx.Open(path)
	case "epub":
		return epubdoc.Open(path)
	case "html":
		return htmldoc.Open(path)
	}
	return nil, fmt.Errorf("no reader for %s", kind)
}

var errType = reflect.TypeOf((*error)(nil)).Elem()

// argVariants returns up to three plain values for a parameter type, or nil if
// the type is not one a caller would pass as data (pointers, interfaces, funcs).
func argVariants(t reflect.Type) []reflect.Value {
	switch t.Kind() {
	case reflect.Int, reflect.Int64, reflect.Int32:
		var out []reflect.Value
		for _, v := range []int64{0, -1, 1 << 30} {
			x := reflect.New(t).Elem()
			x.SetInt(v)
			out = append(out, x)
		}
		return out
	case reflect.String:
		var out []reflect.Value
		for _, v := range []string{"", "Sheet1", "\x00/../x"} {
			x := reflect.New(t).Elem()
			x.SetString(v)
			out = append(out, x)
		}
		return out
	case reflect.Bool:
		return []reflect.Value{reflect.ValueOf(false), reflect.ValueOf(true)}
	case reflect.Struct:
		zero := reflect.New(t).Elem()
		full := reflect.New(t).Elem()
		for i := 0; i < t.NumField(); i++ {
			f := full.Field(i)
			if !f.CanSet() {
				continue
			}
			switch f.Kind() {
			case reflect.Bool:
				f.SetBool(true)
			case reflect.Int, reflect.Int64, reflect.Int32:
				f.SetInt(3)
			case reflect.String:
				f.SetString("x")
			}
		}
		return []reflect.Value{zero, full}
	}
	return nil
}

// exerciseAPI calls the exported methods of v; calls counts them.
func exerciseAPI(v reflect.Value, depth int, calls *int, firstErr *error) {
	if !v.IsValid() || *calls > 400 {
		return
	}
	if v.Kind() == reflect.Ptr && v.IsNil() {
		return
	}
	t := v.Type()
	for i := 0; i < t.NumMethod(); i++ {
		m := t.Method(i)
		if m.Name == "Close" {
			continue
		}
		mt := v.Method(i).Type()
		var params [][]reflect.Value
		ok := true
		for k := 0; k < mt.NumIn(); k++ {
			vs := argVariants(mt.In(k))
			if vs == nil {
				ok = false
				break
			}
			params = append(params, vs)
		}
		if !ok || mt.IsVariadic() {
			continue
		}
		rounds := 1
		for _, vs := range params {
			if len(vs) > rounds {
				rounds = len(vs)
			}
		}
		for j := 0; j < rounds; j++ {
			args := make([]reflect.Value, len(params))
			for k, vs := range params {
				args[k] = vs[j%len(vs)]
			}
			*calls++
			outs := v.Method(i).Call(args)
			for _, o := range outs {
				if o.Type().Implements(errType) {
					if !o.IsNil() && *firstErr == nil {
						*firstErr = o.Interface().(error)
					}
					continue
				}
				if depth >= 2 {
					continue
				}
				switch o.Kind() {
				case reflect.Ptr:
					if !o.IsNil() && o.Elem().Kind() == reflect.Struct && o.Type().PkgPath() == "" && o.Elem().Type().PkgPath() == t.Elem().PkgPath() {
						exerciseAPI(o, depth+1, calls, firstErr)
					}
				case reflect.Slice:
					for k := 0; k < o.Len() && k < 3; k++ {
						e := o.Index(k)
						if e.Kind() == reflect.Struct && e.CanAddr() {
							e = e.Addr()
						}
						if e.Kind() == reflect.Ptr && !e.IsNil() && e.Elem().Kind() == reflect.Struct && e.Elem().Type().PkgPath() == t.Elem().PkgPath() {
							exerciseAPI(e, depth+1, calls, firstErr)
						}
					}
				}
			}
		}
	}
}
