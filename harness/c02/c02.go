// Package c02: no input can crash, hang or exhaust the process.
//
// Every case runs in an isolated worker process (fw.Pool): the Go runtime is
// the sanitizer (bounds, nil, divide, makeslice, stack and heap limits), the
// parent reads the child's CPU time from /proc (hang = CPU budget exceeded)
// and the child watches its live heap. A failure is identified by its
// call-site signature kind@innermost-tabula-frame.
package c02

import (
	"bytes"
	"encoding/json"
	"fmt"
	"os"
	"path/filepath"
	"reflect"
	"sort"
	"strings"
	"syscall"
	"time"

	"github.com/tsawler/tabula"
	"github.com/tsawler/tabula/contentstream"
	"github.com/tsawler/tabula/core"
	"github.com/tsawler/tabula/font"
	"github.com/tsawler/tabula/format"
	"github.com/tsawler/tabula/htmldoc"
	"github.com/tsawler/tabula/reader"

	"verifharness/fw"
)

// ---- worker side -------------------------------------------------------------

type req struct {
	Path    string   // input file (already on disk)
	Entries []string // entry points to run, in order
}

type entryResult struct {
	Entry   string
	Outcome string // value | error | panic
	Msg     string
	Site    string
	Stack   string
}

type resp struct {
	Results []entryResult
}

// entriesFor lists the entry points exercised for an input of the given kind.
func entriesFor(kind string) []string {
	switch kind {
	case "pdf":
		return []string{"PageCount", "Text", "Fragments", "ToMarkdown", "Chunks", "Document", "Analyze", "Lines", "Paragraphs", "Blocks", "ReadingOrder", "Headings", "Lists", "Elements",
			"IsCharacterLevel", "IsMultiColumn", "ByColumn.Text", "JoinParagraphs.Text", "PreserveLayout.Text", "ExcludeHF.Text", "Pages(1).Text", "PageRange(1,2).Fragments", "Detect", "reader.Images", "reader.Objects", "Extractor.Sequence", "FromReader.Sequence"}
	case "html":
		return []string{"PageCount", "Text", "ToMarkdown", "Chunks", "Document", "ExcludeHF.Text", "Detect", "Reader.API", "Aggressive",
			"Fragments", "Lines", "Analyze", "IsCharacterLevel", "IsMultiColumn", "Pages(1).Text"}
	case "docx", "odt", "xlsx", "pptx", "epub":
		return []string{"PageCount", "Text", "ToMarkdown", "Chunks", "Document", "ExcludeHF.Text", "Detect", "Reader.API",
			// format-mismatched calls: PDF-only methods on non-PDF inputs must return errors
			"Fragments", "Lines", "Analyze", "IsCharacterLevel", "IsMultiColumn", "Pages(1).Text"}
	case "raw-object":
		return []string{"core.ParseObject", "core.ParseIndirectObject"}
	case "raw-content":
		return []string{"contentstream.Parse", "text.ExtractFromBytes"}
	case "raw-cmap":
		return []string{"font.ParseToUnicodeCMap"}
	case "raw-stream":
		return []string{"core.Stream.Decode"}
	case "raw-html":
		return []string{"FromHTMLString.Text", "FromHTMLString.ToMarkdown", "FromHTMLString.Chunks"}
	case "raw-htmlcost":
		return []string{"Aggressive.cost"}
	}
	return nil
}

// kindOfPath maps the file extension to the reader kind.
func kindOfPath(path string) string {
	switch e := strings.ToLower(strings.TrimPrefix(filepath.Ext(path), ".")); e {
	case "htm":
		return "html"
	default:
		return e
	}
}

func runEntry(path, entry string) (er entryResult) {
	er.Entry = entry
	defer func() {
		if r := recover(); r != nil {
			st := stackString()
			er.Outcome = "panic"
			er.Msg = fmt.Sprint(r)
			er.Stack = st
			er.Site = panicSite(st)
		}
	}()
	set := func(err error) {
		if err != nil {
			er.Outcome = "error"
			er.Msg = err.Error()
			if len(er.Msg) > 200 {
				er.Msg = er.Msg[:200]
			}
		} else {
			er.Outcome = "value"
		}
	}
	switch entry {
	case "PageCount":
		e := tabula.Open(path)
		_, err := e.PageCount()
		e.Close()
		set(err)
	case "Text":
		_, _, err := tabula.Open(path).Text()
		set(err)
	case "Fragments":
		_, _, err := tabula.Open(path).Fragments()
		set(err)
	case "ToMarkdown":
		_, _, err := tabula.Open(path).ToMarkdown()
		set(err)
	case "Chunks":
		cc, _, err := tabula.Open(path).Chunks()
		if err == nil && cc != nil {
			cc.ToJSONL()
			cc.ToCSV()
		}
		set(err)
	case "Document":
		_, _, err := tabula.Open(path).Document()
		set(err)
	case "Analyze":
		_, err := tabula.Open(path).Analyze()
		set(err)
	case "Lines":
		_, err := tabula.Open(path).Lines()
		set(err)
	case "Paragraphs":
		_, err := tabula.Open(path).Paragraphs()
		set(err)
	case "Blocks":
		_, err := tabula.Open(path).Blocks()
		set(err)
	case "ReadingOrder":
		_, err := tabula.Open(path).ReadingOrder()
		set(err)
	case "Headings":
		_, err := tabula.Open(path).Headings()
		set(err)
	case "Lists":
		_, err := tabula.Open(path).Lists()
		set(err)
	case "Elements":
		_, err := tabula.Open(path).Elements()
		set(err)
	case "IsCharacterLevel":
		e := tabula.Open(path)
		_, err := e.IsCharacterLevel()
		e.Close()
		set(err)
	case "IsMultiColumn":
		e := tabula.Open(path)
		_, err := e.IsMultiColumn()
		e.Close()
		set(err)
	case "ByColumn.Text":
		_, _, err := tabula.Open(path).ByColumn().Text()
		set(err)
	case "JoinParagraphs.Text":
		_, _, err := tabula.Open(path).JoinParagraphs().Text()
		set(err)
	case "PreserveLayout.Text":
		_, _, err := tabula.Open(path).PreserveLayout().Text()
		set(err)
	case "ExcludeHF.Text":
		_, _, err := tabula.Open(path).ExcludeHeadersAndFooters().Text()
		set(err)
	case "Pages(1).Text":
		_, _, err := tabula.Open(path).Pages(1).Text()
		set(err)
	case "PageRange(1,2).Fragments":
		_, _, err := tabula.Open(path).PageRange(1, 2).Fragments()
		set(err)
	case "Aggressive":
		// the strictest navigation-exclusion mode (link-density heuristics) of the
		// HTML reader, which the facade never selects by itself
		rd, err := htmldoc.Open(path)
		if err != nil {
			set(err)
			return
		}
		o := htmldoc.ExtractOptions{NavigationExclusion: htmldoc.NavigationExclusionAggressive}
		_, err = rd.TextWithOptions(o)
		if _, e2 := rd.MarkdownWithOptions(o); err == nil {
			err = e2
		}
		if _, e3 := rd.DocumentWithOptions(o); err == nil {
			err = e3
		}
		rd.Close()
		set(err)
	case "Aggressive.cost":
		// the strict mode adds a link-density measurement per container; its cost must stay
		// comparable to the plain walk of the same document (not grow with depth x size).
		// Compared within this process on this input; only slow documents are looked at.
		cost := func(mode htmldoc.NavigationExclusionMode) (time.Duration, error) {
			t0 := cpuNow() // Open parses the document and extracts it in the default mode
			rd, err := htmldoc.Open(path)
			if err != nil {
				return 0, err
			}
			defer rd.Close()
			_, err = rd.TextWithOptions(htmldoc.ExtractOptions{NavigationExclusion: mode})
			return cpuNow() - t0, err
		}
		std, err := cost(htmldoc.NavigationExclusionStandard)
		if err != nil {
			set(err)
			return
		}
		agg, err := cost(htmldoc.NavigationExclusionAggressive)
		set(err)
		if std >= 200*time.Millisecond && agg > 5*std/2+300*time.Millisecond {
			er.Outcome = "superlinear"
			er.Site = "htmldoc.aggressive-mode"
			er.Msg = fmt.Sprintf("aggressive navigation exclusion cost %.1fs CPU on a document whose standard extraction costs %.1fs", agg.Seconds(), std.Seconds())
		}
	case "Reader.API":
		rd, err := openFormatReader(kindOfPath(path), path)
		if err != nil {
			set(err)
			return
		}
		calls := 0
		var first error
		exerciseAPI(reflect.ValueOf(rd), 0, &calls, &first)
		if c, ok := rd.(interface{ Close() error }); ok {
			c.Close()
			c.Close()
		}
		set(first)
		er.Msg = fmt.Sprintf("%d calls; %s", calls, er.Msg)
	case "Extractor.Sequence":
		// one extractor: the non-terminal probes, then a terminal operation (PageCount and
		// the Is… probes keep the reader; what they left behind is what Text() starts from)
		e := tabula.Open(path)
		_, err := e.PageCount()
		set(err)
		e.IsMultiColumn()
		e.IsCharacterLevel()
		_, err = e.PageCount()
		set(err)
		_, _, err = e.Text()
		set(err)
		e.Close()
	case "FromReader.Sequence":
		// one caller-owned reader serving several extractions in a row
		rd, err := reader.Open(path)
		if err != nil {
			set(err)
			return
		}
		defer rd.Close()
		_, _, err = tabula.FromReader(rd).Text()
		set(err)
		_, _, err = tabula.FromReader(rd).ToMarkdown()
		set(err)
		_, err = tabula.FromReader(rd).PageCount()
		set(err)
		_, _, err = tabula.FromReader(rd).ExcludeHeadersAndFooters().Chunks()
		set(err)
		_, _, err = tabula.FromReader(rd).Document()
		set(err)
	case "reader.Images":
		// the image path of the low-level API: every image XObject of every page, decoded and converted
		rd, err := reader.Open(path)
		if err != nil {
			set(err)
			return
		}
		defer rd.Close()
		n, err := rd.PageCount()
		set(err)
		for i := 0; i < n && i < 8; i++ {
			pg, err := rd.GetPage(i)
			if err != nil {
				set(err)
				continue
			}
			imgs, err := rd.ExtractPageImages(pg)
			set(err)
			for k := range imgs {
				_, err := imgs[k].ToPNG()
				set(err)
			}
		}
	case "reader.Objects":
		// the object-level API: trailer, catalog, info, every object resolved deeply, page attributes
		rd, err := reader.Open(path)
		if err != nil {
			set(err)
			return
		}
		defer rd.Close()
		rd.Version()
		rd.FileSize()
		rd.XRefTable()
		_, err = rd.GetCatalog()
		set(err)
		rd.GetInfo()
		rd.ResolveDeep(rd.Trailer())
		no := rd.NumObjects()
		for k := 0; k <= no+1 && k < 400; k++ {
			o, err := rd.GetObject(k)
			if err == nil {
				rd.ResolveDeep(o)
			}
		}
		rd.ClearCache()
		n, _ := rd.PageCount()
		for i := -1; i <= n && i < 8; i++ {
			pg, err := rd.GetPage(i)
			if err != nil || pg == nil {
				continue
			}
			pg.MediaBox()
			pg.CropBox()
			pg.Rotate()
			pg.Width()
			pg.Height()
			pg.Resources()
			pg.Contents()
			rd.ExtractText(pg)
		}
	case "Detect":
		f, err := os.Open(path)
		if err != nil {
			set(err)
			return
		}
		st, _ := f.Stat()
		_, err = format.DetectFromReader(f, st.Size())
		f.Close()
		format.Detect(path)
		set(err)
	default:
		b, err := os.ReadFile(path)
		if err != nil {
			set(err)
			return
		}
		switch entry {
		case "core.ParseObject":
			p := core.NewParser(bytes.NewReader(b))
			var err error
			for i := 0; i < 64 && err == nil; i++ { // a sequence of objects
				_, err = p.ParseObject()
			}
			set(err)
		case "core.ParseIndirectObject":
			_, err := core.NewParser(bytes.NewReader(b)).ParseIndirectObject()
			set(err)
		case "contentstream.Parse":
			_, err := contentstream.NewParser(b).Parse()
			set(err)
		case "text.ExtractFromBytes":
			set(extractFromBytes(b))
		case "font.ParseToUnicodeCMap":
			cm, err := font.ParseToUnicodeCMap(&core.Stream{Dict: core.Dict{}, Data: b})
			if err == nil && cm != nil {
				cm.LookupString([]byte{0, 1, 2, 3, 0x41, 0x42, 0xff, 0xfe})
				cm.Lookup(0x41)
				// shown strings of every length 1..130, ending in a lead byte, a short code
				// or a plain byte. The slices are clipped to their length (cap == len), so
				// a read past the end of the string cannot hide in spare capacity.
				pat := []byte{0x81, 0x40, 0xB1, 0x20, 0xE0, 0x40, 0x00, 0x41, 0x9F, 0xFC, 0xA0, 0xDF, 0xFC, 0xFC, 0x80, 0x7F}
				for n := 1; n <= 130; n++ {
					for _, last := range []byte{0x81, 0xB1, 0x41, 0xE0, 0x00} {
						sb := make([]byte, n)
						for i := range sb {
							sb[i] = pat[(i+n)%len(pat)]
						}
						sb[n-1] = last
						cm.LookupString(sb[:n:n])
					}
				}
			}
			set(err)
		case "core.Stream.Decode":
			// first line = dictionary, rest = data
			i := bytes.IndexByte(b, '\n')
			if i < 0 {
				set(fmt.Errorf("no dict line"))
				return
			}
			o, err := core.NewParser(bytes.NewReader(b[:i])).ParseObject()
			d, ok := o.(core.Dict)
			if err != nil || !ok {
				set(fmt.Errorf("dict line does not parse"))
				return
			}
			_, err = (&core.Stream{Dict: d, Data: b[i+1:]}).Decode()
			set(err)
		case "FromHTMLString.Text":
			_, _, err := tabula.FromHTMLString(string(b)).Text()
			set(err)
		case "FromHTMLString.ToMarkdown":
			_, _, err := tabula.FromHTMLString(string(b)).ToMarkdown()
			set(err)
		case "FromHTMLString.Chunks":
			_, _, err := tabula.FromHTMLString(string(b)).Chunks()
			set(err)
		default:
			er.Outcome = "error"
			er.Msg = "unknown entry"
		}
	}
	return
}

func init() {
	fw.RegisterWorker("c02", func(b []byte) []byte {
		var rq req
		json.Unmarshal(b, &rq)
		var rp resp
		for _, e := range rq.Entries {
			rp.Results = append(rp.Results, runEntry(rq.Path, e))
		}
		out, _ := json.Marshal(rp)
		return out
	})
}

// ---- parent side ---------------------------------------------------------------

// Case is one input to run.
type Case struct {
	ID      string
	Kind    string // entriesFor key
	Ext     string
	Data    []byte
	Desc    string // fault description
	Base    string // base document id
	Changed bool   // the fault changed >= 1 byte of a base that opened cleanly
	Neutral []byte // the same fault with its known-finding trigger neutralised (counterfactual), if any
}

type outcome struct {
	sig   string // "" = fine
	kind  string
	entry string
	msg   string
	stack string
}

const cpuBudget = 10 * time.Second
const heapBudgetMiB = 768

// runCase executes one case in the pool; on a process-level failure it re-runs
// entry by entry (fresh child each) to name the culprit.
func runCase(c *fw.Ctx, pool *fw.Pool, cs *Case, dir string) []outcome {
	path := filepath.Join(dir, strings.NewReplacer(":", "_", "/", "_").Replace(cs.ID)+"."+cs.Ext)
	os.WriteFile(path, cs.Data, 0o644) // on disk before the worker sees it
	defer os.Remove(path)
	entries := entriesFor(cs.Kind)
	do := func(ents []string) fw.Result {
		b, _ := json.Marshal(req{Path: path, Entries: ents})
		return pool.Do(b)
	}
	res := do(entries)
	var outs []outcome
	collect := func(res fw.Result) {
		var rp resp
		json.Unmarshal(res.Resp, &rp)
		for _, er := range rp.Results {
			c.Count("entrypoint_calls", 1)
			c.Count("outcome_"+er.Outcome, 1)
			c.Count("entry:"+er.Entry+":"+er.Outcome, 1)
			if er.Entry == "Reader.API" {
				var n int64
				fmt.Sscanf(er.Msg, "%d calls", &n)
				c.Count("reader_api_method_calls_by_reflection", n)
			}
			if er.Outcome == "panic" {
				outs = append(outs, outcome{sig: "panic@" + er.Site, kind: "panic", entry: er.Entry, msg: er.Msg, stack: er.Stack})
			}
			if er.Outcome == "superlinear" {
				outs = append(outs, outcome{sig: "superlinear@" + er.Site, kind: "superlinear", entry: er.Entry, msg: er.Msg})
			}
		}
	}
	switch res.Kind {
	case "ok":
		collect(res)
	case "stuck":
		c.Inconclusive("worker wall-clock watchdog or pipe failure: " + res.Msg)
	default:
		// fatal / hang / mem: find the entry (each alone in a fresh request; the pool restarts a child after a death)
		found := false
		for _, e := range entries {
			r1 := do([]string{e})
			switch r1.Kind {
			case "ok":
				collect(r1)
			case "stuck":
			default:
				found = true
				outs = append(outs, outcome{sig: r1.Kind + "@" + r1.Site, kind: r1.Kind, entry: e, msg: r1.Msg, stack: r1.Stack})
			}
			if found {
				break // one culprit entry names the defect; the others resurface once it is repaired
			}
		}
		if !found {
			// not reproducible entry by entry: report what the batch run saw
			outs = append(outs, outcome{sig: res.Kind + "@" + res.Site, kind: res.Kind, entry: "(batch of all entries)", msg: res.Msg, stack: res.Stack})
		}
	}
	return outs
}

func report(c *fw.Ctx, cs *Case, outs []outcome) {
	seen := map[string]bool{}
	for _, o := range outs {
		if seen[o.sig] {
			continue
		}
		seen[o.sig] = true
		c.Seen("failure_signature", o.sig)
		finding := ""
		if c.FindingOpen(o.sig) {
			finding = o.sig
		}
		detail := map[string]any{"entry": o.entry, "fault": cs.Desc, "base": cs.Base, "kind": cs.Kind, "ext": cs.Ext, "input_b64": cs.Data, "stack": o.stack}
		c.Fail(finding, o.sig, cs.ID, fmt.Sprintf("%s in %s: %s [%s] on %s (%s)", o.kind, o.entry, fw.OneLine(o.msg, 160), o.sig, cs.Base, cs.Desc), detail)
	}
}

// Run is the C02 check.
func Run(c *fw.Ctx) {
	c.Rule("case = base document (valid, generated) + one or two faults of the structural catalogue, or a seeded byte mutation, run through every public entry point of its format in an isolated worker; " +
		"non-trivial iff the fault changed >= 1 byte of a base that opened cleanly; distinct by hash of the faulted bytes")
	c.Assume(fmt.Sprintf("bounded time = %v CPU per entry-point batch (healthy cases cost milliseconds); bounded memory = %d MiB live heap", cpuBudget, heapBudgetMiB),
		"the Go runtime's own checks (bounds, nil, divide, makeslice, stack limit 256 MiB) are the sanitizer")
	dir := filepath.Join(c.Work, "c02")
	os.MkdirAll(dir, 0o755)
	workers := 16
	pool := fw.NewPool(c, "c02", workers, cpuBudget, heapBudgetMiB)
	defer pool.Close()

	cases := buildCases(c)
	if c.Only != "" {
		var keep []*Case
		for _, cs := range cases {
			if cs.ID == c.Only {
				keep = append(keep, cs)
			}
		}
		cases = keep
	}
	perBase := map[string]int{}
	var results = make([][]outcome, len(cases))
	c.Parallel(len(cases), func(i int) {
		results[i] = runCase(c, pool, cases[i], dir)
	})
	for i, cs := range cases {
		// counterfactual attribution of trigger-feature findings (DESIGN.md §4)
		if cs.Neutral != nil && len(results[i]) > 0 && strings.HasPrefix(cs.Desc, "html-deep") && c.FindingOpen("html-deep-nesting-quadratic") {
			allHang := true
			for _, o := range results[i] {
				if o.kind != "hang" {
					allHang = false
				}
			}
			if allHang {
				nc := *cs
				nc.Data = cs.Neutral
				nc.ID = cs.ID + ":neutral"
				if outs := runCase(c, pool, &nc, dir); len(outs) == 0 {
					c.Count("attributed_by_counterfactual", 1)
					c.Fail("html-deep-nesting-quadratic", "known", cs.ID, results[i][0].msg, nil)
					results[i] = nil
				} else {
					results[i] = outs // the shallow variant fails too: report that
				}
			}
		}
		c.Case(fmt.Sprintf("%s|%x", cs.Kind, fnv(cs.Data)), cs.Changed)
		perBase[cs.Base]++
		c.Seen("kind", cs.Kind)
		c.Seen("fault", strings.SplitN(cs.Desc, " ", 2)[0])
		if i%(len(cases)/5+1) == 0 {
			c.Sample(map[string]any{"id": cs.ID, "base": cs.Base, "fault": cs.Desc, "bytes": len(cs.Data)})
		}
		report(c, cs, results[i])
	}
	bases := make([]string, 0, len(perBase))
	for b := range perBase {
		bases = append(bases, b)
	}
	sort.Strings(bases)
	c.Extra("base_documents", len(bases))
	c.Extra("cases_per_base_first", func() map[string]int {
		m := map[string]int{}
		for i, b := range bases {
			if i < 12 {
				m[b] = perBase[b]
			}
		}
		return m
	}())
	c.Extra("exhaustive_single_faults", "for every PDF base document every catalogue fault is applied at every recorded field position (see fault list in features_seen.fault)")
}

func fnv(b []byte) uint64 {
	h := uint64(14695981039346656037)
	for _, c := range b {
		h ^= uint64(c)
		h *= 1099511628211
	}
	return h
}

// cpuNow returns the CPU time (user + system) this process has consumed.
func cpuNow() time.Duration {
	var ru syscall.Rusage
	syscall.Getrusage(syscall.RUSAGE_SELF, &ru)
	return time.Duration(ru.Utime.Nano() + ru.Stime.Nano())
}
