// Package c08: fragment positions follow the PDF imaging model.
//
// Oracle: ref/imaging, an independent interpreter of ISO 32000-1 §8.3.4, §8.4,
// §8.10 and §9.4 with its own 3x3 row-vector matrices. A generated operator
// program is written as plain content-stream text and given to
//
//	text.NewExtractor().ExtractFromBytes(program)           fragments[i].X / .Y / .FontSize
//	  (+ SetResourceContext with an in-memory resolver when the program uses Form XObjects)
//	graphicsstate.NewGraphicsExtractor().ExtractFromBytes   GetLines()[i].Start / .End for "m l S" under the same cm/q/Q
//
// Every shown string is a unique token, so fragments are matched to show
// operations by text. Only the first show after a positioning step (BT, Tm, Td,
// TD, T*, ', ") is compared: glyph widths never enter the oracle.
package c08

import (
	"bytes"
	"fmt"
	"math"
	"os"
	"path/filepath"
	"strings"

	"github.com/tsawler/tabula"

	"github.com/tsawler/tabula/core"
	"github.com/tsawler/tabula/graphicsstate"
	"github.com/tsawler/tabula/text"

	"verifharness/fw"
	"verifharness/ref/imaging"
)

const (
	relTol = 1e-9
	absTol = 1e-6
)

func within(got, want, mag float64) bool {
	return math.Abs(got-want) <= absTol+relTol*math.Max(mag, math.Abs(want))
}

// resources builds the resource dictionary and resolver for the forms.
func resources(p *program) (core.Dict, func(core.IndirectRef) (core.Object, error)) {
	objs := map[int]core.Object{}
	numOf := map[string]int{}
	i := 0
	for n := 1; n <= len(p.forms); n++ {
		numOf[fmt.Sprintf("Fm%d", n)] = 10 + i
		i++
	}
	fontDict := func() core.Dict {
		return core.Dict{
			"F1": core.Dict{"Type": core.Name("Font"), "Subtype": core.Name("Type1"), "BaseFont": core.Name("Helvetica")},
			"F2": core.Dict{"Type": core.Name("Font"), "Subtype": core.Name("Type1"), "BaseFont": core.Name("Times-Roman")},
			"F3": core.Dict{"Type": core.Name("Font"), "Subtype": core.Name("Type1"), "BaseFont": core.Name("Courier")},
		}
	}
	xobj := func(names []string) core.Dict {
		d := core.Dict{}
		local := p.localNames(names)
		for _, n := range names {
			d[local[n]] = core.IndirectRef{Number: numOf[n]}
		}
		return d
	}
	var top []string
	child := map[string]bool{}
	for _, f := range p.forms {
		for _, c := range f.children {
			child[c] = true
		}
	}
	for n := 1; n <= len(p.forms); n++ {
		name := fmt.Sprintf("Fm%d", n)
		f := p.forms[name]
		if !child[name] {
			top = append(top, name)
		}
		d := core.Dict{
			"Type": core.Name("XObject"), "Subtype": core.Name("Form"),
			"BBox": core.Array{core.Int(-10000), core.Int(-10000), core.Int(10000), core.Int(10000)},
		}
		if f.hasMatrix {
			arr := core.Array{}
			for _, m := range f.matrix {
				if !strings.Contains(m.text, ".") && n%2 == 0 {
					arr = append(arr, core.Int(int64(m.v)))
				} else {
					arr = append(arr, core.Real(m.v))
				}
			}
			d["Matrix"] = arr
		}
		res := core.Dict{}
		if len(f.children) > 0 {
			res["XObject"] = xobj(f.children)
		}
		if f.ownFonts {
			res["Font"] = fontDict()
		}
		if f.damaged {
			// a damaged form brings fonts of its own under the page's names that
			// decode every code to a box-drawing character: nothing of them may be
			// in effect once the Do is over
			res["Font"] = poisonFontDict()
		}
		if len(res) > 0 {
			d["Resources"] = res
		}
		if f.danglingRes && len(f.children) == 0 {
			d["Resources"] = core.IndirectRef{Number: 9999}
		}
		data := p.formData(f)
		if f.undecodable {
			d["Filter"] = core.Name("FlateDecode")
		}
		d["Length"] = core.Int(len(data))
		objs[numOf[name]] = &core.Stream{Dict: d, Data: data}
	}
	res := core.Dict{"XObject": xobj(top), "Font": fontDict()}
	resolver := func(ref core.IndirectRef) (core.Object, error) {
		if o, ok := objs[ref.Number]; ok {
			return o, nil
		}
		return nil, fmt.Errorf("object %d not found", ref.Number)
	}
	return res, resolver
}

const poisonCMap = "/CIDInit /ProcSet findresource begin\n12 dict begin\nbegincmap\n/CMapName /Poison def\n1 begincodespacerange\n<00> <FF>\nendcodespacerange\n1 beginbfrange\n<00> <FF> <2500>\nendbfrange\nendcmap\nend\nend\n"

func poisonFontDict() core.Dict {
	tu := &core.Stream{Dict: core.Dict{"Length": core.Int(len(poisonCMap))}, Data: []byte(poisonCMap)}
	d := core.Dict{}
	for _, n := range []string{"F1", "F2", "F3"} {
		d[n] = core.Dict{"Type": core.Name("Font"), "Subtype": core.Name("Type1"), "BaseFont": core.Name("Helvetica"), "ToUnicode": tu}
	}
	return d
}

func runCase(c *fw.Ctx, id string, idx int) {
	p := genProgram(c.Rand("prog", idx), idx)
	data := p.pageData()
	desc := p.describe()

	ref := imaging.New(p.modelForms())
	ref.Run(modelOps(p.ops))
	if ref.Err != "" {
		c.Fail("", "generator-bug", id, "reference interpreter rejects the generated program: "+ref.Err, map[string]any{"program": desc})
		return
	}
	nontriv := false
	comparable := 0
	for _, s := range ref.Shows {
		if s.NonTrivial {
			nontriv = true
		}
		if s.Comparable {
			comparable++
		}
	}
	c.Case(desc, nontriv)
	for f := range p.features {
		c.Seen("feature", f)
	}
	for k := range p.matKinds {
		c.Seen("matrix_kind", k)
	}
	for op, n := range ref.OpsSeen {
		c.Seen("operator", op)
		c.Count("op:"+op, int64(n))
	}
	c.Seen("q_max_depth", fmt.Sprint(ref.MaxQ))
	c.Seen("program_length", fmt.Sprint(len(p.ops)/10*10)+"+")
	if idx < 40 {
		c.Sample(map[string]any{"id": id, "program": string(data), "shows": len(ref.Shows), "comparable": comparable})
	}

	detail := map[string]any{"program": desc, "features": keys(p.features)}
	if p.features["form-damaged-after-q"] {
		detail["damaged_forms"] = true
	}
	cls := "text"
	if p.features["quote-operators"] {
		cls = "text+quote" // separate class: needs the '/" tokeniser fix of C06
	}
	if p.features["form-xobject"] {
		cls = "text+form"
	}

	// (a) text extractor
	c.Guard(cls, id, detail, func() {
		ex := text.NewExtractor()
		if len(p.forms) > 0 {
			res, resolver := resources(p)
			ex.SetResourceContext(res, resolver)
		}
		frags, err := ex.ExtractFromBytes(data)
		if err != nil {
			c.Fail("", cls+"/error", id, fmt.Sprintf("ExtractFromBytes: error %q on a well-formed program", err), detail)
			return
		}
		compareFragments(c, id, cls, frags, ref, detail)
	})

	// (a2) the whole program under a rotation of the device space (one more cm in front of it,
	// i.e. applied last): whatever "the combined scaling" is taken to be - the length of the
	// image of a text-space unit vector, the larger of the two, the root of the determinant, a
	// singular value - a rotation of the page does not change it, so every reported font size
	// stays what it was. Decides what the bounds above leave open under shears and under
	// non-uniform scales combined with rotations.
	if idx%3 == 0 && !p.features["form-damaged-after-q"] {
		c.Guard(cls+"+rotated", id, detail, func() {
			run := func(prog []byte) (map[string][]float64, error) {
				ex := text.NewExtractor()
				if len(p.forms) > 0 {
					res, resolver := resources(p)
					ex.SetResourceContext(res, resolver)
				}
				frags, err := ex.ExtractFromBytes(prog)
				out := map[string][]float64{}
				for _, f := range frags {
					if f.Text != "" {
						out[f.Text] = append(out[f.Text], f.FontSize)
					}
				}
				return out, err
			}
			base, err := run(data)
			if err != nil {
				return // reported by (a)
			}
			deg := []float64{30, 45, 90, 137, 180, 270, 301}[(idx/3)%7]
			sn, cs := math.Sincos(deg * math.Pi / 180)
			rot := fmt.Sprintf("%.12f %.12f %.12f %.12f 0 0 cm\n", cs, sn, -sn, cs)
			turned, err := run(append([]byte(rot), data...))
			if err != nil {
				c.Fail("", cls+"/error", id, fmt.Sprintf("ExtractFromBytes: error %q on a well-formed program behind %q", err, rot), detail)
				return
			}
			for _, sh := range ref.Shows {
				a, b := base[sh.Text], turned[sh.Text]
				if len(a) != 1 || len(b) != 1 {
					continue
				}
				c.Count("font_sizes_compared_under_page_rotation", 1)
				if math.Abs(a[0]-b[0]) > 1e-6*math.Abs(a[0])+1e-9 {
					c.Fail("", cls+"/font-size-rotation", id, fmt.Sprintf("show %s: FontSize %.9g, but %.9g when the device space is turned by %v degrees (one more cm in front of the program)", sh.Text, a[0], b[0], deg), detail)
					return
				}
			}
		})
	}

	// (a') the same program as the content stream of a one-page PDF file, through the public API
	if idx%9 == 0 {
		pcls := "pdf+" + cls
		c.Guard(pcls, id, detail, func() {
			path := filepath.Join(c.Work, fmt.Sprintf("c08-%d.pdf", idx))
			polluter := idx%18 == 9
			if err := os.WriteFile(path, pdfFile(p, polluter), 0o644); err != nil {
				c.Inconclusive("cannot write scratch PDF: " + err.Error())
				return
			}
			defer os.Remove(path)
			frags, _, err := tabula.Open(path).Fragments()
			if err != nil {
				c.Fail("", pcls+"/error", id, fmt.Sprintf("tabula.Open(one-page PDF).Fragments(): error %q", err), detail)
				return
			}
			c.Count("pdf_documents_extracted", 1)
			if polluter {
				// the first page's own fragment is not part of the program
				kept := frags[:0:0]
				for _, f := range frags {
					if f.Text != polluterText {
						kept = append(kept, f)
					}
				}
				frags = kept
				c.Count("pdf_documents_with_a_state_polluting_first_page", 1)
			}
			compareFragments(c, id, pcls, frags, ref, detail)
		})
	}

	// (b) graphics extractor: line end-points under the same cm / q / Q
	if len(ref.Lines) > 0 || idx%8 == 0 {
		c.Guard("lines", id, detail, func() {
			ge := graphicsstate.NewGraphicsExtractor()
			if err := ge.ExtractFromBytes(data); err != nil {
				c.Fail("", "lines/error", id, fmt.Sprintf("GraphicsExtractor.ExtractFromBytes: error %q on a well-formed program", err), detail)
				return
			}
			lines := ge.GetLines()
			if len(lines) != len(ref.Lines) {
				c.Fail("", "lines/count", id, fmt.Sprintf("GraphicsExtractor: %d lines, want %d", len(lines), len(ref.Lines)), detail)
				return
			}
			for n, l := range ref.Lines {
				g := lines[n]
				c.Count("line_endpoints_compared", 2)
				if !within(g.Start.X, l.X0, l.Mag) || !within(g.Start.Y, l.Y0, l.Mag) || !within(g.End.X, l.X1, l.Mag) || !within(g.End.Y, l.Y1, l.Mag) {
					c.Fail("", "lines/position", id, fmt.Sprintf("line #%d: (%.9g,%.9g)-(%.9g,%.9g), want (%.9g,%.9g)-(%.9g,%.9g)", n, g.Start.X, g.Start.Y, g.End.X, g.End.Y, l.X0, l.Y0, l.X1, l.Y1), detail)
					return
				}
			}
		})
	}
}

// compareFragments matches fragments to the predicted shows by token text and
// checks font size and, for the first show after a positioning step, origin.
func compareFragments(c *fw.Ctx, id, cls string, frags []text.TextFragment, ref *imaging.Interp, detail map[string]any) {
	byText := map[string][]text.TextFragment{}
	shown := frags[:0:0] // a fragment without text (from a show operator with an empty string) is nothing shown
	for _, f := range frags {
		if f.Text == "" {
			continue
		}
		shown = append(shown, f)
		byText[f.Text] = append(byText[f.Text], f)
	}
	frags = shown
	for n, s := range ref.Shows {
		fs := byText[s.Text]
		if len(fs) != 1 {
			detail["show"] = fmt.Sprintf("#%d %s (%s)", n, s.Operator, s.Text)
			c.Fail("", cls+"/fragment-count", id, fmt.Sprintf("show #%d (%s %s, form depth %d) produced %d fragments, want 1", n, s.Text, s.Operator, s.FormDepth, len(fs)), detail)
			return
		}
		f := fs[0]
		c.Count("fragments_matched", 1)
		// font size: inside the singular-value bounds of the composite scaling
		lo := s.SizeLo*(1-relTol) - absTol
		hi := s.SizeHi*(1+relTol) + absTol
		if !(f.FontSize >= lo && f.FontSize <= hi) {
			detail["show"] = fmt.Sprintf("#%d %s (%s)", n, s.Operator, s.Text)
			kind := "bounds"
			if s.Exact {
				kind = "exact"
			}
			c.Fail("", cls+"/font-size-"+kind, id, fmt.Sprintf("show #%d (%s): FontSize %.9g outside [%.9g, %.9g] = |Tfs| x sigma(Tm) x sigma(CTM)", n, s.Text, f.FontSize, s.SizeLo, s.SizeHi), detail)
			return
		}
		if s.Exact {
			c.Count("font_sizes_compared_exact", 1)
		} else {
			c.Count("font_sizes_compared_bounds", 1)
		}
		if !s.Comparable {
			c.Count("shows_not_compared_(after_glyph_advance)", 1)
			continue
		}
		c.Count("positions_compared", 1)
		c.Count("positions_compared:"+s.Operator, 1)
		if s.FormDepth > 0 {
			c.Count("positions_compared_inside_forms", 1)
		}
		if !within(f.X, s.X, s.Mag) || !within(f.Y, s.Y, s.Mag) {
			detail["show"] = fmt.Sprintf("#%d %s (%s)", n, s.Operator, s.Text)
			c.Fail("", cls+"/position/"+s.Operator, id, fmt.Sprintf("show #%d (%s %s, form depth %d): origin (%.9g, %.9g), want (0,0) x Tm x CTM = (%.9g, %.9g)", n, s.Text, s.Operator, s.FormDepth, f.X, f.Y, s.X, s.Y), detail)
			return
		}
	}
	if detail["damaged_forms"] == true {
		// a reader may salvage the text in front of the damage of a damaged form
		// or skip the form: fragments beyond the predicted shows are not judged
		if len(frags) < len(ref.Shows) {
			c.Fail("", cls+"/fragment-count", id, fmt.Sprintf("%d fragments for %d show operations outside the damaged forms", len(frags), len(ref.Shows)), detail)
		}
		return
	}
	if len(frags) != len(ref.Shows) {
		c.Fail("", cls+"/fragment-count", id, fmt.Sprintf("%d fragments for %d show operations", len(frags), len(ref.Shows)), detail)
	}
}

func keys(m map[string]bool) []string {
	var out []string
	for k := range m {
		out = append(out, k)
	}
	return out
}

// fixed witnesses (the examples of the property text); run on every invocation.
var witnesses = []struct {
	name, prog, tok string
	x, y            float64
	size            float64
}{
	{"cm-order", "/F1 12 Tf 1 0 0 1 100 100 cm 2 0 0 2 0 0 cm BT 10 10 Td (qwazaaaa) Tj ET", "qwazaaaa", 120, 120, 24},
	{"td-scaled", "BT /F1 1 Tf 12 0 0 12 72 700 Tm (qwbzaaaa) Tj 0 -1.2 Td (qwczaaaa) Tj ET", "qwczaaaa", 72, 685.6, 12},
	{"rotated-size", "BT /F1 10 Tf 0 1 -1 0 72 700 Tm (qwdzaaaa) Tj ET", "qwdzaaaa", 72, 700, 10},
	{"quote-leading", "BT /F1 10 Tf 14 TL 2 0 0 2 10 10 Tm (qwezaaaa) ' ET", "qwezaaaa", 10, -18, 20},
	{"dquote", "BT /F1 10 Tf 5 TL 100 100 Td 1 2 (qwfzaaaa) \" ET", "qwfzaaaa", 100, 95, 10},
	{"q-restore", "/F1 10 Tf q 3 0 0 3 50 50 cm Q BT 7 9 Td (qwgzaaaa) Tj ET", "qwgzaaaa", 7, 9, 10},
	{"bt-reset", "BT /F1 10 Tf 5 5 Td ET BT (qwhzaaaa) Tj ET", "qwhzaaaa", 0, 0, 10},
	{"TD-leading", "BT /F1 10 Tf 2 0 0 2 0 0 Tm 10 -20 TD T* (qwizaaaa) Tj ET", "qwizaaaa", 20, -80, 20},
}

func runWitnesses(c *fw.Ctx) {
	for _, w := range witnesses {
		id := "w:" + w.name
		if !c.Want(id) {
			continue
		}
		c.Case("witness|"+w.prog, true)
		detail := map[string]any{"program": w.prog}
		c.Guard("witness/"+w.name, id, detail, func() {
			frags, err := text.NewExtractor().ExtractFromBytes([]byte(w.prog))
			if err != nil {
				c.Fail("", "witness/"+w.name, id, fmt.Sprintf("ExtractFromBytes(%q): error %q", w.prog, err), detail)
				return
			}
			for _, f := range frags {
				if f.Text != w.tok {
					continue
				}
				if !within(f.X, w.x, 1e3) || !within(f.Y, w.y, 1e3) || !within(f.FontSize, w.size, 1e2) {
					c.Fail("", "witness/"+w.name, id, fmt.Sprintf("%q: %s at (%.9g, %.9g) size %.9g, want (%.9g, %.9g) size %.9g", w.prog, w.tok, f.X, f.Y, f.FontSize, w.x, w.y, w.size), detail)
				}
				return
			}
			c.Fail("", "witness/"+w.name, id, fmt.Sprintf("%q: no fragment %s", w.prog, w.tok), detail)
		})
	}
}

// Run is the C08 check.
func Run(c *fw.Ctx) {
	c.Rule("case = operator program (+ its Form XObjects); non-trivial iff at least one compared show is reached through a positioning operator " +
		"(Tm, Td, TD, T*, ', \") under a non-translation matrix (cm, Tm or form /Matrix); distinct by hash of the program text")
	c.Assume("ref/imaging implements ISO 32000-1 §8.3.4/§8.4.4 (cm pre-multiplies), §8.4.2 (q/Q), §8.10.1 (Do = q, Matrix x CTM, Q), §9.4.1-§9.4.2 (BT, Tm, Td, TD, T*), §9.4.3 (' and \")",
		"q/Q/cm/Do occur only outside text objects and q/Q are balanced, as §8.2 requires; every matrix is non-singular; a font is selected before any text is shown; font sizes are positive; text rise (Ts) is not used",
		"positions are compared with |diff| <= 1e-6 + 1e-9 x (sum of the absolute terms of the expected coordinate)",
		"font size: |Tfs| x sigma_min(Tm) x sigma_min(CTM) <= FontSize <= |Tfs| x sigma_max(Tm) x sigma_max(CTM); equality when both linear parts are similarities",
		"only the first show after a positioning step is compared, so glyph widths are not part of the oracle")

	runWitnesses(c)

	n := c.N(20000, 1000000)
	c.Parallel(n, func(i int) {
		id := fmt.Sprintf("prog:%d", i)
		if !c.Want(id) {
			return
		}
		runCase(c, id, i)
	})
	c.Exhaustive(false)
	if c.Only == "" && c.Counter("positions_compared") < int64(n) {
		c.Inconclusive(fmt.Sprintf("only %d positions compared in %d programs", c.Counter("positions_compared"), n))
	}
}

// pdfFile wraps the program in a minimal one-page PDF (classic xref table).
// polluterText is what the optional first page shows. Its content stream leaves
// every text-state parameter away from its default and ends inside a q with a
// changed CTM: each page starts from the initial graphics state, so nothing of
// this may reach the page under test.
const polluterText = "polluter"

func pdfFile(p *program, polluter bool) []byte {
	var objs []string // objs[i] is object i+1
	add := func(body string) int { objs = append(objs, body); return len(objs) }
	stream := func(dict string, data []byte) string {
		return fmt.Sprintf("<<%s/Length %d>>\nstream\n%s\nendstream", dict, len(data), data)
	}
	add("<</Type/Catalog/Pages 2 0 R>>")
	if polluter {
		add("<</Type/Pages/Kids[POLLUTER 3 0 R]/Count 2>>")
	} else {
		add("<</Type/Pages/Kids[3 0 R]/Count 1>>")
	}
	add("") // page, filled in below
	add(stream("", p.pageData()))
	f1 := add("<</Type/Font/Subtype/Type1/BaseFont/Helvetica>>")
	f2 := add("<</Type/Font/Subtype/Type1/BaseFont/Times-Roman>>")
	f3 := add("<</Type/Font/Subtype/Type1/BaseFont/Courier>>")
	fonts := fmt.Sprintf("/Font<</F1 %d 0 R/F2 %d 0 R/F3 %d 0 R>>", f1, f2, f3)
	numOf := map[string]int{}
	for n := 1; n <= len(p.forms); n++ {
		numOf[fmt.Sprintf("Fm%d", n)] = len(objs) + n
	}
	xobj := func(names []string) string {
		var sb strings.Builder
		sb.WriteString("/XObject<<")
		local := p.localNames(names)
		for _, n := range names {
			fmt.Fprintf(&sb, "/%s %d 0 R", local[n], numOf[n])
		}
		sb.WriteString(">>")
		return sb.String()
	}
	child := map[string]bool{}
	for _, f := range p.forms {
		for _, ch := range f.children {
			child[ch] = true
		}
	}
	var top []string
	needPoison := false
	for n := 1; n <= len(p.forms); n++ {
		name := fmt.Sprintf("Fm%d", n)
		f := p.forms[name]
		if !child[name] {
			top = append(top, name)
		}
		d := "/Type/XObject/Subtype/Form/BBox[-10000 -10000 10000 10000]"
		if f.hasMatrix {
			d += "/Matrix["
			for _, m := range f.matrix {
				d += m.text + " "
			}
			d += "]"
		}
		res := ""
		if len(f.children) > 0 {
			res += xobj(f.children)
		}
		if f.ownFonts && !f.damaged {
			res += fonts
		}
		if f.damaged {
			res += "/Font<</F1 POISON 0 R/F2 POISON 0 R/F3 POISON 0 R>>"
			needPoison = true
		}
		if res != "" {
			d += "/Resources<<" + res + ">>"
		}
		if f.danglingRes && len(f.children) == 0 {
			d = strings.Replace(d, "/Resources<<"+res+">>", "", 1) + "/Resources 9999 0 R"
		}
		if f.undecodable {
			d += "/Filter/FlateDecode"
		}
		add(stream(d, p.formData(f)))
	}
	objs[2] = "<</Type/Page/Parent 2 0 R/MediaBox[0 0 612 792]/Resources<<" + fonts + xobj(top) + ">>/Contents 4 0 R>>"
	if needPoison {
		tu := add(stream("", []byte(poisonCMap)))
		pf := add(fmt.Sprintf("<</Type/Font/Subtype/Type1/BaseFont/Helvetica/ToUnicode %d 0 R>>", tu))
		for i := range objs {
			objs[i] = strings.ReplaceAll(objs[i], "POISON 0 R", fmt.Sprintf("%d 0 R", pf))
		}
	}
	if polluter {
		pc := add(stream("", []byte("BT /F2 7 Tf 17 TL 3 Tc 2 Tw 80 Tz 4 Ts 1 0 0 1 9 9 Tm 5 -11 TD ("+polluterText+") Tj ET\n2 0 0 2 30 40 cm q 3 0 0 3 7 7 cm BT /F3 5 Tf 13 TL 1 1 Td")))
		pp := add(fmt.Sprintf("<</Type/Page/Parent 2 0 R/MediaBox[0 0 612 792]/Resources<<%s>>/Contents %d 0 R>>", fonts, pc))
		objs[1] = strings.Replace(objs[1], "POLLUTER", fmt.Sprintf("%d 0 R", pp), 1)
	}
	var b bytes.Buffer
	b.WriteString("%PDF-1.4\n")
	offs := make([]int, len(objs))
	for i, o := range objs {
		offs[i] = b.Len()
		fmt.Fprintf(&b, "%d 0 obj\n%s\nendobj\n", i+1, o)
	}
	xref := b.Len()
	fmt.Fprintf(&b, "xref\n0 %d\n0000000000 65535 f \n", len(objs)+1)
	for _, o := range offs {
		fmt.Fprintf(&b, "%010d 00000 n \n", o)
	}
	fmt.Fprintf(&b, "trailer\n<</Size %d/Root 1 0 R>>\nstartxref\n%d\n%%%%EOF\n", len(objs)+1, xref)
	return b.Bytes()
}
