package c08

import (
	"fmt"
	"math"
	"math/rand"
	"strconv"
	"strings"

	"verifharness/fw"
	"verifharness/ref/imaging"
)

// num is a number as written in the program: the text is what tabula reads,
// the value is the correctly rounded reading of exactly that text.
type num struct {
	text string
	v    float64
}

func mkNum(v float64, decimals int) num {
	t := strconv.FormatFloat(v, 'f', decimals, 64)
	if strings.Contains(t, ".") {
		t = strings.TrimRight(strings.TrimRight(t, "0"), ".")
	}
	if t == "-0" || t == "" {
		t = "0"
	}
	f, _ := strconv.ParseFloat(t, 64)
	return num{t, f}
}

// pop is one written operation.
type pop struct {
	name string
	args []num
	text string // shown token
	// emptyStr: the operand is an empty string, written "()" or "<>" (a blank
	// line idiom with ' and "): nothing is shown, the line move still happens
	emptyStr string
	ref      string // font / form name
}

func (p pop) String() string {
	if p.name == "TJ" {
		return p.tjString()
	}
	var sb strings.Builder
	if p.name == "Tf" || p.name == "Do" {
		sb.WriteString("/" + p.ref + " ")
	}
	for _, a := range p.args {
		sb.WriteString(a.text)
		sb.WriteByte(' ')
	}
	if p.text != "" {
		sb.WriteString("(" + p.text + ") ")
	} else if p.emptyStr != "" {
		sb.WriteString(p.emptyStr + " ") // "()" or "<>": a show operator with no character codes
	}
	sb.WriteString(p.name)
	return sb.String()
}

// tjString renders "[(text) n] TJ": the adjustment follows the string, so the
// origin of the string itself is that of a Tj; what a reader does with the
// number must leave the text line matrix alone (later Td / T* / ' / " start
// from the line's origin, not from the end of this string).
func (p pop) tjString() string {
	return "[(" + p.text + ") " + p.args[0].text + "] TJ"
}

func (p pop) model() imaging.Op {
	o := imaging.Op{Name: p.name, Text: p.text, Ref: p.ref}
	for _, a := range p.args {
		o.Args = append(o.Args, a.v)
	}
	return o
}

func render(ops []pop) []byte { return renderWith(ops, nil) }

// renderWith writes the operators; local maps a form's global name (Fm3) to the
// name it has in the resource dictionary of the scope the operators belong to.
func renderWith(ops []pop, local map[string]string) []byte {
	var sb strings.Builder
	for _, p := range ops {
		if p.name == "Do" && local[p.ref] != "" {
			p.ref = local[p.ref]
		}
		sb.WriteString(p.String())
		sb.WriteByte('\n')
	}
	return []byte(sb.String())
}

// localNames gives the forms of one scope (the page, or a form's children) their
// names in that scope's /XObject dictionary: the global name, or — when the
// program uses local names — X1, X2 … by position, so that the same name means
// different forms at different levels.
func (p *program) localNames(children []string) map[string]string {
	m := map[string]string{}
	// the page's forms are X1, X2 …; the children of the i-th page-level form start
	// at X(i+1): its first child has the name the page gives its next form
	off := 0
	if p.local && len(children) > 0 {
		for i, t := range p.topForms() {
			for _, ch := range p.forms[t].children {
				if ch == children[0] {
					off = i + 1
				}
			}
		}
	}
	for i, c := range children {
		m[c] = c
		if p.local {
			m[c] = fmt.Sprintf("X%d", off+i+1)
		}
	}
	return m
}

// topForms lists the forms invoked by the page itself, in order of creation.
func (p *program) topForms() []string {
	child := map[string]bool{}
	for _, f := range p.forms {
		for _, c := range f.children {
			child[c] = true
		}
	}
	var top []string
	for n := 1; n <= len(p.forms); n++ {
		if name := fmt.Sprintf("Fm%d", n); !child[name] {
			top = append(top, name)
		}
	}
	return top
}

// pageData / formData: the content streams as written into the file.
func (p *program) pageData() []byte { return renderWith(p.ops, p.localNames(p.topForms())) }
func (p *program) formData(f *form) []byte {
	local := p.localNames(f.children)
	if !f.damaged {
		return renderWith(f.ops, local)
	}
	if f.undecodable {
		return []byte("\x78\x9c this is not deflate data \x00\xff\x13\x37")
	}
	return append(append([]byte("q\n2 0 0 2 30 40 cm\n"), renderWith(f.ops, local)...), []byte("BT (cut off")...)
}

func modelOps(ops []pop) []imaging.Op {
	out := make([]imaging.Op, len(ops))
	for i, p := range ops {
		out[i] = p.model()
	}
	return out
}

// form is a generated Form XObject.
type form struct {
	name      string
	hasMatrix bool
	matrix    [6]num
	ops       []pop
	ownFonts  bool
	children  []string
	// damaged: the stream opens a q, changes the CTM and then ends in a syntax
	// error (an unterminated string). Whatever a reader makes of such a form,
	// the state after the Do must be the state before it.
	damaged bool
	// undecodable (a kind of damaged): the stream says /Filter /FlateDecode over data
	// that do not inflate; the form has a /Matrix like any other
	undecodable bool
	// danglingRes: /Resources is a reference to an object that does not exist
	// (reads as null): the form uses the page's resources, its /Matrix still applies
	danglingRes bool
}

// data returns the form's content stream.
func (f *form) data() []byte {
	if !f.damaged {
		return render(f.ops)
	}
	return append(append([]byte("q\n2 0 0 2 30 40 cm\n"), render(f.ops)...), []byte("BT (cut off")...)
}

// program is one generated case.
type program struct {
	ops      []pop
	forms    map[string]*form
	local    bool // resource dictionaries name the forms X1, X2 … per scope instead of globally
	features map[string]bool
	matKinds map[string]bool
}

// ---------------------------------------------------------------------------
// matrices

// genMatrix returns a non-singular affine matrix of a named kind. The linear
// part has singular values within [0.2, 5] so that compositions of up to ~12
// matrices stay far inside float64's exact range.
func genMatrix(r *rand.Rand, kinds map[string]bool) [6]num {
	kind := []string{"translate", "scale", "scale-nonuniform", "rotate", "rotate90", "shear", "reflect", "general", "text-12x"}[r.Intn(9)]
	kinds[kind] = true
	var a, b, c, d float64
	sc := func() float64 { return []float64{0.25, 0.5, 0.75, 1.5, 2, 3, 12.0 / 5}[r.Intn(7)] }
	switch kind {
	case "translate":
		a, d = 1, 1
	case "scale":
		s := sc()
		a, d = s, s
	case "scale-nonuniform":
		a, d = sc(), sc()
		if a == d {
			d = a * 1.5
		}
	case "rotate":
		th := r.Float64() * 2 * math.Pi
		s := 1.0
		if r.Intn(2) == 0 {
			s = sc()
		}
		a, b, c, d = s*math.Cos(th), s*math.Sin(th), -s*math.Sin(th), s*math.Cos(th)
	case "rotate90":
		s := 1.0
		if r.Intn(2) == 0 {
			s = sc()
		}
		switch r.Intn(3) {
		case 0:
			a, b, c, d = 0, s, -s, 0
		case 1:
			a, b, c, d = -s, 0, 0, -s
		default:
			a, b, c, d = 0, -s, s, 0
		}
	case "shear":
		a, d = 1, 1
		if r.Intn(2) == 0 {
			c = []float64{0.2, 0.333, -0.5, 1}[r.Intn(4)] // italic-style slant
		} else {
			b = []float64{0.2, -0.25, 0.5}[r.Intn(3)]
		}
	case "reflect":
		if r.Intn(2) == 0 {
			a, d = 1, -1 // top-left origin pages
		} else {
			a, d = -1, 1
		}
	case "text-12x":
		s := []float64{8, 10, 12, 14}[r.Intn(4)]
		a, d = s, s
	default:
		for {
			a, b, c, d = r.Float64()*4-2, r.Float64()*4-2, r.Float64()*4-2, r.Float64()*4-2
			m := imaging.FromPDF(round4(a), round4(b), round4(c), round4(d), 0, 0)
			hi, lo := m.SingularValues()
			if lo >= 0.2 && hi <= 5 {
				break
			}
		}
	}
	e, f := 0.0, 0.0
	if kind == "translate" || r.Intn(2) == 0 {
		e, f = float64(r.Intn(1200)-300)+float64(r.Intn(100))/100, float64(r.Intn(1200)-300)+float64(r.Intn(4))/4
	}
	dec := 4
	if kind == "rotate" && r.Intn(2) == 0 {
		dec = 6
	}
	return [6]num{mkNum(a, dec), mkNum(b, dec), mkNum(c, dec), mkNum(d, dec), mkNum(e, 2), mkNum(f, 2)}
}

func round4(v float64) float64 { return math.Round(v*1e4) / 1e4 }

func offset(r *rand.Rand) num {
	switch r.Intn(5) {
	case 0:
		return mkNum(0, 0)
	case 1:
		return mkNum(float64(r.Intn(400)-100), 0)
	case 2:
		return mkNum(-1.2, 1)
	default:
		return mkNum(float64(r.Intn(60000)-20000)/100, 2)
	}
}

// ---------------------------------------------------------------------------
// programs

type genState struct {
	r            *rand.Rand
	tok          *fw.Tokens
	p            *program
	quotes       bool
	forms        bool
	damagedForms bool
	lines        bool
	budget       int
	haveFont     bool
	fontN        int
}

func (g *genState) tf() pop {
	g.haveFont = true
	g.fontN++
	size := []float64{1, 6, 8.5, 9, 10, 11, 12, 14, 18, 24, 0.5}[g.r.Intn(11)]
	return pop{name: "Tf", ref: fmt.Sprintf("F%d", 1+g.r.Intn(3)), args: []num{mkNum(size, 2)}}
}

func (g *genState) stateOp() pop {
	switch g.r.Intn(5) {
	case 0:
		return g.tf()
	case 1:
		return pop{name: "TL", args: []num{mkNum([]float64{0, 1, 1.2, 12, 14.4, -10, 0.5}[g.r.Intn(7)], 2)}}
	case 2:
		return pop{name: "Tc", args: []num{mkNum(float64(g.r.Intn(300)-100)/100, 2)}}
	case 3:
		return pop{name: "Tw", args: []num{mkNum(float64(g.r.Intn(500)-100)/100, 2)}}
	default:
		return pop{name: "Tz", args: []num{mkNum(float64(50+g.r.Intn(101)), 0)}}
	}
}

func mat(name string, m [6]num) pop { return pop{name: name, args: m[:]} }

// textObject emits BT ... ET.
func (g *genState) textObject(out *[]pop) {
	*out = append(*out, pop{name: "BT"})
	n := 1 + g.r.Intn(8)
	for i := 0; i < n && g.budget > 0; i++ {
		g.budget--
		choice := g.r.Intn(12)
		switch {
		case choice < 3: // show
			if !g.haveFont {
				*out = append(*out, g.tf())
			}
			if g.r.Intn(3) == 0 {
				*out = append(*out, pop{name: "TJ", text: g.tok.Next(), args: []num{mkNum(float64(g.r.Intn(1200)-400), 0)}})
				g.p.features["TJ-adjustment"] = true
			} else {
				*out = append(*out, pop{name: "Tj", text: g.tok.Next()})
			}
		case choice == 3 && g.quotes:
			if !g.haveFont {
				*out = append(*out, g.tf())
			}
			if g.r.Intn(5) == 0 {
				// blank lines: ' and " with an empty string move to the next line and show nothing
				es := []string{"()", "<>"}[g.r.Intn(2)]
				if g.r.Intn(2) == 0 {
					*out = append(*out, pop{name: "'", emptyStr: es})
				} else {
					*out = append(*out, pop{name: "\"", emptyStr: es, args: []num{mkNum(float64(g.r.Intn(300))/100, 2), mkNum(float64(g.r.Intn(100))/100, 2)}})
				}
				g.p.features["quote-empty-string"] = true
			}
			if g.r.Intn(2) == 0 {
				*out = append(*out, pop{name: "'", text: g.tok.Next()})
			} else {
				*out = append(*out, pop{name: "\"", text: g.tok.Next(),
					args: []num{mkNum(float64(g.r.Intn(300))/100, 2), mkNum(float64(g.r.Intn(100))/100, 2)}})
			}
			g.p.features["quote-operators"] = true
		case choice == 4 || choice == 3:
			*out = append(*out, mat("Tm", genMatrix(g.r, g.p.matKinds)))
		case choice == 5 || choice == 6:
			*out = append(*out, pop{name: "Td", args: []num{offset(g.r), offset(g.r)}})
		case choice == 7:
			*out = append(*out, pop{name: "TD", args: []num{offset(g.r), offset(g.r)}})
		case choice == 8:
			*out = append(*out, pop{name: "T*"})
		default:
			*out = append(*out, g.stateOp())
		}
	}
	// make sure the object shows something (most of the time)
	if g.r.Intn(4) > 0 {
		if !g.haveFont {
			*out = append(*out, g.tf())
		}
		*out = append(*out, pop{name: "Tj", text: g.tok.Next()})
	}
	*out = append(*out, pop{name: "ET"})
}

// block emits page-level operations (outside text objects) with balanced q/Q.
func (g *genState) block(out *[]pop, qDepth int, formDepth int, self *form) {
	n := 1 + g.r.Intn(7)
	for i := 0; i < n && g.budget > 0; i++ {
		g.budget--
		switch c := g.r.Intn(12); {
		case c < 3:
			*out = append(*out, mat("cm", genMatrix(g.r, g.p.matKinds)))
		case c < 6:
			g.textObject(out)
		case c < 8 && qDepth < 8:
			*out = append(*out, pop{name: "q"})
			g.block(out, qDepth+1, formDepth, self)
			*out = append(*out, pop{name: "Q"})
			g.p.features[fmt.Sprintf("q-depth-%d", qDepth+1)] = true
		case c == 8:
			*out = append(*out, g.stateOp())
		case c == 9 && g.lines:
			*out = append(*out,
				pop{name: "m", args: []num{offset(g.r), offset(g.r)}},
				pop{name: "l", args: []num{offset(g.r), offset(g.r)}},
				pop{name: "S"})
			g.p.features["stroked-line"] = true
		case c == 10 && g.forms && formDepth < 2:
			f := g.newForm(formDepth + 1)
			if self != nil {
				self.children = append(self.children, f.name)
			}
			*out = append(*out, pop{name: "Do", ref: f.name})
			g.p.features["form-xobject"] = true
			if formDepth == 1 {
				g.p.features["nested-form"] = true
			}
		default:
			g.textObject(out)
		}
	}
}

func (g *genState) newForm(depth int) *form {
	f := &form{name: fmt.Sprintf("Fm%d", len(g.p.forms)+1)}
	g.p.forms[f.name] = f
	if g.r.Intn(4) > 0 {
		f.hasMatrix = true
		f.matrix = genMatrix(g.r, g.p.matKinds)
		g.p.features["form-matrix"] = true
	}
	f.ownFonts = g.r.Intn(2) == 0
	if g.damagedForms && g.r.Intn(2) == 0 {
		f.damaged = true
		g.p.features["form-damaged-after-q"] = true
		if g.r.Intn(3) == 0 {
			f.undecodable = true
			g.p.features["form-undecodable"] = true
		}
	}
	if !f.damaged && g.r.Intn(6) == 0 {
		f.danglingRes = true
		g.p.features["form-resources-dangling"] = true
	}
	// the font set inside a form does not leak out (Do is bracketed by q/Q),
	// but one set before Do is inherited; haveFont only ever becomes true
	// inside the form, so restore it afterwards
	saved := g.haveFont
	sub := g.budget
	if sub > 10 {
		sub = 10
	}
	g.budget -= sub
	outer := g.budget
	g.budget = sub
	g.block(&f.ops, 0, depth, f)
	g.budget = outer
	g.haveFont = saved
	return f
}

// genProgram builds one case. idx steers the feature mix so that at least half
// of all cases use neither quote operators nor forms.
func genProgram(r *rand.Rand, idx int) *program {
	tok := fw.NewTokens(r)
	budget := 4 + r.Intn(28)
	for {
		p := &program{forms: map[string]*form{}, features: map[string]bool{}, matKinds: map[string]bool{}}
		g := &genState{r: r, tok: tok, p: p, budget: budget}
		g.quotes = idx%4 == 1
		g.forms = idx%4 == 3
		g.damagedForms = idx%16 == 7
		p.local = idx%8 == 3
		g.lines = idx%2 == 0
		// a font must be selected before text is shown (§9.3.1: Tf has no
		// initial value); select one at page level so that every later
		// state, also after Q and inside forms, has one
		p.ops = append(p.ops, g.tf())
		for g.budget > 0 {
			g.block(&p.ops, 0, 0, nil)
		}
		// the property quantifies over programs of up to 40 operators
		if len(p.ops) <= 40 {
			if p.local {
				// a clash: a top-level form invoked after an earlier one whose children
				// carry the same local names
				top := p.topForms()
				for i := range top {
					if i+1 < len(top) && len(p.forms[top[i]].children) > 0 {
						p.features["form-local-name-clash"] = true
					}
				}
			}
			return p
		}
		budget = budget * 2 / 3
	}
}

func (p *program) describe() string {
	var sb strings.Builder
	sb.Write(p.pageData())
	for i := 1; i <= len(p.forms); i++ {
		f := p.forms[fmt.Sprintf("Fm%d", i)]
		fmt.Fprintf(&sb, "-- %s matrix=%v\n", f.name, f.hasMatrix)
		if f.hasMatrix {
			for _, n := range f.matrix {
				sb.WriteString(n.text + " ")
			}
			sb.WriteByte('\n')
		}
		sb.Write(p.formData(f))
	}
	return sb.String()
}

func (p *program) modelForms() map[string]imaging.Form {
	out := map[string]imaging.Form{}
	for name, f := range p.forms {
		mf := imaging.Form{HasMatrix: f.hasMatrix, Ops: modelOps(f.ops)}
		if f.damaged {
			mf.Ops = nil // nothing it shows is expected; it must leave no trace in the state
		}
		for i, n := range f.matrix {
			mf.Matrix[i] = n.v
		}
		out[name] = mf
	}
	return out
}
