//go:build c20 || allprops

package main

import "verifharness/c20"

func init() { register("C20", "exploration", c20.Run) }
