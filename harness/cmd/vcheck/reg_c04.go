//go:build c04 || allprops

package main

import "verifharness/c04"

func init() { register("C04", "exploration", c04.Run) }
