// vcheck: one binary, one sub-command per property, plus the isolated worker.
package main

import (
	"encoding/json"
	"fmt"
	"os"
	"strconv"

	"verifharness/fw"
)

type prop struct {
	level string
	run   func(c *fw.Ctx)
}

var registry = map[string]prop{}

func register(id, level string, run func(c *fw.Ctx)) { registry[id] = prop{level, run} }

func main() {
	if len(os.Args) < 2 {
		fmt.Fprintln(os.Stderr, "usage: vcheck run <Cnn> <tier> | replay <path> | worker <name> <heapMiB>")
		os.Exit(3)
	}
	switch os.Args[1] {
	case "worker":
		heap, _ := strconv.Atoi(os.Args[3])
		os.Exit(fw.WorkerMain(os.Args[2], heap))
	case "oneshot":
		os.Exit(fw.OneShotMain(os.Args[2], os.Args[3], os.Args[4]))
	case "run":
		id, tier := os.Args[2], os.Args[3]
		p, ok := registry[id]
		if !ok {
			fmt.Fprintf(os.Stderr, "no check for %s\n", id)
			os.Exit(3)
		}
		c := fw.NewCtx(id, tier, p.level)
		p.run(c)
		os.Exit(c.Finish())
	case "replay":
		b, err := os.ReadFile(os.Args[2])
		if err != nil {
			fmt.Fprintln(os.Stderr, err)
			os.Exit(3)
		}
		var rp fw.Replay
		if err := json.Unmarshal(b, &rp); err != nil {
			fmt.Fprintln(os.Stderr, err)
			os.Exit(3)
		}
		p, ok := registry[rp.Property]
		if !ok {
			os.Exit(3)
		}
		os.Setenv("VERIF_SEED", strconv.FormatInt(rp.Seed, 10))
		c := fw.NewCtx(rp.Property, rp.Tier, p.level)
		c.Only = rp.CaseID
		p.run(c)
		if c.Evaluations() == 0 {
			fmt.Printf("INCONCLUSIVE property=%s replay case %q not found\n", rp.Property, rp.CaseID)
			os.Exit(2)
		}
		os.Exit(c.Finish())
	default:
		os.Exit(3)
	}
}
