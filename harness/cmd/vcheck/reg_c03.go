//go:build c03 || allprops

package main

import (
	"math/rand"

	"verifharness/c03"
	"verifharness/gen/samples"
)

func init() {
	register("C03", "exploration", c03.Run)
	for _, f := range []string{"docx", "odt", "xlsx", "pptx", "epub"} {
		f := f
		c03.ExtraDocs = append(c03.ExtraDocs, func(r *rand.Rand) ([]byte, string, string) {
			s := samples.Make(f, r)
			return s.Data, "." + f, s.Desc
		})
	}
}
