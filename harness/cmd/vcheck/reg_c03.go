//go:build c03 || allprops

package main

import "verifharness/c03"

func init() { register("C03", "exploration", c03.Run) }
