//go:build c16 || allprops

package main

import "verifharness/c16"

func init() { register("C16", "exploration", c16.Run) }
