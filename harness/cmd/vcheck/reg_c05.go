//go:build c05 || allprops

package main

import "verifharness/c05"

func init() { register("C05", "exploration", c05.Run) }
