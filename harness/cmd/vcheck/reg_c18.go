//go:build c18 || allprops

package main

import "verifharness/c18"

func init() { register("C18", "exploration", c18.Run) }
