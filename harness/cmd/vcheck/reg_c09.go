//go:build c09 || allprops

package main

import "verifharness/c09"

func init() { register("C09", "exploration", c09.Run) }
