//go:build c12 || allprops

package main

import "verifharness/c12"

func init() { register("C12", "exploration", c12.Run) }
