//go:build c10 || allprops

package main

import (
	"math/rand"

	"verifharness/c10"
	"verifharness/gen/samples"
)

func init() {
	register("C10", "exploration", c10.Run)
	for _, f := range []string{"docx", "xlsx", "epub", "html"} {
		f := f
		c10.ExtraGoodFiles = append(c10.ExtraGoodFiles, func(r *rand.Rand) ([]byte, string) { return samples.Make(f, r).Data, f })
	}
	// corrupt-but-plausible packages: a valid document whose main part is damaged
	for _, f := range []string{"docx", "odt", "xlsx", "pptx", "epub"} {
		f := f
		c10.ExtraBadFiles = append(c10.ExtraBadFiles, func(r *rand.Rand) ([]byte, string) {
			ms := samples.Unzip(samples.Make(f, r).Data)
			for i := range ms {
				switch ms[i].Name {
				case "word/document.xml", "content.xml", "xl/workbook.xml", "ppt/presentation.xml", "META-INF/container.xml":
					ms[i].Data = ms[i].Data[:len(ms[i].Data)/2] // truncated XML
				}
			}
			return samples.Rezip(ms), f
		})
	}
}
