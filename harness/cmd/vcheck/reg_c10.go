//go:build c10 || allprops

package main

import "verifharness/c10"

func init() { register("C10", "exploration", c10.Run) }
