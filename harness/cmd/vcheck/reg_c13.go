//go:build c13 || allprops

package main

import "verifharness/c13"

func init() { register("C13", "exploration", c13.Run) }
