//go:build c08 || allprops

package main

import "verifharness/c08"

func init() { register("C08", "exploration", c08.Run) }
