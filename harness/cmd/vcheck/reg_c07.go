//go:build c07 || allprops

package main

import "verifharness/c07"

func init() { register("C07", "exploration", c07.Run) }
