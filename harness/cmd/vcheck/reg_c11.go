//go:build c11 || allprops

package main

import "verifharness/c11"

func init() { register("C11", "exploration", c11.Run) }
