//go:build c06 || allprops

package main

import "verifharness/c06"

func init() { register("C06", "exploration", c06.Run) }
