//go:build c19 || allprops

package main

import "verifharness/c19"

func init() { register("C19", "exploration", c19.Run) }
