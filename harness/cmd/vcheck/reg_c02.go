//go:build c02 || allprops

package main

import "verifharness/c02"

func init() { register("C02", "fault_enumeration", c02.Run) }
