//go:build c02 || allprops

package main

import (
	"math/rand"

	"verifharness/c02"
	"verifharness/gen/samples"
)

func init() {
	register("C02", "fault_enumeration", c02.Run)
	for _, f := range []string{"docx", "odt", "xlsx", "pptx", "epub"} {
		f := f
		c02.ExtraBases = append(c02.ExtraBases, func(r *rand.Rand) ([]byte, string, string) {
			s := samples.Make(f, r)
			return s.Data, f, s.Desc
		})
	}
}
