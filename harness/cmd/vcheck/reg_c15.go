//go:build c15 || allprops

package main

import "verifharness/c15"

func init() { register("C15", "exploration", c15.Run) }
