//go:build c17 || allprops

package main

import "verifharness/c17"

func init() { register("C17", "exploration", c17.Run) }
