//go:build c01 || allprops

package main

import "verifharness/c01"

func init() { register("C01", "exploration", c01.Run) }
