//go:build c14 || allprops

package main

import "verifharness/c14"

func init() { register("C14", "exploration", c14.Run) }
