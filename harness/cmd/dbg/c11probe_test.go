package main

import (
	"fmt"
	"testing"

	"github.com/tsawler/tabula"
	"github.com/tsawler/tabula/layout"
)

func TestC11Probe(t *testing.T) {
	for _, mode := range []string{"plain", "excl"} {
		e := tabula.Open("/tmp/c11-744.pdf").Pages(2)
		if mode == "excl" {
			e = e.ExcludeFooters()
		}
		ro, err := e.ReadingOrder()
		fmt.Println(mode, err, "cols", ro.ColumnCount, "dir", ro.Direction, "frags", len(ro.Fragments), "sections", len(ro.Sections))
		for _, s := range ro.Sections {
			fmt.Printf("  section type=%v lines=%d\n", s.Type, len(s.Lines))
			for _, l := range s.Lines {
				fmt.Printf("    %q bbox=%+v\n", l.Text, l.BBox)
			}
		}
	}
	_ = layout.Header
}
