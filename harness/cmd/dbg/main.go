package main

import (
	"fmt"
	"os"

	"github.com/tsawler/tabula"
	"github.com/tsawler/tabula/model"

	"verifharness/gen/pdfw"
)

func main() {
	pg := pdfw.SimplePage{W: 612, H: 792}
	y := 720.0
	add := func(size float64, x float64, t string) {
		pg.Items = append(pg.Items, pdfw.SimpleItem{X: x, Y: y, Size: size, Text: t})
		y -= size + 6
	}
	add(20, 72, "Chapter qaaazaaaa")
	add(11, 72, "Intro paragraph qaaazaaab goes here and continues for a while.")
	add(11, 72, "Second line of intro qaaazaaac.")
	y -= 10
	add(11, 90, "- first item qaaazaaad")
	add(11, 90, "- second item qaaazaaae")
	add(11, 90, "- third item qaaazaaaf")
	y -= 10
	add(11, 72, "Closing paragraph qaaazaaag after the list.")
	add(11, 72, "1. numbered one qaaazaaah")
	add(11, 72, "2. numbered two qaaazaaai")
	add(11, 72, "Tail text right after qaaazaaaj.")
	os.WriteFile("/dev/shm/l.pdf", pdfw.SimplePDF([]pdfw.SimplePage{pg}), 0o644)
	doc, _, err := tabula.Open("/dev/shm/l.pdf").Document()
	fmt.Println(err)
	for _, e := range doc.Pages[0].Elements {
		switch v := e.(type) {
		case *model.Heading:
			fmt.Printf("HEADING %q\n", v.Text)
		case *model.Paragraph:
			fmt.Printf("PARA    %q\n", v.Text)
		case *model.List:
			fmt.Printf("LIST    ")
			for _, it := range v.Items {
				fmt.Printf("[%q %q] ", it.Bullet, it.Text)
			}
			fmt.Println()
		}
	}
	fmt.Println("layout paragraphs:")
	for _, p := range doc.Pages[0].Layout.Paragraphs {
		fmt.Printf("   %q\n", p.Text)
	}
}
