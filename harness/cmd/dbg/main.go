package main

import (
	"fmt"
	"os"

	"github.com/tsawler/tabula"
)

func main() {
	for pg := 1; pg <= 9; pg++ {
		fr, _, err := tabula.Open(os.Args[1]).Pages(pg).Fragments()
		if err != nil {
			break
		}
		t, _, _ := tabula.Open(os.Args[1]).Pages(pg).Text()
		fmt.Println("---- page", pg)
		for _, f := range fr {
			fmt.Printf("%7.2f %7.2f w=%6.2f sz=%4.1f %s %q\n", f.X, f.Y, f.Width, f.FontSize, f.FontName, f.Text)
		}
		fmt.Println(t)
	}
}
