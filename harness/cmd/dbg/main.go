package main

import (
	"fmt"
	"os"
	"strings"
	"unicode/utf8"

	"github.com/tsawler/tabula/model"
	"github.com/tsawler/tabula/rag"
)

func main() {
	b, _ := os.ReadFile("/dev/shm/c13text.txt")
	text := string(b)
	var blocks []rag.ContentBlock
	for i, t := range strings.Split(text, "\n\n") {
		blocks = append(blocks, rag.ContentBlock{Type: model.ElementTypeParagraph, Text: t, Page: 1, Index: i})
	}
	bs := rag.NewBoundaryDetector().DetectBoundaries(blocks)
	sc := rag.DefaultSizeConfig()
	sc.Target = rag.SizeLimit{Value: 25, Unit: rag.SizeUnitWords}
	sc.Min = rag.SizeLimit{Value: 5, Unit: rag.SizeUnitWords}
	sc.Max = rag.SizeLimit{Value: 50, Unit: rag.SizeUnitWords, Type: rag.LimitTypeHard}
	sc.TokensPerChar = 0.3
	sc.SplitAtSemanticBoundaries = true
	for k := 0; k < 2; k++ {
		bs2 := rag.NewBoundaryDetector().DetectBoundaries(blocks)
		_ = bs
		ps := rag.NewSizeCalculatorWithConfig(sc).SplitToSize(text, bs2)
		for i, p := range ps {
			if !utf8.ValidString(p) {
				fmt.Printf("fresh boundaries: piece %d invalid: ...%q\n", i, p[len(p)-12:])
			}
		}
		fmt.Println("pieces", len(ps))
	}
	for _, bd := range bs {
		if !utf8.RuneStart(text[min(bd.Position, len(text)-1)]) {
			fmt.Printf("boundary %v at %d is inside a character: %q\n", bd.Type, bd.Position, text[bd.Position-4:bd.Position+4])
		}
	}
}
