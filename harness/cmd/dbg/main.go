package main

import (
	"bytes"
	"compress/zlib"
	"fmt"
	"os"
	"runtime"
	"time"

	"github.com/tsawler/tabula"
)

func main() {
	n := 1 << 30
	var zb bytes.Buffer
	zw, _ := zlib.NewWriterLevel(&zb, 9)
	chunk := bytes.Repeat([]byte(" "), 1<<20)
	for i := 0; i < n>>20; i++ {
		zw.Write(chunk)
	}
	zw.Write([]byte("BT /F1 12 Tf 72 700 Td (hello) Tj ET"))
	zw.Close()
	objs := []string{
		"<< /Type /Catalog /Pages 2 0 R >>",
		"<< /Type /Pages /Kids [3 0 R] /Count 1 >>",
		"<< /Type /Page /Parent 2 0 R /MediaBox [0 0 612 792] /Resources << /Font << /F1 4 0 R >> >> /Contents 5 0 R >>",
		"<< /Type /Font /Subtype /Type1 /BaseFont /Helvetica >>",
	}
	var b bytes.Buffer
	b.WriteString("%PDF-1.4\n")
	var offs []int
	for i, o := range objs {
		offs = append(offs, b.Len())
		fmt.Fprintf(&b, "%d 0 obj\n%s\nendobj\n", i+1, o)
	}
	offs = append(offs, b.Len())
	fmt.Fprintf(&b, "5 0 obj\n<< /Filter /FlateDecode /Length %d >>\nstream\n", zb.Len())
	b.Write(zb.Bytes())
	b.WriteString("\nendstream\nendobj\n")
	x := b.Len()
	fmt.Fprintf(&b, "xref\n0 %d\n0000000000 65535 f \n", len(offs)+1)
	for _, o := range offs {
		fmt.Fprintf(&b, "%010d 00000 n \n", o)
	}
	fmt.Fprintf(&b, "trailer\n<< /Size %d /Root 1 0 R >>\nstartxref\n%d\n%%%%EOF\n", len(offs)+1, x)
	os.WriteFile("/dev/shm/bomb.pdf", b.Bytes(), 0o644)
	fmt.Println("file bytes", b.Len())
	t0 := time.Now()
	s, _, err := tabula.Open("/dev/shm/bomb.pdf").Text()
	var ms runtime.MemStats
	runtime.ReadMemStats(&ms)
	fmt.Println(len(s), err, time.Since(t0), "sys MB", ms.Sys>>20, "totalalloc MB", ms.TotalAlloc>>20)
}
