package main

import (
	"fmt"
	"os"
	"strings"

	"github.com/tsawler/tabula"
)

func main() {
	p, tok := os.Args[1], os.Args[2]
	n, _ := tabula.Open(p).PageCount()
	for i := 1; i <= n; i++ {
		fr, _, _ := tabula.Open(p).Pages(i).Fragments()
		hit := false
		for _, f := range fr {
			if strings.Contains(f.Text, tok[len(tok)-5:]) || strings.Contains(f.Text, tok) {
				hit = true
			}
		}
		if !hit {
			continue
		}
		fmt.Println("page", i)
		for _, f := range fr {
			fmt.Printf("   (%.1f,%.1f) w=%.1f size=%.1f font=%s %q\n", f.X, f.Y, f.Width, f.FontSize, f.FontName, f.Text)
		}
		t, _, _ := tabula.Open(p).Pages(i).Text()
		fmt.Printf("%q\n", t)
	}
}
