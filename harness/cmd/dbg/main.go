package main

import (
	"fmt"
	"math/rand"
	"os"

	"github.com/tsawler/tabula/odt"

	"verifharness/fw"
	"verifharness/gen/logical"
	"verifharness/gen/odf"
)

func main() {
	for seed := int64(1); seed <= 30; seed++ {
		r := rand.New(rand.NewSource(seed))
		d := logical.Gen(r, fw.NewTokens(r), logical.Profile{MinBlocks: 5, MaxBlocks: 9, Tables: true, MaxRows: 5, MaxCols: 4, Spans: true, MultiPara: true, EmptyCells: true, BlockBias: "tables", Styles: 1, Lists: true, ListMaxDepth: 2})
		p := "/dev/shm/dbgdoc.odt"
		os.WriteFile(p, odf.WriteODT(d, odf.Options{}), 0o644)
		a, _ := odt.Open(p)
		a.ModelTables()
		a.Tables()
		m1, _ := a.Markdown()
		b, _ := odt.Open(p)
		m2, _ := b.Markdown()
		nt := 0
		for _, bl := range d.Blocks {
			if bl.Kind == logical.BTable {
				nt++
			}
		}
		fmt.Println(seed, "tables", nt, "features", d.Features["table.vspan"], d.Features, "differs:", m1 != m2)
	}
}
