package main

import (
	"fmt"
	"os"

	"github.com/tsawler/tabula"
)

func main() {
	fr, _, err := tabula.Open(os.Args[1]).Fragments()
	fmt.Println(err)
	for _, f := range fr {
		fmt.Printf("%7.2f %7.2f w=%6.2f sz=%4.1f %s %q\n", f.X, f.Y, f.Width, f.FontSize, f.FontName, f.Text)
	}
	t, _, _ := tabula.Open(os.Args[1]).Text()
	fmt.Println(t)
}
