package main

import (
	"fmt"
	"math/rand"
	"os"

	"github.com/tsawler/tabula"

	"verifharness/gen/pdfw"
)

func main() {
	for i := 0; i < 8; i++ {
		rd := rand.New(rand.NewSource(int64(100 + i)))
		g := pdfw.GenDoc(rd, pdfw.DocOpts{MinPages: 1, MaxPages: 3, MaxLines: 6, MaxFonts: 3, TreeDepth: 1, Inherit: "leaf", NoEmptyPages: true,
			FontKinds: []string{"tt-winansi-tounicode", "t1-macroman", "t1-std14-tounicode"}, ExactKinds: true})
		lay := pdfw.BaselineLayout()
		b := pdfw.Build(rd.Int63(), lay, []*pdfw.Doc{g.Doc})
		victim := fmt.Sprintf("font:%d", g.Doc.Fonts[i%3].ID)
		num := b.NumOf[victim]
		data := append([]byte{}, b.Bytes...)
		want := fmt.Sprintf("%d 0 R", num)
		n := 0
		for _, f := range b.Fields {
			if f.Kind == "ref" && string(data[f.Start:f.End]) == want {
				for k := f.Start; k < f.End && data[k] >= '0' && data[k] <= '9'; k++ {
					data[k] = '9'
				}
				n++
			}
		}
		os.WriteFile("/dev/shm/dmg.pdf", data, 0o644)
		seen := map[string]int{}
		for k := 0; k < 40; k++ {
			t, _, _ := tabula.Open("/dev/shm/dmg.pdf").Text()
			seen[fmt.Sprintf("%x", fnvh(t))]++
		}
		fmt.Println(i, "refs", n, "fonts", len(g.Doc.Fonts), "distinct results", seen)
	}
}

func fnvh(s string) uint32 {
	h := uint32(2166136261)
	for i := 0; i < len(s); i++ {
		h ^= uint32(s[i])
		h *= 16777619
	}
	return h
}
