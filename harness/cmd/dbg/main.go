package main

import (
	"fmt"
	"math/rand"
	"os"

	"github.com/tsawler/tabula"

	"verifharness/fw"
	"verifharness/gen/pdfw"
)

func main() {
	r := rand.New(rand.NewSource(3))
	tk := fw.NewTokens(r)
	var pages []pdfw.SimplePage
	for p := 0; p < 3; p++ {
		pg := pdfw.SimplePage{W: 612, H: 792}
		pg.Items = append(pg.Items, pdfw.SimpleItem{X: 72, Y: 720, Size: 24, Text: "Chapter " + tk.Next(), Bold: true})
		y := 680.0
		for l := 0; l < 4; l++ {
			pg.Items = append(pg.Items, pdfw.SimpleItem{X: 72, Y: y, Size: 11, Text: tk.Next() + " plain body text of the page goes on here."})
			y -= 15
		}
		pages = append(pages, pg)
	}
	os.WriteFile("/dev/shm/h.pdf", pdfw.SimplePDF(pages), 0o644)
	show := func(name string, e *tabula.Extractor) {
		cc, _, err := e.Chunks()
		fmt.Println("==", name, err)
		for _, ch := range cc.Chunks {
			fmt.Printf("  p%d-%d title=%q path=%q types=%v lvl=%d text=%q\n", ch.Metadata.PageStart, ch.Metadata.PageEnd, ch.Metadata.SectionTitle, ch.Metadata.SectionPath, ch.Metadata.ElementTypes, ch.Metadata.HeadingLevel, ch.Text)
		}
	}
	show("whole", tabula.Open("/dev/shm/h.pdf"))
	show("Pages(2)", tabula.Open("/dev/shm/h.pdf").Pages(2))
	show("Pages(1)", tabula.Open("/dev/shm/h.pdf").Pages(1))
}
