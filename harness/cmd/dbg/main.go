package main

import (
	"fmt"
	"os"

	"github.com/tsawler/tabula/core"
	"github.com/tsawler/tabula/reader"
)

func main() {
	rd, err := reader.Open(os.Args[1])
	if err != nil {
		panic(err)
	}
	pg, _ := rd.GetPage(5)
	list, _ := pg.Contents()
	var _ core.Object
	for _, o := range list {
		o, _ = rd.Resolve(o)
		if s, ok := o.(*core.Stream); ok {
			d, err := s.Decode()
			fmt.Printf("---- stream (%v)\n%s\n", err, d)
		}
	}
}
