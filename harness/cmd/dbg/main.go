package main

import (
	"fmt"
	"os"

	"github.com/tsawler/tabula"
	"verifharness/gen/pdfw"
)

func main() {
	b := pdfw.SimplePDF([]pdfw.SimplePage{{W: 612, H: 792, Items: []pdfw.SimpleItem{{X: 72, Y: 700, Size: 12, Text: "Hello (world) one two three"}, {X: 72, Y: 680, Size: 12, Text: "second line of text here", Bold: true}}}, {W: 612, H: 792, Items: []pdfw.SimpleItem{{X: 72, Y: 700, Size: 12, Text: "page two"}}}})
	os.WriteFile("/tmp/simple.pdf", b, 0o644)
	t, _, err := tabula.Open("/tmp/simple.pdf").Text()
	fmt.Printf("%q %v\n", t, err)
}
