package main

import (
	"fmt"
	"os"

	"github.com/tsawler/tabula"
	"verifharness/fw"
	"verifharness/gen/pdfw"
)

func main() {
	i := 5
	fmt.Sscan(os.Args[1], &i)
	r := fw.RandFor(1, "C03", "doc", i)
	g := pdfw.GenDoc(r, pdfw.DocOpts{MinPages: 1, MaxPages: 5, MaxLines: 10, MaxFonts: 3, TreeDepth: 1 + r.Intn(3), Inherit: "mixed", NoEmptyPages: true})
	lay := pdfw.RandomLayout(r, 1)
	b := pdfw.Build(r.Int63(), lay, []*pdfw.Doc{g.Doc})
	os.WriteFile("/tmp/dbg.pdf", b.Bytes, 0o644)
	seen := map[string]int{}
	for k := 0; k < 30; k++ {
		s, _, err := tabula.Open("/tmp/dbg.pdf").ToMarkdown()
		if err != nil {
			s = "ERR " + err.Error()
		}
		if _, ok := seen[s]; !ok {
			os.WriteFile(fmt.Sprintf("/tmp/dbg.md.%d", len(seen)), []byte(s), 0o644)
		}
		seen[s]++
	}
	fmt.Println("distinct outputs:", len(seen))
}
