package main

import (
	"fmt"
	"os"
	"runtime/pprof"
	"strconv"
	"strings"
	"time"

	"github.com/tsawler/tabula"
)

func main() {
	n, _ := strconv.Atoi(os.Args[1])
	s := "<html><body><p>x</p>" + strings.Repeat("<"+os.Args[2]+">", n) + "hello" + "</body></html>"
	f, _ := os.Create("/tmp/cpu.prof")
	pprof.StartCPUProfile(f)
	t := time.Now()
	_, _, err := tabula.FromHTMLString(s).Text()
	fmt.Println("Text", n, time.Since(t), err)
	pprof.StopCPUProfile()
}
