package main

import (
	"fmt"
	"strings"

	"verifharness/fw"
	"verifharness/gen/samples"
)

func main() {
	s := samples.Make("docx", fw.RandFor(1, "C02", "base", "extra", 0, 0))
	for _, m := range samples.Unzip(s.Data) {
		fmt.Println(m.Name, len(m.Data))
		if strings.Contains(m.Name, "styles") {
			fmt.Println(string(m.Data)[:1500])
		}
		if m.Name == "word/document.xml" {
			fmt.Println(string(m.Data)[:900])
		}
	}
}
