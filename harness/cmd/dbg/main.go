package main

import (
	"fmt"

	"github.com/tsawler/tabula/xlsx"
)

func main() {
	for _, s := range []string{"", "1A", "A", "A0", "#REF!", ":C3", "A1:", "A1:#REF!", "#REF!:C3", " B2:C3", "B:C3", "2B:C3", "A1:B2:C3", "a1:b2", "A1", "$A$1:$B$2", "A-1:B2", "A1:B-2", "A1 :B2"} {
		c1, r1, c2, r2, err := xlsx.ParseRangeRef(s)
		c, r, e2 := xlsx.ParseCellRef(s)
		fmt.Printf("%-12q range=(%d,%d,%d,%d) err=%v | cell=(%d,%d) err=%v\n", s, c1, r1, c2, r2, err != nil, c, r, e2 != nil)
	}
}
