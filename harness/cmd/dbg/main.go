package main

import (
	"fmt"
	"math/rand"
	"os"

	"github.com/tsawler/tabula"

	"verifharness/gen/pdfw"
)

func main() {
	r := rand.New(rand.NewSource(11))
	g := pdfw.GenDoc(r, pdfw.DocOpts{MinPages: 1, MaxPages: 1, MaxLines: 14, MaxFonts: 2, TreeDepth: 1, Inherit: "leaf", NoEmptyPages: true, FontKinds: []string{"t1-winansi"}})
	for _, tm := range []bool{false, true} {
		lay := pdfw.BaselineLayout()
		lay.TmScale = tm
		b := pdfw.Build(7, lay, []*pdfw.Doc{g.Doc})
		os.WriteFile("/dev/shm/tm.pdf", b.Bytes, 0o644)
		fr, _, _ := tabula.Open("/dev/shm/tm.pdf").Fragments()
		for _, f := range fr {
			fmt.Printf("  (%.1f,%.1f) w=%.1f size=%.1f %q\n", f.X, f.Y, f.Width, f.FontSize, f.Text)
		}
		t, _, _ := tabula.Open("/dev/shm/tm.pdf").Text()
		fmt.Printf("%q\n\n", t)
	}
}
