package main

import (
	"bytes"
	"fmt"
	"os"
	"time"

	"github.com/tsawler/tabula"
	"verifharness/fw"
	"verifharness/gen/pdfw"
)

func main() {
	r := fw.RandFor(1, "C02", "base", "pdf", 0)
	kinds := []string{"tt-winansi-tounicode", "t1-winansi"}
	g := pdfw.GenDoc(r, pdfw.DocOpts{MinPages: 1, MaxPages: 3, MaxLines: 3, MaxFonts: 2, TreeDepth: 1, Inherit: "mixed", NoEmptyPages: true, FontKinds: kinds, FontWidths: true, ExactKinds: true})
	for k := range g.Doc.Fonts {
		if g.Doc.Fonts[k].Widths == nil {
			for c := 32; c <= 255; c++ {
				g.Doc.Fonts[k].Widths = append(g.Doc.Fonts[k].Widths, 500)
			}
		}
	}
	lay := pdfw.BaselineLayout()
	b := pdfw.Build(1, lay, []*pdfw.Doc{g.Doc})
	fmt.Println(bytes.Count(b.Bytes, []byte("/LastChar")), bytes.Count(b.Bytes, []byte("/TrueType")))
	x := bytes.Replace(b.Bytes, []byte("/LastChar 255"), []byte("/LastChar 9223372036854775807"), -1)
	os.WriteFile("/tmp/lc.pdf", x, 0o644)
	t := time.Now()
	done := make(chan bool)
	go func() { _, _, err := tabula.Open("/tmp/lc.pdf").Text(); fmt.Println("err", err); done <- true }()
	select {
	case <-done:
	case <-time.After(5 * time.Second):
		fmt.Println("HANG")
	}
	fmt.Println(time.Since(t))
}
