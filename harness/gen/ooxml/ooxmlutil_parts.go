// Helpers of the XLSX / PPTX writers (xlsx*.go, pptx*.go). Kept apart from the
// DOCX writer's zipxml.go so the two can be written independently; every
// identifier here carries the "Part"/"pt" stem.
//
// Nothing in this package imports tabula: the writers are an independent
// implementation of ECMA-376 Part 1 (SpreadsheetML §18, PresentationML §19,
// DrawingML §21.1) and Part 2 (OPC: [Content_Types].xml, _rels/*.rels).
package ooxml

import (
	"archive/zip"
	"bytes"
	"fmt"
	"math/rand"
	"strings"
)

// PartMember is one ZIP member. The writers return members in a canonical
// order; the caller is free to permute them before PartZip (OPC does not
// constrain member order).
type PartMember struct {
	Name  string
	Data  []byte
	Store bool // stored (no compression) instead of deflated
}

// PartZip serialises the members in exactly the given order.
func PartZip(members []PartMember) []byte {
	var buf bytes.Buffer
	zw := zip.NewWriter(&buf)
	for _, m := range members {
		method := zip.Deflate
		if m.Store {
			method = zip.Store
		}
		w, err := zw.CreateHeader(&zip.FileHeader{Name: m.Name, Method: method})
		if err != nil {
			panic(err)
		}
		if _, err := w.Write(m.Data); err != nil {
			panic(err)
		}
	}
	if err := zw.Close(); err != nil {
		panic(err)
	}
	return buf.Bytes()
}

// PartShuffle permutes members in place with r.
func PartShuffle(members []PartMember, r *rand.Rand) {
	r.Shuffle(len(members), func(i, j int) { members[i], members[j] = members[j], members[i] })
}

// PartNames lists the member names in order.
func PartNames(members []PartMember) []string {
	out := make([]string, len(members))
	for i, m := range members {
		out[i] = m.Name
	}
	return out
}

// ptEsc escapes character data / attribute values.
func ptEsc(s string) string {
	var sb strings.Builder
	for _, r := range s {
		switch r {
		case '&':
			sb.WriteString("&amp;")
		case '<':
			sb.WriteString("&lt;")
		case '>':
			sb.WriteString("&gt;")
		case '"':
			sb.WriteString("&quot;")
		default:
			sb.WriteRune(r)
		}
	}
	return sb.String()
}

const ptXMLDecl = `<?xml version="1.0" encoding="UTF-8" standalone="yes"?>` + "\n"

const (
	ptNsRelPkg = "http://schemas.openxmlformats.org/package/2006/relationships"
	ptNsRelDoc = "http://schemas.openxmlformats.org/officeDocument/2006/relationships"
	ptNsCT     = "http://schemas.openxmlformats.org/package/2006/content-types"
)

// ptRel is one relationship of a .rels part.
type ptRel struct {
	ID, Type, Target string
}

func ptRelsXML(rels []ptRel) []byte {
	var sb strings.Builder
	sb.WriteString(ptXMLDecl)
	fmt.Fprintf(&sb, `<Relationships xmlns="%s">`, ptNsRelPkg)
	for _, r := range rels {
		fmt.Fprintf(&sb, `<Relationship Id="%s" Type="%s" Target="%s"/>`, ptEsc(r.ID), ptEsc(r.Type), ptEsc(r.Target))
	}
	sb.WriteString(`</Relationships>`)
	return []byte(sb.String())
}

// ptOverride is one Override of [Content_Types].xml.
type ptOverride struct{ Part, Type string }

func ptContentTypes(defaults [][2]string, overrides []ptOverride) []byte {
	var sb strings.Builder
	sb.WriteString(ptXMLDecl)
	fmt.Fprintf(&sb, `<Types xmlns="%s">`, ptNsCT)
	for _, d := range defaults {
		fmt.Fprintf(&sb, `<Default Extension="%s" ContentType="%s"/>`, d[0], d[1])
	}
	for _, o := range overrides {
		fmt.Fprintf(&sb, `<Override PartName="/%s" ContentType="%s"/>`, ptEsc(o.Part), o.Type)
	}
	sb.WriteString(`</Types>`)
	return []byte(sb.String())
}

// ptRelTarget spells the relationship target of part `to` as seen from the
// part `from` (both package-absolute without leading slash): either relative
// to the directory of `from` (possibly with ../ segments) or package-absolute
// with a leading slash (OPC §9.3: both are valid).
func ptRelTarget(from, to string, absolute bool) string {
	if absolute {
		return "/" + to
	}
	fd := strings.Split(from, "/")
	fd = fd[:len(fd)-1]
	td := strings.Split(to, "/")
	i := 0
	for i < len(fd) && i < len(td)-1 && fd[i] == td[i] {
		i++
	}
	var segs []string
	for k := i; k < len(fd); k++ {
		segs = append(segs, "..")
	}
	segs = append(segs, td[i:]...)
	return strings.Join(segs, "/")
}

// ptRelsPath is the .rels part belonging to a part.
func ptRelsPath(part string) string {
	i := strings.LastIndex(part, "/")
	if i < 0 {
		return "_rels/" + part + ".rels"
	}
	return part[:i] + "/_rels/" + part[i+1:] + ".rels"
}

func ptCoreProps(title string) []byte {
	return []byte(ptXMLDecl + `<cp:coreProperties xmlns:cp="http://schemas.openxmlformats.org/package/2006/metadata/core-properties" xmlns:dc="http://purl.org/dc/elements/1.1/" xmlns:dcterms="http://purl.org/dc/terms/" xmlns:xsi="http://www.w3.org/2001/XMLSchema-instance"><dc:title>` + ptEsc(title) + `</dc:title><dc:creator>verif</dc:creator></cp:coreProperties>`)
}

func ptAppProps(app string) []byte {
	return []byte(ptXMLDecl + `<Properties xmlns="http://schemas.openxmlformats.org/officeDocument/2006/extended-properties"><Application>` + ptEsc(app) + `</Application></Properties>`)
}
