package ooxml

import (
	"fmt"
	"math/rand"
	"strings"

	"verifharness/gen/logical"
)

// dmlPara writes one logical paragraph as a DrawingML <a:p> (§21.1.2.2.6):
// text runs, <a:br/> for line breaks, the tab and symbol characters literally.
func dmlPara(p *logical.Para) string { return dmlParaPr(p, "") }

// dmlParaPr: pPr is the complete <a:pPr …> element ("" = none).
func dmlParaPr(p *logical.Para, pPr string) string {
	var sb strings.Builder
	sb.WriteString(`<a:p>` + pPr)
	for _, run := range p.Runs {
		for _, it := range run.Items {
			if it.Kind == logical.KBreak {
				sb.WriteString(`<a:br><a:rPr lang="en-US"/></a:br>`)
				continue
			}
			pr := `<a:rPr lang="en-US"/>`
			if run.Wrap != "" {
				pr = `<a:rPr lang="en-US" b="1"/>`
			}
			fmt.Fprintf(&sb, `<a:r>%s<a:t>%s</a:t></a:r>`, pr, ptEsc(logical.ItemString(it)))
		}
	}
	sb.WriteString(`<a:endParaRPr lang="en-US"/></a:p>`)
	return sb.String()
}

// dmlTable writes a logical table as a DrawingML table in a graphic frame
// (§21.1.3): every row has one <a:tc> per grid column; the top-left cell of a
// merged region carries gridSpan / rowSpan, the cells it covers are written as
// empty <a:tc hMerge="1"> / <a:tc vMerge="1"> (both inside a block).
func dmlTable(id int, t *logical.Table) string {
	var sb strings.Builder
	fmt.Fprintf(&sb, `<p:graphicFrame><p:nvGraphicFramePr><p:cNvPr id="%d" name="Table %d"/><p:cNvGraphicFramePr><a:graphicFrameLocks noGrp="1"/></p:cNvGraphicFramePr><p:nvPr/></p:nvGraphicFramePr><p:xfrm><a:off x="457200" y="1600200"/><a:ext cx="8229600" cy="741680"/></p:xfrm><a:graphic><a:graphicData uri="http://schemas.openxmlformats.org/drawingml/2006/table"><a:tbl><a:tblPr firstRow="1" bandRow="1"/><a:tblGrid>`, id, id)
	for c := 0; c < t.NCols; c++ {
		sb.WriteString(`<a:gridCol w="1000000"/>`)
	}
	sb.WriteString(`</a:tblGrid>`)
	// covered[r][c]: 1 = to the right of its origin in the origin's row (hMerge),
	// 2 = below the origin in the origin's column (vMerge), 3 = both
	covered := make([][]int, t.NRows)
	for r := range covered {
		covered[r] = make([]int, t.NCols)
	}
	for r := 0; r < t.NRows; r++ {
		for c := 0; c < t.NCols; c++ {
			cell := t.Cells[r][c]
			if cell == nil {
				continue
			}
			for dr := 0; dr < max(1, cell.RowSpan); dr++ {
				for dc := 0; dc < max(1, cell.ColSpan); dc++ {
					if dr == 0 && dc == 0 || r+dr >= t.NRows || c+dc >= t.NCols {
						continue
					}
					k := 0
					if dc > 0 {
						k |= 1
					}
					if dr > 0 {
						k |= 2
					}
					covered[r+dr][c+dc] = k
				}
			}
		}
	}
	for r := 0; r < t.NRows; r++ {
		sb.WriteString(`<a:tr h="370840">`)
		for c := 0; c < t.NCols; c++ {
			cell := t.Cells[r][c]
			if cell == nil {
				attr := ""
				if covered[r][c]&1 != 0 {
					attr += ` hMerge="1"`
				}
				if covered[r][c]&2 != 0 {
					attr += ` vMerge="1"`
				}
				fmt.Fprintf(&sb, `<a:tc%s><a:txBody><a:bodyPr/><a:lstStyle/><a:p><a:endParaRPr lang="en-US"/></a:p></a:txBody><a:tcPr/></a:tc>`, attr)
				continue
			}
			attr := ""
			if cell.RowSpan > 1 {
				attr += fmt.Sprintf(` rowSpan="%d"`, cell.RowSpan)
			}
			if cell.ColSpan > 1 {
				attr += fmt.Sprintf(` gridSpan="%d"`, cell.ColSpan)
			}
			fmt.Fprintf(&sb, `<a:tc%s><a:txBody><a:bodyPr/><a:lstStyle/>`, attr)
			if len(cell.Paras) == 0 {
				sb.WriteString(`<a:p><a:endParaRPr lang="en-US"/></a:p>`)
			}
			for pi := range cell.Paras {
				sb.WriteString(dmlPara(&cell.Paras[pi]))
			}
			sb.WriteString(`</a:txBody><a:tcPr/></a:tc>`)
		}
		sb.WriteString(`</a:tr>`)
	}
	sb.WriteString(`</a:tbl></a:graphicData></a:graphic></p:graphicFrame>`)
	return sb.String()
}

// WritePptx writes the paragraphs and tables of a logical document as a deck:
// blocks are spread over 1..3 slides in order; a paragraph becomes a text box,
// a table a graphic frame. Headings and lists are written as plain text boxes
// (PresentationML has neither).
func WritePptx(d *logical.Doc, r *rand.Rand) []byte {
	nSlides := 1 + r.Intn(3)
	if nSlides > len(d.Blocks) {
		nSlides = max(1, len(d.Blocks))
	}
	deck := &PDeck{DocProps: r.Intn(2) == 0, Title: d.Title}
	per := (len(d.Blocks) + nSlides - 1) / nSlides
	id := 10
	for s := 0; s < nSlides; s++ {
		sl := PSlide{Part: fmt.Sprintf("ppt/slides/slide%d.xml", s+1), RID: fmt.Sprintf("rId%d", 10+s), SlideID: 256 + s}
		var raw strings.Builder
		for bi := s * per; bi < len(d.Blocks) && bi < (s+1)*per; bi++ {
			b := &d.Blocks[bi]
			id++
			switch b.Kind {
			case logical.BTable:
				raw.WriteString(dmlTable(id, b.Table))
			case logical.BPara:
				fmt.Fprintf(&raw, `<p:sp><p:nvSpPr><p:cNvPr id="%d" name="TextBox %d"/><p:cNvSpPr txBox="1"/><p:nvPr/></p:nvSpPr><p:spPr><a:xfrm><a:off x="457200" y="%d"/><a:ext cx="8229600" cy="400000"/></a:xfrm></p:spPr><p:txBody><a:bodyPr/><a:lstStyle/>%s</p:txBody></p:sp>`, id, id, 300000+id*1000, dmlPara(b.Para))
			case logical.BHeading:
				fmt.Fprintf(&raw, `<p:sp><p:nvSpPr><p:cNvPr id="%d" name="TextBox %d"/><p:cNvSpPr txBox="1"/><p:nvPr/></p:nvSpPr><p:spPr/><p:txBody><a:bodyPr/><a:lstStyle/>%s</p:txBody></p:sp>`, id, id, dmlPara(&b.Heading.Para))
			case logical.BList:
				fmt.Fprintf(&raw, `<p:sp><p:nvSpPr><p:cNvPr id="%d" name="TextBox %d"/><p:cNvSpPr txBox="1"/><p:nvPr/></p:nvSpPr><p:spPr/><p:txBody><a:bodyPr/><a:lstStyle/>`, id, id)
				for ii := range b.List.Items {
					it := &b.List.Items[ii]
					bu := `<a:buChar char="&#8226;"/>`
					if it.Level >= 0 && it.Level < len(b.List.Ordered) && b.List.Ordered[it.Level] {
						bu = `<a:buAutoNum type="arabicPeriod"/>`
					}
					raw.WriteString(dmlParaPr(&it.Para, fmt.Sprintf(`<a:pPr marL="%d" indent="-285750" lvl="%d">%s</a:pPr>`, 285750*(it.Level+1), it.Level, bu)))
				}
				raw.WriteString(`</p:txBody></p:sp>`)
			}
		}
		sl.RawShapes = raw.String()
		deck.Slides = append(deck.Slides, sl)
	}
	return PartZip(deck.Members(r))
}
