package ooxml

import (
	"fmt"
	"strings"

	"verifharness/gen/logical"
)

// DocxOptions selects among equivalent spellings of the same logical
// document.
type DocxOptions struct {
	// Neutral lists inline containers ("link", "ins", "sdt", "smart") that
	// are written in their neutral form: the runs directly in the paragraph;
	// "blocksdt": a block-level content control is written as its bare paragraph.
	// The logical document (tokens, order, structure) is unchanged.
	Neutral map[string]bool
	Store   bool // ZIP Stored instead of Deflate
	Pretty  bool // ignorable white space between block-level elements
	// BodyStyle: paragraph style given to plain paragraphs when a styles
	// part exists: "" (none), "Normal", "BodyText".
	BodyStyle string
	// OutlineKeepsBodyStyle: a heading authored by a direct w:outlineLvl also
	// names the body paragraph style (the same style later plain paragraphs
	// use) — direct formatting on top of a non-heading style.
	OutlineKeepsBodyStyle bool
	// NumIDZero: every third plain body paragraph carries <w:numPr> with w:numId 0
	// (and some w:ilvl) - the spelling ECMA-376 17.9.18 defines for "numbering
	// removed from this paragraph": it is a plain paragraph
	NumIDZero bool
	// NSPrefix: namespace prefix the main document part binds to the
	// WordprocessingML namespace instead of the customary "w" ("" = "w";
	// any NCName is equally valid XML: Namespaces in XML 1.0 §3)
	NSPrefix string
}

const (
	nsW   = "http://schemas.openxmlformats.org/wordprocessingml/2006/main"
	nsR   = "http://schemas.openxmlformats.org/officeDocument/2006/relationships"
	relNS = "http://schemas.openxmlformats.org/package/2006/relationships"
)

type docxW struct {
	d      *logical.Doc
	o      DocxOptions
	links  int
	ids    int
	nl     string
	numIDs map[*logical.List]int
	lists  []*logical.List
}

// DocxHeadingStyleID returns the paragraph style id used for a heading
// authored in the given way ("" = no style, direct outline level).
func DocxHeadingStyleID(how string, level int) string {
	switch how {
	case "builtin":
		return fmt.Sprintf("Heading%d", level)
	case "custom":
		return fmt.Sprintf("ChapterHead%d", level)
	case "basedon":
		return fmt.Sprintf("Derived%d", level)
	case "localized":
		return fmt.Sprintf("berschrift%d", level)
	case "outline-style":
		return fmt.Sprintf("Outl%d", level)
	}
	return ""
}

// WriteDocx serialises the logical document as a DOCX package.
func WriteDocx(d *logical.Doc, o DocxOptions) []byte {
	w := &docxW{d: d, o: o, numIDs: map[*logical.List]int{}}
	if o.Pretty {
		w.nl = "\n  "
	}
	for i := range d.Blocks {
		if d.Blocks[i].Kind == logical.BList {
			l := d.Blocks[i].List
			w.lists = append(w.lists, l)
			w.numIDs[l] = len(w.lists)
		}
	}

	var body strings.Builder
	for i := range d.Blocks {
		b := &d.Blocks[i]
		switch b.Kind {
		case logical.BPara:
			style := ""
			if d.HasStyles {
				style = o.BodyStyle
			}
			ppr := pPr(style, 0, -1, -1)
			if o.NumIDZero && i%3 == 1 {
				ppr = pPr(style, -1, i%4, -1)
			}
			px := w.para(b.Para, ppr)
			if b.Wrap == "container" && !o.Neutral["blocksdt"] {
				// block-level content control (CT_SdtBlock) around the paragraph
				w.ids++
				px = fmt.Sprintf(`<w:sdt><w:sdtPr><w:id w:val="%d"/></w:sdtPr><w:sdtContent>%s</w:sdtContent></w:sdt>`, 7000+w.ids, px)
			}
			body.WriteString(px)
		case logical.BHeading:
			h := b.Heading
			sid := ""
			if d.HasStyles {
				sid = DocxHeadingStyleID(h.How, h.Level)
			}
			outl := -1
			if sid == "" {
				outl = h.Level - 1
				if o.OutlineKeepsBodyStyle && d.HasStyles {
					sid = o.BodyStyle
				}
			}
			body.WriteString(w.para(&h.Para, pPr(sid, 0, -1, outl)))
		case logical.BList:
			for ii := range b.List.Items {
				it := &b.List.Items[ii]
				body.WriteString(w.para(&it.Para, pPr("", w.numIDs[b.List], it.Level, -1)))
			}
		case logical.BTable:
			body.WriteString(w.table(b.Table))
		}
		body.WriteString(w.nl)
	}

	sect := "<w:sectPr>"
	var docRels strings.Builder
	if d.Header != nil {
		sect += `<w:headerReference w:type="default" r:id="rIdHdr1"/>`
		docRels.WriteString(`<Relationship Id="rIdHdr1" Type="http://schemas.openxmlformats.org/officeDocument/2006/relationships/header" Target="header1.xml"/>`)
	}
	if d.Footer != nil {
		sect += `<w:footerReference w:type="default" r:id="rIdFtr1"/>`
		docRels.WriteString(`<Relationship Id="rIdFtr1" Type="http://schemas.openxmlformats.org/officeDocument/2006/relationships/footer" Target="footer1.xml"/>`)
	}
	sect += `<w:pgSz w:w="12240" w:h="15840"/><w:pgMar w:top="1440" w:right="1440" w:bottom="1440" w:left="1440" w:header="720" w:footer="720" w:gutter="0"/></w:sectPr>`

	document := XMLDecl + `<w:document xmlns:w="` + nsW + `" xmlns:r="` + nsR + `">` + w.nl + `<w:body>` + w.nl +
		body.String() + sect + w.nl + `</w:body>` + w.nl + `</w:document>`

	if o.NSPrefix != "" && o.NSPrefix != "w" {
		document = renameNSPrefix(document, "w", o.NSPrefix)
	}

	if d.HasStyles {
		docRels.WriteString(`<Relationship Id="rIdStyles" Type="http://schemas.openxmlformats.org/officeDocument/2006/relationships/styles" Target="styles.xml"/>`)
	}
	if len(w.lists) > 0 {
		docRels.WriteString(`<Relationship Id="rIdNum" Type="http://schemas.openxmlformats.org/officeDocument/2006/relationships/numbering" Target="numbering.xml"/>`)
	}
	for i := 1; i <= w.links; i++ {
		fmt.Fprintf(&docRels, `<Relationship Id="rIdLink%d" Type="http://schemas.openxmlformats.org/officeDocument/2006/relationships/hyperlink" Target="http://example.invalid/%d" TargetMode="External"/>`, i, i)
	}

	ct := XMLDecl + `<Types xmlns="http://schemas.openxmlformats.org/package/2006/content-types">` +
		`<Default Extension="rels" ContentType="application/vnd.openxmlformats-package.relationships+xml"/>` +
		`<Default Extension="xml" ContentType="application/xml"/>` +
		`<Override PartName="/word/document.xml" ContentType="application/vnd.openxmlformats-officedocument.wordprocessingml.document.main+xml"/>`
	rootRels := `<Relationship Id="rId1" Type="http://schemas.openxmlformats.org/officeDocument/2006/relationships/officeDocument" Target="word/document.xml"/>`

	parts := []Part{}
	var tail []Part
	tail = append(tail, Part{"word/document.xml", []byte(document)})
	tail = append(tail, Part{"word/_rels/document.xml.rels", []byte(XMLDecl + `<Relationships xmlns="` + relNS + `">` + docRels.String() + `</Relationships>`)})
	if d.HasStyles {
		ct += `<Override PartName="/word/styles.xml" ContentType="application/vnd.openxmlformats-officedocument.wordprocessingml.styles+xml"/>`
		tail = append(tail, Part{"word/styles.xml", []byte(w.styles())})
	}
	if len(w.lists) > 0 {
		ct += `<Override PartName="/word/numbering.xml" ContentType="application/vnd.openxmlformats-officedocument.wordprocessingml.numbering+xml"/>`
		tail = append(tail, Part{"word/numbering.xml", []byte(w.numbering())})
	}
	if d.Header != nil {
		ct += `<Override PartName="/word/header1.xml" ContentType="application/vnd.openxmlformats-officedocument.wordprocessingml.header+xml"/>`
		tail = append(tail, Part{"word/header1.xml", []byte(w.hdrFtr("hdr", d.Header))})
	}
	if d.Footer != nil {
		ct += `<Override PartName="/word/footer1.xml" ContentType="application/vnd.openxmlformats-officedocument.wordprocessingml.footer+xml"/>`
		tail = append(tail, Part{"word/footer1.xml", []byte(w.hdrFtr("ftr", d.Footer))})
	}
	if d.Title != "" {
		ct += `<Override PartName="/docProps/core.xml" ContentType="application/vnd.openxmlformats-package.core-properties+xml"/>`
		rootRels += `<Relationship Id="rId2" Type="http://schemas.openxmlformats.org/package/2006/relationships/metadata/core-properties" Target="docProps/core.xml"/>`
		tail = append(tail, Part{"docProps/core.xml", []byte(XMLDecl +
			`<cp:coreProperties xmlns:cp="http://schemas.openxmlformats.org/package/2006/metadata/core-properties" xmlns:dc="http://purl.org/dc/elements/1.1/">` +
			`<dc:title>` + Esc(d.Title) + `</dc:title><dc:creator>Harness</dc:creator></cp:coreProperties>`)})
	}
	ct += `</Types>`
	parts = append(parts, Part{"[Content_Types].xml", []byte(ct)})
	parts = append(parts, Part{"_rels/.rels", []byte(XMLDecl + `<Relationships xmlns="` + relNS + `">` + rootRels + `</Relationships>`)})
	parts = append(parts, tail...)
	return Zip(parts, o.Store)
}

// pPr builds paragraph properties. numID 0 = no numbering; outl < 0 = none.
func pPr(style string, numID, ilvl, outl int) string {
	var sb strings.Builder
	if style != "" {
		fmt.Fprintf(&sb, `<w:pStyle w:val="%s"/>`, style)
	}
	if numID > 0 {
		fmt.Fprintf(&sb, `<w:numPr><w:ilvl w:val="%d"/><w:numId w:val="%d"/></w:numPr>`, ilvl, numID)
	} else if numID < 0 {
		fmt.Fprintf(&sb, `<w:numPr><w:ilvl w:val="%d"/><w:numId w:val="0"/></w:numPr>`, ilvl)
	}
	if outl >= 0 {
		fmt.Fprintf(&sb, `<w:outlineLvl w:val="%d"/>`, outl)
	}
	if sb.Len() == 0 {
		return ""
	}
	return "<w:pPr>" + sb.String() + "</w:pPr>"
}

func (w *docxW) para(p *logical.Para, ppr string) string {
	var sb strings.Builder
	sb.WriteString("<w:p>")
	sb.WriteString(ppr)
	for _, r := range p.Runs {
		sb.WriteString(w.run(r))
	}
	sb.WriteString("</w:p>")
	return sb.String()
}

var offToggles = []string{
	`<w:vanish w:val="off"/>`, `<w:vanish w:val="false"/>`, `<w:vanish w:val="0"/>`,
	`<w:b w:val="off"/><w:i w:val="0"/>`, `<w:webHidden w:val="off"/>`, `<w:strike w:val="false"/><w:caps w:val="off"/>`,
}

func (w *docxW) run(r logical.Run) string {
	var sb strings.Builder
	sb.WriteString("<w:r>")
	switch r.Wrap {
	case "span":
		sb.WriteString("<w:rPr><w:b/></w:rPr>")
	case "nest":
		sb.WriteString("<w:rPr><w:i/></w:rPr>")
	case "":
		// toggle properties switched *off* explicitly, in every ST_OnOff spelling
		// (ECMA-376 Part 1 17.17.4: true/false, 1/0, on/off): the run is ordinary,
		// visible text. Chosen by a hash of the run's text (the writer draws no numbers).
		h := uint32(2166136261)
		for _, it := range r.Items {
			for i := 0; i < len(it.Text); i++ {
				h = (h ^ uint32(it.Text[i])) * 16777619
			}
		}
		if k := int(h % 18); k < len(offToggles) {
			sb.WriteString("<w:rPr>" + offToggles[k] + "</w:rPr>")
		}
	}
	for _, it := range r.Items {
		switch it.Kind {
		case logical.KText:
			sb.WriteString(`<w:t xml:space="preserve">` + Esc(it.Text) + `</w:t>`)
		case logical.KTab:
			sb.WriteString(`<w:tab/>`)
		case logical.KBreak:
			sb.WriteString(`<w:br/>`)
		case logical.KSym:
			fmt.Fprintf(&sb, `<w:sym w:font="Segoe UI Symbol" w:char="%04X"/>`, it.Sym)
		case logical.KSpaces:
			sb.WriteString(`<w:t xml:space="preserve">` + strings.Repeat(" ", it.N) + `</w:t>`)
		}
	}
	sb.WriteString("</w:r>")
	run := sb.String()
	if w.o.Neutral[r.Wrap] {
		return run
	}
	switch r.Wrap {
	case "link":
		w.links++
		return fmt.Sprintf(`<w:hyperlink r:id="rIdLink%d" w:history="1">%s</w:hyperlink>`, w.links, run)
	case "ins":
		w.ids++
		return fmt.Sprintf(`<w:ins w:id="%d" w:author="Harness" w:date="2020-01-02T03:04:05Z">%s</w:ins>`, 100+w.ids, run)
	case "sdt":
		w.ids++
		return fmt.Sprintf(`<w:sdt><w:sdtPr><w:id w:val="%d"/></w:sdtPr><w:sdtContent>%s</w:sdtContent></w:sdt>`, 5000+w.ids, run)
	case "smart":
		return `<w:smartTag w:uri="urn:schemas-microsoft-com:office:smarttags" w:element="place">` + run + `</w:smartTag>`
	}
	return run
}

func (w *docxW) table(t *logical.Table) string {
	var sb strings.Builder
	const colW = 1800
	sb.WriteString(`<w:tbl><w:tblPr><w:tblW w:w="0" w:type="auto"/><w:tblBorders><w:top w:val="single" w:sz="4" w:space="0" w:color="auto"/></w:tblBorders></w:tblPr><w:tblGrid>`)
	for c := 0; c < t.NCols; c++ {
		fmt.Fprintf(&sb, `<w:gridCol w:w="%d"/>`, colW)
	}
	sb.WriteString(`</w:tblGrid>`)
	// owner[r][c] = top-left position of the region covering (r,c)
	type pos struct{ r, c int }
	owner := make([][]pos, t.NRows)
	for r := range owner {
		owner[r] = make([]pos, t.NCols)
	}
	for r := 0; r < t.NRows; r++ {
		for c := 0; c < t.NCols; c++ {
			if cell := t.Cells[r][c]; cell != nil {
				for rr := 0; rr < cell.RowSpan; rr++ {
					for cc := 0; cc < cell.ColSpan; cc++ {
						owner[r+rr][c+cc] = pos{r, c}
					}
				}
			}
		}
	}
	for r := 0; r < t.NRows; r++ {
		sb.WriteString(w.nl + `<w:tr>`)
		if r < t.HeaderRows {
			sb.WriteString(`<w:trPr><w:tblHeader/></w:trPr>`)
		}
		for c := 0; c < t.NCols; c++ {
			cell := t.Cells[r][c]
			if cell == nil {
				o := owner[r][c]
				if o.c != c {
					continue // inside a horizontal span: no w:tc
				}
				// vertical continuation: one w:tc with the same gridSpan and <w:vMerge/>
				top := t.Cells[o.r][o.c]
				fmt.Fprintf(&sb, `<w:tc><w:tcPr><w:tcW w:w="%d" w:type="dxa"/>`, colW*top.ColSpan)
				if top.ColSpan > 1 {
					fmt.Fprintf(&sb, `<w:gridSpan w:val="%d"/>`, top.ColSpan)
				}
				sb.WriteString(`<w:vMerge/></w:tcPr><w:p/></w:tc>`)
				continue
			}
			fmt.Fprintf(&sb, `<w:tc><w:tcPr><w:tcW w:w="%d" w:type="dxa"/>`, colW*cell.ColSpan)
			if cell.ColSpan > 1 {
				fmt.Fprintf(&sb, `<w:gridSpan w:val="%d"/>`, cell.ColSpan)
			}
			if cell.RowSpan > 1 {
				sb.WriteString(`<w:vMerge w:val="restart"/>`)
			}
			sb.WriteString(`</w:tcPr>`)
			for pi := range cell.Paras {
				sb.WriteString(w.para(&cell.Paras[pi], ""))
			}
			sb.WriteString(`</w:tc>`)
		}
		sb.WriteString(`</w:tr>`)
	}
	sb.WriteString(w.nl + `</w:tbl>`)
	return sb.String()
}

func (w *docxW) styles() string {
	var sb strings.Builder
	sb.WriteString(XMLDecl + `<w:styles xmlns:w="` + nsW + `">` +
		`<w:docDefaults><w:rPrDefault><w:rPr><w:rFonts w:ascii="Calibri" w:hAnsi="Calibri"/><w:sz w:val="22"/></w:rPr></w:rPrDefault></w:docDefaults>` +
		`<w:style w:type="paragraph" w:default="1" w:styleId="Normal"><w:name w:val="Normal"/></w:style>` +
		`<w:style w:type="paragraph" w:styleId="BodyText"><w:name w:val="Body Text"/><w:basedOn w:val="Normal"/><w:pPr><w:spacing w:after="120"/></w:pPr></w:style>`)
	sizes := []int{32, 26, 24, 22, 22, 22, 22, 21, 21}
	for n := 1; n <= 9; n++ {
		fmt.Fprintf(&sb, `<w:style w:type="paragraph" w:styleId="Heading%d"><w:name w:val="heading %d"/><w:basedOn w:val="Normal"/><w:next w:val="Normal"/><w:pPr><w:keepNext/><w:outlineLvl w:val="%d"/></w:pPr><w:rPr><w:b/><w:sz w:val="%d"/></w:rPr></w:style>`, n, n, n-1, sizes[n-1])
		// custom style with its own outline level
		fmt.Fprintf(&sb, `<w:style w:type="paragraph" w:customStyle="1" w:styleId="ChapterHead%d"><w:name w:val="Chapter Head %d"/><w:basedOn w:val="Normal"/><w:pPr><w:outlineLvl w:val="%d"/></w:pPr><w:rPr><w:i/></w:rPr></w:style>`, n, n, n-1)
		// custom style inheriting the outline level from the built-in heading
		fmt.Fprintf(&sb, `<w:style w:type="paragraph" w:customStyle="1" w:styleId="Derived%d"><w:name w:val="Derived %d"/><w:basedOn w:val="Heading%d"/><w:rPr><w:color w:val="1F3864"/></w:rPr></w:style>`, n, n, n)
		// localised built-in (Word keeps the invariant name "heading N", the id is localised)
		fmt.Fprintf(&sb, `<w:style w:type="paragraph" w:styleId="berschrift%d"><w:name w:val="heading %d"/><w:basedOn w:val="Normal"/><w:pPr><w:outlineLvl w:val="%d"/></w:pPr></w:style>`, n, n, n-1)
		// plain style that only sets the outline level
		fmt.Fprintf(&sb, `<w:style w:type="paragraph" w:customStyle="1" w:styleId="Outl%d"><w:name w:val="Outl %c"/><w:basedOn w:val="BodyText"/><w:pPr><w:outlineLvl w:val="%d"/></w:pPr></w:style>`, n, 'A'+n-1, n-1)
	}
	sb.WriteString(`</w:styles>`)
	return sb.String()
}

func (w *docxW) numbering() string {
	var sb strings.Builder
	sb.WriteString(XMLDecl + `<w:numbering xmlns:w="` + nsW + `">`)
	for i, l := range w.lists {
		fmt.Fprintf(&sb, `<w:abstractNum w:abstractNumId="%d"><w:multiLevelType w:val="hybridMultilevel"/>`, i)
		for lvl := 0; lvl < 9; lvl++ {
			if l.Ordered[lvl] {
				fmt.Fprintf(&sb, `<w:lvl w:ilvl="%d"><w:start w:val="1"/><w:numFmt w:val="decimal"/><w:lvlText w:val="%%%d."/><w:lvlJc w:val="left"/></w:lvl>`, lvl, lvl+1)
			} else {
				fmt.Fprintf(&sb, `<w:lvl w:ilvl="%d"><w:start w:val="1"/><w:numFmt w:val="bullet"/><w:lvlText w:val="&#8226;"/><w:lvlJc w:val="left"/></w:lvl>`, lvl)
			}
		}
		sb.WriteString(`</w:abstractNum>`)
	}
	for i := range w.lists {
		fmt.Fprintf(&sb, `<w:num w:numId="%d"><w:abstractNumId w:val="%d"/></w:num>`, i+1, i)
	}
	sb.WriteString(`</w:numbering>`)
	return sb.String()
}

func (w *docxW) hdrFtr(tag string, ps []logical.Para) string {
	var sb strings.Builder
	sb.WriteString(XMLDecl + `<w:` + tag + ` xmlns:w="` + nsW + `" xmlns:r="` + nsR + `">`)
	saved := w.o.Neutral
	for i := range ps {
		sb.WriteString(w.para(&ps[i], ""))
	}
	w.o.Neutral = saved
	sb.WriteString(`</w:` + tag + `>`)
	return sb.String()
}

// DocxFeatures lists the format-level trigger features of the document as a
// DOCX file: "docx.inline=<wrap>" for every inline container used.
func DocxFeatures(d *logical.Doc) map[string]bool {
	m := map[string]bool{}
	for _, u := range d.Units() {
		for _, r := range u.Para.Runs {
			switch r.Wrap {
			case "link", "ins", "sdt", "smart":
				m["docx.inline="+r.Wrap] = true
			}
		}
	}
	for i := range d.Blocks {
		if d.Blocks[i].Wrap == "container" {
			m["docx.block=sdt"] = true
		}
	}
	return m
}

// renameNSPrefix rewrites every use of the namespace prefix from inside the tags
// of an XML text (element names, attribute names, the xmlns declaration); text
// content is left alone.
func renameNSPrefix(xml, from, to string) string {
	var sb strings.Builder
	for i := 0; i < len(xml); {
		lt := strings.IndexByte(xml[i:], '<')
		if lt < 0 {
			sb.WriteString(xml[i:])
			break
		}
		sb.WriteString(xml[i : i+lt])
		gt := strings.IndexByte(xml[i+lt:], '>')
		if gt < 0 {
			sb.WriteString(xml[i+lt:])
			break
		}
		tag := xml[i+lt : i+lt+gt+1]
		if !strings.HasPrefix(tag, "<?") && !strings.HasPrefix(tag, "<!") {
			tag = strings.Replace(tag, "<"+from+":", "<"+to+":", 1)
			tag = strings.Replace(tag, "</"+from+":", "</"+to+":", 1)
			tag = strings.ReplaceAll(tag, " "+from+":", " "+to+":")
			tag = strings.ReplaceAll(tag, " xmlns:"+from+"=", " xmlns:"+to+"=")
		}
		sb.WriteString(tag)
		i += lt + gt + 1
	}
	return sb.String()
}
