// Package ooxml holds independent writers for Office Open XML packages
// (ECMA-376): archive/zip + hand-written XML, no code shared with tabula.
// DOCX lives in docx*.go; shared ZIP / XML helpers live here.
package ooxml

import (
	"archive/zip"
	"bytes"
	"strings"
	"time"
)

// Part is one package part.
type Part struct {
	Name string
	Data []byte
}

// fixed timestamp: output bytes depend on the input only
var zipTime = time.Date(2020, 1, 2, 3, 4, 6, 0, time.UTC)

// Zip writes the parts, in the given order, into a ZIP archive. store
// selects the Stored method for every part instead of Deflate.
func Zip(parts []Part, store bool) []byte {
	var buf bytes.Buffer
	zw := zip.NewWriter(&buf)
	for _, p := range parts {
		h := &zip.FileHeader{Name: p.Name, Method: zip.Deflate, Modified: zipTime}
		if store {
			h.Method = zip.Store
		}
		w, err := zw.CreateHeader(h)
		if err != nil {
			panic(err)
		}
		if _, err := w.Write(p.Data); err != nil {
			panic(err)
		}
	}
	if err := zw.Close(); err != nil {
		panic(err)
	}
	return buf.Bytes()
}

// Esc escapes character data / attribute values for XML 1.0.
func Esc(s string) string {
	var sb strings.Builder
	for _, r := range s {
		switch r {
		case '&':
			sb.WriteString("&amp;")
		case '<':
			sb.WriteString("&lt;")
		case '>':
			sb.WriteString("&gt;")
		case '"':
			sb.WriteString("&quot;")
		case '\'':
			sb.WriteString("&apos;")
		case '\t':
			sb.WriteString("&#9;")
		case '\n':
			sb.WriteString("&#10;")
		case '\r':
			sb.WriteString("&#13;")
		default:
			sb.WriteRune(r)
		}
	}
	return sb.String()
}

// XMLDecl is the standard XML declaration.
const XMLDecl = `<?xml version="1.0" encoding="UTF-8" standalone="yes"?>` + "\n"
