package ooxml

// Independent XLSX (SpreadsheetML, ECMA-376 Part 1 §18) writer.
//
// The caller describes a workbook as a list of sheets in *declared* order
// (the order of <sheet> elements in xl/workbook.xml). Independently of that
// order it chooses, per sheet, the part name inside the package, the
// relationship id and the spelling of the relationship target; and for the
// package the ZIP member order (permute the result of Members before PartZip).
// Cells carry their own address; the writer emits rows and cells in exactly the
// order given, so out-of-order rows/cells are expressible.

import (
	"fmt"
	"math/rand"
	"sort"
	"strings"
)

// XKind is the storage form of a cell.
type XKind int

const (
	XShared     XKind = iota // t="s", <si><t>text</t></si>
	XSharedRich              // t="s", <si><r><rPr/><t>..</t></r>…</si>
	XInline                  // t="inlineStr", <is><t>text</t></is>
	XFormulaStr              // t="str", <f>…</f><v>text</v> (cached string result)
	XBool                    // t="b", <v>0|1</v>
	XError                   // t="e", <v>#DIV/0!</v>
	XNumber                  // t="n" or no t, <v>literal</v>
	XFormulaNum              // <f>…</f><v>literal</v>
	XBlank                   // <c r=".." s="1"/>: styled cell without value
	XInlineRich              // t="inlineStr", <is><r><rPr/><t>..</t></r>…</is> (CT_Rst allows runs here too)
)

var xKindNames = [...]string{"shared", "shared-rich", "inline", "formula-str", "bool", "error", "number", "formula-num", "blank", "inline-rich"}

func (k XKind) String() string { return xKindNames[k] }

// XCell is one cell. Col and Row are 0-based.
type XCell struct {
	Col, Row  int
	Kind      XKind
	V         string   // strings: the text; XBool: "1"/"0"; XError: the error literal; numbers: the literal
	Runs      []string // XSharedRich: the runs (their concatenation is the text)
	Phonetic  string   // optional phonetic run (<rPh>) of a shared item; never part of the displayed value
	Formula   string   // for the formula kinds
	ExplicitN bool     // XNumber: write t="n" instead of omitting t
	Style     int      // s= attribute (0 or 1; both General)
	// XBlank only: 0 = styled empty cell; 1 = <c r=".." t="s"/> (typed cell without a value,
	// CT_Cell's v is optional); 2 = <c r=".." t="s"><v></v></c> (empty value)
	TypedBlank int
}

// Display is the value a spreadsheet application shows for the cell under the
// General number format (ECMA-376 §18.3.1.4, §18.18.11 ST_CellType).
func (c XCell) Display() string {
	switch c.Kind {
	case XSharedRich, XInlineRich:
		return strings.Join(c.Runs, "")
	case XBool:
		if c.V == "1" {
			return "TRUE"
		}
		return "FALSE"
	case XBlank:
		return ""
	}
	return c.V
}

// XMerge is a merged range (0-based, inclusive).
type XMerge struct{ C0, R0, C1, R1 int }

// XSheet is one worksheet part.
type XSheet struct {
	Name      string
	Part      string // package path of the part, e.g. "xl/worksheets/sheet3.xml"
	RID       string // relationship id in xl/_rels/workbook.xml.rels
	SheetID   int
	AbsTarget bool // relationship target spelled "/xl/…" instead of relative to xl/
	Cells     []XCell
	// RowOrder lists the row numbers (0-based) in the order their <row>
	// elements are written; rows without cells give empty <row/> elements.
	// nil = rows in order of first appearance in Cells.
	RowOrder []int
	Merges   []XMerge
	// RawMerges are extra <mergeCell ref=…/> values written verbatim after
	// Merges (damaged references such as "#REF!:C3" left by a deleted row).
	RawMerges []string
	Dimension bool // write <dimension ref=…/>
	Spans     bool // write spans= on rows
	Missing   bool // declared in the workbook, but the part itself is not written (unreadable part)
	// OmitRowR leaves out the optional r attribute of <row> (§18.3.1.73; the
	// row index is then one more than the previous row's). Only legal when
	// RowOrder is 0,1,2,… without gaps; the cells keep their references.
	OmitRowR bool
	// OmitCellR leaves out the optional r attribute of <c> wherever the cell is
	// in the column right after the cell written before it (or in column A at the
	// start of a row).
	OmitCellR bool
}

// XWorkbook is a whole package.
type XWorkbook struct {
	Sheets    []XSheet // declared order
	Decoys    []XSheet // parts present in the package but not listed in <sheets>
	DecoyRels bool     // decoys get a (dangling, unreferenced) worksheet relationship
	SSTExtras []string // unused shared-string items (must never be displayed)
	Styles    bool
	DocProps  bool
	Title     string
	// Strict writes the ISO/IEC 29500 Strict flavour: the spreadsheetml and
	// relationship namespaces (and with them every relationship Type URI) are
	// the purl.oclc.org ones and the workbook declares conformance="strict".
	Strict bool
}

// XColName converts a 0-based column index to letters (bijective base 26).
// Written independently of tabula's IndexToColumn: table of digits, most
// significant first.
func XColName(c int) string {
	n := c + 1
	var rev []byte
	for n > 0 {
		rem := n % 26
		if rem == 0 {
			rem = 26
			n -= 26
		}
		rev = append(rev, byte('A'+rem-1))
		n /= 26
	}
	for i, j := 0, len(rev)-1; i < j; i, j = i+1, j-1 {
		rev[i], rev[j] = rev[j], rev[i]
	}
	return string(rev)
}

// XRef is the A1 reference of a 0-based (col,row).
func XRef(c, r int) string { return fmt.Sprintf("%s%d", XColName(c), r+1) }

const (
	xNsMain    = "http://schemas.openxmlformats.org/spreadsheetml/2006/main"
	xTypeSheet = ptNsRelDoc + "/worksheet"
	xCTSheet   = "application/vnd.openxmlformats-officedocument.spreadsheetml.worksheet+xml"
)

// Members renders the package. r drives only cosmetic choices (shared-string
// table order, relationship order); the result is in a canonical member order
// which the caller may permute.
func (w *XWorkbook) Members(r *rand.Rand) []PartMember {
	// shared string table: every shared cell gets its own item, order shuffled,
	// extras interleaved
	type sstItem struct {
		cell  *XCell
		extra string
	}
	var items []sstItem
	for si := range w.Sheets {
		for ci := range w.Sheets[si].Cells {
			c := &w.Sheets[si].Cells[ci]
			if c.Kind == XShared || c.Kind == XSharedRich {
				items = append(items, sstItem{cell: c})
			}
		}
	}
	for di := range w.Decoys {
		for ci := range w.Decoys[di].Cells {
			c := &w.Decoys[di].Cells[ci]
			if c.Kind == XShared || c.Kind == XSharedRich {
				items = append(items, sstItem{cell: c})
			}
		}
	}
	for _, e := range w.SSTExtras {
		items = append(items, sstItem{extra: e})
	}
	r.Shuffle(len(items), func(i, j int) { items[i], items[j] = items[j], items[i] })
	sstIndex := map[*XCell]int{}
	var sst strings.Builder
	if len(items) > 0 {
		sst.WriteString(ptXMLDecl)
		fmt.Fprintf(&sst, `<sst xmlns="%s" count="%d" uniqueCount="%d">`, xNsMain, len(items), len(items))
		for i, it := range items {
			if it.cell == nil {
				fmt.Fprintf(&sst, `<si><t>%s</t></si>`, ptEsc(it.extra))
				continue
			}
			sstIndex[it.cell] = i
			c := it.cell
			sst.WriteString(`<si>`)
			if c.Kind == XShared {
				sst.WriteString(xT(c.V))
			} else {
				for k, run := range c.Runs {
					sst.WriteString(`<r>`)
					switch k % 3 {
					case 0:
						sst.WriteString(`<rPr><b/><sz val="11"/><rFont val="Calibri"/></rPr>`)
					case 1:
						sst.WriteString(`<rPr><i/><sz val="11"/><color rgb="FFFF0000"/><rFont val="Calibri"/></rPr>`)
					}
					sst.WriteString(xT(run))
					sst.WriteString(`</r>`)
				}
			}
			if c.Phonetic != "" {
				fmt.Fprintf(&sst, `<rPh sb="0" eb="1"><t>%s</t></rPh><phoneticPr fontId="1"/>`, ptEsc(c.Phonetic))
			}
			sst.WriteString(`</si>`)
		}
		sst.WriteString(`</sst>`)
	}

	var members []PartMember
	overrides := []ptOverride{{"xl/workbook.xml", "application/vnd.openxmlformats-officedocument.spreadsheetml.sheet.main+xml"}}

	// workbook.xml
	var wb strings.Builder
	wb.WriteString(ptXMLDecl)
	fmt.Fprintf(&wb, `<workbook xmlns="%s" xmlns:r="%s"><bookViews><workbookView xWindow="0" yWindow="0" windowWidth="16000" windowHeight="9000"/></bookViews><sheets>`, xNsMain, ptNsRelDoc)
	for _, s := range w.Sheets {
		fmt.Fprintf(&wb, `<sheet name="%s" sheetId="%d" r:id="%s"/>`, ptEsc(s.Name), s.SheetID, ptEsc(s.RID))
	}
	wb.WriteString(`</sheets></workbook>`)

	// workbook rels
	var rels []ptRel
	for _, s := range w.Sheets {
		rels = append(rels, ptRel{s.RID, xTypeSheet, ptRelTarget("xl/workbook.xml", s.Part, s.AbsTarget)})
	}
	if w.DecoyRels {
		for _, s := range w.Decoys {
			rels = append(rels, ptRel{s.RID, xTypeSheet, ptRelTarget("xl/workbook.xml", s.Part, s.AbsTarget)})
		}
	}
	if len(items) > 0 {
		rels = append(rels, ptRel{"rIdSst", ptNsRelDoc + "/sharedStrings", "sharedStrings.xml"})
	}
	if w.Styles {
		rels = append(rels, ptRel{"rIdSty", ptNsRelDoc + "/styles", "styles.xml"})
	}
	r.Shuffle(len(rels), func(i, j int) { rels[i], rels[j] = rels[j], rels[i] })

	rootRels := []ptRel{{"rId1", ptNsRelDoc + "/officeDocument", "xl/workbook.xml"}}
	if w.DocProps {
		rootRels = append(rootRels,
			ptRel{"rId2", "http://schemas.openxmlformats.org/package/2006/relationships/metadata/core-properties", "docProps/core.xml"},
			ptRel{"rId3", ptNsRelDoc + "/extended-properties", "docProps/app.xml"})
	}

	var sheetMembers []PartMember
	for _, s := range w.Sheets {
		if s.Missing {
			continue
		}
		sheetMembers = append(sheetMembers, PartMember{Name: s.Part, Data: xSheetXML(&s, sstIndex)})
		overrides = append(overrides, ptOverride{s.Part, xCTSheet})
	}
	for _, s := range w.Decoys {
		sheetMembers = append(sheetMembers, PartMember{Name: s.Part, Data: xSheetXML(&s, sstIndex)})
		overrides = append(overrides, ptOverride{s.Part, xCTSheet})
	}
	if len(items) > 0 {
		overrides = append(overrides, ptOverride{"xl/sharedStrings.xml", "application/vnd.openxmlformats-officedocument.spreadsheetml.sharedStrings+xml"})
	}
	if w.Styles {
		overrides = append(overrides, ptOverride{"xl/styles.xml", "application/vnd.openxmlformats-officedocument.spreadsheetml.styles+xml"})
	}
	if w.DocProps {
		overrides = append(overrides,
			ptOverride{"docProps/core.xml", "application/vnd.openxmlformats-package.core-properties+xml"},
			ptOverride{"docProps/app.xml", "application/vnd.openxmlformats-officedocument.extended-properties+xml"})
	}

	members = append(members,
		PartMember{Name: "[Content_Types].xml", Data: ptContentTypes([][2]string{{"rels", "application/vnd.openxmlformats-package.relationships+xml"}, {"xml", "application/xml"}}, overrides)},
		PartMember{Name: "_rels/.rels", Data: ptRelsXML(rootRels)},
		PartMember{Name: "xl/workbook.xml", Data: []byte(wb.String())},
		PartMember{Name: "xl/_rels/workbook.xml.rels", Data: ptRelsXML(rels)},
	)
	members = append(members, sheetMembers...)
	if len(items) > 0 {
		members = append(members, PartMember{Name: "xl/sharedStrings.xml", Data: []byte(sst.String())})
	}
	if w.Styles {
		members = append(members, PartMember{Name: "xl/styles.xml", Data: []byte(xStyles)})
	}
	if w.DocProps {
		members = append(members,
			PartMember{Name: "docProps/core.xml", Data: ptCoreProps(w.Title)},
			PartMember{Name: "docProps/app.xml", Data: ptAppProps("verif-xlsx")})
	}
	if w.Strict {
		for i := range members {
			n := members[i].Name
			if !strings.HasSuffix(n, ".xml") && !strings.HasSuffix(n, ".rels") {
				continue
			}
			x := string(members[i].Data)
			x = strings.ReplaceAll(x, "http://schemas.openxmlformats.org/spreadsheetml/2006/main", "http://purl.oclc.org/ooxml/spreadsheetml/main")
			x = strings.ReplaceAll(x, "http://schemas.openxmlformats.org/officeDocument/2006/relationships", "http://purl.oclc.org/ooxml/officeDocument/relationships")
			if n == "xl/workbook.xml" {
				x = strings.Replace(x, "<workbook ", `<workbook conformance="strict" `, 1)
			}
			members[i].Data = []byte(x)
		}
	}
	return members
}

// xT writes a <t> element, with xml:space="preserve" when the text has outer
// white space (§18.4.12).
func xT(s string) string {
	if s != strings.TrimSpace(s) {
		return `<t xml:space="preserve">` + ptEsc(s) + `</t>`
	}
	return `<t>` + ptEsc(s) + `</t>`
}

const xStyles = ptXMLDecl + `<styleSheet xmlns="` + xNsMain + `"><fonts count="1"><font><sz val="11"/><name val="Calibri"/></font></fonts>` +
	`<fills count="2"><fill><patternFill patternType="none"/></fill><fill><patternFill patternType="gray125"/></fill></fills>` +
	`<borders count="1"><border><left/><right/><top/><bottom/><diagonal/></border></borders>` +
	`<cellStyleXfs count="1"><xf numFmtId="0" fontId="0" fillId="0" borderId="0"/></cellStyleXfs>` +
	`<cellXfs count="2"><xf numFmtId="0" fontId="0" fillId="0" borderId="0" xfId="0"/><xf numFmtId="0" fontId="0" fillId="0" borderId="0" xfId="0" applyAlignment="1"><alignment horizontal="center"/></xf></cellXfs>` +
	`</styleSheet>`

func xSheetXML(s *XSheet, sstIndex map[*XCell]int) []byte {
	byRow := map[int][]*XCell{}
	var firstSeen []int
	minC, maxC, minR, maxR := 1<<30, -1, 1<<30, -1
	for i := range s.Cells {
		c := &s.Cells[i]
		if _, ok := byRow[c.Row]; !ok {
			firstSeen = append(firstSeen, c.Row)
		}
		byRow[c.Row] = append(byRow[c.Row], c)
		if c.Col < minC {
			minC = c.Col
		}
		if c.Col > maxC {
			maxC = c.Col
		}
		if c.Row < minR {
			minR = c.Row
		}
		if c.Row > maxR {
			maxR = c.Row
		}
	}
	order := s.RowOrder
	if order == nil {
		order = firstSeen
	} else {
		// rows with cells that the caller forgot are appended (never lose data)
		have := map[int]bool{}
		for _, r := range order {
			have[r] = true
		}
		var rest []int
		for _, r := range firstSeen {
			if !have[r] {
				rest = append(rest, r)
			}
		}
		sort.Ints(rest)
		order = append(append([]int{}, order...), rest...)
	}
	var sb strings.Builder
	sb.WriteString(ptXMLDecl)
	fmt.Fprintf(&sb, `<worksheet xmlns="%s" xmlns:r="%s">`, xNsMain, ptNsRelDoc)
	if s.Dimension && maxC >= 0 {
		fmt.Fprintf(&sb, `<dimension ref="%s:%s"/>`, XRef(minC, minR), XRef(maxC, maxR))
	}
	sb.WriteString(`<sheetViews><sheetView workbookViewId="0"/></sheetViews><sheetFormatPr defaultRowHeight="15"/>`)
	sb.WriteString(`<sheetData>`)
	for _, rowNo := range order {
		cells := byRow[rowNo]
		if s.OmitRowR {
			sb.WriteString(`<row`)
		} else {
			fmt.Fprintf(&sb, `<row r="%d"`, rowNo+1)
		}
		if s.Spans && len(cells) > 0 {
			lo, hi := cells[0].Col, cells[0].Col
			for _, c := range cells {
				if c.Col < lo {
					lo = c.Col
				}
				if c.Col > hi {
					hi = c.Col
				}
			}
			fmt.Fprintf(&sb, ` spans="%d:%d"`, lo+1, hi+1)
		}
		if len(cells) == 0 {
			sb.WriteString(` ht="20" customHeight="1"/>`)
			continue
		}
		sb.WriteString(`>`)
		prevCol := -1
		for _, c := range cells {
			// r is optional (§18.3.1.4): a cell without it follows the cell written before it
			ref := ` r="` + XRef(c.Col, c.Row) + `"`
			if s.OmitCellR && c.Col == prevCol+1 {
				ref = ""
			}
			prevCol = c.Col
			st := ""
			if c.Style != 0 {
				st = fmt.Sprintf(` s="%d"`, c.Style)
			}
			switch c.Kind {
			case XShared, XSharedRich:
				fmt.Fprintf(&sb, `<c%s%s t="s"><v>%d</v></c>`, ref, st, sstIndex[c])
			case XInline:
				fmt.Fprintf(&sb, `<c%s%s t="inlineStr"><is>%s</is></c>`, ref, st, xT(c.V))
			case XInlineRich:
				fmt.Fprintf(&sb, `<c%s%s t="inlineStr"><is>`, ref, st)
				for k, run := range c.Runs {
					if k%2 == 0 {
						sb.WriteString(`<r><rPr><b/></rPr>` + xT(run) + `</r>`)
					} else {
						sb.WriteString(`<r>` + xT(run) + `</r>`)
					}
				}
				sb.WriteString(`</is></c>`)
			case XFormulaStr:
				fmt.Fprintf(&sb, `<c%s%s t="str"><f>%s</f><v>%s</v></c>`, ref, st, ptEsc(c.Formula), ptEsc(c.V))
			case XBool:
				if c.Formula != "" {
					fmt.Fprintf(&sb, `<c%s%s t="b"><f>%s</f><v>%s</v></c>`, ref, st, ptEsc(c.Formula), c.V)
				} else {
					fmt.Fprintf(&sb, `<c%s%s t="b"><v>%s</v></c>`, ref, st, c.V)
				}
			case XError:
				if c.Formula != "" {
					fmt.Fprintf(&sb, `<c%s%s t="e"><f>%s</f><v>%s</v></c>`, ref, st, ptEsc(c.Formula), ptEsc(c.V))
				} else {
					fmt.Fprintf(&sb, `<c%s%s t="e"><v>%s</v></c>`, ref, st, ptEsc(c.V))
				}
			case XNumber:
				t := ""
				if c.ExplicitN {
					t = ` t="n"`
				}
				fmt.Fprintf(&sb, `<c%s%s%s><v>%s</v></c>`, ref, st, t, c.V)
			case XFormulaNum:
				fmt.Fprintf(&sb, `<c%s%s><f>%s</f><v>%s</v></c>`, ref, st, ptEsc(c.Formula), c.V)
			case XBlank:
				switch c.TypedBlank {
				case 1:
					fmt.Fprintf(&sb, `<c%s t="s"/>`, ref)
				case 2:
					fmt.Fprintf(&sb, `<c%s t="s"><v></v></c>`, ref)
				default:
					fmt.Fprintf(&sb, `<c%s s="1"/>`, ref)
				}
			}
		}
		sb.WriteString(`</row>`)
	}
	sb.WriteString(`</sheetData>`)
	if len(s.Merges)+len(s.RawMerges) > 0 {
		fmt.Fprintf(&sb, `<mergeCells count="%d">`, len(s.Merges)+len(s.RawMerges))
		for _, m := range s.Merges {
			fmt.Fprintf(&sb, `<mergeCell ref="%s:%s"/>`, XRef(m.C0, m.R0), XRef(m.C1, m.R1))
		}
		for _, m := range s.RawMerges {
			fmt.Fprintf(&sb, `<mergeCell ref="%s"/>`, Esc(m))
		}
		sb.WriteString(`</mergeCells>`)
	}
	sb.WriteString(`<pageMargins left="0.7" right="0.7" top="0.75" bottom="0.75" header="0.3" footer="0.3"/></worksheet>`)
	return []byte(sb.String())
}
