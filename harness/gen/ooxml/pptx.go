package ooxml

// Independent PPTX (PresentationML, ECMA-376 Part 1 §19 + DrawingML §21.1)
// writer. The declared slide order is the order of <p:sldId> elements in
// ppt/presentation.xml (§19.2.1.34 sldIdLst), each resolved through its r:id
// in ppt/_rels/presentation.xml.rels. Part names, relationship ids and ZIP
// member order are all chosen by the caller independently of that order.

import (
	"fmt"
	"math/rand"
	"strings"
)

// PSlide is one slide part.
type PSlide struct {
	Part      string // package path, e.g. "ppt/slides/slide7.xml"
	RID       string // relationship id in presentation.xml.rels
	SlideID   int    // <p:sldId id=…> (>= 256, unique)
	AbsTarget bool   // relationship target spelled "/ppt/slides/…"
	Title     string // title placeholder ("" = none)
	Paras     []string
	Bullets   []string   // a second body shape with bulleted paragraphs
	Grouped   []string   // paragraphs of a shape inside a group shape
	Table     [][]string // a graphicFrame table
	Notes     string     // speaker notes ("" = no notes part)
	NotesPart string     // package path of the notes part
	Missing   bool       // declared, but the part is not written
	// RawShapes is written verbatim into the shape tree after the other shapes
	// (complete <p:sp> / <p:graphicFrame> elements)
	RawShapes string
}

// PDeck is a whole package.
type PDeck struct {
	Slides     []PSlide // declared order
	Decoys     []PSlide // slide parts present but not listed in sldIdLst
	DecoyRels  bool     // decoys keep a slide relationship in presentation.xml.rels (only the sldIdLst entry is gone)
	MasterText string   // text on the slide master / layout (never slide content)
	DocProps   bool
	Title      string
}

const (
	pNsP       = "http://schemas.openxmlformats.org/presentationml/2006/main"
	pNsA       = "http://schemas.openxmlformats.org/drawingml/2006/main"
	pTypeSlide = ptNsRelDoc + "/slide"
	pCTSlide   = "application/vnd.openxmlformats-officedocument.presentationml.slide+xml"
)

func pPara(text string, bullet int) string {
	// bullet: 0 none, 1 char bullet, 2 auto-number
	var sb strings.Builder
	sb.WriteString(`<a:p>`)
	switch bullet {
	case 1:
		sb.WriteString(`<a:pPr lvl="0"><a:buChar char="&#8226;"/></a:pPr>`)
	case 2:
		sb.WriteString(`<a:pPr lvl="1"><a:buAutoNum type="arabicPeriod"/></a:pPr>`)
	}
	// split into two runs at a space, if any, to exercise run concatenation
	if i := strings.Index(text, " "); i > 0 {
		fmt.Fprintf(&sb, `<a:r><a:rPr lang="en-US" b="1"/><a:t>%s</a:t></a:r><a:r><a:rPr lang="en-US"/><a:t>%s</a:t></a:r>`, ptEsc(text[:i]), ptEsc(text[i:]))
	} else {
		fmt.Fprintf(&sb, `<a:r><a:rPr lang="en-US"/><a:t>%s</a:t></a:r>`, ptEsc(text))
	}
	sb.WriteString(`<a:endParaRPr lang="en-US"/></a:p>`)
	return sb.String()
}

func pShape(id int, name, phType string, paras []string, bullet int) string {
	var sb strings.Builder
	fmt.Fprintf(&sb, `<p:sp><p:nvSpPr><p:cNvPr id="%d" name="%s"/><p:cNvSpPr/><p:nvPr>`, id, ptEsc(name))
	if phType != "" {
		fmt.Fprintf(&sb, `<p:ph type="%s"/>`, phType)
	}
	fmt.Fprintf(&sb, `</p:nvPr></p:nvSpPr><p:spPr><a:xfrm><a:off x="457200" y="%d"/><a:ext cx="8229600" cy="1143000"/></a:xfrm></p:spPr><p:txBody><a:bodyPr/><a:lstStyle/>`, 274638+id*1200000)
	for i, t := range paras {
		b := 0
		if bullet != 0 {
			b = 1 + (i+bullet)%2
		}
		sb.WriteString(pPara(t, b))
	}
	sb.WriteString(`</p:txBody></p:sp>`)
	return sb.String()
}

func pSlideXML(s *PSlide) []byte {
	var sb strings.Builder
	sb.WriteString(ptXMLDecl)
	fmt.Fprintf(&sb, `<p:sld xmlns:a="%s" xmlns:r="%s" xmlns:p="%s"><p:cSld><p:spTree><p:nvGrpSpPr><p:cNvPr id="1" name=""/><p:cNvGrpSpPr/><p:nvPr/></p:nvGrpSpPr><p:grpSpPr/>`, pNsA, ptNsRelDoc, pNsP)
	id := 2
	if s.Title != "" {
		sb.WriteString(pShape(id, "Title", "title", []string{s.Title}, 0))
		id++
	}
	if len(s.Paras) > 0 {
		sb.WriteString(pShape(id, "Text", "", s.Paras, 0))
		id++
	}
	if len(s.Bullets) > 0 {
		sb.WriteString(pShape(id, "Content", "body", s.Bullets, 1))
		id++
	}
	if len(s.Table) > 0 {
		fmt.Fprintf(&sb, `<p:graphicFrame><p:nvGraphicFramePr><p:cNvPr id="%d" name="Table"/><p:cNvGraphicFramePr/><p:nvPr/></p:nvGraphicFramePr><p:xfrm><a:off x="0" y="0"/><a:ext cx="100" cy="100"/></p:xfrm><a:graphic><a:graphicData uri="http://schemas.openxmlformats.org/drawingml/2006/table"><a:tbl><a:tblPr/><a:tblGrid>`, id)
		id++
		for range s.Table[0] {
			sb.WriteString(`<a:gridCol w="1000000"/>`)
		}
		sb.WriteString(`</a:tblGrid>`)
		for _, row := range s.Table {
			sb.WriteString(`<a:tr h="370840">`)
			for _, cell := range row {
				fmt.Fprintf(&sb, `<a:tc><a:txBody><a:bodyPr/><a:lstStyle/>%s</a:txBody><a:tcPr/></a:tc>`, pPara(cell, 0))
			}
			sb.WriteString(`</a:tr>`)
		}
		sb.WriteString(`</a:tbl></a:graphicData></a:graphic></p:graphicFrame>`)
	}
	if len(s.Grouped) > 0 {
		fmt.Fprintf(&sb, `<p:grpSp><p:nvGrpSpPr><p:cNvPr id="%d" name="Group"/><p:cNvGrpSpPr/><p:nvPr/></p:nvGrpSpPr><p:grpSpPr/>`, id)
		id++
		sb.WriteString(pShape(id, "Inner", "", s.Grouped, 0))
		sb.WriteString(`</p:grpSp>`)
	}
	sb.WriteString(s.RawShapes)
	sb.WriteString(`</p:spTree></p:cSld><p:clrMapOvr><a:masterClrMapping/></p:clrMapOvr></p:sld>`)
	return []byte(sb.String())
}

func pNotesXML(text string) []byte {
	var sb strings.Builder
	sb.WriteString(ptXMLDecl)
	fmt.Fprintf(&sb, `<p:notes xmlns:a="%s" xmlns:r="%s" xmlns:p="%s"><p:cSld><p:spTree><p:nvGrpSpPr><p:cNvPr id="1" name=""/><p:cNvGrpSpPr/><p:nvPr/></p:nvGrpSpPr><p:grpSpPr/>`, pNsA, ptNsRelDoc, pNsP)
	sb.WriteString(`<p:sp><p:nvSpPr><p:cNvPr id="2" name="Slide Image"/><p:cNvSpPr/><p:nvPr><p:ph type="sldImg"/></p:nvPr></p:nvSpPr><p:spPr/></p:sp>`)
	fmt.Fprintf(&sb, `<p:sp><p:nvSpPr><p:cNvPr id="3" name="Notes"/><p:cNvSpPr/><p:nvPr><p:ph type="body" idx="1"/></p:nvPr></p:nvSpPr><p:spPr/><p:txBody><a:bodyPr/><a:lstStyle/>%s</p:txBody></p:sp>`, pPara(text, 0))
	sb.WriteString(`</p:spTree></p:cSld></p:notes>`)
	return []byte(sb.String())
}

// Members renders the package in a canonical member order (the caller may
// permute it). r drives the order of relationships only.
func (d *PDeck) Members(r *rand.Rand) []PartMember {
	const masterPart = "ppt/slideMasters/slideMaster1.xml"
	const layoutPart = "ppt/slideLayouts/slideLayout1.xml"
	const themePart = "ppt/theme/theme1.xml"

	overrides := []ptOverride{
		{"ppt/presentation.xml", "application/vnd.openxmlformats-officedocument.presentationml.presentation.main+xml"},
		{masterPart, "application/vnd.openxmlformats-officedocument.presentationml.slideMaster+xml"},
		{layoutPart, "application/vnd.openxmlformats-officedocument.presentationml.slideLayout+xml"},
		{themePart, "application/vnd.openxmlformats-officedocument.theme+xml"},
	}

	var pres strings.Builder
	pres.WriteString(ptXMLDecl)
	fmt.Fprintf(&pres, `<p:presentation xmlns:a="%s" xmlns:r="%s" xmlns:p="%s"><p:sldMasterIdLst><p:sldMasterId id="2147483648" r:id="rIdMaster"/></p:sldMasterIdLst><p:sldIdLst>`, pNsA, ptNsRelDoc, pNsP)
	for _, s := range d.Slides {
		fmt.Fprintf(&pres, `<p:sldId id="%d" r:id="%s"/>`, s.SlideID, ptEsc(s.RID))
	}
	pres.WriteString(`</p:sldIdLst><p:sldSz cx="9144000" cy="6858000"/><p:notesSz cx="6858000" cy="9144000"/></p:presentation>`)

	rels := []ptRel{
		{"rIdMaster", ptNsRelDoc + "/slideMaster", "slideMasters/slideMaster1.xml"},
		{"rIdTheme", ptNsRelDoc + "/theme", "theme/theme1.xml"},
	}
	for _, s := range d.Slides {
		rels = append(rels, ptRel{s.RID, pTypeSlide, ptRelTarget("ppt/presentation.xml", s.Part, s.AbsTarget)})
	}
	if d.DecoyRels {
		for _, s := range d.Decoys {
			rels = append(rels, ptRel{s.RID, pTypeSlide, ptRelTarget("ppt/presentation.xml", s.Part, s.AbsTarget)})
		}
	}
	r.Shuffle(len(rels), func(i, j int) { rels[i], rels[j] = rels[j], rels[i] })

	rootRels := []ptRel{{"rId1", ptNsRelDoc + "/officeDocument", "ppt/presentation.xml"}}
	if d.DocProps {
		rootRels = append(rootRels,
			ptRel{"rId2", "http://schemas.openxmlformats.org/package/2006/relationships/metadata/core-properties", "docProps/core.xml"},
			ptRel{"rId3", ptNsRelDoc + "/extended-properties", "docProps/app.xml"})
	}

	var slideMembers []PartMember
	emit := func(s *PSlide) {
		slideMembers = append(slideMembers, PartMember{Name: s.Part, Data: pSlideXML(s)})
		overrides = append(overrides, ptOverride{s.Part, pCTSlide})
		srels := []ptRel{{"rId1", ptNsRelDoc + "/slideLayout", ptRelTarget(s.Part, layoutPart, false)}}
		if s.Notes != "" {
			srels = append(srels, ptRel{"rId2", ptNsRelDoc + "/notesSlide", ptRelTarget(s.Part, s.NotesPart, false)})
			slideMembers = append(slideMembers,
				PartMember{Name: s.NotesPart, Data: pNotesXML(s.Notes)},
				PartMember{Name: ptRelsPath(s.NotesPart), Data: ptRelsXML([]ptRel{{"rId1", pTypeSlide, ptRelTarget(s.NotesPart, s.Part, false)}})})
			overrides = append(overrides, ptOverride{s.NotesPart, "application/vnd.openxmlformats-officedocument.presentationml.notesSlide+xml"})
		}
		slideMembers = append(slideMembers, PartMember{Name: ptRelsPath(s.Part), Data: ptRelsXML(srels)})
	}
	for i := range d.Slides {
		if !d.Slides[i].Missing {
			emit(&d.Slides[i])
		}
	}
	for i := range d.Decoys {
		emit(&d.Decoys[i])
	}

	masterText := d.MasterText
	if masterText == "" {
		masterText = "Master title style"
	}
	master := ptXMLDecl + fmt.Sprintf(`<p:sldMaster xmlns:a="%s" xmlns:r="%s" xmlns:p="%s"><p:cSld><p:spTree><p:nvGrpSpPr><p:cNvPr id="1" name=""/><p:cNvGrpSpPr/><p:nvPr/></p:nvGrpSpPr><p:grpSpPr/>%s</p:spTree></p:cSld><p:clrMap bg1="lt1" tx1="dk1" bg2="lt2" tx2="dk2" accent1="accent1" accent2="accent2" accent3="accent3" accent4="accent4" accent5="accent5" accent6="accent6" hlink="hlink" folHlink="folHlink"/><p:sldLayoutIdLst><p:sldLayoutId id="2147483649" r:id="rId1"/></p:sldLayoutIdLst></p:sldMaster>`,
		pNsA, ptNsRelDoc, pNsP, pShape(2, "Title Placeholder", "title", []string{masterText}, 0))
	layout := ptXMLDecl + fmt.Sprintf(`<p:sldLayout xmlns:a="%s" xmlns:r="%s" xmlns:p="%s" type="title"><p:cSld name="Title Slide"><p:spTree><p:nvGrpSpPr><p:cNvPr id="1" name=""/><p:cNvGrpSpPr/><p:nvPr/></p:nvGrpSpPr><p:grpSpPr/>%s</p:spTree></p:cSld><p:clrMapOvr><a:masterClrMapping/></p:clrMapOvr></p:sldLayout>`,
		pNsA, ptNsRelDoc, pNsP, pShape(2, "Title", "ctrTitle", []string{masterText}, 0))
	theme := ptXMLDecl + fmt.Sprintf(`<a:theme xmlns:a="%s" name="verif"><a:themeElements><a:clrScheme name="c"><a:dk1><a:sysClr val="windowText" lastClr="000000"/></a:dk1><a:lt1><a:sysClr val="window" lastClr="FFFFFF"/></a:lt1><a:dk2><a:srgbClr val="1F497D"/></a:dk2><a:lt2><a:srgbClr val="EEECE1"/></a:lt2><a:accent1><a:srgbClr val="4F81BD"/></a:accent1><a:accent2><a:srgbClr val="C0504D"/></a:accent2><a:accent3><a:srgbClr val="9BBB59"/></a:accent3><a:accent4><a:srgbClr val="8064A2"/></a:accent4><a:accent5><a:srgbClr val="4BACC6"/></a:accent5><a:accent6><a:srgbClr val="F79646"/></a:accent6><a:hlink><a:srgbClr val="0000FF"/></a:hlink><a:folHlink><a:srgbClr val="800080"/></a:folHlink></a:clrScheme><a:fontScheme name="f"><a:majorFont><a:latin typeface="Calibri"/><a:ea typeface=""/><a:cs typeface=""/></a:majorFont><a:minorFont><a:latin typeface="Calibri"/><a:ea typeface=""/><a:cs typeface=""/></a:minorFont></a:fontScheme><a:fmtScheme name="m"><a:fillStyleLst><a:solidFill><a:schemeClr val="phClr"/></a:solidFill><a:solidFill><a:schemeClr val="phClr"/></a:solidFill><a:solidFill><a:schemeClr val="phClr"/></a:solidFill></a:fillStyleLst><a:lnStyleLst><a:ln><a:solidFill><a:schemeClr val="phClr"/></a:solidFill></a:ln><a:ln><a:solidFill><a:schemeClr val="phClr"/></a:solidFill></a:ln><a:ln><a:solidFill><a:schemeClr val="phClr"/></a:solidFill></a:ln></a:lnStyleLst><a:effectStyleLst><a:effectStyle><a:effectLst/></a:effectStyle><a:effectStyle><a:effectLst/></a:effectStyle><a:effectStyle><a:effectLst/></a:effectStyle></a:effectStyleLst><a:bgFillStyleLst><a:solidFill><a:schemeClr val="phClr"/></a:solidFill><a:solidFill><a:schemeClr val="phClr"/></a:solidFill><a:solidFill><a:schemeClr val="phClr"/></a:solidFill></a:bgFillStyleLst></a:fmtScheme></a:themeElements></a:theme>`, pNsA)

	if d.DocProps {
		overrides = append(overrides,
			ptOverride{"docProps/core.xml", "application/vnd.openxmlformats-package.core-properties+xml"},
			ptOverride{"docProps/app.xml", "application/vnd.openxmlformats-officedocument.extended-properties+xml"})
	}

	members := []PartMember{
		{Name: "[Content_Types].xml", Data: ptContentTypes([][2]string{{"rels", "application/vnd.openxmlformats-package.relationships+xml"}, {"xml", "application/xml"}}, overrides)},
		{Name: "_rels/.rels", Data: ptRelsXML(rootRels)},
		{Name: "ppt/presentation.xml", Data: []byte(pres.String())},
		{Name: "ppt/_rels/presentation.xml.rels", Data: ptRelsXML(rels)},
		{Name: masterPart, Data: []byte(master)},
		{Name: ptRelsPath(masterPart), Data: ptRelsXML([]ptRel{{"rId1", ptNsRelDoc + "/slideLayout", "../slideLayouts/slideLayout1.xml"}, {"rId2", ptNsRelDoc + "/theme", "../theme/theme1.xml"}})},
		{Name: layoutPart, Data: []byte(layout)},
		{Name: ptRelsPath(layoutPart), Data: ptRelsXML([]ptRel{{"rId1", ptNsRelDoc + "/slideMaster", "../slideMasters/slideMaster1.xml"}})},
		{Name: themePart, Data: []byte(theme)},
	}
	members = append(members, slideMembers...)
	if d.DocProps {
		members = append(members,
			PartMember{Name: "docProps/core.xml", Data: ptCoreProps(d.Title)},
			PartMember{Name: "docProps/app.xml", Data: ptAppProps("verif-pptx")})
	}
	return members
}
