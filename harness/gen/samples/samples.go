// Package samples produces one valid, tame document of each supported format
// from the independent writers, for checks that need "a valid document of
// format F" (C20 detection matrix, C02 base documents, C03 determinism, C10
// failing opens). Every text unit carries unique tokens.
package samples

import (
	"archive/zip"
	"bytes"
	"fmt"
	"io"
	"math/rand"

	"verifharness/fw"
	"verifharness/gen/epubw"
	"verifharness/gen/htmlw"
	"verifharness/gen/logical"
	"verifharness/gen/odf"
	"verifharness/gen/ooxml"
	"verifharness/gen/pdfw"
)

// Formats lists the seven formats (= canonical extensions).
var Formats = []string{"pdf", "docx", "odt", "xlsx", "pptx", "epub", "html"}

// Sample is a generated document.
type Sample struct {
	Format string
	Data   []byte
	Tokens []string // tokens that a text extraction must contain (possibly among others)
	Desc   string
}

func tameProfile() logical.Profile {
	return logical.Profile{MinBlocks: 4, MaxBlocks: 9, HeadingHows: []string{"builtin"}, MaxHeadingLevel: 3, Lists: true, ListMaxDepth: 1,
		Tables: true, MaxRows: 3, MaxCols: 3, Styles: 1}
}

// genWithStructure draws tame documents until one has a heading, a list and a table
// (so that styles, numbering and table code are all exercised by the sample).
func genWithStructure(r *rand.Rand, tk *fw.Tokens) *logical.Doc {
	var d *logical.Doc
	for try := 0; try < 20; try++ {
		d = logical.Gen(r, tk, tameProfile())
		h, l, t := false, false, false
		for _, b := range d.Blocks {
			switch b.Kind {
			case logical.BHeading:
				h = true
			case logical.BList:
				l = true
			case logical.BTable:
				t = true
			}
		}
		if h && l && t {
			break
		}
	}
	return d
}

// Make generates a sample of the given format.
func Make(format string, r *rand.Rand) Sample {
	tk := fw.NewTokens(r)
	s := Sample{Format: format}
	switch format {
	case "pdf":
		g := pdfw.GenDoc(r, pdfw.DocOpts{MinPages: 1, MaxPages: 3, MaxLines: 5, MaxFonts: 2, TreeDepth: 1 + r.Intn(2), Inherit: "mixed", NoEmptyPages: true, FontKinds: []string{"t1-winansi", "t1-std"}})
		lay := pdfw.RandomLayout(r, 1)
		s.Data = pdfw.Build(r.Int63(), lay, []*pdfw.Doc{g.Doc}).Bytes
		_, toks := g.ExpectedPageText()
		for _, t := range toks {
			s.Tokens = append(s.Tokens, t...)
		}
		s.Desc = fmt.Sprintf("pdf xref=%v filter=%s", lay.XRef, lay.Filter)
	case "docx":
		d := genWithStructure(r, tk)
		s.Data = ooxml.WriteDocx(d, ooxml.DocxOptions{BodyStyle: "BodyText"}) // every paragraph names a style
		s.Desc = "docx from logical.Gen (tame profile, styled paragraphs)"
	case "odt":
		d := genWithStructure(r, tk)
		s.Data = odf.WriteODT(d, odf.Options{BodyStyle: "Text_20_body"})
		s.Desc = "odt from logical.Gen (tame profile, styled paragraphs)"
	case "xlsx":
		wb := &ooxml.XWorkbook{Styles: true, DocProps: true, Title: "sample"}
		for i := 0; i < 2+r.Intn(2); i++ { // at least two sheets: damage to one part has a later part to shift
			sh := ooxml.XSheet{Name: fmt.Sprintf("Sheet%d", i+1), Part: fmt.Sprintf("xl/worksheets/sheet%d.xml", i+1), RID: fmt.Sprintf("rId%d", i+1), SheetID: i + 1, Dimension: true}
			for a := 0; a < 2+r.Intn(3); a++ {
				for b := 0; b < 2+r.Intn(3); b++ {
					t := tk.Next()
					sh.Cells = append(sh.Cells, ooxml.XCell{Row: a, Col: b, Kind: []ooxml.XKind{ooxml.XShared, ooxml.XInline}[r.Intn(2)], V: t})
					s.Tokens = append(s.Tokens, t)
				}
			}
			// one row of the other cell kinds: a number, a number behind a formula, a boolean, an error
			sh.Cells = append(sh.Cells,
				ooxml.XCell{Row: 5, Col: 0, Kind: ooxml.XNumber, V: fmt.Sprint(1000 + r.Intn(9000))},
				ooxml.XCell{Row: 5, Col: 1, Kind: ooxml.XFormulaNum, V: "0.25"},
				ooxml.XCell{Row: 5, Col: 2, Kind: ooxml.XBool, V: "1"},
				ooxml.XCell{Row: 5, Col: 3, Kind: ooxml.XError, V: "#DIV/0!"})
			if i == 0 {
				// a merged region below the data whose covered cells are not stored
				t := tk.Next()
				sh.Cells = append(sh.Cells, ooxml.XCell{Row: 7, Col: 0, Kind: ooxml.XInline, V: t})
				sh.Merges = append(sh.Merges, ooxml.XMerge{C0: 0, R0: 7, C1: 1, R1: 8})
				s.Tokens = append(s.Tokens, t)
			}
			wb.Sheets = append(wb.Sheets, sh)
		}
		s.Data = ooxml.PartZip(wb.Members(r))
		s.Desc = "xlsx workbook"
	case "pptx":
		dk := &ooxml.PDeck{DocProps: true, Title: "sample", MasterText: "master text"}
		for i := 0; i < 2+r.Intn(2); i++ { // at least two slides, for the same reason
			t1, t2 := tk.Next(), tk.Next()
			dk.Slides = append(dk.Slides, ooxml.PSlide{Part: fmt.Sprintf("ppt/slides/slide%d.xml", i+1), RID: fmt.Sprintf("rId%d", 10+i), SlideID: 256 + i, Title: t1 + " title", Paras: []string{t2 + " body text"}})
			s.Tokens = append(s.Tokens, t1, t2)
		}
		s.Data = ooxml.PartZip(dk.Members(r))
		s.Desc = "pptx deck"
	case "epub":
		b := Book(r, tk, &s.Tokens)
		s.Data = epubw.Zip(b.Members(r))
		s.Desc = fmt.Sprintf("epub%d", b.Version)
	case "html":
		a := htmlw.SamplePlain(r, tk)
		s.Data = htmlw.RenderPlain(a)
		s.Desc = "html plain article"
	default:
		panic("samples: unknown format " + format)
	}
	if s.Tokens == nil {
		for i := 0; i < tk.Count(); i++ {
			// tokens are issued in order; re-derive them is not possible without the source, so leave empty
			break
		}
	}
	return s
}

// Book builds a small EPUB book (3 chapters) whose required tokens are appended to toks.
func Book(r *rand.Rand, tk *fw.Tokens, toks *[]string) *epubw.Book {
	ver := 2 + r.Intn(2)
	b := &epubw.Book{Version: ver, OPFPath: []string{"OEBPS/content.opf", "content.opf", "pkg/book.opf"}[r.Intn(3)], Title: "sample book", NavInSpine: -1}
	dir := ""
	if i := bytes.LastIndexByte([]byte(b.OPFPath), '/'); i >= 0 {
		dir = b.OPFPath[:i+1]
	}
	for i := 0; i < 3; i++ {
		t1, t2 := tk.Next(), tk.Next()
		b.Spine = append(b.Spine, epubw.Chapter{ID: fmt.Sprintf("ch%d", i+1), Path: fmt.Sprintf("%stext/chapter%d.xhtml", dir, i+1), Title: "Chapter", Heading: t1 + " heading", Paras: []string{"para " + t2 + " text"}})
		if toks != nil {
			*toks = append(*toks, t1, t2)
		}
	}
	if ver == 2 {
		b.NCXPath = dir + "toc.ncx"
	} else {
		b.NavPath = dir + "nav.xhtml"
		if r.Intn(2) == 0 {
			b.NCXPath = dir + "toc.ncx"
		}
	}
	return b
}

// ZMember is a ZIP member for re-packing.
type ZMember struct {
	Name  string
	Data  []byte
	Store bool
}

// Unzip reads all members of a ZIP archive in archive order.
func Unzip(b []byte) []ZMember {
	zr, err := zip.NewReader(bytes.NewReader(b), int64(len(b)))
	if err != nil {
		return nil
	}
	var ms []ZMember
	for _, f := range zr.File {
		rc, err := f.Open()
		if err != nil {
			continue
		}
		data, _ := io.ReadAll(rc)
		rc.Close()
		ms = append(ms, ZMember{f.Name, data, f.Method == zip.Store})
	}
	return ms
}

// Rezip writes members in exactly the given order.
func Rezip(ms []ZMember) []byte {
	var buf bytes.Buffer
	zw := zip.NewWriter(&buf)
	for _, m := range ms {
		method := zip.Deflate
		if m.Store {
			method = zip.Store
		}
		w, err := zw.CreateHeader(&zip.FileHeader{Name: m.Name, Method: method})
		if err != nil {
			continue
		}
		w.Write(m.Data)
	}
	zw.Close()
	return buf.Bytes()
}
