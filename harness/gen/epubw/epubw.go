// Package epubw is an independent EPUB writer (EPUB 2.0.1: OPF 2.0 + NCX;
// EPUB 3: package document 3.0 + XHTML navigation document; OCF container:
// "mimetype" first and stored, META-INF/container.xml). It shares no code with
// tabula; only archive/zip and hand-written XML.
//
// The reading order is the <spine> (OPF 2.0.1 §2.4, EPUB 3.3 §5.7). The writer
// lets the caller choose independently: spine order, manifest order, file
// names / directories of the content documents, how each manifest href is
// spelled (percent-encoding, "../" segments, raw IRI characters, a literal
// "+"), the location of the package document, which navigation files exist,
// parts that are in the ZIP but not in the manifest (decoys), parts in the
// manifest but not in the spine, and the ZIP member order (everything after
// "mimetype" may be permuted by the caller).
package epubw

import (
	"archive/zip"
	"bytes"
	"fmt"
	"math/rand"
	"strings"
)

// Member is one ZIP member.
type Member struct {
	Name  string
	Data  []byte
	Store bool
}

// Zip serialises members in the given order.
func Zip(members []Member) []byte {
	var buf bytes.Buffer
	zw := zip.NewWriter(&buf)
	for _, m := range members {
		method := zip.Deflate
		if m.Store {
			method = zip.Store
		}
		w, err := zw.CreateHeader(&zip.FileHeader{Name: m.Name, Method: method})
		if err != nil {
			panic(err)
		}
		w.Write(m.Data)
	}
	if err := zw.Close(); err != nil {
		panic(err)
	}
	return buf.Bytes()
}

// ShuffleTail permutes every member except a leading "mimetype" (OCF §4.3:
// mimetype must be the first member).
func ShuffleTail(members []Member, r *rand.Rand) {
	start := 0
	if len(members) > 0 && members[0].Name == "mimetype" {
		start = 1
	}
	tail := members[start:]
	r.Shuffle(len(tail), func(i, j int) { tail[i], tail[j] = tail[j], tail[i] })
}

// Names lists member names in order.
func Names(members []Member) []string {
	out := make([]string, len(members))
	for i, m := range members {
		out[i] = m.Name
	}
	return out
}

// HrefStyle selects how a manifest href is spelled. All styles denote the same
// file (RFC 3986 §2: percent-encoded octets; "+" is an ordinary sub-delim in a
// path segment and stands for itself).
type HrefStyle int

const (
	HrefMinimal  HrefStyle = iota // encode only what must be encoded (space, '%', non-ASCII, reserved gen-delims)
	HrefIRI                       // like minimal but non-ASCII characters left raw (IRI, allowed by EPUB 3)
	HrefHeavy                     // additionally encode some unreserved characters and '+' as %XX (equivalent URL)
	HrefLowerHex                  // minimal with lower-case hex digits
)

var hrefStyleNames = [...]string{"minimal", "iri", "heavy", "lowerhex"}

func (h HrefStyle) String() string { return hrefStyleNames[h] }

// EncodeHref spells the relative path rel (segments separated by '/') as a
// URL reference.
func EncodeHref(rel string, style HrefStyle, r *rand.Rand) string {
	var sb strings.Builder
	hex := "0123456789ABCDEF"
	if style == HrefLowerHex {
		hex = "0123456789abcdef"
	}
	enc := func(b byte) {
		sb.WriteByte('%')
		sb.WriteByte(hex[b>>4])
		sb.WriteByte(hex[b&15])
	}
	for _, ru := range rel {
		switch {
		case ru == '/':
			sb.WriteByte('/')
		case ru == '.' || ru == '-' || ru == '_' || ru == '~':
			sb.WriteRune(ru)
		case ru >= '0' && ru <= '9', ru >= 'a' && ru <= 'z', ru >= 'A' && ru <= 'Z':
			if style == HrefHeavy && r != nil && r.Intn(6) == 0 {
				enc(byte(ru))
			} else {
				sb.WriteRune(ru)
			}
		case ru == '+':
			if style == HrefHeavy && r != nil && r.Intn(2) == 0 {
				enc('+')
			} else {
				sb.WriteByte('+')
			}
		case ru == '!' || ru == '$' || ru == '\'' || ru == '(' || ru == ')' || ru == '*' || ru == ',' || ru == ';' || ru == '=' || ru == '@' || ru == ':':
			// sub-delims and pchar extras: legal raw in a path segment (':' not in the first segment of a relative ref; encode it)
			if ru == ':' {
				enc(':')
			} else {
				sb.WriteRune(ru)
			}
		case ru < 0x80:
			enc(byte(ru))
		default:
			if style == HrefIRI {
				sb.WriteRune(ru)
			} else {
				for _, b := range []byte(string(ru)) {
					enc(b)
				}
			}
		}
	}
	return sb.String()
}

// RelPath spells `to` relative to the directory of `from` (both package paths).
func RelPath(from, to string) string {
	fd := strings.Split(from, "/")
	fd = fd[:len(fd)-1]
	td := strings.Split(to, "/")
	i := 0
	for i < len(fd) && i < len(td)-1 && fd[i] == td[i] {
		i++
	}
	var segs []string
	for k := i; k < len(fd); k++ {
		segs = append(segs, "..")
	}
	segs = append(segs, td[i:]...)
	return strings.Join(segs, "/")
}

// Chapter is one XHTML content document.
type Chapter struct {
	ID        string // manifest id
	Path      string // package path inside the ZIP (decoded), e.g. "OEBPS/text/ch 1+a.xhtml"
	Style     HrefStyle
	Title     string // <title>
	Heading   string // <h1>
	Paras     []string
	MediaType string // default application/xhtml+xml
	Missing   bool   // listed in manifest (and spine) but the file is not in the ZIP
	// Linear: "" (attribute absent) | "yes" | "no" — the spine itemref's linear
	// attribute. Auxiliary (linear="no") items keep their place in the spine.
	Linear string
}

// Book is a whole publication.
type Book struct {
	Version      int    // 2 or 3
	OPFPath      string // e.g. "OEBPS/content.opf", "content.opf", "a/b/package.opf"
	Title        string
	Spine        []Chapter // reading order
	ManifestOnly []Chapter // manifest items that are not in the spine
	Decoys       []Chapter // files in the ZIP that the package does not mention
	NCXPath      string    // "" = no NCX (required for EPUB 2, optional for 3)
	NavPath      string    // "" = no nav document (required for EPUB 3)
	NavInSpine   int       // -1 = nav document not in spine; otherwise its spine position
	NavIntro     string    // content of the navigation document outside its <nav> elements (a paragraph before them); "" = none
	NavLabel     func(i int) string
	Guide        bool     // EPUB 2 <guide>
	Extra        []Member // extra members verbatim (META-INF/encryption.xml, META-INF/rights.xml, …)
	NoMimetype   bool
}

func esc(s string) string {
	s = strings.ReplaceAll(s, "&", "&amp;")
	s = strings.ReplaceAll(s, "<", "&lt;")
	s = strings.ReplaceAll(s, ">", "&gt;")
	s = strings.ReplaceAll(s, `"`, "&quot;")
	return s
}

func (c *Chapter) mediaType() string {
	if c.MediaType != "" {
		return c.MediaType
	}
	return "application/xhtml+xml"
}

// XHTML renders the content document.
func (c *Chapter) XHTML(version int) []byte {
	var sb strings.Builder
	sb.WriteString(`<?xml version="1.0" encoding="UTF-8"?>` + "\n")
	if version >= 3 {
		sb.WriteString("<!DOCTYPE html>\n")
		sb.WriteString(`<html xmlns="http://www.w3.org/1999/xhtml" xmlns:epub="http://www.idpf.org/2007/ops" xml:lang="en" lang="en">` + "\n")
	} else {
		sb.WriteString(`<!DOCTYPE html PUBLIC "-//W3C//DTD XHTML 1.1//EN" "http://www.w3.org/TR/xhtml11/DTD/xhtml11.dtd">` + "\n")
		sb.WriteString(`<html xmlns="http://www.w3.org/1999/xhtml" xml:lang="en">` + "\n")
	}
	fmt.Fprintf(&sb, "<head><title>%s</title><meta http-equiv=\"Content-Type\" content=\"application/xhtml+xml; charset=utf-8\"/></head>\n<body>\n", esc(c.Title))
	if c.Heading != "" {
		fmt.Fprintf(&sb, "<h1>%s</h1>\n", esc(c.Heading))
	}
	for _, p := range c.Paras {
		fmt.Fprintf(&sb, "<p>%s</p>\n", esc(p))
	}
	sb.WriteString("</body>\n</html>\n")
	return []byte(sb.String())
}

// NoEncryptionMethod as EncEntry.Algorithm leaves the enc:EncryptionMethod element out.
const NoEncryptionMethod = "(no EncryptionMethod element)"

// EncEntry is one EncryptedData entry of META-INF/encryption.xml.
type EncEntry struct {
	Algorithm string // e.g. http://www.idpf.org/2008/embedding (font obfuscation), http://www.w3.org/2001/04/xmlenc#aes128-cbc
	URI       string // package path of the encrypted resource (URL-encoded by the caller if wanted)
}

// EncryptionXML renders META-INF/encryption.xml (OCF §4.2.5 / XML-ENC).
func EncryptionXML(entries []EncEntry) []byte {
	var sb strings.Builder
	sb.WriteString(`<?xml version="1.0" encoding="UTF-8"?>` + "\n")
	sb.WriteString(`<encryption xmlns="urn:oasis:names:tc:opendocument:xmlns:container" xmlns:enc="http://www.w3.org/2001/04/xmlenc#">`)
	for _, e := range entries {
		if e.Algorithm == NoEncryptionMethod { // enc:EncryptionMethod is optional (XML-ENC 3.2: the algorithm is then known out of band)
			fmt.Fprintf(&sb, `<enc:EncryptedData><enc:CipherData><enc:CipherReference URI="%s"/></enc:CipherData></enc:EncryptedData>`, esc(e.URI))
			continue
		}
		fmt.Fprintf(&sb, `<enc:EncryptedData><enc:EncryptionMethod Algorithm="%s"/><enc:CipherData><enc:CipherReference URI="%s"/></enc:CipherData></enc:EncryptedData>`, esc(e.Algorithm), esc(e.URI))
	}
	sb.WriteString(`</encryption>`)
	return []byte(sb.String())
}

// RightsXML renders a minimal META-INF/rights.xml (Adobe ADEPT style).
func RightsXML() []byte {
	return []byte(`<?xml version="1.0" encoding="UTF-8"?>` + "\n" +
		`<adept:rights xmlns:adept="http://ns.adobe.com/adept"><licenseToken><user>urn:uuid:00000000-0000-0000-0000-000000000000</user><resource>urn:uuid:11111111-1111-1111-1111-111111111111</resource></licenseToken></adept:rights>`)
}

// ContainerXML renders META-INF/container.xml.
func ContainerXML(opfPath string) []byte {
	return []byte(`<?xml version="1.0" encoding="UTF-8"?>` + "\n" +
		`<container version="1.0" xmlns="urn:oasis:names:tc:opendocument:xmlns:container"><rootfiles><rootfile full-path="` + esc(opfPath) + `" media-type="application/oebps-package+xml"/></rootfiles></container>`)
}

type manifestItem struct {
	id, href, mt, props string
}

// Members renders the publication: "mimetype" first (stored), then
// META-INF/container.xml, the package document, navigation files, content
// documents, extras. r drives the manifest order and heavy href encoding.
func (b *Book) Members(r *rand.Rand) []Member {
	ver := b.Version
	if ver == 0 {
		ver = 3
	}
	var members []Member
	if !b.NoMimetype {
		members = append(members, Member{Name: "mimetype", Data: []byte("application/epub+zip"), Store: true})
	}
	members = append(members, Member{Name: "META-INF/container.xml", Data: ContainerXML(b.OPFPath)})

	href := func(c *Chapter) string { return EncodeHref(RelPath(b.OPFPath, c.Path), c.Style, r) }

	// spine with optional nav position
	type spineRef struct {
		idref  string
		linear string
	}
	var spine []spineRef
	var items []manifestItem
	for i := range b.Spine {
		if b.NavPath != "" && b.NavInSpine == i {
			spine = append(spine, spineRef{"nav-doc", ""})
		}
		c := &b.Spine[i]
		spine = append(spine, spineRef{c.ID, c.Linear})
		items = append(items, manifestItem{c.ID, href(c), c.mediaType(), ""})
	}
	if b.NavPath != "" && b.NavInSpine >= len(b.Spine) {
		spine = append(spine, spineRef{"nav-doc", ""})
	}
	for i := range b.ManifestOnly {
		c := &b.ManifestOnly[i]
		items = append(items, manifestItem{c.ID, href(c), c.mediaType(), ""})
	}
	if b.NCXPath != "" {
		items = append(items, manifestItem{"ncx", EncodeHref(RelPath(b.OPFPath, b.NCXPath), HrefMinimal, nil), "application/x-dtbncx+xml", ""})
	}
	if b.NavPath != "" {
		items = append(items, manifestItem{"nav-doc", EncodeHref(RelPath(b.OPFPath, b.NavPath), HrefMinimal, nil), "application/xhtml+xml", "nav"})
	}
	items = append(items, manifestItem{"css", "style.css", "text/css", ""})
	r.Shuffle(len(items), func(i, j int) { items[i], items[j] = items[j], items[i] })

	var opf strings.Builder
	opf.WriteString(`<?xml version="1.0" encoding="UTF-8"?>` + "\n")
	if ver >= 3 {
		opf.WriteString(`<package xmlns="http://www.idpf.org/2007/opf" version="3.0" unique-identifier="bookid">` + "\n")
		fmt.Fprintf(&opf, `<metadata xmlns:dc="http://purl.org/dc/elements/1.1/"><dc:identifier id="bookid">urn:uuid:3c1a1d2e-0000-4000-8000-00000000c018</dc:identifier><dc:title>%s</dc:title><dc:language>en</dc:language><meta property="dcterms:modified">2024-01-01T00:00:00Z</meta></metadata>`+"\n", esc(b.Title))
	} else {
		opf.WriteString(`<package xmlns="http://www.idpf.org/2007/opf" version="2.0" unique-identifier="bookid">` + "\n")
		fmt.Fprintf(&opf, `<metadata xmlns:dc="http://purl.org/dc/elements/1.1/" xmlns:opf="http://www.idpf.org/2007/opf"><dc:identifier id="bookid" opf:scheme="UUID">urn:uuid:3c1a1d2e-0000-4000-8000-00000000c018</dc:identifier><dc:title>%s</dc:title><dc:language>en</dc:language></metadata>`+"\n", esc(b.Title))
	}
	opf.WriteString("<manifest>\n")
	for _, it := range items {
		p := ""
		if it.props != "" && ver >= 3 {
			p = fmt.Sprintf(` properties="%s"`, it.props)
		}
		fmt.Fprintf(&opf, `<item id="%s" href="%s" media-type="%s"%s/>`+"\n", esc(it.id), esc(it.href), it.mt, p)
	}
	opf.WriteString("</manifest>\n")
	if b.NCXPath != "" {
		opf.WriteString(`<spine toc="ncx">` + "\n")
	} else {
		opf.WriteString("<spine>\n")
	}
	for _, s := range spine {
		lin := ""
		if s.linear != "" {
			lin = ` linear="` + s.linear + `"`
		}
		fmt.Fprintf(&opf, `<itemref idref="%s"%s/>`+"\n", esc(s.idref), lin)
	}
	opf.WriteString("</spine>\n")
	if b.Guide && ver < 3 && len(b.Spine) > 0 {
		fmt.Fprintf(&opf, `<guide><reference type="text" title="Start" href="%s"/></guide>`+"\n", esc(href(&b.Spine[0])))
	}
	opf.WriteString("</package>\n")
	members = append(members, Member{Name: b.OPFPath, Data: []byte(opf.String())})

	label := func(i int) string {
		if b.NavLabel != nil {
			return b.NavLabel(i)
		}
		return fmt.Sprintf("Section %d", i+1)
	}
	if b.NCXPath != "" {
		var ncx strings.Builder
		ncx.WriteString(`<?xml version="1.0" encoding="UTF-8"?>` + "\n")
		ncx.WriteString(`<ncx xmlns="http://www.daisy.org/z3986/2005/ncx/" version="2005-1"><head><meta name="dtb:uid" content="urn:uuid:3c1a1d2e-0000-4000-8000-00000000c018"/><meta name="dtb:depth" content="1"/></head>`)
		fmt.Fprintf(&ncx, `<docTitle><text>%s</text></docTitle><navMap>`, esc(b.Title))
		for i := range b.Spine {
			c := &b.Spine[i]
			fmt.Fprintf(&ncx, `<navPoint id="np%d" playOrder="%d"><navLabel><text>%s</text></navLabel><content src="%s"/></navPoint>`, i+1, i+1, esc(label(i)), esc(EncodeHref(RelPath(b.NCXPath, c.Path), HrefMinimal, nil)))
		}
		ncx.WriteString(`</navMap></ncx>`)
		members = append(members, Member{Name: b.NCXPath, Data: []byte(ncx.String())})
	}
	if b.NavPath != "" {
		var nav strings.Builder
		nav.WriteString(`<?xml version="1.0" encoding="UTF-8"?>` + "\n<!DOCTYPE html>\n")
		nav.WriteString(`<html xmlns="http://www.w3.org/1999/xhtml" xmlns:epub="http://www.idpf.org/2007/ops"><head><title>Contents</title></head><body>`)
		if b.NavIntro != "" {
			nav.WriteString(`<p>` + esc(b.NavIntro) + `</p>`)
		}
		nav.WriteString(`<nav epub:type="toc" id="toc"><h2>Contents</h2><ol>`)
		for i := range b.Spine {
			c := &b.Spine[i]
			fmt.Fprintf(&nav, `<li><a href="%s">%s</a></li>`, esc(EncodeHref(RelPath(b.NavPath, c.Path), HrefMinimal, nil)), esc(label(i)))
		}
		nav.WriteString(`</ol></nav></body></html>`)
		members = append(members, Member{Name: b.NavPath, Data: []byte(nav.String())})
	}
	opfDir := ""
	if i := strings.LastIndex(b.OPFPath, "/"); i >= 0 {
		opfDir = b.OPFPath[:i+1]
	}
	members = append(members, Member{Name: opfDir + "style.css", Data: []byte("body { margin: 1em; }\n")})

	for i := range b.Spine {
		if !b.Spine[i].Missing {
			members = append(members, Member{Name: b.Spine[i].Path, Data: b.Spine[i].XHTML(ver)})
		}
	}
	for i := range b.ManifestOnly {
		members = append(members, Member{Name: b.ManifestOnly[i].Path, Data: b.ManifestOnly[i].XHTML(ver)})
	}
	for i := range b.Decoys {
		members = append(members, Member{Name: b.Decoys[i].Path, Data: b.Decoys[i].XHTML(ver)})
	}
	members = append(members, b.Extra...)
	return members
}

// SimpleBook packs ready-made XHTML content documents into a minimal EPUB 3:
// mimetype, container, package document (title, one creator), nav document and
// the chapters in spine order.
func SimpleBook(title string, chapters [][]byte) []byte {
	var man, spine, nav strings.Builder
	members := []Member{{Name: "mimetype", Data: []byte("application/epub+zip"), Store: true},
		{Name: "META-INF/container.xml", Data: ContainerXML("OEBPS/content.opf")}}
	var chs []Member
	for i, c := range chapters {
		name := fmt.Sprintf("text/ch%d.xhtml", i+1)
		fmt.Fprintf(&man, `<item id="ch%d" href="%s" media-type="application/xhtml+xml"/>`+"\n", i+1, name)
		fmt.Fprintf(&spine, `<itemref idref="ch%d"/>`+"\n", i+1)
		fmt.Fprintf(&nav, `<li><a href="%s">Chapter %d</a></li>`, name, i+1)
		chs = append(chs, Member{Name: "OEBPS/" + name, Data: c})
	}
	opf := `<?xml version="1.0" encoding="UTF-8"?>` + "\n" + `<package xmlns="http://www.idpf.org/2007/opf" version="3.0" unique-identifier="uid"><metadata xmlns:dc="http://purl.org/dc/elements/1.1/"><dc:identifier id="uid">urn:uuid:00000000-0000-4000-8000-000000000001</dc:identifier><dc:title>` + esc(title) + `</dc:title><dc:creator>Verif Harness</dc:creator><dc:language>en</dc:language><meta property="dcterms:modified">2020-01-01T00:00:00Z</meta></metadata><manifest><item id="nav" href="nav.xhtml" media-type="application/xhtml+xml" properties="nav"/>` + "\n" + man.String() + `</manifest><spine>` + spine.String() + `</spine></package>`
	navDoc := `<?xml version="1.0" encoding="UTF-8"?>` + "\n" + `<html xmlns="http://www.w3.org/1999/xhtml" xmlns:epub="http://www.idpf.org/2007/ops"><head><title>Contents</title></head><body><nav epub:type="toc"><ol>` + nav.String() + `</ol></nav></body></html>`
	members = append(members, Member{Name: "OEBPS/content.opf", Data: []byte(opf)}, Member{Name: "OEBPS/nav.xhtml", Data: []byte(navDoc)})
	members = append(members, chs...)
	return Zip(members)
}
