// Package pagegen generates synthetic pages of positioned text fragments for
// the layout-analysis checks (C09). It is independent of tabula: geometry,
// glyph metrics and fragmentation are its own. Every word of body text is a
// unique token (fw.Tokens), so that loss / duplication is decidable with a
// short witness; list markers, single-character lines, hyphens and
// right-to-left words are covered by the rune-multiset comparison.
package pagegen

import (
	"fmt"
	"math"
	"math/rand"
	"sort"
	"strings"

	"verifharness/fw"
	"verifharness/gen/pdfw"
)

// Direction of a fragment (mirrors what a PDF extractor would report).
const (
	LTR = iota
	RTL
	Neutral
)

// Frag is one positioned text fragment (device space of the page).
type Frag struct {
	Text       string
	X, Y, W, H float64 // baseline origin, advance width, height (= font size)
	Size       float64
	Bold       bool
	Dir        int
	Line       int  // logical line the fragment was cut from
	Dup        bool // copy of another fragment (duplicate layer)
}

// Page is a generated page: fragments in stream order.
type Page struct {
	W, H     float64
	Frags    []Frag
	Lines    int // number of logical lines
	Spec     Spec
	Features []string
}

// Spec is the feature vector of a page. Everything is seed-chosen by
// RandomSpec and may be overridden (neutralised) before Build.
type Spec struct {
	PageW, PageH float64
	Margin       float64
	Cols         int
	Gutter       float64 // 10..60
	Size         float64 // body font size
	Leading      float64 // line pitch as a factor of the size
	Justified    bool
	Headings     bool
	ShortLast    bool
	SingleWord   bool
	SingleChar   bool
	TitleAbove   bool
	TitleBetween bool
	List         string // "", dash, star, num, alpha, bullet (bullet = U+2022, non-ASCII)
	NestedList   bool
	RTL          bool   // right-to-left paragraphs (Hebrew letters; non-ASCII)
	Frag         string // line | word | char | mixed
	SpaceFrags   bool   // explicit " " fragments between words (word/char modes)
	Dup          string // "", some, layer
	InvertedY    bool   // Y grows downwards (y=0 at the top)
	Scale        float64
	Protrude     bool   // one word sticks out past the common right edge
	Order        string // col | row | shuffle (stream order of the lines)
	Hyphen       bool   // some lines end in a hyphenated word
	Indent       bool   // first-line indents
	BoldName     bool   // bold font is called "Helvetica-Bold" instead of "F2"
}

// ASCII reports whether the page can be written with a WinAnsi simple font.
func (s Spec) ASCII() bool { return !s.RTL && s.List != "bullet" }

// RandomSpec draws a feature vector.
func RandomSpec(r *rand.Rand) Spec {
	s := Spec{PageW: 612, PageH: 792, Margin: 72, Scale: 1}
	if r.Intn(3) == 0 {
		s.PageW, s.PageH = 595, 842
	}
	s.Cols = []int{1, 1, 1, 2, 2, 2, 3, 3, 4}[r.Intn(9)]
	s.Gutter = float64(10 + r.Intn(51))
	s.Size = []float64{8, 9, 10, 10, 11, 12}[r.Intn(6)]
	if s.Cols == 4 && s.Size > 9 {
		s.Size = 8
	}
	s.Leading = []float64{1.15, 1.2, 1.3, 1.5}[r.Intn(4)]
	s.Justified = r.Intn(3) == 0
	s.Headings = r.Intn(2) == 0
	s.ShortLast = r.Intn(2) == 0
	s.SingleWord = r.Intn(3) == 0
	s.SingleChar = r.Intn(4) == 0
	s.TitleAbove = r.Intn(3) == 0
	s.TitleBetween = r.Intn(4) == 0
	s.List = []string{"", "", "", "dash", "star", "num", "alpha", "bullet"}[r.Intn(8)]
	s.NestedList = s.List != "" && r.Intn(2) == 0
	s.RTL = r.Intn(6) == 0
	s.Frag = []string{"line", "line", "word", "word", "char", "mixed"}[r.Intn(6)]
	s.SpaceFrags = r.Intn(2) == 0
	s.Dup = []string{"", "", "", "", "some", "layer"}[r.Intn(6)]
	s.InvertedY = r.Intn(6) == 0
	s.Scale = []float64{1, 1, 1, 1, 1, 1, 0.1, 0.25, 0.5, 2, 4, 10}[r.Intn(12)]
	s.Protrude = r.Intn(3) == 0
	s.Order = []string{"col", "col", "col", "row", "shuffle"}[r.Intn(5)]
	s.Hyphen = r.Intn(4) == 0
	s.Indent = r.Intn(3) == 0
	s.BoldName = r.Intn(2) == 0
	return s
}

// Features lists the feature tags of a spec (for coverage tables).
func (s Spec) Features() []string {
	f := []string{fmt.Sprintf("cols=%d", s.Cols), "frag=" + s.Frag, "order=" + s.Order, fmt.Sprintf("scale=%g", s.Scale)}
	switch {
	case s.Gutter < 20:
		f = append(f, "gutter<20")
	case s.Gutter < 40:
		f = append(f, "gutter<40")
	default:
		f = append(f, "gutter>=40")
	}
	add := func(b bool, n string) {
		if b {
			f = append(f, n)
		}
	}
	add(s.Justified, "justified")
	add(!s.Justified, "ragged")
	add(s.Headings, "headings")
	add(s.ShortLast, "short-last")
	add(s.SingleWord, "single-word")
	add(s.SingleChar, "single-char")
	add(s.TitleAbove, "title-above")
	add(s.TitleBetween, "title-between")
	add(s.List != "", "list="+s.List)
	add(s.NestedList, "nested-list")
	add(s.RTL, "rtl")
	add(s.SpaceFrags && s.Frag != "line", "space-frags")
	add(s.Dup != "", "dup="+s.Dup)
	add(s.InvertedY, "inverted-y")
	add(s.Protrude, "protrude")
	add(s.Hyphen, "hyphen")
	add(s.Indent, "indent")
	return f
}

// --- glyph metrics (Helvetica-like, 1/1000 em) ---

var lcWidths = map[rune]float64{
	'a': 556, 'b': 556, 'c': 500, 'd': 556, 'e': 556, 'f': 278, 'g': 556, 'h': 556, 'i': 222, 'j': 222, 'k': 500,
	'l': 222, 'm': 833, 'n': 556, 'o': 556, 'p': 556, 'q': 556, 'r': 333, 's': 500, 't': 278, 'u': 556, 'v': 500,
	'w': 722, 'x': 500, 'y': 500, 'z': 500, ' ': 278, '-': 333, '.': 278, ')': 333, '*': 389, '•': 350,
}

func glyphW(r rune, size float64, bold bool) float64 {
	w, ok := lcWidths[r]
	if !ok {
		w = 556 // digits, Hebrew letters, anything else
	}
	if bold && r != ' ' {
		w += 55
	}
	return w * size / 1000
}

func textW(s string, size float64, bold bool) float64 {
	t := 0.0
	for _, r := range s {
		t += glyphW(r, size, bold)
	}
	return t
}

// --- logical lines ---

type lline struct {
	x, y    float64 // left edge (LTR) or right edge (RTL), baseline
	size    float64
	bold    bool
	words   []string
	gaps    []float64 // gap before word i (gaps[0] unused)
	rtl     bool
	natural bool // all gaps are one natural space (can be one fragment)
	col     int
	block   int
}

const hebrew = "אבגדהוזחטיכלמנסעפצקרשת"

type builder struct {
	s     Spec
	r     *rand.Rand
	tok   *fw.Tokens
	lines []lline
}

func (b *builder) word() string { return b.tok.Next() }

func (b *builder) hebrewWord() string {
	hr := []rune(hebrew)
	n := 3 + b.r.Intn(5)
	var sb strings.Builder
	for i := 0; i < n; i++ {
		sb.WriteRune(hr[b.r.Intn(len(hr))])
	}
	return sb.String()
}

// fill composes one line of words not wider than maxW (at least one word).
func (b *builder) fill(maxW, size float64, bold bool, maxWords int, mk func() string) []string {
	var ws []string
	w := 0.0
	sp := glyphW(' ', size, bold)
	for len(ws) < maxWords {
		t := mk()
		tw := textW(t, size, bold)
		if len(ws) > 0 && w+sp+tw > maxW {
			break
		}
		if len(ws) > 0 {
			w += sp
		}
		w += tw
		ws = append(ws, t)
		if w > maxW {
			break
		}
	}
	return ws
}

func naturalGaps(n int, size float64, bold bool) []float64 {
	g := make([]float64, n)
	for i := 1; i < n; i++ {
		g[i] = glyphW(' ', size, bold)
	}
	return g
}

func lineWidth(words []string, gaps []float64, size float64, bold bool) float64 {
	w := 0.0
	for i, t := range words {
		if i > 0 {
			w += gaps[i]
		}
		w += textW(t, size, bold)
	}
	return w
}

// column fills one column region [x, x+cw] from yTop down to yBot with items.
func (b *builder) column(col, block int, x, cw, yTop, yBot float64, protrude *bool, lastCol bool) {
	s, r := b.s, b.r
	size := s.Size
	pitch := size * s.Leading
	y := yTop - size
	add := func(l lline) { l.col, l.block = col, block; b.lines = append(b.lines, l) }
	first := true
	for y > yBot {
		kinds := []string{"para", "para", "para"}
		if s.Headings {
			kinds = append(kinds, "heading")
		}
		if s.SingleWord {
			kinds = append(kinds, "oneword")
		}
		if s.SingleChar {
			kinds = append(kinds, "onechar")
		}
		if s.List != "" {
			kinds = append(kinds, "list")
		}
		if s.RTL {
			kinds = append(kinds, "rtl")
		}
		k := kinds[r.Intn(len(kinds))]
		if !first {
			y -= pitch * []float64{0.6, 1, 1.4}[r.Intn(3)] // paragraph spacing
		}
		first = false
		switch k {
		case "para":
			n := 2 + r.Intn(5)
			for i := 0; i < n && y > yBot; i++ {
				lx, lw := x, cw
				if i == 0 && s.Indent {
					lx, lw = x+18, cw-18
				}
				maxWords := 99
				last := i == n-1
				if last && s.ShortLast {
					maxWords = 1 + r.Intn(2)
				}
				ws := b.fill(lw, size, false, maxWords, b.word)
				if s.Hyphen && !last && r.Intn(3) == 0 {
					ws[len(ws)-1] += "-"
				}
				gaps := naturalGaps(len(ws), size, false)
				natural := true
				if s.Justified && !last && len(ws) > 1 {
					extra := lw - lineWidth(ws, gaps, size, false)
					if extra > 0 {
						for j := 1; j < len(ws); j++ {
							gaps[j] += extra / float64(len(ws)-1)
						}
						natural = false
					}
				} else if !s.Justified && len(ws) > 1 && r.Intn(8) == 0 {
					// ragged: sometimes drop the last word so the line is visibly shorter
					ws = ws[:len(ws)-1]
					gaps = gaps[:len(ws)]
				}
				if *protrude && lastCol && !last && r.Intn(4) == 0 {
					// one extra word beyond the common right edge (into the right margin)
					t := b.word()
					lw0 := lineWidth(ws, gaps, size, false)
					g := x + cw + 3 - (lx + lw0)
					if g < glyphW(' ', size, false) {
						g = glyphW(' ', size, false)
					}
					ws = append(ws, t)
					gaps = append(gaps, g)
					natural = false
					*protrude = false
				}
				add(lline{x: lx, y: y, size: size, words: ws, gaps: gaps, natural: natural})
				y -= pitch
			}
		case "heading":
			hs := math.Round(size*[]float64{1.3, 1.5, 1.8}[r.Intn(3)]*2) / 2
			y -= hs * 0.6
			if y <= yBot {
				break
			}
			bold := r.Intn(2) == 0
			ws := b.fill(cw, hs, bold, 1+r.Intn(3), b.word)
			add(lline{x: x, y: y, size: hs, bold: bold, words: ws, gaps: naturalGaps(len(ws), hs, bold), natural: true})
			y -= hs*0.4 + pitch
		case "oneword":
			add(lline{x: x, y: y, size: size, words: []string{b.word()}, gaps: []float64{0}, natural: true})
			y -= pitch
		case "onechar":
			ch := string("abcdefghijkmnoprstuvwxyz"[r.Intn(24)])
			add(lline{x: x, y: y, size: size, words: []string{ch}, gaps: []float64{0}, natural: true})
			y -= pitch
		case "list":
			n := 2 + r.Intn(4)
			for i := 0; i < n && y > yBot; i++ {
				var marker string
				switch s.List {
				case "dash":
					marker = "-"
				case "star":
					marker = "*"
				case "num":
					marker = fmt.Sprintf("%d.", i+1)
				case "alpha":
					marker = string(rune('a'+i)) + ")"
				case "bullet":
					marker = "•"
				}
				ind := 0.0
				if s.NestedList && i > 0 && r.Intn(2) == 0 {
					ind = 18
				}
				mw := textW(marker, size, false) + glyphW(' ', size, false)
				room := cw - ind - mw
				ws := append([]string{marker}, b.fill(room, size, false, 1+r.Intn(4), b.word)...)
				add(lline{x: x + ind, y: y, size: size, words: ws, gaps: naturalGaps(len(ws), size, false), natural: true})
				y -= pitch
				if r.Intn(3) == 0 && y > yBot { // wrapped continuation line
					ws2 := b.fill(room, size, false, 1+r.Intn(3), b.word)
					add(lline{x: x + ind + mw, y: y, size: size, words: ws2, gaps: naturalGaps(len(ws2), size, false), natural: true})
					y -= pitch
				}
			}
		case "rtl":
			n := 1 + r.Intn(3)
			for i := 0; i < n && y > yBot; i++ {
				ws := b.fill(cw, size, false, 2+r.Intn(5), b.hebrewWord)
				add(lline{x: x + cw, y: y, size: size, words: ws, gaps: naturalGaps(len(ws), size, false), natural: true, rtl: true})
				y -= pitch
			}
		}
	}
}

func snap(v float64) float64 { return math.Round(v*2) / 2 }

// fragment cuts a logical line into fragments according to the mode.
func (b *builder) fragment(l lline, idx int) []Frag {
	s, r := b.s, b.r
	mode := s.Frag
	if mode == "mixed" {
		mode = []string{"line", "word", "char", "runs"}[r.Intn(4)]
	}
	if mode == "line" && !l.natural {
		mode = "word"
	}
	dir := LTR
	if l.rtl {
		dir = RTL
	}
	mk := func(text string, x, w float64) Frag {
		d := dir
		strong := false
		for _, ch := range text {
			if (ch >= 'a' && ch <= 'z') || ch >= 0x5d0 {
				strong = true
			}
		}
		if !strong {
			d = Neutral
		}
		return Frag{Text: text, X: snap(x), Y: snap(l.y), W: w, H: l.size, Size: l.size, Bold: l.bold, Dir: d, Line: idx}
	}
	sp := glyphW(' ', l.size, l.bold)
	var out []Frag
	if mode == "line" {
		text := strings.Join(l.words, " ")
		w := textW(text, l.size, l.bold)
		x := l.x
		if l.rtl {
			x = l.x - w
		}
		return []Frag{mk(text, x, w)}
	}
	// word positions
	type wp struct {
		t    string
		x, w float64
	}
	var wps []wp
	if !l.rtl {
		x := l.x
		for i, t := range l.words {
			if i > 0 {
				x += l.gaps[i]
			}
			w := textW(t, l.size, l.bold)
			wps = append(wps, wp{t, x, w})
			x += w
		}
	} else {
		x := l.x // right edge; logical order runs right to left
		for i, t := range l.words {
			if i > 0 {
				x -= l.gaps[i]
			}
			w := textW(t, l.size, l.bold)
			x -= w
			wps = append(wps, wp{t, x, w})
		}
	}
	spaces := s.SpaceFrags
	switch mode {
	case "word":
		for i, p := range wps {
			if i > 0 && spaces {
				if !l.rtl {
					out = append(out, mk(" ", wps[i-1].x+wps[i-1].w, sp))
				} else {
					out = append(out, mk(" ", wps[i-1].x-sp, sp))
				}
			}
			out = append(out, mk(p.t, p.x, p.w))
		}
	case "runs": // runs of 1-3 words per fragment (natural spacing inside a run only when gaps are natural)
		i := 0
		for i < len(wps) {
			n := 1
			if l.natural && !l.rtl {
				n = 1 + r.Intn(3)
			}
			if i+n > len(wps) {
				n = len(wps) - i
			}
			var ts []string
			for _, p := range wps[i : i+n] {
				ts = append(ts, p.t)
			}
			text := strings.Join(ts, " ")
			out = append(out, mk(text, wps[i].x, textW(text, l.size, l.bold)))
			i += n
		}
	case "char":
		for i, p := range wps {
			if i > 0 && spaces {
				if !l.rtl {
					out = append(out, mk(" ", wps[i-1].x+wps[i-1].w, sp))
				} else {
					out = append(out, mk(" ", wps[i-1].x-sp, sp))
				}
			}
			if !l.rtl {
				x := p.x
				for _, ch := range p.t {
					w := glyphW(ch, l.size, l.bold)
					out = append(out, mk(string(ch), x, w))
					x += w
				}
			} else {
				x := p.x + p.w
				for _, ch := range p.t {
					w := glyphW(ch, l.size, l.bold)
					x -= w
					out = append(out, mk(string(ch), x, w))
				}
			}
		}
	}
	return out
}

// Build generates the page of a spec. Coordinates are laid out at scale 1 in
// standard orientation and then transformed (inversion, scale).
func Build(s Spec, r *rand.Rand) *Page {
	b := &builder{s: s, r: r, tok: fw.NewTokens(r)}
	left, right := s.Margin, s.PageW-s.Margin
	top, bottom := s.PageH-s.Margin, s.Margin
	y := top
	title := func(block int) {
		ts := math.Round(s.Size * []float64{1.6, 2, 2.4}[r.Intn(3)])
		n := 1 + r.Intn(2)
		for i := 0; i < n; i++ {
			y -= ts * 1.2
			ws := b.fill((right-left)*0.8, ts, true, 3+r.Intn(4), b.word)
			w := lineWidth(ws, naturalGaps(len(ws), ts, true), ts, true)
			x := left + (right-left-w)/2
			b.lines = append(b.lines, lline{x: x, y: y, size: ts, bold: true, words: ws, gaps: naturalGaps(len(ws), ts, true), natural: true, col: -1, block: block})
		}
		y -= ts * 0.8
	}
	if s.TitleAbove {
		title(0)
	}
	cw := (right - left - float64(s.Cols-1)*s.Gutter) / float64(s.Cols)
	protrude := s.Protrude
	blocks := 1
	if s.TitleBetween {
		blocks = 2
	}
	// limit the amount of text: use part of the page height
	usable := (y - bottom) * []float64{0.45, 0.6, 0.8, 1}[r.Intn(4)]
	per := usable / float64(blocks)
	for bl := 0; bl < blocks; bl++ {
		yTop := y
		yBot := y - per
		if bl > 0 {
			// title between the column blocks
			title(bl)
			yTop = y
			yBot = y - per + s.Size*4
			if yBot < bottom {
				yBot = bottom
			}
		}
		for c := 0; c < s.Cols; c++ {
			x := left + float64(c)*(cw+s.Gutter)
			b.column(c, bl+1, x, cw, yTop, yBot, &protrude, c == s.Cols-1)
		}
		y = yBot - s.Size
	}

	// stream order of the logical lines
	order := make([]int, len(b.lines))
	for i := range order {
		order[i] = i
	}
	switch s.Order {
	case "row":
		sort.SliceStable(order, func(i, j int) bool {
			a, c := b.lines[order[i]], b.lines[order[j]]
			if a.y != c.y {
				return a.y > c.y
			}
			return a.x < c.x
		})
	case "shuffle":
		r.Shuffle(len(order), func(i, j int) { order[i], order[j] = order[j], order[i] })
	}
	p := &Page{W: s.PageW, H: s.PageH, Spec: s, Lines: len(b.lines), Features: s.Features()}
	for _, li := range order {
		fr := b.fragment(b.lines[li], li)
		for _, f := range fr {
			p.Frags = append(p.Frags, f)
			if s.Dup == "some" && r.Intn(8) == 0 {
				d := f
				d.Dup = true
				p.Frags = append(p.Frags, d)
			}
		}
	}
	if s.Dup == "layer" {
		n := len(p.Frags)
		for i := 0; i < n; i++ {
			d := p.Frags[i]
			d.Dup = true
			p.Frags = append(p.Frags, d)
		}
	}
	return p
}

// Transform returns the page in its final coordinate system: optional
// inversion of Y (y = 0 at the top, growing downwards) and uniform scale.
func (p *Page) Transform(invert bool, scale float64) *Page {
	q := *p
	q.Frags = make([]Frag, len(p.Frags))
	q.W, q.H = p.W*scale, p.H*scale
	for i, f := range p.Frags {
		if invert {
			f.Y = p.H - f.Y
		}
		f.X *= scale
		f.Y *= scale
		f.W *= scale
		f.H *= scale
		f.Size *= scale
		q.Frags[i] = f
	}
	return &q
}

// Final applies the spec's own inversion and scale.
func (p *Page) Final() *Page { return p.Transform(p.Spec.InvertedY, p.Spec.Scale) }

// PDFMode says how scale / inversion are expressed in the content stream.
type PDFMode struct {
	ScaleByCTM bool // "s 0 0 s 0 0 cm" + unscaled coordinates instead of scaled coordinates
	TopDown    bool // "1 0 0 -1 0 H cm" + flipped text matrices (top-down authoring); device space stays standard
}

// SimplePage renders the (untransformed, ASCII) page p as a pdfw.SimplePage
// whose device-space geometry equals p.Transform(false, scale).
func (p *Page) SimplePage(scale float64, m PDFMode) pdfw.SimplePage {
	sp := pdfw.SimplePage{W: p.W * scale, H: p.H * scale}
	k := scale
	if m.ScaleByCTM {
		k = 1
	}
	// CTM = [flip] x [scale]
	if m.ScaleByCTM || m.TopDown {
		a, d, f := 1.0, 1.0, 0.0
		if m.ScaleByCTM {
			a, d = scale, scale
		}
		if m.TopDown {
			d = -d
			f = p.H * scale
		}
		sp.CTM = &[6]float64{a, 0, 0, d, 0, f}
	}
	for _, fr := range p.Frags {
		it := pdfw.SimpleItem{X: fr.X * k, Y: fr.Y * k, Size: fr.Size * k, Text: fr.Text, Bold: fr.Bold}
		if m.TopDown {
			it.Y = (p.H - fr.Y) * k
			it.Flip = true
		}
		sp.Items = append(sp.Items, it)
	}
	return sp
}
