package logical

import (
	"fmt"
	"math/rand"

	"verifharness/fw"
)

// Profile steers the random generator.
type Profile struct {
	MinBlocks, MaxBlocks int
	Wraps                []string // inline containers allowed besides "" and "span" (link, ins, sdt, nest)
	Tab, Break, Sym      bool     // inline kinds allowed
	Spaces               bool
	HeadingHows          []string // ways to author a heading ("" entries not allowed); empty = no headings
	MaxHeadingLevel      int      // 1..9
	Lists                bool
	ListMaxDepth         int  // deepest 0-based level
	ListJumps            bool // an item may be two levels deeper than its predecessor (in ODF: a text-less wrapper item)
	Tables               bool
	MaxRows, MaxCols     int
	Spans                bool // merged regions
	MultiPara            bool // cells with several paragraphs
	EmptyCells           bool
	CellSpecials         bool // tab / break / sym inside cells
	HeaderRows           bool
	Pipes                bool // '|' inside text
	Backslash            bool // '\' inside text (never directly before '|')
	XMLChars             bool // & < > " ' inside text
	EmptyParas           bool
	HeaderFooter         bool
	Styles               int    // 0 random, 1 always, 2 never
	Title                bool   // may set a metadata title
	BlockBias            string // "" | "tables" | "inline" | "lists" | "headings"
	BlockContainers      bool   // paragraphs inside a block-level container (w:sdt / text:section)
}

// Symbols are the characters used for KSym items; none of them is used by
// tabula as a bullet or as Markdown decoration.
var Symbols = []rune{0x263A, 0x2713, 0x2192, 0x03A9, 0x20AC}

var words = []string{"alpha", "beta", "v2.0", "(n)", "x1", "data", "Z", "7"}
var xmlWords = []string{"A&B", "<tag>", "it's", "\"w\"", "a<b", "c>d"}

type gen struct {
	r  *rand.Rand
	tk *fw.Tokens
	p  Profile
	d  *Doc
}

// Gen generates a random logical document.
func Gen(r *rand.Rand, tk *fw.Tokens, p Profile) *Doc {
	g := &gen{r: r, tk: tk, p: p, d: &Doc{Features: map[string]bool{}}}
	d := g.d
	switch p.Styles {
	case 1:
		d.HasStyles = true
	case 2:
		d.HasStyles = false
	default:
		d.HasStyles = r.Intn(4) != 0
	}
	n := fw.IntIn(r, p.MinBlocks, p.MaxBlocks)
	prevTable := false
	for i := 0; i < n; i++ {
		k := g.pickBlockKind()
		if k == BTable && prevTable && r.Intn(3) != 0 {
			// adjacent tables stay possible but are not the norm
			k = BPara
		}
		switch k {
		case BPara:
			if p.EmptyParas && r.Intn(12) == 0 {
				d.Blocks = append(d.Blocks, Block{Kind: BPara, Para: &Para{}})
				d.Feature("para.empty")
			} else {
				pp := g.para(paraOpts{breaks: p.Break, lead: true})
				blk := Block{Kind: BPara, Para: &pp}
				if p.BlockContainers && r.Intn(10) == 0 {
					blk.Wrap = "container"
					d.Feature("block=container")
				}
				d.Blocks = append(d.Blocks, blk)
			}
		case BHeading:
			h := g.heading()
			d.Blocks = append(d.Blocks, Block{Kind: BHeading, Heading: h})
		case BList:
			l := g.list()
			d.Blocks = append(d.Blocks, Block{Kind: BList, List: l})
		case BTable:
			t := g.table()
			if prevTable {
				d.Feature("table.adjacent")
			}
			d.Blocks = append(d.Blocks, Block{Kind: BTable, Table: t})
		}
		prevTable = k == BTable
	}
	if p.HeaderFooter && r.Intn(2) == 0 {
		d.Header = g.partParas()
		d.Feature("part.header")
	}
	if p.HeaderFooter && r.Intn(2) == 0 {
		d.Footer = g.partParas()
		d.Feature("part.footer")
	}
	if p.Title && r.Intn(2) == 0 {
		d.Title = fmt.Sprintf("Generated Title %d", r.Intn(90)+10)
		d.Feature("part.meta")
	}
	if d.HasStyles {
		d.Feature("part.styles")
	}
	return d
}

func (g *gen) pickBlockKind() BlockKind {
	p := g.p
	w := map[BlockKind]int{BPara: 5}
	if len(p.HeadingHows) > 0 {
		w[BHeading] = 2
	}
	if p.Lists {
		w[BList] = 2
	}
	if p.Tables {
		w[BTable] = 2
	}
	switch p.BlockBias {
	case "tables":
		if p.Tables {
			w[BTable] = 6
		}
	case "inline":
		w[BPara] = 10
	case "lists":
		if p.Lists {
			w[BList] = 6
		}
	case "headings":
		if len(p.HeadingHows) > 0 {
			w[BHeading] = 6
		}
	}
	tot := 0
	for _, k := range []BlockKind{BPara, BHeading, BList, BTable} {
		tot += w[k]
	}
	x := g.r.Intn(tot)
	for _, k := range []BlockKind{BPara, BHeading, BList, BTable} {
		if x < w[k] {
			return k
		}
		x -= w[k]
	}
	return BPara
}

type paraOpts struct {
	breaks bool // line breaks allowed
	lead   bool // specials may come first
	simple bool // text only, 1-2 runs
	cell   bool
	plain  bool // no inline containers
}

func (g *gen) text() Item {
	r := g.r
	tok := g.tk.Next()
	s := tok
	pick := func() string {
		if g.p.XMLChars && r.Intn(4) == 0 {
			return xmlWords[r.Intn(len(xmlWords))]
		}
		return words[r.Intn(len(words))]
	}
	switch r.Intn(8) {
	case 0:
		s = pick() + " " + tok
	case 1:
		s = tok + " " + pick()
	case 2:
		s = tok + pick() // glued filler
	case 3:
		s = " " + tok
	case 4:
		s = tok + " "
	}
	if g.p.Pipes && r.Intn(5) == 0 {
		switch r.Intn(3) {
		case 0:
			s = s + "|" + words[r.Intn(len(words))]
		case 1:
			s = "a|" + s
		default:
			s = s + " | "
		}
		g.d.Feature("text.pipe")
	}
	if g.p.Backslash && r.Intn(8) == 0 {
		s = s + "\\n" // backslash followed by a letter: no escape in CommonMark
		g.d.Feature("text.backslash")
	}
	return Item{Kind: KText, Text: s, Token: tok}
}

func (g *gen) special(o paraOpts) (Item, bool) {
	p, r := g.p, g.r
	var kinds []ItemKind
	if p.Tab {
		kinds = append(kinds, KTab)
	}
	if p.Break && o.breaks {
		kinds = append(kinds, KBreak)
	}
	if p.Sym {
		kinds = append(kinds, KSym)
	}
	if p.Spaces {
		kinds = append(kinds, KSpaces)
	}
	if len(kinds) == 0 {
		return Item{}, false
	}
	switch k := kinds[r.Intn(len(kinds))]; k {
	case KTab:
		g.d.Feature("inline=tab")
		return Item{Kind: KTab}, true
	case KBreak:
		g.d.Feature("inline=break")
		return Item{Kind: KBreak}, true
	case KSym:
		g.d.Feature("inline=sym")
		return Item{Kind: KSym, Sym: Symbols[r.Intn(len(Symbols))]}, true
	default:
		g.d.Feature("inline=spaces")
		return Item{Kind: KSpaces, N: 2 + r.Intn(3)}, true
	}
}

func (g *gen) para(o paraOpts) Para {
	r := g.r
	var p Para
	nRuns := 1 + r.Intn(4)
	if o.simple {
		nRuns = 1 + r.Intn(2)
	}
	haveText := false
	for ri := 0; ri < nRuns; ri++ {
		run := Run{}
		switch x := r.Intn(10); {
		case x < 5:
		case x < 7:
			run.Wrap = "span"
		default:
			if len(g.p.Wraps) > 0 && !o.plain {
				run.Wrap = g.p.Wraps[r.Intn(len(g.p.Wraps))]
				g.d.Feature("inline=" + run.Wrap)
			}
		}
		nItems := 1 + r.Intn(3)
		runHasText := false
		for ii := 0; ii < nItems; ii++ {
			wantSpecial := !o.simple && r.Intn(10) < 4
			if o.cell && !g.p.CellSpecials {
				wantSpecial = false
			}
			if wantSpecial && (o.lead || haveText) {
				if it, ok := g.special(o); ok {
					run.Items = append(run.Items, it)
					continue
				}
			}
			run.Items = append(run.Items, g.text())
			haveText, runHasText = true, true
		}
		// a container run always carries a token, so that dropping the
		// container's content is a visible loss
		if run.Wrap != "" && run.Wrap != "span" && !runHasText {
			run.Items = append(run.Items, g.text())
			haveText = true
		}
		p.Runs = append(p.Runs, run)
	}
	if !haveText {
		p.Runs = append(p.Runs, Run{Items: []Item{g.text()}})
	}
	if len(p.Runs) > 1 {
		g.d.Feature("para.multirun")
	}
	return p
}

func (g *gen) heading() *Heading {
	r := g.r
	h := &Heading{Level: 1 + r.Intn(g.p.MaxHeadingLevel)}
	hows := g.p.HeadingHows
	h.How = hows[r.Intn(len(hows))]
	if !g.d.HasStyles {
		// without a styles part only the style-free forms are available
		h.How = nostyleHow(h.How)
	}
	h.Para = g.para(paraOpts{breaks: false, lead: false})
	g.d.Feature("heading.how=" + h.How)
	g.d.Feature(fmt.Sprintf("heading.level=%d", h.Level))
	return h
}

func nostyleHow(how string) string {
	switch how {
	case "builtin", "custom", "basedon", "outline-style", "localized", "outline-direct":
		return "outline-direct"
	default: // ODT forms
		return "h-nostyle"
	}
}

func (g *gen) list() *List {
	r := g.r
	l := &List{}
	for i := range l.Ordered {
		l.Ordered[i] = r.Intn(2) == 0
	}
	n := 1 + r.Intn(6)
	lvl := 0
	for i := 0; i < n; i++ {
		if i > 0 {
			prev := lvl
			lvl = r.Intn(lvl + 2) // 0..prev+1
			if g.p.ListJumps && lvl == prev+1 && r.Intn(4) == 0 {
				lvl++ // level jump
				g.d.Feature("list.level-jump")
			}
			if lvl > g.p.ListMaxDepth {
				lvl = g.p.ListMaxDepth
			}
		}
		it := ListItem{Level: lvl, Para: g.para(paraOpts{breaks: false, lead: false})}
		l.Items = append(l.Items, it)
		if lvl > 0 {
			g.d.Feature("list.nested")
		}
		g.d.Feature(fmt.Sprintf("list.kind=%v", l.Ordered[lvl]))
	}
	return l
}

func (g *gen) table() *Table {
	r, p := g.r, g.p
	t := &Table{NRows: 1 + r.Intn(p.MaxRows), NCols: 1 + r.Intn(p.MaxCols)}
	t.Cells = make([][]*Cell, t.NRows)
	covered := make([][]bool, t.NRows)
	for i := range t.Cells {
		t.Cells[i] = make([]*Cell, t.NCols)
		covered[i] = make([]bool, t.NCols)
	}
	spans := p.Spans && r.Intn(2) == 0
	for row := 0; row < t.NRows; row++ {
		for col := 0; col < t.NCols; col++ {
			if covered[row][col] {
				continue
			}
			c := &Cell{RowSpan: 1, ColSpan: 1}
			if spans && r.Intn(4) == 0 {
				// widest / tallest free extent
				maxC := 1
				for col+maxC < t.NCols && !covered[row][col+maxC] {
					maxC++
				}
				cs := 1 + r.Intn(maxC)
				maxR := t.NRows - row
				rs := 1 + r.Intn(maxR)
				// rows below must be free over the whole width
				for rr := 1; rr < rs; rr++ {
					for cc := 0; cc < cs; cc++ {
						if covered[row+rr][col+cc] {
							rs = rr
							break
						}
					}
				}
				c.RowSpan, c.ColSpan = rs, cs
				if rs > 1 {
					g.d.Feature("table.rowspan")
				}
				if cs > 1 {
					g.d.Feature("table.colspan")
				}
			}
			for rr := 0; rr < c.RowSpan; rr++ {
				for cc := 0; cc < c.ColSpan; cc++ {
					covered[row+rr][col+cc] = true
				}
			}
			// content
			np := 1
			if p.MultiPara && r.Intn(4) == 0 {
				np = 2 + r.Intn(2)
				g.d.Feature("table.multipara")
			}
			if p.EmptyCells && r.Intn(7) == 0 {
				c.Paras = []Para{{}}
				g.d.Feature("table.emptycell")
			} else {
				for i := 0; i < np; i++ {
					c.Paras = append(c.Paras, g.para(paraOpts{breaks: p.Break, lead: true, simple: !p.CellSpecials, cell: true}))
				}
			}
			t.Cells[row][col] = c
		}
	}
	if p.HeaderRows && t.NRows > 1 && r.Intn(3) == 0 {
		ok := true
		for _, c := range t.Cells[0] {
			if c == nil || c.RowSpan > 1 {
				ok = false
			}
		}
		if ok {
			t.HeaderRows = 1
			g.d.Feature("table.headerrow")
		}
	}
	g.d.Feature(fmt.Sprintf("table.shape=%dx%d", t.NRows, t.NCols))
	return t
}

func (g *gen) partParas() []Para {
	n := 1 + g.r.Intn(2)
	out := make([]Para, n)
	for i := range out {
		out[i] = g.para(paraOpts{simple: true, plain: true})
	}
	return out
}
