// Package logical is the format-independent document model behind the
// generated DOCX / ODT (and later XLSX / PPTX / HTML / EPUB) files: blocks
// (heading, paragraph with inline items, list with nested items, table with
// spans and multi-paragraph cells), optional header / footer paragraphs.
// Every text item carries one unique token (fw.NewTokens), so that loss,
// duplication and reordering in any output are decidable by a token trace.
//
// The package also derives the *expectations* an oracle needs from a Doc:
// the units in document order, the token/gap skeleton, the table grids.
package logical

import (
	"fmt"
	"sort"
	"strings"
)

// ItemKind is the kind of one inline item.
type ItemKind int

const (
	KText   ItemKind = iota // literal text containing exactly one token
	KTab                    // tab stop (w:tab / text:tab)
	KBreak                  // line break inside the paragraph (w:br / text:line-break)
	KSym                    // symbol character (w:sym / literal character)
	KSpaces                 // a run of N >= 2 spaces (xml:space=preserve / text:s)
)

// Item is one inline item of a run.
type Item struct {
	Kind  ItemKind
	Text  string // KText: the literal text
	Token string // KText: the token inside Text
	Sym   rune   // KSym
	N     int    // KSpaces
}

// Run is a sequence of items sharing formatting and an optional inline
// container.
type Run struct {
	// Wrap is the inline container around the run:
	//   ""      plain run (DOCX w:r; ODT character data directly in the paragraph)
	//   "span"  formatted run (DOCX w:r with w:rPr; ODT text:span)
	//   "link"  hyperlink (DOCX w:hyperlink; ODT text:a)
	//   "ins"   tracked insertion (DOCX w:ins; ODT: written as span)
	//   "sdt"   inline content control (DOCX w:sdt; ODT: written as span)
	//   "nest"  ODT span nested inside a span (DOCX: written as formatted run)
	Wrap  string
	Items []Item
}

// Para is one paragraph (also the content of a heading, a list item or one
// paragraph of a table cell).
type Para struct {
	Runs []Run
}

// Heading is a heading block.
type Heading struct {
	Level int    // 1..9 as authored
	How   string // builtin | custom | basedon | outline-style | outline-direct (DOCX); h (ODT: text:h) | h-nolevelstyle | h-custom
	Para  Para
}

// ListItem is one list item.
type ListItem struct {
	Level int // 0-based depth
	Para  Para
}

// List is one list (one numbering instance / one text:list).
type List struct {
	Ordered [9]bool // kind per level
	Items   []ListItem
}

// Cell is one table cell (the top-left cell of a merged region).
type Cell struct {
	Paras   []Para // >= 1 (possibly empty) paragraphs
	RowSpan int
	ColSpan int
}

// Table is a rectangular grid; Cells[r][c] is nil where the position is
// covered by a merged region that starts above / to the left.
type Table struct {
	NRows, NCols int
	Cells        [][]*Cell
	HeaderRows   int // leading rows marked as header rows (tblHeader / table-header-rows)
}

// BlockKind discriminates Block.
type BlockKind int

const (
	BPara BlockKind = iota
	BHeading
	BList
	BTable
)

func (k BlockKind) String() string {
	return [...]string{"para", "heading", "list", "table"}[k]
}

// Block is one body-level block.
type Block struct {
	Kind BlockKind
	// Wrap: block-level container around the block: "" or "container"
	// (DOCX: block-level content control w:sdt; ODT: text:section).
	Wrap    string
	Para    *Para
	Heading *Heading
	List    *List
	Table   *Table
}

// Doc is a logical document.
type Doc struct {
	Blocks    []Block
	Header    []Para // header part (nil = no header part)
	Footer    []Para
	Title     string // document metadata title ("" = no metadata part)
	HasStyles bool   // write the styles part
	Features  map[string]bool
}

// Feature records a feature tag on the document.
func (d *Doc) Feature(f string) {
	if d.Features == nil {
		d.Features = map[string]bool{}
	}
	d.Features[f] = true
}

// FeatureList returns the sorted feature tags.
func (d *Doc) FeatureList() []string {
	var out []string
	for f := range d.Features {
		out = append(out, f)
	}
	sort.Strings(out)
	return out
}

// ---------------------------------------------------------------------------
// expectations

// ItemString is the text an item stands for in a faithful plain rendering.
func ItemString(it Item) string {
	switch it.Kind {
	case KText:
		return it.Text
	case KTab:
		return "\t"
	case KBreak:
		return "\n"
	case KSym:
		return string(it.Sym)
	case KSpaces:
		return strings.Repeat(" ", it.N)
	}
	return ""
}

// PlainText is the faithful plain rendering of a paragraph.
func (p *Para) PlainText() string {
	var sb strings.Builder
	for _, r := range p.Runs {
		for _, it := range r.Items {
			sb.WriteString(ItemString(it))
		}
	}
	return sb.String()
}

// Tokens returns the tokens of the paragraph in order.
func (p *Para) Tokens() []string {
	var out []string
	for _, r := range p.Runs {
		for _, it := range r.Items {
			if it.Kind == KText {
				out = append(out, it.Token)
			}
		}
	}
	return out
}

// Empty reports whether the paragraph has no items.
func (p *Para) Empty() bool {
	for _, r := range p.Runs {
		if len(r.Items) > 0 {
			return false
		}
	}
	return true
}

// ItemKinds returns the set of inline kinds (incl. wraps) of the paragraph.
func (p *Para) ItemKinds() map[string]bool {
	m := map[string]bool{}
	for _, r := range p.Runs {
		if r.Wrap != "" {
			m["wrap:"+r.Wrap] = true
		}
		for _, it := range r.Items {
			m[[...]string{"text", "tab", "break", "sym", "spaces"}[it.Kind]] = true
		}
	}
	return m
}

// Unit is one paragraph-like unit of the body in document order.
type Unit struct {
	Kind    string // para | heading | item | cell
	Block   int    // index of the block
	Para    *Para
	Level   int  // heading level / list depth
	Ordered bool // list item kind
	How     string
	Table   *Table
	Row     int
	Col     int
	ParaIdx int
	InTable bool
}

// Units lists the units of the body in document order (table cells in
// row-major order, paragraphs of a cell in order).
func (d *Doc) Units() []Unit {
	var out []Unit
	for bi := range d.Blocks {
		b := &d.Blocks[bi]
		switch b.Kind {
		case BPara:
			out = append(out, Unit{Kind: "para", Block: bi, Para: b.Para})
		case BHeading:
			out = append(out, Unit{Kind: "heading", Block: bi, Para: &b.Heading.Para, Level: b.Heading.Level, How: b.Heading.How})
		case BList:
			for ii := range b.List.Items {
				it := &b.List.Items[ii]
				out = append(out, Unit{Kind: "item", Block: bi, Para: &it.Para, Level: it.Level, Ordered: b.List.Ordered[it.Level]})
			}
		case BTable:
			t := b.Table
			for r := 0; r < t.NRows; r++ {
				for c := 0; c < t.NCols; c++ {
					cell := t.Cells[r][c]
					if cell == nil {
						continue
					}
					for pi := range cell.Paras {
						out = append(out, Unit{Kind: "cell", Block: bi, Para: &cell.Paras[pi], Table: t, Row: r, Col: c, ParaIdx: pi, InTable: true})
					}
				}
			}
		}
	}
	return out
}

// Skeleton is the expected token trace of a sequence of units: the tokens in
// order and, around them, the text expected in the gaps.
type Skeleton struct {
	Tokens []string
	// Inner[i] is the exact text expected between Tokens[i] and Tokens[i+1]
	// when both belong to the same paragraph (SamePara[i]); otherwise the
	// text that must at least survive in that gap (trailing items of the
	// earlier paragraph + leading items of the later one), decoration may
	// be interleaved.
	Inner    []string
	SamePara []bool
	InTable  []bool // token i is inside a table
	Unit     []int  // index of the unit a token belongs to
	Lead     string // text expected before the first token
	Trail    string // text expected after the last token
}

// SkeletonOf computes the expected skeleton of the units.
func SkeletonOf(units []Unit) *Skeleton {
	sk := &Skeleton{}
	pending := "" // text since the last token
	lastUnit := -1
	for ui, u := range units {
		for _, r := range u.Para.Runs {
			for _, it := range r.Items {
				if it.Kind != KText {
					pending += ItemString(it)
					continue
				}
				i := strings.Index(it.Text, it.Token)
				before, after := it.Text[:i], it.Text[i+len(it.Token):]
				pending += before
				if len(sk.Tokens) == 0 {
					sk.Lead = pending
				} else {
					sk.Inner = append(sk.Inner, pending)
					sk.SamePara = append(sk.SamePara, lastUnit == ui)
				}
				sk.Tokens = append(sk.Tokens, it.Token)
				sk.InTable = append(sk.InTable, u.InTable)
				sk.Unit = append(sk.Unit, ui)
				lastUnit = ui
				pending = after
			}
		}
	}
	sk.Trail = pending
	return sk
}

// Grid returns the expected rows x columns of cell texts of the table: the
// text of a merged region at its top-left position, "" elsewhere; the
// paragraphs of a cell joined by "\n".
func (t *Table) Grid() [][]string {
	g := make([][]string, t.NRows)
	for r := range g {
		g[r] = make([]string, t.NCols)
		for c := range g[r] {
			if cell := t.Cells[r][c]; cell != nil {
				var parts []string
				for pi := range cell.Paras {
					parts = append(parts, cell.Paras[pi].PlainText())
				}
				g[r][c] = strings.Join(parts, "\n")
			}
		}
	}
	return g
}

// HasSpans reports whether the table has a merged region.
func (t *Table) HasSpans() bool {
	for r := range t.Cells {
		for _, c := range t.Cells[r] {
			if c != nil && (c.RowSpan > 1 || c.ColSpan > 1) {
				return true
			}
		}
	}
	return false
}

// FirstToken returns the first token of the table ("" if none).
func (t *Table) FirstToken() string {
	for r := range t.Cells {
		for _, c := range t.Cells[r] {
			if c == nil {
				continue
			}
			for pi := range c.Paras {
				if tk := c.Paras[pi].Tokens(); len(tk) > 0 {
					return tk[0]
				}
			}
		}
	}
	return ""
}

// Tokens returns all tokens of the table in row-major order.
func (t *Table) Tokens() []string {
	var out []string
	for r := range t.Cells {
		for _, c := range t.Cells[r] {
			if c == nil {
				continue
			}
			for pi := range c.Paras {
				out = append(out, c.Paras[pi].Tokens()...)
			}
		}
	}
	return out
}

// PartTokens returns the tokens of header / footer paragraphs.
func PartTokens(ps []Para) []string {
	var out []string
	for i := range ps {
		out = append(out, ps[i].Tokens()...)
	}
	return out
}

// Describe renders a compact, deterministic description of the document
// (used as the case descriptor and in replay files).
func (d *Doc) Describe() string {
	var sb strings.Builder
	para := func(p *Para) {
		for _, r := range p.Runs {
			if r.Wrap != "" {
				fmt.Fprintf(&sb, "<%s>", r.Wrap)
			}
			for _, it := range r.Items {
				switch it.Kind {
				case KText:
					fmt.Fprintf(&sb, "%q", it.Text)
				case KTab:
					sb.WriteString("TAB")
				case KBreak:
					sb.WriteString("BR")
				case KSym:
					fmt.Fprintf(&sb, "SYM(%U)", it.Sym)
				case KSpaces:
					fmt.Fprintf(&sb, "SP(%d)", it.N)
				}
				sb.WriteString(" ")
			}
			if r.Wrap != "" {
				fmt.Fprintf(&sb, "</%s>", r.Wrap)
			}
		}
	}
	for i := range d.Blocks {
		b := &d.Blocks[i]
		switch b.Kind {
		case BPara:
			if b.Wrap != "" {
				sb.WriteString("<" + b.Wrap + ">")
			}
			sb.WriteString("P[")
			para(b.Para)
			sb.WriteString("]\n")
		case BHeading:
			fmt.Fprintf(&sb, "H%d(%s)[", b.Heading.Level, b.Heading.How)
			para(&b.Heading.Para)
			sb.WriteString("]\n")
		case BList:
			sb.WriteString("LIST{\n")
			for ii := range b.List.Items {
				it := &b.List.Items[ii]
				k := "ul"
				if b.List.Ordered[it.Level] {
					k = "ol"
				}
				fmt.Fprintf(&sb, " %s%s[", strings.Repeat("  ", it.Level), k)
				para(&it.Para)
				sb.WriteString("]\n")
			}
			sb.WriteString("}\n")
		case BTable:
			t := b.Table
			fmt.Fprintf(&sb, "TABLE %dx%d hdr=%d{\n", t.NRows, t.NCols, t.HeaderRows)
			for r := 0; r < t.NRows; r++ {
				for c := 0; c < t.NCols; c++ {
					cell := t.Cells[r][c]
					if cell == nil {
						sb.WriteString(" (covered)")
						continue
					}
					fmt.Fprintf(&sb, " (r%dc%d %dx%d:", r, c, cell.RowSpan, cell.ColSpan)
					for pi := range cell.Paras {
						sb.WriteString(" P[")
						para(&cell.Paras[pi])
						sb.WriteString("]")
					}
					sb.WriteString(")")
				}
				sb.WriteString("\n")
			}
			sb.WriteString("}\n")
		}
	}
	if d.Header != nil {
		sb.WriteString("HEADER[")
		for i := range d.Header {
			para(&d.Header[i])
		}
		sb.WriteString("]\n")
	}
	if d.Footer != nil {
		sb.WriteString("FOOTER[")
		for i := range d.Footer {
			para(&d.Footer[i])
		}
		sb.WriteString("]\n")
	}
	fmt.Fprintf(&sb, "title=%q styles=%v", d.Title, d.HasStyles)
	return sb.String()
}
