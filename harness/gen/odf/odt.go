// Package odf is an independent OpenDocument Text writer (ODF 1.2):
// archive/zip + hand-written XML, no code shared with tabula.
package odf

import (
	"archive/zip"
	"bytes"
	"fmt"
	"strings"
	"time"

	"verifharness/gen/logical"
)

// Options selects among equivalent spellings of the same logical document.
type Options struct {
	// Neutral lists trigger features written in their neutral form (the
	// logical document stays the same up to the kind of white space):
	//   "link"   text:a        -> text:span
	//   "nest"   nested span   -> single span
	//   "tab"    text:tab      -> one literal space
	//   "break"  text:line-break -> one literal space
	//   "spaces" text:s        -> one literal space
	//   "mixed"  character data directly in text:p next to spans -> every run in its own span
	Neutral map[string]bool
	Pretty  bool // ignorable white space between block-level elements
	// ColumnsRepeated: one table:table-column with number-columns-repeated
	// instead of one element per column.
	ColumnsRepeated bool
	BodyStyle       string // "" | Standard | Text_20_body (only with a styles part)
}

const nsDecl = ` xmlns:office="urn:oasis:names:tc:opendocument:xmlns:office:1.0"` +
	` xmlns:style="urn:oasis:names:tc:opendocument:xmlns:style:1.0"` +
	` xmlns:text="urn:oasis:names:tc:opendocument:xmlns:text:1.0"` +
	` xmlns:table="urn:oasis:names:tc:opendocument:xmlns:table:1.0"` +
	` xmlns:fo="urn:oasis:names:tc:opendocument:xmlns:xsl-fo-compatible:1.0"` +
	` xmlns:xlink="http://www.w3.org/1999/xlink"` +
	` xmlns:dc="http://purl.org/dc/elements/1.1/"` +
	` xmlns:meta="urn:oasis:names:tc:opendocument:xmlns:meta:1.0"` +
	` office:version="1.2"`

const xmlDecl = `<?xml version="1.0" encoding="UTF-8"?>` + "\n"

func esc(s string) string {
	var sb strings.Builder
	for _, r := range s {
		switch r {
		case '&':
			sb.WriteString("&amp;")
		case '<':
			sb.WriteString("&lt;")
		case '>':
			sb.WriteString("&gt;")
		case '"':
			sb.WriteString("&quot;")
		default:
			sb.WriteRune(r)
		}
	}
	return sb.String()
}

type odtW struct {
	d     *logical.Doc
	o     Options
	nl    string
	links int
	lists []*logical.List
	ntab  int
	nsect int
}

// HeadingStyleName returns the paragraph style of a heading authored in the
// given way, and the outline level written on text:h.
func HeadingStyleName(how string, level int) string {
	switch how {
	case "h":
		return fmt.Sprintf("Heading_20_%d", level)
	case "h-custom":
		return fmt.Sprintf("Chapter_20_%d", level)
	case "h-nolevelstyle":
		return fmt.Sprintf("Heading_20_%d_20_plain", level)
	case "h-mismatch":
		return fmt.Sprintf("Heading_20_%d", level%9+1)
	}
	return ""
}

// WriteODT serialises the logical document as an ODT package.
func WriteODT(d *logical.Doc, o Options) []byte {
	w := &odtW{d: d, o: o}
	if o.Pretty {
		w.nl = "\n  "
	}
	for i := range d.Blocks {
		if d.Blocks[i].Kind == logical.BList {
			w.lists = append(w.lists, d.Blocks[i].List)
		}
	}
	var body strings.Builder
	li := 0
	for i := range d.Blocks {
		b := &d.Blocks[i]
		switch b.Kind {
		case logical.BPara:
			style := ""
			if d.HasStyles {
				style = o.BodyStyle
			}
			px := w.para("text:p", styleAttr(style), b.Para)
			if b.Wrap == "container" {
				w.nsect++
				px = fmt.Sprintf(`<text:section text:name="Section%d">%s</text:section>`, w.nsect, px)
			}
			body.WriteString(px)
		case logical.BHeading:
			h := b.Heading
			style := ""
			if d.HasStyles {
				style = HeadingStyleName(h.How, h.Level)
			}
			body.WriteString(w.para("text:h", styleAttr(style)+fmt.Sprintf(` text:outline-level="%d"`, h.Level), &h.Para))
		case logical.BList:
			li++
			body.WriteString(w.list(b.List, li))
		case logical.BTable:
			body.WriteString(w.table(b.Table))
		}
		body.WriteString(w.nl)
	}

	var auto strings.Builder
	auto.WriteString(`<style:style style:name="T1" style:family="text"><style:text-properties fo:font-weight="bold"/></style:style>`)
	auto.WriteString(`<style:style style:name="T2" style:family="text"><style:text-properties fo:font-style="italic"/></style:style>`)
	auto.WriteString(`<style:style style:name="Tbl" style:family="table"><style:table-properties style:width="16cm" table:align="margins"/></style:style>`)
	auto.WriteString(`<style:style style:name="Tbl.A" style:family="table-column"><style:table-column-properties style:column-width="3cm"/></style:style>`)
	auto.WriteString(`<style:style style:name="Tbl.A1" style:family="table-cell"><style:table-cell-properties fo:padding="0.1cm" fo:border="0.5pt solid #000000"/></style:style>`)
	for i, l := range w.lists {
		fmt.Fprintf(&auto, `<text:list-style style:name="L%d">`, i+1)
		for lvl := 0; lvl < 9; lvl++ {
			if l.Ordered[lvl] {
				fmt.Fprintf(&auto, `<text:list-level-style-number text:level="%d" style:num-suffix="." style:num-format="1"><style:list-level-properties text:space-before="%.2fcm" text:min-label-width="0.6cm"/></text:list-level-style-number>`, lvl+1, 0.6*float64(lvl+1))
			} else {
				fmt.Fprintf(&auto, `<text:list-level-style-bullet text:level="%d" text:bullet-char="&#8226;"><style:list-level-properties text:space-before="%.2fcm" text:min-label-width="0.6cm"/></text:list-level-style-bullet>`, lvl+1, 0.6*float64(lvl+1))
			}
		}
		auto.WriteString(`</text:list-style>`)
	}

	content := xmlDecl + `<office:document-content` + nsDecl + `>` + w.nl +
		`<office:automatic-styles>` + auto.String() + `</office:automatic-styles>` + w.nl +
		`<office:body>` + w.nl + `<office:text>` + w.nl + body.String() + `</office:text>` + w.nl + `</office:body>` + w.nl + `</office:document-content>`

	type part struct {
		name, mt string
		data     []byte
	}
	parts := []part{{"content.xml", "text/xml", []byte(content)}}
	if d.HasStyles || d.Header != nil || d.Footer != nil {
		parts = append(parts, part{"styles.xml", "text/xml", []byte(w.styles())})
	}
	if d.Title != "" {
		meta := xmlDecl + `<office:document-meta` + nsDecl + `><office:meta><dc:title>` + esc(d.Title) + `</dc:title><meta:generator>Harness/1</meta:generator></office:meta></office:document-meta>`
		parts = append(parts, part{"meta.xml", "text/xml", []byte(meta)})
	}
	var mf strings.Builder
	mf.WriteString(xmlDecl + `<manifest:manifest xmlns:manifest="urn:oasis:names:tc:opendocument:xmlns:manifest:1.0" manifest:version="1.2">` +
		`<manifest:file-entry manifest:full-path="/" manifest:version="1.2" manifest:media-type="application/vnd.oasis.opendocument.text"/>`)
	for _, p := range parts {
		fmt.Fprintf(&mf, `<manifest:file-entry manifest:full-path="%s" manifest:media-type="%s"/>`, p.name, p.mt)
	}
	mf.WriteString(`</manifest:manifest>`)

	var buf bytes.Buffer
	zw := zip.NewWriter(&buf)
	mod := time.Date(2020, 1, 2, 3, 4, 6, 0, time.UTC)
	add := func(name string, data []byte, store bool) {
		h := &zip.FileHeader{Name: name, Method: zip.Deflate, Modified: mod}
		if store {
			h.Method = zip.Store
		}
		f, err := zw.CreateHeader(h)
		if err != nil {
			panic(err)
		}
		f.Write(data)
	}
	// ODF 1.2 part 3 §3.3: mimetype first, uncompressed
	add("mimetype", []byte("application/vnd.oasis.opendocument.text"), true)
	for _, p := range parts {
		add(p.name, p.data, false)
	}
	add("META-INF/manifest.xml", []byte(mf.String()), false)
	if err := zw.Close(); err != nil {
		panic(err)
	}
	return buf.Bytes()
}

func styleAttr(name string) string {
	if name == "" {
		return ""
	}
	return ` text:style-name="` + name + `"`
}

// isMixed: the paragraph has character data directly in the paragraph
// element together with at least one child element carrying text.
func isMixed(p *logical.Para) bool {
	plain, wrapped := false, false
	for _, r := range p.Runs {
		if r.Wrap == "" {
			plain = true
		} else {
			wrapped = true
		}
	}
	return plain && wrapped
}

func (w *odtW) items(items []logical.Item) string {
	var sb strings.Builder
	for _, it := range items {
		switch it.Kind {
		case logical.KText:
			sb.WriteString(esc(it.Text))
		case logical.KTab:
			if w.o.Neutral["tab"] {
				sb.WriteString(" ")
			} else {
				sb.WriteString(`<text:tab/>`)
			}
		case logical.KBreak:
			if w.o.Neutral["break"] {
				sb.WriteString(" ")
			} else {
				sb.WriteString(`<text:line-break/>`)
			}
		case logical.KSym:
			sb.WriteString(esc(string(it.Sym)))
		case logical.KSpaces:
			if w.o.Neutral["spaces"] {
				sb.WriteString(" ")
			} else {
				fmt.Fprintf(&sb, `<text:s text:c="%d"/>`, it.N)
			}
		}
	}
	return sb.String()
}

func (w *odtW) para(tag, attrs string, p *logical.Para) string {
	var sb strings.Builder
	sb.WriteString("<" + tag + attrs + ">")
	allSpans := w.o.Neutral["mixed"] && isMixed(p)
	for _, r := range p.Runs {
		inner := w.items(r.Items)
		wrap := r.Wrap
		if wrap == "link" && w.o.Neutral["link"] {
			wrap = "span"
		}
		if wrap == "nest" && w.o.Neutral["nest"] {
			wrap = "span"
		}
		if wrap == "" && allSpans {
			wrap = "span0"
		}
		switch wrap {
		case "":
			sb.WriteString(inner)
		case "span0":
			sb.WriteString(`<text:span>` + inner + `</text:span>`)
		case "link":
			w.links++
			fmt.Fprintf(&sb, `<text:a xlink:type="simple" xlink:href="http://example.invalid/%d">%s</text:a>`, w.links, inner)
		case "nest":
			sb.WriteString(`<text:span text:style-name="T1"><text:span text:style-name="T2">` + inner + `</text:span></text:span>`)
		default: // span, ins, sdt, smart: a formatted span
			sb.WriteString(`<text:span text:style-name="T1">` + inner + `</text:span>`)
		}
	}
	sb.WriteString("</" + tag + ">")
	return sb.String()
}

func (w *odtW) list(l *logical.List, n int) string {
	var sb strings.Builder
	// items[i:] at depth lvl
	var emit func(i, lvl int, top bool) int
	emit = func(i, lvl int, top bool) int {
		if top {
			fmt.Fprintf(&sb, `<text:list text:style-name="L%d">`, n)
		} else {
			sb.WriteString(`<text:list>`)
		}
		for i < len(l.Items) && l.Items[i].Level >= lvl {
			sb.WriteString(`<text:list-item>`)
			if l.Items[i].Level == lvl {
				sb.WriteString(w.para("text:p", "", &l.Items[i].Para))
				i++
			} // else: a text-less wrapper item around the deeper list (a level jump, ODF 1.2 part 1 §5.3.4)
			if i < len(l.Items) && l.Items[i].Level > lvl {
				i = emit(i, lvl+1, false)
			}
			sb.WriteString(`</text:list-item>`)
		}
		sb.WriteString(`</text:list>`)
		return i
	}
	emit(0, 0, true)
	return sb.String()
}

func (w *odtW) table(t *logical.Table) string {
	var sb strings.Builder
	w.ntab++
	fmt.Fprintf(&sb, `<table:table table:name="Table%d" table:style-name="Tbl">`, w.ntab)
	if w.o.ColumnsRepeated && t.NCols > 1 {
		fmt.Fprintf(&sb, `<table:table-column table:style-name="Tbl.A" table:number-columns-repeated="%d"/>`, t.NCols)
	} else {
		for c := 0; c < t.NCols; c++ {
			sb.WriteString(`<table:table-column table:style-name="Tbl.A"/>`)
		}
	}
	row := func(r int) {
		sb.WriteString(w.nl + `<table:table-row>`)
		for c := 0; c < t.NCols; c++ {
			cell := t.Cells[r][c]
			if cell == nil {
				sb.WriteString(`<table:covered-table-cell/>`)
				continue
			}
			sb.WriteString(`<table:table-cell table:style-name="Tbl.A1" office:value-type="string"`)
			if cell.ColSpan > 1 {
				fmt.Fprintf(&sb, ` table:number-columns-spanned="%d"`, cell.ColSpan)
			}
			if cell.RowSpan > 1 {
				fmt.Fprintf(&sb, ` table:number-rows-spanned="%d"`, cell.RowSpan)
			}
			sb.WriteString(`>`)
			for pi := range cell.Paras {
				sb.WriteString(w.para("text:p", "", &cell.Paras[pi]))
			}
			sb.WriteString(`</table:table-cell>`)
		}
		sb.WriteString(`</table:table-row>`)
	}
	if t.HeaderRows > 0 {
		sb.WriteString(`<table:table-header-rows>`)
		for r := 0; r < t.HeaderRows; r++ {
			row(r)
		}
		sb.WriteString(`</table:table-header-rows>`)
	}
	for r := t.HeaderRows; r < t.NRows; r++ {
		row(r)
	}
	sb.WriteString(w.nl + `</table:table>`)
	return sb.String()
}

func (w *odtW) styles() string {
	var sb strings.Builder
	sb.WriteString(xmlDecl + `<office:document-styles` + nsDecl + `>`)
	sb.WriteString(`<office:styles>`)
	if w.d.HasStyles {
		sb.WriteString(`<style:default-style style:family="paragraph"><style:text-properties fo:font-size="12pt"/></style:default-style>` +
			`<style:style style:name="Standard" style:family="paragraph" style:class="text"/>` +
			`<style:style style:name="Text_20_body" style:display-name="Text body" style:family="paragraph" style:parent-style-name="Standard" style:class="text"><style:paragraph-properties fo:margin-top="0cm" fo:margin-bottom="0.25cm"/></style:style>` +
			`<style:style style:name="Heading" style:family="paragraph" style:parent-style-name="Standard" style:next-style-name="Text_20_body" style:class="text"><style:text-properties fo:font-size="14pt"/></style:style>`)
		for n := 1; n <= 9; n++ {
			fmt.Fprintf(&sb, `<style:style style:name="Heading_20_%d" style:display-name="Heading %d" style:family="paragraph" style:parent-style-name="Heading" style:next-style-name="Text_20_body" style:default-outline-level="%d" style:class="text"><style:text-properties fo:font-weight="bold"/></style:style>`, n, n, n)
			fmt.Fprintf(&sb, `<style:style style:name="Chapter_20_%d" style:display-name="Chapter %d" style:family="paragraph" style:parent-style-name="Heading_20_%d"/>`, n, n, n)
			fmt.Fprintf(&sb, `<style:style style:name="Heading_20_%d_20_plain" style:display-name="Heading %d plain" style:family="paragraph" style:parent-style-name="Heading"/>`, n, n)
		}
	}
	sb.WriteString(`</office:styles>`)
	sb.WriteString(`<office:automatic-styles><style:page-layout style:name="pm1"><style:page-layout-properties fo:page-width="21cm" fo:page-height="29.7cm" fo:margin-top="2cm" fo:margin-bottom="2cm" fo:margin-left="2cm" fo:margin-right="2cm"/>` +
		`<style:header-style><style:header-footer-properties fo:min-height="0.6cm"/></style:header-style><style:footer-style><style:header-footer-properties fo:min-height="0.6cm"/></style:footer-style></style:page-layout></office:automatic-styles>`)
	sb.WriteString(`<office:master-styles><style:master-page style:name="Standard" style:page-layout-name="pm1">`)
	if w.d.Header != nil {
		sb.WriteString(`<style:header>`)
		for i := range w.d.Header {
			sb.WriteString(w.para("text:p", "", &w.d.Header[i]))
		}
		sb.WriteString(`</style:header>`)
	}
	if w.d.Footer != nil {
		sb.WriteString(`<style:footer>`)
		for i := range w.d.Footer {
			sb.WriteString(w.para("text:p", "", &w.d.Footer[i]))
		}
		sb.WriteString(`</style:footer>`)
	}
	sb.WriteString(`</style:master-page></office:master-styles></office:document-styles>`)
	return sb.String()
}

// Features lists the format-level trigger features of the document as an ODT
// file ("odt.inline=tab", "odt.inline=mixed", …).
func Features(d *logical.Doc) map[string]bool {
	m := map[string]bool{}
	for _, u := range d.Units() {
		if isMixed(u.Para) {
			m["odt.inline=mixed"] = true
		}
		for _, r := range u.Para.Runs {
			switch r.Wrap {
			case "link", "nest":
				m["odt.inline="+r.Wrap] = true
			}
			for _, it := range r.Items {
				switch it.Kind {
				case logical.KTab:
					m["odt.inline=tab"] = true
				case logical.KBreak:
					m["odt.inline=break"] = true
				case logical.KSpaces:
					m["odt.inline=spaces"] = true
				}
			}
		}
	}
	for i := range d.Blocks {
		if b := &d.Blocks[i]; b.Kind == logical.BHeading {
			switch b.Heading.How {
			case "h-nolevelstyle", "h-mismatch":
				if d.HasStyles {
					m["odt.heading="+b.Heading.How] = true
				}
			}
		}
		if b := &d.Blocks[i]; b.Kind == logical.BTable && b.Table.HeaderRows > 0 {
			m["odt.table=header-rows"] = true
		}
	}
	return m
}
