package htmlw

import (
	"fmt"
	"html"
	"strings"

	"verifharness/gen/logical"
)

// FromLogical writes a logical document as an HTML page: h1..h6, p (with br for
// line breaks), nested ul/ol, table with rowspan/colspan (covered positions have
// no td) and one <p> per paragraph of a multi-paragraph cell.
func FromLogical(d *logical.Doc) []byte { return fromLogical(d, false) }

// XHTMLFromLogical is FromLogical as a well-formed XHTML content document (EPUB).
func XHTMLFromLogical(d *logical.Doc) []byte { return fromLogical(d, true) }

func fromLogical(d *logical.Doc, xhtml bool) []byte {
	var sb strings.Builder
	if xhtml {
		sb.WriteString("<?xml version=\"1.0\" encoding=\"UTF-8\"?>\n<html xmlns=\"http://www.w3.org/1999/xhtml\"><head><meta charset=\"utf-8\"/>")
	} else {
		sb.WriteString("<!DOCTYPE html>\n<html><head><meta charset=\"utf-8\">")
	}
	if d.Title != "" {
		fmt.Fprintf(&sb, "<title>%s</title>", html.EscapeString(d.Title))
	}
	sb.WriteString("</head>\n<body>\n<main>\n")
	for bi := range d.Blocks {
		b := &d.Blocks[bi]
		switch b.Kind {
		case logical.BPara:
			fmt.Fprintf(&sb, "<p>%s</p>\n", inlineHTML(b.Para))
		case logical.BHeading:
			l := b.Heading.Level
			if l > 6 {
				l = 6
			}
			fmt.Fprintf(&sb, "<h%d>%s</h%d>\n", l, inlineHTML(&b.Heading.Para), l)
		case logical.BList:
			writeList(&sb, b.List)
		case logical.BTable:
			t := b.Table
			sb.WriteString("<table>\n")
			for r := 0; r < t.NRows; r++ {
				sb.WriteString("<tr>")
				// the empty cells at the end of every other row (the first one included)
				// are left out: a row with fewer cells than the table is wide is padded
				// by the table model (HTML 4.9.12, "forming a table"); another row keeps
				// the table's width
				last := t.NCols - 1
				if r%2 == 0 && t.NRows > 1 {
					for last > 0 {
						cl := t.Cells[r][last]
						if cl == nil || cl.RowSpan > 1 || cl.ColSpan > 1 {
							break
						}
						empty := true
						for pi := range cl.Paras {
							if !cl.Paras[pi].Empty() {
								empty = false
							}
						}
						covered := false
						for rr := 0; rr < r; rr++ { // a row span from above reaching this slot
							for cc := 0; cc <= last; cc++ {
								if up := t.Cells[rr][cc]; up != nil && rr+up.RowSpan > r && cc+up.ColSpan > last {
									covered = true
								}
							}
						}
						own := false // the row keeps at least one cell of its own
						for cc := 0; cc < last; cc++ {
							if t.Cells[r][cc] != nil {
								own = true
							}
						}
						if !empty || covered || !own {
							break
						}
						last--
					}
				}
				for c := 0; c <= last; c++ {
					cell := t.Cells[r][c]
					if cell == nil {
						continue
					}
					tag := "td"
					if r < t.HeaderRows {
						tag = "th"
					}
					attr := ""
					if cell.RowSpan > 1 {
						attr += fmt.Sprintf(` rowspan="%d"`, cell.RowSpan)
					}
					if cell.ColSpan > 1 {
						attr += fmt.Sprintf(` colspan="%d"`, cell.ColSpan)
					}
					fmt.Fprintf(&sb, "<%s%s>", tag, attr)
					if len(cell.Paras) == 1 {
						sb.WriteString(inlineHTML(&cell.Paras[0]))
					} else {
						for pi := range cell.Paras {
							fmt.Fprintf(&sb, "<p>%s</p>", inlineHTML(&cell.Paras[pi]))
						}
					}
					fmt.Fprintf(&sb, "</%s>", tag)
				}
				sb.WriteString("</tr>\n")
			}
			sb.WriteString("</table>\n")
		}
	}
	sb.WriteString("</main>\n</body></html>\n")
	return []byte(sb.String())
}

func inlineHTML(p *logical.Para) string {
	var sb strings.Builder
	for _, run := range p.Runs {
		open, shut := "", ""
		switch run.Wrap {
		case "span", "nest", "sdt", "ins":
			open, shut = "<span>", "</span>"
		case "link":
			open, shut = `<a href="http://example.invalid/">`, "</a>"
		}
		sb.WriteString(open)
		for _, it := range run.Items {
			if it.Kind == logical.KBreak {
				sb.WriteString("<br/>")
				continue
			}
			sb.WriteString(html.EscapeString(logical.ItemString(it)))
		}
		sb.WriteString(shut)
	}
	return sb.String()
}

// writeList nests the flat (level, item) sequence: a deeper item opens a list
// inside the <li> of its predecessor.
func writeList(sb *strings.Builder, l *logical.List) {
	tag := func(level int) string {
		if level >= 0 && level < len(l.Ordered) && l.Ordered[level] {
			return "ol"
		}
		return "ul"
	}
	depth := -1 // deepest open list level
	for i := range l.Items {
		it := &l.Items[i]
		lv := it.Level
		if lv > depth+1 {
			lv = depth + 1
		}
		for depth > lv {
			fmt.Fprintf(sb, "</li></%s>", tag(depth))
			depth--
		}
		if depth == lv {
			sb.WriteString("</li>\n")
		}
		for depth < lv {
			depth++
			fmt.Fprintf(sb, "<%s>\n", tag(depth))
		}
		fmt.Fprintf(sb, "<li>%s", inlineHTML(&it.Para))
	}
	for depth >= 0 {
		fmt.Fprintf(sb, "</li></%s>\n", tag(depth))
		depth--
	}
}
