package htmlw

import (
	"bytes"
	"encoding/xml"
	"io"
	"testing"

	"verifharness/fw"
)

// The generator's belief about the parsed tree must hold for every seed.
func TestGeneratorMatchesParser(t *testing.T) {
	bad := 0
	roles := map[Role]int{}
	feats := map[string]int{}
	for i := 0; i < 4000; i++ {
		r := fw.RandFor(int64(i%7), "htmlw-test", i)
		d := Generate(r, fw.NewTokens(fw.RandFor(1, "tok", i)), Options{Malformed: i%2 == 0})
		for _, u := range d.Units {
			roles[u.Role]++
		}
		for f := range d.Features {
			feats[f]++
		}
		if err := d.Verify(); err != nil {
			bad++
			if bad <= 3 {
				t.Errorf("doc %d: %v\n%s", i, err, d.HTML)
			}
		}
	}
	t.Logf("roles %v", roles)
	t.Logf("features %v", feats)
	if bad > 0 {
		t.Fatalf("%d mismatching documents", bad)
	}
}

// XHTML mode must produce well-formed XML whose character data equals the
// generator's decoded text (so an XML reader and an HTML reader agree).
func TestXHTMLWellFormed(t *testing.T) {
	for i := 0; i < 1500; i++ {
		d := Generate(fw.RandFor(3, "xhtml-test", i), fw.NewTokens(fw.RandFor(1, "tok", i)), Options{XHTML: true})
		if err := d.Verify(); err != nil {
			t.Fatalf("doc %d: %v\n%s", i, err, d.HTML)
		}
		dec := xml.NewDecoder(bytes.NewReader(d.HTML))
		dec.Strict = true
		for {
			_, err := dec.Token()
			if err == io.EOF {
				break
			}
			if err != nil {
				t.Fatalf("doc %d not well-formed: %v\n%s", i, err, d.HTML)
			}
		}
	}
}
