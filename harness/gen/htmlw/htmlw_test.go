package htmlw

import (
	"testing"

	"verifharness/fw"
)

// The generator's belief about the parsed tree must hold for every seed.
func TestGeneratorMatchesParser(t *testing.T) {
	bad := 0
	roles := map[Role]int{}
	feats := map[string]int{}
	for i := 0; i < 4000; i++ {
		r := fw.RandFor(int64(i%7), "htmlw-test", i)
		d := Generate(r, fw.NewTokens(fw.RandFor(1, "tok", i)), Options{Malformed: i%2 == 0})
		for _, u := range d.Units {
			roles[u.Role]++
		}
		for f := range d.Features {
			feats[f]++
		}
		if err := d.Verify(); err != nil {
			bad++
			if bad <= 3 {
				t.Errorf("doc %d: %v\n%s", i, err, d.HTML)
			}
		}
	}
	t.Logf("roles %v", roles)
	t.Logf("features %v", feats)
	if bad > 0 {
		t.Fatalf("%d mismatching documents", bad)
	}
}
