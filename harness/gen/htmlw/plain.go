package htmlw

import (
	"bytes"
	"fmt"
	"html"
	"math/rand"
	"strings"

	"verifharness/fw"
)

// PlainArticle is a simple, well-formed article for checks that only need
// "some HTML with known structure" (C15, C20, C02): headings, paragraphs,
// lists (nested by Level), tables, pre and blockquote. Text is plain text;
// RenderPlain escapes it.
type PlainArticle struct {
	Title  string
	Blocks []PlainBlock
}

// PlainBlock is one block of a PlainArticle.
type PlainBlock struct {
	Kind    string      // "h1".."h6", "p", "ul", "ol", "table", "pre", "blockquote"
	Text    string      // h*, p, pre, blockquote
	Items   []PlainItem // ul, ol (Level 0 = top; a deeper item follows its parent)
	Header  []string    // table: header cells (nil = no header row)
	Rows    [][]string  // table: body rows
	Caption string      // table: optional caption
}

// PlainItem is one list item.
type PlainItem struct {
	Text  string
	Level int
}

// RenderPlain renders the article as a complete, conforming HTML5 document
// (doctype, head with title and charset, all end tags written).
func RenderPlain(a PlainArticle) []byte {
	var b bytes.Buffer
	esc := html.EscapeString
	fmt.Fprintf(&b, "<!DOCTYPE html>\n<html lang=\"en\">\n<head>\n<meta charset=\"utf-8\">\n<title>%s</title>\n</head>\n<body>\n", esc(a.Title))
	for _, bl := range a.Blocks {
		switch bl.Kind {
		case "ul", "ol":
			renderPlainList(&b, bl.Kind, bl.Items)
		case "table":
			b.WriteString("<table>\n")
			if bl.Caption != "" {
				fmt.Fprintf(&b, "<caption>%s</caption>\n", esc(bl.Caption))
			}
			if bl.Header != nil {
				b.WriteString("<thead>\n<tr>")
				for _, c := range bl.Header {
					fmt.Fprintf(&b, "<th>%s</th>", esc(c))
				}
				b.WriteString("</tr>\n</thead>\n")
			}
			b.WriteString("<tbody>\n")
			for _, r := range bl.Rows {
				b.WriteString("<tr>")
				for _, c := range r {
					fmt.Fprintf(&b, "<td>%s</td>", esc(c))
				}
				b.WriteString("</tr>\n")
			}
			b.WriteString("</tbody>\n</table>\n")
		default:
			fmt.Fprintf(&b, "<%s>%s</%s>\n", bl.Kind, esc(bl.Text), bl.Kind)
		}
	}
	b.WriteString("</body>\n</html>\n")
	return b.Bytes()
}

func renderPlainList(b *bytes.Buffer, tag string, items []PlainItem) {
	// items in pre-order with levels; open/close nested lists as the level moves
	level := -1
	for i, it := range items {
		lv := it.Level
		if lv > level+1 {
			lv = level + 1
		}
		if lv < 0 {
			lv = 0
		}
		switch {
		case lv > level:
			fmt.Fprintf(b, "\n%s<%s>\n", strings.Repeat("  ", lv), tag)
		case lv == level:
			b.WriteString("</li>\n")
		default:
			b.WriteString("</li>\n")
			for k := level; k > lv; k-- {
				fmt.Fprintf(b, "%s</%s>\n%s</li>\n", strings.Repeat("  ", k), tag, strings.Repeat("  ", k-1))
			}
		}
		level = lv
		fmt.Fprintf(b, "%s<li>%s", strings.Repeat("  ", lv), html.EscapeString(it.Text))
		_ = i
	}
	if level >= 0 {
		b.WriteString("</li>\n")
		for k := level; k > 0; k-- {
			fmt.Fprintf(b, "%s</%s>\n%s</li>\n", strings.Repeat("  ", k), tag, strings.Repeat("  ", k-1))
		}
		fmt.Fprintf(b, "</%s>\n", tag)
	}
}

// SamplePlain builds a random plain article: a title heading, sections with
// paragraphs, one nested list, one ordered list and exactly one table. Every
// text carries one token of tk followed by a few filler words, so callers can
// trace it.
func SamplePlain(r *rand.Rand, tk *fw.Tokens) PlainArticle {
	txt := func(n int) string {
		w := []string{tk.Next()}
		for i := 0; i < n; i++ {
			w = append(w, fillerWords[r.Intn(len(fillerWords))])
		}
		return strings.Join(w, " ")
	}
	a := PlainArticle{Title: "Plain article " + fillerWords[r.Intn(len(fillerWords))]}
	a.Blocks = append(a.Blocks, PlainBlock{Kind: "h1", Text: txt(3)})
	a.Blocks = append(a.Blocks, PlainBlock{Kind: "p", Text: txt(12 + r.Intn(20))})
	secs := 2 + r.Intn(3)
	tableAt := r.Intn(secs)
	for s := 0; s < secs; s++ {
		a.Blocks = append(a.Blocks, PlainBlock{Kind: "h2", Text: txt(2)})
		for p, np := 0, 1+r.Intn(3); p < np; p++ {
			a.Blocks = append(a.Blocks, PlainBlock{Kind: "p", Text: txt(8 + r.Intn(30))})
		}
		if s == 0 {
			a.Blocks = append(a.Blocks, PlainBlock{Kind: "ul", Items: []PlainItem{
				{txt(2), 0}, {txt(2), 1}, {txt(1), 1}, {txt(3), 0}, {txt(1), 1}, {txt(1), 2}, {txt(2), 0}}})
		}
		if s == 1 {
			a.Blocks = append(a.Blocks, PlainBlock{Kind: "h3", Text: txt(2)})
			a.Blocks = append(a.Blocks, PlainBlock{Kind: "ol", Items: []PlainItem{{txt(2), 0}, {txt(2), 0}, {txt(2), 0}}})
		}
		if s == tableAt {
			cols := 2 + r.Intn(3)
			t := PlainBlock{Kind: "table"}
			for c := 0; c < cols; c++ {
				t.Header = append(t.Header, txt(0))
			}
			for rr, nr := 0, 2+r.Intn(3); rr < nr; rr++ {
				var row []string
				for c := 0; c < cols; c++ {
					row = append(row, txt(r.Intn(2)))
				}
				t.Rows = append(t.Rows, row)
			}
			a.Blocks = append(a.Blocks, t)
		}
	}
	a.Blocks = append(a.Blocks, PlainBlock{Kind: "blockquote", Text: txt(6)}, PlainBlock{Kind: "pre", Text: txt(4)})
	return a
}
