// Package htmlw is an independent HTML writer for the verification harness.
//
// It builds DOM trees that mix content elements (headings, paragraphs, nested
// lists, tables with row/column spans, pre/code, blockquote) with
// nav/aside/header/footer elements, ARIA roles, class/id names from and near
// the usual boilerplate vocabulary, link-dense and link-sparse blocks at any
// depth, entities in named/decimal/hex form, script/style/comment noise and,
// optionally, unclosed / mis-nested markup that the HTML5 tree construction
// algorithm repairs in exactly one way. The tree the generator keeps is the
// tree a conforming parser builds (Doc.Verify checks that against
// golang.org/x/net/html), so every text unit knows its real ancestors.
//
// Every text unit carries one unique token (fw.NewTokens) and a role:
//
//	Protected   content element far away from anything that could make a
//	            navigation filter remove it (see classify)
//	Excludable  content element inside a subtree that carries an explicit
//	            trigger (nav/aside/header/footer, ARIA landmark role,
//	            vocabulary class/id)
//	Content     any other content element (near-vocabulary names, links inside,
//	            link density not far from a threshold, …)
//	Loose       text outside the content elements of the property statement
//	            (caption, figcaption, dt/dd, bare links, text of a div)
//	Noise       script / style / comment / attribute text
//
// Nothing of tabula is imported here.
package htmlw

import (
	"bytes"
	"fmt"
	"math/rand"
	"sort"
	"strings"
	"unicode"

	"verifharness/fw"
)

// Role of a text unit.
type Role uint8

const (
	Content Role = iota
	Protected
	Excludable
	Loose
	Noise
)

func (r Role) String() string {
	return [...]string{"content", "protected", "excludable", "loose", "noise"}[r]
}

// IsContent is true for the roles that sit in a content element of the
// statement (they must be returned in mode None).
func (r Role) IsContent() bool { return r == Content || r == Protected || r == Excludable }

// Unit is one text unit of a generated document.
type Unit struct {
	Token   string
	Role    Role
	Kind    string // innermost content element(s): p, h3, li, li>p, td, th, pre, blockquote, … / loose and noise kinds
	Path    string // structural ancestors from body, with class/id/role
	Decoded string // text a conforming parser yields for the unit (entities decoded, inline markup removed)
	Links   int    // <a> elements inside the unit
	Why     string // first reason the unit is not Protected ("" for protected units)
}

// Doc is a generated document.
type Doc struct {
	HTML       []byte
	Units      []*Unit // document order
	Features   map[string]bool
	Excludable int // subtrees with an explicit exclusion trigger
	Flat       string
	chains     map[string]string
}

// Tokens returns the tokens of the units whose role satisfies keep, in document order.
func (d *Doc) Tokens(keep func(Role) bool) []string {
	var out []string
	for _, u := range d.Units {
		if keep(u.Role) {
			out = append(out, u.Token)
		}
	}
	return out
}

// FeatureList returns the sorted feature tags.
func (d *Doc) FeatureList() []string {
	out := make([]string, 0, len(d.Features))
	for f := range d.Features {
		out = append(out, f)
	}
	sort.Strings(out)
	return out
}

// Options steer the generator.
type Options struct {
	Malformed bool // allow unclosed / mis-nested markup (repaired unambiguously by HTML5 parsing)
	XHTML     bool // well-formed XML serialisation (EPUB content document): implies !Malformed, only XML-safe character references
	MaxDepth  int  // container nesting (default 4)
	Blocks    int  // body-level blocks (default random 4..14)
}

type attr struct{ k, v string }

type node struct {
	tag       string // element name; "" text; "!" comment; "^" raw markup fragment (mis-nesting)
	attrs     []attr
	kids      []*node
	raw, dec  string
	unit      *Unit // text node carrying the unit's token
	omitEnd   bool
	omitStart bool
	clean     bool // no malformation inside
	nameKind  int  // class/id origin: 0 none, 1 safe, 2 near-vocabulary, 3 vocabulary
	// filled by stats
	links, linkBytes, textRunes int
}

func el(tag string, kids ...*node) *node { return &node{tag: tag, kids: kids} }

func (n *node) with(k, v string) *node { n.attrs = append(n.attrs, attr{k, v}); return n }

func (n *node) get(k string) string {
	for _, a := range n.attrs {
		if a.k == k {
			return a.v
		}
	}
	return ""
}

func (n *node) isElem() bool { return n.tag != "" && n.tag != "!" && n.tag != "^" }

// vocabulary ---------------------------------------------------------------

var fillerWords = strings.Fields(`alpha bravo charlie delta echo foxtrot golf hotel india juliet kilo lima mike
 november oscar papa romeo sierra tango uniform victor whiskey xray yankee zulu amber birch cedar dune ember fjord
 glade harbor island jade kelp lotus meadow nectar olive pebble river stone timber umbra valley willow zephyr
 The of and to in is that for it as was with be by on not he this are or his from at which but have an had they`)

// entity samples: raw HTML source and the text a conforming parser produces.
var entitySamples = [][2]string{
	{"&amp;", "&"}, {"&lt; 3", "< 3"}, {"&gt;", ">"}, {"&quot;", "\""}, {"&#39;", "'"}, {"&apos;", "'"},
	{"caf&eacute;", "café"}, {"caf&#233;", "café"}, {"caf&#xE9;", "café"}, {"caf&#Xe9;", "café"},
	{"&#x1F600;", "\U0001F600"}, {"&#128512;", "\U0001F600"}, {"&mdash;", "—"}, {"&ndash;", "–"},
	{"a&nbsp;b", "a b"}, {"a&#160;b", "a b"}, {"&copy;2024", "©2024"}, {"&#x20AC;5", "€5"}, {"&euro;5", "€5"},
	{"&hellip;", "…"}, {"&#128;", "€"}, {"&#x99;", "™"}, {"&AMP;", "&"}, {"&amp;amp;", "&amp;"}, {"&amp;lt;b&amp;gt;", "&lt;b&gt;"},
	{"&#38;", "&"}, {"&#x26;#x26;", "&#x26;"}, {"&ne;", "≠"}, {"&NotEqualTilde;", "≂̸"}, {"&fjlig;", "fj"},
	{"&alpha;&beta;", "αβ"}, {"AT&amp;T", "AT&T"}, {"x & y", "x & y"}, {"R&D", "R&D"}, {"&lt;=&gt;", "<=>"},
	{"naïve", "naïve"}, {"日本語", "日本語"}, {"1 < 2", "1 < 2"}, {"3 > 2", "3 > 2"},
	{"&laquo;x&raquo;", "«x»"}, {"&frac12;", "½"}, {"&#0169;", "©"}, {"&#x000A9;", "©"}, {"&zwj;", "‍"}, {"&lt;3&gt;", "<3>"},
}

// xmlSafe marks the samples that mean the same in an XML parser without DTD.
var xmlSafe = map[string]bool{"&amp;": true, "&lt; 3": true, "&gt;": true, "&quot;": true, "&#39;": true, "&apos;": true,
	"caf&#233;": true, "caf&#xE9;": true, "&#x1F600;": true, "&#128512;": true, "a&#160;b": true, "&#x20AC;5": true,
	"&amp;amp;": true, "&amp;lt;b&amp;gt;": true, "&#38;": true, "&#x26;#x26;": true, "AT&amp;T": true, "&lt;=&gt;": true,
	"naïve": true, "日本語": true, "3 > 2": true, "&#0169;": true, "&#x000A9;": true, "&lt;3&gt;": true}

// class / id names. vocab = names the usual boilerplate patterns are meant to
// match; near = look-alikes; safe = unrelated.
var vocabNames = []string{"nav", "navbar", "navigation", "menu", "topnav", "sidenav", "breadcrumb", "breadcrumbs",
	"site-header", "page-header", "masthead", "banner", "footer", "site-footer", "page-footer", "colophon",
	"sidebar", "widget-area", "widget", "aside",
	"main-nav", "nav_item", "menu-item", "footer2", "NavBar", "col-md-4 sidebar", "top menu", "Footer", "MENU", "x-banner-y", "nav-1"}
var nearNames = []string{"navigate", "navy", "menus", "footers", "canvas", "header", "bannerad", "widgets", "asides",
	"sidebars", "subnavigation", "environment", "footnote", "headline", "menuitem", "unavailable", "foot", "side", "head",
	"navigator", "mastheads", "breadcrumbed", "colophons", "pager", "toc", "related", "share", "comments"}
var safeNames = []string{"content", "post", "entry", "article-body", "story", "text", "lead", "col", "c1", "wrapper", "container", "prose"}

var explicitRoles = []string{"navigation", "complementary", "banner", "contentinfo"}
var nearRoles = []string{"main", "search", "region", "article", "presentation", "Navigation", "navigation banner", "none", "list", "form"}

// generator ------------------------------------------------------------------

type gen struct {
	r       *rand.Rand
	tk      *fw.Tokens
	d       *Doc
	opt     Options
	quirk   bool
	upper   bool
	noLinks bool
	head    []*Unit
}

func (g *gen) feat(f string)           { g.d.Features[f] = true }
func (g *gen) chance(p float64) bool   { return g.r.Float64() < p }
func (g *gen) pick(xs []string) string { return xs[g.r.Intn(len(xs))] }
func (g *gen) between(lo, hi int) int {
	if hi <= lo {
		return lo
	}
	return lo + g.r.Intn(hi-lo+1)
}

func (g *gen) newUnit(kind string, role Role) *Unit {
	u := &Unit{Token: g.tk.Next(), Kind: kind, Role: role}
	g.d.Units = append(g.d.Units, u)
	return u
}

var spaces = []string{" ", " ", " ", " ", "\n", "  ", "\t", " \n  ", "\n\n"}

// inlineSpec controls the inline content of one unit.
type inlineSpec struct {
	words   int
	links   int  // number of <a> elements
	dense   bool // most text inside links
	pre     bool // preformatted: keep it simple (entities, spans), newlines significant
	noNoise bool
}

type piece struct {
	raw, dec string
	tok      bool
}

// inline builds the inline content of unit u and sets u.Decoded / u.Links.
func (g *gen) inline(u *Unit, sp inlineSpec) []*node {
	n := sp.words
	if n < 1 {
		n = 1
	}
	ps := make([]piece, 0, n+1)
	for i := 0; i < n; i++ {
		if g.chance(0.18) {
			e := entitySamples[g.r.Intn(len(entitySamples))]
			for g.opt.XHTML && !xmlSafe[e[0]] {
				e = entitySamples[g.r.Intn(len(entitySamples))]
			}
			ps = append(ps, piece{raw: e[0], dec: e[1]})
			g.feat("entity")
			switch {
			case strings.Contains(e[0], "&#x") || strings.Contains(e[0], "&#X"):
				g.feat("entity:hex")
			case strings.Contains(e[0], "&#"):
				g.feat("entity:decimal")
			case strings.Contains(e[0], "&") && strings.Contains(e[0], ";"):
				g.feat("entity:named")
			}
		} else {
			w := g.pick(fillerWords)
			ps = append(ps, piece{raw: w, dec: w})
		}
	}
	at := g.r.Intn(len(ps) + 1)
	switch g.r.Intn(4) {
	case 0:
		at = 0
	case 1:
		at = len(ps)
	}
	ps = append(ps[:at], append([]piece{{raw: u.Token, dec: u.Token, tok: true}}, ps[at:]...)...)

	// decide link segments
	inLink := make([]int, len(ps)) // 0 = none, k = k-th link
	if sp.links > 0 {
		if sp.dense {
			// split all pieces over the links, leaving few outside
			per := (len(ps) + sp.links - 1) / sp.links
			for i := range ps {
				inLink[i] = i/per + 1
			}
			if len(ps) > 3 && g.chance(0.5) {
				inLink[g.r.Intn(len(ps))] = 0
			}
		} else {
			for k := 1; k <= sp.links; k++ {
				i := g.r.Intn(len(ps))
				if inLink[i] == 0 {
					inLink[i] = k
				}
			}
		}
	}

	var out []*node
	var dec strings.Builder
	text := func(raw, d string, tok bool) *node {
		t := &node{raw: raw, dec: d}
		if tok {
			t.unit = u
		}
		dec.WriteString(d)
		return t
	}
	sep := func() *node {
		s := g.pick(spaces)
		if g.chance(0.06) {
			s = ""
		}
		if s == "" {
			return nil
		}
		return text(s, s, false)
	}
	fmtTags := []string{"b", "i", "em", "strong", "span", "span", "code", "u", "small", "cite"}
	i := 0
	for i < len(ps) {
		if i > 0 {
			if s := sep(); s != nil {
				out = append(out, s)
			}
		}
		// a link segment
		if inLink[i] != 0 {
			k := inLink[i]
			a := el("a").with("href", g.pick([]string{"/x", "#", "https://example.org/a?b=1&amp;c=2", "page.html", "/"}))
			for i < len(ps) && inLink[i] == k {
				if len(a.kids) > 0 {
					a.kids = append(a.kids, text(" ", " ", false))
				}
				a.kids = append(a.kids, text(ps[i].raw, ps[i].dec, ps[i].tok))
				i++
			}
			if g.chance(0.2) {
				a.kids = []*node{el(g.pick([]string{"b", "span", "em"}), a.kids...)}
			}
			u.Links++
			out = append(out, a)
			continue
		}
		// plain or formatted run
		run := 1
		if g.chance(0.3) {
			run = g.between(1, 3)
		}
		var kids []*node
		for j := 0; j < run && i < len(ps) && inLink[i] == 0; j++ {
			if j > 0 {
				kids = append(kids, text(" ", " ", false))
			}
			kids = append(kids, text(ps[i].raw, ps[i].dec, ps[i].tok))
			i++
		}
		switch {
		case sp.pre:
			if g.chance(0.15) {
				out = append(out, el("span", kids...).with("class", g.pick([]string{"kw", "str", "c1"})))
			} else {
				out = append(out, kids...)
			}
		case g.chance(0.22):
			w := el(g.pick(fmtTags), kids...)
			if g.chance(0.3) {
				w = el(g.pick(fmtTags), w)
			}
			g.feat("inline-markup")
			out = append(out, w)
		case g.opt.Malformed && len(kids) >= 3 && g.chance(0.25):
			// <b>x <i>y</b> z</i> : adoption agency, text order unchanged
			g.feat("malformed:misnested-inline")
			out = append(out, &node{tag: "^", raw: "<b>"}, kids[0], &node{tag: "^", raw: "<i>"})
			out = append(out, kids[1:len(kids)-1]...)
			out = append(out, &node{tag: "^", raw: "</b>"}, kids[len(kids)-1], &node{tag: "^", raw: "</i>"})
		default:
			out = append(out, kids...)
		}
		if !sp.pre && g.chance(0.05) {
			out = append(out, &node{tag: "br"})
			dec.WriteString("\n")
			g.feat("br")
		}
		if !sp.pre && !sp.noNoise && g.chance(0.03) {
			out = append(out, g.noise(true))
		}
		if g.opt.Malformed && !sp.pre && g.chance(0.03) {
			g.feat("malformed:stray-end-tag")
			out = append(out, &node{tag: "^", raw: g.pick([]string{"</span>", "</em>", "</font>", "</nobr>"})})
		}
	}
	if g.opt.Malformed && !sp.pre && g.chance(0.04) && len(out) > 0 {
		// unclosed <span>: popped by the block's end tag
		g.feat("malformed:unclosed-span")
		k := g.r.Intn(len(out))
		out = append(out[:k], append([]*node{{tag: "^", raw: "<span>"}}, out[k:]...)...)
	}
	u.Decoded = dec.String()
	return out
}

// noise returns a script / style / comment node carrying a Noise token.
func (g *gen) noise(inline bool) *node {
	switch g.r.Intn(4) {
	case 0:
		u := g.newUnit("script", Noise)
		g.feat("noise:script")
		u.Decoded = u.Token
		body := []string{
			`var t = "%s"; if (a < b && c > d) { document.write("<p>%s</p>"); }`,
			`window.dataLayer=[{"page":"%s"}];/* <div class="menu">%s</div> */`,
			`{"@type":"Article","headline":"%s","x":"%s &amp; more"}`,
		}[g.r.Intn(3)]
		if g.opt.XHTML {
			body = `var t = "%s"; var u = "%s";`
		}
		n := el("script")
		if strings.HasPrefix(body, "{") {
			n.with("type", "application/ld+json")
		}
		n.raw = fmt.Sprintf(body, u.Token, u.Token)
		return n
	case 1:
		u := g.newUnit("style", Noise)
		g.feat("noise:style")
		u.Decoded = u.Token
		n := el("style")
		n.raw = fmt.Sprintf(`.menu > li { color: red } /* %s */ p::before { content: "%s <b>" }`, u.Token, u.Token)
		if g.opt.XHTML {
			n.raw = fmt.Sprintf(`.menu li { color: red } /* %s */ p::before { content: "%s" }`, u.Token, u.Token)
		}
		return n
	default:
		u := g.newUnit("comment", Noise)
		g.feat("noise:comment")
		u.Decoded = u.Token
		if g.opt.XHTML {
			return &node{tag: "!", raw: fmt.Sprintf(" %s p %s ", u.Token, u.Token)}
		}
		return &node{tag: "!", raw: fmt.Sprintf(" %s <p>%s</p> ", u.Token, u.Token)}
	}
}

// attrNoise puts a Noise token into an attribute of n.
func (g *gen) attrNoise(n *node) {
	u := g.newUnit("attribute", Noise)
	u.Decoded = u.Token
	g.feat("noise:attribute")
	n.with(g.pick([]string{"title", "data-x", "aria-label", "data-track"}), u.Token+" "+g.pick(fillerWords))
}

// block-level ---------------------------------------------------------------

func (g *gen) heading(prefix string) *node {
	lvl := g.between(1, 6)
	tag := fmt.Sprintf("h%d", lvl)
	u := g.newUnit(prefix+tag, Content)
	g.feat("heading")
	return el(tag, g.inline(u, inlineSpec{words: g.between(1, 6), links: g.linkDraw(0.1)})...)
}

func (g *gen) linkDraw(p float64) int {
	if g.noLinks {
		return 0
	}
	if g.chance(p) {
		return g.between(1, 2)
	}
	return 0
}

func (g *gen) para(prefix string) *node {
	u := g.newUnit(prefix+"p", Content)
	g.feat("paragraph")
	return el("p", g.inline(u, inlineSpec{words: g.between(3, 30), links: g.linkDraw(0.15)})...)
}

func (g *gen) pre(prefix string) *node {
	g.feat("pre")
	u := g.newUnit(prefix+"pre", Content)
	kids := g.inline(u, inlineSpec{words: g.between(2, 15), pre: true})
	if g.chance(0.5) {
		u.Kind = prefix + "pre>code"
		g.feat("pre>code")
		return el("pre", el("code", kids...).with("class", "language-go"))
	}
	return el("pre", kids...)
}

func (g *gen) blockquote(prefix string, depth int) *node {
	g.feat("blockquote")
	bq := el("blockquote")
	switch g.r.Intn(4) {
	case 0:
		u := g.newUnit(prefix+"blockquote", Content)
		bq.kids = g.inline(u, inlineSpec{words: g.between(3, 20)})
	case 1:
		for i, n := 0, g.between(1, 3); i < n; i++ {
			bq.kids = append(bq.kids, g.para(prefix+"blockquote>"))
		}
	case 2:
		bq.kids = append(bq.kids, g.para(prefix+"blockquote>"), g.list(prefix+"blockquote>", 0, depth+1, false))
		g.feat("blockquote>list")
	default:
		bq.kids = append(bq.kids, g.para(prefix+"blockquote>"))
		if depth < g.opt.MaxDepth {
			bq.kids = append(bq.kids, g.blockquote(prefix+"blockquote>", depth+1))
			g.feat("blockquote>blockquote")
		}
	}
	return bq
}

// list builds ul/ol; menu = every item is a link.
func (g *gen) list(prefix string, level, depth int, menu bool) *node {
	tag := "ul"
	if g.chance(0.35) {
		tag = "ol"
	} else if g.chance(0.12) {
		tag = "menu" // the HTML Standard's other spelling of an unordered list
		g.feat("list:menu")
	}
	g.feat("list")
	if level > 0 {
		g.feat(fmt.Sprintf("list-depth:%d", level+1))
	}
	l := el(tag)
	n := g.between(1, 5)
	if menu {
		n = g.between(2, 8)
	}
	for i := 0; i < n; i++ {
		li := el("li")
		form := g.r.Intn(10)
		if menu {
			form = 0
		}
		kp := prefix + "li"
		switch {
		case form <= 5: // inline text
			u := g.newUnit(kp, Content)
			sp := inlineSpec{words: g.between(1, 10), links: g.linkDraw(0.1)}
			if menu {
				sp = inlineSpec{words: g.between(1, 3), links: 1, dense: true, noNoise: true}
			}
			li.kids = g.inline(u, sp)
		case form == 6: // block children: paragraphs
			g.feat("li>p")
			for k, m := 0, g.between(1, 2); k < m; k++ {
				li.kids = append(li.kids, g.para(kp+">"))
			}
		case form == 7: // text followed by a paragraph
			g.feat("li>text+p")
			u := g.newUnit(kp, Content)
			li.kids = g.inline(u, inlineSpec{words: g.between(1, 6)})
			li.kids = append(li.kids, g.para(kp+">"))
		case form == 8:
			switch g.r.Intn(4) {
			case 3:
				// a table inside a list item (with lead-in text), more items following
				g.feat("li>table")
				u := g.newUnit(kp, Content)
				li.kids = g.inline(u, inlineSpec{words: g.between(1, 4)})
				li.kids = append(li.kids, g.table(kp+">", depth+1))
			case 0:
				g.feat("li>div")
				u := g.newUnit(kp+">div", Content)
				li.kids = append(li.kids, el("div", g.inline(u, inlineSpec{words: g.between(2, 10)})...))
			case 1:
				g.feat("li>blockquote")
				li.kids = append(li.kids, g.blockquote(kp+">", depth+1))
			default:
				g.feat("li>pre")
				li.kids = append(li.kids, g.pre(kp+">"))
			}
		default:
			g.feat("li>heading")
			li.kids = append(li.kids, g.heading(kp+">"))
		}
		if level < 4 && depth < g.opt.MaxDepth+2 && g.chance(0.22) && !menu {
			li.kids = append(li.kids, g.list(prefix+"li>", level+1, depth+1, false))
		}
		if g.chance(0.04) {
			g.nameIt(li, 0.5)
		}
		l.kids = append(l.kids, li)
	}
	return l
}

// table builds a table with optional thead / tfoot, th cells and spans.
func (g *gen) table(prefix string, depth int) *node {
	g.feat("table")
	t := el("table")
	cols := g.between(1, 4)
	if g.chance(0.12) {
		u := g.newUnit("caption", Loose)
		t.kids = append(t.kids, el("caption", g.inline(u, inlineSpec{words: g.between(1, 5)})...))
		g.feat("loose:caption")
	}
	if g.chance(0.1) {
		cg := el("colgroup")
		for i := 0; i < cols; i++ {
			cg.kids = append(cg.kids, el("col"))
		}
		t.kids = append(t.kids, cg)
	}
	kp := prefix + "table>"
	rows := func(sec string, n int, cellTag string, spans bool) *node {
		s := el(sec)
		occupied := map[[2]int]bool{}
		for r := 0; r < n; r++ {
			tr := el("tr")
			for c := 0; c < cols; c++ {
				if occupied[[2]int{r, c}] {
					continue
				}
				tag := cellTag
				if tag == "td" && c == 0 && g.chance(0.12) {
					tag = "th"
					g.feat("row-header-th")
				}
				cell := el(tag)
				cs, rs := 1, 1
				if spans && g.chance(0.18) {
					if g.chance(0.5) && c+1 < cols && !occupied[[2]int{r, c + 1}] {
						cs = 2
						if c+2 < cols && !occupied[[2]int{r, c + 2}] && g.chance(0.3) {
							cs = 3
						}
					} else if r+1 < n {
						rs = 2
					}
				}
				// a row must keep at least one cell of its own: never let rowspans cover a whole later row
				if rs > 1 {
					free := 0
					for cc := 0; cc < cols; cc++ {
						if !occupied[[2]int{r + 1, cc}] && !(cc >= c && cc < c+cs) {
							free++
						}
					}
					if free == 0 {
						rs = 1
					}
				}
				if cs > 1 {
					cell.with("colspan", fmt.Sprint(cs))
					g.feat("colspan")
				}
				if rs > 1 {
					cell.with("rowspan", fmt.Sprint(rs))
					g.feat("rowspan")
				}
				if cs == 1 && rs == 1 && g.chance(0.08) {
					// a span attribute whose value is not a number: the HTML rules for parsing
					// integers fail on it and the span keeps its default of 1
					cell.with([]string{"colspan", "rowspan"}[g.r.Intn(2)], []string{"two", "x2", "-", "none"}[g.r.Intn(4)])
					g.feat("span-unparsable")
				}
				for dr := 0; dr < rs; dr++ {
					for dc := 0; dc < cs; dc++ {
						occupied[[2]int{r + dr, c + dc}] = true
					}
				}
				g.cell(cell, kp+tag, depth)
				tr.kids = append(tr.kids, cell)
				c += cs - 1
			}
			s.kids = append(s.kids, tr)
		}
		return s
	}
	headKind := g.r.Intn(4) // 0 thead, 1 th first row, 2,3 header-less
	if headKind == 0 {
		g.feat("table:thead")
		t.kids = append(t.kids, rows("thead", 1, "th", g.chance(0.3)))
	}
	nb := 1
	if g.chance(0.12) {
		nb = 2
		g.feat("table:two-tbody")
	}
	for b := 0; b < nb; b++ {
		n := g.between(1, 4)
		body := rows("tbody", n, "td", true)
		if headKind == 1 && b == 0 {
			g.feat("table:th-first-row")
			for _, c := range body.kids[0].kids {
				c.tag = "th"
			}
		}
		t.kids = append(t.kids, body)
	}
	if headKind >= 2 {
		g.feat("table:headerless")
	}
	if g.chance(0.25) {
		g.feat("table:tfoot")
		foot := rows("tfoot", 1, "td", g.chance(0.3))
		if g.chance(0.5) {
			// HTML 4 / XHTML 1.x order: tfoot written before the tbody elements
			g.feat("table:tfoot-before-tbody")
			at := len(t.kids)
			for i, k := range t.kids {
				if k.tag == "tbody" {
					at = i
					break
				}
			}
			t.kids = append(t.kids[:at:at], append([]*node{foot}, t.kids[at:]...)...)
		} else {
			t.kids = append(t.kids, foot)
		}
	}
	return t
}

func (g *gen) cell(cell *node, kind string, depth int) {
	switch f := g.r.Intn(12); {
	case f == 0: // empty cell
		g.feat("cell:empty")
	case f <= 7:
		u := g.newUnit(kind, Content)
		cell.kids = g.inline(u, inlineSpec{words: g.between(1, 6), links: g.linkDraw(0.08)})
	case f == 8:
		g.feat("cell:paragraphs")
		for k, m := 0, g.between(1, 2); k < m; k++ {
			cell.kids = append(cell.kids, g.para(kind+">"))
		}
	case f == 9:
		g.feat("cell:text+list")
		u := g.newUnit(kind, Content)
		cell.kids = g.inline(u, inlineSpec{words: g.between(1, 4)})
		cell.kids = append(cell.kids, g.list(kind+">", 0, depth+2, false))
	case f == 10 && depth < g.opt.MaxDepth:
		g.feat("cell:nested-table")
		cell.kids = append(cell.kids, g.table(kind+">", depth+2))
	default:
		u := g.newUnit(kind, Content)
		cell.kids = g.inline(u, inlineSpec{words: 1})
	}
	if g.opt.Malformed && g.chance(0.03) && len(cell.kids) > 0 && cell.kids[0].tag == "" {
		// unclosed formatting element inside a cell: the cell boundary is a marker
		// in the list of active formatting elements, nothing leaks out
		g.feat("malformed:unclosed-format-in-cell")
		cell.kids = append([]*node{{tag: "^", raw: g.pick([]string{"<b>", "<i>", "<em>"})}}, cell.kids...)
	}
}

// nameIt gives n a class and/or id; pTrigger = probability of a vocabulary / near name.
func (g *gen) nameIt(n *node, pTrigger float64) {
	name := g.pick(safeNames)
	n.nameKind = 1
	if g.chance(pTrigger) {
		if g.chance(0.6) {
			name = g.pick(vocabNames)
			n.nameKind = 3
			g.feat("name:vocabulary")
		} else {
			name = g.pick(nearNames)
			n.nameKind = 2
			g.feat("name:near-vocabulary")
		}
	} else {
		g.feat("name:safe")
	}
	if g.chance(0.3) {
		n.with("id", strings.Fields(name)[0])
	} else {
		if g.chance(0.3) {
			name = g.pick(safeNames) + " " + name
		}
		n.with("class", name)
	}
}

// linkBlock: a block dominated by links, or a text block with a few links.
func (g *gen) linkBlock(depth int) *node {
	switch g.r.Intn(5) {
	case 0: // bare menu list, no semantic markup
		g.feat("links:dense-list")
		return g.list("", 0, depth, true)
	case 1: // div of bare links (loose text)
		g.feat("links:dense-div")
		d := el("div")
		for i, n := 0, g.between(2, 7); i < n; i++ {
			u := g.newUnit("a", Loose)
			if i > 0 {
				sp := [][2]string{{" | ", " | "}, {" ", " "}, {"\n", "\n"}, {" &middot; ", " · "}, {" &#183; ", " · "}}[g.r.Intn(4)]
				if g.opt.XHTML && sp[0] == " &middot; " {
					sp[0] = " &#183; "
				}
				d.kids = append(d.kids, &node{raw: sp[0], dec: sp[1]})
			}
			kids := g.inline(u, inlineSpec{words: g.between(0, 2), noNoise: true})
			d.kids = append(d.kids, el("a", kids...).with("href", "/p"))
			u.Links = 1
		}
		return d
	case 2: // related-links section
		g.feat("links:related-section")
		s := el("section", g.heading(""), g.list("", 0, depth, true))
		if g.chance(0.5) {
			g.nameIt(s, 0.5)
		}
		return s
	case 3: // link-heavy paragraph
		g.feat("links:heavy-paragraph")
		u := g.newUnit("p", Content)
		return el("p", g.inline(u, inlineSpec{words: g.between(6, 12), links: g.between(3, 6), dense: g.chance(0.6), noNoise: true})...)
	default: // long text, one short link
		g.feat("links:sparse-paragraph")
		u := g.newUnit("p", Content)
		return el("p", g.inline(u, inlineSpec{words: g.between(25, 50), links: 1})...)
	}
}

func (g *gen) loose() *node {
	switch g.r.Intn(4) {
	case 0:
		g.feat("loose:div-text")
		u := g.newUnit("div", Loose)
		return el("div", g.inline(u, inlineSpec{words: g.between(2, 12), links: g.linkDraw(0.2)})...)
	case 1:
		g.feat("loose:figcaption")
		u := g.newUnit("figcaption", Loose)
		return el("figure", &node{tag: "img", attrs: []attr{{"src", "i.png"}, {"alt", "picture"}}},
			el("figcaption", g.inline(u, inlineSpec{words: g.between(1, 6)})...))
	case 2:
		g.feat("loose:dl")
		dl := el("dl")
		for i, n := 0, g.between(1, 3); i < n; i++ {
			u1 := g.newUnit("dt", Loose)
			dt := el("dt", g.inline(u1, inlineSpec{words: 2})...)
			u2 := g.newUnit("dd", Loose)
			dd := el("dd", g.inline(u2, inlineSpec{words: g.between(2, 8)})...)
			dl.kids = append(dl.kids, dt, dd)
		}
		return dl
	default:
		g.feat("loose:address")
		u := g.newUnit("address", Loose)
		return el("address", g.inline(u, inlineSpec{words: g.between(2, 6)})...)
	}
}

// container builds a structural container with blocks inside.
func (g *gen) container(depth int) *node {
	var c *node
	switch k := g.r.Intn(10); {
	case k <= 1: // explicit semantic element
		c = el(g.pick([]string{"nav", "aside", "header", "footer"}))
		g.feat("container:" + c.tag)
		if g.chance(0.3) {
			g.nameIt(c, 0.3)
		}
	case k == 2: // ARIA role
		c = el(g.pick([]string{"div", "section", "div"}))
		if g.chance(0.7) {
			c.with("role", g.pick(explicitRoles))
			g.feat("role:landmark")
		} else {
			c.with("role", g.pick(nearRoles))
			g.feat("role:other")
		}
	case k <= 4: // class / id from or near the vocabulary
		c = el(g.pick([]string{"div", "div", "section", "article"}))
		g.nameIt(c, 1)
	default: // neutral
		c = el(g.pick([]string{"div", "div", "section", "article", "main", "figure", "details"}))
		g.feat("container:" + c.tag)
		if g.chance(0.5) {
			g.nameIt(c, 0)
		}
	}
	if g.chance(0.05) {
		g.attrNoise(c)
	}
	menuish := c.tag == "nav" || c.get("role") == "navigation" || (c.get("class")+c.get("id") != "" && g.chance(0.3))
	n := g.between(1, 4)
	if menuish && g.chance(0.7) {
		if g.chance(0.3) {
			c.kids = append(c.kids, g.heading(""))
		}
		c.kids = append(c.kids, g.linkBlock(depth+1))
		n = g.between(0, 1)
	}
	c.kids = append(c.kids, g.blocks(depth+1, n)...)
	if c.tag == "details" {
		u := g.newUnit("summary", Loose) // document order of units is re-established by order()
		c.kids = append([]*node{el("summary", g.inline(u, inlineSpec{words: 2, noNoise: true})...)}, c.kids...)
	}
	return c
}

func (g *gen) blocks(depth, n int) []*node {
	var out []*node
	for i := 0; i < n; i++ {
		var b *node
		switch k := g.r.Intn(40); {
		case k < 5:
			b = g.heading("")
		case k < 14:
			b = g.para("")
		case k < 19:
			b = g.list("", 0, depth, false)
		case k < 23:
			b = g.table("", depth)
		case k < 25:
			b = g.pre("")
		case k < 27:
			b = g.blockquote("", depth)
		case k < 33:
			if depth < g.opt.MaxDepth {
				b = g.container(depth)
			} else {
				b = g.para("")
			}
		case k < 36:
			b = g.linkBlock(depth)
		case k < 38:
			b = g.noise(false)
		case k < 39:
			b = g.loose()
		default:
			// blocks wrapped in a link or a neutral inline-level wrapper
			g.feat("wrapped-in-a")
			g.noLinks = true
			b = el("a", g.heading(""), g.para("")).with("href", "/story")
			g.noLinks = false
			b.clean = true
		}
		// class / id / role directly on a content element
		if b.isElem() && b.tag != "script" && b.tag != "style" && len(b.attrs) == 0 && g.chance(0.06) {
			g.feat("name-on-content-element")
			g.nameIt(b, 0.7)
		}
		out = append(out, b)
		if g.chance(0.04) {
			out = append(out, &node{tag: "hr"})
		}
	}
	return out
}

// Generate builds one document. All randomness comes from r; tokens from tk.
func Generate(r *rand.Rand, tk *fw.Tokens, opt Options) *Doc {
	if opt.MaxDepth == 0 {
		opt.MaxDepth = 4
	}
	g := &gen{r: r, tk: tk, opt: opt, d: &Doc{Features: map[string]bool{}, chains: map[string]string{}}}
	if opt.XHTML {
		opt.Malformed = false
		g.opt.Malformed = false
	}
	g.quirk = g.chance(0.1) && !opt.XHTML
	g.upper = g.chance(0.1) && !opt.XHTML
	if opt.XHTML {
		g.feat("xhtml")
	}
	n := opt.Blocks
	if n == 0 {
		n = g.between(4, 14)
	}
	body := el("body")
	// page skeleton: optional site header / nav in front, footer behind, content in the middle
	var kids []*node
	if g.chance(0.5) {
		h := el("header")
		if g.chance(0.5) {
			nm := g.pick([]string{"site-header", "masthead", "banner top", "header"})
			h = el("div").with("class", nm)
			h.nameKind = 3
			if nm == "header" {
				h.nameKind = 2
			}
		}
		h.kids = append(h.kids, g.heading(""))
		if g.chance(0.6) {
			nav := el("nav", g.list("", 0, 1, true))
			h.kids = append(h.kids, nav)
		}
		kids = append(kids, h)
		g.feat("skeleton:site-header")
	}
	kids = append(kids, g.blocks(1, n)...)
	if g.chance(0.4) {
		f := el("footer")
		if g.chance(0.4) {
			nm := g.pick([]string{"footer", "colophon", "site-footer", "foot"})
			f = el("div").with("id", nm)
			f.nameKind = 3
			if nm == "foot" {
				f.nameKind = 2
			}
		}
		f.kids = append(f.kids, g.para(""))
		if g.chance(0.5) {
			f.kids = append(f.kids, g.linkBlock(1))
		}
		kids = append(kids, f)
		g.feat("skeleton:site-footer")
	}
	if g.chance(0.25) {
		w := el(g.pick([]string{"div", "main"}))
		if g.chance(0.6) {
			w.with("id", g.pick([]string{"wrapper", "container", "content"}))
			w.nameKind = 1
		}
		w.kids = kids
		kids = []*node{w}
		g.feat("skeleton:single-wrapper")
	}
	if len(kids) > 1 && g.chance(0.12) {
		// the only div/main of the body carries a class or id from the layout vocabulary
		// ("has-sidebar", "menu-open" ...) and holds the whole page; beside it, at the top
		// level, a bare list of links
		w := el(g.pick([]string{"div", "main"}))
		g.nameIt(w, 1)
		w.kids = kids
		lst := g.list("", 0, 1, true)
		if g.chance(0.5) {
			kids = []*node{lst, w}
		} else {
			kids = []*node{w, lst}
		}
		g.feat("skeleton:sole-named-div-beside-link-list")
	}
	body.kids = kids
	if g.chance(0.03) {
		g.nameIt(body, 0.8)
		g.feat("name-on-body")
	}
	if opt.Malformed {
		g.malform(body, nil, nil)
		if g.chance(0.12) {
			body.omitEnd = true
		}
	}
	stats(body, false)
	g.order(body)
	g.classify(body, nil)
	g.serialize(body)
	return g.d
}

// order rebuilds d.Units in true document order (depth-first over the final
// tree; noise units by their position in the tree).
func (g *gen) order(body *node) {
	byTok := map[string]*Unit{}
	for _, u := range g.d.Units {
		byTok[u.Token] = u
	}
	var out []*Unit
	seen := map[*Unit]bool{}
	add := func(u *Unit) {
		if u != nil && !seen[u] {
			seen[u] = true
			out = append(out, u)
		}
	}
	var walk func(n *node)
	walk = func(n *node) {
		for _, a := range n.attrs {
			for _, t := range fw.FindTokens(a.v) {
				add(byTok[t])
			}
		}
		if n.unit != nil {
			add(n.unit)
		}
		if n.tag == "!" || n.tag == "script" || n.tag == "style" {
			for _, t := range fw.FindTokens(n.raw) {
				add(byTok[t])
			}
		}
		for _, k := range n.kids {
			walk(k)
		}
	}
	walk(body)
	if len(out) != len(g.d.Units) {
		panic(fmt.Sprintf("htmlw: %d units created, %d found in the tree", len(g.d.Units), len(out)))
	}
	g.d.Units = out
}

// stats fills links / linkBytes / textRunes bottom-up. linkBytes is an upper
// bound of what any byte- or rune-based measure yields for text inside <a>;
// textRunes is a lower bound for all text (white space and script/style text
// not counted).
func stats(n *node, inA bool) {
	if n.tag == "" {
		t := strings.TrimSpace(n.dec)
		nr := 0
		for _, r := range t {
			if !unicode.IsSpace(r) {
				nr++
			}
		}
		n.textRunes = nr
		if inA {
			n.linkBytes = len(n.dec)
		}
		return
	}
	if !n.isElem() || n.tag == "script" || n.tag == "style" {
		return
	}
	if n.tag == "a" {
		n.links = 1
		inA = true
	}
	for _, k := range n.kids {
		stats(k, inA)
		n.links += k.links
		n.linkBytes += k.linkBytes
		n.textRunes += k.textRunes
	}
}

var inlineTags = map[string]bool{"a": true, "b": true, "i": true, "em": true, "strong": true, "span": true, "code": true,
	"u": true, "small": true, "cite": true, "br": true, "img": true, "font": true, "nobr": true}

func containsName(list []string, v string) bool {
	for _, x := range list {
		if x == v {
			return true
		}
	}
	return false
}

// trigger reports why element n could make a navigation filter drop its
// subtree: certain = an explicit trigger of the documented modes; otherwise
// reason != "" means "not provably far from every trigger".
func trigger(n *node) (certain bool, reason string) {
	switch n.tag {
	case "nav", "aside", "header", "footer":
		return true, "element " + n.tag
	}
	if role := n.get("role"); role != "" {
		if containsName(explicitRoles, role) {
			return true, "role=" + role
		}
		return false, "role=" + role
	}
	switch n.nameKind {
	case 3:
		return true, "vocabulary name " + n.get("class") + n.get("id")
	case 2:
		return false, "near-vocabulary name " + n.get("class") + n.get("id")
	case 0:
		if n.get("class") != "" && !inlineTags[n.tag] && n.tag != "pre" || n.get("id") != "" {
			return false, "unclassified name"
		}
	}
	// link density: far from any plausible threshold only if there are no
	// links at all or link text is at most 30 % of a lower bound of all text
	if n.links > 0 && n.linkBytes*10 > n.textRunes*3 {
		return false, fmt.Sprintf("link-density %d/%d in <%s>", n.linkBytes, n.textRunes, n.tag)
	}
	return false, ""
}

type anc struct {
	n       *node
	certain bool
	reason  string
}

func pathString(chain []anc) string {
	var sb strings.Builder
	for _, a := range chain {
		if inlineTags[a.n.tag] {
			continue
		}
		sb.WriteString("/")
		sb.WriteString(sig(a.n.tag, a.n.get("class"), a.n.get("id"), a.n.get("role")))
	}
	return sb.String()
}

func sig(tag, class, id, role string) string {
	s := tag
	if class != "" {
		s += "[class=" + class + "]"
	}
	if id != "" {
		s += "[id=" + id + "]"
	}
	if role != "" {
		s += "[role=" + role + "]"
	}
	return s
}

// classify sets Role / Path / Why of every content unit from its real ancestors.
func (g *gen) classify(n *node, chain []anc) {
	if n.isElem() {
		c, why := trigger(n)
		chain = append(chain[:len(chain):len(chain)], anc{n, c, why})
		if c && n.tag != "body" {
			// count outermost excludable subtrees only
			outer := true
			for _, a := range chain[:len(chain)-1] {
				if a.certain {
					outer = false
				}
			}
			if outer {
				g.d.Excludable++
			}
		}
	}
	if n.unit != nil {
		u := n.unit
		u.Path = pathString(chain)
		g.d.chains[u.Token] = u.Path
		if u.Role.IsContent() {
			role, why := Protected, ""
			for _, a := range chain {
				if a.certain {
					role, why = Excludable, a.reason
					break
				}
			}
			if role == Protected {
				for _, a := range chain {
					if a.reason != "" {
						role, why = Content, a.reason
						break
					}
				}
			}
			if role == Protected && u.Links > 0 {
				role, why = Content, "links inside the unit"
			}
			if role == Protected {
				// the unit's own block must be link-free
				for i := len(chain) - 1; i >= 0; i-- {
					if !inlineTags[chain[i].n.tag] {
						if chain[i].n.links > 0 {
							role, why = Content, "links in the unit's block"
						}
						break
					}
				}
			}
			u.Role, u.Why = role, why
		}
	}
	for _, k := range n.kids {
		g.classify(k, chain)
	}
}

// malformation ---------------------------------------------------------------

var pClosers = map[string]bool{"address": true, "article": true, "aside": true, "blockquote": true, "details": true, "div": true,
	"dl": true, "figure": true, "footer": true, "header": true, "h1": true, "h2": true, "h3": true, "h4": true, "h5": true, "h6": true,
	"main": true, "nav": true, "ol": true, "p": true, "pre": true, "section": true, "ul": true, "hr": true}

var containerTags = map[string]bool{"div": true, "section": true, "article": true, "main": true, "header": true, "footer": true,
	"nav": true, "aside": true, "body": true}

// malform sets omitEnd / omitStart flags where the HTML5 tree construction
// algorithm rebuilds exactly the tree we hold.
func (g *gen) malform(n *node, parent *node, next *node) {
	if n.clean {
		return
	}
	for i, k := range n.kids {
		var nx *node
		if i+1 < len(n.kids) {
			nx = n.kids[i+1]
		}
		if k.isElem() {
			g.malform(k, n, nx)
		}
	}
	if parent == nil {
		return
	}
	last := next == nil
	lastKidOpen := func() bool { // the last child leaves something open that only an explicit end tag of n closes safely
		if len(n.kids) == 0 {
			return false
		}
		k := n.kids[len(n.kids)-1]
		return k.omitEnd && k.tag != "p" && k.tag != "td" && k.tag != "th" && k.tag != "tr" && k.tag != "tbody" && k.tag != "tfoot" && k.tag != "thead" && k.tag != "li"
	}
	switch n.tag {
	case "p":
		ok := false
		if next != nil && next.isElem() && (pClosers[next.tag] || (next.tag == "table" && !g.quirk)) {
			ok = true
		}
		if last && (containerTags[parent.tag] || parent.tag == "blockquote" || parent.tag == "li" || parent.tag == "td" || parent.tag == "th") {
			ok = true
		}
		if ok && g.chance(0.25) {
			n.omitEnd = true
			g.feat("malformed:omitted-p-end")
		}
	case "li":
		if (last || next.tag == "li") && !lastKidOpen() && g.chance(0.25) {
			n.omitEnd = true
			g.feat("malformed:omitted-li-end")
		}
	case "td", "th":
		if (last || next.tag == "td" || next.tag == "th") && !lastKidOpen() && g.chance(0.25) {
			n.omitEnd = true
			g.feat("malformed:omitted-cell-end")
		}
	case "tr":
		if (last || next.tag == "tr") && g.chance(0.25) {
			n.omitEnd = true
			g.feat("malformed:omitted-tr-end")
		}
	case "thead", "tbody", "tfoot":
		if (last || next.tag == "tbody" || next.tag == "tfoot") && g.chance(0.2) {
			n.omitEnd = true
			g.feat("malformed:omitted-section-end")
		}
	case "div", "section", "article", "nav", "aside", "header", "footer", "main":
		// only as the last child of a container of another type whose own end tag is written
		// (an end tag closes the nearest open element of its name)
		if last && containerTags[parent.tag] && parent.tag != n.tag && !lastKidOpen() && g.chance(0.12) {
			n.omitEnd = true
			g.feat("malformed:omitted-container-end")
		}
	}
}

// fixTables decides implied <tbody> (start tag omitted) after the omitEnd flags are known.
func (g *gen) fixTables(n *node) {
	if n.tag == "table" && g.opt.Malformed && !n.clean {
		bodies := 0
		for _, k := range n.kids {
			if k.tag == "tbody" {
				bodies++
			}
		}
		for i, k := range n.kids {
			if k.tag == "tbody" && bodies == 1 && g.chance(0.3) {
				prevOK := i == 0 || n.kids[i-1].tag == "caption" || n.kids[i-1].tag == "colgroup" || (n.kids[i-1].tag == "thead" && !n.kids[i-1].omitEnd)
				if prevOK {
					k.omitStart, k.omitEnd = true, true
					g.feat("malformed:implied-tbody")
				}
			}
		}
	}
	for _, k := range n.kids {
		if !k.clean {
			g.fixTables(k)
		}
	}
}

// serialization ---------------------------------------------------------------

func (g *gen) tagName(t string) string {
	if g.upper && g.chance(0.5) {
		return strings.ToUpper(t)
	}
	return t
}

func (g *gen) writeAttrs(b *bytes.Buffer, n *node) {
	for _, a := range n.attrs {
		k := a.k
		if g.upper && g.chance(0.5) {
			k = strings.ToUpper(k)
		}
		simple := a.v != ""
		for _, r := range a.v {
			if !(r >= 'a' && r <= 'z' || r >= 'A' && r <= 'Z' || r >= '0' && r <= '9' || r == '-' || r == '_' || r == '.') {
				simple = false
			}
		}
		switch {
		case g.opt.XHTML:
			fmt.Fprintf(b, ` %s="%s"`, k, a.v)
		case simple && g.chance(0.3):
			fmt.Fprintf(b, " %s=%s", k, a.v)
		case g.chance(0.2) && !strings.Contains(a.v, "'"):
			fmt.Fprintf(b, " %s='%s'", k, a.v)
		default:
			fmt.Fprintf(b, ` %s="%s"`, k, a.v)
		}
	}
}

var voidTags = map[string]bool{"br": true, "hr": true, "img": true, "col": true, "meta": true}

var blockParents = map[string]bool{"body": true, "div": true, "section": true, "article": true, "main": true, "header": true,
	"footer": true, "nav": true, "aside": true, "ul": true, "ol": true, "table": true, "thead": true, "tbody": true, "tfoot": true,
	"tr": true, "dl": true, "blockquote": true, "figure": true, "details": true}

func (g *gen) write(b *bytes.Buffer, n *node, flat *strings.Builder) {
	switch n.tag {
	case "":
		b.WriteString(n.raw)
		for _, r := range n.dec {
			if !unicode.IsSpace(r) {
				flat.WriteRune(r)
			}
		}
		return
	case "!":
		b.WriteString("<!--" + n.raw + "-->")
		return
	case "^":
		b.WriteString(n.raw)
		return
	}
	if !n.omitStart {
		b.WriteString("<" + g.tagName(n.tag))
		g.writeAttrs(b, n)
		if voidTags[n.tag] && (g.opt.XHTML || g.chance(0.3)) {
			b.WriteString(g.pick([]string{"/", " /"}))
		}
		b.WriteString(">")
	}
	if voidTags[n.tag] {
		return
	}
	if n.tag == "script" || n.tag == "style" {
		b.WriteString(n.raw)
	}
	ws := blockParents[n.tag] && !(n.tag == "blockquote" && len(n.kids) > 0 && !n.kids[0].isElem())
	for _, k := range n.kids {
		if ws && g.chance(0.6) {
			b.WriteString(g.pick([]string{"\n", "\n  ", " ", "\n\n"}))
		}
		g.write(b, k, flat)
	}
	if ws && g.chance(0.5) {
		b.WriteString("\n")
	}
	if !n.omitEnd {
		b.WriteString("</" + g.tagName(n.tag) + ">")
	}
}

func (g *gen) serialize(body *node) {
	if g.opt.Malformed {
		g.fixTables(body)
	}
	var b bytes.Buffer
	var flat strings.Builder
	if g.opt.XHTML {
		b.WriteString("<?xml version=\"1.0\" encoding=\"UTF-8\"?>\n<!DOCTYPE html>\n")
	} else if !g.quirk {
		b.WriteString(g.pick([]string{"<!DOCTYPE html>", "<!doctype html>", "<!DOCTYPE html>\n"}))
	} else {
		g.feat("no-doctype")
	}
	bare := g.opt.Malformed && len(body.attrs) == 0 && g.chance(0.12)
	if bare {
		// no html/head/body tags at all; start with an element that cannot live in <head>
		g.feat("malformed:no-html-head-body-tags")
		first := body.kids[0]
		if first.tag == "script" || first.tag == "style" || first.tag == "!" {
			bare = false
		}
	}
	if bare {
		for _, k := range body.kids {
			if g.chance(0.6) {
				b.WriteString("\n")
			}
			g.write(&b, k, &flat)
		}
	} else {
		if g.opt.XHTML {
			b.WriteString("<html xmlns=\"http://www.w3.org/1999/xhtml\" lang=\"en\" xml:lang=\"en\">\n<head>\n<meta charset=\"utf-8\"/>\n<title>Generated page &amp; title</title>\n")
		} else {
			b.WriteString("<html lang=\"en\">\n<head>\n<meta charset=\"utf-8\">\n<title>Generated page &amp; title</title>\n")
		}
		if g.chance(0.4) {
			u := g.newUnitFront("style", Noise)
			fmt.Fprintf(&b, "<style>\nbody { margin: 0 } /* %s */ .nav a::after { content: \"%s\" }\n</style>\n", u.Token, u.Token)
			g.feat("noise:head-style")
		}
		if g.chance(0.4) {
			u := g.newUnitFront("script", Noise)
			if g.opt.XHTML {
				fmt.Fprintf(&b, "<script>var cfg = {id: \"%s\", html: \"%s\"};</script>\n", u.Token, u.Token)
			} else {
				fmt.Fprintf(&b, "<script>var cfg = {id: \"%s\", html: \"<li>%s</li>\"};</script>\n", u.Token, u.Token)
			}
			g.feat("noise:head-script")
		}
		b.WriteString("</head>\n")
		g.write(&b, body, &flat)
		if !(g.opt.Malformed && g.chance(0.15)) {
			b.WriteString("\n</html>\n")
		} else {
			g.feat("malformed:no-html-end")
		}
	}
	if body.omitEnd {
		g.feat("malformed:no-body-end")
	}
	g.d.Units = append(g.head, g.d.Units...)
	g.d.HTML = b.Bytes()
	g.d.Flat = flat.String()
}

// newUnitFront creates a noise unit that precedes every other unit (head).
func (g *gen) newUnitFront(kind string, role Role) *Unit {
	u := &Unit{Token: g.tk.Next(), Kind: kind, Role: role, Path: "/head"}
	u.Decoded = u.Token
	g.head = append(g.head, u)
	return u
}
