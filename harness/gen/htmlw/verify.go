package htmlw

import (
	"bytes"
	"fmt"
	"strings"
	"unicode"

	"golang.org/x/net/html"

	"verifharness/fw"
)

// Verify parses d.HTML with golang.org/x/net/html (an HTML5 tree builder that
// is not part of tabula's own code) and checks that the tree it builds is the
// tree the generator believes it wrote: every token sits under the expected
// chain of structural ancestors (with their class/id/role), noise tokens occur
// in no text node outside script/style, and the white-space-free text of the
// body equals the generator's decoded text. A non-nil error is a generator
// defect (or an ambiguity in the malformed markup), never a tabula defect.
func (d *Doc) Verify() error {
	root, err := html.Parse(bytes.NewReader(d.HTML))
	if err != nil {
		return err
	}
	var body *html.Node
	var find func(n *html.Node)
	find = func(n *html.Node) {
		if body == nil && n.Type == html.ElementNode && n.Data == "body" {
			body = n
			return
		}
		for c := n.FirstChild; c != nil && body == nil; c = c.NextSibling {
			find(c)
		}
	}
	find(root)
	if body == nil {
		return fmt.Errorf("no body")
	}
	role := map[string]Role{}
	for _, u := range d.Units {
		role[u.Token] = u.Role
	}
	seen := map[string]int{}
	var flat strings.Builder
	var firstErr error
	fail := func(f string, a ...any) {
		if firstErr == nil {
			firstErr = fmt.Errorf(f, a...)
		}
	}
	ga := func(n *html.Node, k string) string {
		for _, a := range n.Attr {
			if a.Key == k {
				return a.Val
			}
		}
		return ""
	}
	var walk func(n *html.Node, path string)
	walk = func(n *html.Node, path string) {
		switch n.Type {
		case html.ElementNode:
			if n.Data == "script" || n.Data == "style" {
				return
			}
			if !inlineTags[n.Data] {
				path += "/" + sig(n.Data, ga(n, "class"), ga(n, "id"), ga(n, "role"))
			}
		case html.TextNode:
			for _, r := range n.Data {
				if !unicode.IsSpace(r) {
					flat.WriteRune(r)
				}
			}
			for _, t := range fw.FindTokens(n.Data) {
				seen[t]++
				r, ok := role[t]
				if !ok {
					fail("unknown token %s in text", t)
					continue
				}
				if r == Noise {
					fail("noise token %s appears in a text node under %s", t, path)
					continue
				}
				if want := d.chains[t]; want != path {
					fail("token %s: parser puts it under %s, generator expected %s", t, path, want)
				}
			}
		}
		for c := n.FirstChild; c != nil; c = c.NextSibling {
			walk(c, path)
		}
	}
	walk(body, "")
	for _, u := range d.Units {
		if u.Role != Noise && seen[u.Token] != 1 {
			fail("token %s (%s %s) occurs %d times in the parsed body", u.Token, u.Role, u.Kind, seen[u.Token])
		}
	}
	if firstErr == nil && flat.String() != d.Flat {
		a, b := flat.String(), d.Flat
		i := 0
		for i < len(a) && i < len(b) && a[i] == b[i] {
			i++
		}
		lo := i - 30
		if lo < 0 {
			lo = 0
		}
		cut := func(s string) string {
			if len(s) > i+40 {
				return s[lo : i+40]
			}
			return s[lo:]
		}
		fail("decoded text differs at byte %d: parser %q, generator %q", i, cut(a), cut(b))
	}
	return firstErr
}
