package pdfw

import (
	"fmt"
	"math/rand"
	"strings"
	"unicode/utf8"

	"golang.org/x/text/encoding/charmap"
	"golang.org/x/text/unicode/norm"

	"verifharness/fw"
)

// FontKinds lists the font constructions the generator knows.
var FontKinds = []string{"t1-winansi", "t1-macroman", "t1-std", "tt-winansi-tounicode", "type0-identity", "t1-std14-tounicode"}

// GenFont is a generated font with its encoder (rune -> code bytes).
type GenFont struct {
	Font
	enc   map[rune][]byte
	runes []rune // non-ASCII-letter repertoire for filler words
}

const asciiWordChars = "abcdefghijkmnoprstuvwxyzABCDEFGHIJKLMNOPRSTUVWXYZ0123456789" // filler (no q)
const asciiRepertoire = "abcdefghijklmnopqrstuvwxyzABCDEFGHIJKLMNOPQRSTUVWXYZ0123456789"

var exoticPool = []rune("αβγδεζηθικλμνξοπρστυφχψωΑΒΓΔЖЗИЙКЛМНПФЦЧШЩЪЫЬЭЮЯбвгдежзийклмнñçéèêëàâäôöùûüÿßøåæœŁłŃńŚśŹźĆćĘęĄą日本語中文字漢字仮名東京大阪学校電車時間水火木金土€£¥§¶†‡•…‰™©®±×÷≠≤≥∞∑∏√∫≈")

// NewGenFont builds a font of the given kind with a seed-chosen code assignment.
func NewGenFont(id int, kind string, r *rand.Rand) *GenFont {
	g := &GenFont{Font: Font{ID: id, Kind: kind, Tag: fmt.Sprintf("T%dx%04d", id, r.Intn(10000))}, enc: map[rune][]byte{}}
	addTable := func(cm *charmap.Charmap, codes []int) {
		for _, c := range codes {
			ru := cm.DecodeByte(byte(c))
			if ru == utf8.RuneError {
				continue
			}
			g.enc[ru] = []byte{byte(c)}
			if c >= 0x80 {
				g.runes = append(g.runes, ru)
			}
		}
	}
	switch kind {
	case "t1-winansi":
		var codes []int
		for c := 0x20; c <= 0x7e; c++ {
			codes = append(codes, c)
		}
		// cp1252 specials that WinAnsiEncoding defines identically
		codes = append(codes, 0x80, 0x82, 0x84, 0x85, 0x86, 0x87, 0x89, 0x8a, 0x8b, 0x8c, 0x8e, 0x91, 0x92, 0x93, 0x94, 0x96, 0x97, 0x99, 0x9a, 0x9b, 0x9c, 0x9e, 0x9f)
		// 0xFE/0xFF are left out: a code string that begins FE FF or FF FE is read
		// as a UTF-16 byte order mark (the decode priority C07 specifies), so
		// such a string does not denote thorn / y-diaeresis text
		for c := 0xa1; c <= 0xfd; c++ {
			if c != 0xad {
				codes = append(codes, c)
			}
		}
		addTable(charmap.Windows1252, codes)
	case "t1-macroman":
		var codes []int
		for c := 0x20; c <= 0x7e; c++ {
			codes = append(codes, c)
		}
		for c := 0x80; c <= 0x9f; c++ { // accented letters, identical in every MacRoman variant
			codes = append(codes, c)
		}
		addTable(charmap.Macintosh, codes)
	case "t1-std":
		for _, ch := range asciiRepertoire + " " {
			g.enc[ch] = []byte{byte(ch)}
		}
	case "tt-winansi-tounicode", "t1-std14-tounicode":
		g.ToUnicode = map[string]string{}
		perm := r.Perm(0xfe - 0x21 + 1)
		rep := []rune(asciiRepertoire + " ")
		pool := append([]rune{}, exoticPool...)
		r.Shuffle(len(pool), func(i, j int) { pool[i], pool[j] = pool[j], pool[i] })
		rep = append(rep, pool[:60]...)
		g.runes = pool[:60]
		for i, ru := range rep {
			code := byte(0x21 + perm[i])
			g.enc[ru] = []byte{code}
			g.ToUnicode[string([]byte{code})] = string(ru)
		}
	case "type0-identity":
		g.ToUnicode = map[string]string{}
		rep := []rune(asciiRepertoire + " ")
		pool := append([]rune{}, exoticPool...)
		r.Shuffle(len(pool), func(i, j int) { pool[i], pool[j] = pool[j], pool[i] })
		rep = append(rep, pool[:80]...)
		g.runes = pool[:80]
		used := map[int]bool{}
		for _, ru := range rep {
			var c int
			for {
				c = 1 + r.Intn(0xfffd)
				// avoid codes whose big-endian bytes start a UTF-16 BOM
				if !used[c] && c>>8 != 0xfe && c>>8 != 0xff {
					break
				}
			}
			used[c] = true
			code := []byte{byte(c >> 8), byte(c)}
			g.enc[ru] = code
			g.ToUnicode[string(code)] = string(ru)
		}
	}
	return g
}

// Encode returns the code string of s (every rune must be in the repertoire).
func (g *GenFont) Encode(s string) []byte {
	var out []byte
	for _, ru := range s {
		c, ok := g.enc[ru]
		if !ok {
			panic(fmt.Sprintf("pdfw: rune %q not encodable in font kind %s", ru, g.Kind))
		}
		out = append(out, c...)
	}
	return out
}

// Word returns a random filler word from the font's repertoire (never contains 'q').
func (g *GenFont) Word(r *rand.Rand) string {
	n := 2 + r.Intn(7)
	var b strings.Builder
	for i := 0; i < n; i++ {
		if len(g.runes) > 0 && r.Intn(3) == 0 {
			b.WriteRune(g.runes[r.Intn(len(g.runes))])
		} else {
			b.WriteByte(asciiWordChars[r.Intn(len(asciiWordChars))])
		}
	}
	return b.String()
}

// DocOpts controls GenDoc.
type DocOpts struct {
	MinPages, MaxPages int
	MaxLines           int
	MaxFonts           int
	TreeDepth          int    // 1..4 (1 = flat)
	Inherit            string // leaf | parent | grandparent | root | mixed
	Override           bool   // redefine inherited attributes further down (with decoys above)
	FontKinds          []string
	NoEmptyPages       bool
	FontWidths         bool // simple fonts may carry explicit /Widths (seed-chosen)
	ExactKinds         bool // one font per entry of FontKinds, in that order
}

// GenResult is a generated logical document plus the oracle's view.
type GenResult struct {
	Doc      *Doc
	Fonts    []*GenFont
	Tok      *fw.Tokens
	nextNode int
}

// ExpectedPageText returns, per page leaf, the concatenated Unicode of the shows
// (NFC) and the tokens in content order.
func (g *GenResult) ExpectedPageText() (texts []string, tokens [][]string) {
	for _, lf := range g.Doc.Leaves() {
		var sb strings.Builder
		for _, ln := range lf.Node.Page.Lines {
			for _, sh := range ln.Shows {
				sb.WriteString(sh.Text)
			}
		}
		t := norm.NFC.String(sb.String())
		texts = append(texts, t)
		tokens = append(tokens, fw.FindTokens(t))
	}
	return
}

func (g *GenResult) newNode() *Node {
	g.nextNode++
	return &Node{ID: g.nextNode}
}

// GenPage makes a page of nl lines.
func (g *GenResult) GenPage(r *rand.Rand, nl int) *PageL {
	p := &PageL{}
	y := 740.0
	for i := 0; i < nl; i++ {
		size := float64(9 + r.Intn(6))
		y -= size + 6 + float64(r.Intn(14))
		ln := Line{X: 72 + float64(r.Intn(3))*0.5, Y: y, Size: size}
		ns := 1
		if r.Intn(5) == 0 {
			ns = 2
		}
		// keep the line inside the page at the widest width estimate (0.6 em per
		// character): text running past the right edge invites column heuristics
		// that are C09's subject, not this writer's
		budget := int(480/(0.6*size)) / ns
		for s := 0; s < ns; s++ {
			fi := r.Intn(len(g.Fonts))
			f := g.Fonts[fi]
			words := []string{g.Tok.Next()}
			used := fw.TokenLen
			for k := 2 + r.Intn(4); k > 0; k-- {
				w := f.Word(r)
				if used+1+len([]rune(w)) > budget-fw.TokenLen-2 {
					break
				}
				words = append(words, w)
				used += 1 + len([]rune(w))
			}
			if r.Intn(2) == 0 && used+1+fw.TokenLen <= budget {
				words = append(words, g.Tok.Next())
			}
			txt := strings.Join(words, " ")
			if s > 0 {
				txt = " " + txt
			}
			ln.Shows = append(ln.Shows, Show{Font: fi, Codes: f.Encode(txt), Text: txt})
		}
		p.Lines = append(p.Lines, ln)
	}
	return p
}

// GenDoc generates a logical document.
func GenDoc(r *rand.Rand, o DocOpts) *GenResult {
	g := &GenResult{Tok: fw.NewTokens(r)}
	kinds := o.FontKinds
	if len(kinds) == 0 {
		kinds = FontKinds
	}
	nf := 1 + r.Intn(max1(o.MaxFonts))
	if o.ExactKinds {
		nf = len(kinds)
	}
	for i := 0; i < nf; i++ {
		kind := kinds[r.Intn(len(kinds))]
		if o.ExactKinds {
			kind = kinds[i]
		}
		gf := NewGenFont(i+1, kind, r)
		if o.FontWidths && gf.Kind != "type0-identity" && r.Intn(2) == 0 {
			for c := 32; c <= 255; c++ {
				gf.Widths = append(gf.Widths, 200+r.Intn(800))
			}
		}
		g.Fonts = append(g.Fonts, gf)
	}
	d := &Doc{}
	for _, f := range g.Fonts {
		d.Fonts = append(d.Fonts, f.Font)
	}
	g.Doc = d
	np := o.MinPages + r.Intn(o.MaxPages-o.MinPages+1)
	// tree
	depth := o.TreeDepth
	if depth < 1 {
		depth = 1
	}
	root := g.newNode()
	d.Root = root
	var leaves []*Node
	var parents [][]*Node // chain for each leaf
	for i := 0; i < np; i++ {
		// descend/create a random path of length depth-1 under root
		cur := root
		chain := []*Node{root}
		for lv := 1; lv < depth; lv++ {
			var inner []*Node
			for _, k := range cur.Kids {
				if k.Page == nil {
					inner = append(inner, k)
				}
			}
			// reuse the last inner node (keeps document order = creation order) or open a new one
			if len(inner) > 0 && r.Intn(3) > 0 && cur.Kids[len(cur.Kids)-1].Page == nil {
				cur = cur.Kids[len(cur.Kids)-1]
			} else {
				n := g.newNode()
				cur.Kids = append(cur.Kids, n)
				cur = n
			}
			chain = append(chain, cur)
			if r.Intn(4) == 0 {
				break // ragged depth
			}
		}
		leaf := g.newNode()
		nl := r.Intn(o.MaxLines + 1)
		if o.NoEmptyPages && nl == 0 {
			nl = 1
		}
		leaf.Page = g.GenPage(r, nl)
		leaf.Page.ID = leaf.ID
		cur.Kids = append(cur.Kids, leaf)
		leaves = append(leaves, leaf)
		parents = append(parents, chain)
	}
	// inheritable attributes
	boxes := [][4]float64{{0, 0, 612, 792}, {0, 0, 595, 842}, {0, 0, 612, 1008}, {10, 20, 622, 812}}
	place := func(leaf *Node, chain []*Node, where string) *Node {
		switch where {
		case "leaf":
			return leaf
		case "parent":
			return chain[len(chain)-1]
		case "grandparent":
			if len(chain) >= 2 {
				return chain[len(chain)-2]
			}
			return chain[0]
		default:
			return chain[0]
		}
	}
	for i, leaf := range leaves {
		for _, attr := range []string{"MediaBox", "Resources", "Rotate"} {
			where := o.Inherit
			if where == "mixed" || where == "" {
				where = []string{"leaf", "parent", "grandparent", "root"}[r.Intn(4)]
			}
			n := place(leaf, parents[i], where)
			switch attr {
			case "MediaBox":
				if n.MediaBox == nil {
					bx := boxes[r.Intn(len(boxes))]
					n.MediaBox = &bx
				}
			case "Resources":
				n.Resources = true
			case "Rotate":
				if r.Intn(2) == 0 && n.Rotate == nil {
					rot := []int{0, 90, 180, 270}[r.Intn(4)]
					n.Rotate = &rot
				}
			}
		}
	}
	if o.Override {
		// nodes above a Resources-defining node get decoy Resources; boxes get different values above
		for i, leaf := range leaves {
			chain := append(append([]*Node{}, parents[i]...), leaf)
			seenRes, seenBox := false, false
			for k := len(chain) - 1; k >= 0; k-- {
				n := chain[k]
				if seenRes && !n.Resources && r.Intn(2) == 0 {
					n.Resources = true
					n.DecoyFonts = true
				}
				if seenBox && n.MediaBox == nil && r.Intn(2) == 0 {
					bx := [4]float64{0, 0, 100 + float64(r.Intn(50)), 100 + float64(r.Intn(50))}
					n.MediaBox = &bx
				}
				if n.Resources && !n.DecoyFonts {
					seenRes = true
				}
				if n.MediaBox != nil {
					seenBox = true
				}
			}
		}
		// a decoy must never be the *nearest* definition of any leaf
		for _, lf := range d.Leaves() {
			if own := lf.ResourcesOwner(); own != nil && own.DecoyFonts {
				own.DecoyFonts = false
			}
		}
	}
	return g
}

func max1(n int) int {
	if n < 1 {
		return 1
	}
	return n
}

// RandomLayout draws a layout vector.
func RandomLayout(r *rand.Rand, revs int) Layout {
	l := Layout{
		EOL:                   []string{"\n", "\r\n", "\r"}[r.Intn(3)],
		Tight:                 r.Intn(3) == 0,
		ObjStm:                []string{"none", "some", "all"}[r.Intn(3)],
		LenMode:               []string{"direct", "ind-before", "ind-after", "ind-objstm", "mixed"}[r.Intn(5)],
		Filter:                []string{"none", "Fl", "AHx", "A85", "FlPNG", "A85Fl", "AHxFl", "chain3", "mixed", "AHxFlPNG", "A85FlPNG"}[r.Intn(11)],
		Split:                 1 + r.Intn(4),
		SplitNoWS:             r.Intn(3) == 0,
		Numbering:             []string{"dense", "sparse", "permuted"}[r.Intn(3)],
		Shuffle:               r.Intn(2) == 0,
		ResIndirect:           r.Intn(2) == 0,
		ContentsArrayIndirect: r.Intn(3) == 0,
		XRefPredictor:         r.Intn(2) == 0,
		GapsAsFree:            r.Intn(3) == 0,
		ObjStmExtends:         r.Intn(3) == 0,
		Comments:              r.Intn(3) == 0, Quotes: r.Intn(3) == 0, TJKern: r.Intn(3) == 0, Forms: r.Intn(3) == 0,
		BoxIndirect: r.Intn(4) == 0,
	}
	switch r.Intn(4) {
	case 0:
		l.BigContent = 4200 + r.Intn(400)
	case 1:
		l.BigContent = 8300 + r.Intn(800)
	}
	for i := 0; i < revs; i++ {
		l.XRef = append(l.XRef, []string{"table", "stream"}[r.Intn(2)])
	}
	l.FontNameRot, l.FontsDirect, l.InlineImages, l.TmScale = r.Intn(3) == 0, r.Intn(3) == 0, r.Intn(3) == 0, r.Intn(4) == 0
	l.GhostFont = r.Intn(5) == 0
	return l
}

// BaselineLayout is the plainest layout (every dimension at its neutral value).
func BaselineLayout() Layout {
	return Layout{EOL: "\n", XRef: []string{"table"}, ObjStm: "none", LenMode: "direct", Filter: "none", Split: 1, Numbering: "dense"}
}

// cloneNode deep-copies a tree (page contents are shared until replaced).
func cloneNode(n *Node) *Node {
	c := *n
	c.Kids = nil
	for _, k := range n.Kids {
		c.Kids = append(c.Kids, cloneNode(k))
	}
	if n.MediaBox != nil {
		b := *n.MediaBox
		c.MediaBox = &b
	}
	if n.Rotate != nil {
		v := *n.Rotate
		c.Rotate = &v
	}
	return &c
}

// Evolve returns a new GenResult whose document is g's document after 1–2
// seed-chosen edits (replace a page's content, append a page, delete a page).
// Node ids are preserved so unchanged entities keep their object numbers.
func (g *GenResult) Evolve(r *rand.Rand) (*GenResult, []string) {
	ng := &GenResult{Fonts: g.Fonts, Tok: g.Tok, nextNode: g.nextNode}
	nd := &Doc{Fonts: g.Doc.Fonts, Root: cloneNode(g.Doc.Root)}
	ng.Doc = nd
	var done []string
	for k := 1 + r.Intn(2); k > 0; k-- {
		leaves := nd.Leaves()
		switch op := r.Intn(3); {
		case op == 0 && len(leaves) > 0: // replace content
			lf := leaves[r.Intn(len(leaves))]
			p := ng.GenPage(r, 1+r.Intn(4))
			p.ID = lf.Node.ID
			lf.Node.Page = p
			done = append(done, "replace-content")
		case op == 1: // append a page under a random inner node
			var inner []*Node
			var walk func(n *Node)
			walk = func(n *Node) {
				if n.Page == nil {
					inner = append(inner, n)
					for _, k := range n.Kids {
						walk(k)
					}
				}
			}
			walk(nd.Root)
			par := inner[r.Intn(len(inner))]
			leaf := ng.newNode()
			leaf.Page = ng.GenPage(r, 1+r.Intn(4))
			leaf.Page.ID = leaf.ID
			pos := r.Intn(len(par.Kids) + 1)
			par.Kids = append(par.Kids[:pos], append([]*Node{leaf}, par.Kids[pos:]...)...)
			// make sure required inheritable attributes resolve
			for _, lf := range nd.Leaves() {
				if lf.Node == leaf {
					if own := lf.ResourcesOwner(); own == nil || own.DecoyFonts {
						leaf.Resources = true // a decoy dictionary must never be the nearest definition
					}
					if lf.EffMediaBox() == ([4]float64{}) {
						bx := [4]float64{0, 0, 612, 792}
						leaf.MediaBox = &bx
					}
				}
			}
			done = append(done, "append-page")
		case op == 2 && len(leaves) > 1: // delete a page whose parent keeps another kid
			lf := leaves[r.Intn(len(leaves))]
			par := lf.Chain[len(lf.Chain)-2]
			if len(par.Kids) < 2 {
				continue
			}
			for i, kd := range par.Kids {
				if kd == lf.Node {
					par.Kids = append(par.Kids[:i:i], par.Kids[i+1:]...)
					break
				}
			}
			done = append(done, "delete-page")
		}
	}
	return ng, done
}
