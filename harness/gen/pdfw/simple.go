package pdfw

import (
	"fmt"
	"math/rand"
	"strings"
)

// SimpleItem is one positioned string (ASCII / WinAnsi text) on a simple page.
type SimpleItem struct {
	X, Y float64 // baseline origin in PDF user space (origin bottom-left)
	Size float64
	Text string // printable ASCII (escaped as needed)
	Bold bool   // uses Helvetica-Bold (font /F2) instead of Helvetica (/F1)
	Flip bool   // text matrix "1 0 0 -1 x y" (upright text under a Y-flipping CTM)
}

// SimplePage is a page of positioned strings.
type SimplePage struct {
	W, H  float64
	Items []SimpleItem
	CTM   *[6]float64 // optional "a b c d e f cm" emitted once before the items
	// Box selects how /MediaBox is written: "" = direct numbers; "indirect" =
	// the width and height are indirect references to number objects
	// ([0 0 12 0 R 13 0 R], legal: any array element may be indirect);
	// "zero" = the degenerate box [0 0 0 0]; "dangling" = [0 0 w 9999 0 R] with
	// no object 9999.
	Box string
	// UserUnit, when non-zero, is written as /UserUnit (PDF 1.6: the size of a
	// user-space unit in 1/72 inch; coordinates stay in user space).
	UserUnit float64
	// Unreadable: the page's content stream claims /FlateDecode but holds no
	// zlib data: the page exists (it counts, it has a box) but cannot be extracted
	Unreadable bool
	// GhostContent: the items are shown in one text object with relative moves
	// (Td), written as two content streams, and the /Contents array holds a
	// reference to an object the file does not have between the two
	// ([A ghost B]; ISO 32000-1 7.3.10: such a reference reads as null)
	GhostContent bool
	// CutOff: after the items the content stream goes on with one more show operation
	// that is damaged: "string" = the stream ends inside its literal string,
	// "hex" = its hexadecimal string holds a character that is no hex digit,
	// "dict" = it ends inside a dictionary operand, after white space
	CutOff string
}

// SimplePDF writes a plain single-revision PDF (classic xref, direct lengths,
// no filters, flat page tree) with one "BT … Tj ET" per item, in the given
// order. It is the neutral physical layout: checks about layout analysis,
// page selection or header/footer detection use it so that the physical
// layout dimensions of C01 do not interfere.
func SimplePDF(pages []SimplePage) []byte {
	r := rand.New(rand.NewSource(1))
	f := NewFile("1.4", "\n", false, r)
	var objs []RevObj
	num := 0
	next := func() int { num++; return num }
	cat, root, f1, f2 := next(), next(), next(), next()
	kids := Arr{}
	for i, p := range pages {
		pn, cn := next(), next()
		pk, ck := fmt.Sprintf("p%d", i), fmt.Sprintf("c%d", i)
		var sb strings.Builder
		if p.CTM != nil {
			m := p.CTM
			fmt.Fprintf(&sb, "%s %s %s %s %s %s cm\n", fnum(m[0]), fnum(m[1]), fnum(m[2]), fnum(m[3]), fnum(m[4]), fnum(m[5]))
		}
		for _, it := range p.Items {
			font := "F1"
			if it.Bold {
				font = "F2"
			}
			e := &Enc{NoFields: true}
			e.str(Str{B: []byte(it.Text)})
			d := "1"
			if it.Flip {
				d = "-1"
			}
			fmt.Fprintf(&sb, "BT /%s %s Tf 1 0 0 %s %s %s Tm %s Tj ET\n", font, fnum(it.Size), d, fnum(it.X), fnum(it.Y), e.Buf.String())
		}
		var contents any = Ref{ck}
		var ghostObjs []RevObj
		if p.GhostContent && len(p.Items) >= 2 {
			var a, b strings.Builder
			px, py := 0.0, 0.0
			for k, it := range p.Items {
				w := &a
				if k >= len(p.Items)/2 {
					w = &b
				}
				e := &Enc{NoFields: true}
				e.str(Str{B: []byte(it.Text)})
				if k == 0 {
					fmt.Fprintf(w, "BT /F1 %s Tf\n", fnum(it.Size))
				}
				fmt.Fprintf(w, "%s %s Td %s Tj\n", fnum(it.X-px), fnum(it.Y-py), e.Buf.String())
				px, py = it.X, it.Y
			}
			b.WriteString("ET\n")
			gk, bk := fmt.Sprintf("ghostc%d", i), fmt.Sprintf("c%db", i)
			f.Bind(gk, next(), 0)
			ghostObjs = append(ghostObjs, RevObj{Key: bk, Num: next(), Obj: &Stream{Raw: []byte(b.String()), LenMode: "direct"}})
			sb.Reset()
			sb.WriteString(a.String())
			contents = Arr{Ref{ck}, Ref{gk}, Ref{bk}}
		}
		extra := Dict{}
		if p.UserUnit != 0 {
			extra = append(extra, KV{"UserUnit", p.UserUnit})
		}
		objs = append(objs,
			RevObj{Key: pk, Num: pn, Obj: append(Dict{{"Type", Name("Page")}, {"Parent", Ref{"root"}}, {"MediaBox", boxOf(i, p, &objs, next)},
				{"Resources", Dict{{"Font", Dict{{"F1", Ref{"f1"}}, {"F2", Ref{"f2"}}}}}}, {"Contents", contents}}, extra...)},
			RevObj{Key: ck, Num: cn, Obj: contentStream(p, sb.String())})
		objs = append(objs, ghostObjs...)
		kids = append(kids, Ref{pk})
	}
	head := []RevObj{
		{Key: "catalog", Num: cat, Obj: Dict{{"Type", Name("Catalog")}, {"Pages", Ref{"root"}}}},
		{Key: "root", Num: root, Obj: Dict{{"Type", Name("Pages")}, {"Kids", kids}, {"Count", len(pages)}}},
		{Key: "f1", Num: f1, Obj: Dict{{"Type", Name("Font")}, {"Subtype", Name("Type1")}, {"BaseFont", Name("Helvetica")}, {"Encoding", Name("WinAnsiEncoding")}}},
		{Key: "f2", Num: f2, Obj: Dict{{"Type", Name("Font")}, {"Subtype", Name("Type1")}, {"BaseFont", Name("Helvetica-Bold")}, {"Encoding", Name("WinAnsiEncoding")}}},
	}
	f.E.R = rand.New(rand.NewSource(2))
	f.WriteRevision(&Rev{Objs: append(head, objs...), Root: "catalog"})
	return append([]byte{}, f.Bytes()...)
}

func contentStream(p SimplePage, content string) *Stream {
	if p.Unreadable {
		// the filter entry is spelled as a name, as a one-element array or as a
		// two-stage chain whose second stage fails (by the length of the content)
		raw := []byte("\x00\x01 this is not a zlib stream \xff\xfe")
		var filter any = Name("FlateDecode")
		switch len(content) % 3 {
		case 1:
			filter = Arr{Name("FlateDecode")}
		case 2:
			filter = Arr{Name("ASCIIHexDecode"), Name("FlateDecode")}
			raw = []byte("00 01 20 74 68 69 73 20 69 73 20 6e 6f 74 20 7a 6c 69 62 ff fe>")
		}
		return &Stream{D: Dict{{"Filter", filter}}, Raw: raw, LenMode: "direct"}
	}
	switch p.CutOff {
	case "string":
		content += "BT /F1 11 Tf 1 0 0 1 72 90 Tm (Confidential draft, do not distribute: the stream ends he"
	case "dict":
		content += "/Span <</MCID 1 "
	case "hex":
		content += "BT /F1 11 Tf 1 0 0 1 72 90 Tm <436f6e666964656e7469616c20647261667421zz> Tj ET\n"
	}
	return &Stream{Raw: []byte(content), LenMode: "direct"}
}

func fnum(v float64) string {
	s := strings.TrimRight(strings.TrimRight(fmt.Sprintf("%.3f", v), "0"), ".")
	if s == "" || s == "-" {
		return "0"
	}
	return s
}

// boxOf renders the MediaBox of a simple page in the requested style.
func boxOf(i int, p SimplePage, objs *[]RevObj, next func() int) Arr {
	switch p.Box {
	case "indirect":
		wk, hk := fmt.Sprintf("boxw%d", i), fmt.Sprintf("boxh%d", i)
		*objs = append(*objs, RevObj{Key: wk, Num: next(), Obj: p.W}, RevObj{Key: hk, Num: next(), Obj: p.H})
		return Arr{0, 0, Ref{wk}, Ref{hk}}
	case "zero":
		return Arr{0, 0, 0, 0}
	case "dangling":
		// the height is a reference to an object the file does not have (= null):
		// the box cannot be read, the page content can
		return Arr{0, 0, p.W, RefN{Num: 9999}}
	}
	return Arr{0, 0, p.W, p.H}
}
