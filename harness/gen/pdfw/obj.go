// Package pdfw is an independent PDF writer (ISO 32000-1), sharing no code
// with tabula. It serialises objects, classic xref tables, xref streams,
// object streams, filter chains and incremental revisions, and records a
// field map of what it wrote (for the C02 fault catalogue).
package pdfw

import (
	"bytes"
	"fmt"
	"math/rand"
	"sort"
	"strconv"
)

// ---- object model ----------------------------------------------------------

type Name string

// Ref is a reference to the object registered under Key (resolved to an
// object number when written).
type Ref struct{ Key string }

// RefN is a reference by explicit number (used for deliberately dangling or
// retargeted references).
type RefN struct{ Num, Gen int }

// Str is a string object; Hex selects <...> spelling.
type Str struct {
	B   []byte
	Hex bool
}

// Real is a real number kept as its decimal literal.
type Real string

type KV struct {
	K string
	V any
}

// Dict keeps key order.
type Dict []KV

func (d Dict) Get(k string) any {
	for _, kv := range d {
		if kv.K == k {
			return kv.V
		}
	}
	return nil
}

func (d Dict) With(k string, v any) Dict {
	for i, kv := range d {
		if kv.K == k {
			nd := append(Dict{}, d...)
			nd[i].V = v
			return nd
		}
	}
	return append(append(Dict{}, d...), KV{k, v})
}

func (d Dict) Without(k string) Dict {
	nd := Dict{}
	for _, kv := range d {
		if kv.K != k {
			nd = append(nd, kv)
		}
	}
	return nd
}

type Arr []any

// FilterStage is one filter of a stream's chain (decode order).
type FilterStage struct {
	Kind   string // Fl | AHx | A85
	Abbrev bool   // abbreviated filter name
	Pred   int    // Fl only: 0 none, 12 = PNG predictor (rows of Cols bytes)
	Cols   int
	Parms  string // for stages without predictor: absent | null | dict (empty dict)
}

// Stream is a stream object. Raw is the unencoded data.
type Stream struct {
	D            Dict
	Raw          []byte
	Filters      []FilterStage
	LenMode      string // direct | indirect  (indirect: /Length is Ref{LenKey})
	LenKey       string
	ParmsAsArray bool // single filter written as 1-element arrays
}

// ---- serialiser -----------------------------------------------------------

// Field is one recorded region of the output.
type Field struct {
	Kind  string // int | real | ref | name | string | delim | keyword | streamdata | xrefentry | xrefhead | startxref | header | eof
	Start int
	End   int
	Obj   int // enclosing top-level object number (0 = none)
}

// Enc serialises objects into a growing buffer.
type Enc struct {
	Buf      bytes.Buffer
	EOL      string
	Tight    bool // omit optional white space around delimiters
	R        *rand.Rand
	Resolve  func(key string) (num, gen int)
	Fields   []Field
	curObj   int
	needSep  bool // previous token was a regular token (needs white space before another regular token)
	NoFields bool
}

func (e *Enc) field(kind string, start int) {
	if e.NoFields {
		return
	}
	e.Fields = append(e.Fields, Field{Kind: kind, Start: start, End: e.Buf.Len(), Obj: e.curObj})
}

func (e *Enc) sep() {
	// white space between tokens: a space, or sometimes an EOL
	if e.R != nil && e.R.Intn(12) == 0 {
		e.Buf.WriteString(e.EOL)
	} else {
		e.Buf.WriteByte(' ')
	}
	e.needSep = false
}

// regular writes a regular (non-delimiter) token.
func (e *Enc) regular(kind, s string) {
	if e.needSep {
		e.sep()
	}
	st := e.Buf.Len()
	e.Buf.WriteString(s)
	e.field(kind, st)
	e.needSep = true
}

// delim writes a delimiter token.
func (e *Enc) delim(s string) {
	if e.needSep && !e.Tight {
		e.sep()
	}
	st := e.Buf.Len()
	e.Buf.WriteString(s)
	e.field("delim", st)
	e.needSep = false
}

func (e *Enc) optSpace() {
	if !e.Tight {
		e.Buf.WriteByte(' ')
	}
}

// NL forces an end-of-line.
func (e *Enc) NL() {
	e.Buf.WriteString(e.EOL)
	e.needSep = false
}

var nameRegular = func() [256]bool {
	var t [256]bool
	for c := 0x21; c <= 0x7e; c++ {
		t[c] = true
	}
	for _, c := range []byte("()<>[]{}/%#") {
		t[c] = false
	}
	return t
}()

func (e *Enc) name(n Name) {
	var b bytes.Buffer
	b.WriteByte('/')
	for i := 0; i < len(n); i++ {
		c := n[i]
		if nameRegular[c] {
			b.WriteByte(c)
		} else {
			fmt.Fprintf(&b, "#%02X", c)
		}
	}
	// '/' is a delimiter: no separator needed before a name unless we want one
	if e.needSep && !e.Tight {
		e.sep()
	}
	st := e.Buf.Len()
	e.Buf.Write(b.Bytes())
	e.field("name", st)
	e.needSep = true
}

func (e *Enc) str(s Str) {
	if e.needSep && !e.Tight {
		e.sep()
	}
	st := e.Buf.Len()
	if s.Hex {
		e.Buf.WriteByte('<')
		for _, c := range s.B {
			fmt.Fprintf(&e.Buf, "%02X", c)
		}
		e.Buf.WriteByte('>')
	} else {
		e.Buf.WriteByte('(')
		for _, c := range s.B {
			switch c {
			case '(', ')', '\\':
				e.Buf.WriteByte('\\')
				e.Buf.WriteByte(c)
			case '\n':
				e.Buf.WriteString("\\n")
			case '\r':
				e.Buf.WriteString("\\r")
			default:
				if c < 0x20 || c >= 0x7f {
					fmt.Fprintf(&e.Buf, "\\%03o", c)
				} else {
					e.Buf.WriteByte(c)
				}
			}
		}
		e.Buf.WriteByte(')')
	}
	e.field("string", st)
	e.needSep = false
}

// Obj writes any object value.
func (e *Enc) Obj(v any) {
	switch x := v.(type) {
	case nil:
		e.regular("keyword", "null")
	case bool:
		if x {
			e.regular("keyword", "true")
		} else {
			e.regular("keyword", "false")
		}
	case int:
		e.regular("int", strconv.Itoa(x))
	case int64:
		e.regular("int", strconv.FormatInt(x, 10))
	case float64:
		e.regular("real", strconv.FormatFloat(x, 'f', -1, 64))
	case Real:
		e.regular("real", string(x))
	case Name:
		e.name(x)
	case Str:
		e.str(x)
	case Ref:
		n, g := e.Resolve(x.Key)
		if e.needSep {
			e.sep()
		}
		st := e.Buf.Len()
		fmt.Fprintf(&e.Buf, "%d %d R", n, g)
		e.field("ref", st)
		e.needSep = true
	case RefN:
		if e.needSep {
			e.sep()
		}
		st := e.Buf.Len()
		fmt.Fprintf(&e.Buf, "%d %d R", x.Num, x.Gen)
		e.field("ref", st)
		e.needSep = true
	case Arr:
		e.delim("[")
		for _, it := range x {
			e.Obj(it)
		}
		e.delim("]")
	case Dict:
		e.delim("<<")
		for _, kv := range x {
			e.name(Name(kv.K))
			e.Obj(kv.V)
			if e.R != nil && !e.Tight && e.R.Intn(6) == 0 {
				e.NL()
			}
		}
		e.delim(">>")
	default:
		panic(fmt.Sprintf("pdfw: cannot serialise %T", v))
	}
}

// SortedKeys is a helper for deterministic iteration.
func SortedKeys[V any](m map[string]V) []string {
	ks := make([]string, 0, len(m))
	for k := range m {
		ks = append(ks, k)
	}
	sort.Strings(ks)
	return ks
}
