package pdfw

import (
	"bytes"
	"fmt"
	"math/rand"
	"sort"
	"strings"
	"unicode/utf16"
)

// ---- logical document ------------------------------------------------------

// Font is a logical font: how codes map to Unicode.
type Font struct {
	ID   int
	Kind string // t1-winansi | t1-macroman | t1-std | tt-winansi-tounicode | type0-identity
	// CodeOf maps a rune to its code bytes; built by the caller (doc generator).
	Tag string // unique BaseFont tag
	// ToUnicode: code (1 or 2 bytes, as string) -> unicode text; nil for fonts without ToUnicode
	ToUnicode map[string]string
	// Widths, when non-nil, is written as /FirstChar 32 /LastChar 255 /Widths [...]
	// (simple fonts only): glyph widths in 1/1000 text space units.
	Widths []int
}

// Show is one text-showing step: a string in a font at a baseline.
type Show struct {
	Font  int    // index into Doc.Fonts
	Codes []byte // the code string shown
	Text  string // the Unicode the font defines for Codes (oracle side)
}

// Line is a baseline with one or more shows (left to right).
type Line struct {
	X, Y  float64
	Size  float64
	Shows []Show
}

// PageL is a logical page.
type PageL struct {
	ID    int
	Lines []Line
}

// Node of the page tree.
type Node struct {
	ID   int
	Kids []*Node
	Page *PageL
	// inheritable attributes defined at this node
	MediaBox  *[4]float64
	Rotate    *int
	Resources bool // a Resources dictionary is defined here
	// DecoyFonts: when this node's Resources are overridden further down, its
	// font names point at other fonts (so using the wrong dictionary decodes wrongly)
	DecoyFonts bool
}

// Doc is the logical document.
type Doc struct {
	Fonts []Font
	Root  *Node
}

// Leaves returns the page leaves in document order with their ancestor chains.
func (d *Doc) Leaves() []Leaf {
	var out []Leaf
	var walk func(n *Node, chain []*Node)
	walk = func(n *Node, chain []*Node) {
		chain = append(append([]*Node{}, chain...), n)
		if n.Page != nil {
			out = append(out, Leaf{Node: n, Chain: chain})
			return
		}
		for _, k := range n.Kids {
			walk(k, chain)
		}
	}
	walk(d.Root, nil)
	return out
}

// Leaf is a page leaf with its ancestor chain (root first, leaf last).
type Leaf struct {
	Node  *Node
	Chain []*Node
}

// EffMediaBox returns the nearest definition walking up from the leaf.
func (l Leaf) EffMediaBox() [4]float64 {
	for i := len(l.Chain) - 1; i >= 0; i-- {
		if l.Chain[i].MediaBox != nil {
			return *l.Chain[i].MediaBox
		}
	}
	return [4]float64{}
}

func (l Leaf) EffRotate() int {
	for i := len(l.Chain) - 1; i >= 0; i-- {
		if l.Chain[i].Rotate != nil {
			return *l.Chain[i].Rotate
		}
	}
	return 0
}

// ResourcesOwner returns the node whose Resources the leaf uses.
func (l Leaf) ResourcesOwner() *Node {
	for i := len(l.Chain) - 1; i >= 0; i-- {
		if l.Chain[i].Resources {
			return l.Chain[i]
		}
	}
	return nil
}

// ---- physical layout -------------------------------------------------------

// Layout is the physical-layout vector of a file.
type Layout struct {
	EOL                   string   // "\n" | "\r\n" | "\r"
	Tight                 bool     // minimal white space
	XRef                  []string // per revision: table | stream
	ObjStm                string   // none | some | all   (only honoured in revisions with a stream xref)
	LenMode               string   // direct | ind-before | ind-after | ind-objstm | mixed
	Filter                string   // none | Fl | AHx | A85 | FlPNG | A85Fl | AHxFl | chain3 | mixed
	Split                 int      // content streams per page (1..4)
	SplitNoWS             bool     // split without white space at the boundary
	BigContent            int      // pad content to at least this many bytes (0 none) — straddles read-ahead sizes
	Numbering             string   // dense | sparse | permuted
	Shuffle               bool     // object order in file shuffled
	ResIndirect           bool     // Resources / Font dictionaries as indirect objects
	ContentsArrayIndirect bool     // /Contents array as an indirect object
	XRefPredictor         bool     // xref streams use PNG predictor 12
	GapsAsFree            bool
	ObjStmExtends         bool // chain object streams of a revision with /Extends
	// content-level spellings (text unchanged): comments between tokens, the ' and "
	// show operators, TJ arrays with kerning numbers, trailing lines moved into a Form XObject
	Comments, Quotes, TJKern, Forms bool
	BoxIndirect                     bool   // MediaBox arrays hold indirect references to number objects
	ObjStmFilter                    string // "" seed-chosen | none | Fl | FlP1 (Flate with an explicit /Predictor 1)
	// FontNameRot: every Resources dictionary (page, ancestor, form) names the
	// document's fonts differently (/F1 is another font on another page), so a
	// name resolved through the wrong or a stale dictionary decodes wrongly.
	// FontsDirect: simple fonts may be written as direct dictionaries inside
	// the /Font resource dictionary instead of indirect references.
	// InlineImages: inline images (BI … ID data EI, with and without the PDF 2.0
	// /L length entry, data full of token look-alikes) between the text objects.
	FontNameRot, FontsDirect, InlineImages bool
	// TmScale: "/F 1 Tf  s 0 0 s x y Tm" instead of "/F s Tf  1 0 0 1 x y Tm"
	TmScale bool
	// GhostFont: every /Font resource dictionary carries one more entry, /F0 (it
	// sorts before the real names), for a font no page ever selects and whose
	// object the file does not have (a dangling reference reads as null).
	GhostFont bool
	// GhostResCategory: the Resources dictionaries carry one more category
	// (/ExtGState or /ColorSpace) that no content uses and whose value is a
	// reference to an object the file does not have (reads as null)
	GhostResCategory bool
	// InfoUTF16: the information dictionary carries /Title and /Author as
	// UTF-16BE strings with a byte order mark
	InfoUTF16 bool
	// Omit: entity keys (e.g. "font:3", "font:3:tounicode") that get an object
	// number but are not written: references to them dangle (C02 / C03 only)
	Omit []string
	// Mutate: a semantic fault applied while writing revision MutateRev (C02 only)
	Mutate    *Mutation
	MutateRev int
}

// NameRot tells how the Resources dictionary of an owner (a node id, or -1-id
// for the own resources of the form drawn by leaf id) names the document's
// fonts: name F(k+1) is font (k+rot) mod nFonts. 0 unless FontNameRot.
func (l Layout) NameRot(owner, nFonts int) int {
	if !l.FontNameRot || nFonts < 2 {
		return 0
	}
	if owner < 0 {
		return (-owner + 1) % nFonts
	}
	return owner % nFonts
}

// Built is the result of building a file.
type Built struct {
	Bytes        []byte
	Fields       []Field
	NumOf        map[string]int // entity key -> object number
	XRefOffsets  []int64
	StreamRanges map[string][2]int
	Features     []string // layout features actually present
	ObjStmN      [][]int  // per revision: entries per object-stream container
	XRefCount    []int    // per revision: entries of the xref stream (0 for a classic table)
}

// Edit is one incremental-update step applied to the logical document.
type Edit struct {
	Kind     string // replace-content | append-page | delete-page | touch (rewrite an unchanged object) | delete-readd
	Page     int    // leaf index (for replace/delete)
	NewPage  *PageL
	Parent   int // node id to append under
	NewLines []Line
}

// ---- builder ----------------------------------------------------------------

type builder struct {
	lay     Layout
	seed    int64
	r       *rand.Rand
	nums    map[string]int
	gens    map[string]int
	used    map[int]bool
	next    int
	written map[string]string // key -> canonical form last written
	feat    map[string]bool
}

func (b *builder) alloc(key string) int {
	if n, ok := b.nums[key]; ok {
		return n
	}
	var n int
	switch b.lay.Numbering {
	case "sparse":
		b.next += 1 + b.r.Intn(4)
		n = b.next
	case "permuted":
		// pick an unused number from a window ahead
		for {
			n = 1 + b.r.Intn(b.next+12)
			if !b.used[n] {
				break
			}
		}
		if n > b.next {
			b.next = n
		}
	default:
		b.next++
		n = b.next
	}
	for b.used[n] {
		b.next++
		n = b.next
	}
	b.used[n] = true
	b.nums[key] = n
	return n
}

// entRand is a PRNG stream stable per entity key (so choices for an entity do
// not change from one revision to the next unless its content does).
func (b *builder) entRand(key string) *rand.Rand {
	h := int64(1469598103934665603)
	for _, c := range []byte(key) {
		h ^= int64(c)
		h *= 1099511628211
	}
	return rand.New(rand.NewSource(h ^ b.seed*7919))
}

func (b *builder) filtersFor(key string, dataLen int) []FilterStage {
	r := b.entRand("filter:" + key)
	kind := b.lay.Filter
	if kind == "mixed" {
		kind = []string{"none", "Fl", "AHx", "A85", "FlPNG", "A85Fl", "AHxFl", "chain3", "AHxFlPNG", "A85FlPNG"}[r.Intn(10)]
	}
	ab := func() bool { return r.Intn(3) == 0 }
	pm := func() string { return []string{"", "", "null", "dict"}[r.Intn(4)] }
	switch kind {
	case "Fl":
		if r.Intn(4) == 0 {
			return []FilterStage{{Kind: "Fl", Abbrev: ab(), Pred: 1}}
		}
		return []FilterStage{{Kind: "Fl", Abbrev: ab(), Parms: pm()}}
	case "AHx":
		return []FilterStage{{Kind: "AHx", Abbrev: ab(), Parms: pm()}}
	case "A85":
		return []FilterStage{{Kind: "A85", Abbrev: ab(), Parms: pm()}}
	case "FlPNG", "AHxFlPNG", "A85FlPNG":
		cols := 1
		var divs []int
		for c := 1; c <= 64 && c <= dataLen; c++ {
			if dataLen%c == 0 {
				divs = append(divs, c)
			}
		}
		if len(divs) > 0 {
			cols = divs[r.Intn(len(divs))]
		}
		fl := FilterStage{Kind: "Fl", Abbrev: ab(), Pred: []int{10, 11, 12, 13, 14, 15}[r.Intn(6)], Cols: cols}
		switch kind {
		case "AHxFlPNG": // /DecodeParms [null <<predictor>>]: the dictionary belongs to the second filter
			return []FilterStage{{Kind: "AHx", Abbrev: ab()}, fl}
		case "A85FlPNG":
			return []FilterStage{{Kind: "A85", Abbrev: ab()}, fl}
		}
		return []FilterStage{fl}
	case "A85Fl":
		return []FilterStage{{Kind: "A85", Abbrev: ab()}, {Kind: "Fl", Abbrev: ab(), Parms: pm()}}
	case "AHxFl":
		return []FilterStage{{Kind: "AHx", Abbrev: ab()}, {Kind: "Fl", Abbrev: ab(), Parms: pm()}}
	case "chain3":
		return []FilterStage{{Kind: "AHx", Abbrev: ab()}, {Kind: "A85", Abbrev: ab()}, {Kind: "Fl", Abbrev: ab(), Parms: pm()}}
	}
	return nil
}

// content renders a page's lines into content-stream tokens.
// contentStyle selects optional spellings of a content stream.
type contentStyle struct {
	comments, quotes, tjKern bool
	inlineImg                bool
	tmScale                  bool
	eol                      string
	codeWidth                func(font int) int // bytes per character code
}

func contentTokens(p *PageL, fontName func(int) string, r *rand.Rand, cs contentStyle) []string {
	var t []string
	comment := func() {
		if cs.comments && r.Intn(4) == 0 {
			t = append(t, "% note "+fmt.Sprint(r.Intn(1000))+" (not) text Tj"+cs.eol)
		}
	}
	num := func(f float64) string {
		return strings.TrimSuffix(strings.TrimSuffix(fmt.Sprintf("%.3f", f), "0"), "0")
	}
	fix := func(s string) string {
		if strings.HasSuffix(s, ".") {
			return s + "0"
		}
		return s
	}
	str := func(b []byte) string {
		e := &Enc{NoFields: true}
		e.str(Str{B: b, Hex: r.Intn(3) == 0})
		return e.Buf.String()
	}
	inlineImage := func() {
		if cs.inlineImg && r.Intn(3) == 0 {
			t = append(t, inlineImageToken(r))
		}
	}
	oneBT := r.Intn(2) == 0
	if oneBT && len(p.Lines) > 0 {
		inlineImage()
		t = append(t, "BT")
		if cs.quotes {
			t = append(t, "0", "TL") // ' and " move by the leading: zero keeps the line where Td/Tm put it
		}
	}
	px, py := 0.0, 0.0
	for _, ln := range p.Lines {
		comment()
		if !oneBT {
			inlineImage()
			t = append(t, "BT")
			px, py = 0, 0
			if cs.quotes {
				t = append(t, "0", "TL")
			}
		}
		first := true
		for _, sh := range ln.Shows {
			lineStart := first // ' and " return to the start of the line (T*): only the first show of a line may use them
			if cs.tmScale {
				// font size 1, the size carried by the text matrix (as several producers write it)
				t = append(t, "/"+fontName(sh.Font), "1", "Tf")
				if first {
					t = append(t, fix(num(ln.Size)), "0", "0", fix(num(ln.Size)), fix(num(ln.X)), fix(num(ln.Y)), "Tm")
					px, py = ln.X, ln.Y
					first = false
				}
			} else {
				t = append(t, "/"+fontName(sh.Font), fix(num(ln.Size)), "Tf")
			}
			if first {
				if r.Intn(2) == 0 {
					t = append(t, "1", "0", "0", "1", fix(num(ln.X)), fix(num(ln.Y)), "Tm")
				} else {
					t = append(t, fix(num(ln.X-px)), fix(num(ln.Y-py)), "Td")
				}
				px, py = ln.X, ln.Y
				first = false
			}
			comment()
			w := 1
			if cs.codeWidth != nil {
				w = cs.codeWidth(sh.Font)
			}
			switch {
			case cs.tjKern && len(sh.Codes) >= 2*w && r.Intn(2) == 0:
				// TJ with kerning numbers between pieces cut at code boundaries
				k := (1 + r.Intn(len(sh.Codes)/w-1)) * w
				t = append(t, "[", str(sh.Codes[:k]), fmt.Sprint(-40+r.Intn(81)), str(sh.Codes[k:]), "]", "TJ")
			case cs.quotes && lineStart && r.Intn(2) == 0:
				t = append(t, str(sh.Codes), "'")
			case cs.quotes && lineStart && r.Intn(3) == 0:
				t = append(t, "0", "0", str(sh.Codes), "\"")
			case r.Intn(3) == 0 && len(sh.Codes) >= 2:
				// TJ with one string
				t = append(t, "[", str(sh.Codes), "]", "TJ")
			default:
				t = append(t, str(sh.Codes), "Tj")
			}
		}
		if !oneBT {
			t = append(t, "ET")
		}
	}
	if oneBT && len(p.Lines) > 0 {
		t = append(t, "ET")
	}
	if len(p.Lines) > 0 {
		inlineImage()
	}
	return t
}

// inlineImageToken renders one inline image as a single content token
// (ISO 32000-1 8.9.7; /L from ISO 32000-2). The sample data are raw bytes
// chosen to look like content-stream syntax — parentheses, dictionary and
// comment delimiters, operators — but never contain "EI" after white space,
// which is how a reader without /L finds the end.
func inlineImageToken(r *rand.Rand) string {
	w, h := 1+r.Intn(6), 1+r.Intn(6)
	bpc, comps, cs := 8, 1, "/G"
	switch r.Intn(4) {
	case 0:
		comps, cs = 3, "/RGB"
	case 1:
		cs = "/DeviceGray"
	case 2:
		bpc = []int{1, 2, 4}[r.Intn(3)]
	}
	n := ((w*comps*bpc + 7) / 8) * h
	bait := []string{"(", ")", "<<", ">>", "%", " ET ", " BT ", "(x) Tj ", "[", "]", "xEIx", "EIEI", "\\", "/F1 9 Tf ", "<41>", "Q ", "endstream "}
	data := make([]byte, 0, n)
	for len(data) < n {
		if r.Intn(3) == 0 {
			data = append(data, bait[r.Intn(len(bait))]...)
		} else {
			data = append(data, byte(r.Intn(256)))
		}
	}
	data = data[:n]
	isWS := func(c byte) bool { return c == 0 || c == 9 || c == 10 || c == 12 || c == 13 || c == 32 }
	for i := 0; i+1 < len(data); i++ {
		if data[i] == 'E' && data[i+1] == 'I' && (i == 0 || isWS(data[i-1])) {
			data[i] = 'F'
		}
	}
	if len(data) > 0 && data[len(data)-1] == 'E' { // "…E" + "\nEI" is fine, but keep the end unambiguous
		data[len(data)-1] = 'e'
	}
	long := r.Intn(2) == 0
	key := func(short, full string) string {
		if long {
			return full
		}
		return short
	}
	var b strings.Builder
	fmt.Fprintf(&b, "BI %s %d %s %d %s %d %s %s", key("/W", "/Width"), w, key("/H", "/Height"), h, key("/BPC", "/BitsPerComponent"), bpc, key("/CS", "/ColorSpace"), cs)
	if r.Intn(2) == 0 {
		fmt.Fprintf(&b, " %s %d", key("/L", "/Length"), len(data))
	}
	b.WriteString(" ID\n")
	b.Write(data)
	b.WriteString("\nEI")
	return b.String()
}

// splitContent joins tokens into n streams, dividing only at token boundaries.
func splitContent(tokens []string, n int, noWS bool, eol string, pad int, r *rand.Rand) [][]byte {
	if n < 1 {
		n = 1
	}
	if n > len(tokens) {
		n = len(tokens)
	}
	if n < 1 {
		return [][]byte{[]byte(eol)}
	}
	cuts := map[int]bool{}
	for len(cuts) < n-1 {
		cuts[1+r.Intn(len(tokens)-1)] = true
	}
	var out [][]byte
	var cur bytes.Buffer
	padLeft := pad
	for i, tk := range tokens {
		if cuts[i] {
			if !noWS {
				cur.WriteString(eol)
			}
			out = append(out, append([]byte{}, cur.Bytes()...))
			cur.Reset()
		} else if i > 0 {
			if r.Intn(5) == 0 {
				cur.WriteString(eol)
			} else {
				cur.WriteByte(' ')
			}
			if padLeft > 0 && r.Intn(3) == 0 {
				k := 64 + r.Intn(512)
				cur.WriteString(strings.Repeat(" ", k))
				cur.WriteString(eol)
				padLeft -= k
			}
		}
		cur.WriteString(tk)
	}
	for padLeft > 0 {
		cur.WriteString(strings.Repeat(" ", 200))
		cur.WriteString(eol)
		padLeft -= 200
	}
	if !noWS || r.Intn(2) == 0 {
		cur.WriteString(eol)
	}
	out = append(out, append([]byte{}, cur.Bytes()...))
	return out
}

func hex4(s string) string {
	var b strings.Builder
	for _, r := range s {
		if r >= 0x10000 {
			r -= 0x10000
			fmt.Fprintf(&b, "%04X%04X", 0xD800+(r>>10), 0xDC00+(r&0x3ff))
		} else {
			fmt.Fprintf(&b, "%04X", r)
		}
	}
	return b.String()
}

// ToUnicodeProgram renders a simple bfchar-only ToUnicode CMap.
func ToUnicodeProgram(m map[string]string, codeBytes int, eol string) []byte {
	var b bytes.Buffer
	w := func(s string) { b.WriteString(s); b.WriteString(eol) }
	w("/CIDInit /ProcSet findresource begin")
	w("12 dict begin")
	w("begincmap")
	w("/CIDSystemInfo << /Registry (Adobe) /Ordering (UCS) /Supplement 0 >> def")
	w("/CMapName /Adobe-Identity-UCS def")
	w("/CMapType 2 def")
	w("1 begincodespacerange")
	if codeBytes == 1 {
		w("<00> <FF>")
	} else {
		w("<0000> <FFFF>")
	}
	w("endcodespacerange")
	keys := SortedKeys(m)
	for i := 0; i < len(keys); i += 100 {
		j := i + 100
		if j > len(keys) {
			j = len(keys)
		}
		w(fmt.Sprintf("%d beginbfchar", j-i))
		for _, k := range keys[i:j] {
			var hk strings.Builder
			for _, c := range []byte(k) {
				fmt.Fprintf(&hk, "%02X", c)
			}
			w(fmt.Sprintf("<%s> <%s>", hk.String(), hex4(m[k])))
		}
		w("endbfchar")
	}
	w("endcmap")
	w("CMapName currentdict /CMap defineresource pop")
	w("end")
	w("end")
	return b.Bytes()
}

// fontObjects returns the objects (by key) of a font.
func (b *builder) fontObjects(f Font, objs map[string]any) {
	key := fmt.Sprintf("font:%d", f.ID)
	base := Name("VF" + f.Tag)
	defer func() {
		if f.Widths != nil && f.Kind != "type0-identity" {
			if d, ok := objs[key].(Dict); ok {
				w := Arr{}
				for _, x := range f.Widths {
					w = append(w, x)
				}
				d = d.Without("FirstChar").Without("LastChar")
				objs[key] = append(d, KV{"FirstChar", 32}, KV{"LastChar", 32 + len(f.Widths) - 1}, KV{"Widths", w})
			}
		}
	}()
	switch f.Kind {
	case "t1-winansi":
		objs[key] = Dict{{"Type", Name("Font")}, {"Subtype", Name("Type1")}, {"BaseFont", Name("Helvetica")}, {"Encoding", Name("WinAnsiEncoding")}, {"VerifTag", Name(f.Tag)}}
	case "t1-macroman":
		objs[key] = Dict{{"Type", Name("Font")}, {"Subtype", Name("Type1")}, {"BaseFont", Name("Times-Roman")}, {"Encoding", Name("MacRomanEncoding")}, {"VerifTag", Name(f.Tag)}}
	case "t1-std":
		objs[key] = Dict{{"Type", Name("Font")}, {"Subtype", Name("Type1")}, {"BaseFont", Name("Courier")}, {"VerifTag", Name(f.Tag)}}
	case "tt-winansi-tounicode":
		tu := key + ":tounicode"
		objs[key] = Dict{{"Type", Name("Font")}, {"Subtype", Name("TrueType")}, {"BaseFont", base}, {"Encoding", Name("WinAnsiEncoding")},
			{"FirstChar", 32}, {"LastChar", 255}, {"ToUnicode", Ref{tu}}, {"VerifTag", Name(f.Tag)}}
		objs[tu] = &Stream{Raw: ToUnicodeProgram(f.ToUnicode, 1, b.lay.EOL)}
	case "t1-std14-tounicode":
		// a standard-14 Type 1 font (no FontDescriptor needed) that still carries a ToUnicode CMap
		tu := key + ":tounicode"
		objs[key] = Dict{{"Type", Name("Font")}, {"Subtype", Name("Type1")}, {"BaseFont", Name([]string{"Helvetica", "Times-Roman", "Courier"}[f.ID%3])}, {"Encoding", Name("WinAnsiEncoding")},
			{"ToUnicode", Ref{tu}}, {"VerifTag", Name(f.Tag)}}
		objs[tu] = &Stream{Raw: ToUnicodeProgram(f.ToUnicode, 1, b.lay.EOL)}
	case "type0-identity":
		tu := key + ":tounicode"
		desc := key + ":cid"
		objs[key] = Dict{{"Type", Name("Font")}, {"Subtype", Name("Type0")}, {"BaseFont", base}, {"Encoding", Name("Identity-H")},
			{"DescendantFonts", Arr{Ref{desc}}}, {"ToUnicode", Ref{tu}}, {"VerifTag", Name(f.Tag)}}
		objs[desc] = Dict{{"Type", Name("Font")}, {"Subtype", Name("CIDFontType2")}, {"BaseFont", base},
			{"CIDSystemInfo", Dict{{"Registry", Str{B: []byte("Adobe")}}, {"Ordering", Str{B: []byte("Identity")}}, {"Supplement", 0}}},
			{"DW", 1000}}
		objs[tu] = &Stream{Raw: ToUnicodeProgram(f.ToUnicode, 2, b.lay.EOL)}
	}
}

func boxArr(m [4]float64) Arr { return Arr{m[0], m[1], m[2], m[3]} }

// materialize turns the logical document into entity objects.
func (b *builder) materialize(d *Doc) (map[string]any, []string) {
	objs := map[string]any{}
	for _, f := range d.Fonts {
		b.fontObjects(f, objs)
	}
	if b.lay.GhostFont {
		objs["font:ghost"] = Dict{{"Type", Name("Font")}, {"Subtype", Name("Type1")}, {"BaseFont", Name("Symbol")}}
	}
	nFonts := len(d.Fonts)
	// rotOf: how the Resources dictionary of an owner (node id, or -1-id for a
	// form's own resources) names the fonts: name F(k+1) is font (k+rot) mod n.
	rotOf := func(owner int) int { return b.lay.NameRot(owner, nFonts) }
	fontDict := func(decoy bool, rot int, who string) Dict {
		fd := Dict{}
		n := nFonts
		for i := range d.Fonts {
			j := (i + rot) % n
			if decoy && n > 1 {
				j = (j + 1) % n
			}
			var val any = Ref{fmt.Sprintf("font:%d", d.Fonts[j].ID)}
			if b.lay.FontsDirect && d.Fonts[j].Kind != "type0-identity" {
				if fdict, ok := objs[fmt.Sprintf("font:%d", d.Fonts[j].ID)].(Dict); ok && b.entRand("fontdirect:"+who+fmt.Sprint(i)).Intn(2) == 0 {
					val = append(Dict{}, fdict...)
					b.feat["res.font-direct"] = true
				}
			}
			fd = append(fd, KV{fmt.Sprintf("F%d", i+1), val})
		}
		if rot != 0 {
			b.feat["res.font-names-rotated"] = true
		}
		if b.lay.GhostFont {
			fd = append(Dict{{"F0", Ref{"font:ghost"}}}, fd...)
			b.feat["res.font-entry-dangling-unused"] = true
		}
		return fd
	}
	nameFor := func(rot int) func(int) string {
		return func(fi int) string {
			if nFonts == 0 {
				return "F1"
			}
			return fmt.Sprintf("F%d", ((fi-rot)%nFonts+nFonts)%nFonts+1)
		}
	}
	ownerRot := map[int]int{} // leaf id -> rotation of the Resources dictionary it uses
	for _, lf := range d.Leaves() {
		if own := lf.ResourcesOwner(); own != nil {
			ownerRot[lf.Node.ID] = rotOf(own.ID)
		}
	}
	var contentKeys []string
	codeWidth := func(fi int) int {
		if d.Fonts[fi].Kind == "type0-identity" {
			return 2
		}
		return 1
	}
	style := contentStyle{comments: b.lay.Comments, quotes: b.lay.Quotes, tjKern: b.lay.TJKern, inlineImg: b.lay.InlineImages, tmScale: b.lay.TmScale, eol: b.lay.EOL, codeWidth: codeWidth}
	if b.lay.InlineImages {
		b.feat["content.inline-image"] = true
	}
	if style.eol == "" {
		style.eol = "\n"
	}
	// Form XObjects: the trailing lines of some pages are drawn by a form. The
	// form must be reachable through the Resources dictionary the page uses.
	formLines := map[int]int{} // leaf id -> number of lines moved into the form
	formStart := map[int]int{} // leaf id -> index of the first of them
	formsOf := map[int][]int{} // resources-owner node id -> leaf ids with a form
	if b.lay.Forms {
		for _, lf := range d.Leaves() {
			pg := lf.Node.Page
			er := b.entRand("form:" + fmt.Sprint(lf.Node.ID) + pageSig(pg))
			if len(pg.Lines) >= 2 && er.Intn(2) == 0 {
				if own := lf.ResourcesOwner(); own != nil {
					formLines[lf.Node.ID] = 1 + er.Intn(len(pg.Lines)-1)
					// the form draws a run of lines anywhere on the page: text of the page
					// itself may follow the Do (and must still use the page's resources)
					formStart[lf.Node.ID] = er.Intn(len(pg.Lines) - formLines[lf.Node.ID] + 1)
					formsOf[own.ID] = append(formsOf[own.ID], lf.Node.ID)
					b.feat["content.form"] = true
				}
			}
		}
	}
	var walk func(n *Node, parent *Node) int
	walk = func(n *Node, parent *Node) int {
		key := fmt.Sprintf("node:%d", n.ID)
		dict := Dict{}
		if n.Page != nil {
			key = fmt.Sprintf("page:%d", n.ID)
			dict = append(dict, KV{"Type", Name("Page")})
		} else {
			dict = append(dict, KV{"Type", Name("Pages")})
		}
		if parent != nil {
			dict = append(dict, KV{"Parent", Ref{fmt.Sprintf("node:%d", parent.ID)}})
		}
		if n.MediaBox != nil {
			if b.lay.BoxIndirect {
				arr := Arr{}
				for k, v := range *n.MediaBox {
					nk := fmt.Sprintf("%s:box%d", key, k)
					objs[nk] = v
					arr = append(arr, Ref{nk})
				}
				dict = append(dict, KV{"MediaBox", arr})
				b.feat["box.indirect-numbers"] = true
			} else {
				dict = append(dict, KV{"MediaBox", boxArr(*n.MediaBox)})
			}
		}
		if n.Rotate != nil {
			dict = append(dict, KV{"Rotate", *n.Rotate})
		}
		if n.Resources {
			fd := fontDict(n.DecoyFonts, rotOf(n.ID), key)
			var res any
			xo := Dict{}
			for _, lid := range formsOf[n.ID] {
				xo = append(xo, KV{fmt.Sprintf("Fm%d", lid), Ref{fmt.Sprintf("form:%d", lid)}})
			}
			if b.lay.ResIndirect {
				fk := key + ":fonts"
				objs[fk] = fd
				rk := key + ":res"
				rd := Dict{{"Font", Ref{fk}}, {"ProcSet", Arr{Name("PDF"), Name("Text")}}}
				if len(xo) > 0 {
					rd = append(rd, KV{"XObject", xo})
				}
				if b.lay.GhostResCategory {
					rd = append(Dict{{"ExtGState", Ref{"res:ghost"}}}, rd...)
				}
				objs[rk] = rd
				res = Ref{rk}
			} else {
				rd := Dict{{"Font", fd}}
				if len(xo) > 0 {
					rd = append(rd, KV{"XObject", xo})
				}
				if b.lay.GhostResCategory {
					rd = append(rd, KV{"ColorSpace", Ref{"res:ghost"}})
				}
				res = rd
			}
			if b.lay.GhostResCategory {
				objs["res:ghost"] = Dict{{"GS0", Dict{{"Type", Name("ExtGState")}}}}
				b.feat["res.category-dangling-unused"] = true
			}
			dict = append(dict, KV{"Resources", res})
		}
		count := 0
		if n.Page != nil {
			count = 1
			fname := nameFor(ownerRot[n.ID])
			cr := b.entRand("content:" + key + fmt.Sprint(len(n.Page.Lines), pageSig(n.Page)))
			pageLines := n.Page
			var afterForm *PageL
			if k := formLines[n.ID]; k > 0 {
				cut := formStart[n.ID]
				pageLines = &PageL{ID: n.Page.ID, Lines: n.Page.Lines[:cut]}
				if cut+k < len(n.Page.Lines) {
					afterForm = &PageL{ID: n.Page.ID, Lines: n.Page.Lines[cut+k:]}
					b.feat["content.text-after-form"] = true
				}
				fr := b.entRand("formcontent:" + key + pageSig(n.Page))
				fd := Dict{{"Type", Name("XObject")}, {"Subtype", Name("Form")}, {"BBox", Arr{0, 0, 2000, 2000}}}
				if fr.Intn(2) == 0 {
					fd = append(fd, KV{"Matrix", Arr{1, 0, 0, 1, 0, 0}})
				}
				formName := fname
				if fr.Intn(2) == 0 { // own resources (its own naming of the fonts when FontNameRot) or the page's
					frot := rotOf(-1 - n.ID)
					fd = append(fd, KV{"Resources", Dict{{"Font", fontDict(false, frot, key+":form")}}})
					formName = nameFor(frot)
				}
				ftoks := contentTokens(&PageL{Lines: n.Page.Lines[cut : cut+k]}, formName, fr, style)
				objs[fmt.Sprintf("form:%d", n.ID)] = &Stream{D: fd, Raw: []byte(strings.Join(ftoks, " ") + style.eol)}
			}
			toks := contentTokens(pageLines, fname, cr, style)
			if formLines[n.ID] > 0 {
				toks = append(toks, "q", fmt.Sprintf("/Fm%d", n.ID), "Do", "Q")
				if afterForm != nil {
					toks = append(toks, contentTokens(afterForm, fname, cr, style)...)
				}
			}
			if len(toks) > 0 {
				er := b.entRand("split:" + key + pageSig(n.Page))
				parts := splitContent(toks, b.lay.Split, b.lay.SplitNoWS, b.lay.EOL, b.lay.BigContent, er)
				var refs Arr
				for i, part := range parts {
					ck := fmt.Sprintf("%s:content:%d", key, i)
					st := &Stream{Raw: part}
					objs[ck] = st
					contentKeys = append(contentKeys, ck)
					refs = append(refs, Ref{ck})
				}
				if len(refs) == 1 && er.Intn(2) == 0 {
					dict = append(dict, KV{"Contents", refs[0]})
				} else if b.lay.ContentsArrayIndirect {
					ak := key + ":contents"
					objs[ak] = refs
					dict = append(dict, KV{"Contents", Ref{ak}})
				} else {
					dict = append(dict, KV{"Contents", refs})
				}
			}
		} else {
			kids := Arr{}
			for _, k := range n.Kids {
				count += walk(k, n)
				if k.Page != nil {
					kids = append(kids, Ref{fmt.Sprintf("page:%d", k.ID)})
				} else {
					kids = append(kids, Ref{fmt.Sprintf("node:%d", k.ID)})
				}
			}
			dict = append(dict, KV{"Kids", kids}, KV{"Count", count})
		}
		objs[key] = dict
		return count
	}
	walk(d.Root, nil)
	objs["catalog"] = Dict{{"Type", Name("Catalog")}, {"Pages", Ref{fmt.Sprintf("node:%d", d.Root.ID)}}}
	info := Dict{{"Producer", Str{B: []byte("verif pdfw")}}}
	if b.lay.InfoUTF16 {
		// text strings of the information dictionary in UTF-16BE with a byte order
		// mark (ISO 32000-1 7.9.2.2), the encoding of every non-Latin title
		u16 := func(s string) Str {
			out := []byte{0xFE, 0xFF}
			for _, u := range utf16.Encode([]rune(s)) {
				out = append(out, byte(u>>8), byte(u))
			}
			return Str{B: out, Hex: b.seed%2 == 0}
		}
		info = append(info, KV{"Title", u16(fmt.Sprintf("Έκθεση %d — отчёт 報告", b.seed%100000))}, KV{"Author", u16("Ωμέγα Автор")})
	}
	objs["info"] = info
	return objs, contentKeys
}

func pageSig(p *PageL) string {
	var b strings.Builder
	for _, l := range p.Lines {
		for _, s := range l.Shows {
			fmt.Fprintf(&b, "%d:%x;", s.Font, s.Codes)
		}
	}
	return b.String()
}

// canon gives a canonical form used to decide whether an entity changed.
func canon(v any) string {
	e := &Enc{NoFields: true, EOL: "\n", Resolve: func(k string) (int, int) { return 0, 0 }}
	switch x := v.(type) {
	case *Stream:
		e.Obj(x.D)
		return e.Buf.String() + "|" + string(x.Raw)
	default:
		var b strings.Builder
		canonInto(&b, v)
		return b.String()
	}
}

func canonInto(b *strings.Builder, v any) {
	switch x := v.(type) {
	case Ref:
		b.WriteString("R(" + x.Key + ")")
	case Dict:
		b.WriteString("<<")
		for _, kv := range x {
			b.WriteString("/" + kv.K + " ")
			canonInto(b, kv.V)
		}
		b.WriteString(">>")
	case Arr:
		b.WriteString("[")
		for _, it := range x {
			canonInto(b, it)
			b.WriteString(" ")
		}
		b.WriteString("]")
	default:
		fmt.Fprintf(b, "%#v", x)
	}
}

// Build writes the document d0 as revision 0 and then one revision per entry
// of later (each a complete logical document that replaces the previous one;
// only changed entities are written, removed ones are freed).
func Build(seed int64, lay Layout, docs []*Doc) *Built {
	if lay.GhostFont {
		lay.Omit = append(append([]string{}, lay.Omit...), "font:ghost")
	}
	if lay.GhostResCategory {
		lay.Omit = append(append([]string{}, lay.Omit...), "res:ghost")
	}
	b := &builder{lay: lay, seed: seed, r: rand.New(rand.NewSource(seed)), nums: map[string]int{}, gens: map[string]int{}, used: map[int]bool{}, written: map[string]string{}, feat: map[string]bool{}}
	f := NewFile([]string{"1.4", "1.5", "1.7"}[b.r.Intn(3)], lay.EOL, lay.Tight, rand.New(rand.NewSource(seed^0x5bd1e995)))
	live := map[string]bool{}
	var objStmN [][]int
	var xrefCount []int
	for ri, d := range docs {
		objs, _ := b.materialize(d)
		xrefStream := lay.XRef[ri%len(lay.XRef)] == "stream"
		rv := &Rev{XRefStream: xrefStream, Root: "catalog", Info: "info", TableGapsAsFree: lay.GapsAsFree}
		keys := SortedKeys(objs)
		// stream placement decisions + length objects
		type lenPlan struct{ key, mode string }
		var changed []string
		for _, k := range keys {
			if st, ok := objs[k].(*Stream); ok {
				st.Filters = b.filtersFor(k, len(st.Raw))
				lm := lay.LenMode
				if lm == "mixed" {
					lm = []string{"direct", "ind-before", "ind-after", "ind-objstm"}[b.entRand("len:"+k).Intn(4)]
				}
				if lm == "ind-objstm" && !xrefStream {
					lm = "ind-after"
				}
				if lm != "direct" {
					st.LenMode = "indirect"
					st.LenKey = k + ":len"
					st.D = append(st.D, KV{"VerifLenMode", Name(lm)})
				} else {
					st.LenMode = "direct"
				}
			}
			c := canon(objs[k])
			if b.written[k] != c {
				changed = append(changed, k)
				b.written[k] = c
			}
		}
		// removed entities are freed
		for _, k := range SortedKeys(live) {
			if _, ok := objs[k]; !ok {
				rv.Free = append(rv.Free, b.nums[k])
				delete(live, k)
				delete(b.written, k)
				if lk := k + ":len"; b.used[b.nums[lk]] && b.nums[lk] != 0 {
					rv.Free = append(rv.Free, b.nums[lk])
				}
				b.feat["rev.delete"] = true
			}
		}
		if ri > 0 && len(changed) == 0 {
			changed = append(changed, "info")
		}
		// write order
		order := append([]string{}, changed...)
		if lay.Shuffle {
			b.r.Shuffle(len(order), func(i, j int) { order[i], order[j] = order[j], order[i] })
		}
		var ro []RevObj
		for _, k := range order {
			live[k] = true
			o := objs[k]
			n := b.alloc(k)
			packed := false
			_, isStream := o.(*Stream)
			if xrefStream && !isStream {
				switch lay.ObjStm {
				case "all":
					packed = true
				case "some":
					packed = b.r.Intn(2) == 0
				}
			}
			if st, ok := o.(*Stream); ok && st.LenMode == "indirect" {
				lk := st.LenKey
				ln := b.alloc(lk)
				mode := ""
				for _, kv := range st.D {
					if kv.K == "VerifLenMode" {
						mode = string(kv.V.(Name))
					}
				}
				st.D = st.D.Without("VerifLenMode")
				lo := RevObj{Key: lk, Num: ln, Obj: 0}
				b.feat["len."+mode] = true
				switch mode {
				case "ind-before":
					ro = append(ro, lo, RevObj{Key: k, Num: n, Obj: o})
				case "ind-objstm":
					lo.Packed = true
					ro = append(ro, RevObj{Key: k, Num: n, Obj: o}, lo)
				default:
					ro = append(ro, RevObj{Key: k, Num: n, Obj: o}, lo)
				}
				continue
			}
			if isStream {
				b.feat["len.direct"] = true
			}
			if packed {
				b.feat["objstm"] = true
			}
			ro = append(ro, RevObj{Key: k, Num: n, Obj: o, Packed: packed})
		}
		rv.Objs = ro
		np := 0
		for _, o := range ro {
			if o.Packed {
				np++
			}
		}
		if np > 0 {
			rv.ObjStmMax = 1 + b.r.Intn(np)
			if b.r.Intn(2) == 0 {
				rv.ObjStmMax = np
			}
			for i := 0; i*rv.ObjStmMax < np; i++ {
				rv.ObjStmNums = append(rv.ObjStmNums, b.alloc(fmt.Sprintf("objstm:r%d:%d", ri, i)))
			}
			pick := b.r.Intn(4)
			switch lay.ObjStmFilter {
			case "none":
				pick = 0
			case "FlP1":
				pick = 1
			case "Fl":
				pick = 2
			}
			switch pick {
			case 0:
			case 1:
				rv.ObjStmFilters = []FilterStage{{Kind: "Fl", Pred: 1}} // explicit /Predictor 1
				b.feat["objstm.predictor1"] = true
			default:
				rv.ObjStmFilters = []FilterStage{{Kind: "Fl"}}
			}
			if lay.ObjStmExtends && len(rv.ObjStmNums) > 1 {
				rv.ObjStmExtends = true
				b.feat["objstm.extends"] = true
			}
		}
		if xrefStream {
			rv.XRefNum = b.alloc(fmt.Sprintf("xrefstm:r%d", ri))
			switch {
			case lay.XRefPredictor:
				rv.XRefFilters = []FilterStage{{Kind: "Fl", Pred: 12}}
				b.feat["xref.predictor"] = true
			case b.r.Intn(3) > 0:
				rv.XRefFilters = []FilterStage{{Kind: "Fl"}}
			}
			rv.W = [3]int{1, 2 + b.r.Intn(3), 1 + b.r.Intn(2)}
			b.feat["xref.stream"] = true
		} else {
			b.feat["xref.table"] = true
		}
		if ri > 0 {
			b.feat["rev.incremental"] = true
		}
		if lay.Mutate != nil && lay.MutateRev == ri {
			rv.Mutate = lay.Mutate
		}
		if len(lay.Omit) > 0 {
			// omitted entities keep their object number (references to them are
			// written as usual) but the object itself is never stored: a dangling
			// reference, which ISO 32000-1 7.3.10 says is to be read as null
			kept := rv.Objs[:0:0]
			for _, o := range rv.Objs {
				drop := false
				for _, k := range lay.Omit {
					drop = drop || o.Key == k
				}
				if drop {
					f.Bind(o.Key, o.Num, o.Gen)
					b.feat["ref.dangling"] = true
					continue
				}
				kept = append(kept, o)
			}
			rv.Objs = kept
		}
		f.WriteRevision(rv)
		objStmN = append(objStmN, rv.OutObjStmN)
		xrefCount = append(xrefCount, rv.OutXRefCount)
	}
	nm := map[string]int{}
	for k, v := range b.nums {
		nm[k] = v
	}
	feats := make([]string, 0, len(b.feat))
	for k := range b.feat {
		feats = append(feats, k)
	}
	sort.Strings(feats)
	return &Built{Bytes: append([]byte{}, f.Bytes()...), Fields: f.E.Fields, NumOf: nm, XRefOffsets: f.XRefOffsets, StreamRanges: f.StreamRanges, Features: feats, ObjStmN: objStmN, XRefCount: xrefCount}
}
