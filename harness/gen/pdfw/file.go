package pdfw

import (
	"bytes"
	"fmt"
	"math/rand"
	"sort"

	"verifharness/ref/filt"
)

// RevObj is one object written in a revision.
type RevObj struct {
	Key    string
	Num    int
	Gen    int
	Obj    any  // value (Dict, Arr, int, Stream …)
	Packed bool // store inside an object stream of this revision (non-stream, gen 0)
}

// Rev describes one revision (the original file or an incremental update).
type Rev struct {
	Objs            []RevObj // in write order (top-level ones); packed ones are grouped into object streams
	Free            []int    // object numbers freed by this revision
	XRefStream      bool
	XRefNum         int   // object number of the xref stream (if XRefStream)
	ObjStmNums      []int // object numbers for object-stream containers (as many as needed are used)
	ObjStmMax       int   // max objects per container (>=1)
	ObjStmFilters   []FilterStage
	XRefFilters     []FilterStage // xref stream compression (may include PNG predictor 12)
	W               [3]int        // xref stream field widths (0 => chosen)
	Root            string        // key of the catalog
	Info            string        // key of the info dict ("" = none)
	ExtraTrailer    Dict
	TableGapsAsFree bool // classic table: list gaps as free entries in one subsection instead of several subsections
	// FreeUnlinked (updates only): freed objects are written as "0000000000 65535 f"
	// (never to be reused, not linked into the free list) and object 0 is not listed
	// again — an update section may then start with such an entry ("3 1" …)
	FreeUnlinked  bool
	ObjStmExtends bool // every object-stream container after the first carries /Extends <previous container> (ISO 32000-1 7.5.7)
	Mutate        *Mutation
	// filled by WriteRevision: entries per object-stream container, xref stream entries
	OutObjStmN   []int
	OutXRefCount int
	// OutObjStmData: the decoded data of every object-stream container written, by object number
	OutObjStmData map[int][]byte
}

// Mutation is one semantic fault applied while writing (for C02): it damages
// data that lives *inside* encoded streams — object-stream headers and
// cross-reference stream entries — which byte-level faults cannot address,
// and keeps everything else (offsets, lengths) consistent.
type Mutation struct {
	Kind  string // objstm-off | objstm-num | objstm-first | objstm-n | xref-field
	Cont  int    // container index within the revision (objstm-*)
	Index int    // header entry index / xref entry index
	Field int    // xref-field: 0 type, 1 field1, 2 field2
	Rel   string // "" absolute | "bodylen" (decoded object data length) | "datalen" (whole decoded stream) | "filesize" (offset of the xref section)
	Value int64  // added to the base selected by Rel
}

// File assembles a PDF file.
type File struct {
	E        *Enc
	nums     map[string][2]int // key -> num, gen
	offsets  map[int]int64     // latest offset per object number (this revision)
	prevXRef int64
	size     int
	gens     map[int]int // current generation of each number
	freed    map[int]bool
	// XRefOffsets[i] is the byte offset of revision i's cross-reference section.
	XRefOffsets []int64
	// ObjOffsets: per revision, object number -> offset (top-level) — for the field map
	ObjOffsets   []map[int]int64
	StreamRanges map[string][2]int // key -> [start,end) of encoded stream data in the file (latest)
}

// NewFile starts a file: header line and binary marker comment.
func NewFile(version, eol string, tight bool, r *rand.Rand) *File {
	e := &Enc{EOL: eol, Tight: tight, R: r}
	f := &File{E: e, nums: map[string][2]int{}, prevXRef: -1, gens: map[int]int{}, freed: map[int]bool{}, StreamRanges: map[string][2]int{}}
	e.Resolve = func(key string) (int, int) {
		n, ok := f.nums[key]
		if !ok {
			panic("pdfw: unresolved reference " + key)
		}
		return n[0], n[1]
	}
	st := e.Buf.Len()
	e.Buf.WriteString("%PDF-" + version)
	e.field("header", st)
	e.Buf.WriteString(eol)
	e.Buf.WriteString("%\xe2\xe3\xcf\xd3")
	e.Buf.WriteString(eol)
	return f
}

// Bind registers the object number of a key (must precede any reference to it).
func (f *File) Bind(key string, num, gen int) { f.nums[key] = [2]int{num, gen} }

// NumOf returns the bound number.
func (f *File) NumOf(key string) (int, bool) { n, ok := f.nums[key]; return n[0], ok }

// EncodeStream applies the filter chain (decode order) to raw data.
func EncodeStream(raw []byte, stages []FilterStage, r *rand.Rand) []byte {
	data := raw
	for i := len(stages) - 1; i >= 0; i-- {
		s := stages[i]
		switch s.Kind {
		case "Fl":
			d := data
			if s.Pred >= 10 {
				cols := s.Cols
				// pad is not allowed (would change data) — caller guarantees len%cols==0
				rows := len(d) / cols
				rt := make([]int, rows)
				for k := range rt {
					if s.Pred == 12 {
						rt[k] = 2
					} else {
						rt[k] = r.Intn(5)
					}
				}
				d = filt.PNGPredict(d, cols, 1, rt)
			}
			data = filt.Flate(d, []int{-1, 1, 9}[r.Intn(3)])
		case "AHx":
			data = filt.Hex(data, filt.HexPolicy{Upper: r.Intn(2) == 0, WSProb: []float64{0, 0.05}[r.Intn(2)]}, r)
		case "A85":
			data = filt.A85(data, filt.A85Policy{UseZ: true, WSProb: []float64{0, 0.05}[r.Intn(2)]}, r)
		}
	}
	return data
}

func filterName(s FilterStage) Name {
	full := map[string]string{"Fl": "FlateDecode", "AHx": "ASCIIHexDecode", "A85": "ASCII85Decode"}
	if s.Abbrev {
		return Name(s.Kind)
	}
	return Name(full[s.Kind])
}

// streamDict builds the final dictionary of a stream (Filter, DecodeParms, Length).
func streamDict(s *Stream, encodedLen int) Dict {
	d := append(Dict{}, s.D...)
	if len(s.Filters) == 1 && !s.ParmsAsArray {
		st := s.Filters[0]
		d = append(d, KV{"Filter", filterName(st)})
		if p := parmsOf(st); p != "absent" {
			d = append(d, KV{"DecodeParms", parmsValue(st)})
		}
	} else if len(s.Filters) >= 1 {
		fa := Arr{}
		any := false
		for _, st := range s.Filters {
			fa = append(fa, filterName(st))
			if parmsOf(st) != "absent" {
				any = true
			}
		}
		d = append(d, KV{"Filter", fa})
		if any {
			pa := Arr{}
			for _, st := range s.Filters {
				if parmsOf(st) == "absent" {
					pa = append(pa, nil)
				} else {
					pa = append(pa, parmsValue(st))
				}
			}
			d = append(d, KV{"DecodeParms", pa})
		}
	}
	if s.LenMode == "preset" {
		// the caller put /Length into D itself
	} else if s.LenMode == "indirect" {
		d = append(d, KV{"Length", Ref{s.LenKey}})
	} else {
		d = append(d, KV{"Length", encodedLen})
	}
	return d
}

func parmsOf(st FilterStage) string {
	if st.Kind == "Fl" && (st.Pred >= 10 || st.Pred == 1) {
		return "dict"
	}
	if st.Parms == "" {
		return "absent"
	}
	return st.Parms
}

func parmsValue(st FilterStage) any {
	if st.Kind == "Fl" && st.Pred >= 10 {
		return Dict{{"Predictor", st.Pred}, {"Columns", st.Cols}}
	}
	if st.Kind == "Fl" && st.Pred == 1 {
		return Dict{{"Predictor", 1}} // "no prediction", written out explicitly
	}
	if st.Parms == "null" {
		return nil
	}
	return Dict{}
}

// writeTop writes "n g obj … endobj" and returns the offset.
func (f *File) writeTop(o RevObj, encoded map[string][]byte) int64 {
	e := f.E
	off := int64(e.Buf.Len())
	e.curObj = o.Num
	e.needSep = false
	st := e.Buf.Len()
	fmt.Fprintf(&e.Buf, "%d %d obj", o.Num, o.Gen)
	e.field("objhead", st)
	e.needSep = true
	switch v := o.Obj.(type) {
	case *Stream:
		data := encoded[o.Key]
		if e.R.Intn(2) == 0 {
			e.NL()
		}
		e.Obj(streamDict(v, len(data)))
		if e.R.Intn(2) == 0 {
			e.NL()
		} else if e.needSep {
			e.sep()
		}
		st := e.Buf.Len()
		e.Buf.WriteString("stream")
		e.field("keyword", st)
		// ISO 32000-1 7.3.8.1: CRLF or LF after "stream", never CR alone
		if e.EOL == "\r\n" || (e.EOL == "\r" && e.R.Intn(2) == 0) {
			e.Buf.WriteString("\r\n")
		} else {
			e.Buf.WriteString("\n")
		}
		ds := e.Buf.Len()
		e.Buf.Write(data)
		e.field("streamdata", ds)
		f.StreamRanges[o.Key] = [2]int{ds, e.Buf.Len()}
		e.Buf.WriteString(e.EOL)
		st = e.Buf.Len()
		e.Buf.WriteString("endstream")
		e.field("keyword", st)
		e.NL()
	default:
		if e.R.Intn(2) == 0 {
			e.NL()
		}
		e.Obj(o.Obj)
		if e.R.Intn(2) == 0 || e.needSep {
			e.NL()
		}
	}
	st = e.Buf.Len()
	e.Buf.WriteString("endobj")
	e.field("keyword", st)
	e.NL()
	e.curObj = 0
	return off
}

type xrefEnt struct {
	typ    int // 0 free, 1 offset, 2 compressed
	f1, f2 int64
}

// WriteRevision writes one revision: objects, object streams, cross-reference
// section, trailer, startxref, %%EOF.
func (f *File) WriteRevision(rv *Rev) {
	e := f.E
	r := e.R
	for _, o := range rv.Objs {
		f.Bind(o.Key, o.Num, o.Gen)
	}
	// encode stream bodies first (indirect lengths need the encoded size)
	encoded := map[string][]byte{}
	for _, o := range rv.Objs {
		if s, ok := o.Obj.(*Stream); ok {
			encoded[o.Key] = EncodeStream(s.Raw, s.Filters, r)
		}
	}
	// indirect Length objects: value = encoded length of the stream naming them
	lenVal := map[string]int{}
	for _, o := range rv.Objs {
		if s, ok := o.Obj.(*Stream); ok && s.LenMode == "indirect" {
			lenVal[s.LenKey] = len(encoded[o.Key])
		}
	}
	ents := map[int]xrefEnt{}
	offs := map[int]int64{}

	// group packed objects into containers
	var packed []RevObj
	var top []RevObj
	for _, o := range rv.Objs {
		if v, ok := lenVal[o.Key]; ok {
			o.Obj = v
		}
		if o.Packed {
			packed = append(packed, o)
		} else {
			top = append(top, o)
		}
	}
	type container struct {
		num  int
		objs []RevObj
	}
	var conts []container
	if len(packed) > 0 {
		max := rv.ObjStmMax
		if max < 1 {
			max = len(packed)
		}
		ci := 0
		for i := 0; i < len(packed); i += max {
			j := i + max
			if j > len(packed) {
				j = len(packed)
			}
			if ci >= len(rv.ObjStmNums) {
				panic("pdfw: not enough ObjStmNums")
			}
			conts = append(conts, container{rv.ObjStmNums[ci], packed[i:j]})
			ci++
		}
	}
	// containers are written at seed-chosen positions among the top-level objects
	type item struct {
		top  *RevObj
		cont *container
	}
	var items []item
	for i := range top {
		items = append(items, item{top: &top[i]})
	}
	for i := range conts {
		pos := r.Intn(len(items) + 1)
		items = append(items[:pos], append([]item{{cont: &conts[i]}}, items[pos:]...)...)
	}
	prevCont := 0
	for _, it := range items {
		if it.top != nil {
			off := f.writeTop(*it.top, encoded)
			offs[it.top.Num] = off
			ents[it.top.Num] = xrefEnt{1, off, int64(it.top.Gen)}
			continue
		}
		c := it.cont
		// object stream body: "num off num off … " then the objects
		sub := &Enc{EOL: e.EOL, Tight: e.Tight, R: r, Resolve: e.Resolve, NoFields: true}
		var offsIn []int
		for _, o := range c.objs {
			offsIn = append(offsIn, sub.Buf.Len())
			sub.needSep = false
			sub.Obj(o.Obj)
			sub.Buf.WriteString(sub.EOL)
		}
		hnums := make([]int64, len(c.objs))
		hoffs := make([]int64, len(c.objs))
		for i, o := range c.objs {
			hnums[i], hoffs[i] = int64(o.Num), int64(offsIn[i])
		}
		contIdx := len(rv.OutObjStmN)
		rv.OutObjStmN = append(rv.OutObjStmN, len(c.objs))
		mut := rv.Mutate
		if mut != nil && mut.Cont != contIdx {
			mut = nil
		}
		relBase := func(m *Mutation, headLen int) int64 {
			switch m.Rel {
			case "bodylen":
				return int64(sub.Buf.Len())
			case "datalen":
				return int64(sub.Buf.Len() + headLen)
			}
			return 0
		}
		if mut != nil && mut.Index < len(c.objs) {
			switch mut.Kind {
			case "objstm-off":
				hoffs[mut.Index] = relBase(mut, 0) + mut.Value
			case "objstm-num":
				hnums[mut.Index] = mut.Value
			}
		}
		var head bytes.Buffer
		for i := range c.objs {
			fmt.Fprintf(&head, "%d %d ", hnums[i], hoffs[i])
		}
		if r.Intn(2) == 0 {
			head.WriteString(e.EOL)
		}
		raw := append(head.Bytes(), sub.Buf.Bytes()...)
		if rv.OutObjStmData == nil {
			rv.OutObjStmData = map[int][]byte{}
		}
		rv.OutObjStmData[c.num] = append([]byte{}, raw...)
		nVal, firstVal := int64(len(c.objs)), int64(head.Len())
		if mut != nil {
			switch mut.Kind {
			case "objstm-first":
				firstVal = relBase(mut, head.Len()) + mut.Value
			case "objstm-n":
				nVal = mut.Value
			}
		}
		st := &Stream{D: Dict{{"Type", Name("ObjStm")}, {"N", nVal}, {"First", firstVal}}, Raw: raw, Filters: rv.ObjStmFilters, LenMode: "direct"}
		if rv.ObjStmExtends && prevCont > 0 {
			st.D = append(st.D, KV{"Extends", RefN{prevCont, 0}})
		}
		prevCont = c.num
		key := fmt.Sprintf("objstm:%d", c.num)
		encoded[key] = EncodeStream(raw, st.Filters, r)
		f.Bind(key, c.num, 0)
		off := f.writeTop(RevObj{Key: key, Num: c.num, Obj: st}, encoded)
		offs[c.num] = off
		ents[c.num] = xrefEnt{1, off, 0}
		for i, o := range c.objs {
			ents[o.Num] = xrefEnt{2, int64(c.num), int64(i)}
		}
	}
	for _, o := range rv.Objs {
		delete(f.freed, o.Num)
		f.gens[o.Num] = o.Gen
		if o.Num+1 > f.size {
			f.size = o.Num + 1
		}
	}
	for _, c := range conts {
		if c.num+1 > f.size {
			f.size = c.num + 1
		}
	}
	// free entries: freed objects get generation+1; object 0 heads the list
	first := f.prevXRef < 0
	if rv.FreeUnlinked && !first {
		for _, n := range rv.Free {
			f.freed[n] = true
			ents[n] = xrefEnt{0, 0, 65535}
		}
	} else if len(rv.Free) > 0 || first {
		for _, n := range rv.Free {
			f.freed[n] = true
			f.gens[n]++
		}
		var fl []int
		for n := range f.freed {
			fl = append(fl, n)
		}
		sort.Ints(fl)
		chain := append([]int{0}, fl...)
		for i, n := range chain {
			next := 0
			if i+1 < len(chain) {
				next = chain[i+1]
			}
			g := f.gens[n]
			if n == 0 {
				g = 65535
			}
			// only entries that changed need to be listed; listing all free ones is legal
			if first || n == 0 || contains(rv.Free, n) || true {
				ents[n] = xrefEnt{0, int64(next), int64(g)}
			}
		}
	}
	if rv.XRefStream && rv.XRefNum+1 > f.size {
		f.size = rv.XRefNum + 1
	}

	trailer := Dict{{"Size", f.size}, {"Root", Ref{rv.Root}}}
	if rv.Info != "" {
		trailer = append(trailer, KV{"Info", Ref{rv.Info}})
	}
	if f.prevXRef >= 0 {
		trailer = append(trailer, KV{"Prev", int(f.prevXRef)})
	}
	trailer = append(trailer, rv.ExtraTrailer...)

	xoff := int64(e.Buf.Len())
	if rv.XRefStream {
		ents[rv.XRefNum] = xrefEnt{1, xoff, 0}
		nums := make([]int, 0, len(ents))
		for n := range ents {
			nums = append(nums, n)
		}
		sort.Ints(nums)
		w := rv.W
		if w[0] == 0 {
			w = [3]int{1, 4, 2}
		}
		// widen fields if needed
		need := func(v int64) int {
			k := 1
			for k < 8 && (v < 0 || v >= 1<<(8*uint(k))) {
				k++
			}
			return k
		}
		for _, n := range nums {
			en := ents[n]
			if k := need(en.f1); k > w[1] {
				w[1] = k
			}
			if k := need(en.f2); k > w[2] {
				w[2] = k
			}
		}
		rv.OutXRefCount = len(nums)
		if m := rv.Mutate; m != nil && m.Kind == "xref-field" && m.Index < len(nums) {
			en := ents[nums[m.Index]]
			v := m.Value
			if m.Rel == "filesize" {
				v += xoff
			}
			switch m.Field {
			case 0:
				en.typ = int(v)
			case 1:
				en.f1 = v
			default:
				en.f2 = v
			}
			ents[nums[m.Index]] = en
		}
		var idx Arr
		var data []byte
		for i := 0; i < len(nums); {
			j := i
			for j+1 < len(nums) && nums[j+1] == nums[j]+1 {
				j++
			}
			idx = append(idx, nums[i], j-i+1)
			for k := i; k <= j; k++ {
				en := ents[nums[k]]
				data = append(data, be(int64(en.typ), w[0])...)
				data = append(data, be(en.f1, w[1])...)
				data = append(data, be(en.f2, w[2])...)
			}
			i = j + 1
		}
		d := Dict{{"Type", Name("XRef")}}
		d = append(d, trailer...)
		d = append(d, KV{"W", Arr{w[0], w[1], w[2]}})
		if !(len(idx) == 2 && idx[0] == 0 && idx[1] == f.size) || r.Intn(2) == 0 {
			d = append(d, KV{"Index", idx})
		}
		fl := append([]FilterStage{}, rv.XRefFilters...)
		for i := range fl {
			if fl[i].Pred >= 10 {
				fl[i].Cols = w[0] + w[1] + w[2]
			}
		}
		st := &Stream{D: d, Raw: data, Filters: fl, LenMode: "direct"}
		key := fmt.Sprintf("xref:%d", rv.XRefNum)
		f.Bind(key, rv.XRefNum, 0)
		encoded[key] = EncodeStream(data, fl, r)
		f.writeTop(RevObj{Key: key, Num: rv.XRefNum, Obj: st}, encoded)
	} else {
		for n, en := range ents {
			if en.typ == 2 {
				panic(fmt.Sprintf("pdfw: compressed object %d in a classic xref table", n))
			}
		}
		nums := make([]int, 0, len(ents))
		for n := range ents {
			nums = append(nums, n)
		}
		sort.Ints(nums)
		if rv.TableGapsAsFree && first && len(nums) > 0 {
			// fill gaps with free entries (gen 65535 so they can never be reused)
			lo, hi := nums[0], nums[len(nums)-1]
			for n := lo; n <= hi; n++ {
				if _, ok := ents[n]; !ok {
					ents[n] = xrefEnt{0, 0, 65535}
				}
			}
			nums = nums[:0]
			for n := range ents {
				nums = append(nums, n)
			}
			sort.Ints(nums)
		}
		st := e.Buf.Len()
		e.Buf.WriteString("xref")
		e.field("keyword", st)
		e.Buf.WriteString(e.EOL)
		for i := 0; i < len(nums); {
			j := i
			for j+1 < len(nums) && nums[j+1] == nums[j]+1 {
				j++
			}
			st := e.Buf.Len()
			fmt.Fprintf(&e.Buf, "%d %d", nums[i], j-i+1)
			e.field("xrefhead", st)
			e.Buf.WriteString(e.EOL)
			for k := i; k <= j; k++ {
				en := ents[nums[k]]
				flag := "n"
				if en.typ == 0 {
					flag = "f"
				}
				// 20-byte entries: 2-byte EOL = SP CR, SP LF or CR LF
				eol2 := " \n"
				switch e.EOL {
				case "\r\n":
					eol2 = "\r\n"
				case "\r":
					eol2 = " \r"
				}
				st := e.Buf.Len()
				fmt.Fprintf(&e.Buf, "%010d %05d %s%s", en.f1, en.f2, flag, eol2)
				e.field("xrefentry", st)
			}
			i = j + 1
		}
		st = e.Buf.Len()
		e.Buf.WriteString("trailer")
		e.field("keyword", st)
		e.Buf.WriteString(e.EOL)
		e.needSep = false
		e.curObj = 0
		tr := e.Tight
		e.Obj(trailer)
		e.Tight = tr
		e.Buf.WriteString(e.EOL)
	}
	st := e.Buf.Len()
	e.Buf.WriteString("startxref")
	e.field("keyword", st)
	e.Buf.WriteString(e.EOL)
	st = e.Buf.Len()
	fmt.Fprintf(&e.Buf, "%d", xoff)
	e.field("startxref", st)
	e.Buf.WriteString(e.EOL)
	st = e.Buf.Len()
	e.Buf.WriteString("%%EOF")
	e.field("eof", st)
	e.Buf.WriteString(e.EOL)
	f.prevXRef = xoff
	f.XRefOffsets = append(f.XRefOffsets, xoff)
	f.ObjOffsets = append(f.ObjOffsets, offs)
}

func contains(xs []int, x int) bool {
	for _, y := range xs {
		if y == x {
			return true
		}
	}
	return false
}

func be(v int64, w int) []byte {
	b := make([]byte, w)
	for i := w - 1; i >= 0; i-- {
		b[i] = byte(v)
		v >>= 8
	}
	return b
}

// Bytes returns the file so far.
func (f *File) Bytes() []byte { return f.E.Buf.Bytes() }
