package pdfw

import (
	"bytes"
	"fmt"
	"math/rand"
)

// FormsPDF writes a single-revision, uncompressed PDF whose page draws a tree of
// form XObjects (each with /Resources of its own that name its children):
//
//	page -> Fm1 -> { Fm2 , Fm3 -> { Fm4 , Fm5 } , Fm6 }
//
// Every form shows text before and after invoking its children. It returns the
// bytes, the recorded fields and the object numbers of the forms (for targeted
// faults: a child reference retargeted to an ancestor, a sibling's content broken).
func FormsPDF(r *rand.Rand, tok func() string) ([]byte, []Field, map[string]int) {
	f := NewFile("1.5", "\n", false, rand.New(rand.NewSource(r.Int63())))
	children := map[string][]string{"fm1": {"fm2", "fm3", "fm6"}, "fm3": {"fm4", "fm5"}}
	order := []string{"fm1", "fm2", "fm3", "fm4", "fm5", "fm6"}
	var objs []RevObj
	num := 0
	nums := map[string]int{}
	add := func(key string, o any) {
		num++
		nums[key] = num
		objs = append(objs, RevObj{Key: key, Num: num, Obj: o})
	}
	show := func(sb *bytes.Buffer, x, y int) {
		e := &Enc{NoFields: true}
		e.str(Str{B: []byte(tok())})
		fmt.Fprintf(sb, "BT /F1 10 Tf %d %d Td %s Tj ET\n", x, y, e.Buf.String())
	}
	add("catalog", Dict{{"Type", Name("Catalog")}, {"Pages", Ref{"root"}}})
	add("root", Dict{{"Type", Name("Pages")}, {"Kids", Arr{Ref{"p0"}}}, {"Count", 1}})
	add("f1", Dict{{"Type", Name("Font")}, {"Subtype", Name("Type1")}, {"BaseFont", Name("Helvetica")}, {"Encoding", Name("WinAnsiEncoding")}})
	var pc bytes.Buffer
	show(&pc, 72, 720)
	pc.WriteString("q 1 0 0 1 0 300 cm /Fm1 Do Q\n")
	show(&pc, 72, 80)
	add("p0", Dict{{"Type", Name("Page")}, {"Parent", Ref{"root"}}, {"MediaBox", Arr{0, 0, 612, 792}},
		{"Resources", Dict{{"Font", Dict{{"F1", Ref{"f1"}}}}, {"XObject", Dict{{"Fm1", Ref{"fm1"}}}}}}, {"Contents", Ref{"c0"}}})
	add("c0", &Stream{Raw: pc.Bytes(), LenMode: "direct"})
	for i, k := range order {
		var sb bytes.Buffer
		show(&sb, 10+20*i, 200-20*i)
		xo := Dict{}
		for j, ch := range children[k] {
			name := fmt.Sprintf("K%d", j+1)
			xo = append(xo, KV{name, Ref{ch}})
			fmt.Fprintf(&sb, "q 1 0 0 1 %d 0 cm /%s Do Q\n", 30*(j+1), name)
			if j == 0 {
				// the first child is stamped several times (a tiled mark): a reference that
				// leads back to the form then fans out at every level
				for t := 1; t < 8; t++ {
					fmt.Fprintf(&sb, "q 1 0 0 1 %d %d cm /%s Do Q\n", 30*(j+1), 12*t, name)
				}
			}
		}
		show(&sb, 10+20*i, 190-20*i)
		res := Dict{{"Font", Dict{{"F1", Ref{"f1"}}}}}
		if len(xo) > 0 {
			res = append(res, KV{"XObject", xo})
		}
		add(k, &Stream{D: Dict{{"Type", Name("XObject")}, {"Subtype", Name("Form")}, {"BBox", Arr{0, 0, 400, 400}}, {"Resources", res}}, Raw: sb.Bytes(), LenMode: "direct"})
	}
	f.WriteRevision(&Rev{Objs: objs, Root: "catalog"})
	forms := map[string]int{}
	for _, k := range order {
		forms[k] = nums[k]
	}
	return append([]byte{}, f.Bytes()...), append([]Field{}, f.E.Fields...), forms
}
