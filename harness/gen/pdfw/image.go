package pdfw

import (
	"bytes"
	"fmt"
	"image"
	"image/color"
	"image/jpeg"
	"math/rand"
)

// ImageSpec is one image XObject (ISO 32000-1 8.9.5).
type ImageSpec struct {
	W, H, BPC int
	// CS: DeviceGray | DeviceRGB | DeviceCMYK | Indexed (base DeviceRGB, direct
	// lookup string) | IndexedRef (base colour space given by reference) |
	// ICCBased (stream with /N) | CalGray | CalRGB | Separation | CSRef (the
	// whole colour space array is an indirect object) | IndexedCSRef (an Indexed
	// array that is an indirect object and names its base by reference)
	CS string
	// Filter: "" | Fl | AHx | A85Fl | DCT (a real baseline JPEG made by image/jpeg)
	Filter string
	Mask   bool // /ImageMask true (1 bit, no colour space)
	SMask  bool // a soft-mask image hangs off /SMask
	Decode bool // explicit /Decode array
}

// comps returns the number of colour components of the samples.
func (s ImageSpec) comps() int {
	switch s.CS {
	case "DeviceRGB", "CalRGB":
		return 3
	case "DeviceCMYK":
		return 4
	case "ICCBased":
		return 3
	}
	return 1
}

// GenImageSpec draws an image description.
func GenImageSpec(r *rand.Rand) ImageSpec {
	s := ImageSpec{W: 1 + r.Intn(24), H: 1 + r.Intn(24), BPC: 8}
	s.CS = []string{"DeviceGray", "DeviceRGB", "DeviceCMYK", "Indexed", "IndexedRef", "ICCBased", "CalGray", "CalRGB", "Separation", "CSRef", "IndexedCSRef"}[r.Intn(11)]
	switch s.CS {
	case "DeviceGray", "CalGray", "Separation", "CSRef":
		s.BPC = []int{1, 2, 4, 8, 8}[r.Intn(5)]
	case "Indexed", "IndexedRef", "IndexedCSRef":
		s.BPC = []int{1, 4, 8}[r.Intn(3)]
	}
	s.Filter = []string{"", "Fl", "AHx", "A85Fl", "DCT"}[r.Intn(5)]
	if s.Filter == "DCT" {
		s.BPC = 8
		if s.comps() == 4 || s.CS == "Indexed" || s.CS == "IndexedRef" || s.CS == "IndexedCSRef" || s.CS == "Separation" {
			s.CS = "DeviceRGB"
		}
	}
	if r.Intn(8) == 0 {
		s.Mask, s.BPC, s.CS, s.Filter = true, 1, "", []string{"", "Fl"}[r.Intn(2)]
	}
	s.SMask = !s.Mask && r.Intn(5) == 0
	s.Decode = r.Intn(4) == 0
	return s
}

// ImagePage is a page showing some text and some images.
type ImagePage struct {
	Text   []SimpleItem // may be empty: an image-only ("scanned") page
	Images []ImageSpec
	Inline bool // the first image is additionally written as an inline image
}

// ImagePDF writes a single-revision PDF whose pages draw image XObjects. It
// returns the bytes and the recorded fields (numbers, references, names,
// stream data …) for field-level fault injection.
func ImagePDF(r *rand.Rand, pages []ImagePage) ([]byte, []Field) {
	f := NewFile("1.6", "\n", false, rand.New(rand.NewSource(r.Int63())))
	var objs []RevObj
	num := 0
	next := func() int { num++; return num }
	add := func(key string, o any) { objs = append(objs, RevObj{Key: key, Num: next(), Obj: o}) }
	add("catalog", Dict{{"Type", Name("Catalog")}, {"Pages", Ref{"root"}}})
	kids := Arr{}
	var pageObjs []RevObj
	for pi, p := range pages {
		pk := fmt.Sprintf("p%d", pi)
		kids = append(kids, Ref{pk})
		xo := Dict{}
		var sb bytes.Buffer
		for _, it := range p.Text {
			e := &Enc{NoFields: true}
			e.str(Str{B: []byte(it.Text)})
			fmt.Fprintf(&sb, "BT /F1 %s Tf 1 0 0 1 %s %s Tm %s Tj ET\n", fnum(it.Size), fnum(it.X), fnum(it.Y), e.Buf.String())
		}
		for ii, im := range p.Images {
			ik := fmt.Sprintf("p%d:im%d", pi, ii)
			name := fmt.Sprintf("Im%d", ii+1)
			xo = append(xo, KV{name, Ref{ik}})
			fmt.Fprintf(&sb, "q %d 0 0 %d %d %d cm /%s Do Q\n", 40+im.W, 40+im.H, 60+ii*90, 300, name)
			pageObjs = append(pageObjs, imageObjects(r, ik, im)...)
		}
		if p.Inline && len(p.Images) > 0 {
			sb.WriteString("q 50 0 0 50 300 500 cm ")
			sb.WriteString(inlineImageToken(r))
			sb.WriteString(" Q\n")
		}
		ck := fmt.Sprintf("c%d", pi)
		pageObjs = append(pageObjs,
			RevObj{Key: pk, Obj: Dict{{"Type", Name("Page")}, {"Parent", Ref{"root"}}, {"MediaBox", Arr{0, 0, 612, 792}},
				{"Resources", Dict{{"Font", Dict{{"F1", Ref{"f1"}}}}, {"XObject", xo}}}, {"Contents", Ref{ck}}}},
			RevObj{Key: ck, Obj: &Stream{Raw: sb.Bytes(), LenMode: "direct"}})
	}
	add("root", Dict{{"Type", Name("Pages")}, {"Kids", kids}, {"Count", len(pages)}})
	add("f1", Dict{{"Type", Name("Font")}, {"Subtype", Name("Type1")}, {"BaseFont", Name("Helvetica")}, {"Encoding", Name("WinAnsiEncoding")}})
	for _, o := range pageObjs {
		o.Num = next()
		objs = append(objs, o)
	}
	f.WriteRevision(&Rev{Objs: objs, Root: "catalog"})
	return append([]byte{}, f.Bytes()...), append([]Field{}, f.E.Fields...)
}

// imageObjects returns the image XObject and what it refers to.
func imageObjects(r *rand.Rand, key string, im ImageSpec) []RevObj {
	var out []RevObj
	d := Dict{{"Type", Name("XObject")}, {"Subtype", Name("Image")}, {"Width", im.W}, {"Height", im.H}}
	comps := im.comps()
	if im.Mask {
		d = append(d, KV{"ImageMask", true})
	} else {
		d = append(d, KV{"BitsPerComponent", im.BPC})
		var cs any
		switch im.CS {
		case "DeviceGray", "DeviceRGB", "DeviceCMYK":
			cs = Name(im.CS)
		case "Indexed", "IndexedRef", "IndexedCSRef":
			hival := 1<<uint(im.BPC) - 1
			if hival > 15 {
				hival = 3 + r.Intn(60)
			}
			lookup := make([]byte, 3*(hival+1))
			r.Read(lookup)
			var base any = Name("DeviceRGB")
			if im.CS != "Indexed" {
				bk := key + ":basecs"
				out = append(out, RevObj{Key: bk, Obj: Arr{Name("CalRGB"), Dict{{"WhitePoint", Arr{0.9505, 1, 1.089}}}}})
				base = Ref{bk}
			}
			cs = Arr{Name("Indexed"), base, hival, Str{B: lookup, Hex: r.Intn(2) == 0}}
			if im.CS == "IndexedCSRef" {
				ck := key + ":cs"
				out = append(out, RevObj{Key: ck, Obj: cs})
				cs = Ref{ck}
			}
		case "ICCBased":
			pk := key + ":icc"
			prof := make([]byte, 128)
			r.Read(prof)
			out = append(out, RevObj{Key: pk, Obj: &Stream{D: Dict{{"N", 3}, {"Alternate", Name("DeviceRGB")}}, Raw: prof, LenMode: "direct"}})
			cs = Arr{Name("ICCBased"), Ref{pk}}
		case "CalGray":
			cs = Arr{Name("CalGray"), Dict{{"WhitePoint", Arr{0.9505, 1, 1.089}}, {"Gamma", 2.2}}}
		case "CalRGB":
			cs = Arr{Name("CalRGB"), Dict{{"WhitePoint", Arr{0.9505, 1, 1.089}}}}
		case "Separation":
			fk := key + ":tint"
			out = append(out, RevObj{Key: fk, Obj: Dict{{"FunctionType", 2}, {"Domain", Arr{0, 1}}, {"C0", Arr{0}}, {"C1", Arr{1}}, {"N", 1}}})
			cs = Arr{Name("Separation"), Name("Spot#20Ink"), Name("DeviceGray"), Ref{fk}}
		case "CSRef":
			ck := key + ":cs"
			out = append(out, RevObj{Key: ck, Obj: Arr{Name("CalGray"), Dict{{"WhitePoint", Arr{1, 1, 1}}}}})
			cs = Ref{ck}
		}
		d = append(d, KV{"ColorSpace", cs})
	}
	if im.Decode {
		dec := Arr{}
		for c := 0; c < comps; c++ {
			dec = append(dec, 1, 0)
		}
		d = append(d, KV{"Decode", dec})
	}
	if im.SMask {
		sk := key + ":smask"
		sd := make([]byte, im.W*im.H)
		r.Read(sd)
		out = append(out, RevObj{Key: sk, Obj: &Stream{D: Dict{{"Type", Name("XObject")}, {"Subtype", Name("Image")}, {"Width", im.W}, {"Height", im.H}, {"ColorSpace", Name("DeviceGray")}, {"BitsPerComponent", 8}}, Raw: sd, LenMode: "direct"}})
		d = append(d, KV{"SMask", Ref{sk}})
	}
	bpc := im.BPC
	rowBytes := (im.W*comps*bpc + 7) / 8
	raw := make([]byte, rowBytes*im.H)
	r.Read(raw)
	st := &Stream{D: d, Raw: raw, LenMode: "direct"}
	switch im.Filter {
	case "Fl":
		st.Filters = []FilterStage{{Kind: "Fl"}}
	case "AHx":
		st.Filters = []FilterStage{{Kind: "AHx"}}
	case "A85Fl":
		st.Filters = []FilterStage{{Kind: "A85"}, {Kind: "Fl"}}
	case "DCT":
		// the stream data are the JPEG file itself; the filter name is written by hand
		var img image.Image
		if comps == 1 {
			g := image.NewGray(image.Rect(0, 0, im.W, im.H))
			r.Read(g.Pix)
			img = g
		} else {
			g := image.NewRGBA(image.Rect(0, 0, im.W, im.H))
			for i := 0; i < len(g.Pix); i += 4 {
				c := color.RGBA{uint8(r.Intn(256)), uint8(r.Intn(256)), uint8(r.Intn(256)), 255}
				g.Pix[i], g.Pix[i+1], g.Pix[i+2], g.Pix[i+3] = c.R, c.G, c.B, c.A
			}
			img = g
		}
		var jb bytes.Buffer
		jpeg.Encode(&jb, img, &jpeg.Options{Quality: 60})
		st.Raw = jb.Bytes()
		st.D = append(st.D, KV{"Filter", Name("DCTDecode")})
	}
	out = append(out, RevObj{Key: key, Obj: st})
	return out
}
