// Package c04: object lookup returns the newest revision, in any access order.
//
// History + executable model: files are written from a known revision history
// in which every written value is unique (tag "n.r"), so an answer names the
// revision it came from. A 20-line sequential model (revisions applied oldest
// to newest over map[objNum] -> value|free) is compared with the real reader
// at every operation of recorded lookup sequences.
package c04

import (
	"fmt"
	"math/rand"
	"os"
	"path/filepath"
	"sort"
	"strings"

	"github.com/tsawler/tabula/core"
	"github.com/tsawler/tabula/reader"
	"github.com/tsawler/tabula/resolver"

	"verifharness/fw"
	"verifharness/gen/pdfw"
)

// action of one object in one revision
const (
	aNone   = iota // untouched
	aPlain         // written as a top-level dictionary object
	aPacked        // written inside an object stream (needs a stream xref, generation 0)
	aStream        // written as a stream object (body = tag), possibly with indirect /Length
	aDelete        // freed
)

var actName = []string{"-", "plain", "packed", "stream", "delete"}

type revSpec struct {
	xrefStream bool
	acts       []int // per object under test
}

type history struct {
	nums        []int // object numbers under test
	revs        []revSpec
	lenIndirect bool
	eol         string
	shuffle     bool
	chain       bool // every plain object refers to the next object number (/Next n 0 R)
	damage      bool // one member of one object stream gets a header offset beyond the stream's data
}

func (h history) String() string {
	var sb strings.Builder
	fmt.Fprintf(&sb, "nums=%v", h.nums)
	for i, r := range h.revs {
		k := "T"
		if r.xrefStream {
			k = "S"
		}
		var a []string
		for _, x := range r.acts {
			a = append(a, actName[x])
		}
		fmt.Fprintf(&sb, " r%d[%s:%s]", i, k, strings.Join(a, ","))
	}
	if h.lenIndirect {
		sb.WriteString(" lenind")
	}
	return sb.String()
}

// valid: delete only when live; packed only under a stream xref and only for
// generation-0 numbers (an object once freed has generation >= 1 and may not
// live in an object stream); revision 0 defines something.
func (h history) valid() bool {
	live := make([]bool, len(h.nums))
	freed := make([]bool, len(h.nums))
	for ri, r := range h.revs {
		any := false
		for i, a := range r.acts {
			switch a {
			case aDelete:
				if !live[i] {
					return false
				}
				live[i] = false
				freed[i] = true
				any = true
			case aPacked:
				if !r.xrefStream || freed[i] {
					return false
				}
				live[i] = true
				any = true
			case aPlain, aStream:
				live[i] = true
				any = true
			}
		}
		if !any && ri > 0 {
			return false // an empty update adds nothing
		}
	}
	return true
}

// model: the sequential reference model.
type model map[int]string // objNum -> tag, "" = free; absent = never defined

func (h history) model() model {
	m := model{}
	for ri, r := range h.revs {
		for i, a := range r.acts {
			switch a {
			case aPlain, aPacked, aStream:
				m[h.nums[i]] = tag(h.nums[i], ri)
			case aDelete:
				m[h.nums[i]] = ""
			}
		}
	}
	return m
}

func tag(n, r int) string { return fmt.Sprintf("v%04d.%02d", n, r) }

// write builds the file for a history. Fixed scaffolding (catalog, page tree,
// one page) occupies numbers above the ones under test.
func (h history) write(seed int64) ([]byte, map[string]int, map[int]string) {
	conts := map[int]string{}
	r := rand.New(rand.NewSource(seed))
	f := pdfw.NewFile("1.6", h.eol, false, r)
	maxN := 0
	for _, n := range h.nums {
		if n > maxN {
			maxN = n
		}
	}
	next := maxN + 1
	alloc := func() int { next++; return next - 1 }
	cat, pages, page, content := alloc(), alloc(), alloc(), alloc()
	lenObj := alloc() // shared Length object: every tagged stream body has the same length
	gens := map[int]int{}
	info := map[string]int{"catalog": cat, "pages": pages, "len": lenObj}
	bodyLen := len(tag(0, 0))
	if h.chain {
		for _, n := range h.nums {
			f.Bind(fmt.Sprintf("o%d", n), n, 0) // references are written also to numbers no revision defines
		}
	}
	for ri, rs := range h.revs {
		rv := &pdfw.Rev{XRefStream: rs.xrefStream, Root: "catalog"}
		var objs []pdfw.RevObj
		if ri == 0 {
			objs = append(objs,
				pdfw.RevObj{Key: "catalog", Num: cat, Obj: pdfw.Dict{{"Type", pdfw.Name("Catalog")}, {"Pages", pdfw.Ref{Key: "pages"}}}},
				pdfw.RevObj{Key: "pages", Num: pages, Obj: pdfw.Dict{{"Type", pdfw.Name("Pages")}, {"Kids", pdfw.Arr{pdfw.Ref{Key: "page"}}}, {"Count", 1}}},
				pdfw.RevObj{Key: "page", Num: page, Obj: pdfw.Dict{{"Type", pdfw.Name("Page")}, {"Parent", pdfw.Ref{Key: "pages"}}, {"MediaBox", pdfw.Arr{0, 0, 612, 792}}, {"Resources", pdfw.Dict{}}, {"Contents", pdfw.Ref{Key: "content"}}}},
				pdfw.RevObj{Key: "content", Num: content, Obj: &pdfw.Stream{Raw: []byte("BT ET\n"), LenMode: "direct"}},
			)
			if h.lenIndirect {
				// the shared Length object lives in revision 0 (possibly inside an object stream)
				objs = append(objs, pdfw.RevObj{Key: "len", Num: lenObj, Obj: bodyLen, Packed: rs.xrefStream && r.Intn(2) == 0})
			}
		}
		for i, a := range rs.acts {
			n := h.nums[i]
			key := fmt.Sprintf("o%d", n)
			switch a {
			case aPlain, aPacked:
				d := pdfw.Dict{{"V", pdfw.Str{B: []byte(tag(n, ri))}}, {"N", n}, {"R", ri}}
				if h.chain && i+1 < len(h.nums) {
					d = append(d, pdfw.KV{K: "Next", V: pdfw.Ref{Key: fmt.Sprintf("o%d", h.nums[i+1])}})
				}
				objs = append(objs, pdfw.RevObj{Key: key, Num: n, Gen: gens[n], Packed: a == aPacked, Obj: d})
			case aStream:
				st := &pdfw.Stream{D: pdfw.Dict{{"N", n}, {"R", ri}}, Raw: []byte(tag(n, ri)), LenMode: "direct"}
				if h.lenIndirect {
					// resolved while this object is half parsed; the Length object was
					// written by revision 0 — another revision, maybe an object stream
					st.D = append(st.D, pdfw.KV{K: "Length", V: pdfw.Ref{Key: "len"}})
					st.LenMode = "preset"
				}
				objs = append(objs, pdfw.RevObj{Key: key, Num: n, Gen: gens[n], Obj: st})
			case aDelete:
				rv.Free = append(rv.Free, n)
				gens[n]++
			}
		}
		if ri > 0 && len(rv.Free) > 0 && r.Intn(3) == 0 {
			// deletions written as never-reusable free entries outside the free list —
			// only when no later revision defines one of these numbers again
			again := false
			for i := range rs.acts {
				if rs.acts[i] != aDelete {
					continue
				}
				for _, later := range h.revs[ri+1:] {
					if a := later.acts[i]; a == aPlain || a == aPacked || a == aStream {
						again = true
					}
				}
			}
			rv.FreeUnlinked = !again
		}
		if h.shuffle {
			r.Shuffle(len(objs), func(i, j int) { objs[i], objs[j] = objs[j], objs[i] })
		}
		rv.Objs = objs
		np := 0
		for _, o := range objs {
			if o.Packed {
				np++
			}
		}
		if np > 0 {
			rv.ObjStmMax = 1 + r.Intn(np)
			if h.damage && np >= 2 && info["damaged"] == 0 {
				// one container for this revision; the header entry of one member points
				// behind the decoded data: that member cannot be read, its siblings can
				// (only a tagged object is damaged, never the shared /Length object)
				var cand []int
				k := 0
				for _, o := range objs {
					if !o.Packed {
						continue
					}
					if strings.HasPrefix(o.Key, "o") {
						cand = append(cand, k)
					}
					k++
				}
				if len(cand) > 0 {
					rv.ObjStmMax = np
					v := cand[r.Intn(len(cand))]
					k = 0
					for _, o := range objs {
						if !o.Packed {
							continue
						}
						if k == v {
							info["damaged"] = o.Num
						}
						k++
					}
					rv.Mutate = &pdfw.Mutation{Kind: "objstm-off", Cont: 0, Index: v, Rel: "bodylen", Value: int64(7 + r.Intn(50))}
				}
			}
			for i := 0; i*rv.ObjStmMax < np; i++ {
				rv.ObjStmNums = append(rv.ObjStmNums, alloc())
			}
			if r.Intn(2) == 0 {
				rv.ObjStmFilters = []pdfw.FilterStage{{Kind: "Fl"}}
			}
		}
		if rs.xrefStream {
			rv.XRefNum = alloc()
			if r.Intn(2) == 0 {
				rv.XRefFilters = []pdfw.FilterStage{{Kind: "Fl", Pred: []int{0, 12}[r.Intn(2)]}}
			}
		}
		f.WriteRevision(rv)
		for cn, raw := range rv.OutObjStmData {
			conts[cn] = string(raw)
		}
	}
	info["next"] = next
	return append([]byte{}, f.Bytes()...), info, conts
}

// tagOf extracts the unique tag from a looked-up object.
func tagOf(o core.Object) (string, bool) {
	switch v := o.(type) {
	case core.Dict:
		if s, ok := v.Get("V").(core.String); ok {
			return string(s), true
		}
	case *core.Stream:
		b, err := v.Decode()
		if err == nil {
			return string(b), true
		}
	}
	return "", false
}

// shapeOf renders the stored value of an object with its references left as references
// (keys sorted, streams by dictionary only): what a shallow lookup returns.
func shapeOf(o core.Object, depth int) string {
	if depth > 6 {
		return "..."
	}
	switch v := o.(type) {
	case core.Dict:
		keys := make([]string, 0, len(v))
		for k := range v {
			keys = append(keys, string(k))
		}
		sort.Strings(keys)
		var b strings.Builder
		b.WriteString("<<")
		for _, k := range keys {
			b.WriteString("/" + k + " " + shapeOf(v[k], depth+1) + " ")
		}
		b.WriteString(">>")
		return b.String()
	case core.Array:
		var b strings.Builder
		b.WriteString("[")
		for _, e := range v {
			b.WriteString(shapeOf(e, depth+1) + " ")
		}
		b.WriteString("]")
		return b.String()
	case *core.Stream:
		return "stream" + shapeOf(v.Dict, depth+1)
	case core.IndirectRef:
		return fmt.Sprintf("%d %d R", v.Number, v.Generation)
	case nil:
		return "nil"
	default:
		return fmt.Sprintf("%T(%v)", o, o)
	}
}

type op struct {
	kind string // get | resolve | deep | clear | pages | xref
	n    int
}

func (o op) String() string {
	if o.kind == "clear" || o.kind == "pages" || o.kind == "xref" {
		return o.kind
	}
	return fmt.Sprintf("%s(%d)", o.kind, o.n)
}

// sequences builds the lookup sequences for a history.
func sequences(h history, extra []int, r *rand.Rand) [][]op {
	cand := append(append([]int{}, h.nums...), extra...)
	sort.Ints(cand)
	var asc, desc []op
	for _, n := range cand {
		asc = append(asc, op{"get", n})
	}
	for i := len(cand) - 1; i >= 0; i-- {
		desc = append(desc, op{"get", cand[i]})
	}
	var rnd []op
	for k := 3 + r.Intn(3*len(cand)+4); k > 0; k-- {
		switch r.Intn(11) {
		case 0:
			rnd = append(rnd, op{"clear", 0})
		case 1:
			rnd = append(rnd, op{"pages", 0})
		case 2:
			rnd = append(rnd, op{"xref", 0})
		case 3:
			rnd = append(rnd, op{"resolve", cand[r.Intn(len(cand))]})
		case 4:
			rnd = append(rnd, op{"deep", cand[r.Intn(len(cand))]})
		case 5:
			rnd = append(rnd, op{[]string{"rsv-get", "rsv-ref", "rsv-deep"}[r.Intn(3)], cand[r.Intn(len(cand))]})
		default:
			rnd = append(rnd, op{"get", cand[r.Intn(len(cand))]})
		}
	}
	seqs := [][]op{asc, desc, rnd}
	if h.chain {
		// resolver-level lookups only, deep ones first: what a deep resolution that ran
		// into a dead reference leaves behind must not change the answers after it
		var rs []op
		for _, n := range cand {
			rs = append(rs, op{"rsv-RD", n}, op{"rsv-R", n}, op{"rsv-deep", n}, op{"rsv-ref", n})
		}
		for i := len(cand) - 1; i >= 0; i-- {
			rs = append(rs, op{"rsv-deep", cand[i]}, op{"rsv-get", cand[i]})
		}
		seqs = append(seqs, rs)
	}
	return seqs
}

type fail struct{ class, what string }

func runHistory(c *fw.Ctx, id string, h history, seed int64) {
	data, info, conts := h.write(seed)
	m := h.model()
	// the object-stream containers are objects of the file like any other: looking one
	// up, before or after its members were read, gives the stream that was written
	var contNums []int
	for cn, raw := range conts {
		if info["damaged"] == 0 {
			m[cn] = raw
			contNums = append(contNums, cn)
		}
	}
	sort.Ints(contNums)
	touched := map[int]int{}
	delSeen, packedSeen := false, false
	for _, rs := range h.revs {
		for i, a := range rs.acts {
			if a != aNone {
				touched[h.nums[i]]++
			}
			if a == aDelete {
				delSeen = true
			}
			if a == aPacked {
				packedSeen = true
			}
		}
	}
	multi := false
	for _, k := range touched {
		if k >= 2 {
			multi = true
		}
	}
	c.Case(h.String(), multi || delSeen || packedSeen)
	for _, rs := range h.revs {
		if rs.xrefStream {
			c.Seen("xref", "stream")
		} else {
			c.Seen("xref", "table")
		}
		for _, a := range rs.acts {
			c.Seen("action", actName[a])
		}
	}
	c.Seen("revisions", fmt.Sprint(len(h.revs)))
	path := filepath.Join(c.Work, strings.NewReplacer(":", "_").Replace(id)+".pdf")
	os.WriteFile(path, data, 0o644)
	defer os.Remove(path)
	// numbers never defined: one below, one between, one beyond everything
	never := []int{info["next"] + 3}
	r := c.Rand("seq", id)
	seqs := sequences(h, append(never, contNums...), r)
	c.Sample(map[string]any{"id": id, "history": h.String(), "bytes": len(data), "sequence": fmt.Sprint(seqs[2])})
	var fails []fail
	detail := map[string]any{"history": h.String(), "file_hex_len": len(data)}
	c.Guard("c04", id, detail, func() {
		rd, err := reader.Open(path)
		if err != nil {
			fails = append(fails, fail{"open", fmt.Sprintf("reader.Open: %v", err)})
			return
		}
		defer rd.Close()
		// stored shape of every object as a pristine reader gives it on its first shallow lookup
		pristine := map[int]string{}
		if rp, perr := reader.Open(path); perr == nil {
			for _, seq := range seqs {
				for _, o := range seq {
					if _, done := pristine[o.n]; done || o.n == 0 {
						continue
					}
					if g, gerr := rp.GetObject(o.n); gerr == nil {
						pristine[o.n] = shapeOf(g, 0)
					}
				}
			}
			rp.Close()
		}
		for si, seq := range seqs {
			if si == 1 && r.Intn(2) == 0 {
				// descending sequence on a fresh reader half of the time
				rd.Close()
				rd, err = reader.Open(path)
				if err != nil {
					fails = append(fails, fail{"open", fmt.Sprintf("reader.Open (2nd): %v", err)})
					return
				}
			}
			// the resolver-level lookups of a sequence go through one ObjectResolver
			// (kept across the operations) in half of the sequences, through a fresh one
			// per lookup in the others
			var shared *resolver.ObjectResolver
			sharedRsv := (si+int(seed))%2 == 0 || si == 3
			rsv := func() *resolver.ObjectResolver {
				if !sharedRsv {
					return resolver.NewResolver(rd)
				}
				if shared == nil {
					shared = resolver.NewResolver(rd)
				}
				return shared
			}
			for oi, o := range seq {
				var got core.Object
				var err error
				switch o.kind {
				case "clear":
					rd.ClearCache()
					continue
				case "pages":
					if pc, err := rd.PageCount(); err != nil || pc != 1 {
						fails = append(fails, fail{"pages", fmt.Sprintf("seq %d op %d: PageCount() = %d, %v (want 1)", si, oi, pc, err)})
					}
					if _, err := rd.GetPage(0); err != nil {
						fails = append(fails, fail{"pages", fmt.Sprintf("seq %d op %d: GetPage(0): %v", si, oi, err)})
					}
					continue
				case "xref":
					// inspection must agree with the model on in-use/free
					xt := rd.XRefTable()
					for _, n := range h.nums {
						e, ok := xt.Get(n)
						want, def := m[n]
						switch {
						case !def && ok && e.InUse:
							fails = append(fails, fail{"xref", fmt.Sprintf("XRefTable: object %d never defined but listed in use", n)})
						case def && want == "" && ok && e.InUse:
							fails = append(fails, fail{"xref", fmt.Sprintf("XRefTable: object %d freed by the newest revision but listed in use", n)})
						case def && want != "" && (!ok || !e.InUse):
							fails = append(fails, fail{"xref", fmt.Sprintf("XRefTable: live object %d not listed in use", n)})
						}
					}
					c.Count("xref_inspections", 1)
					continue
				case "get":
					got, err = rd.GetObject(o.n)
				case "resolve":
					got, err = rd.Resolve(core.IndirectRef{Number: o.n, Generation: 0})
				case "rsv-get":
					got, err = rsv().GetObject(o.n)
				case "rsv-ref":
					got, err = rsv().ResolveReference(core.IndirectRef{Number: o.n, Generation: 0})
				case "rsv-deep":
					got, err = rsv().GetObjectResolvedDeep(o.n)
				case "rsv-R":
					got, err = rsv().Resolve(core.IndirectRef{Number: o.n, Generation: 0})
				case "rsv-RD":
					got, err = rsv().ResolveDeep(core.IndirectRef{Number: o.n, Generation: 0})
				case "deep":
					got, err = rd.ResolveDeep(core.Array{core.IndirectRef{Number: o.n, Generation: 0}})
					if err == nil {
						if a, ok := got.(core.Array); ok && len(a) == 1 {
							got = a[0]
						}
					}
				}
				if dn := info["damaged"]; dn != 0 && (o.n == dn || (h.chain && o.n < dn && (o.kind == "deep" || o.kind == "rsv-deep" || o.kind == "rsv-RD"))) {
					// the member whose header entry is damaged (and deep resolutions that walk
					// into it): whatever the lookup gives is not judged; the lookups of the
					// other objects — before and after it, in any order — are
					c.Count("lookups_of_a_damaged_object_stream_member", 1)
					continue
				}
				c.Count("lookups_checked", 1)
				want, defined := m[o.n]
				if _, isCont := conts[o.n]; isCont && defined {
					c.Count("lookups_of_object_stream_containers", 1)
				}
				if h.chain && (o.kind == "deep" || o.kind == "rsv-deep" || o.kind == "rsv-RD") && defined && want != "" {
					// a deep resolution follows /Next: whether it fails on a reference to an
					// object that is free or was never defined, or reads it as null, is the
					// resolver's choice — the lookups after it must not notice either way
					broken := false
					for k := range h.nums {
						if h.nums[k] > o.n {
							if w, ok := m[h.nums[k]]; !ok || w == "" {
								broken = true
							}
						}
					}
					if broken {
						c.Count("deep_lookups_through_a_dead_reference", 1)
						continue
					}
				}
				if ps, ok := pristine[o.n]; ok && err == nil && (o.kind == "get" || o.kind == "resolve") {
					c.Count("shallow_lookups_compared_with_a_pristine_reader", 1)
					if gs := shapeOf(got, 0); gs != ps {
						fails = append(fails, fail{"stored-value-changed", fmt.Sprintf("seq %d op %d %v: shallow lookup of object %d gives %s, a pristine reader gives %s (an earlier lookup changed what is stored)", si, oi, o, o.n, gs, ps)})
					}
				}
				switch {
				case !defined || want == "":
					if err == nil {
						t, _ := tagOf(got)
						why := "never defined"
						if defined {
							why = "freed by its newest revision"
						}
						fails = append(fails, fail{"stale-or-phantom", fmt.Sprintf("seq %d op %d %v: object %d is %s but lookup succeeded (value %q)", si, oi, o, o.n, why, t)})
					}
				default:
					if err != nil {
						fails = append(fails, fail{"live-error", fmt.Sprintf("seq %d op %d %v: live object %d (want %s): error %v", si, oi, o, o.n, want, err)})
					} else if t, ok := tagOf(got); !ok || t != want {
						fails = append(fails, fail{"wrong-revision", fmt.Sprintf("seq %d op %d %v: object %d = %q, newest revision wrote %q", si, oi, o, o.n, t, want)})
					}
				}
			}
		}
	})
	for i, f := range fails {
		if i >= 3 {
			break
		}
		detail["file_bytes_b64"] = data
		c.Fail("", f.class, id, f.what+" | "+h.String(), detail)
	}
}

// enumerate yields every valid history for the given numbers and revision count.
func enumerate(nums []int, nrev int, lenInd bool, visit func(h history)) {
	n := len(nums)
	var revs []revSpec
	var rec func(ri int)
	rec = func(ri int) {
		if ri == nrev {
			h := history{nums: nums, revs: append([]revSpec{}, revs...), lenIndirect: lenInd, eol: "\n"}
			if h.valid() {
				visit(h)
			}
			return
		}
		for _, xs := range []bool{false, true} {
			total := 1
			for i := 0; i < n; i++ {
				total *= 5
			}
			for code := 0; code < total; code++ {
				acts := make([]int, n)
				c := code
				for i := 0; i < n; i++ {
					acts[i] = c % 5
					c /= 5
				}
				revs = append(revs, revSpec{xs, acts})
				// prune early
				if (history{nums: nums, revs: revs}).valid() {
					rec(ri + 1)
				}
				revs = revs[:len(revs)-1]
			}
		}
	}
	rec(0)
}

func randomHistory(r *rand.Rand) history {
	for {
		n := 1 + r.Intn(8)
		nr := 1 + r.Intn(5)
		var nums []int
		cur := 0
		sparse := r.Intn(2) == 0
		for i := 0; i < n; i++ {
			cur++
			if sparse {
				cur += r.Intn(5)
			}
			nums = append(nums, cur)
		}
		h := history{nums: nums, lenIndirect: r.Intn(2) == 0, eol: []string{"\n", "\r\n", "\r"}[r.Intn(3)], shuffle: r.Intn(2) == 0, chain: r.Intn(2) == 0, damage: r.Intn(4) == 0}
		live := make([]bool, n)
		freed := make([]bool, n)
		for ri := 0; ri < nr; ri++ {
			rs := revSpec{xrefStream: r.Intn(2) == 0, acts: make([]int, n)}
			for i := range rs.acts {
				var opts []int
				opts = append(opts, aNone, aNone, aPlain, aStream)
				if rs.xrefStream && !freed[i] {
					opts = append(opts, aPacked, aPacked)
				}
				if live[i] {
					opts = append(opts, aDelete)
				}
				a := opts[r.Intn(len(opts))]
				rs.acts[i] = a
				switch a {
				case aDelete:
					live[i], freed[i] = false, true
				case aPlain, aStream, aPacked:
					live[i] = true
				}
			}
			h.revs = append(h.revs, rs)
		}
		if h.valid() {
			return h
		}
	}
}

// Run is the C04 check.
func Run(c *fw.Ctx) {
	c.Rule("case = revision history (object numbers x revisions x {untouched, plain, packed-in-objstm, stream, delete} x xref kind per revision x indirect /Length) " +
		"plus 3 lookup sequences (ascending, descending, seed-random with repeats / ClearCache / page-tree access / XRefTable inspection / Resolve / ResolveDeep); " +
		"non-trivial iff some number is touched by >= 2 revisions, or a delete, or an object-stream member occurs; distinct by history")
	c.Assume("gen/pdfw incremental writer follows ISO 32000-1 7.5.4-7.5.8 (free entries get generation+1; re-used numbers are never packed into object streams)")

	// exhaustive small bound
	type job struct {
		id string
		h  history
	}
	var jobs []job
	maxRev := c.N(2, 3)
	for nrev := 1; nrev <= maxRev; nrev++ {
		for _, li := range []bool{false, true} {
			if li && nrev == maxRev && !c.Quick() {
				// indirect-length variant only doubles stream cases; keep it to r <= 2 in the exhaustive part
				continue
			}
			k := 0
			enumerate([]int{1, 2}, nrev, li, func(h history) {
				jobs = append(jobs, job{fmt.Sprintf("ex:%d:%v:%d", nrev, li, k), h})
				k++
			})
		}
	}
	c.Extra("exhaustive_histories", len(jobs))
	c.Extra("exhaustive_bound", fmt.Sprintf("n<=2 objects, r<=%d revisions, all actions x both xref kinds per revision (valid histories only)", maxRev))
	c.Parallel(len(jobs), func(i int) {
		if !c.Want(jobs[i].id) {
			return
		}
		runHistory(c, jobs[i].id, jobs[i].h, int64(i)+c.Seed*1000003)
	})
	// sampled larger histories
	n := c.N(1500, 40000)
	c.Parallel(n, func(i int) {
		id := fmt.Sprintf("rnd:%d", i)
		if !c.Want(id) {
			return
		}
		r := c.Rand("hist", i)
		runHistory(c, id, randomHistory(r), r.Int63())
	})
	ex := false
	c.Exhaustive(ex)
}
