package c12

import (
	"fmt"
	"math/rand"
	"strings"

	"github.com/tsawler/tabula/model"

	"verifharness/fw"
)

// filler vocabulary: no letter 'q' (reserved for tokens), short words so that
// every text offers a space well within any split window.
var filler = strings.Fields(`the of and to in is that for it as was with be by on not he this are or his from at which but have an had they you were their one all we can her has there been if more when will would who so no out up into than them only its time may some could these two then do first any my now such like our over man me even most made after also did many before must through back years where much your way well down should because each just those people how too little state good very make world still see own men work long here get both between life being under never day same another know while last might us great old year off come since against go came right used take three
naïve café über résumé señor 日本 東京 文書 данные текст`)

type textGen struct {
	r   *rand.Rand
	tok *fw.Tokens
}

func (g *textGen) word() string { return filler[g.r.Intn(len(filler))] }

func capitalize(s string) string {
	if s == "" || s[0] < 'a' || s[0] > 'z' {
		return s
	}
	return string(s[0]-32) + s[1:]
}

// sentence: 3..14 words, one or two tokens, sentence punctuation at the end.
func (g *textGen) sentence() string {
	n := 3 + g.r.Intn(12)
	ws := make([]string, 0, n+2)
	tokAt := g.r.Intn(n)
	for i := 0; i < n; i++ {
		w := g.word()
		if i == 0 {
			w = capitalize(w)
		}
		ws = append(ws, w)
		if i == tokAt || g.r.Intn(9) == 0 {
			ws = append(ws, g.tok.Next())
		}
		switch g.r.Intn(40) {
		case 0:
			ws = append(ws, "e.g.")
		case 1:
			ws = append(ws, "Dr.")
		case 2:
			ws = append(ws, "3.14")
		case 3:
			ws[len(ws)-1] += ","
		}
	}
	return strings.Join(ws, " ") + []string{".", ".", ".", "!", "?"}[g.r.Intn(5)]
}

// prose builds running text of roughly size bytes (at least one token).
func (g *textGen) prose(size int) string {
	if size <= 12 {
		return g.tok.Next()
	}
	var sb strings.Builder
	for sb.Len() < size {
		if sb.Len() > 0 {
			sb.WriteString([]string{" ", " ", " ", "\n", "  "}[g.r.Intn(5)])
		}
		sb.WriteString(g.sentence())
	}
	return sb.String()
}

func (g *textGen) title() string {
	n := 1 + g.r.Intn(4)
	ws := make([]string, 0, n+1)
	for i := 0; i < n; i++ {
		ws = append(ws, capitalize(g.word()))
	}
	ws = append(ws, g.tok.Next())
	g.r.Shuffle(len(ws), func(i, j int) { ws[i], ws[j] = ws[j], ws[i] })
	return strings.Join(ws, " ")
}

// docSpec is the seed-chosen shape of a generated document.
type docSpec struct {
	Flavour    string // elements | both | likepara
	Numbering  string // addpage | addpage-preset | append-preset
	Pages      int
	MaxPara    int // byte size of the largest paragraphs to generate
	NoHeadings bool
	DeepLevels bool // heading levels up to 9 (DOCX Heading 7-9, ODF outline levels) instead of 6
}

type genInfo struct {
	Features map[string]bool
	Headings int
	Levels   map[int]bool
	Kinds    map[string]int
	Numbers  []int // the page number each page was given by the generator (truth)
}

// buildDoc generates a model.Document. Elements are in true document order;
// for flavours with a layout the per-kind layout lists are filled in the same
// order (tables and images exist in the element view only, the layout model
// has no place for them).
func buildDoc(r *rand.Rand, spec docSpec) (*model.Document, *genInfo) {
	g := &textGen{r: r, tok: fw.NewTokens(r)}
	info := &genInfo{Features: map[string]bool{}, Levels: map[int]bool{}, Kinds: map[string]int{}}
	doc := model.NewDocument()
	if r.Intn(4) > 0 {
		doc.Metadata.Title = "Doc " + g.title()
	}
	withLayout := spec.Flavour != "elements"
	number := 1
	if spec.Numbering != "addpage" {
		number = 1 + r.Intn(4)
	}
	lastLevel := 0
	for pi := 0; pi < spec.Pages; pi++ {
		page := model.NewPage(612, 792)
		var lay *model.PageLayout
		if withLayout {
			lay = &model.PageLayout{}
			page.Layout = lay
		}
		nel := r.Intn(9)
		if r.Intn(8) == 0 {
			nel = 0
			info.Features["empty-page"] = true
		}
		for ei := 0; ei < nel; ei++ {
			k := r.Intn(100)
			y := float64(700 - ei*60)
			bbox := model.BBox{X: 72, Y: y, Width: 400, Height: 40}
			if pi == 0 && ei == 0 && r.Intn(5) == 0 {
				// the document opens with a paragraph below the minimum chunk size followed by
				// one above the maximum (a lead-in line in front of a long passage)
				max := []int{1000, 2000}[r.Intn(2)]
				for _, text := range []string{g.prose(15 + r.Intn(70)), g.prose(max*12/10 + r.Intn(max))} {
					page.AddElement(&model.Paragraph{Text: text, BBox: bbox, FontSize: 11})
					if lay != nil {
						lay.Paragraphs = append(lay.Paragraphs, model.ParagraphInfo{Index: len(lay.Paragraphs), Text: text, BBox: bbox, FontSize: 11})
					}
					info.Kinds["paragraph"]++
				}
				info.Features["motif:opens-small-then-oversized"] = true
				continue
			}
			if !spec.NoHeadings && spec.Flavour != "likepara" && r.Intn(25) == 0 {
				// a motif around the edges of the size rules: a paragraph larger than a
				// chunk may be, a paragraph smaller than a chunk should be, a minor heading,
				// and a paragraph that nearly fills a chunk (sizes relative to a maximum of
				// 1000 or 2000 bytes, the two the presets use)
				max := []int{1000, 2000}[r.Intn(2)]
				level := lastLevel + 1
				if level < 4 {
					level = 4 + r.Intn(3)
				}
				if level > 6 {
					level = 6
				}
				addPara := func(text string) {
					page.AddElement(&model.Paragraph{Text: text, BBox: bbox, FontSize: 11})
					if lay != nil {
						lay.Paragraphs = append(lay.Paragraphs, model.ParagraphInfo{Index: len(lay.Paragraphs), Text: text, BBox: bbox, FontSize: 11})
					}
					info.Kinds["paragraph"]++
				}
				addPara(g.prose(max*12/10 + r.Intn(max)))
				addPara(g.prose(15 + r.Intn(75)))
				text := g.title()
				page.AddElement(&model.Heading{Text: text, Level: level, BBox: bbox, FontSize: 13})
				if lay != nil {
					lay.Headings = append(lay.Headings, model.HeadingInfo{Level: level, Text: text, BBox: bbox, FontSize: 13, Confidence: 0.9})
				}
				info.Headings++
				info.Levels[level] = true
				info.Kinds["heading"]++
				lastLevel = level
				addPara(g.prose(max*6/10 + r.Intn(max*35/100)))
				info.Features["motif:oversized,small,minor-heading,near-full"] = true
				continue
			}
			switch {
			case k < 28 && !spec.NoHeadings: // heading
				var level int
				switch r.Intn(6) {
				case 0:
					level = 1 + r.Intn(6) // anything, incl. skipped levels
				case 1:
					level = lastLevel // repeated
				case 2:
					level = lastLevel + 2 // skipped
				case 3:
					level = lastLevel - 1
				default:
					level = lastLevel + 1
				}
				if level < 1 {
					level = 1
				}
				maxLevel := 6
				if spec.DeepLevels {
					maxLevel = 9
					if lastLevel >= 4 && r.Intn(2) == 0 {
						level = lastLevel + 1 // keep descending once deep
					}
				}
				if level > maxLevel {
					level = maxLevel
				}
				if level > 6 {
					info.Features["level>6"] = true
				}
				if lastLevel > 0 && level > lastLevel+1 {
					info.Features["skipped-level"] = true
				}
				if level == lastLevel {
					info.Features["repeated-level"] = true
				}
				if level < lastLevel {
					info.Features["level-up"] = true
				}
				lastLevel = level
				text := g.title()
				if spec.Flavour == "likepara" {
					page.AddElement(&model.Paragraph{Text: text, BBox: bbox, FontSize: 18})
				} else {
					page.AddElement(&model.Heading{Text: text, Level: level, BBox: bbox, FontSize: 18})
				}
				if lay != nil {
					lay.Headings = append(lay.Headings, model.HeadingInfo{Level: level, Text: text, BBox: bbox, FontSize: 18, Confidence: 0.9})
				}
				info.Headings++
				info.Levels[level] = true
				info.Kinds["heading"]++
			case k < 62: // paragraph
				var size int
				switch r.Intn(10) {
				case 0:
					size = 1 // one word
					info.Features["one-word-paragraph"] = true
				case 1, 2, 3:
					size = 30 + r.Intn(200)
				case 4, 5, 6:
					size = 200 + r.Intn(1000)
				case 7, 8:
					size = 800 + r.Intn(2500)
				default:
					size = spec.MaxPara/2 + r.Intn(spec.MaxPara/2+1)
					info.Features["huge-paragraph"] = true
				}
				text := g.prose(size)
				if r.Intn(6) == 0 {
					text += " " + capitalize(g.word()) + " the following " + g.tok.Next() + ":"
					info.Features["list-intro-paragraph"] = true
				}
				page.AddElement(&model.Paragraph{Text: text, BBox: bbox, FontSize: 11})
				if lay != nil {
					lay.Paragraphs = append(lay.Paragraphs, model.ParagraphInfo{Index: len(lay.Paragraphs), Text: text, BBox: bbox, FontSize: 11})
				}
				info.Kinds["paragraph"]++
			case k < 78: // list
				n := 1 + r.Intn(7)
				if r.Intn(12) == 0 {
					n = 30 + r.Intn(60)
					info.Features["long-list"] = true
				}
				items := make([]model.ListItem, n)
				lvl := 0
				nested := false
				for i := range items {
					switch r.Intn(4) {
					case 0:
						if lvl < 3 && i > 0 {
							lvl++
							nested = true
						}
					case 1:
						if lvl > 0 {
							lvl--
						}
					}
					it := g.tok.Next()
					if r.Intn(2) == 0 {
						it = g.prose(20 + r.Intn(120))
					}
					items[i] = model.ListItem{Text: it, Level: lvl, Bullet: "-"}
				}
				if nested {
					info.Features["nested-list"] = true
				}
				ordered := r.Intn(2) == 0
				page.AddElement(&model.List{Items: items, Ordered: ordered, BBox: bbox})
				if lay != nil {
					lt := model.ListTypeBullet
					if ordered {
						lt = model.ListTypeNumbered
					}
					lay.Lists = append(lay.Lists, model.ListInfo{Type: lt, Items: items, BBox: bbox, Nested: nested})
				}
				info.Kinds["list"]++
			case k < 90: // table (element view only)
				rows, cols := 1+r.Intn(5), 1+r.Intn(4)
				t := model.NewTable(rows, cols)
				for i := 0; i < rows; i++ {
					for j := 0; j < cols; j++ {
						cell := g.tok.Next()
						switch r.Intn(8) {
						case 0:
							cell = "a|b " + cell + " | c"
							info.Features["cell-with-pipe"] = true
						case 1:
							cell = g.word() + "\n" + cell
							info.Features["cell-with-newline"] = true
						case 2:
							cell = g.prose(40)
						}
						t.Rows[i][j].Text = cell
						t.Rows[i][j].IsHeader = i == 0
					}
				}
				if rows > 1 && r.Intn(5) == 0 {
					// ragged: rows below the first have more cells than the first one (a title
					// row over a wider body)
					for i := 1 + r.Intn(rows-1); i < rows; i++ {
						extra := t.Rows[i][len(t.Rows[i])-1]
						extra.Text = g.tok.Next()
						t.Rows[i] = append(t.Rows[i], extra)
						if r.Intn(2) == 0 {
							extra.Text = g.tok.Next()
							t.Rows[i] = append(t.Rows[i], extra)
						}
					}
					info.Features["table-ragged-wider-below"] = true
				}
				t.BBox = bbox
				page.AddElement(t)
				info.Kinds["table"]++
			default: // image
				img := &model.Image{Format: model.ImageFormatPNG, BBox: bbox}
				if r.Intn(3) > 0 {
					img.AltText = "figure " + g.title()
					info.Kinds["image"]++
					info.Features["image-alt"] = true
				} else {
					info.Features["image-no-alt"] = true
				}
				page.AddElement(img)
			}
		}
		switch spec.Numbering {
		case "addpage":
			info.Numbers = append(info.Numbers, pi+1)
			doc.AddPage(page)
		case "addpage-preset":
			page.Number = number
			info.Numbers = append(info.Numbers, number)
			doc.AddPage(page)
		default:
			page.Number = number
			info.Numbers = append(info.Numbers, number)
			doc.Pages = append(doc.Pages, page)
		}
		number += 1 + r.Intn(3)*r.Intn(2)
	}
	info.Features["flavour="+spec.Flavour] = true
	info.Features["numbering="+spec.Numbering] = true
	return doc, info
}

func describe(spec docSpec, info *genInfo) string {
	return fmt.Sprintf("%s/%s/pages=%d/maxpara=%d", spec.Flavour, spec.Numbering, spec.Pages, spec.MaxPara)
}
