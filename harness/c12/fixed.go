package c12

import (
	"fmt"
	"strings"

	"github.com/tsawler/tabula/model"
	"github.com/tsawler/tabula/rag"

	"verifharness/fw"
	cm "verifharness/ref/chunkmodel"
)

// fixed hand-written shapes (each page = list of "h<level>", "p", "P" (long
// paragraph), "l", "t", "i"); run with every flavour on every run.
var fixedShapes = map[string][][]string{
	"h1-h2-content":         {{"h1", "p", "h2", "p", "l"}},
	"h1-h3-h3":              {{"h1", "p", "h3", "p", "h3", "p"}},
	"h1-h2-h1-h2":           {{"h1", "h2", "p", "h1", "h2", "p", "h3", "p"}},
	"h3-first-then-h1":      {{"h3", "p", "h1", "p", "h2", "p"}},
	"heading-without-body":  {{"h1", "h1", "p"}, {"h2"}},
	"preamble-then-minor":   {{"p"}, {"h5", "p"}, {"p", "l"}},
	"sections-across-pages": {{"h1", "p"}, {"p", "l"}, {"h2", "p"}, {}, {"p", "h1", "p"}},
	"long-under-h2":         {{"h1", "p", "h2", "P", "l", "P"}, {"h2", "P"}},
	"tables-images":         {{"h1", "t", "p", "i", "h2", "t", "i", "p"}},
	"only-paragraphs":       {{"p", "P", "p"}, {"p"}},
	"intro-and-long-list":   {{"h1", "p:", "L", "p"}},
}

func buildFixed(r interface{ Intn(int) int }, shape [][]string, flavour string, tok *fw.Tokens, g *textGen) (*model.Document, *genInfo) {
	info := &genInfo{Features: map[string]bool{}, Levels: map[int]bool{}, Kinds: map[string]int{}}
	doc := model.NewDocument()
	doc.Metadata.Title = "Fixed"
	for pi, els := range shape {
		page := model.NewPage(612, 792)
		var lay *model.PageLayout
		if flavour != "elements" {
			lay = &model.PageLayout{}
			page.Layout = lay
		}
		for _, e := range els {
			switch {
			case e[0] == 'h':
				lvl := int(e[1] - '0')
				text := g.title()
				if flavour == "likepara" {
					page.AddElement(&model.Paragraph{Text: text})
				} else {
					page.AddElement(&model.Heading{Text: text, Level: lvl})
				}
				if lay != nil {
					lay.Headings = append(lay.Headings, model.HeadingInfo{Level: lvl, Text: text})
				}
				info.Headings++
				info.Levels[lvl] = true
			case e[0] == 'p' || e[0] == 'P':
				size := 120
				if e[0] == 'P' {
					size = 5000
				}
				text := g.prose(size)
				if strings.HasSuffix(e, ":") {
					text += " Consider the following " + tok.Next() + ":"
				}
				page.AddElement(&model.Paragraph{Text: text})
				if lay != nil {
					lay.Paragraphs = append(lay.Paragraphs, model.ParagraphInfo{Text: text})
				}
				info.Kinds["paragraph"]++
			case e[0] == 'l' || e[0] == 'L':
				n := 3
				if e[0] == 'L' {
					n = 80
				}
				items := make([]model.ListItem, n)
				for i := range items {
					items[i] = model.ListItem{Text: g.prose(40), Level: i % 2}
				}
				page.AddElement(&model.List{Items: items})
				if lay != nil {
					lay.Lists = append(lay.Lists, model.ListInfo{Type: model.ListTypeBullet, Items: items})
				}
				info.Kinds["list"]++
			case e[0] == 't':
				t := model.NewTable(2, 2)
				for i := 0; i < 2; i++ {
					for j := 0; j < 2; j++ {
						t.Rows[i][j].Text = tok.Next()
					}
				}
				page.AddElement(t)
				info.Kinds["table"]++
			case e[0] == 'i':
				page.AddElement(&model.Image{AltText: "alt " + tok.Next()})
				info.Kinds["image"]++
			}
		}
		info.Numbers = append(info.Numbers, pi+1)
		doc.AddPage(page)
	}
	return doc, info
}

func fixedCases(c *fw.Ctx) {
	names := make([]string, 0, len(fixedShapes))
	for k := range fixedShapes {
		names = append(names, k)
	}
	// deterministic order
	for i := range names {
		for j := i + 1; j < len(names); j++ {
			if names[j] < names[i] {
				names[i], names[j] = names[j], names[i]
			}
		}
	}
	for _, name := range names {
		for _, flavour := range []string{"elements", "both", "likepara"} {
			id := "fixed:" + name + ":" + flavour
			if !c.Want(id) {
				continue
			}
			r := c.Rand("fixed", name, flavour)
			tok := fw.NewTokens(r)
			g := &textGen{r: r, tok: tok}
			doc, info := buildFixed(r, fixedShapes[name], flavour, tok, g)
			c.Case(id, nontrivial(info))
			c.Seen("fixed_shape", name)
			base := map[string]any{"shape": fmt.Sprint(fixedShapes[name]), "flavour": flavour}
			eu := cm.FlattenElements(doc)
			setPages(eu, info.Numbers)
			fail := func(entry string, o *outcome, units []cm.Unit, chunks []*rag.Chunk) {
				if o != nil {
					c.Fail("", entry+"/"+o.class, id, entry+" on fixed shape "+name+": "+o.what,
						map[string]any{"shape": base["shape"], "flavour": flavour, "units": unitDump(units), "chunks": chunkDump(chunks)})
				}
			}
			c.Guard("ChunkDocument", id, base, func() {
				col := rag.ChunkDocument(doc)
				fail("ChunkDocument", checkElementView(eu, col.Chunks, c), eu, col.Chunks)
			})
			c.Guard("ChunkDocumentWithConfig", id, base, func() {
				col := rag.ChunkDocumentWithConfig(doc, rag.DefaultChunkerConfig(), rag.SmallChunkConfig())
				fail("ChunkDocumentWithConfig", checkElementView(eu, col.Chunks, c), eu, col.Chunks)
			})
			if flavour == "elements" {
				continue
			}
			for _, hl := range []int{3, 1, 6} {
				hl := hl
				c.Guard("Chunker.Chunk", id, base, func() {
					cfg := rag.DefaultChunkerConfig()
					cfg.MinHeadingLevel = hl
					cfg.MaxChunkSize = 1500
					lu := cm.FlattenLayout(doc, hl)
					setPages(lu, info.Numbers)
					res, err := rag.NewChunkerWithConfig(cfg).Chunk(doc)
					if err != nil {
						c.Fail("", "Chunker.Chunk/error", id, err.Error(), base)
						return
					}
					fail(fmt.Sprintf("NewChunkerWithConfig(MinHeadingLevel=%d).Chunk", hl), checkLayoutView(lu, res.Chunks, info.Numbers, c), lu, res.Chunks)
				})
			}
		}
	}
}
