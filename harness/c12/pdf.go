package c12

import (
	"fmt"
	"os"
	"path/filepath"

	tabula "github.com/tsawler/tabula"

	"verifharness/fw"
	"verifharness/gen/pdfw"
	cm "verifharness/ref/chunkmodel"
)

// PDF entry point (tabula.Open(x.pdf).Chunks()): plain pages, each opened by
// one large line (a heading by any size-based reading) over a block of body
// lines. The truth comes from what was drawn: every line once, in page order,
// each body block under the heading of its page.
func runPDFCase(c *fw.Ctx, i int) {
	id := fmt.Sprintf("pdf:%d", i)
	if !c.Want(id) {
		return
	}
	r := c.Rand("pdf", i)
	g := &textGen{r: r, tok: fw.NewTokens(r)}
	np := 1 + r.Intn(5)
	var pages []pdfw.SimplePage
	var units []cm.Unit
	info := &genInfo{Levels: map[int]bool{}, Kinds: map[string]int{}}
	for p := 0; p < np; p++ {
		pg := pdfw.SimplePage{W: 612, H: 792}
		title := "Chapter " + g.tok.Next()
		pg.Items = append(pg.Items, pdfw.SimpleItem{X: 72, Y: 720, Size: 24, Text: title, Bold: true})
		hu := cm.Unit{Kind: cm.Heading, Page: p + 1, Elem: 0, Level: 1, Text: title, Parts: []string{title}, Tokens: fw.FindTokens(title)}
		hu.ChainIn = []string{title}
		units = append(units, hu)
		info.Headings++
		info.Levels[1] = true
		pu := cm.Unit{Kind: cm.Paragraph, Page: p + 1, Elem: 1, Chain: []string{title}, ChainIn: []string{title}}
		y := 680.0
		for l := 0; l < 3+r.Intn(8); l++ {
			line := g.tok.Next() + " plain body words go on " + g.tok.Next() + " to the end of the line."
			pg.Items = append(pg.Items, pdfw.SimpleItem{X: 72, Y: y, Size: 11, Text: line})
			pu.Parts = append(pu.Parts, line)
			pu.Tokens = append(pu.Tokens, fw.FindTokens(line)...)
			y -= 15
		}
		units = append(units, pu)
		info.Kinds["paragraph"]++
		pages = append(pages, pg)
	}
	path := filepath.Join(c.Work, fmt.Sprintf("c12-pdf-%d.pdf", i))
	if err := os.WriteFile(path, pdfw.SimplePDF(pages), 0o644); err != nil {
		c.Inconclusive("cannot write scratch file: " + err.Error())
		return
	}
	defer os.Remove(path)
	c.Case(fmt.Sprintf("pdf|%d|%v", np, unitDump(units)), np >= 2)
	c.Seen("entry_point", "tabula.Open(pdf).Chunks")
	detail := map[string]any{"pages": np, "units": unitDump(units)}
	c.Guard("Open(pdf).Chunks", id, detail, func() {
		col, _, err := tabula.Open(path).Chunks()
		if err != nil {
			c.Fail("", "pdf/error", id, "tabula.Open(pdf).Chunks(): "+err.Error(), detail)
			return
		}
		c.Count("chunks_checked", int64(len(col.Chunks)))
		if o := checkElementView(units, col.Chunks, c); o != nil {
			detail["chunks"] = chunkDump(col.Chunks)
			c.Fail("", "Open(pdf).Chunks/"+o.class, id, "tabula.Open(pdf).Chunks(): "+o.what, detail)
		}
	})
}
