package c12

import (
	"fmt"
	"strings"

	tabula "github.com/tsawler/tabula"
	"github.com/tsawler/tabula/rag"

	"verifharness/fw"
	cm "verifharness/ref/chunkmodel"
)

// HTML entry point (tabula.FromHTMLString(html).Chunks()): plain hand-built
// HTML with h1..h6, p and flat ul/ol only, so that nothing of the HTML
// reader's heuristics (navigation filtering, nested blocks) is involved. The
// truth comes from the generator, not from the model the reader builds.
func runHTMLCase(c *fw.Ctx, i int) {
	id := fmt.Sprintf("html:%d", i)
	if !c.Want(id) {
		return
	}
	r := c.Rand("html", i)
	g := &textGen{r: r, tok: fw.NewTokens(r)}
	var sb strings.Builder
	sb.WriteString("<!DOCTYPE html>\n<html><head><meta charset=\"utf-8\"><title>Doc " + g.tok.Next() + "</title></head>\n<body>\n")
	var units []cm.Unit
	var st cm.Stack
	n := 3 + r.Intn(14)
	last := 0
	info := &genInfo{Levels: map[int]bool{}, Kinds: map[string]int{}}
	for e := 0; e < n; e++ {
		u := cm.Unit{Page: 1, Elem: e}
		switch k := r.Intn(10); {
		case k < 3:
			lvl := last + 1
			switch r.Intn(5) {
			case 0:
				lvl = 1 + r.Intn(6)
			case 1:
				lvl = last
			case 2:
				lvl = last + 2
			}
			if lvl < 1 {
				lvl = 1
			}
			if lvl > 6 {
				lvl = 6
			}
			last = lvl
			t := g.title()
			fmt.Fprintf(&sb, "<h%d>%s</h%d>\n", lvl, t, lvl)
			u.Kind, u.Level, u.Text, u.Parts = cm.Heading, lvl, t, []string{t}
			info.Headings++
			info.Levels[lvl] = true
		case k < 8:
			t := g.prose([]int{1, 60, 300, 1500, 6000}[r.Intn(5)])
			fmt.Fprintf(&sb, "<p>%s</p>\n", t)
			u.Kind, u.Parts = cm.Paragraph, []string{t}
			info.Kinds["paragraph"]++
		default:
			tag := []string{"ul", "ol"}[r.Intn(2)]
			sb.WriteString("<" + tag + ">\n")
			for k := 1 + r.Intn(5); k > 0; k-- {
				t := g.prose(10 + r.Intn(80))
				fmt.Fprintf(&sb, "  <li>%s</li>\n", t)
				u.Parts = append(u.Parts, t)
			}
			sb.WriteString("</" + tag + ">\n")
			u.Kind = cm.List
			info.Kinds["list"]++
		}
		for _, p := range u.Parts {
			u.Tokens = append(u.Tokens, fw.FindTokens(p)...)
		}
		u.Chain = st.Chain()
		if u.Kind == cm.Heading {
			st.Push(u.Level, u.Text)
		}
		u.ChainIn = st.Chain()
		units = append(units, u)
	}
	sb.WriteString("</body></html>\n")
	html := sb.String()
	c.Case("html|"+html, info.Headings >= 2 && len(info.Levels) >= 2 && len(info.Kinds) >= 2)
	c.Seen("entry_point", "tabula.FromHTMLString.Chunks")
	detail := map[string]any{"html": fw.OneLine(html, 6000)}
	c.Guard("FromHTMLString.Chunks", id, detail, func() {
		col, _, err := tabula.FromHTMLString(html).Chunks()
		if err != nil {
			c.Fail("", "html/error", id, "FromHTMLString(html).Chunks(): "+err.Error(), detail)
			return
		}
		c.Count("chunks_checked", int64(len(col.Chunks)))
		if o := checkElementView(units, col.Chunks, c); o != nil {
			c.Fail("", "FromHTMLString.Chunks/"+o.class, id, "FromHTMLString(html).Chunks(): "+o.what,
				map[string]any{"html": detail["html"], "units": unitDump(units), "chunks": chunkDump(col.Chunks)})
		}
	})
	_ = rag.ChunkLevelSection
}
