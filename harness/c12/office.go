package c12

import (
	"fmt"
	"os"
	"path/filepath"

	tabula "github.com/tsawler/tabula"
	"github.com/tsawler/tabula/rag"

	"verifharness/fw"
	"verifharness/gen/logical"
	"verifharness/gen/odf"
	"verifharness/gen/ooxml"
	cm "verifharness/ref/chunkmodel"
)

// Word-processor entry point (tabula.Open(f).Chunks() / ChunksWithConfig on a
// DOCX or ODT written by the independent writers): headings authored with the
// built-in styles, plain paragraphs, flat and nested lists, simple tables. The
// truth (units, enclosing heading chains) comes from the logical document, not
// from the model tabula builds.
func runOfficeCase(c *fw.Ctx, i int) {
	id := fmt.Sprintf("office:%d", i)
	if !c.Want(id) {
		return
	}
	r := c.Rand("office", i)
	format := []string{"docx", "odt"}[i%2]
	how := map[string]string{"docx": "builtin", "odt": "h"}[format]
	prof := logical.Profile{MinBlocks: 4, MaxBlocks: 14, HeadingHows: []string{how}, MaxHeadingLevel: []int{6, 6, 9}[i/2%3],
		Lists: true, ListMaxDepth: 2, Tables: i%3 == 0, MaxRows: 4, MaxCols: 3, Styles: 1,
		BlockBias: []string{"", "headings", "headings", "lists"}[r.Intn(4)]}
	d := logical.Gen(r, fw.NewTokens(r), prof)
	var units []cm.Unit
	var st cm.Stack
	info := &genInfo{Levels: map[int]bool{}, Kinds: map[string]int{}}
	for bi, b := range d.Blocks {
		u := cm.Unit{Page: 1, Elem: bi}
		switch b.Kind {
		case logical.BHeading:
			t := b.Heading.Para.PlainText()
			u.Kind, u.Level, u.Text, u.Parts = cm.Heading, b.Heading.Level, cm.Squeeze(t), []string{t}
			u.Text = t
			info.Headings++
			info.Levels[b.Heading.Level] = true
		case logical.BPara:
			u.Kind, u.Parts = cm.Paragraph, []string{b.Para.PlainText()}
			info.Kinds["paragraph"]++
		case logical.BList:
			u.Kind = cm.List
			for k := range b.List.Items {
				u.Parts = append(u.Parts, b.List.Items[k].Para.PlainText())
			}
			info.Kinds["list"]++
		case logical.BTable:
			u.Kind = cm.Table
			for _, row := range b.Table.Cells {
				for _, cell := range row {
					if cell == nil {
						continue
					}
					for k := range cell.Paras {
						u.Parts = append(u.Parts, cell.Paras[k].PlainText())
					}
				}
			}
			info.Kinds["table"]++
		}
		for _, p := range u.Parts {
			u.Tokens = append(u.Tokens, fw.FindTokens(p)...)
		}
		u.Chain = st.Chain()
		if u.Kind == cm.Heading {
			st.Push(u.Level, u.Text)
		}
		u.ChainIn = st.Chain()
		units = append(units, u)
	}
	var data []byte
	if format == "docx" {
		data = ooxml.WriteDocx(d, ooxml.DocxOptions{})
	} else {
		data = odf.WriteODT(d, odf.Options{})
	}
	path := filepath.Join(c.Work, fmt.Sprintf("c12-office-%d.%s", i, format))
	if err := os.WriteFile(path, data, 0o644); err != nil {
		c.Inconclusive("cannot write scratch file: " + err.Error())
		return
	}
	defer os.Remove(path)
	c.Case("office|"+format+"|"+d.Describe(), info.Headings >= 2 && len(info.Levels) >= 2 && len(info.Kinds) >= 2)
	c.Seen("entry_point", "tabula.Open("+format+").Chunks")
	detail := map[string]any{"format": format, "document": d.Describe(), "units": unitDump(units)}
	c.Guard("Open.Chunks", id, detail, func() {
		col, _, err := tabula.Open(path).Chunks()
		if err != nil {
			c.Fail("", "office/error", id, "tabula.Open("+format+").Chunks(): "+err.Error(), detail)
			return
		}
		c.Count("chunks_checked", int64(len(col.Chunks)))
		if o := checkElementView(units, col.Chunks, c); o != nil {
			detail["chunks"] = chunkDump(col.Chunks)
			c.Fail("", "Open("+format+").Chunks/"+o.class, id, "tabula.Open("+format+").Chunks(): "+o.what, detail)
			return
		}
		// the same through an explicit configuration (small chunks: more boundaries)
		cfg := rag.DefaultChunkerConfig()
		sc := rag.DefaultSizeConfig()
		col2, _, err := tabula.Open(path).ChunksWithConfig(cfg, sc)
		if err != nil {
			c.Fail("", "office/error", id, "tabula.Open("+format+").ChunksWithConfig(defaults): "+err.Error(), detail)
			return
		}
		if o := checkElementView(units, col2.Chunks, c); o != nil {
			detail["chunks"] = chunkDump(col2.Chunks)
			c.Fail("", "Open("+format+").ChunksWithConfig/"+o.class, id, "tabula.Open("+format+").ChunksWithConfig(defaults): "+o.what, detail)
		}
	})
}
